(* DomSearch.v — property C10 at solver level: the sequential branch-and-bound model (Solver.v) run WITH a
   dominance rule (SimpleDominanceChecker, Dom.v), no cache, SimpleFringe, clean flavours (CleanLEL, CleanFC).

   FINDINGS (closed, by vm_compute; section 2)
     C10_refuted_for_admissible_rules   the natural premise [admissible_H] "a dominates b (same key, every coordinate >=)
        implies value-to-go(a) >= value-to-go(b)", proved here for ALL states and depths of the instance, does NOT make
        the solver return the optimum: instance cyc_ti (6 variables, 18 base states, use_value = true, coordinate 0 =
        the exact value-to-go, coordinate 1 = a free tag), CleanLEL, width 2: maximize returns 6 with is_exact = true,
        the optimum is 11 (without the rule: 11).  The same run was reproduced on the Rust code.  Mechanism: a relaxed
        compilation records exact nodes lying BELOW its cut-set (a restricted one records nodes it then truncates);
        such an entry is a promise that only the cut-set ancestor keeps; another sub-problem records a node dominating
        an intermediate node of that ancestor's path while its own continuation is dropped because of the promised
        entry: both optimal runs are lost, each pruning being justified by value-to-go admissibility.
     C10_refuted_without_values   with use_value = false the checker compares states only and prunes nodes of LARGER
        value: the same state-only premise is refuted on a 2-variable instance (returns 1, optimum 10, any width).

   POSITIVE RESULT (closed; sections 3-11)
     premise [opt_undominated]: no reachable (state, value) pair whose best completion is the optimum is STRICTLY
     dominated (same key) by a reachable pair of the same depth.  It follows from [strictly_admissible] (strict
     dominance implies a strictly better best completion: strictly_admissible_undominated), which the generators'
     one-coordinate rule (coordinate 0 = value-to-go, use_value = true) satisfies (coord_is_H_strict), and from the
     executable check [check_undominated] (check_undominated_sound).
       C10_sequential_dominance_optimal          the statement of Assembly.C01_sequential_optimal with
                                                 sc_domrule cfg = Some rule, under opt_undominated
       C10_sequential_dominance_optimal_strict   the same under strictly_admissible
       C10_dominance_does_not_change_the_answer  maximize with the rule = maximize without it = the optimum
       C10_table_instances, exd_C10, exd_prunes  non-vacuity on the table family; an instance where the rule prunes
     NOT proved: the theorem for transition-monotone rules that are not strictly admissible (e.g. knapsack capacity);
     the numeric invariant used here (the optimum is carried by the incumbent or by an open sub-problem) is not
     inductive for them, because an optimal node may legitimately be dropped in favour of a recorded entry.

   Plan  1 premises  2 refutations  3 solver-level induction from the contracts KD0..KD5 (stated for the optimum only,
   a store invariant threaded through the compilations: dom_maximize_correct)  4 the dominance filter of one layer
   (dom_retain_spec)  5 nothing else touches the store  6 MddProgress.v re-run with a rule (compile_factsD,
   cutset_size_boundD)  7 MddSim.v re-run with a rule and a threshold tau (move_simD, layer_loop_simT, S1T..S4T):
   runs whose value exceeds tau are tracked, their nodes are never dropped (tracked_not_droppable)  8 the contracts
   (KD_all)  9 the theorem  10 sufficient conditions  11 stated forms  12 table family.
   The 164 lemmas of MddSim.v that do not depend on the absence of a rule are reused as they are ([inst]). *)
Require Import DDO.Base DDO.Fringe DDO.DP DDO.Cache DDO.Dom DDO.DomProofs DDO.Mdd DDO.MddStruct DDO.MddExact.
Require Import DDO.Solver DDO.SolverProofs DDO.MddProgress DDO.MddSim DDO.Table DDO.Run DDO.Assembly DDO.TableWf.
From Coq Require Import Lia List Arith ZArith Bool Permutation.
Import ListNotations.
Local Open Scope Z_scope.

(* ================================================================== 1. the premises on the user's rule *)
Section Premises.
  Context {St : Type}.
  Variable pb : problem St.
  Variable key : St -> option Z.
  Variable nd : nat.
  Variable coord : St -> nat -> Z.
  Variable usev : bool.

  Definition same_key (a b : St) : Prop := exists k, key a = Some k /\ key b = Some k.

  (* (a, va) is reached by a feasible run of d decisions from the root of the problem *)
  Definition reach (d : nat) (a : St) (va : Z) : Prop :=
    exists ds, frun pb 0 (init_state pb) (init_value pb) ds = Some (a, va) /\ length ds = d.

  (* the checker's verdict "(a, va) strictly dominates (b, vb)" (DomProofs.partial_cmp_Lt_iff) *)
  Definition sdom (a : St) (va : Z) (b : St) (vb : Z) : Prop :=
    le_all nd coord usev b vb a va /\ ~ le_all nd coord usev a va b vb.

  (* the natural premise: dominance on the coordinates implies dominance of the values-to-go, for ALL states and
     depths (REFUTED below; a fortiori its restrictions to reachable states are refuted) *)
  Definition admissible_H : Prop :=
    forall d a b, same_key a b -> (forall i, (i < nd)%nat -> coord b i <= coord a i) ->
    forall h, H pb d b = Some h -> exists h', H pb d a = Some h' /\ h <= h'.

  (* strict dominance implies a strictly better best completion, on reachable pairs *)
  Definition strictly_admissible : Prop :=
    forall d a va b vb, reach d a va -> reach d b vb -> same_key a b -> sdom a va b vb ->
    forall h, H pb d b = Some h -> exists h', H pb d a = Some h' /\ vb + h < va + h'.

  (* what the proof uses: a pair whose best completion is the optimum is never strictly dominated *)
  Definition opt_undominated : Prop :=
    forall o, opt_enum pb = Some o ->
    forall d a va b vb, reach d a va -> reach d b vb -> same_key a b -> sdom a va b vb ->
    forall h, H pb d b = Some h -> vb + h < o.
End Premises.

(* ================================================================== 2. the refutations *)
Lemma main_loop_more {St} (st_eqb : St -> St -> bool) cfg : forall fuel s s',
  main_loop st_eqb cfg fuel s = (s', Finished) -> forall k, main_loop st_eqb cfg (fuel + k) s = (s', Finished).
Proof.
  induction fuel as [|fuel IH]; intros s s' Hm k; [cbn [main_loop] in Hm; discriminate|].
  cbn [Nat.add main_loop] in Hm |- *. destruct (s_crash s); [exact Hm|].
  destruct (get_workload st_eqb cfg s) as [s1 w]. destruct w as [| |node]; try exact Hm.
  destruct (process_one_node st_eqb cfg s1 node) as [s2 err]. destruct err; [exact Hm|]. apply IH. exact Hm.
Qed.

Lemma maximize_more {St} (st_eqb : St -> St -> bool) cfg fuel primal :
  r_outoffuel (maximize st_eqb cfg fuel primal) = false ->
  forall k, maximize st_eqb cfg (fuel + k) primal = maximize st_eqb cfg fuel primal.
Proof.
  unfold maximize. intros Hf k.
  destruct (main_loop st_eqb cfg fuel _) as [s e] eqn:Hm. destruct e; [|cbn [r_outoffuel] in Hf; discriminate].
  rewrite (main_loop_more st_eqb cfg fuel _ s Hm k). reflexivity.
Qed.

(* ---- 2a. use_value = true, the rule is admissible for the values-to-go, the optimum is lost
   base states: 0 root | 1 A, 2 B | 3 y, 4 c', 5 c | 8 e1, 9 mu | 10 w, 11 nu | 12 q1, 13 w2, 14 nu2, 15 p1, 16 p2 | 17 t
   two optimal runs (value 11):  0 -> A -> c -> mu -> nu -> nu2 -> t   and   0 -> B -> y -> e1 -> w -> w2 -> t
   rule: keys 3 (e1, mu) and 4 (w, nu); coordinates (value-to-go, tag): e1 = (10,1) > mu = (10,0); nu = (10,1) > w = (10,0).
   Width 2, last-exact-layer cut-sets.  The root's relaxed diagram has cut-set {A, B} (layer 2 = {c, c', y} is merged into
   c and {c', y}); below it, mu and nu are still exact and are RECORDED in the store.  B is popped first: e1 replaces mu in
   the store, then w is dropped because of nu: the diagram of B is empty, hence exact.  Then A: mu is dropped because of e1:
   empty, exact.  The fringe is empty and the incumbent is the 6 found by the root's restricted diagram. *)
Definition cyc_ti : tinst := {|
  t_nvars := 6; t_nbase := 18; t_init := 0; t_initval := 0; t_slack := 0; t_rubkind := 0; t_domkind := 1;
  t_usevalue := true; t_ncoord := 2; t_order := [0; 1; 2; 3; 4; 5]%nat;
  t_trans := [ (0%nat, 0, 0, 1, 0); (0%nat, 0, 1, 2, 0);
               (1%nat, 1, 0, 5, 0); (1%nat, 1, 1, 4, 0); (1%nat, 2, 0, 3, 0);
               (2%nat, 5, 0, 9, 1); (2%nat, 3, 0, 8, 1);
               (3%nat, 9, 0, 11, 0); (3%nat, 8, 0, 10, 0);
               (4%nat, 11, 0, 14, 0); (4%nat, 11, 1, 15, 5); (4%nat, 11, 2, 16, 5); (4%nat, 10, 0, 13, 0); (4%nat, 10, 1, 12, 5);
               (5%nat, 14, 0, 17, 10); (5%nat, 15, 0, 17, 0); (5%nat, 16, 0, 17, 0); (5%nat, 13, 0, 17, 10); (5%nat, 12, 0, 17, 0) ];
  t_notimp := []; t_rub := [];
  t_key := [-1; -1; -1; -1; -1; -1; -1; -1; 3; 3; 4; 4; -1; -1; -1; -1; -1; -1];
  t_coords := [[0;0];[0;0];[0;0];[0;0];[0;0];[0;0];[0;0];[0;0];[10;1];[10;0];[10;0];[10;1];[0;0];[0;0];[0;0];[0;0];[0;0];[0;0]];
  t_mergekind := 0; t_pos := []; t_up := [] |}.

Example cyc_wf : t_wf cyc_ti 10.
Proof. apply t_wfb_spec. vm_compute. reflexivity. Qed.

Example cyc_opt : opt_enum (t_problem cyc_ti) = Some 11.
Proof. vm_compute. reflexivity. Qed.

Lemma small_Z_cases (x : Z) (n : nat) : 0 <= x < Z.of_nat n -> In x (map Z.of_nat (seq 0 n)).
Proof.
  intros Hx. apply in_map_iff. exists (Z.to_nat x). split; [lia|]. apply in_seq. lia.
Qed.

Lemma cyc_keyed s k : t_key_of cyc_ti s = Some k ->
  ((s = [8] \/ s = [9]) /\ k = 3) \/ ((s = [10] \/ s = [11]) /\ k = 4).
Proof.
  destruct s as [|x [|y r]]; cbn [t_key_of]; try discriminate.
  destruct (Z_lt_le_dec x 0) as [Hneg|Hpos].
  { destruct x as [|p|p]; try lia. cbn. discriminate. }
  destruct (Z_lt_le_dec x 18) as [Hlt|Hge].
  - pose proof (small_Z_cases x 18 (conj Hpos Hlt)) as Hin. cbn in Hin.
    repeat (destruct Hin as [<-|Hin]; [cbn; first [discriminate | intros E; inversion E; subst; tauto]|]). destruct Hin.
  - rewrite nth_overflow by (cbn [t_key cyc_ti length]; lia). cbn. discriminate.
Qed.

Lemma cyc_admissible : admissible_H (t_problem cyc_ti) (t_key_of cyc_ti) 2 (t_coord cyc_ti).
Proof.
  intros d a b (k & Ka & Kb) _ h Hh.
  assert (Hpair : (In a [[8];[9]] /\ In b [[8];[9]]) \/ (In a [[10];[11]] /\ In b [[10];[11]])).
  { apply cyc_keyed in Ka. apply cyc_keyed in Kb. cbn [In].
    destruct Ka as [[Ha ->]|[Ha ->]], Kb as [[Hb E]|[Hb E]]; try discriminate; [left|right]; intuition. }
  destruct (le_lt_dec 6 d) as [Hge|Hlt].
  { rewrite (H_end (t_problem cyc_ti) (TableWf.nv_none cyc_ti eq_refl) d b Hge) in Hh. inversion Hh; subst h.
    exists 0. split; [apply (H_end (t_problem cyc_ti) (TableWf.nv_none cyc_ti eq_refl) d a Hge)|lia]. }
  assert (Hd : In d (seq 0 6)) by (apply in_seq; lia). cbn in Hd.
  destruct Hpair as [[Ha Hb]|[Ha Hb]]; cbn [In] in Ha, Hb;
    repeat (destruct Ha as [<-|Ha]; [|]); try contradiction;
    repeat (destruct Hb as [<-|Hb]; [|]); try contradiction;
    repeat (destruct Hd as [<-|Hd]; [|]); try contradiction;
    vm_compute in Hh; try discriminate; inversion Hh; subst h; exists 10; (split; [vm_compute; reflexivity|lia]).
Qed.

Definition run_view (r : sresult) := (r_crash r, r_outoffuel r, r_exact r, r_value r, r_lb r, r_ub r).

Theorem C10_refuted_for_admissible_rules :
  t_wf cyc_ti 10 /\
  sc_domrule (tb_sconfig cyc_ti CleanLEL false false true 2 0) = Some (t_key_of cyc_ti, 2%nat, t_coord cyc_ti, true) /\
  admissible_H (t_problem cyc_ti) (t_key_of cyc_ti) 2 (t_coord cyc_ti) /\
  opt_enum (t_problem cyc_ti) = Some 11 /\
  (forall fuel, (40 <= fuel)%nat ->
     run_view (maximize tstate_eqb (tb_sconfig cyc_ti CleanLEL false false true 2 0) fuel None)
       = (false, false, true, Some 6, 6, 6)) /\
  (forall fuel, (40 <= fuel)%nat ->
     run_view (maximize tstate_eqb (tb_sconfig cyc_ti CleanLEL false false false 2 0) fuel None)
       = (false, false, true, Some 11, 11, 11)).
Proof.
  split; [exact cyc_wf|]. split; [reflexivity|]. split; [exact cyc_admissible|]. split; [exact cyc_opt|].
  split; intros fuel Hfuel; replace fuel with (40 + (fuel - 40))%nat by lia;
    (rewrite maximize_more; [vm_compute; reflexivity|vm_compute; reflexivity]).
Qed.

(* ---- 2b. use_value = false: the checker compares the states only.  Two children of the root: state 1 (value 0,
   value-to-go 1, coordinate 1) and state 2 (value 10, value-to-go 0, coordinate 0).  State 1 dominates state 2 and the
   value-to-go premise holds, yet the node of value 10 is dropped: the solver returns 1, the optimum is 10. *)
Definition nov_ti : tinst := {|
  t_nvars := 2; t_nbase := 4; t_init := 0; t_initval := 0; t_slack := 0; t_rubkind := 0; t_domkind := 1;
  t_usevalue := false; t_ncoord := 1; t_order := [0; 1]%nat;
  t_trans := [ (0%nat, 0, 0, 1, 0); (0%nat, 0, 1, 2, 10); (1%nat, 1, 0, 3, 1); (1%nat, 2, 0, 3, 0) ];
  t_notimp := []; t_rub := [];
  t_key := [-1; 7; 7; -1];
  t_coords := [[0];[1];[0];[0]];
  t_mergekind := 0; t_pos := []; t_up := [] |}.

Lemma nov_keyed s k : t_key_of nov_ti s = Some k -> s = [1] \/ s = [2].
Proof.
  destruct s as [|x [|y r]]; cbn [t_key_of]; try discriminate.
  destruct (Z_lt_le_dec x 0) as [Hneg|Hpos].
  { destruct x as [|p|p]; try lia. cbn. discriminate. }
  destruct (Z_lt_le_dec x 4) as [Hlt|Hge].
  - pose proof (small_Z_cases x 4 (conj Hpos Hlt)) as Hin. cbn in Hin.
    repeat (destruct Hin as [<-|Hin]; [cbn; first [discriminate | tauto]|]). destruct Hin.
  - rewrite nth_overflow by (cbn [t_key nov_ti length]; lia). cbn. discriminate.
Qed.

Lemma nov_admissible : admissible_H (t_problem nov_ti) (t_key_of nov_ti) 1 (t_coord nov_ti).
Proof.
  intros d a b (k & Ka & Kb) Hc h Hh. specialize (Hc 0%nat ltac:(lia)).
  apply nov_keyed in Ka. apply nov_keyed in Kb.
  destruct (le_lt_dec 2 d) as [Hge|Hlt].
  { rewrite (H_end (t_problem nov_ti) (TableWf.nv_none nov_ti eq_refl) d b Hge) in Hh. inversion Hh; subst h.
    exists 0. split; [apply (H_end (t_problem nov_ti) (TableWf.nv_none nov_ti eq_refl) d a Hge)|lia]. }
  assert (Hd : In d (seq 0 2)) by (apply in_seq; lia). cbn in Hd.
  destruct Ka as [->| ->], Kb as [->| ->]; cbn in Hc; try lia;
    repeat (destruct Hd as [<-|Hd]; [|]); try contradiction;
    vm_compute in Hh; try discriminate; inversion Hh; subst h;
    first [ exists 1; split; [vm_compute; reflexivity|lia] | exists 0; split; [vm_compute; reflexivity|lia] ].
Qed.

Theorem C10_refuted_without_values :
  t_wf nov_ti 10 /\
  sc_domrule (tb_sconfig nov_ti CleanLEL false false true 3 0) = Some (t_key_of nov_ti, 1%nat, t_coord nov_ti, false) /\
  admissible_H (t_problem nov_ti) (t_key_of nov_ti) 1 (t_coord nov_ti) /\
  opt_enum (t_problem nov_ti) = Some 10 /\
  (forall flv width fuel, (flv = CleanLEL \/ flv = CleanFC) -> In width [1; 2; 3]%nat -> (40 <= fuel)%nat ->
     run_view (maximize tstate_eqb (tb_sconfig nov_ti flv false false true width 0) fuel None)
       = (false, false, true, Some 1, 1, 1)).
Proof.
  split; [apply t_wfb_spec; vm_compute; reflexivity|]. split; [reflexivity|]. split; [exact nov_admissible|].
  split; [vm_compute; reflexivity|].
  intros flv width fuel Hflv Hw Hfuel. replace fuel with (40 + (fuel - 40))%nat by lia.
  cbn [In] in Hw.
  destruct Hflv as [-> | ->]; repeat (destruct Hw as [<-|Hw]; [rewrite maximize_more; vm_compute; reflexivity|]); destruct Hw.
Qed.

(* ================================================================== 3. the solver-level induction
   SolverProofs.v re-run with (i) a dominance rule allowed, (ii) a store invariant [dsok] threaded through the
   compilations, (iii) the completeness contracts (KD2, KD3_ub, KD4) required for the OPTIMUM only. *)
Section DomSolver.
  Context {St : Type}.
  Variable st_eqb : St -> St -> bool.
  Variable cfg : @sconfig St.
  Let pb := sc_problem cfg.
  Let N := nb_vars pb.

  Hypothesis cfg_nocache : sc_use_cache cfg = false.
  Hypothesis cfg_nodup : sc_nodup cfg = false.

  Variable good : @subproblem St -> Prop.
  Variable best : @subproblem St -> option Z.
  Variable feasible : list decision -> Z -> Prop.
  Let OPT : option Z := best (root_node cfg).

  Hypothesis good_root : good (root_node cfg).
  Hypothesis feasible_le_opt : forall sol v, feasible sol v -> exists o, OPT = Some o /\ v <= o.
  Hypothesis opt_in_isize : forall o, OPT = Some o -> IMIN < o <= IMAX.
  Hypothesis good_set_ub : forall c u, good c -> good (set_ub c u).
  Hypothesis best_set_ub : forall c u, best (set_ub c u) = best c.

  (* the invariant of the dominance store *)
  Variable dsok : @dstore St Z -> Prop.
  Hypothesis dsok_init : dsok (init_dstore N).

  Variable M : nat.

  Hypothesis KD0 : forall ct n lb c ds polls m out,
    dd_ct ct -> good n -> (sp_depth n <= N)%nat -> dsok ds ->
    compile st_eqb (mk_input cfg ct n lb) 0 0 c ds polls = (m, out) ->
    out = Compiled /\ m_crash m = false /\ dsok (m_dom m).
  Hypothesis KD1 : forall ct n lb c ds polls m out,
    dd_ct ct -> good n -> (sp_depth n <= N)%nat -> dsok ds ->
    compile st_eqb (mk_input cfg ct n lb) 0 0 c ds polls = (m, out) ->
    forall v, dd_best_exact_value (mk_input cfg ct n lb) m = Some v ->
    exists sol, dd_best_exact_solution (mk_input cfg ct n lb) m = Some sol /\ feasible sol v.
  Hypothesis KD2 : forall ct n lb c ds polls m out,
    dd_ct ct -> good n -> (sp_depth n <= N)%nat -> dsok ds ->
    compile st_eqb (mk_input cfg ct n lb) 0 0 c ds polls = (m, out) ->
    dd_is_exact m = true ->
    forall o, OPT = Some o -> best n = Some o -> o > lb -> dd_best_exact_value (mk_input cfg ct n lb) m = Some o.
  Hypothesis KD3_good : forall n lb c ds polls m out,
    good n -> (sp_depth n <= N)%nat -> dsok ds ->
    compile st_eqb (mk_input cfg Relaxed n lb) 0 0 c ds polls = (m, out) ->
    dd_is_exact m = false ->
    forall x, In x (drain_cutset (mk_input cfg Relaxed n lb) m) -> good x.
  Hypothesis KD3_depth : forall n lb c ds polls m out,
    good n -> (sp_depth n <= N)%nat -> dsok ds ->
    compile st_eqb (mk_input cfg Relaxed n lb) 0 0 c ds polls = (m, out) ->
    dd_is_exact m = false ->
    forall x, In x (drain_cutset (mk_input cfg Relaxed n lb) m) -> (sp_depth n < sp_depth x <= N)%nat.
  Hypothesis KD3_ub : forall n lb c ds polls m out,
    good n -> (sp_depth n <= N)%nat -> dsok ds ->
    compile st_eqb (mk_input cfg Relaxed n lb) 0 0 c ds polls = (m, out) ->
    dd_is_exact m = false ->
    forall x, In x (drain_cutset (mk_input cfg Relaxed n lb) m) ->
    forall o, OPT = Some o -> best x = Some o -> o > lb -> o <= sp_ub x.
  Hypothesis KD4 : forall n lb c ds polls m out,
    good n -> (sp_depth n <= N)%nat -> dsok ds ->
    compile st_eqb (mk_input cfg Relaxed n lb) 0 0 c ds polls = (m, out) ->
    dd_is_exact m = false ->
    forall o, OPT = Some o -> best n = Some o -> o > lb ->
    (forall e, dd_best_exact_value (mk_input cfg Relaxed n lb) m = Some e -> e < o) ->
    exists x, In x (drain_cutset (mk_input cfg Relaxed n lb) m) /\ best x = Some o.
  Hypothesis KD5 : forall n lb c ds polls m out,
    good n -> (sp_depth n <= N)%nat -> dsok ds ->
    compile st_eqb (mk_input cfg Relaxed n lb) 0 0 c ds polls = (m, out) ->
    dd_is_exact m = false ->
    (length (drain_cutset (mk_input cfg Relaxed n lb) m) <= M)%nat.

  (* ---- fringe in SimpleFringe mode *)
  Lemma d_fr_len_simple s : fr_len cfg s = length (s_simple s).
  Proof. unfold fr_len. rewrite cfg_nodup. reflexivity. Qed.

  Lemma d_fr_push_simple s n :
    fr_push st_eqb cfg s n =
    upd_s s (n :: s_simple s) (s_nodup s) (s_explored s) (s_open s) (s_fal s) (s_lb s) (s_ub s) (s_sol s) (s_abort s)
          (s_cache s) (s_dom s) (s_polls s) (s_crash s) (s_tie s) (s_compiles s).
  Proof. unfold fr_push. rewrite cfg_nodup. reflexivity. Qed.

  Lemma d_fr_pop_simple s :
    fr_pop st_eqb cfg s =
    match pq_pop cfg (s_simple s) with
    | None => (s, None)
    | Some (x, rest) => (upd_s s rest (s_nodup s) (s_explored s) (s_open s) (s_fal s) (s_lb s) (s_ub s) (s_sol s)
                         (s_abort s) (s_cache s) (s_dom s) (s_polls s) (s_crash s) (s_tie s) (s_compiles s), Some x)
    end.
  Proof. unfold fr_pop. rewrite cfg_nodup. reflexivity. Qed.

  (* ---- observable part of a state, now with the store *)
  Definition dview (s : @sstate St) :=
    (s_simple s, s_open s, s_lb s, s_sol s, s_abort s, s_crash s, s_dom s).

  Lemma dview_inv s s' : dview s' = dview s ->
    s_simple s' = s_simple s /\ s_open s' = s_open s /\ s_lb s' = s_lb s /\ s_sol s' = s_sol s /\
    s_abort s' = s_abort s /\ s_crash s' = s_crash s /\ s_dom s' = s_dom s.
  Proof. unfold dview; intros H; inversion H; auto 10. Qed.

  Definition dwt (n : @subproblem St) : nat := (S M) ^ (N - sp_depth n).
  Definition dPhi (l : list (@subproblem St)) : nat := sumf dwt l.
  Definition dcnt (d : nat) (l : list (@subproblem St)) : nat := cntp (fun n => Nat.eqb (sp_depth n) d) l.

  Lemma dcnt_perm d l l' : Permutation l l' -> dcnt d l = dcnt d l'.
  Proof. apply sumf_perm. Qed.
  Lemma dPhi_perm l l' : Permutation l l' -> dPhi l = dPhi l'.
  Proof. apply sumf_perm. Qed.
  Lemma dcnt_cons_same x l : dcnt (sp_depth x) (x :: l) = S (dcnt (sp_depth x) l).
  Proof. unfold dcnt, cntp; simpl. rewrite Nat.eqb_refl. reflexivity. Qed.
  Lemma dcnt_cons_other d x l : sp_depth x <> d -> dcnt d (x :: l) = dcnt d l.
  Proof. intros H. unfold dcnt, cntp; simpl. apply Nat.eqb_neq in H. rewrite H. reflexivity. Qed.
  Lemma dwt_pos n : (1 <= dwt n)%nat.
  Proof. unfold dwt. pose proof (Nat.pow_nonzero (S M) (N - sp_depth n)). lia. Qed.

  Definition DIncumbent (lb : Z) (sol : option (list decision)) : Prop :=
    IMIN <= lb /\ ((sol = None /\ lb = IMIN) \/ exists l, sol = Some l /\ feasible l lb).
  Definition DFringeOK (l : list (@subproblem St)) : Prop :=
    forall n, In n l -> good n /\ (sp_depth n <= N)%nat.
  Definition DOpenOK (op : list nat) (l : list (@subproblem St)) : Prop :=
    forall d, (d <= N)%nat -> nth_error op d = Some (dcnt d l).

  Definition DCore (s : @sstate St) : Prop :=
    s_crash s = false /\ s_abort s = false /\ DIncumbent (s_lb s) (s_sol s) /\
    DFringeOK (s_simple s) /\ DOpenOK (s_open s) (s_simple s) /\ dsok (s_dom s).

  Definition DCompl (s : @sstate St) (extra : list (@subproblem St)) : Prop :=
    forall o, OPT = Some o ->
      o <= s_lb s \/ exists n, (In n extra \/ In n (s_simple s)) /\ best n = Some o /\ o <= sp_ub n.

  Definition DInv (s : @sstate St) : Prop := DCore s /\ DCompl s [].

  Lemma DCore_view s s' : dview s' = dview s -> DCore s -> DCore s'.
  Proof.
    intros H. apply dview_inv in H. destruct H as (H1 & H2 & H3 & H4 & H5 & H6 & H7).
    unfold DCore. rewrite H1, H2, H3, H4, H5, H6, H7. auto.
  Qed.

  Lemma d_clean_cache_loop_view fuel s :
    (forall d, (d <= N)%nat -> exists k, nth_error (s_open s) d = Some k) ->
    dview (clean_cache_loop cfg fuel s) = dview s.
  Proof.
    revert s; induction fuel as [|fuel IH]; intros s H; cbn [clean_cache_loop]; [reflexivity|].
    destruct (Nat.ltb (s_fal s) (nb_vars (sc_problem cfg))) eqn:E; [|reflexivity].
    apply Nat.ltb_lt in E. destruct (H (s_fal s)) as [k Hk]; [unfold N, pb; lia|].
    rewrite Hk. destruct k; [|reflexivity]. rewrite cfg_nocache. rewrite IH; [reflexivity|]. exact H.
  Qed.

  Lemma d_get_workload_spec s : DCore s ->
    (s_simple s = [] /\ exists s1, get_workload st_eqb cfg s = (s1, WComplete) /\
       s_simple s1 = [] /\ s_crash s1 = false /\ s_abort s1 = false /\ s_lb s1 = s_lb s /\
       s_sol s1 = s_sol s /\ s_ub s1 = s_lb s)
    \/ (exists x rest s1, get_workload st_eqb cfg s = (s1, WItem x) /\ Permutation (s_simple s) (x :: rest) /\
         s_simple s1 = rest /\ DCore s1 /\ s_lb s1 = s_lb s).
  Proof.
    intros (Hcr & Hab & Hinc & Hfr & Hop & Hds).
    unfold get_workload.
    set (sc := clean_cache_loop cfg (S (nb_vars (sc_problem cfg))) s).
    assert (Hv : dview sc = dview s).
    { apply d_clean_cache_loop_view. intros d Hd. eexists. apply Hop. exact Hd. }
    apply dview_inv in Hv. destruct Hv as (V1 & V2 & V3 & V4 & V5 & V6 & V7).
    rewrite d_fr_len_simple, V1.
    destruct (s_simple s) as [|y l] eqn:El.
    - left. split; [reflexivity|]. eexists. split; [reflexivity|].
      cbn [s_simple s_crash s_abort s_lb s_sol s_ub upd_s]. rewrite V3, V4, V5, V6. auto 10.
    - right. cbn [length Nat.eqb]. rewrite V5, Hab. rewrite d_fr_pop_simple, V1.
      destruct (pq_pop cfg (y :: l)) as [[x rest]|] eqn:Ep; [|apply pq_pop_none in Ep; discriminate].
      pose proof (pq_pop_perm _ _ _ _ Ep) as Hperm.
      assert (Hx : In x (y :: l)). { eapply Permutation_in; [apply Permutation_sym; exact Hperm|]. left; reflexivity. }
      destruct (Hfr x Hx) as [Hgx Hdx].
      cbn [s_open upd_s]. rewrite V2, (Hop _ Hdx).
      rewrite (dcnt_perm _ _ _ Hperm), dcnt_cons_same.
      exists x, rest. eexists. split; [reflexivity|]. split; [exact Hperm|].
      cbn [s_simple s_lb upd_s]. split; [reflexivity|]. split; [|exact V3].
      unfold DCore. cbn [s_simple s_crash s_abort s_lb s_sol s_open s_dom upd_s].
      rewrite ?V2, ?V3, ?V4, ?V5, ?V6, ?V7. split; [exact Hcr|]. split; [exact Hab|]. split; [exact Hinc|]. split; [|split].
      + intros n Hn. apply Hfr. eapply Permutation_in; [apply Permutation_sym; exact Hperm|]. right; exact Hn.
      + intros d Hd. destruct (Nat.eq_dec (sp_depth x) d) as [Heq|Hne].
        * subst d. erewrite nth_error_upd_nth_same; [reflexivity|]. rewrite (Hop _ Hd).
          rewrite (dcnt_perm _ _ _ Hperm), dcnt_cons_same. reflexivity.
        * rewrite nth_error_upd_nth_other by exact Hne. rewrite (Hop _ Hd).
          rewrite (dcnt_perm _ _ _ Hperm), dcnt_cons_other by exact Hne. reflexivity.
      + exact Hds.
  Qed.

  Lemma d_run_compile_spec s ct n s' inp m o :
    run_compile st_eqb cfg s ct n = (s', inp, m, o) ->
    inp = mk_input cfg ct n (s_lb s) /\
    compile st_eqb (mk_input cfg ct n (s_lb s)) 0 0 (s_cache s) (s_dom s) (s_polls s) = (m, o) /\
    s_simple s' = s_simple s /\ s_open s' = s_open s /\ s_lb s' = s_lb s /\ s_sol s' = s_sol s /\
    s_abort s' = s_abort s /\ s_crash s' = (s_crash s || m_crash m)%bool /\ s_dom s' = m_dom m.
  Proof.
    unfold run_compile.
    destruct (compile st_eqb (mk_input cfg ct n (s_lb s)) 0 0 (s_cache s) (s_dom s) (s_polls s)) as [m0 o0] eqn:E.
    intros H; inversion H; subst. cbn [s_simple s_open s_lb s_sol s_abort s_crash s_dom upd_s]. auto 10.
  Qed.

  Lemma d_mub_dom (s : @sstate St) inp m : s_dom (maybe_update_best s inp m) = s_dom s.
  Proof. unfold maybe_update_best. destruct (_ >? _); reflexivity. Qed.

  Lemma d_phase s ct n s' inp m o :
    DCore s -> dd_ct ct -> good n -> (sp_depth n <= N)%nat ->
    run_compile st_eqb cfg s ct n = (s', inp, m, o) ->
    o = Compiled /\ inp = mk_input cfg ct n (s_lb s) /\
    compile st_eqb (mk_input cfg ct n (s_lb s)) 0 0 (s_cache s) (s_dom s) (s_polls s) = (m, Compiled) /\
    DCore (maybe_update_best s' inp m) /\ s_simple (maybe_update_best s' inp m) = s_simple s /\
    s_lb s <= s_lb (maybe_update_best s' inp m) /\
    (forall e, dd_best_exact_value inp m = Some e -> e <= s_lb (maybe_update_best s' inp m)).
  Proof.
    intros (Hcr & Hab & Hinc & Hfr & Hop & Hds) Hct Hg Hd Hrc.
    apply d_run_compile_spec in Hrc. destruct Hrc as (Hinp & Hc & R1 & R2 & R3 & R4 & R5 & R6 & R7).
    destruct (KD0 _ _ _ _ _ _ _ _ Hct Hg Hd Hds Hc) as (Ho & Hmc & Hds'). subst o.
    assert (Hlb' : IMIN <= s_lb s') by (rewrite R3; apply Hinc).
    pose proof (mub_spec cfg s' inp m Hlb') as Hm. cbv zeta in Hm.
    destruct Hm as (U1 & U2 & U3 & U4 & U5).
    split; [reflexivity|]. split; [exact Hinp|]. split; [exact Hc|].
    assert (Hcore_rest : s_crash (maybe_update_best s' inp m) = false /\ s_abort (maybe_update_best s' inp m) = false /\
              DFringeOK (s_simple (maybe_update_best s' inp m)) /\
              DOpenOK (s_open (maybe_update_best s' inp m)) (s_simple (maybe_update_best s' inp m)) /\
              dsok (s_dom (maybe_update_best s' inp m))).
    { rewrite U4, U3, U2, U1, R6, R5, R2, R1, Hcr, Hmc, Hab, d_mub_dom, R7. auto. }
    destruct Hcore_rest as (C1 & C2 & C4 & C5 & C6).
    destruct U5 as [(L1 & L2 & L3) | (v & Hv & Hgt & L1 & L2)].
    - split; [|split; [rewrite U1, R1; reflexivity|split; [rewrite L1, R3; lia|rewrite L1; exact L3]]].
      unfold DCore. rewrite L1, L2, R3, R4. auto 10.
    - subst inp. destruct (KD1 _ _ _ _ _ _ _ _ Hct Hg Hd Hds Hc v Hv) as (sol & Hsol & Hfeas).
      split; [|split; [rewrite U1, R1; reflexivity|split; [rewrite L1; rewrite R3 in Hgt; lia|]]].
      + unfold DCore. split; [exact C1|]. split; [exact C2|]. split; [|split; [exact C4|split; [exact C5|exact C6]]].
        rewrite L1, L2. split; [rewrite R3 in Hgt; destruct Hinc; lia|].
        right. exists sol. split; [exact Hsol|exact Hfeas].
      + intros e He. rewrite Hv in He. assert (e = v) by congruence. rewrite L1. lia.
  Qed.

  (* ---- enqueue_cutset *)
  Definition d_enq_step (best_lb ub : Z) (s : @sstate St) (c : @subproblem St) : @sstate St :=
    let cub := Z.min ub (sp_ub c) in
    if cub >? best_lb then
      let c' := {| sp_state := sp_state c; sp_value := sp_value c; sp_path := sp_path c; sp_ub := cub; sp_depth := sp_depth c |} in
      let before := fr_len cfg s in
      let s := fr_push st_eqb cfg s c' in
      let after := fr_len cfg s in
      match nth_error (s_open s) (sp_depth c) with
      | None => crashed s
      | Some _ =>
          upd_s s (s_simple s) (s_nodup s) (s_explored s) (upd_nth (sp_depth c) (fun o => o + (after - before))%nat (s_open s))
                (s_fal s) (s_lb s) (s_ub s) (s_sol s) (s_abort s) (s_cache s) (s_dom s) (s_polls s) (s_crash s) (s_tie s) (s_compiles s)
      end
    else s.

  Lemma d_enqueue_cutset_fold s inp m ub :
    enqueue_cutset st_eqb cfg s inp m ub = fold_left (d_enq_step (s_lb s) ub) (drain_cutset inp m) s.
  Proof. reflexivity. Qed.

  Lemma d_enq_step_spec lb ub s c :
    (sp_depth c <= N)%nat -> DOpenOK (s_open s) (s_simple s) ->
    s_lb (d_enq_step lb ub s c) = s_lb s /\ s_sol (d_enq_step lb ub s c) = s_sol s /\
    s_abort (d_enq_step lb ub s c) = s_abort s /\ s_crash (d_enq_step lb ub s c) = s_crash s /\
    s_dom (d_enq_step lb ub s c) = s_dom s /\
    s_simple (d_enq_step lb ub s c) =
      (if Z.min ub (sp_ub c) >? lb then [set_ub c (Z.min ub (sp_ub c))] else []) ++ s_simple s /\
    DOpenOK (s_open (d_enq_step lb ub s c)) (s_simple (d_enq_step lb ub s c)).
  Proof.
    intros Hd Hop. unfold d_enq_step.
    destruct (Z.min ub (sp_ub c) >? lb) eqn:E; [|cbn [app]; auto 10].
    rewrite d_fr_push_simple, !d_fr_len_simple. cbn [s_simple s_open s_lb s_sol s_abort s_crash s_dom upd_s length].
    rewrite (Hop _ Hd). cbn [s_simple s_open s_lb s_sol s_abort s_crash s_dom upd_s app].
    repeat (split; [reflexivity|]).
    replace (S (length (s_simple s)) - length (s_simple s))%nat with 1%nat by lia.
    fold (set_ub c (Z.min ub (sp_ub c))).
    intros d Hd'. destruct (Nat.eq_dec (sp_depth c) d) as [Heq|Hne].
    - subst d. erewrite nth_error_upd_nth_same; [|apply Hop; exact Hd].
      change (sp_depth c) with (sp_depth (set_ub c (Z.min ub (sp_ub c)))) at 2.
      rewrite dcnt_cons_same. f_equal. cbn [set_ub sp_depth]. lia.
    - rewrite nth_error_upd_nth_other by exact Hne. rewrite (Hop _ Hd').
      rewrite dcnt_cons_other; [reflexivity|exact Hne].
  Qed.

  Lemma d_enq_fold_spec lb ub cs : forall s,
    (forall c, In c cs -> (sp_depth c <= N)%nat) -> DOpenOK (s_open s) (s_simple s) ->
    s_lb (fold_left (d_enq_step lb ub) cs s) = s_lb s /\ s_sol (fold_left (d_enq_step lb ub) cs s) = s_sol s /\
    s_abort (fold_left (d_enq_step lb ub) cs s) = s_abort s /\ s_crash (fold_left (d_enq_step lb ub) cs s) = s_crash s /\
    s_dom (fold_left (d_enq_step lb ub) cs s) = s_dom s /\
    DOpenOK (s_open (fold_left (d_enq_step lb ub) cs s)) (s_simple (fold_left (d_enq_step lb ub) cs s)) /\
    (forall x, In x (s_simple (fold_left (d_enq_step lb ub) cs s)) <->
       In x (s_simple s) \/ exists c, In c cs /\ Z.min ub (sp_ub c) > lb /\ x = set_ub c (Z.min ub (sp_ub c))) /\
    (dPhi (s_simple (fold_left (d_enq_step lb ub) cs s)) <= dPhi (s_simple s) + sumf dwt cs)%nat.
  Proof.
    induction cs as [|c cs IH]; intros s Hd Hop; cbn [fold_left].
    - repeat (split; [reflexivity|]). split; [exact Hop|]. split.
      + intros x; split; [auto|]. intros [H|(c & [] & _)]; exact H.
      + simpl. lia.
    - assert (Hdc : (sp_depth c <= N)%nat) by (apply Hd; left; reflexivity).
      destruct (d_enq_step_spec lb ub s c Hdc Hop) as (E1 & E2 & E3 & E4 & E4' & E5 & E6).
      destruct (IH (d_enq_step lb ub s c)) as (F1 & F2 & F3 & F4 & F4' & F5 & F6 & F7);
        [intros c' Hc'; apply Hd; right; exact Hc'|exact E6|].
      rewrite F1, F2, F3, F4, F4', E1, E2, E3, E4, E4'. repeat (split; [reflexivity|]). split; [exact F5|]. split.
      + intros x. rewrite F6, E5. destruct (Z.min ub (sp_ub c) >? lb) eqn:E.
        * rewrite Z.gtb_ltb in E. apply Z.ltb_lt in E. cbn [app In]. split.
          -- intros [[Hx|Hx]|(c' & Hc' & Hgt & Hx)].
             ++ right. exists c. split; [left; reflexivity|]. split; [lia|auto].
             ++ left; exact Hx.
             ++ right. exists c'. split; [right; exact Hc'|auto].
          -- intros [Hx|(c' & [Hc'|Hc'] & Hgt & Hx)].
             ++ left; right; exact Hx.
             ++ subst c'. left; left; auto.
             ++ right. exists c'. auto.
        * rewrite Z.gtb_ltb in E. apply Z.ltb_ge in E. cbn [app In]. split.
          -- intros [Hx|(c' & Hc' & Hgt & Hx)]; [left; exact Hx|]. right. exists c'. split; [right; exact Hc'|auto].
          -- intros [Hx|(c' & [Hc'|Hc'] & Hgt & Hx)]; [left; exact Hx| subst c'; lia |]. right. exists c'. auto.
      + eapply Nat.le_trans; [exact F7|]. rewrite E5. cbn [sumf].
        destruct (Z.min ub (sp_ub c) >? lb); cbn [app]; unfold dPhi; cbn [sumf].
        * change (dwt (set_ub c (Z.min ub (sp_ub c)))) with (dwt c). lia.
        * lia.
  Qed.

  Lemma d_kids_weight n cs : (length cs <= M)%nat ->
    (forall c, In c cs -> (sp_depth n < sp_depth c <= N)%nat) -> (sumf dwt cs < dwt n)%nat.
  Proof.
    intros Hlen Hd. destruct cs as [|c0 cs'].
    - simpl. pose proof (dwt_pos n). lia.
    - assert (Hn : (sp_depth n < N)%nat).
      { pose proof (Hd c0 (or_introl eq_refl)). lia. }
      revert Hlen Hd. generalize (c0 :: cs'). intros cs Hlen Hd.
      set (P := ((S M) ^ (N - S (sp_depth n)))%nat).
      assert (HP : (1 <= P)%nat). { unfold P. pose proof (Nat.pow_nonzero (S M) (N - S (sp_depth n))). lia. }
      assert (Hw : dwt n = (S M * P)%nat).
      { unfold dwt, P. replace (N - sp_depth n)%nat with (S (N - S (sp_depth n))) by lia.
        rewrite Nat.pow_succ_r'. reflexivity. }
      assert (Hs : (sumf dwt cs <= length cs * P)%nat).
      { apply sumf_le_const. intros c Hc. apply Hd in Hc. unfold dwt, P.
        apply Nat.pow_le_mono_r; lia. }
      rewrite Hw. assert (length cs * P <= M * P)%nat by (apply Nat.mul_le_mono_r; exact Hlen). lia.
  Qed.

  Lemma d_compl_close s n sA :
    DCompl s [n] -> (forall x, In x (s_simple s) -> In x (s_simple sA)) -> s_lb s <= s_lb sA ->
    (forall o, OPT = Some o -> best n = Some o -> o <= sp_ub n ->
       o <= s_lb sA \/ exists c, In c (s_simple sA) /\ best c = Some o /\ o <= sp_ub c) ->
    DCompl sA [].
  Proof.
    intros HC Hsub Hlb Hn o Ho. destruct (HC o Ho) as [Hle|(w & [Hw|Hw] & Hb & Hu)].
    - left. lia.
    - destruct Hw as [Hw|[]]. subst w. destruct (Hn o Ho Hb Hu) as [H|(c & Hc & Hbc & Huc)]; [left; exact H|].
      right. exists c. split; [right; exact Hc|auto].
    - right. exists w. split; [right; apply Hsub; exact Hw|auto].
  Qed.

  Lemma d_process_spec s n s2 err :
    DCore s -> DCompl s [n] -> good n -> (sp_depth n <= N)%nat ->
    process_one_node st_eqb cfg s n = (s2, err) ->
    err = false /\ DCore s2 /\ DCompl s2 [] /\ (dPhi (s_simple s2) < dPhi (s_simple s) + dwt n)%nat.
  Proof.
    intros HCore HCompl Hg Hd. unfold process_one_node.
    destruct (sp_ub n <=? s_lb s) eqn:Eub.
    { intros H; inversion H; subst s2 err. split; [reflexivity|]. split; [exact HCore|]. split.
      - apply (d_compl_close s n s HCompl); [auto|lia|]. intros o _ _ Hu. left. apply Z.leb_le in Eub. lia.
      - pose proof (dwt_pos n). lia. }
    rewrite cfg_nocache.
    destruct (run_compile st_eqb cfg s Restricted n) as [[[sa0 inpa] ma] oa] eqn:Ea.
    destruct (d_phase _ _ _ _ _ _ _ HCore (or_introl eq_refl) Hg Hd Ea) as (-> & Hinpa & Hca & HCa & Hsa & Hlba & Heva).
    cbv beta iota zeta.
    set (sa := maybe_update_best sa0 inpa ma) in HCa, Hsa, Hlba, Heva |- *.
    assert (Hdss : dsok (s_dom s)) by apply HCore.
    destruct (dd_is_exact ma) eqn:Eexa.
    { intros H; inversion H; subst s2 err. split; [reflexivity|]. split; [exact HCa|]. split.
      - apply (d_compl_close s n sa HCompl); [rewrite Hsa; auto|exact Hlba|]. intros o Ho Hb _. left.
        destruct (Z_le_gt_dec o (s_lb s)) as [Hle|Hgt]; [lia|].
        apply Heva. rewrite Hinpa. eapply KD2; eauto. left; reflexivity.
      - rewrite Hsa. pose proof (dwt_pos n). lia. }
    destruct (run_compile st_eqb cfg sa Relaxed n) as [[[sb0 inpb] mb] ob] eqn:Eb.
    destruct (d_phase _ _ _ _ _ _ _ HCa (or_intror eq_refl) Hg Hd Eb) as (-> & Hinpb & Hcb & HCb & Hsb & Hlbb & Hevb).
    cbv beta iota zeta.
    set (sb := maybe_update_best sb0 inpb mb) in HCb, Hsb, Hlbb, Hevb |- *.
    assert (Hdsa : dsok (s_dom sa)) by apply HCa.
    destruct (dd_is_exact mb) eqn:Eexb.
    { intros H; inversion H; subst s2 err. split; [reflexivity|]. split; [exact HCb|]. split.
      - apply (d_compl_close s n sb HCompl); [rewrite Hsb, Hsa; auto|lia|]. intros o Ho Hb _. left.
        destruct (Z_le_gt_dec o (s_lb sa)) as [Hle|Hgt]; [lia|].
        apply Hevb. rewrite Hinpb. eapply KD2; eauto. right; reflexivity.
      - rewrite Hsb, Hsa. pose proof (dwt_pos n). lia. }
    intros H; inversion H; subst s2 err. clear H. split; [reflexivity|].
    rewrite d_enqueue_cutset_fold. subst inpb.
    set (cs := drain_cutset (mk_input cfg Relaxed n (s_lb sa)) mb).
    assert (Hdep : forall c, In c cs -> (sp_depth n < sp_depth c <= N)%nat).
    { intros c Hc. eapply KD3_depth; eauto. }
    destruct HCb as (B1 & B2 & B3 & B4 & B5 & B6).
    destruct (d_enq_fold_spec (s_lb sb) (sp_ub n) cs sb) as (F1 & F2 & F3 & F4 & F4' & F5 & F6 & F7);
      [intros c Hc; apply Hdep in Hc; lia|exact B5|].
    split; [|split].
    - unfold DCore. rewrite F1, F2, F3, F4, F4'. split; [exact B1|]. split; [exact B2|]. split; [exact B3|].
      split; [|split; [exact F5|exact B6]]. intros x Hx. apply F6 in Hx. destruct Hx as [Hx|(c & Hc & _ & ->)].
      + apply B4; exact Hx.
      + split; [apply good_set_ub; eapply KD3_good; eauto|]. cbn [set_ub sp_depth]. apply Hdep in Hc. lia.
    - apply (d_compl_close s n _ HCompl).
      + intros x Hx. apply F6. left. rewrite Hsb, Hsa. exact Hx.
      + rewrite F1. lia.
      + intros o Ho Hb Hu. rewrite F1.
        destruct (Z_le_gt_dec o (s_lb sb)) as [Hle|Hgt]; [left; exact Hle|]. right.
        assert (Hgta : o > s_lb sa) by lia.
        destruct (KD4 _ _ _ _ _ _ _ Hg Hd Hdsa Hcb Eexb o Ho Hb Hgta) as (c & Hc & Hbc).
        { intros e He. apply Hevb in He. lia. }
        assert (Hubc : o <= sp_ub c) by (eapply KD3_ub; eauto).
        exists (set_ub c (Z.min (sp_ub n) (sp_ub c))). split; [|split].
        * apply F6. right. exists c. split; [exact Hc|]. split; [lia|reflexivity].
        * rewrite best_set_ub. exact Hbc.
        * cbn [set_ub sp_ub]. lia.
    - eapply Nat.le_lt_trans; [exact F7|]. rewrite Hsb, Hsa.
      apply Nat.add_lt_mono_l. apply d_kids_weight; [|exact Hdep].
      eapply KD5; eauto.
  Qed.

  (* ---- the loop *)
  Definition DFinal (s : @sstate St) : Prop :=
    s_crash s = false /\ s_abort s = false /\ s_ub s = s_lb s /\ DIncumbent (s_lb s) (s_sol s) /\
    (forall o, OPT = Some o -> o <= s_lb s).

  Lemma d_main_loop_spec : forall fuel s, DInv s -> (dPhi (s_simple s) < fuel)%nat ->
    exists s', main_loop st_eqb cfg fuel s = (s', Finished) /\ DFinal s'.
  Proof.
    induction fuel as [|fuel IH]; intros s [HCore HCompl] Hfuel; [lia|].
    cbn [main_loop]. assert (Hcr : s_crash s = false) by apply HCore. rewrite Hcr.
    destruct (d_get_workload_spec s HCore) as [(Hemp & s1 & Hgw & W1 & W2 & W3 & W4 & W5 & W6)
                                              |(x & rest & s1 & Hgw & Hperm & W1 & HC1 & W2)]; rewrite Hgw.
    - exists s1. split; [reflexivity|]. unfold DFinal. rewrite W6, W5, W4. split; [exact W2|]. split; [exact W3|].
      split; [reflexivity|]. split; [apply HCore|]. intros o Ho.
      destruct (HCompl o Ho) as [H|(w & [[]|Hw] & _)]; [exact H|]. rewrite Hemp in Hw. destruct Hw.
    - destruct (process_one_node st_eqb cfg s1 x) as [s2 err] eqn:Ep.
      assert (Hx : In x (s_simple s)).
      { eapply Permutation_in; [apply Permutation_sym; exact Hperm|]. left; reflexivity. }
      destruct HCore as (_ & _ & _ & Hfr & _). destruct (Hfr x Hx) as [Hgx Hdx].
      assert (HCompl1 : DCompl s1 [x]).
      { intros o Ho. rewrite W2. destruct (HCompl o Ho) as [H|(w & [[]|Hw] & Hb & Hu)]; [left; exact H|].
        right. exists w. split; [|auto]. eapply Permutation_in in Hw; [|exact Hperm].
        destruct Hw as [Hw|Hw]; [left; left; exact Hw|right; rewrite W1; exact Hw]. }
      destruct (d_process_spec s1 x s2 err HC1 HCompl1 Hgx Hdx Ep) as (-> & HC2 & HCompl2 & HPhi).
      apply IH; [split; assumption|].
      rewrite (dPhi_perm _ _ Hperm) in Hfuel. unfold dPhi in Hfuel, HPhi |- *. cbn [sumf] in Hfuel. rewrite W1 in HPhi. lia.
  Qed.

  Lemma d_initialize_inv s0 :
    s_simple s0 = [] -> s_open s0 = repeat O (S N) -> s_crash s0 = false -> s_abort s0 = false ->
    DIncumbent (s_lb s0) (s_sol s0) -> dsok (s_dom s0) ->
    DInv (initialize_solver st_eqb cfg s0) /\ s_simple (initialize_solver st_eqb cfg s0) = [root_node cfg].
  Proof.
    intros H1 H2 H3 H4 H5 H6. unfold initialize_solver. rewrite d_fr_push_simple.
    cbn [s_simple s_open s_lb s_sol s_abort s_crash upd_s]. rewrite H1. split; [|reflexivity].
    split.
    - unfold DCore. cbn [s_simple s_open s_lb s_sol s_abort s_crash s_dom upd_s].
      split; [exact H3|]. split; [exact H4|]. split; [exact H5|]. split; [|split; [|exact H6]].
      + intros n [<-|[]]. split; [exact good_root|]. cbn [root_node sp_depth]. lia.
      + intros d Hd. rewrite H2. destruct d as [|d].
        * reflexivity.
        * cbn [repeat upd_nth nth_error]. rewrite nth_error_repeat by lia.
          rewrite dcnt_cons_other by (cbn [root_node sp_depth]; lia). reflexivity.
    - intros o Ho. right. exists (root_node cfg). cbn [s_simple upd_s]. split; [right; left; reflexivity|].
      split; [exact Ho|]. cbn [root_node sp_ub]. apply opt_in_isize. exact Ho.
  Qed.

  Definition d_fuel0 : nat := S ((S M) ^ N).

  Definition d_result_ok (r : sresult) : Prop :=
    r_crash r = false /\ r_outoffuel r = false /\ r_exact r = true /\ r_value r = OPT /\
    (forall v, OPT = Some v ->
       r_lb r = v /\ r_ub r = v /\ exists sol, r_sol r = Some (sort_by dec_var_cmp sol) /\ feasible sol v) /\
    (OPT = None -> r_sol r = None /\ r_lb r = IMIN).

  Lemma d_final_result s :
    DFinal s ->
    (forall v, OPT = Some v -> s_lb s = v /\ exists sol, s_sol s = Some sol /\ feasible sol v) /\
    (OPT = None -> s_sol s = None /\ s_lb s = IMIN).
  Proof.
    intros (_ & _ & _ & [Hmin Hinc] & Hopt). split.
    - intros v Hv. pose proof (Hopt v Hv) as Hle. pose proof (opt_in_isize v Hv) as Hr.
      destruct Hinc as [[_ Hlb]|(sol & Hsol & Hfeas)]; [lia|].
      destruct (feasible_le_opt _ _ Hfeas) as (o & Ho & Hlo). rewrite Hv in Ho. inversion Ho; subst o.
      assert (Heq : s_lb s = v) by lia. split; [exact Heq|]. exists sol. rewrite <- Heq. auto.
    - intros Hnone. destruct Hinc as [[Hs Hlb]|(sol & Hsol & Hfeas)]; [auto|].
      destruct (feasible_le_opt _ _ Hfeas) as (o & Ho & _). rewrite Hnone in Ho. discriminate.
  Qed.

  (* C10 at solver level, from the contracts *)
  Theorem dom_maximize_correct :
    forall fuel, (d_fuel0 <= fuel)%nat -> d_result_ok (maximize st_eqb cfg fuel None).
  Proof.
    intros fuel Hfuel.
    assert (Hinit : DIncumbent (s_lb (init_sstate cfg)) (s_sol (init_sstate cfg))).
    { cbn [init_sstate s_lb s_sol]. split; [lia|]. left. auto. }
    destruct (d_initialize_inv (init_sstate cfg) eq_refl eq_refl eq_refl eq_refl Hinit dsok_init) as [HInv Hsimple].
    destruct (d_main_loop_spec fuel _ HInv) as (s' & Hml & HF).
    { rewrite Hsimple. unfold dPhi, dwt. cbn [sumf root_node sp_depth]. rewrite Nat.sub_0_r. unfold d_fuel0 in Hfuel. lia. }
    unfold maximize. rewrite Hml. destruct (d_final_result s' HF) as [Hsome Hnone].
    destruct HF as (F1 & F2 & F3 & F4 & F5).
    unfold d_result_ok. cbn [r_crash r_outoffuel r_exact r_value r_lb r_ub r_sol].
    split; [exact F1|]. split; [reflexivity|]. split; [rewrite F2; reflexivity|].
    assert (Hcase : forall x : option Z, (exists v, x = Some v) \/ x = None) by (intros [v|]; eauto).
    destruct (Hcase OPT) as [[v EO]|EO]; rewrite EO.
    - destruct (Hsome v EO) as (Hlb & sol & Hsol & Hfeas). rewrite Hsol, Hlb. cbn [option_map].
      split; [reflexivity|]. split; [|discriminate].
      intros v' Hv'. inversion Hv'; subst v'. split; [reflexivity|]. split; [rewrite F3; exact Hlb|].
      exists sol. auto.
    - destruct (Hnone EO) as [Hsol Hlb]. rewrite Hsol, Hlb. cbn [option_map].
      split; [reflexivity|]. split; [discriminate|]. auto.
  Qed.
End DomSolver.
(* ================================================================== 4. the dominance filter of one layer *)
Local Open Scope nat_scope.

Local Ltac msimpl :=
  cbn [m_nodes m_edges m_layers m_layer_end m_next m_curr_depth m_path m_lel m_cutset m_best
       m_best_exact m_is_exact m_has_ebp m_cache m_dom m_log m_polls m_crash
       with_nodes upd_node add_log set_crash with_next with_cache with_dom with_lel_exact
       push_layer with_depth with_polls with_best with_cutset append_edge].
Local Ltac msimpl_in H :=
  cbn [m_nodes m_edges m_layers m_layer_end m_next m_curr_depth m_path m_lel m_cutset m_best
       m_best_exact m_is_exact m_has_ebp m_cache m_dom m_log m_polls m_crash
       with_nodes upd_node add_log set_crash with_next with_cache with_dom with_lel_exact
       push_layer with_depth with_polls with_best with_cutset append_edge] in H.

Section DomFilter.
  Context {St : Type}.
  Variable inp : @cinput St.
  Variable key : St -> option Z.
  Variable nd : nat.
  Variable coord : St -> nat -> Z.
  Variable usev : bool.
  Hypothesis Hdom : ci_domrule inp = Some (key, nd, coord, usev).
  Notation mdd := (@mdd St).
  Notation gn := (get_node inp).

  Definition sbucket (st : @dstore St Z) (d : nat) (k : Z) : @bucket St := store_bucket Z.eqb st d k.

  (* every recorded entry satisfies P (depth, key, state, value) *)
  Definition store_all (P : nat -> Z -> St -> Z -> Prop) (st : @dstore St Z) : Prop :=
    forall d k e ve, In (e, ve) (sbucket st d k) -> P d k e ve.

  Lemma store_all_init P n : store_all P (init_dstore n).
  Proof.
    intros d k e ve Hin. unfold sbucket, store_bucket, init_dstore in Hin.
    match type of Hin with In _ (match ?X with _ => _ end) => destruct X as [l|] eqn:E end; [|destruct Hin].
    apply nth_error_In in E. apply repeat_spec in E. subst l. destruct Hin.
  Qed.

  Lemma dom_query_spec (m : mdd) s d v m' r :
    dom_query inp m s d v = (m', r) -> d < length (m_dom m) ->
    m_crash m' = m_crash m /\ length (m_dom m') = length (m_dom m) /\
    (dc_dominated r = true ->
       exists k os ov, key s = Some k /\ In (os, ov) (sbucket (m_dom m) d k) /\ sdom nd coord usev os ov s v) /\
    (forall d' k' e ve, In (e, ve) (sbucket (m_dom m') d' k') ->
       In (e, ve) (sbucket (m_dom m) d' k') \/ (d' = d /\ key s = Some k' /\ e = s /\ ve = v)).
  Proof.
    unfold dom_query. rewrite Hdom. intros H Hd.
    destruct (is_dominated_or_insert Z.eqb key nd coord usev (m_dom m) s d v) as [[st' r0]|] eqn:E.
    2:{ apply (idoi_None_iff Z.eqb key nd coord usev) in E. destruct E as [_ E]. lia. }
    inversion H; subst m' r. clear H. msimpl.
    destruct (key s) as [k|] eqn:Ek.
    - destruct (idoi_spec Z.eqb Z.eqb_eq key nd coord usev (m_dom m) s d v k st' r0 Ek E) as (B1 & B2 & B3).
      symmetry in B1. destruct (bucket_query_verdict key nd coord usev s v _ _ _ B1) as (V1 & V2 & V3).
      split; [reflexivity|]. split; [exact B3|]. split.
      + intros Hdm. apply V1 in Hdm. destruct Hdm as (os & ov & o & Hin & Hpc).
        exists k, os, ov. split; [reflexivity|]. split; [exact Hin|].
        apply (partial_cmp_Lt_iff key nd coord usev s v os ov). exists o. exact Hpc.
      + intros d' k' e ve Hin. destruct (Nat.eq_dec d' d) as [->|Hnd]; [destruct (Z.eq_dec k' k) as [->|Hnk]|].
        * unfold sbucket in Hin. destruct (dc_dominated r0) eqn:Er.
          -- destruct (V3 eq_refl) as [V3' _]. rewrite V3' in Hin. apply filter_In in Hin. left. apply Hin.
          -- destruct (V2 eq_refl) as [V2' _]. rewrite V2' in Hin. apply in_app_or in Hin. destruct Hin as [Hin|[Hin|[]]].
             ++ apply filter_In in Hin. left. apply Hin.
             ++ inversion Hin; subst. right. auto.
        * left. unfold sbucket in *. rewrite B2 in Hin by (right; exact Hnk). exact Hin.
        * left. unfold sbucket in *. rewrite B2 in Hin by (left; exact Hnd). exact Hin.
    - rewrite (idoi_no_key Z.eqb key nd coord usev (m_dom m) s d v Ek) in E. inversion E; subst st' r0.
      split; [reflexivity|]. split; [reflexivity|]. split; [cbn; discriminate|]. intros d' k' e ve Hin. left. exact Hin.
  Qed.

  Lemma core_eq_trans' (a b c : @node St) : core_eq a b -> core_eq b c -> core_eq a c.
  Proof.
    intros (a1 & a2 & a3 & a4 & a5 & a6 & a7) (b1 & b2 & b3 & b4 & b5 & b6 & b7).
    repeat split; congruence.
  Qed.
  Lemma core_eq_is_exact' (a b : @node St) : core_eq a b -> fl_is_exact (n_flags a) = fl_is_exact (n_flags b).
  Proof. unfold fl_is_exact. intros (_ & _ & _ & _ & H1 & H2 & _). rewrite H1, H2. reflexivity. Qed.

  Lemma gn_upd_theta_core (m : mdd) id t x : core_eq (gn m x) (gn (upd_node m id (fun n => set_theta n t)) x).
  Proof.
    pose proof (ceq_upd_node inp m id (fun n => set_theta n t) (fun n => core_eq_set_theta n t)) as ((_ & _ & _ & A) & _).
    apply A.
  Qed.

  (* the retain loop, in terms of the node data BEFORE the loop (the loop only touches theta, the log and the store) *)
  Lemma dom_retain_spec (P : nat -> Z -> St -> Z -> Prop) l : forall (m m' : mdd) l',
    dom_retain inp m l = (m', l') ->
    (forall id, In id l -> n_depth (gn m id) < length (m_dom m)) ->
    store_all P (m_dom m) ->
    (forall id k, In id l -> fl_is_exact (n_flags (gn m id)) = true -> key (n_state (gn m id)) = Some k ->
       P (n_depth (gn m id)) k (n_state (gn m id)) (n_vtop (gn m id))) ->
    m_crash m' = m_crash m /\ length (m_dom m') = length (m_dom m) /\ store_all P (m_dom m') /\
    (forall id, In id l -> ~ In id l' ->
       fl_is_exact (n_flags (gn m id)) = true /\
       exists k e ve, key (n_state (gn m id)) = Some k /\ P (n_depth (gn m id)) k e ve /\
                      sdom nd coord usev e ve (n_state (gn m id)) (n_vtop (gn m id))).
  Proof.
    induction l as [|id l IH]; intros m m' l' H Hlen HP Hex; cbn [dom_retain] in H.
    - inversion H; subst. split; [reflexivity|]. split; [reflexivity|]. split; [exact HP|]. intros id [].
    - destruct (fl_is_exact (n_flags (gn m id))) eqn:Eex.
      + destruct (dom_query inp m (n_state (gn m id)) (n_depth (gn m id)) (n_vtop (gn m id))) as [m1 r] eqn:Eq.
        destruct (dom_query_spec m _ _ _ m1 r Eq (Hlen id (or_introl eq_refl))) as (Q1 & Q2 & Q3 & Q4).
        pose proof (dom_query_ceq inp m (n_state (gn m id)) (n_depth (gn m id)) (n_vtop (gn m id))) as Hc.
        rewrite Eq in Hc. cbn [fst] in Hc. destruct Hc as ((_ & _ & _ & Hcore) & _).
        assert (HP1 : store_all P (m_dom m1)).
        { intros d' k' e ve Hin. destruct (Q4 d' k' e ve Hin) as [Hold|(-> & Hk & -> & ->)]; [apply HP; exact Hold|].
          apply Hex; auto. left; reflexivity. }
        destruct (dc_dominated r) eqn:Er.
        * set (m2 := upd_node m1 id (fun n => set_theta n (dc_threshold r))) in *.
          assert (Hcore2 : forall x, core_eq (gn m x) (gn m2 x)).
          { intros x. eapply core_eq_trans'; [apply Hcore|apply gn_upd_theta_core]. }
          destruct (IH m2 m' l' H) as (I1 & I2 & I3 & I4).
          -- intros x Hx. destruct (Hcore2 x) as (_ & _ & _ & _ & _ & _ & Hd). rewrite <- Hd.
             unfold m2. msimpl. rewrite Q2. apply Hlen. right; exact Hx.
          -- exact HP1.
          -- intros x k Hx Hxe Hxk. pose proof (Hcore2 x) as Hcx.
             rewrite <- (core_eq_is_exact' _ _ Hcx) in Hxe.
             destruct Hcx as (c1 & c2 & _ & _ & _ & _ & c7). rewrite <- c1 in Hxk. rewrite <- c1, <- c2, <- c7.
             apply Hex; auto. right; exact Hx.
          -- split; [rewrite I1; unfold m2; msimpl; exact Q1|]. split; [rewrite I2; unfold m2; msimpl; exact Q2|].
             split; [exact I3|]. intros x [<-|Hx] Hnx.
             ++ split; [exact Eex|]. destruct (Q3 eq_refl) as (k & os & ov & Hk & Hin & Hs).
                exists k, os, ov. split; [exact Hk|]. split; [apply HP; exact Hin|exact Hs].
             ++ destruct (I4 x Hx Hnx) as (J1 & k & e & ve & J2 & J3 & J4). pose proof (Hcore2 x) as Hcx.
                rewrite <- (core_eq_is_exact' _ _ Hcx) in J1.
                destruct Hcx as (c1 & c2 & _ & _ & _ & _ & c7). rewrite <- c1 in J2, J4. rewrite <- c2 in J4. rewrite <- c7 in J3.
                split; [exact J1|]. exists k, e, ve. auto.
        * destruct (dom_retain inp m1 l) as [m2 k2] eqn:Er2. inversion H; subst m' l'. clear H.
          destruct (IH m1 m2 k2 Er2) as (I1 & I2 & I3 & I4).
          -- intros x Hx. destruct (Hcore x) as (_ & _ & _ & _ & _ & _ & Hd). rewrite <- Hd, Q2. apply Hlen. right; exact Hx.
          -- exact HP1.
          -- intros x k Hx Hxe Hxk. pose proof (Hcore x) as Hcx.
             rewrite <- (core_eq_is_exact' _ _ Hcx) in Hxe.
             destruct Hcx as (c1 & c2 & _ & _ & _ & _ & c7). rewrite <- c1 in Hxk. rewrite <- c1, <- c2, <- c7.
             apply Hex; auto. right; exact Hx.
          -- split; [rewrite I1; exact Q1|]. split; [rewrite I2; exact Q2|]. split; [exact I3|].
             intros x [<-|Hx] Hnx; [exfalso; apply Hnx; left; reflexivity|].
             destruct (I4 x Hx) as (J1 & k & e & ve & J2 & J3 & J4); [intros Hc; apply Hnx; right; exact Hc|].
             pose proof (Hcore x) as Hcx. rewrite <- (core_eq_is_exact' _ _ Hcx) in J1.
             destruct Hcx as (c1 & c2 & _ & _ & _ & _ & c7). rewrite <- c1 in J2, J4. rewrite <- c2 in J4. rewrite <- c7 in J3.
             split; [exact J1|]. exists k, e, ve. auto.
      + destruct (dom_retain inp m l) as [m2 k2] eqn:Er2. inversion H; subst m' l'. clear H.
        destruct (IH m m2 k2 Er2) as (I1 & I2 & I3 & I4).
        -- intros x Hx. apply Hlen. right; exact Hx.
        -- exact HP.
        -- intros x k Hx. apply Hex. right; exact Hx.
        -- split; [exact I1|]. split; [exact I2|]. split; [exact I3|].
           intros x [<-|Hx] Hnx; [exfalso; apply Hnx; left; reflexivity|].
           apply I4; [exact Hx|]. intros Hc; apply Hnx; right; exact Hc.
  Qed.

  Lemma filter_with_dominance_spec (P : nat -> Z -> St -> Z -> Prop) (m m' : mdd) l l' :
    filter_with_dominance inp m l = (m', l') ->
    (forall id, In id l -> n_depth (gn m id) < length (m_dom m)) ->
    store_all P (m_dom m) ->
    (forall id k, In id l -> fl_is_exact (n_flags (gn m id)) = true -> key (n_state (gn m id)) = Some k ->
       P (n_depth (gn m id)) k (n_state (gn m id)) (n_vtop (gn m id))) ->
    m_crash m' = m_crash m /\ length (m_dom m') = length (m_dom m) /\ store_all P (m_dom m') /\
    (forall id, In id l -> ~ In id l' ->
       fl_is_exact (n_flags (gn m id)) = true /\
       exists k e ve, key (n_state (gn m id)) = Some k /\ P (n_depth (gn m id)) k e ve /\
                      sdom nd coord usev e ve (n_state (gn m id)) (n_vtop (gn m id))).
  Proof.
    unfold filter_with_dominance. intros H Hlen HP Hex.
    destruct (dom_retain_spec P (sort_by (dom_order inp m) l) m m' l' H) as (R1 & R2 & R3 & R4).
    - intros id Hid. apply Hlen. apply sort_by_In in Hid. exact Hid.
    - exact HP.
    - intros id k Hid. apply Hex. apply sort_by_In in Hid. exact Hid.
    - split; [exact R1|]. split; [exact R2|]. split; [exact R3|]. intros id Hid. apply R4. apply sort_by_In. exact Hid.
  Qed.
End DomFilter.

(* ================================================================== 5. nothing but the dominance query touches the store *)
Section DomFrame.
  Context {St : Type}.
  Variable st_eqb : St -> St -> bool.
  Variable inp : @cinput St.
  Notation mdd := (@mdd St).
  Notation gn := (get_node inp).

  Lemma dom_fold {X} (f : mdd -> X -> mdd) l (m : mdd) :
    (forall a x, m_dom (f a x) = m_dom a) -> m_dom (fold_left f l m) = m_dom m.
  Proof. intros Hf. apply (MddStruct.fold_left_proj (@m_dom St)). exact Hf. Qed.

  Lemma dom_branch_on (m : mdd) id d : m_dom (branch_on st_eqb inp m id d) = m_dom m.
  Proof. unfold branch_on. cbv zeta. destruct (find_next _ _ _ _); reflexivity. Qed.

  Lemma dom_expand_node var (m : mdd) id : m_dom (expand_node st_eqb inp var m id) = m_dom m.
  Proof.
    unfold expand_node. cbv zeta. destruct (Z.gtb _ _); [|reflexivity].
    rewrite dom_fold by (intros; apply dom_branch_on). reflexivity.
  Qed.

  Lemma dom_expand_layer var l (m : mdd) : m_dom (fold_left (expand_node st_eqb inp var) l m) = m_dom m.
  Proof. apply dom_fold. intros. apply dom_expand_node. Qed.

  Lemma dom_cache_get (m : mdd) s d : m_dom (fst (cache_get st_eqb inp m s d)) = m_dom m.
  Proof.
    unfold cache_get. destruct (ci_use_cache inp); [|reflexivity].
    destruct (get_threshold _ _ _ _); reflexivity.
  Qed.

  Lemma dom_filter_with_cache l : forall (m : mdd), m_dom (fst (filter_with_cache st_eqb inp m l)) = m_dom m.
  Proof.
    induction l as [|id l IH]; intros m; cbn [filter_with_cache]; [reflexivity|].
    pose proof (dom_cache_get m (n_state (gn m id)) (n_depth (gn m id))) as Hc.
    destruct (cache_get st_eqb inp m (n_state (gn m id)) (n_depth (gn m id))) as [m1 th]. cbn [fst] in Hc.
    destruct th as [t|].
    - destruct (Z.gtb _ _).
      + specialize (IH m1). destruct (filter_with_cache st_eqb inp m1 l) as [m2 r]. cbn [fst] in *. congruence.
      + rewrite IH. cbn [m_dom upd_node with_nodes]. exact Hc.
    - specialize (IH m1). destruct (filter_with_cache st_eqb inp m1 l) as [m2 r]. cbn [fst] in *. congruence.
  Qed.

  Lemma dom_prefilter (m : mdd) l : m_dom (fst (prefilter st_eqb inp m l)) = m_dom m.
  Proof. unfold prefilter. destruct (Nat.ltb _ _); [apply dom_filter_with_cache|reflexivity]. Qed.

  Lemma dom_note_squash (m : mdd) : m_dom (note_squash inp m) = m_dom m.
  Proof. unfold note_squash. destruct (is_pooled _); [reflexivity|]. destruct (m_lel m); reflexivity. Qed.

  Lemma dom_mark_deleted (m : mdd) ids : m_dom (mark_deleted m ids) = m_dom m.
  Proof. unfold mark_deleted. apply dom_fold. reflexivity. Qed.

  Lemma dom_redirect_edges (m : mdd) merged mid did : m_dom (redirect_edges inp m merged mid did) = m_dom m.
  Proof. unfold redirect_edges. apply dom_fold. reflexivity. Qed.

  Lemma dom_relax_layer (m : mdd) l : m_dom (fst (relax_layer st_eqb inp m l)) = m_dom m.
  Proof.
    unfold relax_layer. cbv zeta. destruct (ci_width inp) as [|w1]; [cbn; apply dom_note_squash|].
    match goal with |- context [find ?p ?k] => destruct (find p k) end; cbn [fst].
    - cbn [m_dom upd_node with_nodes]. rewrite dom_fold.
      + cbn [m_dom upd_node with_nodes add_log]. apply dom_note_squash.
      + intros a x. rewrite dom_redirect_edges. reflexivity.
    - rewrite dom_fold.
      + cbn [m_dom upd_node with_nodes add_log]. apply dom_note_squash.
      + intros a x. rewrite dom_redirect_edges. reflexivity.
  Qed.

  Lemma dom_squash_if_needed (m : mdd) l : m_dom (fst (squash_if_needed st_eqb inp m l)) = m_dom m.
  Proof.
    unfold squash_if_needed. destruct (ci_type inp).
    - reflexivity.
    - destruct (_ && _); [apply dom_relax_layer|reflexivity].
    - destruct (Nat.ltb _ _); [|reflexivity]. unfold restrict_layer. cbv zeta. cbn [fst].
      rewrite dom_mark_deleted. apply dom_note_squash.
  Qed.
End DomFrame.

(* ================================================================== 6. the structural contracts with a dominance rule
   (MddProgress.v re-run: only the filter step differs; the store must be long enough for the depths met) *)
Section DomProgress.
  Context {St : Type}.
  Variable st_eqb : St -> St -> bool.
  Hypothesis st_eqb_spec : forall a b, st_eqb a b = true <-> a = b.
  Variable inp : @cinput St.
  Variable key : St -> option Z.
  Variable nd : nat.
  Variable coord : St -> nat -> Z.
  Variable usev : bool.
  Hypothesis Hdom : ci_domrule inp = Some (key, nd, coord, usev).

  Notation mdd := (@mdd St).
  Notation gn := (get_node inp).
  Notation pb := (ci_problem inp).
  Notation N := (nb_vars (ci_problem inp)).
  Notation d0 := (sp_depth (ci_root inp)).

  Hypothesis Hclean : ci_flavour inp = CleanLEL \/ ci_flavour inp = CleanFC.
  Hypothesis Hnocache : ci_use_cache inp = false.
  Hypothesis Hnocut : ci_cutoff inp = 0.
  Hypothesis Hwidth : 1 <= ci_width inp.
  Hypothesis nv_some : forall k l, k < N -> exists x, next_variable pb k l = Some x.
  Hypothesis nv_none : forall k l, N <= k -> next_variable pb k l = None.
  Hypothesis Hroot_depth : d0 <= N.

  Let PLinv := @MddProgress.Linv St inp.
  Definition LinvD (m : mdd) : Prop := MddProgress.Linv inp m /\ N < length (m_dom m).

  Lemma not_pooledD : is_pooled (ci_flavour inp) = false.
  Proof. destruct Hclean as [H|H]; rewrite H; reflexivity. Qed.

  Lemma filter_with_dominance_stepD dn (m : mdd) l m' l' :
    filter_with_dominance inp m l = (m', l') ->
    Pinv inp dn m -> (forall id, In id l -> n_depth (gn m id) < length (m_dom m)) ->
    Pinv inp dn m' /\ keep inp m m' /\ ceq inp m m' /\ incl l' l /\ length (m_dom m') = length (m_dom m).
  Proof.
    intros H HP Hlen.
    pose proof (filter_with_dominance_ceq inp m l) as [C1 C2].
    destruct (filter_with_dominance_spec inp key nd coord usev Hdom (fun _ _ _ _ => True) m m' l l' H Hlen)
      as (C3 & C4 & _); [intros d k e ve _; exact I|intros; exact I|].
    rewrite H in C1, C2. simpl in *.
    split; [eapply (Pinv_ceq inp Hnocut Hwidth Hroot_depth); eauto|].
    split; [apply (keep_ceq inp Hnocut Hwidth Hroot_depth); auto|]. split; auto.
  Qed.

  Lemma move_some_stepD (m m' : mdd) l :
    move_to_next_layer_clean st_eqb inp m = (m', Some l) -> LinvD m ->
    Minv inp m m' l /\ length (m_dom m') = length (m_dom m).
  Proof.
    rewrite move_clean_unfold. intros H [[L1 L2 L3 L4 L5 L6 L7] Hds].
    set (d := m_curr_depth m) in *.
    destruct (m_next m) as [|x nx] eqn:Hn; [discriminate|]. rewrite <- Hn in H.
    set (ma := with_next m []) in *.
    assert (HPa : Pinv inp d ma) by (apply Pinv_with_next; [exact L1|intros id []]).
    assert (Hka : keep inp m ma) by apply (keep_with_next inp Hnocut Hwidth Hroot_depth).
    assert (Hoa : in_open ma (m_next m)) by (intros id Hid; apply (P_next _ _ _ L1); exact Hid).
    destruct (prefilter st_eqb inp ma (m_next m)) as [m1 l1] eqn:H1.
    destruct (filter_with_dominance inp m1 l1) as [m2 l2] eqn:H2.
    destruct (squash_if_needed st_eqb inp m2 l2) as [m3 l3] eqn:H3.
    inversion H; subst m' l; clear H.
    destruct (prefilter_step st_eqb inp Hclean Hnocache Hnocut Hwidth Hroot_depth d ma _ m1 l1 H1 HPa) as (A1 & A2 & A3 & A4).
    assert (Hdom1 : m_dom m1 = m_dom m).
    { pose proof (dom_prefilter st_eqb inp ma (m_next m)) as Hp. rewrite H1 in Hp. exact Hp. }
    assert (Hlen1 : forall id, In id l1 -> n_depth (gn m1 id) < length (m_dom m1)).
    { intros id Hid. rewrite Hdom1.
      assert (Hop : m_layer_end m1 <= id < length (m_nodes m1)).
      { apply (in_open_keep inp Hnocut Hwidth Hroot_depth ma m1 (m_next m) l1 A2 A4 Hoa). exact Hid. }
      rewrite (P_open _ _ _ A1 id) by lia. unfold d. lia. }
    destruct (filter_with_dominance_stepD d m1 l1 m2 l2 H2 A1 Hlen1) as (B1 & B2 & B3 & B4 & B5).
    assert (Hk2 : keep inp m m2).
    { eapply (keep_trans inp Hnocut Hwidth Hroot_depth); [exact Hka|].
      eapply (keep_trans inp Hnocut Hwidth Hroot_depth); eauto. }
    assert (Ho2 : in_open m2 l2).
    { apply (in_open_keep inp Hnocut Hwidth Hroot_depth ma m2 (m_next m) l2);
        [eapply (keep_trans inp Hnocut Hwidth Hroot_depth); [exact A2|exact B2]|eapply incl_tran; [exact B4|exact A4]|exact Hoa]. }
    destruct (squash_step st_eqb inp Hclean Hnocut Hwidth Hroot_depth d m2 l2 m3 l3 H3 B1) as (C1 & C2 & C3 & C4 & C5); auto.
    { rewrite (k_layers _ _ _ Hk2). exact L3. }
    assert (Hk3 : keep inp m m3) by (eapply (keep_trans inp Hnocut Hwidth Hroot_depth); eauto).
    assert (Hn3 : m_next m3 = []).
    { rewrite (squash_next st_eqb inp _ _ _ _ H3).
      destruct B3 as (_ & b & _). destruct A3 as (_ & a & _). rewrite b, a. reflexivity. }
    assert (Hlen2 : length (m_nodes m2) = length (m_nodes m)).
    { destruct B3 as ((_ & _ & b & _) & _). destruct A3 as ((_ & _ & a & _) & _). rewrite b, a. reflexivity. }
    assert (Hlel2 : m_lel m2 = m_lel m).
    { destruct B3 as (_ & _ & _ & _ & b & _). destruct A3 as (_ & _ & _ & _ & a & _). rewrite b, a. reflexivity. }
    set (from := m_layer_end m3). set (to := length (m_nodes m3)).
    set (m4 := push_layer m3 (seq from (to - from)) to).
    assert (Hgn4 : forall k, gn m4 k = gn m3 k) by reflexivity.
    split.
    2:{ change (m_dom m4) with (m_dom m3).
        pose proof (dom_squash_if_needed st_eqb inp m2 l2) as Hq. rewrite H3 in Hq. cbn [fst] in Hq.
        rewrite Hq, B5, Hdom1. reflexivity. }
    split.
    - apply (Pinv_push_layer inp Hnocut Hwidth Hroot_depth); auto.
    - change (m_crash m4) with (m_crash m3). rewrite (k_crash _ _ _ Hk3). exact L2.
    - change (m_curr_depth m4) with (m_curr_depth m3). apply (k_cd _ _ _ Hk3).
    - exact L3.
    - eexists. unfold m4. msimpl. rewrite (k_layers _ _ _ Hk3). reflexivity.
    - apply (layers_ok_push inp Hnocut Hwidth Hroot_depth).
      + eapply (layers_ok_keep inp Hnocut Hwidth Hroot_depth); eauto.
      + intros id Hid. apply in_seq in Hid. split; [unfold to in Hid; lia|].
        rewrite (P_open _ _ _ C1 id) by (unfold from, to in Hid; lia).
        rewrite (k_layers _ _ _ Hk3). exact L3.
    - unfold m4. msimpl. apply Forall_app. split; [rewrite (k_layers _ _ _ Hk3); exact L6|].
      constructor; [apply seq_NoDup|constructor].
    - intros k Hk Hr. change (m_lel m4) with (m_lel m3) in Hk.
      destruct (C5 k Hk) as [Hold|Hnew]; [|auto]. rewrite Hlel2 in Hold. apply L7; auto.
    - exact Hn3.
    - intros id Hid. destruct (C4 id Hid) as [c1 c2]. rewrite Hgn4. split; [exact c2|].
      apply (P_open _ _ _ C1); auto.
    - change (length (m_nodes m4)) with (length (m_nodes m3)). lia.
  Qed.

  Lemma LinvD_frame (m m' : mdd) :
    m_nodes m' = m_nodes m -> m_edges m' = m_edges m -> m_path m' = m_path m -> m_next m' = m_next m ->
    m_layer_end m' = m_layer_end m -> m_layers m' = m_layers m -> m_curr_depth m' = m_curr_depth m ->
    m_lel m' = m_lel m -> m_crash m' = m_crash m -> m_dom m' = m_dom m -> LinvD m -> LinvD m'.
  Proof.
    intros H1 H2 H3 H4 H5 H6 H7 H8 H9 H10 [HL Hd]. split; [|rewrite H10; exact Hd].
    apply (Linv_frame inp Hnocut Hwidth Hroot_depth m); auto.
  Qed.

  Definition PostD (m : mdd) : Prop := MddProgress.Post inp m /\ N < length (m_dom m).

  Lemma expand_finishD var (m m' : mdd) l :
    Minv inp m m' l -> length (m_dom m') = length (m_dom m) -> LinvD m -> m_curr_depth m < N ->
    LinvD (with_depth (fold_left (expand_node st_eqb inp var) l m')
                     (S (m_curr_depth (fold_left (expand_node st_eqb inp var) l m')))) /\
    m_curr_depth (fold_left (expand_node st_eqb inp var) l m') = m_curr_depth m.
  Proof.
    intros HM Hd [_ Hds] HN.
    destruct (expand_finish st_eqb inp Hclean Hnocut Hwidth Hroot_depth var m m' l HM HN) as [E1 E2].
    split; [|exact E2]. split; [exact E1|].
    change (m_dom (with_depth ?a ?b)) with (m_dom a). rewrite dom_expand_layer, Hd. exact Hds.
  Qed.

  Lemma layer_loop_postD : forall fuel (m : mdd),
    LinvD m -> N - m_curr_depth m < fuel ->
    exists m', layer_loop st_eqb inp fuel m = (m', LoopDone) /\ PostD m'.
  Proof.
    induction fuel as [|fuel IH]; intros m HL Hf; [lia|].
    cbn [layer_loop]. cbv zeta.
    set (states := map (fun id => n_state (gn m id)) (m_next m)).
    destruct (Nat.lt_ge_cases (m_curr_depth m) N) as [Hlt|Hge].
    - destruct (nv_some (m_curr_depth m) states Hlt) as [var Hv]. rewrite Hv.
      set (m1 := add_log m (EvNextVar (m_curr_depth m) states (Some var))).
      set (m2 := with_polls m1 (S (m_polls m1))).
      rewrite Hnocut. change (Nat.ltb 0 0) with false. cbn [andb].
      rewrite not_pooledD.
      assert (HL2 : LinvD m2) by (apply (LinvD_frame m); auto; reflexivity).
      destruct (move_to_next_layer_clean st_eqb inp m2) as [m3 [l|]] eqn:Hmv.
      + destruct (move_some_stepD m2 m3 l Hmv HL2) as [HM Hd3].
        destruct (expand_finishD var m2 m3 l HM Hd3 HL2 Hlt) as [HL4 Hcd4].
        apply IH; [exact HL4|]. msimpl. rewrite Hcd4. change (m_curr_depth m2) with (m_curr_depth m). lia.
      + exists m3. split; [reflexivity|].
        destruct (move_none_inv st_eqb inp m2 m3 Hmv) as [E1 E2]. split.
        * right. exists m2. destruct HL2 as [HL2 _]. auto.
        * rewrite E2. change (m_dom (push_layer (with_next m2 []) [] 0)) with (m_dom m). apply HL.
    - rewrite (nv_none _ states Hge).
      eexists. split; [reflexivity|]. split.
      + left. split; [|exact Hge]. destruct HL as [HL _].
        apply (Linv_frame inp Hnocut Hwidth Hroot_depth m); auto; reflexivity.
      + change (m_dom (add_log m ?e)) with (m_dom m). apply HL.
  Qed.

  Lemma compile_unfoldD tb tb2 c ds polls : N < length ds ->
    exists ml, layer_loop st_eqb inp (S (S N)) (initialize inp c ds polls) = (ml, LoopDone) /\
               MddProgress.Post inp ml /\ Sinv inp ml /\ Xs inp ml /\
               compile st_eqb inp tb tb2 c ds polls = (finalize st_eqb inp tb tb2 ml, Compiled).
  Proof.
    intros Hds.
    destruct (layer_loop_postD (S (S N)) (initialize inp c ds polls)) as (ml & Hl & HP & _).
    { split; [apply (MddProgress.Linv_initialize inp Hclean Hnocut Hwidth Hroot_depth)|exact Hds]. }
    { simpl. lia. }
    destruct (layer_loop_Sinv st_eqb st_eqb_spec inp Hclean (S (S N)) c ds polls) as [HS HX].
    rewrite Hl in HS, HX. cbn [fst] in HS, HX.
    exists ml. split; [exact Hl|]. split; [exact HP|]. split; [exact HS|]. split; [exact HX|].
    unfold compile. cbv zeta. rewrite Hl. reflexivity.
  Qed.

  Theorem compile_factsD tb tb2 c ds polls (m : mdd) out : N < length ds ->
    compile st_eqb inp tb tb2 c ds polls = (m, out) ->
    out = Compiled /\ m_crash m = false /\
    (forall id, id < length (m_nodes m) -> d0 <= n_depth (gn m id) <= N) /\
    (forall b, m_best m = Some b \/ m_best_exact m = Some b -> n_depth (gn m b) = N) /\
    (ci_type inp = Relaxed -> forall sp, In sp (drain_cutset inp m) -> d0 < sp_depth sp <= N) /\
    NoDup (m_cutset m) /\
    (ci_type inp = Relaxed -> forall id, In id (m_cutset m) -> id < length (m_nodes m)).
  Proof.
    intros Hds H. destruct (compile_unfoldD tb tb2 c ds polls Hds) as (ml & _ & HP & HS & HX & Hc).
    rewrite Hc in H. inversion H; subst. split; [reflexivity|].
    destruct (finalize_facts st_eqb inp Hclean Hnocache Hnocut Hwidth Hroot_depth tb tb2 ml HP HS HX)
      as (F1 & _ & Fd & _ & _ & Fn & G1 & G2 & Fnd & Fc).
    split; [exact F1|]. split; [exact Fd|]. split; [|split; [|split; [exact Fnd|]]].
    - intros b Hb. apply Fn. destruct Hb as [Hb|Hb]; [apply G1|apply G2]; exact Hb.
    - intros Hr sp Hin. destruct (drain_cutset_In inp _ sp Hin) as (id & Hid & ->).
      destruct (Fc Hr id Hid) as [a b]. specialize (Fd id a). lia.
    - intros Hr id Hid. apply (Fc Hr id Hid).
  Qed.

  (* ---- size of the diagram (K5) *)
  Variable D : nat.
  Hypothesis dom_bound : forall x s, length (domain pb x s) <= D.

  Lemma layer_loop_countD : forall fuel (m m' : mdd) e,
    ci_type inp = Relaxed -> LinvD m -> cnt_ok inp D m ->
    layer_loop st_eqb inp fuel m = (m', e) -> length (m_nodes m') <= Mbound inp D.
  Proof.
    induction fuel as [|fuel IH]; intros m m' e Ht HL HC H.
    - simpl in H. inversion H; subst. apply (cnt_ok_bound inp Hnocut Hwidth Hroot_depth); [exact HC|].
      destruct HL as [HL _]. pose proof (L_cd _ _ HL). pose proof (L_cdN _ _ HL). lia.
    - assert (Hhere : length (m_nodes m) <= Mbound inp D).
      { apply (cnt_ok_bound inp Hnocut Hwidth Hroot_depth); [exact HC|].
        destruct HL as [HL _]. pose proof (L_cd _ _ HL). pose proof (L_cdN _ _ HL). lia. }
      revert H. cbn [layer_loop]. cbv zeta.
      set (states := map (fun id => n_state (gn m id)) (m_next m)).
      destruct (next_variable (ci_problem inp) (m_curr_depth m) states) as [var|] eqn:Hv.
      2:{ intros H; inversion H; subst. exact Hhere. }
      assert (Hlt : m_curr_depth m < N).
      { destruct (Nat.lt_ge_cases (m_curr_depth m) N) as [G|G]; [exact G|].
        rewrite (nv_none _ states G) in Hv. discriminate. }
      set (m1 := add_log m (EvNextVar (m_curr_depth m) states (Some var))).
      set (m2 := with_polls m1 (S (m_polls m1))).
      rewrite Hnocut. change (Nat.ltb 0 0) with false. cbn [andb].
      rewrite not_pooledD.
      assert (HL2 : LinvD m2) by (apply (LinvD_frame m); auto; reflexivity).
      destruct (move_to_next_layer_clean st_eqb inp m2) as [m3 [l|]] eqn:Hmv.
      2:{ intros H; inversion H; subst. destruct (move_none_inv st_eqb inp m2 m' Hmv) as [_ ->]. exact Hhere. }
      destruct (move_some_stepD m2 m3 l Hmv HL2) as [HM Hd3].
      destruct (expand_finishD var m2 m3 l HM Hd3 HL2 Hlt) as [HL4 Hcd4].
      destruct (expand_layer_counts st_eqb inp Hnocut Hwidth Hroot_depth D dom_bound var l m3) as [X1 X2].
      set (m4 := fold_left (expand_node st_eqb inp var) l m3) in *.
      intros H. apply (IH _ _ _ Ht HL4) in H; [exact H|].
      pose proof (M_len _ _ _ _ HM) as Hlen3. change (m_nodes m2) with (m_nodes m) in Hlen3.
      rewrite (M_next _ _ _ _ HM) in X2. simpl in X2.
      destruct (M_layers _ _ _ _ HM) as [ids Hly]. change (m_layers m2) with (m_layers m) in Hly.
      pose proof (expand_layer_step st_eqb inp Hclean Hnocut Hwidth Hroot_depth var (m_curr_depth m2) l m3
                    (M_P _ _ _ _ HM) (M_l _ _ _ _ HM)) as [_ Hk4].
      assert (Hk5 : length (m_layers (with_depth m4 (S (m_curr_depth m4)))) = S (length (m_layers m))).
      { msimpl. fold m4 in Hk4. rewrite (k_layers _ _ _ Hk4), Hly, app_length. simpl. lia. }
      destruct HC as (C0 & C1 & C2).
      unfold cnt_ok. rewrite Hk5. msimpl.
      destruct (length (m_layers m)) as [|[|k]] eqn:Ek.
      + destruct C0 as [c1 c2]; auto.
        assert (Hl : length l <= 1).
        { pose proof (move_first_layers_len st_eqb inp m2 m3 l Hmv Ht) as G. change (m_layers m2) with (m_layers m) in G.
          change (m_next m2) with (m_next m) in G. rewrite Ek in G. specialize (G ltac:(lia)). lia. }
        assert (Hm : length l * D <= 1 * D) by (apply Nat.mul_le_mono_r; exact Hl).
        split; [discriminate|]. split; [intros _; lia|intros G; lia].
      + destruct C1 as [c1 c2]; auto.
        assert (Hl : length l <= D).
        { pose proof (move_first_layers_len st_eqb inp m2 m3 l Hmv Ht) as G. change (m_layers m2) with (m_layers m) in G.
          change (m_next m2) with (m_next m) in G. rewrite Ek in G. specialize (G ltac:(lia)). lia. }
        assert (Hm : length l * D <= D * D) by (apply Nat.mul_le_mono_r; exact Hl).
        split; [discriminate|]. split; [discriminate|]. intros _. simpl. lia.
      + assert (H2 : 2 <= S (S k)) by lia. specialize (C2 H2).
        assert (Hl : length l <= ci_width inp).
        { apply (move_clean_width_relaxed st_eqb inp m2 m3 l Hmv Ht); [|exact Hwidth].
          change (m_layers m2) with (m_layers m). rewrite Ek. lia. }
        assert (Hm : length l * D <= ci_width inp * D) by (apply Nat.mul_le_mono_r; exact Hl).
        split; [discriminate|]. split; [discriminate|]. intros _.
        replace (S (S (S k)) - 2) with (S (S (S k) - 2)) by lia.
        rewrite Nat.mul_succ_l. lia.
  Qed.

  Theorem cutset_size_boundD tb tb2 c ds polls (m : mdd) out : N < length ds ->
    ci_type inp = Relaxed ->
    compile st_eqb inp tb tb2 c ds polls = (m, out) -> length (drain_cutset inp m) <= Mbound inp D.
  Proof.
    intros Hds Ht H.
    destruct (compile_factsD tb tb2 c ds polls m out Hds H) as (_ & _ & _ & _ & _ & Fnd & Fc).
    assert (Hn : length (m_nodes m) <= Mbound inp D).
    { destruct (compile_unfoldD tb tb2 c ds polls Hds) as (ml & Hl & HP & HS & HX & Hc).
      rewrite Hc in H. inversion H; subst.
      destruct (finalize_facts st_eqb inp Hclean Hnocache Hnocut Hwidth Hroot_depth tb tb2 ml HP HS HX) as (_ & -> & _).
      eapply layer_loop_countD; [exact Ht| | |exact Hl].
      - split; [apply (MddProgress.Linv_initialize inp Hclean Hnocut Hwidth Hroot_depth)|exact Hds].
      - split; [|split]; simpl; intros; try discriminate; lia. }
    assert (H1 : length (drain_cutset inp m) <= length (m_cutset m)).
    { unfold drain_cutset. destruct (dd_best_value inp m); [|simpl; lia].
      apply flat_map_length_le. intros id. destruct (f_marked _); simpl; lia. }
    assert (H2 : length (m_cutset m) <= length (m_nodes m)).
    { apply NoDup_bounded_length; [exact Fnd|]. intros id Hid. apply (Fc Ht id Hid). }
    lia.
  Qed.
End DomProgress.

(* ================================================================== 7. the simulation argument with a dominance rule
   MddSim.v re-run.  The tracking invariants are those of MddSim.v for the TWIN input [inpT] = inp with
   ci_best_lb := max lb tau: its promising runs are the feasible runs of value > lb and > tau, and every function of the
   compilation that does not read ci_best_lb is convertible for inp and inpT.  The hypothesis [Hsafe] says that a pair
   (state, value) reached from the root whose best completion exceeds tau is never strictly dominated by a pair
   satisfying the store invariant [Pst]; [Hexact_Pst] says that what the compilation records satisfies [Pst]. *)
Local Ltac nsimpl :=
  cbn [n_state n_vtop n_vbot n_best n_inb n_rub n_theta n_flags n_depth
       set_flags set_theta set_vbot set_rub set_depth
       f_exact f_relaxed f_marked f_cutset f_deleted f_cache f_above
       fl_set_exact fl_set_relaxed fl_set_marked fl_set_cutset fl_set_deleted fl_set_cache fl_set_above
       fl_new_exact fl_new_relaxed e_from e_to e_dec e_cost].

Section DomSim.
  Context {St : Type}.
  Variable st_eqb : St -> St -> bool.
  Hypothesis st_eqb_spec : forall a b, st_eqb a b = true <-> a = b.
  Variable inp : @cinput St.
  Local Notation pb := (ci_problem inp).
  Local Notation rlx := (ci_relax inp).
  Local Notation root := (ci_root inp).
  Local Notation lb := (ci_best_lb inp).
  Local Notation N := (nb_vars (ci_problem inp)).
  Local Notation rd := (sp_depth (ci_root inp)).
  Local Notation rs := (sp_state (ci_root inp)).
  Local Notation rv := (sp_value (ci_root inp)).
  Hypothesis Hclean : ci_flavour inp = CleanLEL \/ ci_flavour inp = CleanFC.
  Hypothesis Hnocache : ci_use_cache inp = false.
  Hypothesis Hnocut : ci_cutoff inp = 0.
  Hypothesis Hwidth : 1 <= ci_width inp.
  Hypothesis Hrd : rd <= N.
  Hypothesis nv_static : forall k l1 l2, next_variable pb k l1 = next_variable pb k l2.
  Hypothesis nv_some : forall k l, k < N -> exists x, next_variable pb k l = Some x.
  Hypothesis nv_none : forall k l, N <= k -> next_variable pb k l = None.
  Variable cov : St -> St -> Prop.
  Hypothesis cov_refl : forall s, cov s s.
  Hypothesis cov_sim : forall s s' x v, cov s s' -> In v (domain pb x s') ->
    let d := {| d_var := x; d_val := v |} in
    In v (domain pb x s) /\ cov (transition pb s d) (transition pb s' d) /\
    (transition_cost pb s' (transition pb s' d) d <= transition_cost pb s (transition pb s d) d)%Z.
  Hypothesis merge_cov : forall L s s', In s L -> cov s s' -> cov (merge rlx L) s'.
  Hypothesis relax_ge : forall src dst mg d c, (c <= relax rlx src dst mg d c)%Z.
  Hypothesis rub_adm : forall k s s' h, cov s s' -> H pb k s' = Some h -> (h <= fast_upper_bound rlx s)%Z.
  Variable B : Z.
  Hypothesis HB : (2 * B <= IMAX)%Z.
  Hypothesis Hguard : forall ds s' v', frun pb rd rs rv ds = Some (s', v') -> (- B <= v' <= B)%Z.

  (* the rule *)
  Variable key : St -> option Z.
  Variable nd : nat.
  Variable coord : St -> nat -> Z.
  Variable usev : bool.
  Hypothesis Hdom : ci_domrule inp = Some (key, nd, coord, usev).
  Variable tau : Z.
  Variable Pst : nat -> Z -> St -> Z -> Prop.
  Hypothesis Hexact_Pst : forall ds s v k,
    frun pb rd rs rv ds = Some (s, v) -> key s = Some k -> Pst (rd + length ds) k s v.
  Hypothesis Hsafe : forall ds s v k h e ve,
    frun pb rd rs rv ds = Some (s, v) -> key s = Some k -> H pb (rd + length ds) s = Some h ->
    (tau < v + h)%Z -> Pst (rd + length ds) k e ve -> ~ sdom nd coord usev e ve s v.

  Notation mdd := (@mdd St).
  Notation node := (@node St).
  Notation gn := (get_node inp).
  Notation frn := (frun pb).

  Definition inpT : @cinput St :=
    {| ci_flavour := ci_flavour inp; ci_type := ci_type inp; ci_problem := ci_problem inp; ci_relax := ci_relax inp;
       ci_ranking := ci_ranking inp; ci_domcmp := ci_domcmp inp; ci_width := ci_width inp; ci_root := ci_root inp;
       ci_best_lb := Z.max lb tau; ci_use_cache := ci_use_cache inp; ci_domrule := ci_domrule inp; ci_cutoff := ci_cutoff inp |}.

  (* ---- the lemmas of MddSim.v that do not depend on the absence of a rule, closed over this section's context *)
  Ltac inst_with X t :=
    first
    [ let A := lazymatch type of t with forall x : ?A, _ => A end in
      first
      [ unify A (St -> St -> bool); inst_with X (t st_eqb)
      | unify A (@cinput St); inst_with X (t X)
      | unify A (St -> St -> Prop); inst_with X (t cov)
      | lazymatch type of t with forall b : Z, (2 * b <= IMAX)%Z -> _ => inst_with X (t B HB) end
      | let T := type of st_eqb_spec in unify A T; inst_with X (t st_eqb_spec)
      | let T := type of Hclean in unify A T; inst_with X (t Hclean)
      | let T := type of Hnocache in unify A T; inst_with X (t Hnocache)
      | let T := type of Hnocut in unify A T; inst_with X (t Hnocut)
      | let T := type of Hwidth in unify A T; inst_with X (t Hwidth)
      | let T := type of Hrd in unify A T; inst_with X (t Hrd)
      | let T := type of nv_static in unify A T; inst_with X (t nv_static)
      | let T := type of nv_some in unify A T; inst_with X (t nv_some)
      | let T := type of nv_none in unify A T; inst_with X (t nv_none)
      | let T := type of cov_refl in unify A T; inst_with X (t cov_refl)
      | let T := type of cov_sim in unify A T; inst_with X (t cov_sim)
      | let T := type of merge_cov in unify A T; inst_with X (t merge_cov)
      | let T := type of relax_ge in unify A T; inst_with X (t relax_ge)
      | let T := type of rub_adm in unify A T; inst_with X (t rub_adm)
      | let T := type of Hguard in unify A T; inst_with X (t Hguard) ]
    | exact t ].
  Ltac inst t := inst_with inp t.
  Ltac instT t := inst_with inpT t.

  Let guard_isize := ltac:(inst (@MddSim.guard_isize St)).
  Let inbinc_refl := ltac:(inst (@MddSim.inbinc_refl St)).
  Let inbinc_trans := ltac:(inst (@MddSim.inbinc_trans St)).
  Let gr_refl := ltac:(inst (@MddSim.gr_refl St)).
  Let gr_trans := ltac:(inst (@MddSim.gr_trans St)).
  Let inbinc_same_nodes := ltac:(inst (@MddSim.inbinc_same_nodes St)).
  Let inbinc_upd_node := ltac:(inst (@MddSim.inbinc_upd_node St)).
  Let inbinc_append_edge := ltac:(inst (@MddSim.inbinc_append_edge St)).
  Let inbinc_snoc := ltac:(inst (@MddSim.inbinc_snoc St)).
  Let gr_add_log := ltac:(inst (@MddSim.gr_add_log St)).
  Let gr_upd_node := ltac:(inst (@MddSim.gr_upd_node St)).
  Let gr_append_edge := ltac:(inst (@MddSim.gr_append_edge St)).
  Let gr_snoc := ltac:(inst (@MddSim.gr_snoc St)).
  Let gr_with_next_app := ltac:(inst (@MddSim.gr_with_next_app St)).
  Let gr_fold := ltac:(inst (@MddSim.gr_fold St)).
  Let gr_branch_on := ltac:(inst (@MddSim.gr_branch_on St)).
  Let gr_expand_node := ltac:(inst (@MddSim.gr_expand_node St)).
  Let gr_ceq := ltac:(inst (@MddSim.gr_ceq St)).
  Let gr_edge := ltac:(inst (@MddSim.gr_edge St)).
  Let gr_state := ltac:(inst (@MddSim.gr_state St)).
  Let gr_nodes := ltac:(inst (@MddSim.gr_nodes St)).
  Let gr_edges_len := ltac:(inst (@MddSim.gr_edges_len St)).
  Let gr_next := ltac:(inst (@MddSim.gr_next St)).
  Let gr_layers := ltac:(inst (@MddSim.gr_layers St)).
  Let dpath_cov := ltac:(inst (@MddSim.dpath_cov St)).
  Let dpath_range := ltac:(inst (@MddSim.dpath_range St)).
  Let dpath_state := ltac:(inst (@MddSim.dpath_state St)).
  Let dpath_transport := ltac:(inst (@MddSim.dpath_transport St)).
  Let dpath_gr := ltac:(inst (@MddSim.dpath_gr St)).
  Let dpath_peq := ltac:(inst (@MddSim.dpath_peq St)).
  Let dpath_split := ltac:(inst (@MddSim.dpath_split St)).
  Let Einv_peq := ltac:(inst (@MddSim.Einv_peq St)).
  Let Einv_ceq := ltac:(inst (@MddSim.Einv_ceq St)).
  Let Einv_append_edge := ltac:(inst (@MddSim.Einv_append_edge St)).
  Let Einv_snoc := ltac:(inst (@MddSim.Einv_snoc St)).
  Let Einv_upd_open := ltac:(inst (@MddSim.Einv_upd_open St)).
  Let Einv_frame := ltac:(inst (@MddSim.Einv_frame St)).
  Let dpath_vtop_gen := ltac:(inst (@MddSim.dpath_vtop_gen St)).
  Let dpath_vtop := ltac:(inst (@MddSim.dpath_vtop St)).
  Let dpath_exact := ltac:(inst (@MddSim.dpath_exact St)).
  Let filter_with_cache_nocache := ltac:(inst (@MddSim.filter_with_cache_nocache St)).
  Let branch_on_spec := ltac:(inst (@MddSim.branch_on_spec St)).
  Let Einv_branch_on := ltac:(inst (@MddSim.Einv_branch_on St)).
  Let branch_on_Cinv := ltac:(inst (@MddSim.branch_on_Cinv St)).
  Let prefix_isize := ltac:(inst (@MddSim.prefix_isize St)).
  Let expand_node_track := ltac:(inst (@MddSim.expand_node_track St)).
  Let expand_node_Cinv := ltac:(inst (@MddSim.expand_node_Cinv St)).
  Let root_vtop := ltac:(inst (@MddSim.root_vtop St)).
  Let expand_layer_Cinv := ltac:(inst (@MddSim.expand_layer_Cinv St)).
  Let expand_layer_track := ltac:(inst (@MddSim.expand_layer_track St)).
  Let gr_redirect_step := ltac:(inst (@MddSim.gr_redirect_step St)).
  Let gr_drop_step := ltac:(inst (@MddSim.gr_drop_step St)).
  Let Rinv_redirect_step := ltac:(inst (@MddSim.Rinv_redirect_step St)).
  Let Rinv_upd_flag := ltac:(inst (@MddSim.Rinv_upd_flag St)).
  Let Rinv_drop_step := ltac:(inst (@MddSim.Rinv_drop_step St)).
  Let redirect_step_track := ltac:(inst (@MddSim.redirect_step_track St)).
  Let srcs_refl := ltac:(inst (@MddSim.srcs_refl St)).
  Let srcs_trans := ltac:(inst (@MddSim.srcs_trans St)).
  Let srcs_edges_eq := ltac:(inst (@MddSim.srcs_edges_eq St)).
  Let Src_gr := ltac:(inst (@MddSim.Src_gr St)).
  Let srcs_redirect_step := ltac:(inst (@MddSim.srcs_redirect_step St)).
  Let srcs_drop_step := ltac:(inst (@MddSim.srcs_drop_step St)).
  Let srcs_drop_fold := ltac:(inst (@MddSim.srcs_drop_fold St)).
  Let drop_fold_track := ltac:(inst (@MddSim.drop_fold_track St)).
  Let dpath_snoc_inv := ltac:(inst (@MddSim.dpath_snoc_inv St)).
  Let is_exact_set_relaxed := ltac:(inst (@MddSim.is_exact_set_relaxed St)).
  Let relax_layer_sim := ltac:(inst (@MddSim.relax_layer_sim St)).
  Let append_edge_lel := ltac:(inst (@MddSim.append_edge_lel St)).
  Let branch_on_lel := ltac:(inst (@MddSim.branch_on_lel St)).
  Let expand_node_lel := ltac:(inst (@MddSim.expand_node_lel St)).
  Let expand_layer_lel := ltac:(inst (@MddSim.expand_layer_lel St)).
  Let squash_sim := ltac:(inst (@MddSim.squash_sim St)).
  Let dpath_ceq := ltac:(inst (@MddSim.dpath_ceq St)).
  Let Src_branch_on := ltac:(inst (@MddSim.Src_branch_on St)).
  Let Src_expand_node := ltac:(inst (@MddSim.Src_expand_node St)).
  Let Src_expand_layer := ltac:(inst (@MddSim.Src_expand_layer St)).
  Let run_prefix := ltac:(inst (@MddSim.run_prefix St)).
  Let frun_len_le := ltac:(inst (@MddSim.frun_len_le St)).
  Let Start_isize := ltac:(inst (@MddSim.Start_isize St)).
  Let Start_H_isize := ltac:(inst (@MddSim.Start_H_isize St)).
  Let prom_prefix := ltac:(inst (@MddSim.prom_prefix St)).
  Let dpath_frame := ltac:(inst (@MddSim.dpath_frame St)).
  Let Linv_initialize := ltac:(inst (@MddSim.Linv_initialize St)).
  Let zmax_list_spec := ltac:(inst (@MddSim.zmax_list_spec St)).
  Let pick_argmax_spec := ltac:(inst (@MddSim.pick_argmax_spec St)).
  Let pick_argmax_some := ltac:(inst (@MddSim.pick_argmax_some St)).
  Let hdr_lel_cutset := ltac:(inst (@MddSim.hdr_lel_cutset St)).
  Let hdr_frontier_cutset := ltac:(inst (@MddSim.hdr_frontier_cutset St)).
  Let hdr_finalize_cutset := ltac:(inst (@MddSim.hdr_finalize_cutset St)).
  Let hdr_compute_local_bounds := ltac:(inst (@MddSim.hdr_compute_local_bounds St)).
  Let cache_update_nocache := ltac:(inst (@MddSim.cache_update_nocache St)).
  Let hdr_compute_thresholds := ltac:(inst (@MddSim.hdr_compute_thresholds St)).
  Let node_compute_thresholds := ltac:(inst (@MddSim.node_compute_thresholds St)).
  Let hdr_eq := ltac:(inst (@MddSim.hdr_eq St)).
  Let finalize_layers_fields := ltac:(inst (@MddSim.finalize_layers_fields St)).
  Let finalize_hdr := ltac:(inst (@MddSim.finalize_hdr St)).
  Let gn_finalize_layers := ltac:(inst (@MddSim.gn_finalize_layers St)).
  Let finalize_core := ltac:(inst (@MddSim.finalize_core St)).
  Let vstar_opt_enum := ltac:(inst (@MddSim.vstar_opt_enum St)).
  Let vstar_prom := ltac:(inst (@MddSim.vstar_prom St)).
  Let vstar_upper := ltac:(inst (@MddSim.vstar_upper St)).
  Let Sinv_root_vtop := ltac:(inst (@MddSim.Sinv_root_vtop St)).
  Let track_terminal := ltac:(inst (@MddSim.track_terminal St)).
  Let clean_chain_frun := ltac:(inst (@MddSim.clean_chain_frun St)).
  Let exact_terminal_le := ltac:(inst (@MddSim.exact_terminal_le St)).
  Let best_ge := ltac:(inst (@MddSim.best_ge St)).
  Let best_exact_ge := ltac:(inst (@MddSim.best_exact_ge St)).
  Let Forall_upd_nth_at := ltac:(inst (@MddSim.Forall_upd_nth_at St)).
  Let Ninv_same := ltac:(inst (@MddSim.Ninv_same St)).
  Let Ninv_upd := ltac:(inst (@MddSim.Ninv_upd St)).
  Let Ninv_append_edge := ltac:(inst (@MddSim.Ninv_append_edge St)).
  Let Ninv_snoc := ltac:(inst (@MddSim.Ninv_snoc St)).
  Let Ninv_fold := ltac:(inst (@MddSim.Ninv_fold St)).
  Let Ninv_branch_on := ltac:(inst (@MddSim.Ninv_branch_on St)).
  Let Ninv_expand_node := ltac:(inst (@MddSim.Ninv_expand_node St)).
  Let filter_with_cache_nodes := ltac:(inst (@MddSim.filter_with_cache_nodes St)).
  Let Pn_set_flag := ltac:(inst (@MddSim.Pn_set_flag St)).
  Let Ninv_note_squash := ltac:(inst (@MddSim.Ninv_note_squash St)).
  Let Ninv_redirect_step := ltac:(inst (@MddSim.Ninv_redirect_step St)).
  Let Ninv_drop_step := ltac:(inst (@MddSim.Ninv_drop_step St)).
  Let Ninv_squash := ltac:(inst (@MddSim.Ninv_squash St)).
  Let Ninv_initialize := ltac:(inst (@MddSim.Ninv_initialize St)).
  Let compute_local_bounds_unfold := ltac:(inst (@MddSim.compute_local_bounds_unfold St)).
  Let Stat_refl := ltac:(inst (@MddSim.Stat_refl St)).
  Let Stat_trans := ltac:(inst (@MddSim.Stat_trans St)).
  Let Mono_refl := ltac:(inst (@MddSim.Mono_refl St)).
  Let Mono_trans := ltac:(inst (@MddSim.Mono_trans St)).
  Let Stat_upd := ltac:(inst (@MddSim.Stat_upd St)).
  Let Mono_lb_upd := ltac:(inst (@MddSim.Mono_lb_upd St)).
  Let Mono_fold := ltac:(inst (@MddSim.Mono_fold St)).
  Let Mono_lb_step := ltac:(inst (@MddSim.Mono_lb_step St)).
  Let Stat_edge := ltac:(inst (@MddSim.Stat_edge St)).
  Let lb_step_hit := ltac:(inst (@MddSim.lb_step_hit St)).
  Let Mono_proc := ltac:(inst (@MddSim.Mono_proc St)).
  Let proc_hit := ltac:(inst (@MddSim.proc_hit St)).
  Let skipn_nth_cons := ltac:(inst (@MddSim.skipn_nth_cons St)).
  Let Stg_step := ltac:(inst (@MddSim.Stg_step St)).
  Let Stg_mono1 := ltac:(inst (@MddSim.Stg_mono1 St)).
  Let Stg_mono := ltac:(inst (@MddSim.Stg_mono St)).
  Let Stg_base := ltac:(inst (@MddSim.Stg_base St)).
  Let lb_path := ltac:(inst (@MddSim.lb_path St)).
  Let Stat_fold := ltac:(inst (@MddSim.Stat_fold St)).
  Let lb_init_spec := ltac:(inst (@MddSim.lb_init_spec St)).
  Let local_bounds_path := ltac:(inst (@MddSim.local_bounds_path St)).
  Let frontier_cutset_unfold := ltac:(inst (@MddSim.frontier_cutset_unfold St)).
  Let FInv_upd_above := ltac:(inst (@MddSim.FInv_upd_above St)).
  Let FInv_fc_inner := ltac:(inst (@MddSim.FInv_fc_inner St)).
  Let FInv_fc_step := ltac:(inst (@MddSim.FInv_fc_step St)).
  Let frontier_cutset_hit := ltac:(inst (@MddSim.frontier_cutset_hit St)).
  Let lel_finalize_cutset := ltac:(inst (@MddSim.lel_finalize_cutset St)).
  Let dpath_start_layer := ltac:(inst (@MddSim.dpath_start_layer St)).
  Let dpath_last_exact := ltac:(inst (@MddSim.dpath_last_exact St)).
  Let node_finalize_cutset := ltac:(inst (@MddSim.node_finalize_cutset St)).
  Let node_compute_local_bounds := ltac:(inst (@MddSim.node_compute_local_bounds St)).
  Let pipe3 := ltac:(inst (@MddSim.pipe3 St)).
  Let in_bottom_up := ltac:(inst (@MddSim.in_bottom_up St)).
  Let cut_node := ltac:(inst (@MddSim.cut_node St)).
  Let S4_core := ltac:(inst (@MddSim.S4_core St)).
  Let finalize_rub := ltac:(inst (@MddSim.finalize_rub St)).
  Let marked_upd := ltac:(inst (@MddSim.marked_upd St)).
  Let marked_src := ltac:(inst (@MddSim.marked_src St)).
  Let flag_finalize_cutset := ltac:(inst (@MddSim.flag_finalize_cutset St)).
  Let frontier_cutset_src := ltac:(inst (@MddSim.frontier_cutset_src St)).
  Let locb_from_path := ltac:(inst (@MddSim.locb_from_path St)).


  Local Notation dpath := (MddSim.dpath inp cov).
  Local Notation is_ex := (MddSim.is_ex inp).
  Local Notation gr := (MddSim.gr inp).
  Local Notation Einv := (MddSim.Einv inp).
  Local Notation Cinv := (MddSim.Cinv inp).
  Local Notation Src := (@MddSim.Src St).
  Local Notation srcs := (@MddSim.srcs St).
  Local Notation enabled := (MddSim.enabled inp).
  Local Notation Start := (MddSim.Start inp).
  Local Notation Ninv := (MddSim.Ninv inp).
  Local Notation SrcLay := (MddSim.SrcLay inp).
  Local Notation vstar := (MddSim.vstar inp).
  Local Notation E_le := (MddSim.E_le inp).
  Local Notation E_from := (MddSim.E_from inp).
  Local Notation E_inb := (MddSim.E_inb inp).
  Local Notation dp_nil := (MddSim.dp_nil inp cov).
  Local Notation lb_go := (MddSim.lb_go inp).

  (* ---- a covering state has at least the value-to-go of the covered one *)
  Lemma cov_frun ds : forall k s s' v v' sN' w', cov s s' -> (v' <= v)%Z ->
    frn k s' v' ds = Some (sN', w') -> exists sN w, frn k s v ds = Some (sN, w) /\ cov sN sN' /\ (w' <= w)%Z.
  Proof.
    induction ds as [|d ds IH]; intros k s s' v v' sN' w' Hc Hv Hr; cbn [frun] in *.
    - inversion Hr; subst. exists s, v. auto.
    - destruct (var_ok pb k d) eqn:Ev; cbn [andb] in *; [|discriminate].
      destruct (in_domain pb s' d) eqn:Ed; [|discriminate].
      apply (in_domain_In pb) in Ed.
      destruct (cov_sim s s' (d_var d) (d_val d) Hc Ed) as (C1 & C2 & C3). cbv zeta in C2, C3.
      assert (Edd : {| d_var := d_var d; d_val := d_val d |} = d) by (destruct d; reflexivity).
      rewrite Edd in C2, C3. rewrite (In_in_domain pb s d C1).
      eapply IH; [exact C2| |exact Hr]. lia.
  Qed.

  Lemma cov_H k s s' h : k <= N -> cov s s' -> H pb k s' = Some h -> exists h', H pb k s = Some h' /\ (h <= h')%Z.
  Proof.
    intros Hk Hc Hh.
    destruct (H_attained pb nv_static nv_some nv_none (N - k) k s' 0%Z h eq_refl Hk Hh) as (ds & sN & Hr & Hl).
    destruct (cov_frun ds k s s' 0%Z 0%Z sN (0 + h)%Z Hc ltac:(lia) Hr) as (sN2 & w & Hr2 & _ & Hw).
    destruct (frun_le_H pb nv_static nv_none ds k s 0%Z sN2 w Hl Hr2) as (h' & Hh' & Hle).
    exists h'. split; [exact Hh'|lia].
  Qed.

  (* ---- the node-local invariant Ninv through the dominance filter *)
  Lemma dom_query_nodes (m : mdd) s d v : m_nodes (fst (dom_query inp m s d v)) = m_nodes m.
  Proof.
    unfold dom_query. rewrite Hdom.
    destruct (is_dominated_or_insert Z.eqb key nd coord usev (m_dom m) s d v) as [[st' r]|]; reflexivity.
  Qed.

  Lemma dom_retain_Ninv l : forall (m : mdd), Ninv m -> Ninv (fst (dom_retain inp m l)).
  Proof.
    induction l as [|id l IH]; intros m H; cbn [dom_retain]; [exact H|].
    destruct (fl_is_exact (n_flags (gn m id))).
    - pose proof (dom_query_nodes m (n_state (gn m id)) (n_depth (gn m id)) (n_vtop (gn m id))) as Hq.
      destruct (dom_query inp m (n_state (gn m id)) (n_depth (gn m id)) (n_vtop (gn m id))) as [m1 r]. cbn [fst] in Hq.
      assert (H1 : Ninv m1) by (eapply Ninv_same; [exact Hq|exact H]).
      destruct (dc_dominated r).
      + apply IH. apply Ninv_upd; [|exact H1]. intros n Hn. exact Hn.
      + specialize (IH m1 H1). destruct (dom_retain inp m1 l) as [m2 k]. exact IH.
    - specialize (IH m H). destruct (dom_retain inp m l) as [m2 k]. exact IH.
  Qed.

  Lemma Ninv_moveD (m : mdd) : Ninv m -> Ninv (fst (move_to_next_layer_clean st_eqb inp m)).
  Proof.
    intros H. rewrite move_clean_unfold. destruct (m_next m) as [|c0 cs]; [exact H|].
    set (curr := c0 :: cs).
    assert (Hb : Ninv (fst (prefilter st_eqb inp (with_next m []) curr))).
    { unfold prefilter. destruct (Nat.ltb 0 _); [|exact H].
      eapply Ninv_same; [apply filter_with_cache_nodes|exact H]. }
    destruct (prefilter st_eqb inp (with_next m []) curr) as [mb lb0]. cbn [fst] in Hb.
    assert (Hcc : Ninv (fst (filter_with_dominance inp mb lb0))).
    { unfold filter_with_dominance. apply dom_retain_Ninv. exact Hb. }
    destruct (filter_with_dominance inp mb lb0) as [mc lc]. cbn [fst] in Hcc.
    pose proof (Ninv_squash mc lc Hcc) as Hd.
    destruct (squash_if_needed st_eqb inp mc lc) as [md ld]. cbn [fst] in *. exact Hd.
  Qed.

  Lemma layer_loop_NinvD : forall fuel (m : mdd), Ninv m -> Ninv (fst (layer_loop st_eqb inp fuel m)).
  Proof.
    induction fuel as [|fuel IH]; intros m H; [exact H|].
    cbn [layer_loop]. cbv zeta.
    destruct (next_variable _ _ _) as [var|]; [|exact H].
    destruct (_ && _); [exact H|].
    rewrite (not_pooled inp Hclean).
    match goal with |- context [move_to_next_layer_clean st_eqb inp ?mm] =>
      pose proof (Ninv_moveD mm) as Hmv; destruct (move_to_next_layer_clean st_eqb inp mm) as [m3 ol] end.
    cbn [fst] in Hmv. specialize (Hmv H).
    destruct ol as [l|]; [|exact Hmv].
    apply IH. eapply Ninv_same; [reflexivity|].
    apply Ninv_fold; [intros; apply Ninv_expand_node; assumption|exact Hmv].
  Qed.

  (* ---- a node the filter may drop: exact, and strictly dominated by a pair satisfying the store invariant *)
  Definition droppable (m : mdd) (u : nat) : Prop :=
    is_ex m u = true /\
    exists k e ve, key (n_state (gn m u)) = Some k /\ Pst (n_depth (gn m u)) k e ve /\
                   sdom nd coord usev e ve (n_state (gn m u)) (n_vtop (gn m u)).

  Lemma tracked_not_droppable (m : mdd) d u s' h v1 :
    Cinv d m -> d <= N -> In u (m_next m) -> cov (n_state (gn m u)) s' -> H pb d s' = Some h ->
    (v1 <= n_vtop (gn m u))%Z -> (tau < v1 + h)%Z -> ~ droppable m u.
  Proof.
    intros (HD & HX & Hnd & HE) HdN Hu Hc Hh Hv Ht (Hex & k & e & ve & Hk & HP & Hs).
    pose proof (D_next _ _ _ HD u Hu) as Hr.
    pose proof (Sinv_exact_flag_clean_chain inp m (Dinv_Sinv inp m HD) u (proj2 Hr) Hex) as Hcc.
    destruct (clean_chain_frun m u (Dinv_Sinv inp m HD) Hcc (proj2 Hr)) as (dsu & Hru & Hdu).
    rewrite (Hnd u Hu) in Hdu, HP.
    destruct (cov_H d _ s' h HdN Hc Hh) as (h' & Hh' & Hle).
    rewrite Hdu in HP, Hh'.
    apply (Hsafe dsu _ _ k h' e ve Hru Hk Hh' ltac:(lia) HP). exact Hs.
  Qed.

  Lemma move_simD (m : mdd) d :
    Cinv d m -> m_next m <> [] -> d <= N -> N < length (m_dom m) -> store_all Pst (m_dom m) ->
    exists m3 l ids, move_to_next_layer_clean st_eqb inp m = (m3, Some l) /\
      Cinv (S d) m3 /\ m_next m3 = [] /\
      (forall id, In id l -> id < m_layer_end m3 /\ n_depth (gn m3 id) = d) /\
      m_curr_depth m3 = m_curr_depth m /\ m_layers m3 = m_layers m ++ [ids] /\
      (forall id, In id l -> In id ids) /\
      (enabled m3 -> enabled m) /\
      (forall i0 c0 sc0 u ds s', In u (m_next m) -> ~ droppable m u -> (1 < length (m_layers m) -> ds <> []) -> enabled m3 ->
        dpath m i0 c0 sc0 ds u s' -> exists u', In u' l /\ dpath m3 i0 c0 sc0 ds u' s') /\
      srcs m m3 /\
      (forall x, x < m_layer_end m -> core_eq (gn m x) (gn m3 x)) /\
      (forall x, Src m3 x -> ~ In x ids) /\
      (forall x, In x ids -> m_layer_end m <= x) /\
      m_layer_end m <= m_layer_end m3 /\
      length (m_dom m3) = length (m_dom m) /\ store_all Pst (m_dom m3).
  Proof.
    intros (HD & HX & Hnd & HE) Hne HdN Hdlen Hstore.
    rewrite move_clean_unfold.
    destruct (m_next m) as [|c0 cs] eqn:En; [congruence|].
    set (curr := c0 :: cs) in *.
    set (ma := with_next m []).
    assert (Hpa : peq inp m ma) by (apply peq_same_nodes; reflexivity).
    assert (HDa : Dinv inp ma).
    { eapply (Dg_peq inp Hclean); [exact Hpa|exact HD|apply Nat.le_refl|apply (D_le _ _ _ HD)|]. intros id []. }
    assert (HXa : Xinv inp ma) by (eapply Xg_peq; [exact Hpa|reflexivity|reflexivity|reflexivity|exact HX]).
    assert (HEa : Einv ma).
    { eapply Einv_frame; [| | | |exact HE]; try reflexivity. apply (E_le _ HE). }
    assert (Hla : layer_ok inp ma curr d).
    { intros id Hid. rewrite <- En in Hid. split; [apply (D_next _ _ _ HD id Hid)|apply Hnd; exact Hid]. }
    (* cache filter *)
    assert (Hb : ceq inp ma (fst (prefilter st_eqb inp ma curr)) /\ snd (prefilter st_eqb inp ma curr) = curr).
    { unfold prefilter. destruct (Nat.ltb 0 (length (m_layers ma))).
      - split; [apply (filter_with_cache_ceq st_eqb inp Hclean curr ma)|apply filter_with_cache_nocache].
      - split; [apply ceq_refl|reflexivity]. }
    pose proof (dom_prefilter st_eqb inp ma curr) as Hdomb.
    destruct (prefilter st_eqb inp ma curr) as [mb lb0]. cbn [fst snd] in Hb, Hdomb. destruct Hb as [Hcb ->].
    change (m_dom ma) with (m_dom m) in Hdomb.
    assert (Hcoreb : forall x, core_eq (gn m x) (gn mb x)).
    { intros x. destruct Hpa as (_ & _ & _ & A4a). destruct Hcb as ((_ & _ & _ & A4b) & _).
      eapply (core_eq_trans inp Hclean); [apply A4a|apply A4b]. }
    (* dominance filter *)
    pose proof (filter_with_dominance_ceq inp mb curr) as [Hcc Hlc].
    destruct (filter_with_dominance inp mb curr) as [mc lc] eqn:Efd. cbn [fst snd] in Hcc, Hlc.
    destruct (filter_with_dominance_spec inp key nd coord usev Hdom Pst mb mc curr lc Efd) as (_ & F2 & F3 & F4).
    { intros id Hid. rewrite Hdomb. destruct (Hcoreb id) as (_ & _ & _ & _ & _ & _ & c7). rewrite <- c7.
      rewrite <- En in Hid. rewrite (Hnd id Hid). lia. }
    { rewrite Hdomb. exact Hstore. }
    { intros id k Hid Hex Hk. destruct (Hcoreb id) as (c1 & c2 & _ & _ & c5 & c6 & c7).
      rewrite <- c1 in Hk. rewrite <- c1, <- c2, <- c7.
      assert (Hex' : fl_is_exact (n_flags (gn m id)) = true).
      { unfold fl_is_exact in *. rewrite c5, c6. exact Hex. }
      rewrite <- En in Hid. pose proof (D_next _ _ _ HD id Hid) as Hr.
      pose proof (Sinv_exact_flag_clean_chain inp m (Dinv_Sinv inp m HD) id (proj2 Hr) Hex') as Hcch.
      destruct (clean_chain_frun m id (Dinv_Sinv inp m HD) Hcch (proj2 Hr)) as (dsu & Hru & Hdu).
      rewrite Hdu. apply Hexact_Pst; assumption. }
    assert (Hac : ceq inp ma mc) by (eapply ceq_trans; eauto).
    assert (HDc : Dinv inp mc) by (eapply (Dg_ceq inp Hclean); eauto).
    assert (HXc : Xinv inp mc) by (eapply Xinv_ceq; eauto).
    assert (HEc : Einv mc) by (eapply Einv_ceq; eauto).
    assert (Hlcl : layer_ok inp mc lc d).
    { eapply layer_ok_stable; [apply ceq_stable; exact Hac|exact Hla|]. exact Hlc. }
    assert (Hnc : m_next mc = []) by (destruct Hac as (_ & Hn & _); rewrite Hn; reflexivity).
    (* squash *)
    destruct (squash_if_needed_inv st_eqb inp Hclean mc lc d HDc HXc Hlcl) as (Q1 & Q2 & Q3 & Q4 & Q5).
    destruct (squash_sim mc lc d HDc HXc HEc Hlcl) as (S1 & S2 & S2s & S3 & S4).
    destruct (squash_if_needed st_eqb inp mc lc) as [md ld] eqn:Esq. cbn [fst snd] in *.
    set (from := m_layer_end md). set (to := length (m_nodes md)).
    assert (Hft : from <= to) by apply (D_le _ _ _ Q1).
    set (m3 := push_layer md (seq from (to - from)) to).
    assert (Hp : peq inp md m3) by (apply peq_same_nodes; reflexivity).
    exists m3, ld, (seq from (to - from)).
    split; [reflexivity|].
    assert (Hlay3 : m_layers m3 = m_layers m ++ [seq from (to - from)]).
    { unfold m3. msimpl. f_equal. rewrite (gr_layers _ _ S2).
      destruct Hac as (_ & _ & _ & Hl & _). rewrite Hl. reflexivity. }
    assert (Hle_mc : m_layer_end mc = m_layer_end m).
    { destruct Hac as (_ & _ & Hl & _). rewrite Hl. reflexivity. }
    assert (Hle_md : m_layer_end md = m_layer_end m).
    { destruct Q3 as (q1 & _). rewrite q1. exact Hle_mc. }
    split; [|split; [|split; [|split; [|split; [|split; [|split; [|split; [|split; [|split; [|split; [|split; [|split; [|split]]]]]]]]]]]]].
    - split; [|split; [|split]].
      + eapply (Dg_peq inp Hclean); [exact Hp|exact Q1|exact Hft|apply Nat.le_refl|].
        intros id Hid. unfold m3 in Hid. msimpl_in Hid. rewrite Q4, Hnc in Hid. destruct Hid.
      + apply Xg_push_layer.
        * eapply Xg_weaken; [|exact Q2]. exact Hft.
        * apply Nat.le_refl.
        * intros id Hid. apply in_seq in Hid. unfold m3. msimpl. unfold from, to in *. lia.
      + intros id Hid. unfold m3 in Hid. msimpl_in Hid. rewrite Q4, Hnc in Hid. destruct Hid.
      + apply (Einv_frame md m3); [reflexivity|reflexivity|exact Hft|apply Nat.le_refl|exact S1].
    - unfold m3. msimpl. rewrite Q4. exact Hnc.
    - intros id Hid. destruct (Q5 id Hid) as [Hr Hdp]. unfold m3. msimpl. split; [unfold to; lia|exact Hdp].
    - unfold m3. msimpl. destruct Q3 as (_ & _ & _ & _ & q5). rewrite q5.
      destruct Hac as (_ & _ & _ & _ & _ & _ & a7). rewrite a7. reflexivity.
    - exact Hlay3.
    - intros id Hid. destruct (Q5 id Hid) as [Hr _]. apply in_seq. unfold from, to. lia.
    - intros Hen. assert (Hmc : enabled mc) by (apply S3; exact Hen).
      intros Ht. specialize (Hmc Ht). destruct Hac as (_ & _ & _ & _ & Hlel & _). rewrite Hlel in Hmc. exact Hmc.
    - intros i0 cc0 sc0 u ds s' Hu Hnd' Hds Hen Hpth.
      assert (Hpc : dpath mc i0 cc0 sc0 ds u s').
      { eapply dpath_ceq; [exact Hac|]. eapply dpath_peq; [exact Hpa| |exact Hpth]. auto. }
      destruct (S4 i0 cc0 sc0 u ds s') as (u' & Hu' & Hp').
      + destruct (in_dec Nat.eq_dec u lc) as [Hin|Hnin]; [exact Hin|]. exfalso. apply Hnd'.
        destruct (F4 u Hu Hnin) as (G1 & k & e & ve & G2 & G3 & G4).
        destruct (Hcoreb u) as (c1 & c2 & _ & _ & c5 & c6 & c7).
        split.
        * unfold is_ex, fl_is_exact in *. rewrite c5, c6. exact G1.
        * exists k, e, ve. rewrite c1, c2, c7. auto.
      + intros H1. apply Hds. destruct Hac as (_ & _ & _ & Hl & _). rewrite Hl in H1. exact H1.
      + exact Hen.
      + exact Hpc.
      + exists u'. split; [exact Hu'|]. eapply dpath_peq; [exact Hp| |exact Hp'].
        intros k x. unfold m3. msimpl. apply nth_layers_app.
    - eapply srcs_trans; [|eapply srcs_trans; [exact S2s|apply srcs_edges_eq; reflexivity]].
      apply srcs_edges_eq. destruct Hac as ((Hce & _) & _). rewrite Hce. reflexivity.
    - intros x Hx.
      destruct Hpa as (_ & _ & _ & A4a). destruct Hac as ((_ & _ & _ & A4c) & _).
      destruct Q3 as (_ & _ & q3 & _). destruct Hp as (_ & _ & _ & A4p).
      eapply (core_eq_trans inp Hclean); [apply A4a|]. eapply (core_eq_trans inp Hclean); [apply A4c|].
      eapply (core_eq_trans inp Hclean); [apply q3; rewrite Hle_mc; exact Hx|apply A4p].
    - intros x (eid & He1 & He2) Hin. apply in_seq in Hin.
      change (m_edges m3) with (m_edges md) in He1. change (get_edge m3 eid) with (get_edge md eid) in He2.
      pose proof (E_from _ S1 eid He1) as Hf. rewrite He2 in Hf. unfold from in Hin. lia.
    - intros x Hin. apply in_seq in Hin. unfold from in Hin. lia.
    - unfold m3. msimpl. unfold to, from in *. lia.
    - change (m_dom m3) with (m_dom md). pose proof (dom_squash_if_needed st_eqb inp mc lc) as Hq.
      rewrite Esq in Hq. cbn [fst] in Hq. rewrite Hq, F2, Hdomb. reflexivity.
    - change (m_dom m3) with (m_dom md). pose proof (dom_squash_if_needed st_eqb inp mc lc) as Hq.
      rewrite Esq in Hq. cbn [fst] in Hq. rewrite Hq. exact F3.
  Qed.


  (* ---- the tracking invariants: those of MddSim.v for the twin input, written with this section's names *)
  Definition promT (ds : list decision) (sN : St) (w : Z) : Prop :=
    frn rd rs rv ds = Some (sN, w) /\ rd + length ds = N /\ (Z.max lb tau < w)%Z.
  Definition promCT (i : nat) (sc : St) (vc : Z) (ds2 : list decision) (sN : St) (w : Z) : Prop :=
    frn (rd + i) sc vc ds2 = Some (sN, w) /\ rd + i + length ds2 = N /\ (Z.max lb tau < w)%Z.
  Definition TinvT (m : mdd) : Prop :=
    forall ds sN w, promT ds sN w -> enabled m ->
    exists u s', In u (m_next m) /\ dpath m 0 0 rs (firstn (m_curr_depth m - rd) ds) u s'.
  Definition UTinvT (m : mdd) : Prop :=
    forall i c sc vc ds2 sN w, i < m_curr_depth m - rd ->
      In c (nth i (m_layers m) []) -> Src m c ->
      cov (n_state (gn m c)) sc -> (vc <= n_vtop (gn m c))%Z -> Start i sc vc ->
      promCT i sc vc ds2 sN w -> enabled m ->
      n_depth (gn m c) = rd + i /\
      exists u s', In u (m_next m) /\ dpath m i c sc (firstn (m_curr_depth m - rd - i) ds2) u s'.
  Definition LinvT (m : mdd) : Prop :=
    Cinv (m_curr_depth m) m /\ rd <= m_curr_depth m /\ m_curr_depth m <= N /\
    length (m_layers m) = m_curr_depth m - rd /\ TinvT m /\ UTinvT m /\ SrcLay m /\
    N < length (m_dom m) /\ store_all Pst (m_dom m).
  Definition UPostT (ml : mdd) : Prop :=
    forall i c sc vc ds2 sN w,
      In c (nth i (m_layers ml) []) -> Src ml c ->
      cov (n_state (gn ml c)) sc -> (vc <= n_vtop (gn ml c))%Z -> Start i sc vc ->
      promCT i sc vc ds2 sN w -> enabled ml ->
      Einv ml /\ Xinv inp ml /\ length (m_layers ml) = N - rd /\ n_depth (gn ml c) = rd + i /\
      exists u s', In u (m_next ml) /\ m_layer_end ml <= u < length (m_nodes ml) /\ dpath ml i c sc ds2 u s'.
  Definition PostT (ml : mdd) : Prop :=
    (forall u, In u (m_next ml) -> n_depth (gn ml u) = N) /\
    (forall ds sN w, promT ds sN w -> enabled ml ->
      Einv ml /\ length (m_layers ml) = N - rd /\
      exists u s', In u (m_next ml) /\ m_layer_end ml <= u < length (m_nodes ml) /\ dpath ml 0 0 rs ds u s') /\
    UPostT ml /\ SrcLay ml /\ (m_next ml <> [] -> Xinv inp ml).

  Lemma prom_prefixT ds sN w j : promT ds sN w -> j < length ds ->
    exists s1 v1 dj rest h, frn rd rs rv (firstn j ds) = Some (s1, v1) /\ skipn j ds = dj :: rest /\
      var_ok pb (rd + j) dj = true /\ In (d_val dj) (domain pb (d_var dj) s1) /\
      H pb (rd + j) s1 = Some h /\ (Z.max lb tau < v1 + h)%Z.
  Proof. exact (ltac:(instT (@MddSim.prom_prefix St)) ds sN w j). Qed.

  Lemma run_prefixT k0 s0 v0 ds sN w jj :
    frn k0 s0 v0 ds = Some (sN, w) -> k0 + length ds = N -> (Z.max lb tau < w)%Z -> jj < length ds ->
    exists s1 v1 dj rest h, frn k0 s0 v0 (firstn jj ds) = Some (s1, v1) /\ skipn jj ds = dj :: rest /\
      var_ok pb (k0 + jj) dj = true /\ In (d_val dj) (domain pb (d_var dj) s1) /\
      H pb (k0 + jj) s1 = Some h /\ (Z.max lb tau < v1 + h)%Z.
  Proof. exact (ltac:(instT (@MddSim.run_prefix St)) k0 s0 v0 ds sN w jj). Qed.

  Lemma layer_loop_simT : forall fuel (m m' : mdd),
    LinvT m -> layer_loop st_eqb inp fuel m = (m', LoopDone) ->
    PostT m' /\ N < length (m_dom m') /\ store_all Pst (m_dom m').
  Proof.
    induction fuel as [|fuel IH]; intros m m' HL Hloop; [simpl in Hloop; inversion Hloop|].
    destruct HL as (HC & Hd1 & Hd2 & Hlen & HT & HU & HSL & Hdl & Hst).
    set (d := m_curr_depth m) in *.
    cbn [layer_loop] in Hloop. cbv zeta in Hloop.
    set (states := map (fun id => n_state (gn m id)) (m_next m)) in *.
    destruct (next_variable pb (m_curr_depth m) states) as [var|] eqn:Eov.
    2:{ (* the variables are exhausted *)
      inversion Hloop; subst m'. clear Hloop.
      split; [|split; [exact Hdl|exact Hst]].
      assert (HdN : d = N).
      { destruct (Nat.lt_ge_cases d N) as [Hlt|Hge]; [|lia].
        destruct (nv_some d states Hlt) as [x Hx]. unfold d in Hx. rewrite Hx in Eov. discriminate. }
      destruct HC as (HD & HX & Hnd & HE).
      split; [|split; [|split; [|split]]].
      - intros u Hu. change (n_depth (gn m u) = N). rewrite <- HdN. apply Hnd. exact Hu.
      - intros ds sN w Hp Hen.
        split; [eapply Einv_frame; [| | | |exact HE]; try reflexivity; apply (E_le _ HE)|].
        split; [msimpl; rewrite Hlen; lia|].
        destruct (HT ds sN w Hp Hen) as (u & s' & Hu & Hpth).
        exists u, s'. split; [exact Hu|]. split; [apply (D_next _ _ _ HD u Hu)|].
        destruct Hp as (_ & Hl & _).
        rewrite firstn_all2 in Hpth by (fold d; lia).
        eapply dpath_frame; [| | |exact Hpth]; reflexivity.
      - intros i c sc vc ds2 sN w Hc HSrc Hcov Hvc HSt Hpc Hen.
        assert (Hi : i < d - rd).
        { destruct (Nat.lt_ge_cases i (length (m_layers m))) as [Hlt|Hge]; [lia|].
          msimpl_in Hc. rewrite nth_overflow in Hc by exact Hge. destruct Hc. }
        destruct (HU i c sc vc ds2 sN w Hi Hc HSrc Hcov Hvc HSt Hpc Hen) as (Hdep & u & s' & Hu & Hpth).
        split; [eapply Einv_frame; [| | | |exact HE]; try reflexivity; apply (E_le _ HE)|].
        split; [eapply Xinv_ceq; [apply ceq_add_log|exact HX]|].
        split; [msimpl; rewrite Hlen; lia|]. split; [exact Hdep|].
        exists u, s'. split; [exact Hu|]. split; [apply (D_next _ _ _ HD u Hu)|].
        destruct Hpc as (_ & Hl & _). fold d in Hpth.
        rewrite firstn_all2 in Hpth by lia.
        eapply dpath_frame; [| | |exact Hpth]; reflexivity.
      - exact HSL.
      - intros _. eapply Xinv_ceq; [apply ceq_add_log|exact HX]. }
    set (m1 := add_log m (EvNextVar (m_curr_depth m) states (Some var))) in *.
    set (m2 := with_polls m1 (S (m_polls m1))) in *.
    rewrite Hnocut in Hloop. cbn [Nat.ltb Nat.leb andb] in Hloop.
    rewrite (not_pooled inp Hclean) in Hloop.
    assert (HdN : d < N).
    { destruct (Nat.lt_ge_cases d N) as [Hlt|Hge]; [exact Hlt|].
      pose proof (nv_none d states Hge) as Hn. unfold d in Hn. rewrite Hn in Eov. discriminate. }
    assert (Hc2 : ceq inp m m2) by (eapply ceq_trans; [apply ceq_add_log|apply ceq_with_polls]).
    assert (HC2 : Cinv d m2).
    { destruct HC as (HD & HX & Hnd & HE).
      split; [eapply (Dg_ceq inp Hclean); eauto|]. split; [eapply Xinv_ceq; eauto|]. split; [exact Hnd|].
      eapply Einv_ceq; eauto. }
    destruct (m_next m) as [|c0 cs] eqn:En.
    - (* the next layer is empty: the loop stops *)
      rewrite move_clean_unfold in Hloop. change (m_next m2) with (m_next m) in Hloop. rewrite En in Hloop.
      inversion Hloop; subst m'. clear Hloop.
      split; [|split; [exact Hdl|exact Hst]].
      split; [intros u []|]. split; [|split; [|split]].
      + intros ds sN w Hp Hen. exfalso.
        destruct (HT ds sN w Hp) as (u & s' & Hu & _); [exact Hen|]. rewrite En in Hu. destruct Hu.
      + intros i c sc vc ds2 sN w Hc HSrc Hcov Hvc HSt Hpc Hen. exfalso.
        msimpl_in Hc.
        assert (Hi : i < d - rd).
        { destruct (Nat.lt_ge_cases i (length (m_layers m))) as [Hlt|Hge]; [lia|].
          rewrite app_nth2 in Hc by exact Hge.
          destruct (i - length (m_layers m2)) as [|k]; [simpl in Hc; destruct Hc|destruct k; simpl in Hc; destruct Hc]. }
        change (m_layers m2) with (m_layers m) in Hc. rewrite app_nth1 in Hc by lia.
        destruct (HU i c sc vc ds2 sN w Hi Hc HSrc Hcov Hvc HSt Hpc Hen) as (_ & u & s' & Hu & _).
        rewrite En in Hu. destruct Hu.
      + intros c Hc. destruct (HSL c Hc) as (i & Hi & Hdp). exists i. split; [msimpl; apply nth_layers_app; exact Hi|exact Hdp].
      + intros Hne. exfalso. apply Hne. reflexivity.
    - assert (Hne : m_next m2 <> []) by (change (m_next m2) with (m_next m); rewrite En; discriminate).
      destruct (move_simD m2 d HC2 Hne ltac:(lia) Hdl Hst) as (m3 & l & ids & Emv & C3 & N3 & L3 & D3 & Ly3 & Lids & En3 & T3 & Sr3 & Cl3 & Ns3 & Ge3 & Le3 & Dl3 & St3).
      rewrite Emv in Hloop.
      destruct (expand_layer_Cinv var l d m3 C3 L3) as (C4 & S4 & G4).
      { exists states. exact Eov. }
      set (m4 := fold_left (expand_node st_eqb inp var) l m3) in *.
      set (m5 := with_depth m4 (S (m_curr_depth m4))) in *.
      assert (Hcd4 : m_curr_depth m4 = d).
      { destruct S4 as (_ & _ & _ & _ & s5). rewrite s5, D3. reflexivity. }
      apply (IH m5 m'); [|exact Hloop].
      assert (Hp5 : peq inp m4 m5) by (apply peq_same_nodes; reflexivity).
      assert (Hly4 : m_layers m4 = m_layers m ++ [ids]) by (rewrite (gr_layers _ _ G4); exact Ly3).
      assert (Hen35 : enabled m5 -> enabled m3).
      { intros Hen5 Ht. specialize (Hen5 Ht). change (m_lel m5) with (m_lel m4) in Hen5.
        unfold m4 in Hen5. rewrite expand_layer_lel in Hen5. exact Hen5. }
      assert (Hdj_of : forall dj k, var_ok pb (rd + k) dj = true -> rd + k = d -> var = d_var dj).
      { intros dj k P3 Hk. apply (var_ok_spec pb nv_static (rd + k) dj states) in P3.
        rewrite Hk in P3. unfold d in P3. rewrite P3 in Eov. inversion Eov; reflexivity. }
      assert (Hdom5 : m_dom m5 = m_dom m3) by (unfold m5, m4; apply dom_expand_layer).
      split; [|split; [|split; [|split; [|split; [|split; [|split; [|split]]]]]]].
      9:{ rewrite Hdom5. exact St3. }
      8:{ rewrite Hdom5, Dl3. exact Hdl. }
      + change (m_curr_depth m5) with (S (m_curr_depth m4)). rewrite Hcd4.
        destruct C4 as (D4 & X4 & Nd4 & E4).
        split; [|split; [|split]].
        * eapply (Dg_peq inp Hclean); [exact Hp5|exact D4|apply Nat.le_refl|apply (D_le _ _ _ D4)|apply (D_next _ _ _ D4)].
        * eapply Xg_peq; [exact Hp5|reflexivity|reflexivity|reflexivity|exact X4].
        * exact Nd4.
        * eapply Einv_frame; [| | | |exact E4]; try reflexivity. apply (E_le _ E4).
      + change (m_curr_depth m5) with (S (m_curr_depth m4)). lia.
      + change (m_curr_depth m5) with (S (m_curr_depth m4)). lia.
      + change (m_curr_depth m5) with (S (m_curr_depth m4)). change (m_layers m5) with (m_layers m4).
        rewrite Hly4, app_length, Hlen, Hcd4. cbn [length]. lia.
      + (* tracking *)
        intros ds sN w Hp Hen5.
        change (m_curr_depth m5) with (S (m_curr_depth m4)). rewrite Hcd4.
        assert (Hen3 : enabled m3).
        { intros Ht. specialize (Hen5 Ht). change (m_lel m5) with (m_lel m4) in Hen5.
          unfold m4 in Hen5. rewrite expand_layer_lel in Hen5. exact Hen5. }
        assert (Hen : enabled m).
        { intros Ht. specialize (En3 Hen3 Ht). exact En3. }
        destruct (HT ds sN w Hp Hen) as (u & s' & Hu & Hpth). fold d in Hpth.
        set (j := d - rd) in *.
        pose proof Hp as (_ & Hdsl & _).
        assert (Hj : j < length ds) by (unfold j; lia).
        destruct (prom_prefixT ds sN w j Hp Hj) as (s1 & v1 & dj & rest & h & P1 & P2 & P3 & P4 & P5 & P6T).
        assert (P6 : (lb < v1 + h)%Z) by lia.
        assert (Hfl : length (firstn j ds) = j) by (rewrite firstn_length; lia).
        assert (Hs1 : s1 = s').
        { rewrite (frun_state pb _ _ _ _ _ _ P1). symmetry. apply (dpath_state _ _ _ _ _ _ _ Hpth). }
        subst s1.
        destruct (T3 0 0 rs u (firstn j ds) s') as (u' & Hu' & Hp3).
        * change (m_next m2) with (m_next m). exact Hu.
        * pose proof HC as (HD0 & HX0 & Hnd0 & HE0).
          apply (tracked_not_droppable m2 d u s' h v1 HC2 ltac:(lia)).
          -- change (m_next m2) with (m_next m). exact Hu.
          -- change (gn m2 u) with (gn m u). eapply dpath_cov; exact Hpth.
          -- replace d with (rd + j) by (unfold j; lia). exact P5.
          -- change (gn m2 u) with (gn m u).
             apply (dpath_vtop m (firstn j ds) u s' HE0 Hpth (root_vtop m HD0) _ _ P1).
          -- lia.
        * intros H1. change (m_layers m2) with (m_layers m) in H1. rewrite Hlen in H1. fold j in H1.
          intros E. rewrite E in Hfl. simpl in Hfl. lia.
        * exact Hen3.
        * eapply dpath_ceq; [exact Hc2|exact Hpth].
        * assert (Hdj : var = d_var dj).
          { apply (var_ok_spec pb nv_static (rd + j) dj states) in P3.
            replace (rd + j) with d in P3 by (unfold j; lia). unfold d in P3. rewrite P3 in Eov.
            inversion Eov; reflexivity. }
          pose proof (expand_layer_track var l d m3 0 0 rs rv u' (firstn j ds) s' v1 (d_val dj) h) as X.
          cbv zeta in X. rewrite !Nat.add_0_r in X.
          destruct X as (t' & Ht' & Hpt'); auto.
          -- exists states. exact Eov.
          -- destruct (L3 u' Hu'). lia.
          -- apply root_vtop. apply C3.
          -- simpl. rewrite Hfl, Ly3. change (m_layers m2) with (m_layers m). rewrite app_nth2 by lia.
             rewrite Hlen. fold j. rewrite Nat.sub_diag. simpl. apply Lids. exact Hu'.
          -- rewrite Hdj. exact P4.
          -- rewrite Hfl. exact P5.
          -- apply (prefix_isize (firstn j ds) s' v1 h P1); [rewrite Hfl; unfold j; lia|rewrite Hfl; exact P5].
          -- fold m4 in Ht', Hpt'. exists t', (transition pb s' {| d_var := var; d_val := d_val dj |}).
             split; [exact Ht'|].
             replace (S d - rd) with (S j) by (unfold j; lia).
             rewrite (firstn_S_skipn j ds dj rest P2).
             assert (Edj : dj = {| d_var := var; d_val := d_val dj |}) by (rewrite Hdj; destruct dj; reflexivity).
             match goal with |- context [?ll ++ [dj]] =>
               replace (ll ++ [dj]) with (ll ++ [{| d_var := var; d_val := d_val dj |}]) by (rewrite <- Edj; reflexivity) end.
             eapply dpath_frame; [| | |exact Hpt']; reflexivity.
      + (* tracking from every expanded node *)
        intros i c sc vc ds2 sN w Hi Hc HSrc Hcov Hvc HSt Hpc Hen5.
        change (m_curr_depth m5) with (S (m_curr_depth m4)) in Hi |- *. rewrite Hcd4 in Hi |- *.
        change (m_layers m5) with (m_layers m4) in Hc. rewrite Hly4 in Hc.
        change (gn m5 c) with (gn m4 c) in Hcov, Hvc |- *.
        pose proof (Hen35 Hen5) as Hen3.
        assert (Hen : enabled m) by (intros Ht; exact (En3 Hen3 Ht)).
        set (j := d - rd) in *.
        pose proof Hpc as (Hrun & Hdsl & HlbwT).
        assert (Hlbw : (lb < w)%Z) by lia.
        assert (HSrc4 : Src m4 c) by exact HSrc.
        destruct C3 as (D3' & X3' & Nd3' & E3').
        pose proof S4 as (s41 & s42 & s43 & s44 & s45).
        destruct (Nat.lt_ge_cases i j) as [Hij|Hij].
        * (* a start of an earlier layer *)
          rewrite app_nth1 in Hc by lia.
          assert (Hclt : c < m_layer_end m).
          { destruct HC as (_ & HX & _). apply (X_layers _ _ _ HX (nth i (m_layers m) []) c); [apply nth_In; lia|exact Hc]. }
          assert (Hcore : core_eq (gn m c) (gn m4 c)).
          { eapply (core_eq_trans inp Hclean); [apply (Cl3 c Hclt)|]. apply s43.
            change (m_layer_end m2) with (m_layer_end m) in Le3. lia. }
          destruct Hcore as (k1 & k2 & _ & _ & _ & _ & k7).
          assert (HSrcm : Src m c).
          { destruct (Src_expand_layer var l m3 c HSrc4) as [H3|H3].
            - apply Sr3 in H3. exact H3.
            - exfalso. apply Lids in H3. apply Ge3 in H3. change (m_layer_end m2) with (m_layer_end m) in H3. lia. }
          assert (Hcov' : cov (n_state (gn m c)) sc) by (rewrite k1; exact Hcov).
          assert (Hvc' : (vc <= n_vtop (gn m c))%Z) by (rewrite k2; exact Hvc).
          destruct (HU i c sc vc ds2 sN w Hij Hc HSrcm Hcov' Hvc' HSt Hpc Hen) as (Hdep & u & s' & Hu & Hpth).
          fold d in Hpth. fold j in Hpth.
          assert (Hjj : j - i < length ds2) by (unfold j; lia).
          destruct (run_prefixT (rd + i) sc vc ds2 sN w (j - i) Hrun Hdsl HlbwT Hjj)
            as (s1 & v1 & dj & rest & h & P1 & P2 & P3 & P4 & P5 & P6T).
          assert (P6 : (lb < v1 + h)%Z) by lia.
          assert (Hfl : length (firstn (j - i) ds2) = j - i) by (rewrite firstn_length; lia).
          assert (Hs1 : s1 = s').
          { rewrite (frun_state pb _ _ _ _ _ _ P1). symmetry. apply (dpath_state _ _ _ _ _ _ _ Hpth). }
          subst s1.
          destruct (T3 i c sc u (firstn (j - i) ds2) s') as (u' & Hu' & Hp3).
          -- exact Hu.
          -- pose proof HC as (HD0 & HX0 & Hnd0 & HE0).
             apply (tracked_not_droppable m2 d u s' h v1 HC2 ltac:(lia)).
             ++ exact Hu.
             ++ change (gn m2 u) with (gn m u). eapply dpath_cov; exact Hpth.
             ++ replace d with (rd + i + (j - i)) by (unfold j; lia). exact P5.
             ++ change (gn m2 u) with (gn m u).
                refine (dpath_vtop_gen m i c sc (firstn (j - i) ds2) u s' (rd + i) vc HE0 Hpth Hvc' _ s' v1 P1).
                intros ds1 s1 w1 Hr1. eapply Start_isize; eauto.
             ++ lia.
          -- intros _ E. rewrite E in Hfl. simpl in Hfl. lia.
          -- exact Hen3.
          -- eapply dpath_ceq; [exact Hc2|exact Hpth].
          -- assert (Hdj : var = d_var dj) by (apply (Hdj_of dj (i + (j - i))); [rewrite Nat.add_assoc; exact P3|unfold j; lia]).
             destruct (expand_layer_track var l d m3 i c sc vc u' (firstn (j - i) ds2) s' v1 (d_val dj) h)
               as (t' & Ht' & Hpt').
             ++ split; [exact D3'|]. split; [exact X3'|]. split; [exact Nd3'|exact E3'].
             ++ exact L3.
             ++ exists states. exact Eov.
             ++ change (m_layer_end m2) with (m_layer_end m) in Le3. lia.
             ++ destruct (Cl3 c Hclt) as (_ & q2 & _). rewrite <- q2.
                change (gn m2 c) with (gn m c). rewrite k2. exact Hvc.
             ++ intros ds1 s1 w1 Hr1. eapply Start_isize; eauto.
             ++ exact Hu'.
             ++ rewrite Hfl, Ly3. change (m_layers m2) with (m_layers m).
                replace (i + (j - i)) with (length (m_layers m)) by (rewrite Hlen; fold j; lia).
                rewrite app_nth2 by lia. rewrite Nat.sub_diag. simpl. apply Lids. exact Hu'.
             ++ exact Hp3.
             ++ exact P1.
             ++ rewrite Hdj. exact P4.
             ++ rewrite Hfl. exact P5.
             ++ exact P6.
             ++ apply (Start_H_isize i sc vc (firstn (j - i) ds2) s' v1 h HSt P1).
                ** rewrite Hfl. unfold j. lia.
                ** rewrite Hfl. exact P5.
             ++ fold m4 in Ht', Hpt'. split; [rewrite <- k7; exact Hdep|].
                exists t', (transition pb s' {| d_var := var; d_val := d_val dj |}).
                split; [exact Ht'|].
                replace (S d - rd - i) with (S (j - i)) by (unfold j; lia).
                rewrite (firstn_S_skipn (j - i) ds2 dj rest P2).
                assert (Edj : dj = {| d_var := var; d_val := d_val dj |}) by (rewrite Hdj; destruct dj; reflexivity).
                match goal with |- context [?ll ++ [dj]] =>
               replace (ll ++ [dj]) with (ll ++ [{| d_var := var; d_val := d_val dj |}]) by (rewrite <- Edj; reflexivity) end.
                eapply dpath_frame; [| | |exact Hpt']; reflexivity.
        * (* a start of the layer just expanded *)
          assert (i = j) by (unfold j in *; lia). subst i.
          rewrite app_nth2 in Hc by lia. rewrite Hlen in Hc. fold j in Hc. rewrite Nat.sub_diag in Hc. simpl in Hc.
          assert (Hcl : In c l).
          { destruct (Src_expand_layer var l m3 c HSrc4) as [H3|H3]; [|exact H3].
            exfalso. apply (Ns3 c H3). exact Hc. }
          destruct (L3 c Hcl) as [Hclt Hcdep].
          assert (Hclen : c < length (m_nodes m3)) by (pose proof (D_le _ _ _ D3'); lia).
          destruct (s43 c Hclt) as (k1 & k2 & _ & _ & _ & _ & k7).
          assert (Hjj : 0 < length ds2) by (unfold j in *; lia).
          destruct (run_prefixT (rd + j) sc vc ds2 sN w 0 Hrun Hdsl HlbwT Hjj)
            as (s1 & v1 & dj & rest & h & P1 & P2 & P3 & P4 & P5 & P6T).
          assert (P6 : (lb < v1 + h)%Z) by lia.
          simpl in P1. inversion P1; subst s1 v1. clear P1.
          assert (Hdj : var = d_var dj) by (apply (Hdj_of dj (j + 0)); [rewrite Nat.add_assoc; exact P3|unfold j; lia]).
          destruct (expand_layer_track var l d m3 j c sc vc c [] sc vc (d_val dj) h) as (t' & Ht' & Hpt').
          -- split; [exact D3'|]. split; [exact X3'|]. split; [exact Nd3'|exact E3'].
          -- exact L3.
          -- exists states. exact Eov.
          -- exact Hclt.
          -- rewrite k2. exact Hvc.
          -- intros ds1 s1 w1 Hr1. eapply Start_isize; eauto.
          -- exact Hcl.
          -- simpl. rewrite Nat.add_0_r, Ly3. change (m_layers m2) with (m_layers m).
             rewrite app_nth2 by lia. rewrite Hlen. fold j. rewrite Nat.sub_diag. simpl. exact Hc.
          -- apply dp_nil; [exact Hclen|]. rewrite k1. exact Hcov.
          -- reflexivity.
          -- rewrite Hdj. exact P4.
          -- simpl. exact P5.
          -- exact P6.
          -- apply (Start_H_isize j sc vc [] sc vc h HSt eq_refl); [simpl; unfold j; lia|simpl; exact P5].
          -- fold m4 in Ht', Hpt'. split; [rewrite <- k7, Hcdep; unfold j; lia|].
             exists t', (transition pb sc {| d_var := var; d_val := d_val dj |}).
             split; [exact Ht'|].
             replace (S d - rd - j) with 1 by (unfold j; lia).
             rewrite (firstn_S_skipn 0 ds2 dj rest P2). simpl firstn.
             assert (Edj : dj = {| d_var := var; d_val := d_val dj |}) by (rewrite Hdj; destruct dj; reflexivity).
             match goal with |- context [?ll ++ [dj]] =>
               replace (ll ++ [dj]) with (ll ++ [{| d_var := var; d_val := d_val dj |}]) by (rewrite <- Edj; reflexivity) end.
             eapply dpath_frame; [| | |exact Hpt']; reflexivity.
      + (* sources lie in layers *)
        intros c HSrc. change (m_layers m5) with (m_layers m4). rewrite Hly4.
        change (gn m5 c) with (gn m4 c).
        pose proof S4 as (s41 & s42 & s43 & s44 & s45).
        destruct (Src_expand_layer var l m3 c HSrc) as [H3|H3].
        * apply Sr3 in H3. destruct (HSL c H3) as (i & Hi & Hdp). exists i. split; [apply nth_layers_app; exact Hi|].
          assert (Hclt : c < m_layer_end m).
          { destruct HC as (_ & HX & _).
            destruct (Nat.lt_ge_cases i (length (m_layers m))) as [Hlt|Hge].
            - apply (X_layers _ _ _ HX (nth i (m_layers m) []) c); [apply nth_In; exact Hlt|exact Hi].
            - rewrite nth_overflow in Hi by exact Hge. destruct Hi. }
          assert (Hcore : core_eq (gn m c) (gn m4 c)).
          { eapply (core_eq_trans inp Hclean); [apply (Cl3 c Hclt)|]. apply s43.
            change (m_layer_end m2) with (m_layer_end m) in Le3. lia. }
          destruct Hcore as (_ & _ & _ & _ & _ & _ & k7). rewrite <- k7. exact Hdp.
        * exists (length (m_layers m)). split.
          -- rewrite app_nth2 by lia. rewrite Nat.sub_diag. simpl. apply Lids. exact H3.
          -- destruct (L3 c H3) as [Hclt Hcdep]. destruct (s43 c Hclt) as (_ & _ & _ & _ & _ & _ & k7).
             rewrite <- k7, Hcdep, Hlen. fold d. lia.
  Qed.

  Lemma LinvT_initialize c ds polls : N < length ds -> store_all Pst ds -> LinvT (initialize inp c ds polls).
  Proof.
    intros Hdsl Hdst.
    destruct (MddExact.initialize_inv inp c ds polls) as (I1 & I2 & I3).
    split; [|split; [|split; [|split; [|split; [|split; [|split; [|split]]]]]]].
    9:{ exact Hdst. }
    8:{ exact Hdsl. }
    - split; [exact I1|]. split; [exact I2|]. split; [exact I3|].
      split.
      + simpl. lia.
      + intros eid He. simpl in He. lia.
      + intros id eid Hid Hin. simpl in Hid. assert (id = 0) by lia. subst id. destruct Hin.
    - simpl. apply Nat.le_refl.
    - simpl. exact Hrd.
    - simpl. lia.
    - intros ds0 sN w Hp Hen. exists 0, rs. split; [left; reflexivity|].
      replace (m_curr_depth (initialize inp c ds polls) - rd) with 0 by (simpl; lia).
      simpl firstn. apply dp_nil; [simpl; lia|]. simpl. apply cov_refl.
    - intros i cc sc vc ds2 sN w Hi. exfalso. simpl in Hi. lia.
    - intros cc (eid & He & _). simpl in He. lia.
  Qed.


  Lemma dom_finalize tb tb2 (ml : mdd) : m_dom (finalize st_eqb inp tb tb2 ml) = m_dom ml.
  Proof.
    assert (Hins : insens (@m_dom St)) by (repeat split).
    unfold finalize.
    rewrite (ins_compute_thresholds st_eqb inp Hnocache _ Hins).
    rewrite (ins_compute_local_bounds inp _ Hins).
    rewrite (ins_finalize_cutset inp Hclean _ Hins) by reflexivity.
    unfold finalize_exact, find_best_node, finalize_layers. cbv zeta. msimpl.
    rewrite (not_pooled inp Hclean). destruct (m_next ml); reflexivity.
  Qed.



  Lemma compile_postT tb tb2 c ds polls m :
    N < length ds -> store_all Pst ds ->
    compile st_eqb inp tb tb2 c ds polls = (m, Compiled) ->
    exists ml, m = finalize st_eqb inp tb tb2 ml /\ Sinv inp ml /\ Xs inp ml /\ PostT ml /\ Ninv ml /\
               store_all Pst (m_dom m) /\ N < length (m_dom m).
  Proof.
    unfold compile. cbv zeta. intros Hdsl Hdst H.
    pose proof (layer_loop_Sinv st_eqb st_eqb_spec inp Hclean (S (S (nb_vars (ci_problem inp)))) c ds polls) as [HS HX].
    pose proof (layer_loop_NinvD (S (S (nb_vars (ci_problem inp)))) (initialize inp c ds polls) (Ninv_initialize c ds polls)) as HN.
    destruct (layer_loop st_eqb inp (S (S (nb_vars (ci_problem inp)))) (initialize inp c ds polls)) as [ml e] eqn:El.
    cbn [fst] in HS, HX, HN. destruct e; inversion H. exists ml.
    destruct (layer_loop_simT _ _ _ (LinvT_initialize c ds polls Hdsl Hdst) El) as (HP & Hln & Hst).
    split; [reflexivity|]. split; [exact HS|]. split; [exact HX|]. split; [exact HP|]. split; [exact HN|].
    rewrite dom_finalize. split; [exact Hst|exact Hln].
  Qed.


  Lemma vstar_promT o : vstar = Some o -> (Z.max lb tau < o)%Z -> exists ds sN, promT ds sN o.
  Proof.
    unfold vstar. intros Hv Hlb. destruct (H pb rd rs) as [h|] eqn:Eh; [|discriminate].
    simpl in Hv. inversion Hv; subst o.
    destruct (H_attained pb nv_static nv_some nv_none (N - rd) rd rs rv h eq_refl Hrd Eh) as (ds & sN & Hr & Hl).
    exists ds, sN. split; [exact Hr|]. split; [exact Hl|exact Hlb].
  Qed.

  Lemma track_terminalT (ml : mdd) o :
    Sinv inp ml -> PostT ml -> enabled ml -> vstar = Some o -> (Z.max lb tau < o)%Z ->
    exists ds sN u s', promT ds sN o /\ Einv ml /\ length (m_layers ml) = N - rd /\ In u (m_next ml) /\
      m_layer_end ml <= u < length (m_nodes ml) /\
      dpath ml 0 0 rs ds u s' /\ (o <= n_vtop (gn ml u))%Z.
  Proof.
    intros HS (_ & HP & _) Hen Hv Hlb.
    destruct (vstar_promT o Hv Hlb) as (ds & sN & Hp).
    destruct (HP ds sN o Hp Hen) as (HE & Hlen & u & s' & Hu & Hr & Hpth).
    pose proof Hp as (Hrun & _ & _).
    exists ds, sN, u, s'.
    split; [exact Hp|]. split; [exact HE|]. split; [exact Hlen|]. split; [exact Hu|]. split; [exact Hr|].
    split; [exact Hpth|].
    apply (dpath_vtop ml ds u s' HE Hpth (Sinv_root_vtop ml HS) _ _ Hrun).
  Qed.

  (* S1 (C06, bound) *)
  Theorem S1T tb tb2 c ds polls m o :
    N < length ds -> store_all Pst ds ->
    compile st_eqb inp tb tb2 c ds polls = (m, Compiled) ->
    ci_type inp = Relaxed \/ ci_type inp = Exact ->
    vstar = Some o -> (o > lb)%Z -> (o > tau)%Z ->
    exists b, dd_best_value inp m = Some b /\ (o <= b)%Z.
  Proof.
    intros Hdsl Hdst Hc Ht Hv Hlb Htau. destruct (compile_postT _ _ _ _ _ _ Hdsl Hdst Hc) as (ml & -> & HS & HX & HP & _).
    assert (Hen : enabled ml) by (intros E; destruct Ht as [E'|E']; rewrite E' in E; discriminate).
    destruct (track_terminalT ml o HS HP Hen Hv) as (ds0 & sN & u & s' & _ & _ & _ & Hu & _ & _ & Hvt); [lia|].
    destruct (best_ge tb tb2 ml u HS HX Hu) as (b & Hb & _ & Hge).
    unfold dd_best_value. rewrite Hb. simpl. eexists; split; [reflexivity|lia].
  Qed.

  (* S2 (K2; C06 (b); C07) *)
  Theorem S2T tb tb2 c ds polls m o :
    N < length ds -> store_all Pst ds ->
    compile st_eqb inp tb tb2 c ds polls = (m, Compiled) ->
    dd_is_exact m = true -> vstar = Some o -> (o > lb)%Z -> (o > tau)%Z ->
    dd_best_exact_value inp m = Some o.
  Proof.
    intros Hdsl Hdst Hc Hex Hv Hlb Htau. destruct (compile_postT _ _ _ _ _ _ Hdsl Hdst Hc) as (ml & -> & HS & HX & HP & _).
    destruct (finalize_spec st_eqb inp Hclean tb tb2 ml HS HX) as (F1 & F2 & F3 & F4 & F5 & F6 & F7).
    destruct (finalize_hdr tb tb2 ml) as (H1 & H2 & H3 & H4). cbv zeta in H1, H2, H3, H4.
    set (m := finalize st_eqb inp tb tb2 ml) in *.
    unfold dd_is_exact in Hex.
    assert (Hen : enabled ml).
    { intros Et. destruct (m_has_ebp m) eqn:Eb.
      - rewrite (H2 eq_refl) in Et. discriminate.
      - rewrite orb_false_r in Hex. rewrite Hex in H1. destruct (m_lel ml); [discriminate|reflexivity]. }
    destruct (track_terminalT ml o HS HP Hen Hv) as (ds0 & sN & u & s' & _ & _ & _ & Hu & Hur & _ & Hvt); [lia|].
    assert (Hbest : exists b, m_best_exact m = Some b /\ In b (m_next ml) /\ (o <= n_vtop (gn m b))%Z).
    { destruct (m_has_ebp m) eqn:Eb.
      - destruct (best_ge tb tb2 ml u HS HX Hu) as (b & Hb & Hin & Hge). fold m in Hb, Hge.
        exists b. split; [rewrite H4; exact Hb|]. split; [exact Hin|lia].
      - rewrite orb_false_r in Hex. rewrite Hex in H1.
        assert (Hlel : m_lel ml = None) by (destruct (m_lel ml); [discriminate|reflexivity]).
        assert (Hux : is_ex ml u = true) by (apply (X_lel_none _ _ _ HX Hlel); lia).
        destruct (best_exact_ge tb tb2 ml u HS HX Hu Hux Eb) as (b & Hb & Hin & Hge). fold m in Hb, Hge.
        exists b. split; [exact Hb|]. split; [exact Hin|lia]. }
    destruct Hbest as (b & Hb & Hin & Hge).
    destruct (F5 b Hb) as [Hblt Hcc].
    assert (Hdep : n_depth (gn m b) = N).
    { destruct (finalize_core tb tb2 ml b HS HX) as (_ & _ & _ & _ & _ & _ & c7). fold m in c7.
      rewrite <- c7. apply (proj1 HP). exact Hin. }
    pose proof (exact_terminal_le m b o F3 Hcc Hblt Hdep Hv) as Hle.
    unfold dd_best_exact_value. rewrite Hb. simpl. f_equal. lia.
  Qed.


  (* ---------------------------------------------------------------- S4 core: the cut-set node of an optimal path *)
  Lemma S4_coreT tb tb2 (ml : mdd) o :
    ci_type inp = Relaxed -> Sinv inp ml -> Xs inp ml -> Ninv ml -> PostT ml ->
    vstar = Some o -> (Z.max lb tau < o)%Z ->
    let m := finalize st_eqb inp tb tb2 ml in
    dd_is_exact m = false -> (forall e, dd_best_exact_value inp m = Some e -> (e < o)%Z) ->
    exists c, In c (m_cutset m) /\ f_marked (n_flags (gn m c)) = true /\
      oadd (n_vtop (gn m c)) (H pb (n_depth (gn m c)) (n_state (gn m c))) = Some o /\
      (o <= sat_add (n_vtop (gn m c)) (n_vbot (gn m c)))%Z /\
      (o <= sat_add (n_vtop (gn m c)) (n_rub (gn m c)))%Z.
  Proof.
    intros Ht HS HX HN HP Hv Hlb m Hnex Hbe.
    assert (Hen : enabled ml) by (intros E; rewrite Ht in E; discriminate).
    destruct (track_terminalT ml o HS HP Hen Hv Hlb) as (ds & sN & u & s' & Hprom & HE & Hlen & Hu & Hur & Hp & Hvt).
    destruct (finalize_hdr tb tb2 ml) as (H1 & H2 & H3 & H4). cbv zeta in H1, H2, H3, H4. fold m in H1, H2, H3, H4.
    unfold dd_is_exact in Hnex. apply orb_false_iff in Hnex. destruct Hnex as [Hnx Hebp].
    rewrite Hnx in H1. destruct (m_lel ml) as [k|] eqn:Hlel; [|discriminate].
    pose proof Hprom as (Hrun & Hdsl & _).
    (* the terminal node of the path is not exact *)
    assert (Hxu : is_ex ml u = false).
    { destruct (is_ex ml u) eqn:Ex; [|reflexivity]. exfalso.
      destruct (best_exact_ge tb tb2 ml u HS HX Hu Ex Hebp) as (b & Hb & _ & Hge). fold m in Hb, Hge.
      specialize (Hbe (n_vtop (gn m b))). unfold dd_best_exact_value in Hbe. rewrite Hb in Hbe.
      specialize (Hbe eq_refl). lia. }
    destruct (cut_node tb tb2 ml k ds u s' Ht HS HX HN HE Hlel) as (ds1 & ds2 & c & sc & E & Hne & P1 & P2 & Xc & Hcut); auto.
    { lia. }
    cbv zeta in Hcut.
    destruct (pipe3 tb tb2 ml HS HX) as (G1 & G2 & G3 & G4 & G5 & S3 & X3 & Pl3). cbv zeta in G1, G2, G3, G4, G5, S3, X3, Pl3.
    set (m3 := finalize_exact inp (find_best_node inp tb tb2 (finalize_layers inp ml))) in *.
    set (m4 := finalize_cutset inp m3) in *.
    set (m5 := compute_local_bounds inp m4).
    assert (Em : m = compute_thresholds st_eqb inp m5) by reflexivity.
    (* semantic facts about c *)
    assert (Hrs : n_state (gn ml 0) = rs) by (destruct (S_root _ _ HS) as (_ & r2 & _); exact r2).
    assert (Hrdp : n_depth (gn ml 0) = rd) by (destruct (S_root _ _ HS) as (_ & _ & _ & r4 & _); exact r4).
    destruct (dpath_exact _ _ _ _ _ _ _ HE P1 Hrs Xc) as (Hsc & Hdc & _). rewrite Hrdp in Hdc.
    rewrite E, frun_app in Hrun.
    destruct (frn rd rs rv ds1) as [[sc' vc]|] eqn:Er1; [|discriminate].
    assert (sc' = sc).
    { rewrite (frun_state pb _ _ _ _ _ _ Er1). symmetry. apply (dpath_state _ _ _ _ _ _ _ P1). }
    subst sc'.
    assert (HsN : sN = s').
    { rewrite (frun_state pb _ _ _ _ _ _ Hrun). symmetry. apply (dpath_state _ _ _ _ _ _ _ P2). }
    subst sN.
    pose proof (dpath_vtop ml ds1 c sc HE P1 (Sinv_root_vtop ml HS) _ _ Er1) as Hvc.
    rewrite E, app_length in Hdsl.
    destruct (frun_le_H pb nv_static nv_none ds2 (rd + length ds1) sc vc s' o) as (h & Hh & Hle); [lia|exact Hrun|].
    assert (Hclen : c < length (m_nodes ml)) by (eapply dpath_range; eauto).
    assert (Hup : (n_vtop (gn ml c) + h <= o)%Z).
    { pose proof (Sinv_exact_flag_clean_chain inp ml HS c Hclen Xc) as Hcc.
      destruct (clean_chain_frun ml c HS Hcc Hclen) as (dsc & Hrc & Hdepc).
      assert (Hl : length dsc = length ds1) by lia.
      destruct (H_attained pb nv_static nv_some nv_none (N - (rd + length ds1)) (rd + length ds1) sc
                  (n_vtop (gn ml c)) h eq_refl ltac:(lia) Hh) as (dsx & sx & Hrx & Hlx).
      apply (vstar_upper o (dsc ++ dsx) sx _ Hv).
      - rewrite frun_app, Hrc, Hl, Hsc. exact Hrx.
      - rewrite app_length. lia. }
    assert (Hvceq : n_vtop (gn ml c) = vc) by lia.
    assert (Hoeq : (vc + h = o)%Z) by lia.
    destruct (Hguard _ _ _ Er1) as [Hg1 Hg2].
    assert (Hgo : (- B <= o <= B)%Z).
    { apply (Hguard (ds1 ++ ds2) s'). rewrite frun_app, Er1. exact Hrun. }
    assert (Hiso_o : in_isize o) by (unfold in_isize, IMIN, IMAX in *; lia).
    (* transfer to the finalized diagram *)
    destruct (finalize_cutset_spec inp Hclean m3 S3 X3) as [B34 _]. fold m4 in B34.
    destruct B34 as (P34 & _).
    assert (Pl4 : peq inp ml m4) by (eapply peq_trans; eauto).
    destruct (finalize_layers_fields ml) as (_ & _ & _ & _ & F5).
    assert (Hly4 : m_layers m4 = m_layers ml ++ [seq (m_layer_end ml) (length (m_nodes ml) - m_layer_end ml)]).
    { unfold m4. rewrite finalize_cutset_layers, G3, F5. destruct (m_next ml); [destruct Hu|reflexivity]. }
    assert (P2' : dpath m4 (length ds1) c sc ds2 u s').
    { eapply dpath_peq; [exact Pl4| |exact P2]. intros j x. rewrite Hly4. apply nth_layers_app. }
    assert (Hgo4 : lb_go m4 = true).
    { unfold MddSim.lb_go. rewrite Ht. unfold m4. rewrite (lel_finalize_cutset m3 k) by (rewrite G4; exact Hlel).
      fold m4. rewrite Hly4, app_length. cbn [opt_default length is_relaxed_ct].
      pose proof (X_lel_lt _ _ _ HX Ht k Hlel). rewrite andb_true_r. apply Nat.ltb_lt. lia. }
    destruct (local_bounds_path m4 (length ds1) c sc ds2 u s' (rd + length ds1) vc o Hgo4 P2' Hrun) as [M1 M2].
    { rewrite Hly4, app_length. simpl. lia. }
    { rewrite Hly4, last_last. apply in_seq. lia. }
    { intros da db s1 v1 Ed Hr1.
      destruct (Hguard (ds1 ++ da) s1 v1) as [Q1 Q2]; [rewrite frun_app, Er1; exact Hr1|].
      unfold in_isize, IMIN, IMAX in *. lia. }
    fold m5 in M1, M2.
    (* nodes of the final diagram *)
    destruct (finalize_core tb tb2 ml c HS HX) as (c1 & c2 & _ & _ & _ & _ & c7). fold m in c1, c2, c7.
    assert (Hmk : f_marked (n_flags (gn m c)) = true).
    { rewrite Em. rewrite (node_compute_thresholds _ (fun n => f_marked (n_flags n))) by reflexivity. exact M1. }
    assert (Hvb : n_vbot (gn m c) = n_vbot (gn m5 c)).
    { rewrite Em. apply (node_compute_thresholds _ (@n_vbot St)). reflexivity. }
    assert (Hrb : n_rub (gn m c) = n_rub (gn ml c)).
    { rewrite Em. rewrite (node_compute_thresholds _ (@n_rub St)) by reflexivity.
      unfold m5. rewrite (node_compute_local_bounds _ (@n_rub St)) by reflexivity.
      unfold m4. rewrite (node_finalize_cutset _ (@n_rub St)) by reflexivity.
      rewrite (gn_nodes_eq inp ml m3 c G1). reflexivity. }
    assert (Hcs : m_cutset m = m_cutset m4).
    { destruct (compute_local_bounds_keq inp Hclean m4) as (_ & _ & _ & _ & K5). fold m5 in K5.
      destruct (compute_thresholds_keq st_eqb inp m5) as (_ & _ & _ & _ & K6). rewrite Em. congruence. }
    exists c. split; [rewrite Hcs; exact Hcut|]. split; [exact Hmk|].
    rewrite <- c1, <- c2, <- c7, Hsc, Hdc, Hh, Hvceq. split; [simpl; f_equal; exact Hoeq|]. split.
    - rewrite Hvb. apply sat_add_ge; [exact Hiso_o|]. lia.
    - rewrite Hrb. apply sat_add_ge; [exact Hiso_o|].
      assert (Hhr : (h <= n_rub (gn ml c))%Z).
      { unfold Ninv in HN. rewrite Forall_forall in HN.
        destruct (HN (gn ml c)) as (_ & _ & [Q|Q]); [apply nth_In; exact Hclen| |].
        - rewrite Q. lia.
        - rewrite Q. apply (rub_adm (rd + length ds1) _ sc h); [rewrite Hsc; apply cov_refl|exact Hh]. }
      lia.
  Qed.

  Theorem S4T tb tb2 c ds polls m o :
    N < length ds -> store_all Pst ds ->
    compile st_eqb inp tb tb2 c ds polls = (m, Compiled) ->
    ci_type inp = Relaxed -> dd_is_exact m = false -> vstar = Some o -> (o > lb)%Z -> (o > tau)%Z ->
    (forall e, dd_best_exact_value inp m = Some e -> (e < o)%Z) ->
    exists sp, In sp (drain_cutset inp m) /\
      oadd (sp_value sp) (H pb (sp_depth sp) (sp_state sp)) = Some o /\ (o <= sp_ub sp)%Z.
  Proof.
    intros Hdsl Hdst Hc Ht Hnex Hv Hlb Htau Hbe.
    destruct (S1T _ _ _ _ _ _ _ Hdsl Hdst Hc (or_introl Ht) Hv Hlb Htau) as (bv & Hbv & Hbvo).
    destruct (compile_postT _ _ _ _ _ _ Hdsl Hdst Hc) as (ml & -> & HS & HX & HP & HN & _).
    destruct (S4_coreT tb tb2 ml o Ht HS HX HN HP Hv ltac:(lia) Hnex Hbe) as (cn & Hin & Hmk & Hbest & Hlocb & Hrub).
    set (m := finalize st_eqb inp tb tb2 ml) in *.
    set (n := gn m cn) in *.
    exists {| sp_state := n_state n; sp_value := n_vtop n; sp_path := best_path inp m cn;
              sp_ub := Z.min (Z.min (sat_add (n_vtop n) (n_rub n)) (sat_add (n_vtop n) (n_vbot n))) bv;
              sp_depth := n_depth n |}.
    split; [|split].
    - unfold drain_cutset. rewrite Hbv. apply in_flat_map. exists cn. split; [exact Hin|].
      cbv zeta. fold n. rewrite Hmk. left; reflexivity.
    - exact Hbest.
    - cbn [sp_ub]. lia.
  Qed.



  Theorem S3cT tb tb2 c ds polls m sp o :
    N < length ds -> store_all Pst ds ->
    compile st_eqb inp tb tb2 c ds polls = (m, Compiled) ->
    ci_type inp = Relaxed ->
    In sp (drain_cutset inp m) ->
    oadd (sp_value sp) (H pb (sp_depth sp) (sp_state sp)) = Some o -> (o > lb)%Z -> (o > tau)%Z ->
    exists id bv, In id (m_cutset m) /\ dd_best_value inp m = Some bv /\
      sp_ub sp = Z.min (Z.min (sat_add (n_vtop (gn m id)) (n_rub (gn m id)))
                              (sat_add (n_vtop (gn m id)) (n_vbot (gn m id)))) bv /\
      (o <= sat_add (n_vtop (gn m id)) (n_rub (gn m id)))%Z /\ (o <= bv)%Z /\
      f_marked (n_flags (gn m id)) = true /\ sp_state sp = n_state (gn m id) /\
      sp_value sp = n_vtop (gn m id) /\ sp_depth sp = n_depth (gn m id).
  Proof.
    intros Hdsl Hdst Hc Ht Hsp Ho Hlb Htau.
    destruct (compile_postT _ _ _ _ _ _ Hdsl Hdst Hc) as (ml & Em & HS & HX & HP & HN & _).
    destruct (finalize_spec st_eqb inp Hclean tb tb2 ml HS HX) as ((_ & _ & L & A4) & _ & HSm & _ & _ & F6 & _).
    rewrite <- Em in L, A4, HSm, F6.
    unfold drain_cutset in Hsp. destruct (dd_best_value inp m) as [bv|] eqn:Ebv; [|destruct Hsp].
    apply in_flat_map in Hsp. destruct Hsp as (id & Hid & Hsp). cbv zeta in Hsp.
    destruct (f_marked (n_flags (gn m id))) eqn:Emk; [|destruct Hsp].
    destruct Hsp as [<-|[]]. cbn [sp_ub sp_state sp_value sp_depth] in *.
    destruct (F6 id Hid) as [Hidlt Hex].
    pose proof (Sinv_exact_flag_clean_chain inp m HSm id Hidlt Hex) as Hcc.
    destruct (clean_chain_frun m id HSm Hcc Hidlt) as (dsc & Hrc & Hdepc).
    destruct (H pb (n_depth (gn m id)) (n_state (gn m id))) as [h|] eqn:Eh; [|discriminate].
    simpl in Ho. inversion Ho; subst o. clear Ho.
    assert (Hdle : rd + length dsc <= N).
    { destruct (Nat.le_gt_cases (rd + length dsc) N) as [Hl|Hg]; [exact Hl|]. exfalso.
      destruct (rev dsc) as [|dl r] eqn:Er.
      - assert (dsc = []) by (rewrite <- (rev_involutive dsc), Er; reflexivity). subst dsc. simpl in Hg. lia.
      - assert (Ed : dsc = rev r ++ [dl]) by (rewrite <- (rev_involutive dsc), Er; reflexivity).
        rewrite Ed in Hrc. rewrite frun_app in Hrc.
        destruct (frn rd rs rv (rev r)) as [[s1 v1]|]; [|discriminate].
        cbn [frun] in Hrc. rewrite Ed, app_length in Hg. simpl in Hg.
        assert (Hv0 : var_ok pb (rd + length (rev r)) dl = false).
        { unfold var_ok. rewrite nv_none by lia. reflexivity. }
        rewrite Hv0 in Hrc. discriminate. }
    rewrite Hdepc in Eh.
    pose proof (prefix_isize _ _ _ _ Hrc Hdle Eh) as Hiso.
    destruct (H_attained pb nv_static nv_some nv_none (N - (rd + length dsc)) (rd + length dsc) _
                (n_vtop (gn m id)) h eq_refl Hdle Eh) as (dsx & sx & Hrx & Hlx).
    assert (Hfull : frn rd rs rv (dsc ++ dsx) = Some (sx, (n_vtop (gn m id) + h)%Z)).
    { rewrite frun_app, Hrc. exact Hrx. }
    destruct (frun_le_H pb nv_static nv_none (dsc ++ dsx) rd rs rv sx _ ltac:(rewrite app_length; lia) Hfull)
      as (h0 & Hh0 & Hle0).
    assert (Hvs : vstar = Some (rv + h0)%Z) by (unfold vstar; rewrite Hh0; reflexivity).
    destruct (S1T _ _ _ _ _ _ _ Hdsl Hdst Hc (or_introl Ht) Hvs ltac:(lia) ltac:(lia)) as (bv' & Hbv' & Hbvo).
    rewrite Ebv in Hbv'. inversion Hbv'; subst bv'.
    exists id, bv. split; [exact Hid|]. split; [reflexivity|]. split; [reflexivity|].
    split; [|split; [lia|repeat split; auto]].
    apply sat_add_ge; [exact Hiso|].
    assert (Hr : (h <= n_rub (gn m id))%Z).
    { rewrite Em, finalize_rub. rewrite Em in Hidlt. rewrite <- Em in Hidlt. rewrite L in Hidlt.
      destruct (A4 id) as (a1 & _).
      unfold Ninv in HN. rewrite Forall_forall in HN.
      destruct (HN (gn ml id)) as (_ & _ & [Q|Q]); [apply nth_In; exact Hidlt| |].
      - rewrite Q. destruct (Hguard _ _ _ Hrc) as [Q1 Q2]. destruct (Hguard _ _ _ Hfull) as [Q3 Q4]. lia.
      - rewrite Q, a1. apply (rub_adm (rd + length dsc) _ (n_state (gn m id)) h); [apply cov_refl|exact Eh]. }
    lia.
  Qed.

  (* S3 (K3_ub, C08 iii) in full *)
  Theorem S3T tb tb2 c ds polls m sp o :
    N < length ds -> store_all Pst ds ->
    compile st_eqb inp tb tb2 c ds polls = (m, Compiled) ->
    ci_type inp = Relaxed -> dd_is_exact m = false ->
    In sp (drain_cutset inp m) ->
    oadd (sp_value sp) (H pb (sp_depth sp) (sp_state sp)) = Some o -> (o > lb)%Z -> (o > tau)%Z ->
    (o <= sp_ub sp)%Z.
  Proof.
    intros Hdsl Hdst Hc Ht Hnex Hsp Ho Hlb Htau.
    destruct (S3cT tb tb2 c ds polls m sp o Hdsl Hdst Hc Ht Hsp Ho Hlb Htau)
      as (id & bv & Hid & Hbv & Hub & Hrubp & Hbvp & Hmk & Est & Evl & Edp).
    rewrite Hub. rewrite Est, Evl, Edp in Ho.
    destruct (compile_postT _ _ _ _ _ _ Hdsl Hdst Hc) as (ml & Em & HS & HX & HP & HN & _).
    destruct HP as (HPa & HPb & HUP & HSL & HXn).
    destruct (finalize_spec st_eqb inp Hclean tb tb2 ml HS HX) as ((_ & _ & L & A4) & _ & HSm & _ & _ & F6 & _).
    rewrite <- Em in L, A4, HSm, F6.
    destruct (finalize_hdr tb tb2 ml) as (H1 & H2 & H3 & H4). cbv zeta in H1, H2, H3, H4. rewrite <- Em in H1, H2, H3, H4.
    unfold dd_is_exact in Hnex. apply orb_false_iff in Hnex. destruct Hnex as [Hnx Hebp].
    rewrite Hnx in H1. destruct (m_lel ml) as [k|] eqn:Hlel; [|discriminate].
    assert (Hen : enabled ml) by (intros E; rewrite Ht in E; discriminate).
    (* the next layer of the loop was not empty *)
    assert (Hnn : m_next ml <> []).
    { unfold dd_best_value in Hbv. rewrite H3 in Hbv.
      destruct (pick tb (argmax_candidates inp (finalize_layers inp ml) (m_next ml))) as [b|] eqn:Eb; [|discriminate].
      apply pick_In in Eb. apply (argmax_candidates_In inp Hclean) in Eb.
      intros E. rewrite E in Eb. destruct Eb. }
    pose proof (HXn Hnn) as HXi.
    destruct (F6 id Hid) as [Hidlt Hex].
    pose proof (Sinv_exact_flag_clean_chain inp m HSm id Hidlt Hex) as Hcc.
    destruct (clean_chain_frun m id HSm Hcc Hidlt) as (dsc & Hrc & Hdepc).
    destruct (A4 id) as (a1 & a2 & _ & _ & _ & _ & a7).
    (* the pipeline *)
    destruct (pipe3 tb tb2 ml HS HX) as (G1 & G2 & G3 & G4 & G5 & S3 & X3 & Pl3). cbv zeta in G1, G2, G3, G4, G5, S3, X3, Pl3.
    set (m3 := finalize_exact inp (find_best_node inp tb tb2 (finalize_layers inp ml))) in *.
    set (m4 := finalize_cutset inp m3) in *.
    set (m5 := compute_local_bounds inp m4).
    assert (Emm : m = compute_thresholds st_eqb inp m5) by (rewrite Em; reflexivity).
    assert (Hgn3 : forall x, gn m3 x = gn ml x) by (intros x; apply gn_nodes_eq; exact G1).
    destruct (finalize_layers_fields ml) as (_ & _ & _ & _ & F5).
    assert (Hly3 : m_layers m3 = m_layers ml ++ [seq (m_layer_end ml) (length (m_nodes ml) - m_layer_end ml)]).
    { rewrite G3, F5. destruct (m_next ml); [congruence|reflexivity]. }
    (* the cut-set node is the source of an arc *)
    assert (HSrc : Src ml id).
    { assert (Hcs : m_cutset m = m_cutset m4).
      { destruct (compute_local_bounds_keq inp Hclean m4) as (_ & _ & _ & _ & K5). fold m5 in K5.
        destruct (compute_thresholds_keq st_eqb inp m5) as (_ & _ & _ & _ & K6). rewrite Emm. congruence. }
      rewrite Hcs in Hid.
      assert (Hsrc3 : forall x, Src m3 x -> Src ml x).
      { intros x (eid & E1 & E2). exists eid. rewrite G2 in E1. rewrite (ge_edges_eq ml m3 eid G2) in E2. auto. }
      destruct Hclean as [Hf|Hf].
      - (* last exact layer: the node lies in layer k, hence not in the last layer *)
        unfold m4, finalize_cutset in Hid. cbv zeta in Hid. rewrite Hf, G4, Hlel, Ht in Hid.
        cbn [is_relaxed_ct orb opt_default] in Hid. rewrite G4, Hlel in Hid. cbn [opt_default] in Hid.
        destruct (lel_cutset_spec inp m3 k) as [_ Hcs3]. rewrite Hcs3, G5 in Hid.
        rewrite (X_cutset _ _ _ HX) in Hid. simpl in Hid.
        pose proof (X_lel_lt _ _ _ HX Ht k Hlel) as Hk.
        rewrite <- G3, Hly3, nth_error_app1 in Hid by exact Hk.
        destruct (nth_error (m_layers ml) k) as [ids|] eqn:Enk; [|destruct Hid].
        assert (Hidl : id < m_layer_end ml).
        { apply (X_layers _ _ _ HXi ids id); [eapply nth_error_In; eauto|exact Hid]. }
        assert (Hm5 : f_marked (n_flags (gn m5 id)) = true).
        { rewrite Emm in Hmk. rewrite (node_compute_thresholds _ (fun n => f_marked (n_flags n))) in Hmk by reflexivity. exact Hmk. }
        assert (S4' : Sinv inp m4).
        { destruct (finalize_cutset_spec inp Hclean m3 S3 X3) as [(P34 & N34 & _) _]. fold m4 in P34, N34.
          eapply (Sinv_peq inp Hclean); [exact P34| |exact S3].
          intros y Hy. rewrite N34 in Hy. destruct P34 as (_ & _ & L34 & _). rewrite L34. apply (S_next _ _ S3). exact Hy. }
        destruct (marked_src m4 S4') with (x := id) as [Hl|Hs].
        + intros x. unfold m4. rewrite (flag_finalize_cutset f_marked) by (intros; reflexivity).
          rewrite Hgn3.
          destruct (Nat.lt_ge_cases x (length (m_nodes ml))) as [Hlt|Hge].
          * unfold Ninv in HN. rewrite Forall_forall in HN. apply (HN (gn ml x)). apply nth_In. exact Hlt.
          * rewrite (gn_out_of_range inp ml x Hge). reflexivity.
        + exact Hm5.
        + exfalso. unfold m4 in Hl. rewrite finalize_cutset_layers, Hly3, last_last in Hl. apply in_seq in Hl. lia.
        + apply Hsrc3. destruct Hs as (eid & E1 & E2).
          destruct (finalize_cutset_spec inp Hclean m3 S3 X3) as [((Pe & _) & _) _]. fold m4 in Pe.
          exists eid. rewrite Pe in E1. rewrite (ge_edges_eq m3 m4 eid Pe) in E2. auto.
      - unfold m4, finalize_cutset in Hid. cbv zeta in Hid. rewrite Hf, G4, Hlel, Ht in Hid.
        cbn [is_relaxed_ct orb] in Hid.
        destruct (frontier_cutset_src m3 S3) with (c := id) as [Hc0|Hs]; [|exact Hid| |apply Hsrc3; exact Hs].
        + intros x Hx Hcx. exfalso. rewrite Hgn3 in Hcx. rewrite G1 in Hx.
          unfold Ninv in HN. rewrite Forall_forall in HN.
          destruct (HN (gn ml x)) as [Q _]; [apply nth_In; exact Hx|]. congruence.
        + rewrite G5, (X_cutset _ _ _ HX) in Hc0. destruct Hc0. }
    destruct (HSL id HSrc) as (i & Hil & Hdi).
    assert (Hli : length dsc = i) by lia.
    assert (HSt : Start i (n_state (gn m id)) (n_vtop (gn m id))) by (exists dsc; auto).
    destruct (H pb (n_depth (gn m id)) (n_state (gn m id))) as [h|] eqn:Eh; [|discriminate].
    simpl in Ho. inversion Ho; subst o. clear Ho.
    assert (Hdle : rd + i <= N).
    { rewrite <- Hli. apply (frun_len_le dsc rd rs rv _ Hrc Hrd). }
    rewrite Hdepc, Hli in Eh.
    destruct (H_attained pb nv_static nv_some nv_none (N - (rd + i)) (rd + i) _ (n_vtop (gn m id)) h eq_refl Hdle Eh)
      as (ds2 & sN & Hr2 & Hl2).
    assert (Hpc : promCT i (n_state (gn m id)) (n_vtop (gn m id)) ds2 sN (n_vtop (gn m id) + h)%Z).
    { split; [exact Hr2|]. split; [lia|lia]. }
    assert (Hcv : cov (n_state (gn ml id)) (n_state (gn m id))) by (rewrite a1; apply cov_refl).
    assert (Hvv : (n_vtop (gn m id) <= n_vtop (gn ml id))%Z) by (rewrite a2; lia).
    destruct (HUP i id (n_state (gn m id)) (n_vtop (gn m id)) ds2 sN _ Hil HSrc Hcv Hvv HSt Hpc Hen)
      as (HE & _ & Hlen & _ & u & s' & Hu & Hur & Hpth).
    assert (HsN : sN = s').
    { rewrite (frun_state pb _ _ _ _ _ _ Hr2). symmetry. apply (dpath_state _ _ _ _ _ _ _ Hpth). }
    subst sN.
    destruct (Hguard (dsc ++ ds2) s' _ ltac:(rewrite frun_app, Hrc, Hli; exact Hr2)) as [Go1 Go2].
    destruct (locb_from_path tb tb2 ml k i id (n_state (gn m id)) (n_vtop (gn m id)) ds2 u s'
                (n_vtop (gn m id) + h)%Z Ht HS HX Hlel) as [_ Mv]; auto.
    { lia. }
    { intros da db s1 v1 Ed Hr1.
      destruct (Hguard (dsc ++ da) s1 v1) as [Q1 Q2]; [rewrite frun_app, Hrc, Hli; exact Hr1|].
      unfold in_isize, IMIN, IMAX in *. lia. }
    rewrite <- Em in Mv.
    assert (Hloc : (n_vtop (gn m id) + h <= sat_add (n_vtop (gn m id)) (n_vbot (gn m id)))%Z).
    { apply sat_add_ge; [unfold in_isize, IMIN, IMAX in *; lia|lia]. }
    lia.
  Qed.
End DomSim.

(* ================================================================== 8. the contracts KD0..KD5 for Mdd.compile, under [opt_undominated] *)

(* the contracts consumed by the solver-level theorem of section 3, as one proposition *)
Definition dom_contracts {St : Type} (st_eqb : St -> St -> bool) (cfg : @sconfig St)
    (dsok : @dstore St Z -> Prop) (M : nat) : Prop :=
  let pb := sc_problem cfg in let N := nb_vars (sc_problem cfg) in
  let good := sgood (sc_problem cfg) in let feas := sfeasible (sc_problem cfg) in let bst := MddSim.best cfg in
  (forall ct n lb c ds polls m out,
    dd_ct ct -> good n -> sp_depth n <= N -> dsok ds ->
    compile st_eqb (mk_input cfg ct n lb) 0 0 c ds polls = (m, out) ->
    out = Compiled /\ m_crash m = false /\ dsok (m_dom m)) /\
  (forall ct n lb c ds polls m out,
    dd_ct ct -> good n -> sp_depth n <= N -> dsok ds ->
    compile st_eqb (mk_input cfg ct n lb) 0 0 c ds polls = (m, out) ->
    forall v, dd_best_exact_value (mk_input cfg ct n lb) m = Some v ->
    exists sol, dd_best_exact_solution (mk_input cfg ct n lb) m = Some sol /\ feas sol v) /\
  (forall ct n lb c ds polls m out,
    dd_ct ct -> good n -> sp_depth n <= N -> dsok ds ->
    compile st_eqb (mk_input cfg ct n lb) 0 0 c ds polls = (m, out) ->
    dd_is_exact m = true ->
    forall o, bst (root_node cfg) = Some o -> bst n = Some o -> (o > lb)%Z ->
    dd_best_exact_value (mk_input cfg ct n lb) m = Some o) /\
  (forall n lb c ds polls m out,
    good n -> sp_depth n <= N -> dsok ds ->
    compile st_eqb (mk_input cfg Relaxed n lb) 0 0 c ds polls = (m, out) ->
    dd_is_exact m = false ->
    forall x, In x (drain_cutset (mk_input cfg Relaxed n lb) m) -> good x) /\
  (forall n lb c ds polls m out,
    good n -> sp_depth n <= N -> dsok ds ->
    compile st_eqb (mk_input cfg Relaxed n lb) 0 0 c ds polls = (m, out) ->
    dd_is_exact m = false ->
    forall x, In x (drain_cutset (mk_input cfg Relaxed n lb) m) -> sp_depth n < sp_depth x <= N) /\
  (forall n lb c ds polls m out,
    good n -> sp_depth n <= N -> dsok ds ->
    compile st_eqb (mk_input cfg Relaxed n lb) 0 0 c ds polls = (m, out) ->
    dd_is_exact m = false ->
    forall x, In x (drain_cutset (mk_input cfg Relaxed n lb) m) ->
    forall o, bst (root_node cfg) = Some o -> bst x = Some o -> (o > lb)%Z -> (o <= sp_ub x)%Z) /\
  (forall n lb c ds polls m out,
    good n -> sp_depth n <= N -> dsok ds ->
    compile st_eqb (mk_input cfg Relaxed n lb) 0 0 c ds polls = (m, out) ->
    dd_is_exact m = false ->
    forall o, bst (root_node cfg) = Some o -> bst n = Some o -> (o > lb)%Z ->
    (forall e, dd_best_exact_value (mk_input cfg Relaxed n lb) m = Some e -> (e < o)%Z) ->
    exists x, In x (drain_cutset (mk_input cfg Relaxed n lb) m) /\ bst x = Some o) /\
  (forall n lb c ds polls m out,
    good n -> sp_depth n <= N -> dsok ds ->
    compile st_eqb (mk_input cfg Relaxed n lb) 0 0 c ds polls = (m, out) ->
    dd_is_exact m = false ->
    length (drain_cutset (mk_input cfg Relaxed n lb) m) <= M).

Section DomContracts.
  Context {St : Type}.
  Variable st_eqb : St -> St -> bool.
  Hypothesis st_eqb_spec : forall a b, st_eqb a b = true <-> a = b.
  Variable cfg : @sconfig St.
  Local Notation pb := (sc_problem cfg).
  Local Notation rlx := (sc_relax cfg).
  Local Notation N := (nb_vars (sc_problem cfg)).
  Variable key : St -> option Z.
  Variable nd : nat.
  Variable coord : St -> nat -> Z.
  Variable usev : bool.
  Hypothesis cfg_clean : sc_flavour cfg = CleanLEL \/ sc_flavour cfg = CleanFC.
  Hypothesis cfg_nocache : sc_use_cache cfg = false.
  Hypothesis cfg_dom : sc_domrule cfg = Some (key, nd, coord, usev).
  Hypothesis cfg_nocut : sc_cutoff cfg = 0.
  Hypothesis cfg_width : 1 <= sc_width cfg.
  Hypothesis nv_static : forall k l1 l2, next_variable pb k l1 = next_variable pb k l2.
  Hypothesis nv_some : forall k l, k < N -> exists x, next_variable pb k l = Some x.
  Hypothesis nv_none : forall k l, N <= k -> next_variable pb k l = None.
  Variable cov : St -> St -> Prop.
  Hypothesis cov_refl : forall s, cov s s.
  Hypothesis cov_sim : forall s s' x v, cov s s' -> In v (domain pb x s') ->
    let d := {| d_var := x; d_val := v |} in
    In v (domain pb x s) /\ cov (transition pb s d) (transition pb s' d) /\
    (transition_cost pb s' (transition pb s' d) d <= transition_cost pb s (transition pb s d) d)%Z.
  Hypothesis merge_cov : forall L s s', In s L -> cov s s' -> cov (merge rlx L) s'.
  Hypothesis relax_ge : forall src dst mg d c, (c <= relax rlx src dst mg d c)%Z.
  Hypothesis rub_adm : forall k s s' h, cov s s' -> H pb k s' = Some h -> (h <= fast_upper_bound rlx s)%Z.
  Variable D : nat.
  Hypothesis dom_bound : forall x s, length (domain pb x s) <= D.
  Variable B : Z.
  Hypothesis HB : (2 * B <= IMAX)%Z.
  Hypothesis guard0 : forall ds s' v', frun pb 0 (init_state pb) (init_value pb) ds = Some (s', v') -> (- B <= v' <= B)%Z.
  Hypothesis Hund : opt_undominated pb key nd coord usev.

  Local Notation good := (sgood pb).
  Local Notation feas := (sfeasible pb).
  Local Notation bst := (MddSim.best cfg).

  (* the store invariant: every entry sits in the bucket of its key and is reached by a feasible run from the root *)
  Definition Pst (d : nat) (k : Z) (e : St) (ve : Z) : Prop := key e = Some k /\ reach pb d e ve.
  Definition dsok (ds : @dstore St Z) : Prop := N < length ds /\ store_all Pst ds.

  Lemma dsok_init : dsok (init_dstore N).
  Proof.
    split; [unfold init_dstore; rewrite repeat_length; lia|apply store_all_init].
  Qed.

  Lemma gguardD n : good n -> forall ds s' v',
    frun pb (sp_depth n) (sp_state n) (sp_value n) ds = Some (s', v') -> (- B <= v' <= B)%Z.
  Proof. apply sgood_guard. exact guard0. Qed.

  Lemma good_reach n ds s v : good n ->
    frun pb (sp_depth n) (sp_state n) (sp_value n) ds = Some (s, v) -> reach pb (sp_depth n + length ds) s v.
  Proof.
    intros (_ & ds0 & G1 & _ & G3) Hr. exists (ds0 ++ ds). split; [|rewrite app_length; lia].
    rewrite frun_app, G3, G1. exact Hr.
  Qed.

  Lemma HexactD n : good n -> forall ds s v k,
    frun pb (sp_depth n) (sp_state n) (sp_value n) ds = Some (s, v) -> key s = Some k ->
    Pst (sp_depth n + length ds) k s v.
  Proof. intros Hg ds s v k Hr Hk. split; [exact Hk|]. eapply good_reach; eauto. Qed.

  (* with tau = B nothing is promising: used for the structural contracts *)
  Lemma HsafeB n : good n -> sp_depth n <= N -> forall ds s v k h e ve,
    frun pb (sp_depth n) (sp_state n) (sp_value n) ds = Some (s, v) -> key s = Some k ->
    H pb (sp_depth n + length ds) s = Some h -> (B < v + h)%Z -> Pst (sp_depth n + length ds) k e ve ->
    ~ sdom nd coord usev e ve s v.
  Proof.
    intros Hg Hd ds s v k h e ve Hr _ Hh Hlt _ _. exfalso.
    assert (Hle : sp_depth n + length ds <= N).
    { apply (frun_length pb nv_none ds _ _ _ _ Hr Hd). }
    destruct (H_attained pb nv_static nv_some nv_none (N - (sp_depth n + length ds)) (sp_depth n + length ds) s v h eq_refl Hle Hh)
      as (ds2 & s2 & Hr2 & _).
    assert (Hfull : frun pb (sp_depth n) (sp_state n) (sp_value n) (ds ++ ds2) = Some (s2, (v + h)%Z)).
    { rewrite frun_app, Hr. exact Hr2. }
    pose proof (gguardD n Hg _ _ _ Hfull). lia.
  Qed.

  Lemma OPT_enum : bst (root_node cfg) = opt_enum pb.
  Proof. unfold MddSim.best, opt_enum. cbn [root_node sp_value sp_depth sp_state]. symmetry. apply opt_enum_from_H. Qed.

  (* with tau = o - 1 for the optimum o: what opt_undominated says *)
  Lemma HsafeO n o : good n -> bst (root_node cfg) = Some o -> forall ds s v k h e ve,
    frun pb (sp_depth n) (sp_state n) (sp_value n) ds = Some (s, v) -> key s = Some k ->
    H pb (sp_depth n + length ds) s = Some h -> (o - 1 < v + h)%Z -> Pst (sp_depth n + length ds) k e ve ->
    ~ sdom nd coord usev e ve s v.
  Proof.
    intros Hg Ho ds s v k h e ve Hr Hk Hh Hlt [Hke Hre] Hs.
    rewrite OPT_enum in Ho.
    pose proof (Hund o Ho (sp_depth n + length ds) e ve s v Hre (good_reach n ds s v Hg Hr)
                  (ex_intro _ k (conj Hke Hk)) Hs h Hh). lia.
  Qed.

  Local Notation inp0 ct n lb := (mk_input cfg ct n lb).

  Lemma KD_struct ct n lb c ds polls m out :
    good n -> sp_depth n <= N -> dsok ds ->
    compile st_eqb (inp0 ct n lb) 0 0 c ds polls = (m, out) ->
    out = Compiled /\ m_crash m = false /\ dsok (m_dom m) /\
    (forall b, m_best m = Some b \/ m_best_exact m = Some b -> n_depth (get_node (inp0 ct n lb) m b) = N) /\
    (ct = Relaxed -> forall sp, In sp (drain_cutset (inp0 ct n lb) m) -> sp_depth n < sp_depth sp <= N).
  Proof.
    intros Hg Hd [Hl Hs] Hc.
    destruct (compile_factsD st_eqb st_eqb_spec (inp0 ct n lb) key nd coord usev cfg_dom cfg_clean cfg_nocache cfg_nocut
                cfg_width nv_some nv_none Hd 0 0 c ds polls m out Hl Hc) as (-> & F1 & _ & F3 & F4 & _).
    split; [reflexivity|]. split; [exact F1|]. split; [|split; [exact F3|exact F4]].
    destruct (compile_postT st_eqb st_eqb_spec (inp0 ct n lb) cfg_clean cfg_nocache cfg_nocut cfg_width Hd
                nv_static nv_some nv_none cov cov_refl cov_sim merge_cov relax_ge rub_adm B HB (gguardD n Hg)
                key nd coord usev cfg_dom B Pst (HexactD n Hg) (HsafeB n Hg Hd) 0 0 c ds polls m Hl Hs Hc)
      as (ml & _ & _ & _ & _ & _ & S1 & S2).
    split; [exact S2|exact S1].
  Qed.

  Theorem KD0_holds : forall ct n lb c ds polls m out,
    dd_ct ct -> good n -> sp_depth n <= N -> dsok ds ->
    compile st_eqb (inp0 ct n lb) 0 0 c ds polls = (m, out) ->
    out = Compiled /\ m_crash m = false /\ dsok (m_dom m).
  Proof.
    intros ct n lb c ds polls m out _ Hg Hd Hds Hc.
    destruct (KD_struct ct n lb c ds polls m out Hg Hd Hds Hc) as (A & B0 & C & _). auto.
  Qed.

  Theorem KD1_holds : forall ct n lb c ds polls m out,
    dd_ct ct -> good n -> sp_depth n <= N -> dsok ds ->
    compile st_eqb (inp0 ct n lb) 0 0 c ds polls = (m, out) ->
    forall v, dd_best_exact_value (inp0 ct n lb) m = Some v ->
    exists sol, dd_best_exact_solution (inp0 ct n lb) m = Some sol /\ feas sol v.
  Proof.
    intros ct n lb c ds polls m out _ Hg Hd Hds Hc v Hv.
    destruct (KD_struct ct n lb c ds polls m out Hg Hd Hds Hc) as (-> & _ & _ & Hbd & _).
    unfold dd_best_exact_value in Hv. unfold dd_best_exact_solution.
    destruct (m_best_exact m) as [b|] eqn:Eb; [|discriminate]. simpl in Hv. inversion Hv; subst v. simpl.
    destruct (best_exact_solution_genuine st_eqb st_eqb_spec (inp0 ct n lb) cfg_clean 0 0 c ds polls m b Hc Eb)
      as (Hlt & Hcc & _ & Hpath & Hlen).
    pose proof (Assembly.clean_chain_frun st_eqb st_eqb_spec (inp0 ct n lb) cfg_clean nv_static B HB (gguardD n Hg)
                  0 0 c ds polls m b Hc Hcc Hlt) as Hrun.
    pose proof (Hbd b (or_intror eq_refl)) as HdN.
    destruct Hg as (_ & ds0 & G1 & G2 & G3).
    eexists. split; [reflexivity|].
    exists (ds0 ++ rev (chain (inp0 ct n lb) m b)), (n_state (get_node (inp0 ct n lb) m b)).
    split; [|split].
    - rewrite app_length, rev_length, G1, Hlen, HdN. cbn [mk_input ci_root ci_problem]. lia.
    - rewrite Hpath. apply Permutation_app; [exact G2|]. apply Permutation_sym, Permutation_rev.
    - rewrite frun_app, G3, G1. exact Hrun.
  Qed.

  Theorem KD3_depth_holds : forall n lb c ds polls m out,
    good n -> sp_depth n <= N -> dsok ds ->
    compile st_eqb (inp0 Relaxed n lb) 0 0 c ds polls = (m, out) ->
    dd_is_exact m = false ->
    forall x, In x (drain_cutset (inp0 Relaxed n lb) m) -> sp_depth n < sp_depth x <= N.
  Proof.
    intros n lb c ds polls m out Hg Hd Hds Hc _ x Hx.
    destruct (KD_struct Relaxed n lb c ds polls m out Hg Hd Hds Hc) as (_ & _ & _ & _ & Hcd).
    apply Hcd; auto.
  Qed.

  Theorem KD3_good_holds : forall n lb c ds polls m out,
    good n -> sp_depth n <= N -> dsok ds ->
    compile st_eqb (inp0 Relaxed n lb) 0 0 c ds polls = (m, out) ->
    dd_is_exact m = false ->
    forall x, In x (drain_cutset (inp0 Relaxed n lb) m) -> good x.
  Proof.
    intros n lb c ds polls m out Hg Hd Hds Hc Hex x Hx.
    destruct (KD3_depth_holds n lb c ds polls m out Hg Hd Hds Hc Hex x Hx) as [_ HxN].
    destruct (KD_struct Relaxed n lb c ds polls m out Hg Hd Hds Hc) as (-> & _).
    destruct (cutset_nodes_exact st_eqb st_eqb_spec (inp0 Relaxed n lb) cfg_clean 0 0 c ds polls m x Hc Hx)
      as (id & _ & Hlt & _ & Hcc & Hpath & Hst & Hval & _ & _ & Hlen).
    pose proof (Assembly.clean_chain_frun st_eqb st_eqb_spec (inp0 Relaxed n lb) cfg_clean nv_static B HB (gguardD n Hg)
                  0 0 c ds polls m id Hc Hcc Hlt) as Hrun.
    destruct Hg as (_ & ds0 & G1 & G2 & G3).
    split; [exact HxN|].
    exists (ds0 ++ rev (chain (inp0 Relaxed n lb) m id)). split; [|split].
    - rewrite app_length, rev_length, G1, Hlen. reflexivity.
    - rewrite Hpath. apply Permutation_app; [exact G2|]. apply Permutation_sym, Permutation_rev.
    - rewrite frun_app, G3, G1, Hst, Hval. exact Hrun.
  Qed.

  Definition KboundD : nat := 3 + D + D * D + N * (1 + sc_width cfg * D).

  Theorem KD5_holds : forall n lb c ds polls m out,
    good n -> sp_depth n <= N -> dsok ds ->
    compile st_eqb (inp0 Relaxed n lb) 0 0 c ds polls = (m, out) ->
    dd_is_exact m = false ->
    length (drain_cutset (inp0 Relaxed n lb) m) <= KboundD.
  Proof.
    intros n lb c ds polls m out Hg Hd [Hl _] Hc _.
    exact (cutset_size_boundD st_eqb st_eqb_spec (inp0 Relaxed n lb) key nd coord usev cfg_dom cfg_clean cfg_nocache
             cfg_nocut cfg_width nv_some nv_none Hd D dom_bound 0 0 c ds polls m out Hl eq_refl Hc).
  Qed.

  Theorem KD2_holds : forall ct n lb c ds polls m out,
    dd_ct ct -> good n -> sp_depth n <= N -> dsok ds ->
    compile st_eqb (inp0 ct n lb) 0 0 c ds polls = (m, out) ->
    dd_is_exact m = true ->
    forall o, bst (root_node cfg) = Some o -> bst n = Some o -> (o > lb)%Z ->
    dd_best_exact_value (inp0 ct n lb) m = Some o.
  Proof.
    intros ct n lb c ds polls m out _ Hg Hd Hds Hc Hex o Ho Hb Hlb.
    destruct (KD_struct ct n lb c ds polls m out Hg Hd Hds Hc) as (-> & _).
    destruct Hds as [Hl Hs].
    exact (S2T st_eqb st_eqb_spec (inp0 ct n lb) cfg_clean cfg_nocache cfg_nocut cfg_width Hd
             nv_static nv_some nv_none cov cov_refl cov_sim merge_cov relax_ge rub_adm B HB (gguardD n Hg)
             key nd coord usev cfg_dom (o - 1)%Z Pst (HexactD n Hg) (HsafeO n o Hg Ho)
             0 0 c ds polls m o Hl Hs Hc Hex Hb Hlb ltac:(lia)).
  Qed.

  Theorem KD4_holds : forall n lb c ds polls m out,
    good n -> sp_depth n <= N -> dsok ds ->
    compile st_eqb (inp0 Relaxed n lb) 0 0 c ds polls = (m, out) ->
    dd_is_exact m = false ->
    forall o, bst (root_node cfg) = Some o -> bst n = Some o -> (o > lb)%Z ->
    (forall e, dd_best_exact_value (inp0 Relaxed n lb) m = Some e -> (e < o)%Z) ->
    exists x, In x (drain_cutset (inp0 Relaxed n lb) m) /\ bst x = Some o.
  Proof.
    intros n lb c ds polls m out Hg Hd Hds Hc Hex o Ho Hb Hlb Hbe.
    destruct (KD_struct Relaxed n lb c ds polls m out Hg Hd Hds Hc) as (-> & _).
    destruct Hds as [Hl Hs].
    destruct (S4T st_eqb st_eqb_spec (inp0 Relaxed n lb) cfg_clean cfg_nocache cfg_nocut cfg_width Hd
             nv_static nv_some nv_none cov cov_refl cov_sim merge_cov relax_ge rub_adm B HB (gguardD n Hg)
             key nd coord usev cfg_dom (o - 1)%Z Pst (HexactD n Hg) (HsafeO n o Hg Ho)
             0 0 c ds polls m o Hl Hs Hc eq_refl Hex Hb Hlb ltac:(lia) Hbe) as (x & H1 & H2 & _).
    exists x. auto.
  Qed.

  Theorem KD3_ub_holds : forall n lb c ds polls m out,
    good n -> sp_depth n <= N -> dsok ds ->
    compile st_eqb (inp0 Relaxed n lb) 0 0 c ds polls = (m, out) ->
    dd_is_exact m = false ->
    forall x, In x (drain_cutset (inp0 Relaxed n lb) m) ->
    forall o, bst (root_node cfg) = Some o -> bst x = Some o -> (o > lb)%Z -> (o <= sp_ub x)%Z.
  Proof.
    intros n lb c ds polls m out Hg Hd Hds Hc Hex x Hx o Ho Hb Hlb.
    destruct (KD_struct Relaxed n lb c ds polls m out Hg Hd Hds Hc) as (-> & _).
    destruct Hds as [Hl Hs].
    exact (S3T st_eqb st_eqb_spec (inp0 Relaxed n lb) cfg_clean cfg_nocache cfg_nocut cfg_width Hd
             nv_static nv_some nv_none cov cov_refl cov_sim merge_cov relax_ge rub_adm B HB (gguardD n Hg)
             key nd coord usev cfg_dom (o - 1)%Z Pst (HexactD n Hg) (HsafeO n o Hg Ho)
             0 0 c ds polls m x o Hl Hs Hc eq_refl Hex Hx Hb Hlb ltac:(lia)).
  Qed.
  Theorem KD_all : dom_contracts st_eqb cfg dsok KboundD.
  Proof.
    unfold dom_contracts. cbv zeta.
    split; [exact KD0_holds|]. split; [exact KD1_holds|]. split; [exact KD2_holds|]. split; [exact KD3_good_holds|].
    split; [exact KD3_depth_holds|]. split; [exact KD3_ub_holds|]. split; [exact KD4_holds|exact KD5_holds].
  Qed.
End DomContracts.


(* ================================================================== 9. C10, sequential solver *)
Section DomMain.
  Context {St : Type}.
  Variable st_eqb : St -> St -> bool.
  Hypothesis st_eqb_spec : forall a b, st_eqb a b = true <-> a = b.
  Variable cfg : @sconfig St.
  Local Notation pb := (sc_problem cfg).
  Local Notation N := (nb_vars (sc_problem cfg)).
  Variable key : St -> option Z.
  Variable nd : nat.
  Variable coord : St -> nat -> Z.
  Variable usev : bool.
  (* ---- configuration: clean flavour, no cache, SimpleFringe, width >= 1, no cutoff, and a RULE *)
  Hypothesis cfg_clean : sc_flavour cfg = CleanLEL \/ sc_flavour cfg = CleanFC.
  Hypothesis cfg_nocache : sc_use_cache cfg = false.
  Hypothesis cfg_dom : sc_domrule cfg = Some (key, nd, coord, usev).
  Hypothesis cfg_nodup : sc_nodup cfg = false.
  Hypothesis cfg_width : 1 <= sc_width cfg.
  Hypothesis cfg_nocut : sc_cutoff cfg = 0.
  (* ---- the user's model, as in Assembly.C01_sequential_optimal *)
  Hypothesis nv_static : forall k l1 l2, next_variable pb k l1 = next_variable pb k l2.
  Hypothesis nv_some : forall k l, k < N -> exists x, next_variable pb k l = Some x.
  Hypothesis nv_none : forall k l, N <= k -> next_variable pb k l = None.
  Hypothesis Hwf : wf_relaxation cfg.
  Variable D : nat.
  Hypothesis dom_bound : forall x s, length (domain pb x s) <= D.
  Variable B : Z.
  Hypothesis HB : (2 * B <= IMAX)%Z.
  Hypothesis guard0 : forall ds s' v', frun pb 0 (init_state pb) (init_value pb) ds = Some (s', v') -> (- B <= v' <= B)%Z.
  (* ---- the premise on the rule *)
  Hypothesis Hund : opt_undominated pb key nd coord usev.

  Lemma contracts_hold_dom : dom_contracts st_eqb cfg (dsok cfg key) (KboundD cfg D).
  Proof.
    destruct Hwf as (cov & [((W1 & W2 & W3 & W4) & W5) | ((W1 & W2 & W3 & W4) & W5 & W6 & W7)]).
    - exact (KD_all st_eqb st_eqb_spec cfg key nd coord usev cfg_clean cfg_nocache cfg_dom cfg_nocut cfg_width
               nv_static nv_some nv_none cov W1 W2 W3 W5 W4 D dom_bound B HB guard0 Hund).
    - pose proof (KD_all st_eqb st_eqb_spec (clip_cfg cfg) key nd coord usev cfg_clean cfg_nocache cfg_dom cfg_nocut cfg_width
               nv_static nv_some nv_none cov W1 W2 W3 (clip_relax_ge cfg cfg_width W7) W4 D dom_bound B HB guard0 Hund)
        as (K0 & K1 & K2 & K3g & K3d & K3u & K4 & K5).
      pose proof (clip_compile_cfg st_eqb cfg cfg_clean W5 W6) as Hclip.
      unfold dom_contracts. cbv zeta.
      split; [|split; [|split; [|split; [|split; [|split; [|split]]]]]].
      + intros ct n lb c ds polls m out H1 H2 H3 H4 Hc. rewrite <- Hclip in Hc.
        exact (K0 ct n lb c ds polls m out H1 H2 H3 H4 Hc).
      + intros ct n lb c ds polls m out H1 H2 H3 H4 Hc. rewrite <- Hclip in Hc.
        exact (K1 ct n lb c ds polls m out H1 H2 H3 H4 Hc).
      + intros ct n lb c ds polls m out H1 H2 H3 H4 Hc. rewrite <- Hclip in Hc.
        exact (K2 ct n lb c ds polls m out H1 H2 H3 H4 Hc).
      + intros n lb c ds polls m out H2 H3 H4 Hc. rewrite <- Hclip in Hc.
        exact (K3g n lb c ds polls m out H2 H3 H4 Hc).
      + intros n lb c ds polls m out H2 H3 H4 Hc. rewrite <- Hclip in Hc.
        exact (K3d n lb c ds polls m out H2 H3 H4 Hc).
      + intros n lb c ds polls m out H2 H3 H4 Hc. rewrite <- Hclip in Hc.
        exact (K3u n lb c ds polls m out H2 H3 H4 Hc).
      + intros n lb c ds polls m out H2 H3 H4 Hc. rewrite <- Hclip in Hc.
        exact (K4 n lb c ds polls m out H2 H3 H4 Hc).
      + intros n lb c ds polls m out H2 H3 H4 Hc. rewrite <- Hclip in Hc.
        exact (K5 n lb c ds polls m out H2 H3 H4 Hc).
  Qed.

  Local Notation good := (sgood pb).
  Local Notation feas := (sfeasible pb).
  Local Notation bst := (MddSim.best cfg).

  Lemma feasible_le_optD sol v : feas sol v -> exists o, bst (root_node cfg) = Some o /\ (v <= o)%Z.
  Proof.
    intros (ds & st & H1 & _ & H3).
    destruct (frun_le_H pb nv_static nv_none ds 0 _ _ st v H1 H3) as (h & Hh & Hle).
    exists (init_value pb + h)%Z. split; [|exact Hle].
    unfold MddSim.best. cbn [root_node sp_value sp_depth sp_state]. rewrite Hh. reflexivity.
  Qed.

  Lemma opt_in_isizeD o : bst (root_node cfg) = Some o -> (IMIN < o <= IMAX)%Z.
  Proof.
    unfold MddSim.best. cbn [root_node sp_value sp_depth sp_state].
    destruct (H pb 0 (init_state pb)) as [h|] eqn:Eh; [|discriminate]. simpl. intros E. inversion E; subst o.
    destruct (H_attained pb nv_static nv_some nv_none (N - 0) 0 (init_state pb) (init_value pb) h eq_refl
                ltac:(lia) Eh) as (ds & s' & Hr & _).
    pose proof (guard0 ds s' _ Hr). unfold IMIN, IMAX in *. lia.
  Qed.

  (* strong form: the returned solution is a feasible run in exact integer arithmetic *)
  Theorem C10_sequential_dominance_optimal_run :
    exists f0, forall fuel, f0 <= fuel ->
      let r := maximize st_eqb cfg fuel None in
      r_crash r = false /\ r_outoffuel r = false /\ r_exact r = true /\ r_value r = opt_enum pb /\
      (forall v, opt_enum pb = Some v ->
         r_lb r = v /\ r_ub r = v /\ exists sol, r_sol r = Some (sort_by dec_var_cmp sol) /\ feas sol v) /\
      (opt_enum pb = None -> r_sol r = None /\ r_lb r = IMIN).
  Proof.
    destruct contracts_hold_dom as (K0 & K1 & K2 & K3g & K3d & K3u & K4 & K5).
    exists (d_fuel0 cfg (KboundD cfg D)). intros fuel Hfuel.
    pose proof (dom_maximize_correct st_eqb cfg cfg_nocache cfg_nodup good bst feas
                  (sgood_root pb (root_node cfg) eq_refl eq_refl eq_refl eq_refl)
                  feasible_le_optD opt_in_isizeD (fun c u => sgood_set_ub pb c u) (fun c u => eq_refl)
                  (dsok cfg key) (dsok_init cfg key cfg_nocut cfg_width) (KboundD cfg D) K0 K1 K2 K3g K3d K3u K4 K5 fuel Hfuel) as Hr.
    unfold d_result_ok in Hr. rewrite (OPT_enum cfg) in Hr. exact Hr.
  Qed.

  Theorem C10_sequential_dominance_optimal :
    exists f0, forall fuel, f0 <= fuel ->
      let r := maximize st_eqb cfg fuel None in
      r_crash r = false /\ r_outoffuel r = false /\ r_exact r = true /\ r_value r = opt_enum pb /\
      (forall v, opt_enum pb = Some v ->
         r_lb r = v /\ r_ub r = v /\
         exists sol, r_sol r = Some (sort_by dec_var_cmp sol) /\ MddProgress.feasible pb sol v) /\
      (opt_enum pb = None -> r_sol r = None /\ r_lb r = IMIN).
  Proof.
    destruct C10_sequential_dominance_optimal_run as [f0 Hf]. exists f0. intros fuel Hfuel.
    destruct (Hf fuel Hfuel) as (A1 & A2 & A3 & A4 & A5 & A6).
    split; [exact A1|]. split; [exact A2|]. split; [exact A3|]. split; [exact A4|]. split; [|exact A6].
    intros v Hv. destruct (A5 v Hv) as (E1 & E2 & sol & S1 & S2). split; [exact E1|]. split; [exact E2|].
    exists sol. split; [exact S1|]. apply (sfeasible_feasible pb B HB guard0). exact S2.
  Qed.
End DomMain.

(* ================================================================== 10. sufficient conditions, corollaries *)
Section Corollaries.
  Context {St : Type}.
  Variable pb : problem St.
  Local Notation N := (nb_vars pb).
  Hypothesis nv_static : forall k l1 l2, next_variable pb k l1 = next_variable pb k l2.
  Hypothesis nv_some : forall k l, k < N -> exists x, next_variable pb k l = Some x.
  Hypothesis nv_none : forall k l, N <= k -> next_variable pb k l = None.
  Variable key : St -> option Z.
  Variable nd : nat.
  Variable coord : St -> nat -> Z.
  Variable usev : bool.

  Lemma reach_best_le_opt d a va h o :
    reach pb d a va -> H pb d a = Some h -> opt_enum pb = Some o -> (va + h <= o)%Z.
  Proof.
    intros (ds & Hr & Hl) Hh Ho. subst d.
    assert (Hle : 0 + length ds <= N) by (apply (frun_length pb nv_none ds 0 _ _ _ Hr); lia).
    destruct (H_attained pb nv_static nv_some nv_none (N - length ds) (length ds) a va h eq_refl Hle Hh)
      as (ds2 & s2 & Hr2 & Hl2).
    assert (Hfull : frun pb 0 (init_state pb) (init_value pb) (ds ++ ds2) = Some (s2, (va + h)%Z)).
    { rewrite frun_app, Hr. exact Hr2. }
    destruct (frun_le_H pb nv_static nv_none (ds ++ ds2) 0 _ _ s2 _ ltac:(rewrite app_length; lia) Hfull)
      as (h0 & Hh0 & Hle0).
    unfold opt_enum in Ho. rewrite opt_enum_from_H, Hh0 in Ho. simpl in Ho. inversion Ho; subst o. exact Hle0.
  Qed.

  (* strict admissibility is enough *)
  Lemma strictly_admissible_undominated :
    strictly_admissible pb key nd coord usev -> opt_undominated pb key nd coord usev.
  Proof.
    intros Hs o Ho d a va b vb Ha Hb Hk Hd h Hh.
    destruct (Hs d a va b vb Ha Hb Hk Hd h Hh) as (h' & Hh' & Hlt).
    pose proof (reach_best_le_opt d a va h' o Ha Hh' Ho). lia.
  Qed.

  (* the exact one-coordinate rule of the generators: coordinate 0 = value-to-go, values are used *)
  Definition coord_is_H : Prop :=
    forall d s v k, reach pb d s v -> key s = Some k -> H pb d s = Some (coord s 0).

  Lemma coord_is_H_strict : nd = 1 -> usev = true -> coord_is_H -> strictly_admissible pb key nd coord usev.
  Proof.
    intros -> -> Hc d a va b vb Ha Hb (k & Ka & Kb) [[L1 L2] Hn] h Hh.
    rewrite (Hc d b vb k Hb Kb) in Hh. inversion Hh; subst h.
    exists (coord a 0). split; [apply (Hc d a va k Ha Ka)|].
    specialize (L1 0 ltac:(lia)). specialize (L2 eq_refl).
    destruct (Z_lt_le_dec (vb + coord b 0) (va + coord a 0)) as [Hlt|Hge]; [exact Hlt|].
    exfalso. apply Hn. split; [intros i Hi; assert (i = 0) by lia; subst i; lia|intros _; lia].
  Qed.

  (* ---- an executable sufficient check: enumerate the reachable (state, value) pairs of every depth *)
  Definition var_at (k : nat) : option nat := next_variable pb k [].

  Definition next_pairs (k : nat) (l : list (St * Z)) : list (St * Z) :=
    match var_at k with
    | None => []
    | Some x =>
        flat_map (fun '(s, v) =>
          map (fun val => let d := {| d_var := x; d_val := val |} in
                          (transition pb s d, (v + transition_cost pb s (transition pb s d) d)%Z))
              (domain pb x s)) l
    end.

  Fixpoint reach_pairs (d : nat) : list (St * Z) :=
    match d with
    | O => [(init_state pb, init_value pb)]
    | S k => next_pairs k (reach_pairs k)
    end.

  Lemma reach_pairs_complete ds : forall s v,
    frun pb 0 (init_state pb) (init_value pb) ds = Some (s, v) -> In (s, v) (reach_pairs (length ds)).
  Proof.
    induction ds as [|d ds IH] using rev_ind; intros s v Hr.
    - simpl in Hr. inversion Hr; subst. left; reflexivity.
    - rewrite frun_app in Hr.
      destruct (frun pb 0 (init_state pb) (init_value pb) ds) as [[s1 v1]|] eqn:E1; [|discriminate].
      specialize (IH s1 v1 eq_refl). cbn [frun] in Hr. simpl in Hr.
      destruct (var_ok pb (length ds) d) eqn:Ev; cbn [andb] in Hr; [|discriminate].
      destruct (in_domain pb s1 d) eqn:Ed; [|discriminate]. inversion Hr; subst s v. clear Hr.
      rewrite app_length. simpl. rewrite Nat.add_1_r. cbn [reach_pairs]. unfold next_pairs, var_at.
      apply (var_ok_spec pb nv_static (length ds) d []) in Ev. rewrite Ev.
      apply in_flat_map. exists (s1, v1). split; [exact IH|].
      apply in_map_iff. exists (d_val d). split; [|apply (in_domain_In pb); exact Ed].
      destruct d as [x val]. reflexivity.
  Qed.

  Definition sdomb (a : St) (va : Z) (b : St) (vb : Z) : bool :=
    DomSpec.le_allb nd coord usev b vb a va && negb (DomSpec.le_allb nd coord usev a va b vb).

  Definition same_keyb (a b : St) : bool :=
    match key a, key b with Some k, Some k' => Z.eqb k k' | _, _ => false end.

  (* every strictly dominated reachable pair has a best completion below the optimum *)
  Definition undominated_at (o : Z) (d : nat) : bool :=
    forallb (fun '(a, va) =>
      forallb (fun '(b, vb) =>
        negb (same_keyb a b && sdomb a va b vb) ||
        match H pb d b with Some h => (vb + h <? o)%Z | None => true end) (reach_pairs d)) (reach_pairs d).

  Definition check_undominated : bool :=
    match opt_enum pb with
    | None => true
    | Some o => forallb (undominated_at o) (seq 0 (S N))
    end.

  Lemma check_undominated_sound : check_undominated = true -> opt_undominated pb key nd coord usev.
  Proof.
    unfold check_undominated. intros Hc o Ho d a va b vb Ha Hb (k & Ka & Kb) [Hd1 Hd2] h Hh.
    rewrite Ho in Hc. rewrite forallb_forall in Hc.
    destruct Ha as (dsa & Hra & Hla). destruct Hb as (dsb & Hrb & Hlb).
    assert (HdN : d <= N).
    { subst d. pose proof (frun_length pb nv_none dsa 0 _ _ _ Hra). lia. }
    specialize (Hc d ltac:(apply in_seq; lia)). unfold undominated_at in Hc.
    rewrite forallb_forall in Hc.
    pose proof (reach_pairs_complete dsa a va Hra) as Ia. rewrite Hla in Ia.
    pose proof (reach_pairs_complete dsb b vb Hrb) as Ib. rewrite Hlb in Ib.
    specialize (Hc (a, va) Ia). cbv beta iota in Hc. rewrite forallb_forall in Hc.
    specialize (Hc (b, vb) Ib). cbv beta iota in Hc.
    assert (Hk : same_keyb a b = true) by (unfold same_keyb; rewrite Ka, Kb; apply Z.eqb_refl).
    assert (Hs : sdomb a va b vb = true).
    { unfold sdomb. apply andb_true_iff. split; [apply DomSpec.le_allb_spec; exact Hd1|].
      apply negb_true_iff. destruct (DomSpec.le_allb nd coord usev a va b vb) eqn:E; [|reflexivity].
      exfalso. apply Hd2. apply DomSpec.le_allb_spec. exact E. }
    rewrite Hk, Hs, Hh in Hc. cbn [andb negb orb] in Hc. apply Z.ltb_lt in Hc. exact Hc.
  Qed.
End Corollaries.

(* ================================================================== 11. the stated forms of C10 *)
Definition without_rule {St : Type} (cfg : @sconfig St) : @sconfig St :=
  {| sc_flavour := sc_flavour cfg; sc_problem := sc_problem cfg; sc_relax := sc_relax cfg; sc_ranking := sc_ranking cfg;
     sc_domcmp := sc_domcmp cfg; sc_domrule := None; sc_width := sc_width cfg; sc_use_cache := sc_use_cache cfg;
     sc_nodup := sc_nodup cfg; sc_cutoff := sc_cutoff cfg |}.

Section C10.
  Context {St : Type}.
  Variable st_eqb : St -> St -> bool.
  Hypothesis st_eqb_spec : forall a b, st_eqb a b = true <-> a = b.
  Variable cfg : @sconfig St.
  Local Notation pb := (sc_problem cfg).
  Local Notation N := (nb_vars (sc_problem cfg)).
  Variable key : St -> option Z.
  Variable nd : nat.
  Variable coord : St -> nat -> Z.
  Variable usev : bool.
  Hypothesis cfg_clean : sc_flavour cfg = CleanLEL \/ sc_flavour cfg = CleanFC.
  Hypothesis cfg_nocache : sc_use_cache cfg = false.
  Hypothesis cfg_dom : sc_domrule cfg = Some (key, nd, coord, usev).
  Hypothesis cfg_nodup : sc_nodup cfg = false.
  Hypothesis cfg_width : 1 <= sc_width cfg.
  Hypothesis cfg_nocut : sc_cutoff cfg = 0.
  Hypothesis nv_static : forall k l1 l2, next_variable pb k l1 = next_variable pb k l2.
  Hypothesis nv_some : forall k l, k < N -> exists x, next_variable pb k l = Some x.
  Hypothesis nv_none : forall k l, N <= k -> next_variable pb k l = None.
  Hypothesis Hwf : wf_relaxation cfg.
  Variable D : nat.
  Hypothesis dom_bound : forall x s, length (domain pb x s) <= D.
  Variable B : Z.
  Hypothesis HB : (2 * B <= IMAX)%Z.
  Hypothesis guard0 : forall ds s' v', frun pb 0 (init_state pb) (init_value pb) ds = Some (s', v') -> (- B <= v' <= B)%Z.

  (* with a strictly admissible rule *)
  Theorem C10_sequential_dominance_optimal_strict :
    strictly_admissible pb key nd coord usev ->
    exists f0, forall fuel, f0 <= fuel ->
      let r := maximize st_eqb cfg fuel None in
      r_crash r = false /\ r_outoffuel r = false /\ r_exact r = true /\ r_value r = opt_enum pb /\
      (forall v, opt_enum pb = Some v ->
         r_lb r = v /\ r_ub r = v /\
         exists sol, r_sol r = Some (sort_by dec_var_cmp sol) /\ MddProgress.feasible pb sol v) /\
      (opt_enum pb = None -> r_sol r = None /\ r_lb r = IMIN).
  Proof.
    intros Hs.
    exact (C10_sequential_dominance_optimal st_eqb st_eqb_spec cfg key nd coord usev cfg_clean cfg_nocache cfg_dom
             cfg_nodup cfg_width cfg_nocut nv_static nv_some nv_none Hwf D dom_bound B HB guard0
             (strictly_admissible_undominated pb nv_static nv_some nv_none key nd coord usev Hs)).
  Qed.

  (* enabling the checker does not change the answer *)
  Theorem C10_dominance_does_not_change_the_answer :
    opt_undominated pb key nd coord usev ->
    exists f0, forall fuel, f0 <= fuel ->
      let r := maximize st_eqb cfg fuel None in
      let r0 := maximize st_eqb (without_rule cfg) fuel None in
      r_value r = r_value r0 /\ r_value r = opt_enum pb /\ r_lb r = r_lb r0 /\
      r_exact r = true /\ r_exact r0 = true /\ r_crash r = false /\ r_crash r0 = false /\
      r_outoffuel r = false /\ r_outoffuel r0 = false.
  Proof.
    intros Hu.
    destruct (C10_sequential_dominance_optimal st_eqb st_eqb_spec cfg key nd coord usev cfg_clean cfg_nocache cfg_dom
                cfg_nodup cfg_width cfg_nocut nv_static nv_some nv_none Hwf D dom_bound B HB guard0 Hu) as [f1 H1].
    destruct (C01_sequential_optimal st_eqb st_eqb_spec (without_rule cfg) cfg_clean cfg_nocache eq_refl cfg_nodup cfg_width
                nv_static nv_some nv_none Hwf D dom_bound B HB guard0 cfg_nocut) as [f2 H2].
    exists (Nat.max f1 f2). intros fuel Hfuel.
    destruct (H1 fuel ltac:(lia)) as (A1 & A2 & A3 & A4 & A5 & A6).
    destruct (H2 fuel ltac:(lia)) as (B1 & B2 & B3 & B4 & B5 & B6).
    cbv zeta. change (sc_problem (without_rule cfg)) with pb in B4, B5, B6.
    split; [rewrite A4, B4; reflexivity|]. split; [exact A4|]. split; [|auto 10].
    destruct (opt_enum pb) as [v|] eqn:Eo.
    - destruct (A5 v eq_refl) as (E1 & _). destruct (B5 v eq_refl) as (E2 & _). congruence.
    - destruct (A6 eq_refl) as [_ E1]. destruct (B6 eq_refl) as [_ E2]. congruence.
  Qed.
End C10.

(* ================================================================== 12. non-vacuity: the table family *)
Section TableDom.
  Variable ti : tinst.
  Variable C : Z.
  Hypothesis Hwf : t_wf ti C.
  Variable flv : flavour.
  Hypothesis Hflv : flv = CleanLEL \/ flv = CleanFC.
  Variable width : nat.
  Hypothesis Hwidth : (1 <= width)%nat.
  Hypothesis Hkind : t_domkind ti = 1%Z.
  Local Notation cfg := (tb_sconfig ti flv false false true width 0).

  Lemma table_cfg_dom : sc_domrule cfg = Some (t_key_of ti, t_ncoord ti, t_coord ti, t_usevalue ti).
  Proof. cbn [tb_sconfig sc_domrule]. unfold t_domrule. rewrite Hkind. reflexivity. Qed.

  Theorem C10_table_instances :
    check_undominated (t_problem ti) (t_key_of ti) (t_ncoord ti) (t_coord ti) (t_usevalue ti) = true ->
    exists f0, forall fuel, (f0 <= fuel)%nat ->
      let r := maximize tstate_eqb cfg fuel None in
      r_crash r = false /\ r_outoffuel r = false /\ r_exact r = true /\ r_value r = opt_enum (t_problem ti) /\
      (forall v, opt_enum (t_problem ti) = Some v ->
         r_lb r = v /\ r_ub r = v /\
         exists sol, r_sol r = Some (sort_by dec_var_cmp sol) /\ MddProgress.feasible (t_problem ti) sol v) /\
      (opt_enum (t_problem ti) = None -> r_sol r = None /\ r_lb r = IMIN).
  Proof.
    intros Hchk.
    destruct (table_premises ti C Hwf flv Hflv width Hwidth 0%nat)
      as (P1 & P2 & P3 & P4 & P5 & P6 & P7 & P8 & P9 & P10 & P11 & P12 & P13).
    exact (C10_sequential_dominance_optimal tstate_eqb P1 cfg (t_key_of ti) (t_ncoord ti) (t_coord ti) (t_usevalue ti)
             P2 P3 table_cfg_dom P5 P6 eq_refl P7 P8 P9 P10 (length (t_trans ti)) P11 (tB ti C) P12 P13
             (check_undominated_sound (t_problem ti) P7 P9 (t_key_of ti) (t_ncoord ti) (t_coord ti) (t_usevalue ti) Hchk)).
  Qed.
End TableDom.

(* a 3-variable instance on which the rule prunes: base states 1 (value 5, value-to-go 3) and 2 (value 2, value-to-go 1)
   of depth 1 have the same key; 1 dominates 2, the node of 2 is dropped and its child 5 is never created: the root's
   restricted diagram of width 2 is exact (one compilation instead of two).  The rule is the generators' exact rule
   (coordinate 0 = value-to-go, with values) and the theorem applies: the optimum 8 is returned. *)
Definition exd_ti : tinst := {|
  t_nvars := 3; t_nbase := 7; t_init := 0; t_initval := 0; t_slack := 0; t_rubkind := 0; t_domkind := 1;
  t_usevalue := true; t_ncoord := 1; t_order := [0; 1; 2]%nat;
  t_trans := [ (0%nat, 0, 0, 1, 5); (0%nat, 0, 1, 2, 2);
               (1%nat, 1, 0, 3, 0); (1%nat, 1, 1, 4, 1); (1%nat, 2, 0, 5, 0);
               (2%nat, 3, 0, 6, 3); (2%nat, 4, 0, 6, 0); (2%nat, 5, 0, 6, 1) ];
  t_notimp := []; t_rub := [];
  t_key := [-1; 1; 1; 2; 2; 2; -1];
  t_coords := [[0];[3];[1];[3];[0];[1];[0]];
  t_mergekind := 0; t_pos := []; t_up := [] |}%Z.

Example exd_wf : t_wf exd_ti 5.
Proof. apply t_wfb_spec. vm_compute. reflexivity. Qed.

Example exd_undominated :
  check_undominated (t_problem exd_ti) (t_key_of exd_ti) (t_ncoord exd_ti) (t_coord exd_ti) (t_usevalue exd_ti) = true.
Proof. vm_compute. reflexivity. Qed.

Example exd_C10 :
  exists f0, forall fuel, (f0 <= fuel)%nat ->
    let r := maximize tstate_eqb (tb_sconfig exd_ti CleanLEL false false true 2 0) fuel None in
    r_crash r = false /\ r_outoffuel r = false /\ r_exact r = true /\ r_value r = Some 8%Z.
Proof.
  destruct (C10_table_instances exd_ti 5 exd_wf CleanLEL (or_introl eq_refl) 2 (le_S 1 1 (le_n 1)) eq_refl exd_undominated)
    as [f0 Hf].
  exists f0. intros fuel Hfuel. destruct (Hf fuel Hfuel) as (A1 & A2 & A3 & A4 & _).
  cbv zeta. split; [exact A1|]. split; [exact A2|]. split; [exact A3|]. rewrite A4. vm_compute. reflexivity.
Qed.

(* the rule does prune: same optimum, one compilation instead of two *)
Example exd_prunes :
  (let r := maximize tstate_eqb (tb_sconfig exd_ti CleanLEL false false true 2 0) 50 None in
   (r_value r, r_exact r, r_explored r, r_compiles r)) = (Some 8%Z, true, 1%nat, 1%nat) /\
  (let r := maximize tstate_eqb (tb_sconfig exd_ti CleanLEL false false false 2 0) 50 None in
   (r_value r, r_exact r, r_explored r, r_compiles r)) = (Some 8%Z, true, 1%nat, 2%nat).
Proof. split; vm_compute; reflexivity. Qed.

(* the refuted instance does not satisfy the premise, as it must *)
Example cyc_not_undominated :
  check_undominated (t_problem cyc_ti) (t_key_of cyc_ti) (t_ncoord cyc_ti) (t_coord cyc_ti) (t_usevalue cyc_ti) = false.
Proof. vm_compute. reflexivity. Qed.

(* ------------------------------------------------------------------ assumptions *)
Print Assumptions C10_refuted_for_admissible_rules.
Print Assumptions C10_refuted_without_values.
Print Assumptions dom_maximize_correct.
Print Assumptions KD_all.
Print Assumptions C10_sequential_dominance_optimal.
Print Assumptions C10_sequential_dominance_optimal_strict.
Print Assumptions C10_dominance_does_not_change_the_answer.
Print Assumptions C10_table_instances.
Print Assumptions exd_C10.
Print Assumptions exd_prunes.
