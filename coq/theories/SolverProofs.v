(* SolverProofs.v — assume-guarantee correctness of the sequential branch-and-bound solver model
   (Solver.v, transliteration of ddo/src/implementation/solver/sequential.rs).

   IF every diagram compilation satisfies the diagram-level contracts K0..K5 (to be proved about
   Mdd.compile, independently of the solver), THEN `maximize` terminates (explicit fuel bound
   fuel0 = S ((S M) ^ nb_vars)), does not crash, reports is_exact = true, and its value is the true
   optimum (None exactly when infeasible): property C01 (seq_solver_correct); with a feasible warm-start
   primal the result is still the optimum: property C14 (seq_solver_correct_primal).
   Both are instances of maximize_correct; seq_solver_partial_correct is the fuel-independent variant.

   Configuration covered (config_ok): no cache, no dominance rule, no cutoff, SimpleFringe (abstract
   priority queue [pq_pop]; only "pop returns an element, the rest is the complement" is used, never the
   maximality of the popped element).  Only the cache / fringe components of config_ok are used by the
   solver-level argument; the other two matter for whoever discharges K0..K5.

   Section hypotheses that turned out NOT to be needed (best_le_opt, K3_le) are kept for documentation;
   Coq drops them from the closed statements.  One hypothesis had to be ADDED to the suggested list:
   good / best must not depend on the sp_ub field (good_set_ub, best_set_ub), because enqueue_cutset
   re-labels every cut-set node with ub := min(node_ub, ub) before pushing it. *)
Require Import DDO.Base DDO.Fringe DDO.DP DDO.Cache DDO.Dom DDO.Mdd DDO.Solver.
From Coq Require Import Permutation Arith.
Open Scope Z_scope.

(* ------------------------------------------------------------------ generic list facts *)
Section ListFacts.
  Context {A : Type}.

  Fixpoint sumf (f : A -> nat) (l : list A) : nat :=
    match l with [] => O | x :: l' => (f x + sumf f l')%nat end.

  Lemma sumf_perm f l l' : Permutation l l' -> sumf f l = sumf f l'.
  Proof. induction 1; simpl; lia. Qed.

  Lemma sumf_le_const f k l : (forall x, In x l -> (f x <= k)%nat) -> (sumf f l <= length l * k)%nat.
  Proof.
    induction l as [|x l IH]; simpl; intros H; [lia|].
    assert (Hx : (f x <= k)%nat) by (apply H; auto).
    assert (Hl : (sumf f l <= length l * k)%nat) by (apply IH; intros; apply H; auto). lia.
  Qed.

  Definition cntp (p : A -> bool) (l : list A) : nat := sumf (fun x => if p x then 1%nat else O) l.
End ListFacts.

(* ------------------------------------------------------------------ one-line lemma on set_primal *)
Lemma set_primal_strict {St} (s : @sstate St) (v : Z) (sol : list decision) :
  (v > s_lb s -> s_lb (set_primal s v sol) = v /\ s_sol (set_primal s v sol) = Some sol) /\
  (~ v > s_lb s -> set_primal s v sol = s).
Proof.
  unfold set_primal. split; intros H.
  - destruct (v >? s_lb s) eqn:E; [split; reflexivity|].
    rewrite Z.gtb_ltb in E. apply Z.ltb_ge in E. lia.
  - destruct (v >? s_lb s) eqn:E; [|reflexivity].
    rewrite Z.gtb_ltb in E. apply Z.ltb_lt in E. lia.
Qed.

Lemma dd_best_exact_none_iff {St} (inp : @cinput St) (m : @mdd St) :
  dd_best_exact_value inp m = None <-> dd_best_exact_solution inp m = None.
Proof.
  unfold dd_best_exact_value, dd_best_exact_solution. destruct (m_best_exact m); simpl; split; congruence.
Qed.

Section SolverProofs.
  Context {St : Type}.
  Variable st_eqb : St -> St -> bool.
  Variable cfg : @sconfig St.
  Let pb := sc_problem cfg.
  Let N := nb_vars pb.

  (* ---------------- configuration *)
  Definition config_ok : Prop :=
    sc_use_cache cfg = false /\ sc_domrule cfg = None /\ sc_cutoff cfg = 0%nat /\ sc_nodup cfg = false.
  Hypothesis cfg_ok : config_ok.
  Lemma no_cache : sc_use_cache cfg = false. Proof. apply cfg_ok. Qed.
  Lemma simple_fringe : sc_nodup cfg = false. Proof. apply cfg_ok. Qed.

  (* ---------------- abstract semantics *)
  Variable good : @subproblem St -> Prop.
  Variable best : @subproblem St -> option Z.
  Variable feasible : list decision -> Z -> Prop.
  Definition OPT : option Z := best (root_node cfg).

  Definition set_ub (c : @subproblem St) (u : Z) : @subproblem St :=
    {| sp_state := sp_state c; sp_value := sp_value c; sp_path := sp_path c; sp_ub := u; sp_depth := sp_depth c |}.

  Hypothesis good_root : good (root_node cfg).
  Hypothesis feasible_le_opt : forall sol v, feasible sol v -> exists o, OPT = Some o /\ v <= o.
  Hypothesis opt_in_isize : forall o, OPT = Some o -> IMIN < o <= IMAX.
  Hypothesis best_le_opt : forall n o, good n -> best n = Some o -> exists o', OPT = Some o' /\ o <= o'.
  (* the meaning of a sub-problem does not depend on the upper bound attached to it
     (enqueue_cutset re-labels each cut-set node with min(node_ub, ub)) *)
  Hypothesis good_set_ub : forall c u, good c -> good (set_ub c u).
  Hypothesis best_set_ub : forall c u, best (set_ub c u) = best c.

  (* ---------------- diagram contracts *)
  Variable M : nat.

  Definition dd_ct (ct : comptype) : Prop := ct = Restricted \/ ct = Relaxed.

  Hypothesis K0 : forall ct n lb c ds polls m out,
    dd_ct ct -> good n -> (sp_depth n <= N)%nat ->
    compile st_eqb (mk_input cfg ct n lb) 0 0 c ds polls = (m, out) ->
    out = Compiled /\ m_crash m = false.
  Hypothesis K1 : forall ct n lb c ds polls m out,
    dd_ct ct -> good n -> (sp_depth n <= N)%nat ->
    compile st_eqb (mk_input cfg ct n lb) 0 0 c ds polls = (m, out) ->
    forall v, dd_best_exact_value (mk_input cfg ct n lb) m = Some v ->
    exists sol, dd_best_exact_solution (mk_input cfg ct n lb) m = Some sol /\ feasible sol v.
  Hypothesis K2 : forall ct n lb c ds polls m out,
    dd_ct ct -> good n -> (sp_depth n <= N)%nat ->
    compile st_eqb (mk_input cfg ct n lb) 0 0 c ds polls = (m, out) ->
    dd_is_exact m = true ->
    forall o, best n = Some o -> o > lb -> dd_best_exact_value (mk_input cfg ct n lb) m = Some o.
  Hypothesis K3_good : forall n lb c ds polls m out,
    good n -> (sp_depth n <= N)%nat ->
    compile st_eqb (mk_input cfg Relaxed n lb) 0 0 c ds polls = (m, out) ->
    dd_is_exact m = false ->
    forall x, In x (drain_cutset (mk_input cfg Relaxed n lb) m) -> good x.
  Hypothesis K3_depth : forall n lb c ds polls m out,
    good n -> (sp_depth n <= N)%nat ->
    compile st_eqb (mk_input cfg Relaxed n lb) 0 0 c ds polls = (m, out) ->
    dd_is_exact m = false ->
    forall x, In x (drain_cutset (mk_input cfg Relaxed n lb) m) -> (sp_depth n < sp_depth x <= N)%nat.
  Hypothesis K3_le : forall n lb c ds polls m out,
    good n -> (sp_depth n <= N)%nat ->
    compile st_eqb (mk_input cfg Relaxed n lb) 0 0 c ds polls = (m, out) ->
    dd_is_exact m = false ->
    forall x, In x (drain_cutset (mk_input cfg Relaxed n lb) m) ->
    forall o, best x = Some o -> exists o', best n = Some o' /\ o <= o'.
  Hypothesis K3_ub : forall n lb c ds polls m out,
    good n -> (sp_depth n <= N)%nat ->
    compile st_eqb (mk_input cfg Relaxed n lb) 0 0 c ds polls = (m, out) ->
    dd_is_exact m = false ->
    forall x, In x (drain_cutset (mk_input cfg Relaxed n lb) m) ->
    forall o, best x = Some o -> o > lb -> o <= sp_ub x.
  Hypothesis K4 : forall n lb c ds polls m out,
    good n -> (sp_depth n <= N)%nat ->
    compile st_eqb (mk_input cfg Relaxed n lb) 0 0 c ds polls = (m, out) ->
    dd_is_exact m = false ->
    forall o, best n = Some o -> o > lb ->
    (forall e, dd_best_exact_value (mk_input cfg Relaxed n lb) m = Some e -> e < o) ->
    exists x, In x (drain_cutset (mk_input cfg Relaxed n lb) m) /\ best x = Some o.
  Hypothesis K5 : forall n lb c ds polls m out,
    good n -> (sp_depth n <= N)%nat ->
    compile st_eqb (mk_input cfg Relaxed n lb) 0 0 c ds polls = (m, out) ->
    dd_is_exact m = false ->
    (length (drain_cutset (mk_input cfg Relaxed n lb) m) <= M)%nat.

  (* ------------------------------------------------------------------ the abstract priority queue *)
  Lemma pq_pop_perm l x rest : pq_pop cfg l = Some (x, rest) -> Permutation l (x :: rest).
  Proof.
    revert x rest; induction l as [|y l IH]; simpl; intros x rest H; [discriminate|].
    destruct (pq_pop cfg l) as [[z r]|] eqn:E.
    - destruct (is_gt _); inversion H; subst.
      + apply Permutation_refl.
      + eapply Permutation_trans; [apply perm_skip; apply IH; reflexivity|]. apply perm_swap.
    - inversion H; subst. destruct l; [apply Permutation_refl|].
      simpl in E. destruct (pq_pop cfg l) as [[? ?]|]; [destruct (is_gt _)|]; discriminate.
  Qed.

  Lemma pq_pop_none l : pq_pop cfg l = None -> l = [].
  Proof.
    destruct l as [|y l]; simpl; auto.
    destruct (pq_pop cfg l) as [[? ?]|]; [destruct (is_gt _)|]; discriminate.
  Qed.

  (* ------------------------------------------------------------------ fringe in SimpleFringe mode *)
  Lemma fr_len_simple s : fr_len cfg s = length (s_simple s).
  Proof. unfold fr_len. rewrite simple_fringe. reflexivity. Qed.

  Lemma fr_push_simple s n :
    fr_push st_eqb cfg s n =
    upd_s s (n :: s_simple s) (s_nodup s) (s_explored s) (s_open s) (s_fal s) (s_lb s) (s_ub s) (s_sol s) (s_abort s)
          (s_cache s) (s_dom s) (s_polls s) (s_crash s) (s_tie s) (s_compiles s).
  Proof. unfold fr_push. rewrite simple_fringe. reflexivity. Qed.

  Lemma fr_pop_simple s :
    fr_pop st_eqb cfg s =
    match pq_pop cfg (s_simple s) with
    | None => (s, None)
    | Some (x, rest) => (upd_s s rest (s_nodup s) (s_explored s) (s_open s) (s_fal s) (s_lb s) (s_ub s) (s_sol s)
                         (s_abort s) (s_cache s) (s_dom s) (s_polls s) (s_crash s) (s_tie s) (s_compiles s), Some x)
    end.
  Proof. unfold fr_pop. rewrite simple_fringe. reflexivity. Qed.

  (* ------------------------------------------------------------------ the observable part of a state *)
  Definition view (s : @sstate St) :=
    (s_simple s, s_open s, s_lb s, s_sol s, s_abort s, s_crash s).

  Lemma view_inv s s' : view s' = view s ->
    s_simple s' = s_simple s /\ s_open s' = s_open s /\ s_lb s' = s_lb s /\ s_sol s' = s_sol s /\
    s_abort s' = s_abort s /\ s_crash s' = s_crash s.
  Proof. unfold view; intros H; inversion H; auto 10. Qed.

  (* weights for the termination measure *)
  Definition wt (n : @subproblem St) : nat := (S M) ^ (N - sp_depth n).
  Definition Phi (l : list (@subproblem St)) : nat := sumf wt l.
  Definition cnt (d : nat) (l : list (@subproblem St)) : nat := cntp (fun n => Nat.eqb (sp_depth n) d) l.

  Lemma cnt_perm d l l' : Permutation l l' -> cnt d l = cnt d l'.
  Proof. apply sumf_perm. Qed.
  Lemma Phi_perm l l' : Permutation l l' -> Phi l = Phi l'.
  Proof. apply sumf_perm. Qed.
  Lemma cnt_cons_same x l : cnt (sp_depth x) (x :: l) = S (cnt (sp_depth x) l).
  Proof. unfold cnt, cntp; simpl. rewrite Nat.eqb_refl. reflexivity. Qed.
  Lemma cnt_cons_other d x l : sp_depth x <> d -> cnt d (x :: l) = cnt d l.
  Proof. intros H. unfold cnt, cntp; simpl. apply Nat.eqb_neq in H. rewrite H. reflexivity. Qed.
  Lemma wt_pos n : (1 <= wt n)%nat.
  Proof. unfold wt. pose proof (Nat.pow_nonzero (S M) (N - sp_depth n)). lia. Qed.

  (* ------------------------------------------------------------------ invariant *)
  Definition Incumbent (lb : Z) (sol : option (list decision)) : Prop :=
    IMIN <= lb /\ ((sol = None /\ lb = IMIN) \/ exists l, sol = Some l /\ feasible l lb).
  Definition FringeOK (l : list (@subproblem St)) : Prop :=
    forall n, In n l -> good n /\ (sp_depth n <= N)%nat.
  Definition OpenOK (op : list nat) (l : list (@subproblem St)) : Prop :=
    forall d, (d <= N)%nat -> nth_error op d = Some (cnt d l).

  Definition Core (s : @sstate St) : Prop :=
    s_crash s = false /\ s_abort s = false /\ Incumbent (s_lb s) (s_sol s) /\
    FringeOK (s_simple s) /\ OpenOK (s_open s) (s_simple s).

  (* completeness: the optimum is either already matched by the incumbent, or it is the optimum of some
     open sub-problem (of the fringe, or of [extra] = the node being processed) whose ub does not hide it *)
  Definition Compl (s : @sstate St) (extra : list (@subproblem St)) : Prop :=
    forall o, OPT = Some o ->
      o <= s_lb s \/ exists n, (In n extra \/ In n (s_simple s)) /\ best n = Some o /\ o <= sp_ub n.

  Definition Inv (s : @sstate St) : Prop := Core s /\ Compl s [].

  Lemma Core_view s s' : view s' = view s -> Core s -> Core s'.
  Proof.
    intros H. apply view_inv in H. destruct H as (H1 & H2 & H3 & H4 & H5 & H6).
    unfold Core. rewrite H1, H2, H3, H4, H5, H6. auto.
  Qed.

  (* ------------------------------------------------------------------ get_workload *)
  Lemma clean_cache_loop_view fuel s :
    (forall d, (d <= N)%nat -> exists k, nth_error (s_open s) d = Some k) ->
    view (clean_cache_loop cfg fuel s) = view s.
  Proof.
    revert s; induction fuel as [|fuel IH]; intros s H; cbn [clean_cache_loop]; [reflexivity|].
    destruct (Nat.ltb (s_fal s) (nb_vars (sc_problem cfg))) eqn:E; [|reflexivity].
    apply Nat.ltb_lt in E. destruct (H (s_fal s)) as [k Hk]; [unfold N, pb; lia|].
    rewrite Hk. destruct k; [|reflexivity]. rewrite no_cache. rewrite IH; [reflexivity|]. exact H.
  Qed.

  Lemma get_workload_spec s : Core s ->
    (s_simple s = [] /\ exists s1, get_workload st_eqb cfg s = (s1, WComplete) /\
       s_simple s1 = [] /\ s_crash s1 = false /\ s_abort s1 = false /\ s_lb s1 = s_lb s /\
       s_sol s1 = s_sol s /\ s_ub s1 = s_lb s)
    \/ (exists x rest s1, get_workload st_eqb cfg s = (s1, WItem x) /\ Permutation (s_simple s) (x :: rest) /\
         s_simple s1 = rest /\ Core s1 /\ s_lb s1 = s_lb s).
  Proof.
    intros (Hcr & Hab & Hinc & Hfr & Hop).
    unfold get_workload.
    set (sc := clean_cache_loop cfg (S (nb_vars (sc_problem cfg))) s).
    assert (Hv : view sc = view s).
    { apply clean_cache_loop_view. intros d Hd. eexists. apply Hop. exact Hd. }
    apply view_inv in Hv. destruct Hv as (V1 & V2 & V3 & V4 & V5 & V6).
    rewrite fr_len_simple, V1.
    destruct (s_simple s) as [|y l] eqn:El.
    - left. split; [reflexivity|]. eexists. split; [reflexivity|].
      cbn [s_simple s_crash s_abort s_lb s_sol s_ub upd_s]. rewrite V3, V4, V5, V6. auto 10.
    - right. cbn [length Nat.eqb]. rewrite V5, Hab. rewrite fr_pop_simple, V1.
      destruct (pq_pop cfg (y :: l)) as [[x rest]|] eqn:Ep; [|apply pq_pop_none in Ep; discriminate].
      pose proof (pq_pop_perm _ _ _ Ep) as Hperm.
      assert (Hx : In x (y :: l)). { eapply Permutation_in; [apply Permutation_sym; exact Hperm|]. left; reflexivity. }
      destruct (Hfr x Hx) as [Hgx Hdx].
      cbn [s_open upd_s]. rewrite V2, (Hop _ Hdx).
      rewrite (cnt_perm _ _ _ Hperm), cnt_cons_same.
      exists x, rest. eexists. split; [reflexivity|]. split; [exact Hperm|].
      cbn [s_simple s_lb upd_s]. split; [reflexivity|]. split; [|exact V3].
      unfold Core. cbn [s_simple s_crash s_abort s_lb s_sol s_open upd_s].
      rewrite ?V2, ?V3, ?V4, ?V5, ?V6. split; [exact Hcr|]. split; [exact Hab|]. split; [exact Hinc|]. split.
      + intros n Hn. apply Hfr. eapply Permutation_in; [apply Permutation_sym; exact Hperm|]. right; exact Hn.
      + intros d Hd. destruct (Nat.eq_dec (sp_depth x) d) as [Heq|Hne].
        * subst d. erewrite nth_error_upd_nth_same; [reflexivity|]. rewrite (Hop _ Hd).
          rewrite (cnt_perm _ _ _ Hperm), cnt_cons_same. reflexivity.
        * rewrite nth_error_upd_nth_other by exact Hne. rewrite (Hop _ Hd).
          rewrite (cnt_perm _ _ _ Hperm), cnt_cons_other by exact Hne. reflexivity.
  Qed.

  (* ------------------------------------------------------------------ compilation + incumbent update *)
  Lemma run_compile_spec s ct n s' inp m o :
    run_compile st_eqb cfg s ct n = (s', inp, m, o) ->
    inp = mk_input cfg ct n (s_lb s) /\
    compile st_eqb (mk_input cfg ct n (s_lb s)) 0 0 (s_cache s) (s_dom s) (s_polls s) = (m, o) /\
    s_simple s' = s_simple s /\ s_open s' = s_open s /\ s_lb s' = s_lb s /\ s_sol s' = s_sol s /\
    s_abort s' = s_abort s /\ s_crash s' = (s_crash s || m_crash m)%bool.
  Proof.
    unfold run_compile.
    destruct (compile st_eqb (mk_input cfg ct n (s_lb s)) 0 0 (s_cache s) (s_dom s) (s_polls s)) as [m0 o0] eqn:E.
    intros H; inversion H; subst. cbn [s_simple s_open s_lb s_sol s_abort s_crash upd_s]. auto 10.
  Qed.

  Lemma mub_spec (s : @sstate St) inp m : IMIN <= s_lb s ->
    let s' := maybe_update_best s inp m in
    s_simple s' = s_simple s /\ s_open s' = s_open s /\ s_abort s' = s_abort s /\ s_crash s' = s_crash s /\
    ((s_lb s' = s_lb s /\ s_sol s' = s_sol s /\ (forall e, dd_best_exact_value inp m = Some e -> e <= s_lb s)) \/
     (exists v, dd_best_exact_value inp m = Some v /\ v > s_lb s /\ s_lb s' = v /\
                s_sol s' = dd_best_exact_solution inp m)).
  Proof.
    intros Hlb. unfold maybe_update_best.
    destruct (opt_default IMIN (dd_best_exact_value inp m) >? s_lb s) eqn:E.
    - cbn [s_simple s_open s_lb s_sol s_abort s_crash upd_s]. repeat (split; [reflexivity|]).
      right. rewrite Z.gtb_ltb in E. apply Z.ltb_lt in E.
      destruct (dd_best_exact_value inp m) as [v|]; cbn [opt_default] in E |- *; [|lia].
      exists v. repeat split; auto. lia.
    - repeat (split; [reflexivity|]). left. repeat (split; [reflexivity|]).
      intros e He. rewrite He in E. cbn [opt_default] in E.
      rewrite Z.gtb_ltb in E. apply Z.ltb_ge in E. exact E.
  Qed.

  Lemma phase s ct n s' inp m o :
    Core s -> dd_ct ct -> good n -> (sp_depth n <= N)%nat ->
    run_compile st_eqb cfg s ct n = (s', inp, m, o) ->
    o = Compiled /\ inp = mk_input cfg ct n (s_lb s) /\
    compile st_eqb (mk_input cfg ct n (s_lb s)) 0 0 (s_cache s) (s_dom s) (s_polls s) = (m, Compiled) /\
    Core (maybe_update_best s' inp m) /\ s_simple (maybe_update_best s' inp m) = s_simple s /\
    s_lb s <= s_lb (maybe_update_best s' inp m) /\
    (forall e, dd_best_exact_value inp m = Some e -> e <= s_lb (maybe_update_best s' inp m)).
  Proof.
    intros (Hcr & Hab & Hinc & Hfr & Hop) Hct Hg Hd Hrc.
    apply run_compile_spec in Hrc. destruct Hrc as (Hinp & Hc & R1 & R2 & R3 & R4 & R5 & R6).
    destruct (K0 _ _ _ _ _ _ _ _ Hct Hg Hd Hc) as [Ho Hmc]. subst o.
    assert (Hlb' : IMIN <= s_lb s') by (rewrite R3; apply Hinc).
    pose proof (mub_spec s' inp m Hlb') as Hm. cbv zeta in Hm.
    destruct Hm as (U1 & U2 & U3 & U4 & U5).
    split; [reflexivity|]. split; [exact Hinp|]. split; [exact Hc|].
    assert (Hcore_rest : s_crash (maybe_update_best s' inp m) = false /\ s_abort (maybe_update_best s' inp m) = false /\
              FringeOK (s_simple (maybe_update_best s' inp m)) /\
              OpenOK (s_open (maybe_update_best s' inp m)) (s_simple (maybe_update_best s' inp m))).
    { rewrite U4, U3, U2, U1, R6, R5, R2, R1, Hcr, Hmc, Hab. auto. }
    destruct Hcore_rest as (C1 & C2 & C4 & C5).
    destruct U5 as [(L1 & L2 & L3) | (v & Hv & Hgt & L1 & L2)].
    - split; [|split; [rewrite U1, R1; reflexivity|split; [rewrite L1, R3; lia|rewrite L1; exact L3]]].
      unfold Core. rewrite L1, L2, R3, R4. auto.
    - subst inp. destruct (K1 _ _ _ _ _ _ _ _ Hct Hg Hd Hc v Hv) as (sol & Hsol & Hfeas).
      split; [|split; [rewrite U1, R1; reflexivity|split; [rewrite L1; rewrite R3 in Hgt; lia|]]].
      + unfold Core. split; [exact C1|]. split; [exact C2|]. split; [|split; [exact C4|exact C5]].
        rewrite L1, L2. split; [rewrite R3 in Hgt; destruct Hinc; lia|].
        right. exists sol. split; [exact Hsol|exact Hfeas].
      + intros e He. rewrite Hv in He. assert (e = v) by congruence. rewrite L1. lia.
  Qed.

  (* ------------------------------------------------------------------ enqueue_cutset *)
  Definition enq_step (best_lb ub : Z) (s : @sstate St) (c : @subproblem St) : @sstate St :=
    let cub := Z.min ub (sp_ub c) in
    if cub >? best_lb then
      let c' := {| sp_state := sp_state c; sp_value := sp_value c; sp_path := sp_path c; sp_ub := cub; sp_depth := sp_depth c |} in
      let before := fr_len cfg s in
      let s := fr_push st_eqb cfg s c' in
      let after := fr_len cfg s in
      match nth_error (s_open s) (sp_depth c) with
      | None => crashed s
      | Some _ =>
          upd_s s (s_simple s) (s_nodup s) (s_explored s) (upd_nth (sp_depth c) (fun o => o + (after - before))%nat (s_open s))
                (s_fal s) (s_lb s) (s_ub s) (s_sol s) (s_abort s) (s_cache s) (s_dom s) (s_polls s) (s_crash s) (s_tie s) (s_compiles s)
      end
    else s.

  Lemma enqueue_cutset_fold s inp m ub :
    enqueue_cutset st_eqb cfg s inp m ub = fold_left (enq_step (s_lb s) ub) (drain_cutset inp m) s.
  Proof. reflexivity. Qed.

  Lemma enq_step_spec lb ub s c :
    (sp_depth c <= N)%nat -> OpenOK (s_open s) (s_simple s) ->
    s_lb (enq_step lb ub s c) = s_lb s /\ s_sol (enq_step lb ub s c) = s_sol s /\
    s_abort (enq_step lb ub s c) = s_abort s /\ s_crash (enq_step lb ub s c) = s_crash s /\
    s_simple (enq_step lb ub s c) =
      (if Z.min ub (sp_ub c) >? lb then [set_ub c (Z.min ub (sp_ub c))] else []) ++ s_simple s /\
    OpenOK (s_open (enq_step lb ub s c)) (s_simple (enq_step lb ub s c)).
  Proof.
    intros Hd Hop. unfold enq_step.
    destruct (Z.min ub (sp_ub c) >? lb) eqn:E; [|cbn [app]; auto 10].
    rewrite fr_push_simple, !fr_len_simple. cbn [s_simple s_open s_lb s_sol s_abort s_crash upd_s length].
    rewrite (Hop _ Hd). cbn [s_simple s_open s_lb s_sol s_abort s_crash upd_s app].
    repeat (split; [reflexivity|]).
    replace (S (length (s_simple s)) - length (s_simple s))%nat with 1%nat by lia.
    fold (set_ub c (Z.min ub (sp_ub c))).
    intros d Hd'. destruct (Nat.eq_dec (sp_depth c) d) as [Heq|Hne].
    - subst d. erewrite nth_error_upd_nth_same; [|apply Hop; exact Hd].
      change (sp_depth c) with (sp_depth (set_ub c (Z.min ub (sp_ub c)))) at 2.
      rewrite cnt_cons_same. f_equal. cbn [set_ub sp_depth]. lia.
    - rewrite nth_error_upd_nth_other by exact Hne. rewrite (Hop _ Hd').
      rewrite cnt_cons_other; [reflexivity|exact Hne].
  Qed.

  Lemma enq_fold_spec lb ub cs : forall s,
    (forall c, In c cs -> (sp_depth c <= N)%nat) -> OpenOK (s_open s) (s_simple s) ->
    s_lb (fold_left (enq_step lb ub) cs s) = s_lb s /\ s_sol (fold_left (enq_step lb ub) cs s) = s_sol s /\
    s_abort (fold_left (enq_step lb ub) cs s) = s_abort s /\ s_crash (fold_left (enq_step lb ub) cs s) = s_crash s /\
    OpenOK (s_open (fold_left (enq_step lb ub) cs s)) (s_simple (fold_left (enq_step lb ub) cs s)) /\
    (forall x, In x (s_simple (fold_left (enq_step lb ub) cs s)) <->
       In x (s_simple s) \/ exists c, In c cs /\ Z.min ub (sp_ub c) > lb /\ x = set_ub c (Z.min ub (sp_ub c))) /\
    (Phi (s_simple (fold_left (enq_step lb ub) cs s)) <= Phi (s_simple s) + sumf wt cs)%nat.
  Proof.
    induction cs as [|c cs IH]; intros s Hd Hop; cbn [fold_left].
    - repeat (split; [reflexivity|]). split; [exact Hop|]. split.
      + intros x; split; [auto|]. intros [H|(c & [] & _)]; exact H.
      + simpl. lia.
    - assert (Hdc : (sp_depth c <= N)%nat) by (apply Hd; left; reflexivity).
      destruct (enq_step_spec lb ub s c Hdc Hop) as (E1 & E2 & E3 & E4 & E5 & E6).
      destruct (IH (enq_step lb ub s c)) as (F1 & F2 & F3 & F4 & F5 & F6 & F7);
        [intros c' Hc'; apply Hd; right; exact Hc'|exact E6|].
      rewrite F1, F2, F3, F4, E1, E2, E3, E4. repeat (split; [reflexivity|]). split; [exact F5|]. split.
      + intros x. rewrite F6, E5. destruct (Z.min ub (sp_ub c) >? lb) eqn:E.
        * rewrite Z.gtb_ltb in E. apply Z.ltb_lt in E. cbn [app In]. split.
          -- intros [[Hx|Hx]|(c' & Hc' & Hgt & Hx)].
             ++ right. exists c. split; [left; reflexivity|]. split; [lia|auto].
             ++ left; exact Hx.
             ++ right. exists c'. split; [right; exact Hc'|auto].
          -- intros [Hx|(c' & [Hc'|Hc'] & Hgt & Hx)].
             ++ left; right; exact Hx.
             ++ subst c'. left; left; auto.
             ++ right. exists c'. auto.
        * rewrite Z.gtb_ltb in E. apply Z.ltb_ge in E. cbn [app In]. split.
          -- intros [Hx|(c' & Hc' & Hgt & Hx)]; [left; exact Hx|]. right. exists c'. split; [right; exact Hc'|auto].
          -- intros [Hx|(c' & [Hc'|Hc'] & Hgt & Hx)]; [left; exact Hx| subst c'; lia |]. right. exists c'. auto.
      + eapply Nat.le_trans; [exact F7|]. rewrite E5. cbn [sumf].
        destruct (Z.min ub (sp_ub c) >? lb); cbn [app]; unfold Phi; cbn [sumf].
        * change (wt (set_ub c (Z.min ub (sp_ub c)))) with (wt c). lia.
        * lia.
  Qed.

  (* ------------------------------------------------------------------ process_one_node *)
  Lemma kids_weight n cs : (length cs <= M)%nat ->
    (forall c, In c cs -> (sp_depth n < sp_depth c <= N)%nat) -> (sumf wt cs < wt n)%nat.
  Proof.
    intros Hlen Hd. destruct cs as [|c0 cs'].
    - simpl. pose proof (wt_pos n). lia.
    - assert (Hn : (sp_depth n < N)%nat).
      { pose proof (Hd c0 (or_introl eq_refl)). lia. }
      revert Hlen Hd. generalize (c0 :: cs'). intros cs Hlen Hd.
      set (P := ((S M) ^ (N - S (sp_depth n)))%nat).
      assert (HP : (1 <= P)%nat). { unfold P. pose proof (Nat.pow_nonzero (S M) (N - S (sp_depth n))). lia. }
      assert (Hw : wt n = (S M * P)%nat).
      { unfold wt, P. replace (N - sp_depth n)%nat with (S (N - S (sp_depth n))) by lia.
        rewrite Nat.pow_succ_r'. reflexivity. }
      assert (Hs : (sumf wt cs <= length cs * P)%nat).
      { apply sumf_le_const. intros c Hc. apply Hd in Hc. unfold wt, P.
        apply Nat.pow_le_mono_r; lia. }
      rewrite Hw. assert (length cs * P <= M * P)%nat by (apply Nat.mul_le_mono_r; exact Hlen). lia.
  Qed.

  Lemma compl_close s n sA :
    Compl s [n] -> (forall x, In x (s_simple s) -> In x (s_simple sA)) -> s_lb s <= s_lb sA ->
    (forall o, OPT = Some o -> best n = Some o -> o <= sp_ub n ->
       o <= s_lb sA \/ exists c, In c (s_simple sA) /\ best c = Some o /\ o <= sp_ub c) ->
    Compl sA [].
  Proof.
    intros HC Hsub Hlb Hn o Ho. destruct (HC o Ho) as [Hle|(w & [Hw|Hw] & Hb & Hu)].
    - left. lia.
    - destruct Hw as [Hw|[]]. subst w. destruct (Hn o Ho Hb Hu) as [H|(c & Hc & Hbc & Huc)]; [left; exact H|].
      right. exists c. split; [right; exact Hc|auto].
    - right. exists w. split; [right; apply Hsub; exact Hw|auto].
  Qed.

  Lemma process_spec s n s2 err :
    Core s -> Compl s [n] -> good n -> (sp_depth n <= N)%nat ->
    process_one_node st_eqb cfg s n = (s2, err) ->
    err = false /\ Core s2 /\ Compl s2 [] /\ (Phi (s_simple s2) < Phi (s_simple s) + wt n)%nat.
  Proof.
    intros HCore HCompl Hg Hd. unfold process_one_node.
    destruct (sp_ub n <=? s_lb s) eqn:Eub.
    { intros H; inversion H; subst s2 err. split; [reflexivity|]. split; [exact HCore|]. split.
      - apply (compl_close s n s HCompl); [auto|lia|]. intros o _ _ Hu. left. apply Z.leb_le in Eub. lia.
      - pose proof (wt_pos n). lia. }
    rewrite no_cache.
    destruct (run_compile st_eqb cfg s Restricted n) as [[[sa0 inpa] ma] oa] eqn:Ea.
    destruct (phase _ _ _ _ _ _ _ HCore (or_introl eq_refl) Hg Hd Ea) as (-> & Hinpa & Hca & HCa & Hsa & Hlba & Heva).
    cbv beta iota zeta.
    set (sa := maybe_update_best sa0 inpa ma) in HCa, Hsa, Hlba, Heva |- *.
    destruct (dd_is_exact ma) eqn:Eexa.
    { intros H; inversion H; subst s2 err. split; [reflexivity|]. split; [exact HCa|]. split.
      - apply (compl_close s n sa HCompl); [rewrite Hsa; auto|exact Hlba|]. intros o _ Hb _. left.
        destruct (Z_le_gt_dec o (s_lb s)) as [Hle|Hgt]; [lia|].
        apply Heva. rewrite Hinpa. eapply K2; eauto. left; reflexivity.
      - rewrite Hsa. pose proof (wt_pos n). lia. }
    destruct (run_compile st_eqb cfg sa Relaxed n) as [[[sb0 inpb] mb] ob] eqn:Eb.
    destruct (phase _ _ _ _ _ _ _ HCa (or_intror eq_refl) Hg Hd Eb) as (-> & Hinpb & Hcb & HCb & Hsb & Hlbb & Hevb).
    cbv beta iota zeta.
    set (sb := maybe_update_best sb0 inpb mb) in HCb, Hsb, Hlbb, Hevb |- *.
    destruct (dd_is_exact mb) eqn:Eexb.
    { intros H; inversion H; subst s2 err. split; [reflexivity|]. split; [exact HCb|]. split.
      - apply (compl_close s n sb HCompl); [rewrite Hsb, Hsa; auto|lia|]. intros o _ Hb _. left.
        destruct (Z_le_gt_dec o (s_lb sa)) as [Hle|Hgt]; [lia|].
        apply Hevb. rewrite Hinpb. eapply K2; eauto. right; reflexivity.
      - rewrite Hsb, Hsa. pose proof (wt_pos n). lia. }
    intros H; inversion H; subst s2 err. clear H. split; [reflexivity|].
    rewrite enqueue_cutset_fold. subst inpb.
    set (cs := drain_cutset (mk_input cfg Relaxed n (s_lb sa)) mb).
    assert (Hdep : forall c, In c cs -> (sp_depth n < sp_depth c <= N)%nat).
    { intros c Hc. eapply K3_depth; eauto. }
    destruct HCb as (B1 & B2 & B3 & B4 & B5).
    destruct (enq_fold_spec (s_lb sb) (sp_ub n) cs sb) as (F1 & F2 & F3 & F4 & F5 & F6 & F7);
      [intros c Hc; apply Hdep in Hc; lia|exact B5|].
    split; [|split].
    - unfold Core. rewrite F1, F2, F3, F4. split; [exact B1|]. split; [exact B2|]. split; [exact B3|].
      split; [|exact F5]. intros x Hx. apply F6 in Hx. destruct Hx as [Hx|(c & Hc & _ & ->)].
      + apply B4; exact Hx.
      + split; [apply good_set_ub; eapply K3_good; eauto|]. cbn [set_ub sp_depth]. apply Hdep in Hc. lia.
    - apply (compl_close s n _ HCompl).
      + intros x Hx. apply F6. left. rewrite Hsb, Hsa. exact Hx.
      + rewrite F1. lia.
      + intros o Ho Hb Hu. rewrite F1.
        destruct (Z_le_gt_dec o (s_lb sb)) as [Hle|Hgt]; [left; exact Hle|]. right.
        assert (Hgta : o > s_lb sa) by lia.
        destruct (K4 _ _ _ _ _ _ _ Hg Hd Hcb Eexb o Hb Hgta) as (c & Hc & Hbc).
        { intros e He. apply Hevb in He. lia. }
        assert (Hubc : o <= sp_ub c) by (eapply K3_ub; eauto).
        exists (set_ub c (Z.min (sp_ub n) (sp_ub c))). split; [|split].
        * apply F6. right. exists c. split; [exact Hc|]. split; [lia|reflexivity].
        * rewrite best_set_ub. exact Hbc.
        * cbn [set_ub sp_ub]. lia.
    - eapply Nat.le_lt_trans; [exact F7|]. rewrite Hsb, Hsa.
      apply Nat.add_lt_mono_l. apply kids_weight; [|exact Hdep].
      eapply K5; eauto.
  Qed.

  (* ------------------------------------------------------------------ the loop *)
  Definition Final (s : @sstate St) : Prop :=
    s_crash s = false /\ s_abort s = false /\ s_ub s = s_lb s /\ Incumbent (s_lb s) (s_sol s) /\
    (forall o, OPT = Some o -> o <= s_lb s).

  Lemma main_loop_spec : forall fuel s, Inv s -> (Phi (s_simple s) < fuel)%nat ->
    exists s', main_loop st_eqb cfg fuel s = (s', Finished) /\ Final s'.
  Proof.
    induction fuel as [|fuel IH]; intros s [HCore HCompl] Hfuel; [lia|].
    cbn [main_loop]. assert (Hcr : s_crash s = false) by apply HCore. rewrite Hcr.
    destruct (get_workload_spec s HCore) as [(Hemp & s1 & Hgw & W1 & W2 & W3 & W4 & W5 & W6)
                                            |(x & rest & s1 & Hgw & Hperm & W1 & HC1 & W2)]; rewrite Hgw.
    - exists s1. split; [reflexivity|]. unfold Final. rewrite W6, W5, W4. split; [exact W2|]. split; [exact W3|].
      split; [reflexivity|]. split; [apply HCore|]. intros o Ho.
      destruct (HCompl o Ho) as [H|(w & [[]|Hw] & _)]; [exact H|]. rewrite Hemp in Hw. destruct Hw.
    - destruct (process_one_node st_eqb cfg s1 x) as [s2 err] eqn:Ep.
      assert (Hx : In x (s_simple s)).
      { eapply Permutation_in; [apply Permutation_sym; exact Hperm|]. left; reflexivity. }
      destruct HCore as (_ & _ & _ & Hfr & _). destruct (Hfr x Hx) as [Hgx Hdx].
      assert (HCompl1 : Compl s1 [x]).
      { intros o Ho. rewrite W2. destruct (HCompl o Ho) as [H|(w & [[]|Hw] & Hb & Hu)]; [left; exact H|].
        right. exists w. split; [|auto]. eapply Permutation_in in Hw; [|exact Hperm].
        destruct Hw as [Hw|Hw]; [left; left; exact Hw|right; rewrite W1; exact Hw]. }
      destruct (process_spec s1 x s2 err HC1 HCompl1 Hgx Hdx Ep) as (-> & HC2 & HCompl2 & HPhi).
      apply IH; [split; assumption|].
      rewrite (Phi_perm _ _ Hperm) in Hfuel. unfold Phi in Hfuel, HPhi |- *. cbn [sumf] in Hfuel. rewrite W1 in HPhi. lia.
  Qed.

  (* partial correctness of the loop: whatever the fuel, if the loop finished it finished well *)
  Lemma main_loop_partial : forall fuel s s', Inv s ->
    main_loop st_eqb cfg fuel s = (s', Finished) -> Final s'.
  Proof.
    induction fuel as [|fuel IH]; intros s s' [HCore HCompl]; [cbn [main_loop]; discriminate|].
    cbn [main_loop]. assert (Hcr : s_crash s = false) by apply HCore. rewrite Hcr.
    destruct (get_workload_spec s HCore) as [(Hemp & s1 & Hgw & W1 & W2 & W3 & W4 & W5 & W6)
                                            |(x & rest & s1 & Hgw & Hperm & W1 & HC1 & W2)]; rewrite Hgw.
    - intros H; inversion H; subst s'. unfold Final. rewrite W6, W5, W4. split; [exact W2|]. split; [exact W3|].
      split; [reflexivity|]. split; [apply HCore|]. intros o Ho.
      destruct (HCompl o Ho) as [H'|(w & [[]|Hw] & _)]; [exact H'|]. rewrite Hemp in Hw. destruct Hw.
    - destruct (process_one_node st_eqb cfg s1 x) as [s2 err] eqn:Ep.
      assert (Hx : In x (s_simple s)).
      { eapply Permutation_in; [apply Permutation_sym; exact Hperm|]. left; reflexivity. }
      destruct HCore as (_ & _ & _ & Hfr & _). destruct (Hfr x Hx) as [Hgx Hdx].
      assert (HCompl1 : Compl s1 [x]).
      { intros o Ho. rewrite W2. destruct (HCompl o Ho) as [H|(w & [[]|Hw] & Hb & Hu)]; [left; exact H|].
        right. exists w. split; [|auto]. eapply Permutation_in in Hw; [|exact Hperm].
        destruct Hw as [Hw|Hw]; [left; left; exact Hw|right; rewrite W1; exact Hw]. }
      destruct (process_spec s1 x s2 err HC1 HCompl1 Hgx Hdx Ep) as (-> & HC2 & HCompl2 & HPhi).
      apply IH. split; assumption.
  Qed.

  (* ------------------------------------------------------------------ initialisation *)
  Lemma initialize_inv s0 :
    s_simple s0 = [] -> s_open s0 = repeat O (S N) -> s_crash s0 = false -> s_abort s0 = false ->
    Incumbent (s_lb s0) (s_sol s0) ->
    Inv (initialize_solver st_eqb cfg s0) /\ s_simple (initialize_solver st_eqb cfg s0) = [root_node cfg].
  Proof.
    intros H1 H2 H3 H4 H5. unfold initialize_solver. rewrite fr_push_simple.
    cbn [s_simple s_open s_lb s_sol s_abort s_crash upd_s]. rewrite H1. split; [|reflexivity].
    split.
    - unfold Core. cbn [s_simple s_open s_lb s_sol s_abort s_crash upd_s].
      split; [exact H3|]. split; [exact H4|]. split; [exact H5|]. split.
      + intros n [<-|[]]. split; [exact good_root|]. cbn [root_node sp_depth]. lia.
      + intros d Hd. rewrite H2. destruct d as [|d].
        * reflexivity.
        * cbn [repeat upd_nth nth_error]. rewrite nth_error_repeat by lia.
          rewrite cnt_cons_other by (cbn [root_node sp_depth]; lia). reflexivity.
    - intros o Ho. right. exists (root_node cfg). cbn [s_simple upd_s]. split; [right; left; reflexivity|].
      split; [exact Ho|]. cbn [root_node sp_ub]. apply opt_in_isize. exact Ho.
  Qed.

  Definition primal_ok (primal : option (Z * list decision)) : Prop :=
    forall pv psol, primal = Some (pv, psol) -> feasible psol pv.

  Definition start_state (primal : option (Z * list decision)) : @sstate St :=
    match primal with Some (v, sol) => set_primal (init_sstate cfg) v sol | None => init_sstate cfg end.

  Lemma start_state_ok primal : primal_ok primal ->
    s_simple (start_state primal) = [] /\ s_open (start_state primal) = repeat O (S N) /\
    s_crash (start_state primal) = false /\ s_abort (start_state primal) = false /\
    Incumbent (s_lb (start_state primal)) (s_sol (start_state primal)).
  Proof.
    intros Hp. assert (Hinit : Incumbent (s_lb (init_sstate cfg)) (s_sol (init_sstate cfg))).
    { cbn [init_sstate s_lb s_sol]. split; [lia|]. left. auto. }
    destruct primal as [[pv psol]|]; cbn [start_state].
    - unfold set_primal. destruct (pv >? s_lb (init_sstate cfg)) eqn:E.
      + cbn [s_simple s_open s_lb s_sol s_abort s_crash upd_s]. do 4 (split; [reflexivity|]).
        rewrite Z.gtb_ltb in E. apply Z.ltb_lt in E. cbn [init_sstate s_lb] in E.
        split; [lia|]. right. exists psol. split; [reflexivity|]. apply Hp. reflexivity.
      + do 4 (split; [reflexivity|]). exact Hinit.
    - do 4 (split; [reflexivity|]). exact Hinit.
  Qed.

  (* ------------------------------------------------------------------ main theorems *)
  Definition fuel0 : nat := S ((S M) ^ N).

  Definition result_ok (r : sresult) : Prop :=
    r_crash r = false /\ r_outoffuel r = false /\ r_exact r = true /\ r_value r = OPT /\
    (forall v, OPT = Some v ->
       r_lb r = v /\ r_ub r = v /\ exists sol, r_sol r = Some (sort_by dec_var_cmp sol) /\ feasible sol v) /\
    (OPT = None -> r_sol r = None /\ r_lb r = IMIN).

  Lemma final_result s :
    Final s ->
    (forall v, OPT = Some v -> s_lb s = v /\ exists sol, s_sol s = Some sol /\ feasible sol v) /\
    (OPT = None -> s_sol s = None /\ s_lb s = IMIN).
  Proof.
    intros (_ & _ & _ & [Hmin Hinc] & Hopt). split.
    - intros v Hv. pose proof (Hopt v Hv) as Hle. pose proof (opt_in_isize v Hv) as Hr.
      destruct Hinc as [[_ Hlb]|(sol & Hsol & Hfeas)]; [lia|].
      destruct (feasible_le_opt _ _ Hfeas) as (o & Ho & Hlo). rewrite Hv in Ho. inversion Ho; subst o.
      assert (Heq : s_lb s = v) by lia. split; [exact Heq|]. exists sol. rewrite <- Heq. auto.
    - intros Hnone. destruct Hinc as [[Hs Hlb]|(sol & Hsol & Hfeas)]; [auto|].
      destruct (feasible_le_opt _ _ Hfeas) as (o & Ho & _). rewrite Hnone in Ho. discriminate.
  Qed.

  Lemma maximize_of_final primal fuel s' :
    main_loop st_eqb cfg fuel (initialize_solver st_eqb cfg (start_state primal)) = (s', Finished) ->
    Final s' -> result_ok (maximize st_eqb cfg fuel primal).
  Proof.
    intros Hml HF. unfold maximize. fold (start_state primal).
    rewrite Hml. destruct (final_result s' HF) as [Hsome Hnone].
    destruct HF as (F1 & F2 & F3 & F4 & F5).
    unfold result_ok. cbn [r_crash r_outoffuel r_exact r_value r_lb r_ub r_sol].
    split; [exact F1|]. split; [reflexivity|]. split; [rewrite F2; reflexivity|].
    assert (Hcase : forall x : option Z, (exists v, x = Some v) \/ x = None) by (intros [v|]; eauto).
    destruct (Hcase OPT) as [[v EO]|EO]; rewrite EO.
    - destruct (Hsome v EO) as (Hlb & sol & Hsol & Hfeas). rewrite Hsol, Hlb. cbn [option_map].
      split; [reflexivity|]. split; [|discriminate].
      intros v' Hv'. inversion Hv'; subst v'. split; [reflexivity|]. split; [rewrite F3; exact Hlb|].
      exists sol. auto.
    - destruct (Hnone EO) as [Hsol Hlb]. rewrite Hsol, Hlb. cbn [option_map].
      split; [reflexivity|]. split; [discriminate|]. auto.
  Qed.

  (* total correctness with an explicit fuel bound, any (feasible or absent) warm start *)
  Theorem maximize_correct primal : primal_ok primal ->
    forall fuel, (fuel0 <= fuel)%nat -> result_ok (maximize st_eqb cfg fuel primal).
  Proof.
    intros Hp fuel Hfuel.
    destruct (start_state_ok primal Hp) as (S1 & S2 & S3 & S4 & S5).
    destruct (initialize_inv _ S1 S2 S3 S4 S5) as [HInv Hsimple].
    destruct (main_loop_spec fuel _ HInv) as (s' & Hml & HF).
    { rewrite Hsimple. unfold Phi, wt. cbn [sumf root_node sp_depth]. rewrite Nat.sub_0_r. unfold fuel0 in Hfuel. lia. }
    eapply maximize_of_final; eassumption.
  Qed.

  (* partial correctness: for ANY fuel, a run that was not cut short by the fuel is correct *)
  Theorem seq_solver_partial_correct primal : primal_ok primal ->
    forall fuel, r_outoffuel (maximize st_eqb cfg fuel primal) = false ->
    result_ok (maximize st_eqb cfg fuel primal).
  Proof.
    intros Hp fuel Hnf.
    destruct (start_state_ok primal Hp) as (S1 & S2 & S3 & S4 & S5).
    destruct (initialize_inv _ S1 S2 S3 S4 S5) as [HInv _].
    destruct (main_loop st_eqb cfg fuel (initialize_solver st_eqb cfg (start_state primal))) as [s' e] eqn:Hml.
    assert (He : e = Finished).
    { unfold maximize in Hnf. fold (start_state primal) in Hnf. rewrite Hml in Hnf.
      cbn [r_outoffuel] in Hnf. destruct e; [reflexivity|discriminate]. }
    subst e. eapply maximize_of_final; [exact Hml|]. eapply main_loop_partial; eassumption.
  Qed.

  (* C01 *)
  Theorem seq_solver_correct :
    exists f0, forall fuel, (f0 <= fuel)%nat ->
      let r := maximize st_eqb cfg fuel None in
      r_crash r = false /\ r_outoffuel r = false /\ r_exact r = true /\ r_value r = OPT /\
      (forall v, OPT = Some v ->
         r_lb r = v /\ r_ub r = v /\ exists sol, r_sol r = Some (sort_by dec_var_cmp sol) /\ feasible sol v) /\
      (OPT = None -> r_sol r = None /\ r_lb r = IMIN).
  Proof.
    exists fuel0. intros fuel Hfuel. apply (maximize_correct None); [|exact Hfuel].
    intros pv psol H; discriminate.
  Qed.

  (* C14 *)
  Theorem seq_solver_correct_primal pv psol : feasible psol pv ->
    exists f0, forall fuel, (f0 <= fuel)%nat ->
      let r := maximize st_eqb cfg fuel (Some (pv, psol)) in
      r_crash r = false /\ r_outoffuel r = false /\ r_exact r = true /\ r_value r = OPT /\
      (forall v, OPT = Some v ->
         r_lb r = v /\ r_ub r = v /\ exists sol, r_sol r = Some (sort_by dec_var_cmp sol) /\ feasible sol v) /\
      (OPT = None -> r_sol r = None /\ r_lb r = IMIN).
  Proof.
    intros Hf. exists fuel0. intros fuel Hfuel. apply (maximize_correct (Some (pv, psol))); [|exact Hfuel].
    intros pv' psol' H; inversion H; subst. exact Hf.
  Qed.

End SolverProofs.

Print Assumptions seq_solver_correct.
Print Assumptions seq_solver_correct_primal.
Print Assumptions maximize_correct.
Print Assumptions seq_solver_partial_correct.
Print Assumptions set_primal_strict.
