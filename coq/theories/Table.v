(* Table.v — the table-driven powerset model family used by the correspondence harness
   (harness/src/table.rs): a base labelled transition system given by finite tables; a DP state
   is a finite set of base states (strictly increasing list of ids); transition / domain / cost are
   lifted by union / union / max; merge = union; relax = cost + slack * (|merged| - |dst|);
   rough bound = max over the members. *)
From Coq Require Import String.
Require Import DDO.Base DDO.Fringe DDO.DP DDO.Cache DDO.Dom DDO.Mdd DDO.Viz.
Open Scope Z_scope.

Definition tstate := list Z.

Record tinst := {
  t_nvars : nat;
  t_nbase : nat;
  t_init : Z;
  t_initval : Z;
  t_slack : Z;
  t_rubkind : Z;                       (* 0 = none (isize::MAX), 1 = table *)
  t_domkind : Z;                       (* 0 = no rule, 1 = rule given by key / coords tables *)
  t_usevalue : bool;
  t_ncoord : nat;
  t_order : list nat;                  (* variable decided at depth k *)
  t_trans : list (nat * Z * Z * Z * Z);(* (var, base, value, dst, cost) *)
  t_notimp : list (nat * Z);           (* (var, base) pairs NOT impacted *)
  t_rub : list Z;                      (* per base state *)
  t_key : list Z;                      (* per base state, negative = no key *)
  t_coords : list (list Z);
  t_mergekind : Z;                     (* 0 = union (powerset relaxation), 1 = chain successor of the highest member *)
  t_pos : list Z;
  t_up : list Z }.

Fixpoint insert_set (x : Z) (l : list Z) : list Z :=
  match l with
  | [] => [x]
  | y :: l' => if x <? y then x :: l else if x =? y then l else y :: insert_set x l'
  end.
Definition set_of_list (l : list Z) : list Z := fold_right insert_set [] l.
Definition set_union (a b : list Z) : list Z := fold_right insert_set b a.

Fixpoint tstate_eqb (a b : tstate) : bool :=
  match a, b with
  | [], [] => true
  | x :: a', y :: b' => (x =? y) && tstate_eqb a' b'
  | _, _ => false
  end.

(* Vec<u32> : Ord  (lexicographic) *)
Definition tstate_cmp (a b : tstate) : comparison := lex_cmp Zcmp a b.

Section Table.
  Variable ti : tinst.

  (* the table rows of (var, base), sorted by (value, dst, cost) as the harness does after parsing *)
  Definition row_cmp (a b : Z * Z * Z) : comparison :=
    let '(v1, d1, c1) := a in let '(v2, d2, c2) := b in
    cmp_then (Zcmp v1 v2) (cmp_then (Zcmp d1 d2) (Zcmp c1 c2)).
  Definition rows (x : nat) (b : Z) : list (Z * Z * Z) :=
    sort_by row_cmp
      (flat_map (fun '(x', b', v, d, c) => if Nat.eqb x' x && (b' =? b) then [(v, d, c)] else []) (t_trans ti)).

  Definition t_transition (s : tstate) (d : decision) : tstate :=
    set_of_list (flat_map (fun b => flat_map (fun '(v, dst, _) => if v =? d_val d then [dst] else []) (rows (d_var d) b)) s).

  Definition t_cost (src dst : tstate) (d : decision) : Z :=
    opt_default 0 (zmax_list (flat_map (fun b => flat_map (fun '(v, _, c) => if v =? d_val d then [c] else []) (rows (d_var d) b)) src)).

  Definition t_domain (x : nat) (s : tstate) : list Z :=
    set_of_list (flat_map (fun b => map (fun '(v, _, _) => v) (rows x b)) s).

  Definition t_next_variable (depth : nat) (layer : list tstate) : option nat :=
    if Nat.ltb depth (t_nvars ti) then nth_error (t_order ti) depth else None.

  Definition t_impacted (x : nat) (s : tstate) : bool :=
    existsb (fun b => negb (existsb (fun '(x', b') => Nat.eqb x' x && (b' =? b)) (t_notimp ti))) s.

  Definition t_problem : problem tstate := {|
    nb_vars := t_nvars ti;
    init_state := [t_init ti];
    init_value := t_initval ti;
    transition := t_transition;
    transition_cost := t_cost;
    next_variable := t_next_variable;
    domain := t_domain;
    is_impacted_by := t_impacted |}.

  Definition zlen {A} (l : list A) : Z := Z.of_nat (length l).

  (* i128-free transliteration of  cost.saturating_add(slack.saturating_mul(len(merged) - len(dst))) *)
  Definition sat_mul (a b : Z) : Z := clampZ (a * b).

  Definition t_relaxation : relaxation tstate := {|
    merge := fun l =>
      let u := fold_right set_union [] l in
      if t_mergekind ti =? 1 then
        match u with
        | [] => []
        | b0 :: rest =>
            let better (a b : Z) :=       (* max_by_key (pos, id): the LAST maximum wins; ids are distinct so the key is injective *)
              let pa := nth (Z.to_nat a) (t_pos ti) 0 in let pb := nth (Z.to_nat b) (t_pos ti) 0 in
              if (pa <? pb) || ((pa =? pb) && (a <? b)) then b else a in
            let top := fold_left better rest b0 in
            [nth (Z.to_nat top) (t_up ti) top]
        end
      else u;
    relax := fun src dst merged d cost => sat_add cost (sat_mul (t_slack ti) (zlen merged - zlen dst));
    fast_upper_bound := fun s =>
      if t_rubkind ti =? 1
      then opt_default IMIN (zmax_list (map (fun b => nth (Z.to_nat b) (t_rub ti) 0) s))
      else IMAX |}.

  Definition t_ranking (a b : tstate) : comparison := tstate_cmp a b.

  (* the dominance rule: key / coordinates of the smallest member; only singletons have a key *)
  Definition t_key_of (s : tstate) : option Z :=
    match s with
    | [b] => let k := nth (Z.to_nat b) (t_key ti) (-1) in if k <? 0 then None else Some k
    | _ => None
    end.
  Definition t_coord (s : tstate) (i : nat) : Z :=
    match s with
    | b :: _ => nth i (nth (Z.to_nat b) (t_coords ti) []) 0
    | [] => 0
    end.

  Definition t_domrule (on : bool) : option ((tstate -> option Z) * nat * (tstate -> nat -> Z) * bool) :=
    if on && (t_domkind ti =? 1) then Some (t_key_of, t_ncoord ti, t_coord, t_usevalue ti) else None.

  (* TotalDom::cmp : rule comparator (when a rule is active), then value, then state *)
  Definition t_domcmp (on : bool) (a : tstate) (va : Z) (b : tstate) (vb : Z) : comparison :=
    let c := if on && (t_domkind ti =? 1) then dcmp (t_ncoord ti) t_coord (t_usevalue ti) a va b vb else Eq in
    cmp_then c (cmp_then (Zcmp va vb) (tstate_cmp a b)).

  (* Debug for Vec<u32> : "[0, 3]" *)
  Definition t_show (s : tstate) : string :=
    ("[" ++ sjoin ", " (map zstr s) ++ "]")%string.
End Table.
