(* ExtractMisp.v — extraction of the model of the shipped misp example (Misp.v) for its correspondence check.
   ExtrOcamlBasic only; no Extract Constant / Extract Inductive of our own. *)
Require Import ExtrOcamlBasic.
Require Import DDO.Misp.
Extraction "mispmodel.ml" mk_graph m_init m_trans m_cost m_dom m_impacted m_merge m_relax m_rub m_next_var of_list to_list best_enum.
