(* CacheSearch.v — C09, search level: the SEQUENTIAL solver with the threshold cache ON returns the optimum.

   Part I   (sections 1-5)   the solver: invariant of the search (value-based: Wit / ComplC / CacheInv), the solver theorem
                             from the per-compilation contracts KC0..KCW (seq_cache_solver_correct), an executable audit of
                             the invariant and of the contracts' conclusions, the packaged contracts KC_struct / KC_cache,
                             C09_from_contracts.
   Part II  (sections 6-12)  the contracts for Mdd.compile started from ANY cache with a layer per depth:
                             progress (KC_struct_holds), the loop invariant with nodes dropped by the cache (TIc / FSc),
                             the static argument on the finished diagram (GA / GB with runs lost to old entries, CaptD, SafeAt,
                             CacheOKg, theta_fold_soundC, run_cases, ub_cases), its instantiation (the PC_ lemmas), the bridge to
                             compile (bridgeC, C_root_run, C_ub_run, C_cache_run, C_exact_best), and the twin
                             "a restricted compilation that never restricts is the relaxed one" (restricted_exact_twin).
   Part III (sections 13-16) KC_cache_holds, C09_sequential_cache_optimal, C09_cache_does_not_change_the_answer,
                             the table family (C09_table_instances) and an instance on which the cache prunes (the c9_ examples).

   Hypotheses of C09_sequential_cache_optimal = those of Assembly.C01_sequential_optimal with sc_use_cache cfg = true and the
   arithmetic guard strengthened from 2*B <= IMAX to 3*B <= IMAX (a threshold below IMIN + 2B says nothing; the state of a
   cache entry is reached by a feasible run of value >= -B, which bounds a critical threshold from below by -B). *)
Require Import DDO.Base DDO.Fringe DDO.DP DDO.Cache DDO.Dom DDO.Mdd DDO.MddStruct DDO.MddExact DDO.Solver DDO.SolverProofs.
Require Import DDO.MddProgress DDO.MddSim DDO.Assembly DDO.Table DDO.Run DDO.TableWf DDO.Thresholds.
From Coq Require Import Lia List Arith ZArith Bool Permutation.
Import ListNotations.
Local Open Scope Z_scope.

(* ================================================================== 1. the cache, seen through [cget] *)
Section CacheFacts.
  Context {St : Type}.
  Variable eqb : St -> St -> bool.
  Hypothesis eqb_spec : forall a b, eqb a b = true <-> a = b.

  (* the threshold currently recorded for (state s0, depth d) *)
  Definition entry (c : @cache St) (d : nat) (s0 : St) (th : threshold) : Prop := cget eqb c s0 d = Some th.

  Lemma entry_fun c d s0 th th' : entry c d s0 th -> entry c d s0 th' -> th = th'.
  Proof. unfold entry. intros H1 H2. congruence. Qed.

  Lemma entry_clear_layer c d c' d' s0 th :
    clear_layer c d = Some c' -> entry c' d' s0 th -> entry c d' s0 th.
  Proof.
    unfold clear_layer, entry, cget. destruct (nth_error c d) as [l0|] eqn:E; [|discriminate].
    intros H; inversion H; subst c'.
    destruct (Nat.eq_dec d d') as [->|Hne].
    - rewrite (nth_error_upd_nth_same _ _ _ _ E). simpl. discriminate.
    - rewrite nth_error_upd_nth_other by exact Hne. auto.
  Qed.

  Lemma clear_layer_length (c : @cache St) d c' : clear_layer c d = Some c' -> length c' = length c.
  Proof.
    unfold clear_layer. destruct (nth_error c d); [|discriminate]. intros H; inversion H. apply upd_nth_length.
  Qed.

  Lemma clear_layer_some (c : @cache St) d : (d < length c)%nat -> exists c', clear_layer c d = Some c'.
  Proof.
    intros H. unfold clear_layer. destruct (nth_error c d) eqn:E; [eauto|]. apply nth_error_None in E. lia.
  Qed.

  Lemma must_explore_some c s d v : (d < length c)%nat -> exists b, must_explore eqb c s d v = Some b.
  Proof.
    intros H. unfold must_explore, get_threshold. destruct (nth_error c d) eqn:E; [simpl; eauto|].
    apply nth_error_None in E. lia.
  Qed.

  Lemma must_explore_false c s d v : must_explore eqb c s d v = Some false ->
    exists th, entry c d s th /\ must_explore_th (Some th) v = false.
  Proof.
    unfold must_explore, get_threshold, entry, cget. destruct (nth_error c d) as [l|]; [|discriminate].
    simpl. destruct (lget eqb l s) as [th|]; simpl; intros H; [|discriminate].
    exists th. split; [reflexivity|]. inversion H. reflexivity.
  Qed.

  Lemma must_explore_th_false th v : must_explore_th (Some th) v = false -> v <= th_value th.
  Proof.
    simpl. intros H. apply orb_false_iff in H. destruct H as [H _].
    rewrite Z.gtb_ltb in H. apply Z.ltb_ge in H. exact H.
  Qed.

  Lemma lget_In (l : @layer St) s th : lget eqb l s = Some th -> In (s, th) l.
  Proof.
    induction l as [|[k t] l IH]; simpl; [discriminate|].
    destruct (eqb k s) eqn:E.
    - intros H; inversion H; subst. apply eqb_spec in E. subst. left; reflexivity.
    - intros H. right. apply IH; exact H.
  Qed.

  Lemma entry_In c d s0 th : entry c d s0 th -> exists l, nth_error c d = Some l /\ In (s0, th) l.
  Proof.
    unfold entry, cget. destruct (nth_error c d) as [l|]; [|discriminate]. intros H. exists l. split; [reflexivity|].
    apply lget_In; exact H.
  Qed.
End CacheFacts.

(* ================================================================== 2. the solver-level argument, from per-compilation contracts *)
Section CacheSolver.
  Context {St : Type}.
  Variable st_eqb : St -> St -> bool.
  Hypothesis st_eqb_spec : forall a b, st_eqb a b = true <-> a = b.
  Variable cfg : @sconfig St.
  Let pb := sc_problem cfg.
  Let N := nb_vars pb.

  Hypothesis cfg_cache : sc_use_cache cfg = true.
  Hypothesis cfg_nodup : sc_nodup cfg = false.

  (* ---------------- abstract semantics (as in SolverProofs.v; [best] is the concrete value + Bellman value) *)
  Variable good : @subproblem St -> Prop.
  Variable feasible : list decision -> Z -> Prop.
  Notation best := (MddSim.best cfg).
  Notation OPT := (SolverProofs.OPT cfg (MddSim.best cfg)).
  Notation entry := (entry st_eqb).

  Hypothesis good_root : good (root_node cfg).
  Hypothesis feasible_le_opt : forall sol v, feasible sol v -> exists o, OPT = Some o /\ v <= o.
  Hypothesis opt_in_isize : forall o, OPT = Some o -> IMIN < o <= IMAX.
  Hypothesis best_le_opt : forall n v o, good n -> best n = Some v -> OPT = Some o -> v <= o.
  Hypothesis good_set_ub : forall c u, good c -> good (set_ub c u).

  Lemma best_set_ub (c : @subproblem St) u : best (set_ub c u) = best c.
  Proof. reflexivity. Qed.

  (* ---------------- the vocabulary of the contracts *)
  (* the entry (s0, d) -> t is CRITICAL for the value o: arriving in s0 at depth d with value t could still reach o *)
  Definition crit (o : Z) (d : nat) (s0 : St) (t : Z) : Prop := exists h, H pb d s0 = Some h /\ o <= t + h.
  Definition antitone (P : nat -> Prop) : Prop := forall d d', (d' <= d)%nat -> P d -> P d'.
  (* the cache c is sound below depth k w.r.t. the value o: every critical entry deeper than k is vouched for by P *)
  Definition CS (k : nat) (c : @cache St) (o : Z) (P : nat -> Prop) : Prop :=
    forall d s0 th, (k < d)%nat -> entry c d s0 th -> crit o d s0 (th_value th) -> P d.

  Variable M : nat.

  Hypothesis KC0 : forall ct n lb c ds polls m out,
    dd_ct ct -> good n -> (sp_depth n <= N)%nat -> length c = S N ->
    compile st_eqb (mk_input cfg ct n lb) 0 0 c ds polls = (m, out) ->
    out = Compiled /\ m_crash m = false /\ length (m_cache m) = S N.
  Hypothesis KC1 : forall ct n lb c ds polls m out,
    dd_ct ct -> good n -> (sp_depth n <= N)%nat -> length c = S N ->
    compile st_eqb (mk_input cfg ct n lb) 0 0 c ds polls = (m, out) ->
    forall v, dd_best_exact_value (mk_input cfg ct n lb) m = Some v ->
    exists sol, dd_best_exact_solution (mk_input cfg ct n lb) m = Some sol /\ feasible sol v.
  Hypothesis KC2 : forall ct n lb c ds polls m out,
    dd_ct ct -> good n -> (sp_depth n <= N)%nat -> length c = S N ->
    compile st_eqb (mk_input cfg ct n lb) 0 0 c ds polls = (m, out) ->
    dd_is_exact m = true ->
    forall o P, OPT = Some o -> antitone P -> best n = Some o -> o > lb -> CS (sp_depth n) c o P ->
    (exists e, dd_best_exact_value (mk_input cfg ct n lb) m = Some e /\ o <= e) \/ P (S (sp_depth n)).
  Hypothesis KC3_good : forall n lb c ds polls m out,
    good n -> (sp_depth n <= N)%nat -> length c = S N ->
    compile st_eqb (mk_input cfg Relaxed n lb) 0 0 c ds polls = (m, out) ->
    dd_is_exact m = false ->
    forall x, In x (drain_cutset (mk_input cfg Relaxed n lb) m) -> good x.
  Hypothesis KC3_depth : forall n lb c ds polls m out,
    good n -> (sp_depth n <= N)%nat -> length c = S N ->
    compile st_eqb (mk_input cfg Relaxed n lb) 0 0 c ds polls = (m, out) ->
    dd_is_exact m = false ->
    forall x, In x (drain_cutset (mk_input cfg Relaxed n lb) m) -> (sp_depth n < sp_depth x <= N)%nat.
  Hypothesis KC3_ub : forall n lb c ds polls m out,
    good n -> (sp_depth n <= N)%nat -> length c = S N ->
    compile st_eqb (mk_input cfg Relaxed n lb) 0 0 c ds polls = (m, out) ->
    dd_is_exact m = false ->
    forall x, In x (drain_cutset (mk_input cfg Relaxed n lb) m) ->
    forall o P, OPT = Some o -> antitone P -> best x = Some o -> o > lb -> CS (sp_depth n) c o P ->
    o <= sp_ub x \/ P (S (sp_depth x)).
  Hypothesis KC4 : forall n lb c ds polls m out,
    good n -> (sp_depth n <= N)%nat -> length c = S N ->
    compile st_eqb (mk_input cfg Relaxed n lb) 0 0 c ds polls = (m, out) ->
    dd_is_exact m = false ->
    forall o P, OPT = Some o -> antitone P -> best n = Some o -> o > lb -> CS (sp_depth n) c o P ->
    (exists e, dd_best_exact_value (mk_input cfg Relaxed n lb) m = Some e /\ o <= e) \/
    (exists x ox, In x (drain_cutset (mk_input cfg Relaxed n lb) m) /\ best x = Some ox /\ o <= ox) \/
    P (S (sp_depth n)).
  Hypothesis KC5 : forall n lb c ds polls m out,
    good n -> (sp_depth n <= N)%nat -> length c = S N ->
    compile st_eqb (mk_input cfg Relaxed n lb) 0 0 c ds polls = (m, out) ->
    dd_is_exact m = false ->
    (length (drain_cutset (mk_input cfg Relaxed n lb) m) <= M)%nat.
  (* what the compilation leaves in the cache: every critical entry is an old one, or hopeless (o <= best known), or vouched
     for by P strictly deeper, or (relaxed, inexact diagram) covered by a sub-problem of the cut-set that it does not reject *)
  Hypothesis KCW : forall ct n lb c ds polls m out,
    dd_ct ct -> good n -> (sp_depth n <= N)%nat -> length c = S N ->
    compile st_eqb (mk_input cfg ct n lb) 0 0 c ds polls = (m, out) ->
    forall o P, OPT = Some o -> antitone P -> CS (sp_depth n) c o P ->
    forall d s0 th, entry (m_cache m) d s0 th -> crit o d s0 (th_value th) ->
      entry c d s0 th \/ o <= bk_of (mk_input cfg ct n lb) m \/ P (S d) \/
      (ct = Relaxed /\ dd_is_exact m = false /\
       exists x ox, In x (drain_cutset (mk_input cfg ct n lb) m) /\ best x = Some ox /\ o <= ox /\
         ((d < sp_depth x)%nat \/
          (sp_depth x = d /\ sp_state x = s0 /\ must_explore_th (Some th) (sp_value x) = true))).

  (* ------------------------------------------------------------------ SimpleFringe *)
  Lemma fr_len_simpleC s : fr_len cfg s = length (s_simple s).
  Proof. unfold fr_len. rewrite cfg_nodup. reflexivity. Qed.

  Lemma fr_push_simpleC s n :
    fr_push st_eqb cfg s n =
    upd_s s (n :: s_simple s) (s_nodup s) (s_explored s) (s_open s) (s_fal s) (s_lb s) (s_ub s) (s_sol s) (s_abort s)
          (s_cache s) (s_dom s) (s_polls s) (s_crash s) (s_tie s) (s_compiles s).
  Proof. unfold fr_push. rewrite cfg_nodup. reflexivity. Qed.

  Lemma fr_pop_simpleC s :
    fr_pop st_eqb cfg s =
    match pq_pop cfg (s_simple s) with
    | None => (s, None)
    | Some (x, rest) => (upd_s s rest (s_nodup s) (s_explored s) (s_open s) (s_fal s) (s_lb s) (s_ub s) (s_sol s)
                         (s_abort s) (s_cache s) (s_dom s) (s_polls s) (s_crash s) (s_tie s) (s_compiles s), Some x)
    end.
  Proof. unfold fr_pop. rewrite cfg_nodup. reflexivity. Qed.

  (* the abstract priority queue pops an element whose upper bound is maximal (MaxUB compares sp_ub first) *)
  Lemma pq_pop_maxC l x rest : pq_pop cfg l = Some (x, rest) -> forall y, In y l -> sp_ub y <= sp_ub x.
  Proof.
    revert x rest; induction l as [|z l IH]; intros x rest Hp; [discriminate|].
    cbn [pq_pop] in Hp. destruct (pq_pop cfg l) as [[y r]|] eqn:E.
    - specialize (IH _ _ eq_refl).
      destruct (is_gt (maxub_cmp (sc_ranking cfg) z y)) eqn:G; injection Hp as <- <-; intros u [Hu|Hu]; subst.
      + lia.
      + specialize (IH _ Hu). unfold maxub_cmp, cmp_then, Zcmp in G.
        destruct (sp_ub z ?= sp_ub y) eqn:C; try discriminate.
        * apply Z.compare_eq in C. lia.
        * apply Z.compare_gt_iff in C. lia.
      + unfold maxub_cmp, cmp_then, Zcmp in G.
        destruct (sp_ub u ?= sp_ub y) eqn:C.
        * apply Z.compare_eq in C. lia.
        * assert (sp_ub u < sp_ub y) by exact C. lia.
        * discriminate.
      + apply IH. exact Hu.
    - injection Hp as <- <-. apply pq_pop_none in E. subst l. intros u [Hu|[]]. subst. lia.
  Qed.

  (* ------------------------------------------------------------------ invariant *)
  Notation Core := (SolverProofs.Core cfg good feasible).
  Notation wt := (SolverProofs.wt cfg M).
  Notation Phi := (SolverProofs.Phi cfg M).

  (* y is an open sub-problem that still holds the optimum o, with an upper bound that does not hide it *)
  Definition Wit (o : Z) (l : list (@subproblem St)) (y : @subproblem St) : Prop :=
    In y l /\ best y = Some o /\ o <= sp_ub y.
  Definition Below (o : Z) (l : list (@subproblem St)) (d : nat) : Prop :=
    exists y, Wit o l y /\ (d <= sp_depth y)%nat.
  (* the critical entry (s0, d) -> th is justified: a witness strictly deeper, or at the same (state, depth) and NOT rejected *)
  Definition Just (o : Z) (l : list (@subproblem St)) (d : nat) (s0 : St) (th : threshold) : Prop :=
    exists y, Wit o l y /\
      ((d < sp_depth y)%nat \/ (sp_depth y = d /\ sp_state y = s0 /\ must_explore_th (Some th) (sp_value y) = true)).

  Definition ComplC (lb : Z) (l : list (@subproblem St)) : Prop :=
    forall o, OPT = Some o -> o <= lb \/ exists y, Wit o l y.
  Definition CacheInv (c : @cache St) (lb : Z) (l : list (@subproblem St)) : Prop :=
    forall o, OPT = Some o -> lb < o ->
    forall d s0 th, entry c d s0 th -> crit o d s0 (th_value th) -> Just o l d s0 th.

  Definition InvC (s : @sstate St) : Prop :=
    Core s /\ length (s_cache s) = S N /\ ComplC (s_lb s) (s_simple s) /\ CacheInv (s_cache s) (s_lb s) (s_simple s).

  Lemma Below_antitone o l : antitone (Below o l).
  Proof. intros d d' Hle (y & Hy & Hd). exists y. split; [exact Hy|lia]. Qed.

  Lemma Below_Just o l d s0 th : Below o l (S d) -> Just o l d s0 th.
  Proof. intros (y & Hy & Hd). exists y. split; [exact Hy|left; lia]. Qed.

  Lemma Wit_incl o l l' y : incl l l' -> Wit o l y -> Wit o l' y.
  Proof. intros Hi (H1 & H2 & H3). split; [apply Hi; exact H1|auto]. Qed.

  Lemma Below_incl o l l' d : incl l l' -> Below o l d -> Below o l' d.
  Proof. intros Hi (y & Hy & Hd). exists y. split; [eapply Wit_incl; eauto|exact Hd]. Qed.

  Lemma Just_incl o l l' d s0 th : incl l l' -> Just o l d s0 th -> Just o l' d s0 th.
  Proof. intros Hi (y & Hy & Hd). exists y. split; [eapply Wit_incl; eauto|exact Hd]. Qed.

  (* the node n leaves the fringe; whatever it held is now held strictly deeper *)
  Lemma Just_transfer o l l2 n d s0 th :
    incl l l2 -> (best n = Some o -> o <= sp_ub n -> Below o l2 (S (sp_depth n))) ->
    Just o (n :: l) d s0 th -> Just o l2 d s0 th.
  Proof.
    intros Hi Hn (y & (Hy1 & Hy2 & Hy3) & Hd). destruct Hy1 as [<-|Hy1].
    - destruct (Hn Hy2 Hy3) as (y' & Hy' & Hd'). exists y'. split; [exact Hy'|]. left.
      destruct Hd as [Hd|(Hd & _)]; lia.
    - exists y. split; [split; [apply Hi; exact Hy1|auto]|exact Hd].
  Qed.

  Lemma Compl_transfer lb lb2 l l2 n :
    incl l l2 -> lb <= lb2 ->
    (forall o, OPT = Some o -> lb2 < o -> best n = Some o -> o <= sp_ub n -> Below o l2 (S (sp_depth n))) ->
    ComplC lb (n :: l) -> ComplC lb2 l2.
  Proof.
    intros Hi Hlb Hn HC o Ho. destruct (Z_le_gt_dec o lb2) as [Hle|Hgt]; [left; exact Hle|].
    destruct (HC o Ho) as [Hle|(y & (Hy1 & Hy2 & Hy3))]; [lia|]. right.
    destruct Hy1 as [<-|Hy1].
    - destruct (Hn o Ho ltac:(lia) Hy2 Hy3) as (y' & Hy' & _). exists y'. exact Hy'.
    - exists y. split; [apply Hi; exact Hy1|auto].
  Qed.

  (* ------------------------------------------------------------------ the observable part of a state, cache included *)
  Definition viewC (s : @sstate St) :=
    (s_simple s, s_open s, s_lb s, s_sol s, s_abort s, s_crash s).

  Lemma viewC_inv s s' : viewC s' = viewC s ->
    s_simple s' = s_simple s /\ s_open s' = s_open s /\ s_lb s' = s_lb s /\ s_sol s' = s_sol s /\
    s_abort s' = s_abort s /\ s_crash s' = s_crash s.
  Proof. unfold viewC; intros H; inversion H; auto 10. Qed.

  (* ------------------------------------------------------------------ get_workload *)
  Lemma clean_cache_loop_spec fuel : forall s,
    (forall d, (d <= N)%nat -> exists k, nth_error (s_open s) d = Some k) -> length (s_cache s) = S N ->
    viewC (clean_cache_loop cfg fuel s) = viewC s /\ length (s_cache (clean_cache_loop cfg fuel s)) = S N /\
    (forall d s0 th, entry (s_cache (clean_cache_loop cfg fuel s)) d s0 th -> entry (s_cache s) d s0 th).
  Proof.
    induction fuel as [|fuel IH]; intros s Hop Hlen; cbn [clean_cache_loop]; [auto|].
    destruct (Nat.ltb (s_fal s) (nb_vars (sc_problem cfg))) eqn:E; [|auto].
    apply Nat.ltb_lt in E. destruct (Hop (s_fal s)) as [k Hk]; [unfold N, pb; lia|].
    rewrite Hk. destruct k; [|auto]. rewrite cfg_cache.
    destruct (clear_layer_some (s_cache s) (s_fal s)) as [c' Hc']; [rewrite Hlen; unfold N, pb; lia|].
    rewrite Hc'.
    match goal with |- context [clean_cache_loop cfg fuel ?s1] => destruct (IH s1) as (I1 & I2 & I3) end.
    - exact Hop.
    - cbn [s_cache upd_s]. rewrite (clear_layer_length _ _ _ Hc'). exact Hlen.
    - split; [rewrite I1; reflexivity|]. split; [exact I2|].
      intros d s0 th He. apply I3 in He. cbn [s_cache upd_s] in He. eapply entry_clear_layer; eauto.
  Qed.

  Lemma get_workload_specC s : Core s -> length (s_cache s) = S N ->
    (s_simple s = [] /\ exists s1, get_workload st_eqb cfg s = (s1, WComplete) /\
       s_simple s1 = [] /\ s_crash s1 = false /\ s_abort s1 = false /\ s_lb s1 = s_lb s /\
       s_sol s1 = s_sol s /\ s_ub s1 = s_lb s)
    \/ (exists x rest s1, get_workload st_eqb cfg s = (s1, WItem x) /\ Permutation (s_simple s) (x :: rest) /\
         s_simple s1 = rest /\ Core s1 /\ s_lb s1 = s_lb s /\ length (s_cache s1) = S N /\
         (forall d s0 th, entry (s_cache s1) d s0 th -> entry (s_cache s) d s0 th) /\
         (forall y, In y (s_simple s) -> sp_ub y <= sp_ub x)).
  Proof.
    intros (Hcr & Hab & Hinc & Hfr & Hop) Hlen.
    unfold get_workload.
    set (sc := clean_cache_loop cfg (S (nb_vars (sc_problem cfg))) s).
    destruct (clean_cache_loop_spec (S (nb_vars (sc_problem cfg))) s) as (Hv & Hlc & Hent).
    { intros d Hd. eexists. apply Hop. exact Hd. }
    { exact Hlen. }
    fold sc in Hv, Hlc, Hent.
    apply viewC_inv in Hv. destruct Hv as (V1 & V2 & V3 & V4 & V5 & V6).
    rewrite fr_len_simpleC, V1.
    destruct (s_simple s) as [|y l] eqn:El.
    - left. split; [reflexivity|]. eexists. split; [reflexivity|].
      cbn [s_simple s_crash s_abort s_lb s_sol s_ub upd_s]. rewrite V3, V4, V5, V6. auto 10.
    - right. cbn [length Nat.eqb]. rewrite V5, Hab. rewrite fr_pop_simpleC, V1.
      destruct (pq_pop cfg (y :: l)) as [[x rest]|] eqn:Ep; [|apply pq_pop_none in Ep; discriminate].
      pose proof (pq_pop_perm _ _ _ _ Ep) as Hperm.
      assert (Hx : In x (y :: l)). { eapply Permutation_in; [apply Permutation_sym; exact Hperm|]. left; reflexivity. }
      destruct (Hfr x Hx) as [Hgx Hdx].
      cbn [s_open upd_s]. rewrite V2, (Hop _ Hdx).
      rewrite (cnt_perm _ _ _ Hperm), cnt_cons_same.
      exists x, rest. eexists. split; [reflexivity|]. split; [exact Hperm|].
      cbn [s_simple s_lb s_cache upd_s]. split; [reflexivity|].
      split; [|split; [exact V3|split; [exact Hlc|split; [exact Hent|exact (pq_pop_maxC _ _ _ Ep)]]]].
      unfold SolverProofs.Core. cbn [s_simple s_crash s_abort s_lb s_sol s_open upd_s].
      rewrite ?V2, ?V3, ?V4, ?V5, ?V6. split; [exact Hcr|]. split; [exact Hab|]. split; [exact Hinc|]. split.
      + intros n Hn. apply Hfr. eapply Permutation_in; [apply Permutation_sym; exact Hperm|]. right; exact Hn.
      + intros d Hd. destruct (Nat.eq_dec (sp_depth x) d) as [Heq|Hne].
        * subst d. erewrite nth_error_upd_nth_same; [reflexivity|]. rewrite (Hop _ Hd).
          rewrite (cnt_perm _ _ _ Hperm), cnt_cons_same. reflexivity.
        * rewrite nth_error_upd_nth_other by exact Hne. rewrite (Hop _ Hd).
          rewrite (cnt_perm _ _ _ Hperm), cnt_cons_other by exact Hne. reflexivity.
  Qed.

  (* ------------------------------------------------------------------ compilation + incumbent update *)
  Lemma run_compile_specC s ct n s' inp m o :
    run_compile st_eqb cfg s ct n = (s', inp, m, o) ->
    inp = mk_input cfg ct n (s_lb s) /\
    compile st_eqb (mk_input cfg ct n (s_lb s)) 0 0 (s_cache s) (s_dom s) (s_polls s) = (m, o) /\
    s_simple s' = s_simple s /\ s_open s' = s_open s /\ s_lb s' = s_lb s /\ s_sol s' = s_sol s /\
    s_abort s' = s_abort s /\ s_crash s' = (s_crash s || m_crash m)%bool /\ s_cache s' = m_cache m.
  Proof.
    unfold run_compile.
    destruct (compile st_eqb (mk_input cfg ct n (s_lb s)) 0 0 (s_cache s) (s_dom s) (s_polls s)) as [m0 o0] eqn:E.
    intros H; inversion H; subst. cbn [s_simple s_open s_lb s_sol s_abort s_crash s_cache upd_s]. auto 10.
  Qed.

  Lemma mub_cache (s : @sstate St) inp m : s_cache (maybe_update_best s inp m) = s_cache s.
  Proof. unfold maybe_update_best. destruct (_ >? _); reflexivity. Qed.

  Lemma bk_of_le (inp : @cinput St) (m : @mdd St) z :
    ci_best_lb inp <= z -> (forall e, dd_best_exact_value inp m = Some e -> e <= z) -> bk_of inp m <= z.
  Proof.
    intros H1 H2. unfold bk_of. unfold dd_best_exact_value in H2.
    destruct (m_best_exact m) as [be|]; [|exact H1].
    specialize (H2 _ eq_refl). lia.
  Qed.

  Lemma phaseC s ct n s' inp m o :
    Core s -> length (s_cache s) = S N -> dd_ct ct -> good n -> (sp_depth n <= N)%nat ->
    run_compile st_eqb cfg s ct n = (s', inp, m, o) ->
    o = Compiled /\ inp = mk_input cfg ct n (s_lb s) /\
    compile st_eqb (mk_input cfg ct n (s_lb s)) 0 0 (s_cache s) (s_dom s) (s_polls s) = (m, Compiled) /\
    Core (maybe_update_best s' inp m) /\ s_simple (maybe_update_best s' inp m) = s_simple s /\
    s_cache (maybe_update_best s' inp m) = m_cache m /\ length (m_cache m) = S N /\
    s_lb s <= s_lb (maybe_update_best s' inp m) /\
    (forall e, dd_best_exact_value inp m = Some e -> e <= s_lb (maybe_update_best s' inp m)) /\
    bk_of inp m <= s_lb (maybe_update_best s' inp m).
  Proof.
    intros (Hcr & Hab & Hinc & Hfr & Hop) Hlen Hct Hg Hd Hrc.
    apply run_compile_specC in Hrc. destruct Hrc as (Hinp & Hc & R1 & R2 & R3 & R4 & R5 & R6 & R7).
    destruct (KC0 _ _ _ _ _ _ _ _ Hct Hg Hd Hlen Hc) as (Ho & Hmc & Hlm). subst o.
    assert (Hlb' : IMIN <= s_lb s') by (rewrite R3; apply Hinc).
    pose proof (mub_spec cfg s' inp m Hlb') as Hm. cbv zeta in Hm.
    destruct Hm as (U1 & U2 & U3 & U4 & U5).
    split; [reflexivity|]. split; [exact Hinp|]. split; [exact Hc|].
    assert (Hcore_rest : s_crash (maybe_update_best s' inp m) = false /\ s_abort (maybe_update_best s' inp m) = false /\
              FringeOK cfg good (s_simple (maybe_update_best s' inp m)) /\
              OpenOK cfg (s_open (maybe_update_best s' inp m)) (s_simple (maybe_update_best s' inp m))).
    { rewrite U4, U3, U2, U1, R6, R5, R2, R1, Hcr, Hmc, Hab. auto. }
    destruct Hcore_rest as (C1 & C2 & C4 & C5).
    assert (Hbk : forall z, s_lb s <= z -> (forall e, dd_best_exact_value inp m = Some e -> e <= z) -> bk_of inp m <= z).
    { intros z Hz1 Hz2. apply bk_of_le; [rewrite Hinp; exact Hz1|exact Hz2]. }
    destruct U5 as [(L1 & L2 & L3) | (v & Hv & Hgt & L1 & L2)].
    - split; [|split; [rewrite U1, R1; reflexivity|split; [rewrite mub_cache; exact R7|split; [exact Hlm|]]]].
      + unfold SolverProofs.Core. rewrite L1, L2, R3, R4. auto.
      + assert (A1 : s_lb s <= s_lb (maybe_update_best s' inp m)) by (rewrite L1, R3; lia).
        assert (A2 : forall e, dd_best_exact_value inp m = Some e -> e <= s_lb (maybe_update_best s' inp m)) by (rewrite L1; exact L3).
        split; [exact A1|]. split; [exact A2|]. apply Hbk; assumption.
    - subst inp. destruct (KC1 _ _ _ _ _ _ _ _ Hct Hg Hd Hlen Hc v Hv) as (sol & Hsol & Hfeas).
      split; [|split; [rewrite U1, R1; reflexivity|split; [rewrite mub_cache; exact R7|split; [exact Hlm|]]]].
      + unfold SolverProofs.Core. split; [exact C1|]. split; [exact C2|]. split; [|split; [exact C4|exact C5]].
        rewrite L1, L2. split; [rewrite R3 in Hgt; destruct Hinc; lia|].
        right. exists sol. split; [exact Hsol|exact Hfeas].
      + assert (A1 : s_lb s <= s_lb (maybe_update_best s' (mk_input cfg ct n (s_lb s)) m)) by (rewrite L1; rewrite R3 in Hgt; lia).
        assert (A2 : forall e, dd_best_exact_value (mk_input cfg ct n (s_lb s)) m = Some e ->
                      e <= s_lb (maybe_update_best s' (mk_input cfg ct n (s_lb s)) m)).
        { intros e He. rewrite Hv in He. assert (e = v) by congruence. rewrite L1. lia. }
        split; [exact A1|]. split; [exact A2|]. apply Hbk; assumption.
  Qed.

  (* ------------------------------------------------------------------ enqueue_cutset *)
  Notation enq_step := (SolverProofs.enq_step st_eqb cfg).

  Lemma enq_step_specC lb ub s c :
    (sp_depth c <= N)%nat -> OpenOK cfg (s_open s) (s_simple s) ->
    s_lb (enq_step lb ub s c) = s_lb s /\ s_sol (enq_step lb ub s c) = s_sol s /\
    s_abort (enq_step lb ub s c) = s_abort s /\ s_crash (enq_step lb ub s c) = s_crash s /\
    s_cache (enq_step lb ub s c) = s_cache s /\
    s_simple (enq_step lb ub s c) =
      (if Z.min ub (sp_ub c) >? lb then [set_ub c (Z.min ub (sp_ub c))] else []) ++ s_simple s /\
    OpenOK cfg (s_open (enq_step lb ub s c)) (s_simple (enq_step lb ub s c)).
  Proof.
    intros Hd Hop. unfold SolverProofs.enq_step.
    destruct (Z.min ub (sp_ub c) >? lb) eqn:E; [|cbn [app]; auto 10].
    rewrite fr_push_simpleC, !fr_len_simpleC. cbn [s_simple s_open s_lb s_sol s_abort s_crash s_cache upd_s length].
    rewrite (Hop _ Hd). cbn [s_simple s_open s_lb s_sol s_abort s_crash s_cache upd_s app].
    repeat (split; [reflexivity|]).
    replace (S (length (s_simple s)) - length (s_simple s))%nat with 1%nat by lia.
    fold (set_ub c (Z.min ub (sp_ub c))).
    intros d Hd'. destruct (Nat.eq_dec (sp_depth c) d) as [Heq|Hne].
    - subst d. erewrite nth_error_upd_nth_same; [|apply Hop; exact Hd].
      change (sp_depth c) with (sp_depth (set_ub c (Z.min ub (sp_ub c)))) at 2.
      rewrite cnt_cons_same. f_equal. cbn [set_ub sp_depth]. lia.
    - rewrite nth_error_upd_nth_other by exact Hne. rewrite (Hop _ Hd').
      rewrite cnt_cons_other; [reflexivity|exact Hne].
  Qed.

  Lemma enq_fold_specC lb ub cs : forall s,
    (forall c, In c cs -> (sp_depth c <= N)%nat) -> OpenOK cfg (s_open s) (s_simple s) ->
    s_lb (fold_left (enq_step lb ub) cs s) = s_lb s /\ s_sol (fold_left (enq_step lb ub) cs s) = s_sol s /\
    s_abort (fold_left (enq_step lb ub) cs s) = s_abort s /\ s_crash (fold_left (enq_step lb ub) cs s) = s_crash s /\
    s_cache (fold_left (enq_step lb ub) cs s) = s_cache s /\
    OpenOK cfg (s_open (fold_left (enq_step lb ub) cs s)) (s_simple (fold_left (enq_step lb ub) cs s)) /\
    (forall x, In x (s_simple (fold_left (enq_step lb ub) cs s)) <->
       In x (s_simple s) \/ exists c, In c cs /\ Z.min ub (sp_ub c) > lb /\ x = set_ub c (Z.min ub (sp_ub c))) /\
    (Phi (s_simple (fold_left (enq_step lb ub) cs s)) <= Phi (s_simple s) + sumf wt cs)%nat.
  Proof.
    induction cs as [|c cs IH]; intros s Hd Hop; cbn [fold_left].
    - repeat (split; [reflexivity|]). split; [exact Hop|]. split.
      + intros x; split; [auto|]. intros [H|(c & [] & _)]; exact H.
      + simpl. lia.
    - assert (Hdc : (sp_depth c <= N)%nat) by (apply Hd; left; reflexivity).
      destruct (enq_step_specC lb ub s c Hdc Hop) as (E1 & E2 & E3 & E4 & E4c & E5 & E6).
      destruct (IH (enq_step lb ub s c)) as (F1 & F2 & F3 & F4 & F4c & F5 & F6 & F7);
        [intros c' Hc'; apply Hd; right; exact Hc'|exact E6|].
      rewrite F1, F2, F3, F4, F4c, E1, E2, E3, E4, E4c. repeat (split; [reflexivity|]). split; [exact F5|]. split.
      + intros x. rewrite F6, E5. destruct (Z.min ub (sp_ub c) >? lb) eqn:E.
        * rewrite Z.gtb_ltb in E. apply Z.ltb_lt in E. cbn [app In]. split.
          -- intros [[Hx|Hx]|(c' & Hc' & Hgt & Hx)].
             ++ right. exists c. split; [left; reflexivity|]. split; [lia|auto].
             ++ left; exact Hx.
             ++ right. exists c'. split; [right; exact Hc'|auto].
          -- intros [Hx|(c' & [Hc'|Hc'] & Hgt & Hx)].
             ++ left; right; exact Hx.
             ++ subst c'. left; left; auto.
             ++ right. exists c'. auto.
        * rewrite Z.gtb_ltb in E. apply Z.ltb_ge in E. cbn [app In]. split.
          -- intros [Hx|(c' & Hc' & Hgt & Hx)]; [left; exact Hx|]. right. exists c'. split; [right; exact Hc'|auto].
          -- intros [Hx|(c' & [Hc'|Hc'] & Hgt & Hx)]; [left; exact Hx| subst c'; lia |]. right. exists c'. auto.
      + eapply Nat.le_trans; [exact F7|]. rewrite E5. cbn [sumf].
        destruct (Z.min ub (sp_ub c) >? lb); cbn [app]; unfold SolverProofs.Phi; cbn [sumf].
        * change (wt (set_ub c (Z.min ub (sp_ub c)))) with (wt c). lia.
        * lia.
  Qed.


  (* ------------------------------------------------------------------ process_one_node *)
  Lemma best_crit (n : @subproblem St) o t : best n = Some o -> sp_value n <= t -> crit o (sp_depth n) (sp_state n) t.
  Proof.
    unfold MddSim.best, oadd. intros Hb Hv.
    destruct (H (sc_problem cfg) (sp_depth n) (sp_state n)) as [h|] eqn:Eh; [|discriminate].
    simpl in Hb. inversion Hb. exists h. split; [exact Eh|lia].
  Qed.

  Lemma process_specC s n s2 err :
    Core s -> length (s_cache s) = S N -> good n -> (sp_depth n <= N)%nat ->
    (forall y, In y (s_simple s) -> sp_ub y <= sp_ub n) ->
    ComplC (s_lb s) (n :: s_simple s) -> CacheInv (s_cache s) (s_lb s) (n :: s_simple s) ->
    process_one_node st_eqb cfg s n = (s2, err) ->
    err = false /\ Core s2 /\ length (s_cache s2) = S N /\ ComplC (s_lb s2) (s_simple s2) /\
    CacheInv (s_cache s2) (s_lb s2) (s_simple s2) /\ (Phi (s_simple s2) < Phi (s_simple s) + wt n)%nat.
  Proof.
    intros HCore Hlen Hg Hd Hmax HCompl HCI. unfold process_one_node.
    set (l := s_simple s) in *.
    (* --- pruned by its upper bound *)
    destruct (sp_ub n <=? s_lb s) eqn:Eub.
    { apply Z.leb_le in Eub. intros Hr; inversion Hr; subst s2 err. split; [reflexivity|]. split; [exact HCore|].
      split; [exact Hlen|]. split; [|split].
      - apply (Compl_transfer (s_lb s) (s_lb s) l l n); [apply incl_refl|lia| |exact HCompl].
        intros o _ Hlt _ Hu. exfalso. lia.
      - intros o Ho Hlt d s0 th He Hc. apply (Just_transfer o l l n); [apply incl_refl| |exact (HCI o Ho Hlt d s0 th He Hc)].
        intros _ Hu. exfalso. lia.
      - pose proof (wt_pos cfg M n). fold l. lia. }
    rewrite cfg_cache.
    destruct (must_explore_some st_eqb (s_cache s) (sp_state n) (sp_depth n) (sp_value n)) as [b Hb]; [rewrite Hlen; lia|].
    rewrite Hb. destruct b.
    2:{ (* --- skipped: the cache holds a threshold that rejects it *)
      intros Hr; inversion Hr; subst s2 err. split; [reflexivity|]. split; [exact HCore|]. split; [exact Hlen|].
      destruct (must_explore_false st_eqb _ _ _ _ Hb) as (th & He & Hrej).
      assert (Key : forall o, OPT = Some o -> s_lb s < o -> best n = Some o -> o <= sp_ub n ->
                exists y, Wit o l y /\
                  ((sp_depth n < sp_depth y)%nat \/
                   (sp_depth y = sp_depth n /\ sp_state y = sp_state n /\ must_explore_th (Some th) (sp_value y) = true))).
      { intros o Ho Hlt Hbn Hun.
        assert (Hc : crit o (sp_depth n) (sp_state n) (th_value th)).
        { apply best_crit; [exact Hbn|]. apply (must_explore_th_false th). exact Hrej. }
        destruct (HCI o Ho Hlt _ _ _ He Hc) as (y & (Hy1 & Hy2 & Hy3) & Hcond).
        destruct Hy1 as [<-|Hy1].
        - exfalso. destruct Hcond as [Hcond|(_ & _ & Hcond)]; [lia|]. rewrite Hcond in Hrej. discriminate.
        - exists y. split; [split; [exact Hy1|auto]|exact Hcond]. }
      split; [|split].
      - intros o Ho. destruct (Z_le_gt_dec o (s_lb s)) as [Hle|Hgt]; [left; exact Hle|]. right.
        destruct (HCompl o Ho) as [Hle|(y & (Hy1 & Hy2 & Hy3))]; [lia|].
        destruct Hy1 as [<-|Hy1].
        + destruct (Key o Ho ltac:(lia) Hy2 Hy3) as (y' & Hy' & _). exists y'. exact Hy'.
        + exists y. split; [exact Hy1|auto].
      - intros o Ho Hlt d s0 th0 He0 Hc0.
        destruct (HCI o Ho Hlt d s0 th0 He0 Hc0) as (y & (Hy1 & Hy2 & Hy3) & Hcond).
        destruct Hy1 as [<-|Hy1].
        + destruct (Key o Ho Hlt Hy2 Hy3) as (y' & Hy' & Hcond').
          destruct Hcond as [Hcond|(E1 & E2 & E3)].
          * exists y'. split; [exact Hy'|]. left. destruct Hcond' as [Hc'|(Hc' & _)]; lia.
          * exfalso. subst d s0. rewrite (entry_fun st_eqb _ _ _ _ _ He0 He) in E3. rewrite E3 in Hrej. discriminate.
        + exists y. split; [split; [exact Hy1|auto]|exact Hcond].
      - pose proof (wt_pos cfg M n). fold l. lia. }
    (* --- explored: restricted, then relaxed compilation *)
    assert (UBn : forall o, OPT = Some o -> s_lb s < o -> o <= sp_ub n).
    { intros o Ho Hlt. destruct (HCompl o Ho) as [Hle|(y & (Hy1 & Hy2 & Hy3))]; [lia|].
      destruct Hy1 as [<-|Hy1]; [exact Hy3|]. specialize (Hmax y Hy1). lia. }
    assert (CS1 : forall o, OPT = Some o -> s_lb s < o -> CS (sp_depth n) (s_cache s) o (Below o l)).
    { intros o Ho Hlt d s0 th Hdd He Hc.
      destruct (HCI o Ho Hlt d s0 th He Hc) as (y & (Hy1 & Hy2 & Hy3) & Hcond).
      destruct Hy1 as [<-|Hy1]; [exfalso; destruct Hcond as [Hcond|(Hcond & _)]; lia|].
      exists y. split; [split; [exact Hy1|auto]|]. destruct Hcond as [Hcond|(Hcond & _)]; lia. }
    destruct (run_compile st_eqb cfg s Restricted n) as [[[sa0 inpa] ma] oa] eqn:Ea.
    destruct (phaseC _ _ _ _ _ _ _ HCore Hlen (or_introl eq_refl) Hg Hd Ea)
      as (-> & Hinpa & Hca & HCa & Hsa & Hcca & Hlma & Hlba & Heva & Hbka).
    cbv beta iota zeta.
    set (sa := maybe_update_best sa0 inpa ma) in HCa, Hsa, Hcca, Hlba, Heva, Hbka |- *.
    fold l in Hsa. subst inpa.
    (* entries left by the restricted compilation *)
    assert (JA : forall o, OPT = Some o -> s_lb sa < o -> forall d s0 th, entry (m_cache ma) d s0 th ->
               crit o d s0 (th_value th) -> entry (s_cache s) d s0 th \/ Below o l (S d)).
    { intros o Ho Hlt d s0 th He Hc.
      destruct (KCW _ _ _ _ _ _ _ _ (or_introl eq_refl) Hg Hd Hlen Hca o (Below o l) Ho (Below_antitone o l)
                  (CS1 o Ho ltac:(lia)) d s0 th He Hc) as [H1|[H1|[H1|(H1 & _)]]].
      - left; exact H1.
      - exfalso. lia.
      - right; exact H1.
      - discriminate. }
    destruct (dd_is_exact ma) eqn:Eexa.
    { intros Hr; inversion Hr; subst s2 err. split; [reflexivity|]. split; [exact HCa|].
      split; [rewrite Hcca; exact Hlma|].
      assert (NewW : forall o, OPT = Some o -> s_lb sa < o -> best n = Some o -> o <= sp_ub n -> Below o l (S (sp_depth n))).
      { intros o Ho Hlt Hbn _.
        destruct (KC2 _ _ _ _ _ _ _ _ (or_introl eq_refl) Hg Hd Hlen Hca Eexa o (Below o l) Ho (Below_antitone o l) Hbn
                    ltac:(lia) (CS1 o Ho ltac:(lia))) as [(e & He & Hoe)|H1]; [|exact H1].
        exfalso. specialize (Heva e He). lia. }
      rewrite Hsa. split; [|split].
      - apply (Compl_transfer (s_lb s) (s_lb sa) l l n); [apply incl_refl|exact Hlba|exact NewW|exact HCompl].
      - rewrite Hcca. intros o Ho Hlt d s0 th He Hc.
        destruct (JA o Ho Hlt d s0 th He Hc) as [H1|H1]; [|apply Below_Just; exact H1].
        apply (Just_transfer o l l n); [apply incl_refl|exact (NewW o Ho Hlt)|].
        exact (HCI o Ho ltac:(lia) d s0 th H1 Hc).
      - pose proof (wt_pos cfg M n). lia. }
    assert (Hlena : length (s_cache sa) = S N) by (rewrite Hcca; exact Hlma).
    assert (CSa : forall o, OPT = Some o -> s_lb sa < o -> CS (sp_depth n) (s_cache sa) o (Below o l)).
    { intros o Ho Hlt d s0 th Hdd He Hc. rewrite Hcca in He.
      destruct (JA o Ho Hlt d s0 th He Hc) as [H1|H1].
      - exact (CS1 o Ho ltac:(lia) d s0 th Hdd H1 Hc).
      - apply (Below_antitone o l (S d)); [lia|exact H1]. }
    destruct (run_compile st_eqb cfg sa Relaxed n) as [[[sb0 inpb] mb] ob] eqn:Eb.
    destruct (phaseC _ _ _ _ _ _ _ HCa Hlena (or_intror eq_refl) Hg Hd Eb)
      as (-> & Hinpb & Hcb & HCb & Hsb & Hccb & Hlmb & Hlbb & Hevb & Hbkb).
    cbv beta iota zeta.
    set (sb := maybe_update_best sb0 inpb mb) in HCb, Hsb, Hccb, Hlbb, Hevb, Hbkb |- *.
    rewrite Hsa in Hsb. subst inpb.
    (* entries left by the relaxed compilation, except those covered by its cut-set *)
    assert (JB : forall o, OPT = Some o -> s_lb sb < o -> forall d s0 th, entry (m_cache mb) d s0 th ->
               crit o d s0 (th_value th) ->
               entry (s_cache s) d s0 th \/ Below o l (S d) \/
               (dd_is_exact mb = false /\
                exists x ox, In x (drain_cutset (mk_input cfg Relaxed n (s_lb sa)) mb) /\ best x = Some ox /\ o <= ox /\
                  ((d < sp_depth x)%nat \/
                   (sp_depth x = d /\ sp_state x = s0 /\ must_explore_th (Some th) (sp_value x) = true)))).
    { intros o Ho Hlt d s0 th He Hc.
      destruct (KCW _ _ _ _ _ _ _ _ (or_intror eq_refl) Hg Hd Hlena Hcb o (Below o l) Ho (Below_antitone o l)
                  (CSa o Ho ltac:(lia)) d s0 th He Hc) as [H1|[H1|[H1|(_ & H1 & H2)]]].
      - rewrite Hcca in H1. destruct (JA o Ho ltac:(lia) d s0 th H1 Hc) as [H3|H3]; [left; exact H3|right; left; exact H3].
      - exfalso. lia.
      - right; left; exact H1.
      - right; right. split; [exact H1|exact H2]. }
    destruct (dd_is_exact mb) eqn:Eexb.
    { intros Hr; inversion Hr; subst s2 err. split; [reflexivity|]. split; [exact HCb|].
      split; [rewrite Hccb; exact Hlmb|].
      assert (NewW : forall o, OPT = Some o -> s_lb sb < o -> best n = Some o -> o <= sp_ub n -> Below o l (S (sp_depth n))).
      { intros o Ho Hlt Hbn _.
        destruct (KC2 _ _ _ _ _ _ _ _ (or_intror eq_refl) Hg Hd Hlena Hcb Eexb o (Below o l) Ho (Below_antitone o l) Hbn
                    ltac:(lia) (CSa o Ho ltac:(lia))) as [(e & He & Hoe)|H1]; [|exact H1].
        exfalso. specialize (Hevb e He). lia. }
      rewrite Hsb. split; [|split].
      - apply (Compl_transfer (s_lb s) (s_lb sb) l l n); [apply incl_refl|lia|exact NewW|exact HCompl].
      - rewrite Hccb. intros o Ho Hlt d s0 th He Hc.
        destruct (JB o Ho Hlt d s0 th He Hc) as [H1|[H1|(H1 & _)]]; [|apply Below_Just; exact H1|discriminate].
        apply (Just_transfer o l l n); [apply incl_refl|exact (NewW o Ho Hlt)|].
        exact (HCI o Ho ltac:(lia) d s0 th H1 Hc).
      - pose proof (wt_pos cfg M n). lia. }
    (* --- the cut-set is enqueued *)
    intros Hr; inversion Hr; subst s2 err. clear Hr. split; [reflexivity|].
    rewrite enqueue_cutset_fold.
    set (cs := drain_cutset (mk_input cfg Relaxed n (s_lb sa)) mb) in *.
    assert (Hdep : forall c, In c cs -> (sp_depth n < sp_depth c <= N)%nat).
    { intros c Hc. exact (KC3_depth _ _ _ _ _ _ _ Hg Hd Hlena Hcb Eexb c Hc). }
    destruct HCb as (B1 & B2 & B3 & B4 & B5).
    destruct (enq_fold_specC (s_lb sb) (sp_ub n) cs sb) as (F1 & F2 & F3 & F4 & F4c & F5 & F6 & F7);
      [intros c Hc; apply Hdep in Hc; lia|exact B5|].
    set (s2 := fold_left (enq_step (s_lb sb) (sp_ub n)) cs sb) in *.
    assert (Hincl : incl l (s_simple s2)).
    { intros y Hy. apply F6. left. rewrite Hsb. exact Hy. }
    (* a sub-problem of the cut-set that holds the optimum is represented in the new fringe *)
    assert (CutWit : forall o, OPT = Some o -> s_lb sb < o -> forall x ox, In x cs -> best x = Some ox -> o <= ox ->
              exists y, Wit o (s_simple s2) y /\
                ((sp_depth x < sp_depth y)%nat \/
                 (sp_depth y = sp_depth x /\ sp_state y = sp_state x /\ sp_value y = sp_value x))).
    { intros o Ho Hlt x ox Hx Hbx Hox.
      assert (Hgx : good x) by exact (KC3_good _ _ _ _ _ _ _ Hg Hd Hlena Hcb Eexb x Hx).
      pose proof (best_le_opt x ox o Hgx Hbx Ho) as Hle. assert (ox = o) by lia. subst ox.
      destruct (KC3_ub _ _ _ _ _ _ _ Hg Hd Hlena Hcb Eexb x Hx o (Below o l) Ho (Below_antitone o l) Hbx ltac:(lia)
                  (CSa o Ho ltac:(lia))) as [H1|(y & Hy & Hdy)].
      - exists (set_ub x (Z.min (sp_ub n) (sp_ub x))). split.
        + pose proof (UBn o Ho ltac:(lia)) as Hun. split; [|split].
          * apply F6. right. exists x. split; [exact Hx|]. split; [lia|reflexivity].
          * rewrite best_set_ub. exact Hbx.
          * cbn [set_ub sp_ub]. lia.
        + right. cbn [set_ub sp_depth sp_state sp_value]. auto.
      - exists y. split; [eapply Wit_incl; eauto|]. left. lia. }
    assert (NewW : forall o, OPT = Some o -> s_lb sb < o -> best n = Some o -> o <= sp_ub n ->
              Below o (s_simple s2) (S (sp_depth n))).
    { intros o Ho Hlt Hbn _.
      destruct (KC4 _ _ _ _ _ _ _ Hg Hd Hlena Hcb Eexb o (Below o l) Ho (Below_antitone o l) Hbn ltac:(lia)
                  (CSa o Ho ltac:(lia))) as [(e & He & Hoe)|[(x & ox & Hx & Hbx & Hox)|H1]].
      - exfalso. specialize (Hevb e He). lia.
      - destruct (CutWit o Ho Hlt x ox Hx Hbx Hox) as (y & Hy & Hcond). exists y. split; [exact Hy|].
        pose proof (Hdep x Hx). destruct Hcond as [Hcond|(Hcond & _)]; lia.
      - eapply Below_incl; eauto. }
    split; [|split; [|split; [|split]]].
    - unfold SolverProofs.Core. rewrite F1, F2, F3, F4. split; [exact B1|]. split; [exact B2|]. split; [exact B3|].
      split; [|exact F5]. intros x Hx. apply F6 in Hx. destruct Hx as [Hx|(c & Hc & _ & ->)].
      + apply B4; exact Hx.
      + split; [apply good_set_ub; exact (KC3_good _ _ _ _ _ _ _ Hg Hd Hlena Hcb Eexb c Hc)|]. cbn [set_ub sp_depth]. apply Hdep in Hc. unfold N, pb in Hc. lia.
    - rewrite F4c, Hccb. exact Hlmb.
    - rewrite F1. apply (Compl_transfer (s_lb s) (s_lb sb) l (s_simple s2) n); [exact Hincl|lia|exact NewW|exact HCompl].
    - rewrite F1, F4c, Hccb. intros o Ho Hlt d s0 th He Hc.
      destruct (JB o Ho Hlt d s0 th He Hc) as [H1|[H1|(_ & x & ox & Hx & Hbx & Hox & Hcond)]].
      + apply (Just_transfer o l (s_simple s2) n); [exact Hincl|exact (NewW o Ho Hlt)|].
        exact (HCI o Ho ltac:(lia) d s0 th H1 Hc).
      + apply Below_Just. eapply Below_incl; eauto.
      + destruct (CutWit o Ho Hlt x ox Hx Hbx Hox) as (y & Hy & Hcy). exists y. split; [exact Hy|].
        destruct Hcy as [Hcy|(E1 & E2 & E3)].
        * left. destruct Hcond as [Hcond|(Hcond & _)]; lia.
        * destruct Hcond as [Hcond|(C1 & C2 & C3)]; [left; lia|]. right. rewrite E1, E2, E3. auto.
    - eapply Nat.le_lt_trans; [exact F7|]. rewrite Hsb.
      apply Nat.add_lt_mono_l. apply kids_weight; [|exact Hdep].
      exact (KC5 _ _ _ _ _ _ _ Hg Hd Hlena Hcb Eexb).
  Qed.


  (* ------------------------------------------------------------------ the loop *)
  Notation Final := (SolverProofs.Final cfg (MddSim.best cfg) feasible).

  Lemma pop_inv s x rest s1 :
    InvC s -> Permutation (s_simple s) (x :: rest) -> s_simple s1 = rest -> s_lb s1 = s_lb s ->
    (forall d s0 th, entry (s_cache s1) d s0 th -> entry (s_cache s) d s0 th) ->
    (forall y, In y (s_simple s) -> sp_ub y <= sp_ub x) ->
    (forall y, In y (s_simple s1) -> sp_ub y <= sp_ub x) /\
    ComplC (s_lb s1) (x :: s_simple s1) /\ CacheInv (s_cache s1) (s_lb s1) (x :: s_simple s1).
  Proof.
    intros (_ & _ & HCompl & HCI) Hperm W1 W2 Hent Hmax. rewrite W1, W2.
    assert (Hi : incl (s_simple s) (x :: rest)) by (intros y Hy; eapply Permutation_in; eauto).
    split; [|split].
    - intros y Hy. apply Hmax. eapply Permutation_in; [apply Permutation_sym; exact Hperm|]. right; exact Hy.
    - intros o Ho. destruct (HCompl o Ho) as [Hle|(y & Hy)]; [left; exact Hle|right]. exists y. eapply Wit_incl; eauto.
    - intros o Ho Hlt d s0 th He Hc. eapply Just_incl; [exact Hi|]. apply (HCI o Ho Hlt d s0 th); [apply Hent; exact He|exact Hc].
  Qed.

  Lemma main_loop_specC : forall fuel s, InvC s -> (Phi (s_simple s) < fuel)%nat ->
    exists s', main_loop st_eqb cfg fuel s = (s', Finished) /\ Final s'.
  Proof.
    induction fuel as [|fuel IH]; intros s HI Hfuel; [lia|].
    pose proof HI as (HCore & Hlen & HCompl & HCI).
    cbn [main_loop]. assert (Hcr : s_crash s = false) by apply HCore. rewrite Hcr.
    destruct (get_workload_specC s HCore Hlen) as [(Hemp & s1 & Hgw & W1 & W2 & W3 & W4 & W5 & W6)
                                            |(x & rest & s1 & Hgw & Hperm & W1 & HC1 & W2 & W3 & W4 & W5)]; rewrite Hgw.
    - exists s1. split; [reflexivity|]. unfold SolverProofs.Final. rewrite W6, W5, W4. split; [exact W2|]. split; [exact W3|].
      split; [reflexivity|]. split; [apply HCore|]. intros o Ho.
      destruct (HCompl o Ho) as [Hle|(y & Hy & _)]; [exact Hle|]. rewrite Hemp in Hy. destruct Hy.
    - destruct (process_one_node st_eqb cfg s1 x) as [s2 err] eqn:Ep.
      assert (Hx : In x (s_simple s)).
      { eapply Permutation_in; [apply Permutation_sym; exact Hperm|]. left; reflexivity. }
      destruct HCore as (_ & _ & _ & Hfr & _). destruct (Hfr x Hx) as [Hgx Hdx].
      destruct (pop_inv s x rest s1 HI Hperm W1 W2 W4 W5) as (P1 & P2 & P3).
      destruct (process_specC s1 x s2 err HC1 W3 Hgx Hdx P1 P2 P3 Ep) as (-> & HC2 & Hl2 & HCompl2 & HCI2 & HPhi).
      apply IH; [split; [exact HC2|split; [exact Hl2|split; assumption]]|].
      rewrite (Phi_perm _ _ _ _ Hperm) in Hfuel. unfold SolverProofs.Phi in Hfuel, HPhi |- *. cbn [sumf] in Hfuel.
      rewrite W1 in HPhi. lia.
  Qed.

  Lemma main_loop_partialC : forall fuel s s', InvC s ->
    main_loop st_eqb cfg fuel s = (s', Finished) -> Final s'.
  Proof.
    induction fuel as [|fuel IH]; intros s s' HI; [cbn [main_loop]; discriminate|].
    pose proof HI as (HCore & Hlen & HCompl & HCI).
    cbn [main_loop]. assert (Hcr : s_crash s = false) by apply HCore. rewrite Hcr.
    destruct (get_workload_specC s HCore Hlen) as [(Hemp & s1 & Hgw & W1 & W2 & W3 & W4 & W5 & W6)
                                            |(x & rest & s1 & Hgw & Hperm & W1 & HC1 & W2 & W3 & W4 & W5)]; rewrite Hgw.
    - intros Hr; inversion Hr; subst s'. unfold SolverProofs.Final. rewrite W6, W5, W4. split; [exact W2|]. split; [exact W3|].
      split; [reflexivity|]. split; [apply HCore|]. intros o Ho.
      destruct (HCompl o Ho) as [Hle|(y & Hy & _)]; [exact Hle|]. rewrite Hemp in Hy. destruct Hy.
    - destruct (process_one_node st_eqb cfg s1 x) as [s2 err] eqn:Ep.
      assert (Hx : In x (s_simple s)).
      { eapply Permutation_in; [apply Permutation_sym; exact Hperm|]. left; reflexivity. }
      destruct HCore as (_ & _ & _ & Hfr & _). destruct (Hfr x Hx) as [Hgx Hdx].
      destruct (pop_inv s x rest s1 HI Hperm W1 W2 W4 W5) as (P1 & P2 & P3).
      destruct (process_specC s1 x s2 err HC1 W3 Hgx Hdx P1 P2 P3 Ep) as (-> & HC2 & Hl2 & HCompl2 & HCI2 & HPhi).
      apply IH. split; [exact HC2|split; [exact Hl2|split; assumption]].
  Qed.

  (* ------------------------------------------------------------------ initialisation *)
  Lemma start_state_cache primal : s_cache (start_state cfg primal) = init_cache N.
  Proof.
    unfold start_state. destruct primal as [[pv psol]|].
    - unfold set_primal. destruct (_ >? _); cbn [s_cache upd_s init_sstate]; rewrite cfg_cache; reflexivity.
    - cbn [s_cache init_sstate]. rewrite cfg_cache. reflexivity.
  Qed.

  Lemma initialize_invC s0 :
    s_simple s0 = [] -> s_open s0 = repeat O (S N) -> s_crash s0 = false -> s_abort s0 = false ->
    Incumbent feasible (s_lb s0) (s_sol s0) -> s_cache s0 = init_cache N ->
    InvC (initialize_solver st_eqb cfg s0) /\ s_simple (initialize_solver st_eqb cfg s0) = [root_node cfg].
  Proof.
    intros H1 H2 H3 H4 H5 H6. unfold initialize_solver. rewrite fr_push_simpleC.
    cbn [s_simple s_open s_lb s_sol s_abort s_crash s_cache upd_s]. rewrite H1. split; [|reflexivity].
    split; [|split; [|split]].
    - unfold SolverProofs.Core. cbn [s_simple s_open s_lb s_sol s_abort s_crash upd_s].
      split; [exact H3|]. split; [exact H4|]. split; [exact H5|]. split.
      + intros n [<-|[]]. split; [exact good_root|]. cbn [root_node sp_depth]. lia.
      + intros d Hd. rewrite H2. destruct d as [|d].
        * reflexivity.
        * cbn [repeat upd_nth nth_error]. unfold N, pb. rewrite nth_error_repeat by lia.
          rewrite cnt_cons_other by (cbn [root_node sp_depth]; lia). reflexivity.
    - cbn [s_cache upd_s]. rewrite H6. unfold init_cache. apply repeat_length.
    - cbn [s_simple s_lb upd_s]. intros o Ho. right. exists (root_node cfg). split; [left; reflexivity|].
      split; [exact Ho|]. cbn [root_node sp_ub]. apply opt_in_isize. exact Ho.
    - cbn [s_simple s_lb s_cache upd_s]. rewrite H6. intros o Ho Hlt d s0' th He _. exfalso.
      unfold CacheSearch.entry in He. rewrite cget_init in He. discriminate.
  Qed.

  (* ------------------------------------------------------------------ main theorems, modulo the contracts *)
  Theorem maximize_correctC primal : primal_ok feasible primal ->
    forall fuel, (fuel0 cfg M <= fuel)%nat -> result_ok cfg (MddSim.best cfg) feasible (maximize st_eqb cfg fuel primal).
  Proof.
    intros Hp fuel Hfuel.
    destruct (start_state_ok cfg feasible primal Hp) as (S1 & S2 & S3 & S4 & S5).
    destruct (initialize_invC _ S1 S2 S3 S4 S5 (start_state_cache primal)) as [HInv Hsimple].
    destruct (main_loop_specC fuel _ HInv) as (s' & Hml & HF).
    { rewrite Hsimple. unfold SolverProofs.Phi, SolverProofs.wt. cbn [sumf root_node sp_depth]. rewrite Nat.sub_0_r.
      unfold fuel0 in Hfuel. lia. }
    eapply maximize_of_final; eassumption.
  Qed.

  Theorem seq_cache_partial_correct primal : primal_ok feasible primal ->
    forall fuel, r_outoffuel (maximize st_eqb cfg fuel primal) = false ->
    result_ok cfg (MddSim.best cfg) feasible (maximize st_eqb cfg fuel primal).
  Proof.
    intros Hp fuel Hnf.
    destruct (start_state_ok cfg feasible primal Hp) as (S1 & S2 & S3 & S4 & S5).
    destruct (initialize_invC _ S1 S2 S3 S4 S5 (start_state_cache primal)) as [HInv _].
    destruct (main_loop st_eqb cfg fuel (initialize_solver st_eqb cfg (start_state cfg primal))) as [s' e] eqn:Hml.
    assert (He : e = Finished).
    { unfold maximize in Hnf. fold (start_state cfg primal) in Hnf. rewrite Hml in Hnf.
      cbn [r_outoffuel] in Hnf. destruct e; [reflexivity|discriminate]. }
    subst e. eapply maximize_of_final; [exact feasible_le_opt|exact opt_in_isize|exact Hml|].
    eapply main_loop_partialC; eassumption.
  Qed.

  Theorem seq_cache_solver_correct :
    exists f0, forall fuel, (f0 <= fuel)%nat ->
      let r := maximize st_eqb cfg fuel None in
      r_crash r = false /\ r_outoffuel r = false /\ r_exact r = true /\ r_value r = OPT /\
      (forall v, OPT = Some v ->
         r_lb r = v /\ r_ub r = v /\ exists sol, r_sol r = Some (sort_by dec_var_cmp sol) /\ feasible sol v) /\
      (OPT = None -> r_sol r = None /\ r_lb r = IMIN).
  Proof.
    exists (fuel0 cfg M). intros fuel Hfuel. apply (maximize_correctC None); [|exact Hfuel].
    intros pv psol H; discriminate.
  Qed.

End CacheSolver.

(* ================================================================== 3. the contracts and the invariant as EXECUTABLE checks
   (used to validate their statements on examples: [audit] replays the solver and evaluates, at every iteration, the
   invariant InvC and, at every compilation, the conclusions of KC0, KC2, KC3_ub, KC4, KCW with P := Below o fringe) *)
Section Audit.
  Context {St : Type}.
  Variable st_eqb : St -> St -> bool.
  Variable cfg : @sconfig St.
  Let pb := sc_problem cfg.

  Definition entries (c : @cache St) : list (nat * St * threshold) :=
    flat_map (fun d => match nth_error c d with
                       | Some l => flat_map (fun '(s0, th) =>
                                     match lget st_eqb l s0 with
                                     | Some th' => if (th_value th' =? th_value th) && Bool.eqb (th_explored th') (th_explored th)
                                                   then [(d, s0, th)] else []
                                     | None => [] end) l
                       | None => [] end) (seq 0 (length c)).
  Definition critb (o : Z) (d : nat) (s0 : St) (t : Z) : bool :=
    match H pb d s0 with Some h => o <=? t + h | None => false end.
  Definition witb (o : Z) (y : @subproblem St) : bool :=
    match MddSim.best cfg y with Some v => (v =? o) && (o <=? sp_ub y) | None => false end.
  Definition belowb (o : Z) (l : list (@subproblem St)) (d : nat) : bool :=
    existsb (fun y => witb o y && Nat.leb d (sp_depth y)) l.
  Definition justb (o : Z) (l : list (@subproblem St)) (d : nat) (s0 : St) (th : threshold) : bool :=
    existsb (fun y => witb o y &&
      (Nat.ltb d (sp_depth y) ||
       (Nat.eqb (sp_depth y) d && st_eqb (sp_state y) s0 && must_explore_th (Some th) (sp_value y)))) l.
  Definition csb (k : nat) (c : @cache St) (o : Z) (l : list (@subproblem St)) : bool :=
    forallb (fun '(d, s0, th) => implb (Nat.ltb k d && critb o d s0 (th_value th)) (belowb o l d)) (entries c).
  Definition complb (o lb : Z) (l : list (@subproblem St)) : bool := (o <=? lb) || existsb (witb o) l.
  Definition cacheinvb (o lb : Z) (c : @cache St) (l : list (@subproblem St)) : bool :=
    implb (lb <? o)
      (forallb (fun '(d, s0, th) => implb (critb o d s0 (th_value th)) (justb o l d s0 th)) (entries c)).
  Definition entryb (c : @cache St) (d : nat) (s0 : St) (th : threshold) : bool :=
    match cget st_eqb c s0 d with
    | Some th' => (th_value th' =? th_value th) && Bool.eqb (th_explored th') (th_explored th)
    | None => false end.
  Definition besteq (x : @subproblem St) (o : Z) : bool :=
    match MddSim.best cfg x with Some v => v =? o | None => false end.
  Definition bestge (x : @subproblem St) (o : Z) : bool :=
    match MddSim.best cfg x with Some v => o <=? v | None => false end.
  Definition bevge (inp : @cinput St) (m : @mdd St) (o : Z) : bool :=
    match dd_best_exact_value inp m with Some e => o <=? e | None => false end.

  (* the conclusions of the contracts for one compilation; the second component tells whether the cache premise CS held *)
  Definition kc_check (ct : comptype) (n : @subproblem St) (lb : Z) (c : @cache St) (ds : @dstore St Z) (polls : nat)
      (l : list (@subproblem St)) (o : Z) : bool * bool :=
    let inp := mk_input cfg ct n lb in
    let '(m, out) := compile st_eqb inp 0 0 c ds polls in
    let dn := sp_depth n in
    let cut := drain_cutset inp m in
    let k0 := match out with Compiled => true | _ => false end && negb (m_crash m) && Nat.eqb (length (m_cache m)) (length c) in
    let k2 := implb (dd_is_exact m && besteq n o && (o >? lb)) (bevge inp m o || belowb o l (S dn)) in
    let rx := match ct with Relaxed => negb (dd_is_exact m) | _ => false end in
    let k3 := implb rx (forallb (fun x => implb (besteq x o && (o >? lb)) ((o <=? sp_ub x) || belowb o l (S (sp_depth x)))) cut) in
    let k4 := implb (rx && besteq n o && (o >? lb))
                (bevge inp m o || existsb (fun x => bestge x o) cut || belowb o l (S dn)) in
    let kw := forallb (fun '(d, s0, th) =>
                implb (critb o d s0 (th_value th))
                  (entryb c d s0 th || (o <=? bk_of inp m) || belowb o l (S d) ||
                   (rx && existsb (fun x => bestge x o &&
                      (Nat.ltb d (sp_depth x) ||
                       (Nat.eqb (sp_depth x) d && st_eqb (sp_state x) s0 && must_explore_th (Some th) (sp_value x)))) cut)))
                (entries (m_cache m)) in
    (k0 && implb (csb dn c o l) (k2 && k3 && k4 && kw), implb (lb <? o) (csb dn c o l)).

  (* replay of main_loop; returns (everything checked held, number of compilations whose CS premise held, iterations) *)
  Fixpoint audit_loop (fuel : nat) (s : @sstate St) (o : Z) (acc : bool * nat * nat) : bool * nat * nat :=
    match fuel with
    | O => acc
    | S fuel' =>
        let '(ok, nk, it) := acc in
        if s_crash s then (false, nk, it) else
        let ok := ok && complb o (s_lb s) (s_simple s) && cacheinvb o (s_lb s) (s_cache s) (s_simple s) in
        let '(s1, w) := get_workload st_eqb cfg s in
        match w with
        | WItem x =>
            let l := s_simple s1 in
            let explore :=
              negb (sp_ub x <=? s_lb s1) &&
              match must_explore st_eqb (s_cache s1) (sp_state x) (sp_depth x) (sp_value x) with Some b => b | None => false end in
            let '(ok, nk) :=
              if explore then
                let '(ka, pa) := kc_check Restricted x (s_lb s1) (s_cache s1) (s_dom s1) (s_polls s1) l o in
                let '(sa0, inpa, ma, _) := run_compile st_eqb cfg s1 Restricted x in
                let sa := maybe_update_best sa0 inpa ma in
                if dd_is_exact ma then (ok && ka && pa, S nk)
                else
                  let '(kb, pb') := kc_check Relaxed x (s_lb sa) (s_cache sa) (s_dom sa) (s_polls sa) l o in
                  (ok && ka && pa && kb && pb', S (S nk))
              else (ok, nk) in
            let '(s2, err) := process_one_node st_eqb cfg s1 x in
            if err then (false, nk, it) else audit_loop fuel' s2 o (ok, nk, S it)
        | _ => (ok, nk, it)
        end
    end.

  Definition audit (fuel : nat) : option (bool * nat * nat) :=
    match opt_enum pb with
    | Some o => Some (audit_loop fuel (initialize_solver st_eqb cfg (init_sstate cfg)) o (true, O, O))
    | None => None
    end.
End Audit.

(* ================================================================== 4. the contracts, packaged for the concrete semantics of Assembly.v
   good := sgood pb (reached from the initial state by a feasible run), feasible := sfeasible pb, best := value + Bellman value *)
Section Contract.
  Context {St : Type}.
  Variable st_eqb : St -> St -> bool.
  Variable cfg : @sconfig St.
  Local Notation pb := (sc_problem cfg).
  Local Notation N := (nb_vars (sc_problem cfg)).
  Local Notation good := (sgood (sc_problem cfg)).
  Local Notation feas := (sfeasible (sc_problem cfg)).
  Local Notation bst := (MddSim.best cfg).
  Local Notation OPTo := (opt_enum (sc_problem cfg)).

  (* KC_struct: what a compilation started from ANY cache with a layer per depth does to the structures
     (the counterparts of K0, K1, K3_good, K3_depth, K5) *)
  Definition KC_struct (M : nat) : Prop :=
    (forall ct n lb c ds polls m out,
       dd_ct ct -> good n -> (sp_depth n <= N)%nat -> length c = S N ->
       compile st_eqb (mk_input cfg ct n lb) 0 0 c ds polls = (m, out) ->
       out = Compiled /\ m_crash m = false /\ length (m_cache m) = S N) /\
    (forall ct n lb c ds polls m out,
       dd_ct ct -> good n -> (sp_depth n <= N)%nat -> length c = S N ->
       compile st_eqb (mk_input cfg ct n lb) 0 0 c ds polls = (m, out) ->
       forall v, dd_best_exact_value (mk_input cfg ct n lb) m = Some v ->
       exists sol, dd_best_exact_solution (mk_input cfg ct n lb) m = Some sol /\ feas sol v) /\
    (forall n lb c ds polls m out,
       good n -> (sp_depth n <= N)%nat -> length c = S N ->
       compile st_eqb (mk_input cfg Relaxed n lb) 0 0 c ds polls = (m, out) ->
       dd_is_exact m = false ->
       forall x, In x (drain_cutset (mk_input cfg Relaxed n lb) m) -> good x /\ (sp_depth n < sp_depth x <= N)%nat) /\
    (forall n lb c ds polls m out,
       good n -> (sp_depth n <= N)%nat -> length c = S N ->
       compile st_eqb (mk_input cfg Relaxed n lb) 0 0 c ds polls = (m, out) ->
       dd_is_exact m = false ->
       (length (drain_cutset (mk_input cfg Relaxed n lb) m) <= M)%nat).

  (* KC_cache: the semantic contract.  o is the optimum; [P d] stands for "an open sub-problem of depth >= d still holds o";
     [CS k c o P]: every entry of the initial cache c deeper than k that could reject a run of value o is vouched for by P.
     (a) exact diagram: the optimum of the sub-problem, if it is o, is found or was handed over to P strictly deeper;
     (b) the upper bound of a cut-set node that holds o does not hide it, or o was handed over to P deeper than the node;
     (c) inexact relaxed diagram: o is found, or held by a cut-set node, or handed over to P;
     (d) every critical entry of the final cache is an old one, or o <= best known, or vouched for by P strictly deeper,
         or (inexact relaxed diagram) covered by a cut-set node that the entry does not reject. *)
  Definition KC_cache : Prop :=
    (forall ct n lb c ds polls m out,
       dd_ct ct -> good n -> (sp_depth n <= N)%nat -> length c = S N ->
       compile st_eqb (mk_input cfg ct n lb) 0 0 c ds polls = (m, out) ->
       dd_is_exact m = true ->
       forall o P, OPTo = Some o -> antitone P -> bst n = Some o -> o > lb -> CS st_eqb cfg (sp_depth n) c o P ->
       (exists e, dd_best_exact_value (mk_input cfg ct n lb) m = Some e /\ o <= e) \/ P (S (sp_depth n))) /\
    (forall n lb c ds polls m out,
       good n -> (sp_depth n <= N)%nat -> length c = S N ->
       compile st_eqb (mk_input cfg Relaxed n lb) 0 0 c ds polls = (m, out) ->
       dd_is_exact m = false ->
       forall x, In x (drain_cutset (mk_input cfg Relaxed n lb) m) ->
       forall o P, OPTo = Some o -> antitone P -> bst x = Some o -> o > lb -> CS st_eqb cfg (sp_depth n) c o P ->
       o <= sp_ub x \/ P (S (sp_depth x))) /\
    (forall n lb c ds polls m out,
       good n -> (sp_depth n <= N)%nat -> length c = S N ->
       compile st_eqb (mk_input cfg Relaxed n lb) 0 0 c ds polls = (m, out) ->
       dd_is_exact m = false ->
       forall o P, OPTo = Some o -> antitone P -> bst n = Some o -> o > lb -> CS st_eqb cfg (sp_depth n) c o P ->
       (exists e, dd_best_exact_value (mk_input cfg Relaxed n lb) m = Some e /\ o <= e) \/
       (exists x ox, In x (drain_cutset (mk_input cfg Relaxed n lb) m) /\ bst x = Some ox /\ o <= ox) \/
       P (S (sp_depth n))) /\
    (forall ct n lb c ds polls m out,
       dd_ct ct -> good n -> (sp_depth n <= N)%nat -> length c = S N ->
       compile st_eqb (mk_input cfg ct n lb) 0 0 c ds polls = (m, out) ->
       forall o P, OPTo = Some o -> antitone P -> CS st_eqb cfg (sp_depth n) c o P ->
       forall d s0 th, entry st_eqb (m_cache m) d s0 th -> crit cfg o d s0 (th_value th) ->
         entry st_eqb c d s0 th \/ o <= bk_of (mk_input cfg ct n lb) m \/ P (S d) \/
         (ct = Relaxed /\ dd_is_exact m = false /\
          exists x ox, In x (drain_cutset (mk_input cfg ct n lb) m) /\ bst x = Some ox /\ o <= ox /\
            ((d < sp_depth x)%nat \/
             (sp_depth x = d /\ sp_state x = s0 /\ must_explore_th (Some th) (sp_value x) = true)))).
End Contract.

Section FromContracts.
  Context {St : Type}.
  Variable st_eqb : St -> St -> bool.
  Variable cfg : @sconfig St.
  Local Notation pb := (sc_problem cfg).
  Local Notation N := (nb_vars (sc_problem cfg)).
  Local Notation good := (sgood (sc_problem cfg)).
  Local Notation feas := (sfeasible (sc_problem cfg)).
  Local Notation bst := (MddSim.best cfg).

  Hypothesis cfg_cache : sc_use_cache cfg = true.
  Hypothesis cfg_nodup : sc_nodup cfg = false.
  Hypothesis nv_static : forall k l1 l2, next_variable pb k l1 = next_variable pb k l2.
  Hypothesis nv_some : forall k l, (k < N)%nat -> exists x, next_variable pb k l = Some x.
  Hypothesis nv_none : forall k l, (N <= k)%nat -> next_variable pb k l = None.
  Variable B : Z.
  Hypothesis HB : 2 * B <= IMAX.
  Hypothesis guard0 : forall ds s' v', frun pb 0 (init_state pb) (init_value pb) ds = Some (s', v') -> - B <= v' <= B.

  Lemma OPT_enum : SolverProofs.OPT cfg bst = opt_enum pb.
  Proof. apply OPT_is_opt_enum. Qed.

  Lemma opt_isize o : SolverProofs.OPT cfg bst = Some o -> IMIN < o <= IMAX.
  Proof.
    unfold SolverProofs.OPT, MddSim.best. cbn [root_node sp_value sp_depth sp_state].
    destruct (H pb 0 (init_state pb)) as [h|] eqn:Eh; [|discriminate]. simpl. intros E. inversion E; subst o.
    destruct (H_attained pb nv_static nv_some nv_none (N - 0) 0%nat (init_state pb) (init_value pb) h eq_refl
                ltac:(lia) Eh) as (ds & s' & Hr & _).
    pose proof (guard0 ds s' _ Hr). unfold IMIN, IMAX in *. lia.
  Qed.

  Lemma sbest_le_opt n v o : good n -> bst n = Some v -> SolverProofs.OPT cfg bst = Some o -> v <= o.
  Proof.
    intros (Hd & ds0 & H1 & _ & H3) Hb Ho.
    unfold MddSim.best, oadd in Hb.
    destruct (H pb (sp_depth n) (sp_state n)) as [h|] eqn:Eh; [|discriminate]. simpl in Hb. inversion Hb; subst v.
    destruct (H_attained pb nv_static nv_some nv_none (N - sp_depth n) (sp_depth n) (sp_state n) (sp_value n) h eq_refl Hd Eh)
      as (ds & s' & Hr & Hl).
    assert (Hfull : frun pb 0 (init_state pb) (init_value pb) (ds0 ++ ds) = Some (s', sp_value n + h)).
    { rewrite frun_app, H3, H1. exact Hr. }
    destruct (frun_le_H pb nv_static nv_none (ds0 ++ ds) 0%nat _ _ s' _ ltac:(rewrite app_length; lia) Hfull) as (h0 & Hh0 & Hle).
    unfold SolverProofs.OPT, MddSim.best in Ho. cbn [root_node sp_value sp_depth sp_state] in Ho.
    rewrite Hh0 in Ho. simpl in Ho. inversion Ho; subst o. exact Hle.
  Qed.

  Variable M : nat.
  Hypothesis HKS : KC_struct st_eqb cfg M.
  Hypothesis HKC : KC_cache st_eqb cfg.

  Theorem C09_from_contracts_run :
    exists f0, forall fuel, (f0 <= fuel)%nat ->
      let r := maximize st_eqb cfg fuel None in
      r_crash r = false /\ r_outoffuel r = false /\ r_exact r = true /\ r_value r = opt_enum pb /\
      (forall v, opt_enum pb = Some v ->
         r_lb r = v /\ r_ub r = v /\ exists sol, r_sol r = Some (sort_by dec_var_cmp sol) /\ feas sol v) /\
      (opt_enum pb = None -> r_sol r = None /\ r_lb r = IMIN).
  Proof.
    destruct HKS as (S0 & S1 & S3 & S5). destruct HKC as (C2 & C3 & C4 & CW).
    destruct (seq_cache_solver_correct st_eqb cfg cfg_cache cfg_nodup good feas (Assembly.good_root cfg)
                (Assembly.feasible_le_opt cfg nv_static nv_none) opt_isize sbest_le_opt
                (fun c u => sgood_set_ub pb c u) M) as [f0 Hf].
    - exact S0.
    - exact S1.
    - intros ct n lb c ds polls m out Hct Hg Hd Hl Hc He o P Ho. rewrite OPT_enum in Ho. exact (C2 ct n lb c ds polls m out Hct Hg Hd Hl Hc He o P Ho).
    - intros n lb c ds polls m out Hg Hd Hl Hc He x Hx. exact (proj1 (S3 n lb c ds polls m out Hg Hd Hl Hc He x Hx)).
    - intros n lb c ds polls m out Hg Hd Hl Hc He x Hx. exact (proj2 (S3 n lb c ds polls m out Hg Hd Hl Hc He x Hx)).
    - intros n lb c ds polls m out Hg Hd Hl Hc He x Hx o P Ho. rewrite OPT_enum in Ho. exact (C3 n lb c ds polls m out Hg Hd Hl Hc He x Hx o P Ho).
    - intros n lb c ds polls m out Hg Hd Hl Hc He o P Ho. rewrite OPT_enum in Ho. exact (C4 n lb c ds polls m out Hg Hd Hl Hc He o P Ho).
    - exact S5.
    - intros ct n lb c ds polls m out Hct Hg Hd Hl Hc o P Ho. rewrite OPT_enum in Ho. exact (CW ct n lb c ds polls m out Hct Hg Hd Hl Hc o P Ho).
    - exists f0. intros fuel Hfuel. specialize (Hf fuel Hfuel). rewrite OPT_enum in Hf. exact Hf.
  Qed.

  Theorem C09_from_contracts :
    exists f0, forall fuel, (f0 <= fuel)%nat ->
      let r := maximize st_eqb cfg fuel None in
      r_crash r = false /\ r_outoffuel r = false /\ r_exact r = true /\ r_value r = opt_enum pb /\
      (forall v, opt_enum pb = Some v ->
         r_lb r = v /\ r_ub r = v /\
         exists sol, r_sol r = Some (sort_by dec_var_cmp sol) /\ MddProgress.feasible pb sol v) /\
      (opt_enum pb = None -> r_sol r = None /\ r_lb r = IMIN).
  Proof.
    destruct C09_from_contracts_run as [f0 Hf]. exists f0. intros fuel Hfuel.
    destruct (Hf fuel Hfuel) as (A1 & A2 & A3 & A4 & A5 & A6).
    split; [exact A1|]. split; [exact A2|]. split; [exact A3|]. split; [exact A4|]. split; [|exact A6].
    intros v Hv. destruct (A5 v Hv) as (E1 & E2 & sol & S1 & S2). split; [exact E1|]. split; [exact E2|].
    exists sol. split; [exact S1|]. apply (sfeasible_feasible pb B HB guard0). exact S2.
  Qed.
End FromContracts.

Check @C09_from_contracts.
Print Assumptions C09_from_contracts.

Local Open Scope Z_scope.

(* ================================================================== 5. structural facts about a compilation started from ANY cache *)
Local Open Scope nat_scope.

Local Ltac msimpl :=
  cbn [m_nodes m_edges m_layers m_layer_end m_next m_curr_depth m_path m_lel m_cutset m_best
       m_best_exact m_is_exact m_has_ebp m_cache m_dom m_log m_polls m_crash
       with_nodes upd_node add_log set_crash with_next with_cache with_dom with_lel_exact
       push_layer with_depth with_polls with_best with_cutset append_edge].
Local Ltac msimpl_in H :=
  cbn [m_nodes m_edges m_layers m_layer_end m_next m_curr_depth m_path m_lel m_cutset m_best
       m_best_exact m_is_exact m_has_ebp m_cache m_dom m_log m_polls m_crash
       with_nodes upd_node add_log set_crash with_next with_cache with_dom with_lel_exact
       push_layer with_depth with_polls with_best with_cutset append_edge] in H.
Local Ltac nsimpl :=
  cbn [n_state n_vtop n_vbot n_best n_inb n_rub n_theta n_flags n_depth
       set_flags set_theta set_vbot set_rub set_depth
       f_exact f_relaxed f_marked f_cutset f_deleted f_cache f_above
       fl_set_exact fl_set_relaxed fl_set_marked fl_set_cutset fl_set_deleted fl_set_cache fl_set_above
       fl_new_exact fl_new_relaxed e_from e_to e_dec e_cost].
Local Ltac nsimpl_in H :=
  cbn [n_state n_vtop n_vbot n_best n_inb n_rub n_theta n_flags n_depth
       set_flags set_theta set_vbot set_rub set_depth
       f_exact f_relaxed f_marked f_cutset f_deleted f_cache f_above
       fl_set_exact fl_set_relaxed fl_set_marked fl_set_cutset fl_set_deleted fl_set_cache fl_set_above
       fl_new_exact fl_new_relaxed e_from e_to e_dec e_cost] in H.

Section ProgressC.
  Context {St : Type}.
  Variable st_eqb : St -> St -> bool.
  Hypothesis st_eqb_spec : forall a b, st_eqb a b = true <-> a = b.
  Variable inp : @cinput St.

  Notation mdd := (@mdd St).
  Notation node := (@node St).
  Notation gn := (get_node inp).
  Notation pb := (ci_problem inp).
  Notation root := (ci_root inp).
  Notation N := (nb_vars (ci_problem inp)).
  Notation d0 := (sp_depth (ci_root inp)).
  Notation W := (ci_width inp).
  Notation Pinv := (MddProgress.Pinv inp).
  Notation keep := (MddProgress.keep inp).
  Notation PLinv := (MddProgress.Linv inp).
  Notation PMinv := (MddProgress.Minv inp).
  Notation PPost := (MddProgress.Post inp).
  Notation Finv := (MddProgress.Finv inp).

  Hypothesis Hclean : ci_flavour inp = CleanLEL \/ ci_flavour inp = CleanFC.
  Hypothesis Hnodom : ci_domrule inp = None.
  Hypothesis Hnocut : ci_cutoff inp = 0.
  Hypothesis Hwidth : 1 <= ci_width inp.
  Hypothesis nv_some : forall k l, k < N -> exists x, next_variable pb k l = Some x.
  Hypothesis nv_none : forall k l, N <= k -> next_variable pb k l = None.
  Hypothesis Hroot_depth : d0 <= N.

  (* ---------------------------------------------------------------- the cache filter: frame, crash flag, what it does to the nodes *)
  Lemma cache_get_facts (m : mdd) s d :
    m_nodes (fst (cache_get st_eqb inp m s d)) = m_nodes m /\
    m_cache (fst (cache_get st_eqb inp m s d)) = m_cache m /\
    (d < length (m_cache m) -> m_crash (fst (cache_get st_eqb inp m s d)) = m_crash m) /\
    (forall th, snd (cache_get st_eqb inp m s d) = Some th ->
       ci_use_cache inp = true /\ cget st_eqb (m_cache m) s d = Some th).
  Proof.
    unfold cache_get. destruct (ci_use_cache inp); [|cbn [fst snd]; repeat split; auto; intros; discriminate].
    cbn [m_cache add_log]. unfold get_threshold, cget.
    destruct (nth_error (m_cache m) d) as [l|] eqn:E; cbn [fst snd].
    - repeat split; auto.
    - split; [reflexivity|]. split; [reflexivity|]. split; [|intros; discriminate].
      intros Hlt. apply nth_error_None in E. lia.
  Qed.

  Lemma gn_depth_upd_theta_flags (m : mdd) id (f : node -> node) x :
    (forall n, n_depth (f n) = n_depth n) -> n_depth (gn (upd_node m id f) x) = n_depth (gn m x).
  Proof. intros Hf. apply (get_node_upd_node_proj inp (fun n => n_depth n)). exact Hf. Qed.

  Lemma fwc_crash l : forall (m : mdd),
    (forall id, n_depth (gn m id) < length (m_cache m)) ->
    m_crash (fst (filter_with_cache st_eqb inp m l)) = m_crash m.
  Proof.
    induction l as [|id l IH]; intros m Hd; cbn [filter_with_cache]; [reflexivity|]. cbv zeta.
    destruct (cache_get_facts m (n_state (gn m id)) (n_depth (gn m id))) as (G1 & G2 & G3 & _).
    specialize (G3 (Hd id)).
    destruct (cache_get st_eqb inp m (n_state (gn m id)) (n_depth (gn m id))) as [m1 th]. cbn [fst] in G1, G2, G3.
    assert (Hg1 : forall k, gn m1 k = gn m k) by (intros k; apply gn_nodes_eq; exact G1).
    assert (Hd1 : forall k, n_depth (gn m1 k) < length (m_cache m1)) by (intros k; rewrite Hg1, G2; apply Hd).
    destruct th as [t|].
    - destruct (n_vtop (gn m id) >? th_value t)%Z.
      + specialize (IH m1 Hd1). destruct (filter_with_cache st_eqb inp m1 l) as [m2 r]. cbn [fst] in *. congruence.
      + match goal with |- context [filter_with_cache st_eqb inp ?mm l] => specialize (IH mm) end.
        rewrite IH; [exact G3|]. intros k. rewrite gn_depth_upd_theta_flags by (intros n; reflexivity). apply Hd1.
    - specialize (IH m1 Hd1). destruct (filter_with_cache st_eqb inp m1 l) as [m2 r]. cbn [fst] in *. congruence.
  Qed.

  Lemma Pinv_depth_all dn (m : mdd) : Pinv dn m -> forall id, n_depth (gn m id) <= dn.
  Proof.
    intros HP id. destruct (Nat.lt_ge_cases id (length (m_nodes m))) as [Hlt|Hge].
    - apply (MddProgress.P_depth _ _ _ HP id Hlt).
    - rewrite (gn_out_of_range inp m id Hge). simpl. lia.
  Qed.

  Lemma prefilter_stepC dn (m : mdd) l m' l' :
    prefilter st_eqb inp m l = (m', l') -> dn < length (m_cache m) ->
    Pinv dn m -> Pinv dn m' /\ keep m m' /\ ceq inp m m' /\ incl l' l.
  Proof.
    unfold prefilter. intros H Hc HP.
    destruct (Nat.ltb 0 (length (m_layers m))).
    - pose proof (filter_with_cache_ceq st_eqb inp Hclean l m) as [C1 C2].
      assert (C3 : m_crash (fst (filter_with_cache st_eqb inp m l)) = m_crash m).
      { apply fwc_crash. intros id. pose proof (Pinv_depth_all dn m HP id). lia. }
      rewrite H in C1, C2, C3. simpl in *.
      split; [eapply (MddProgress.Pinv_ceq inp Hnocut Hwidth Hroot_depth); eauto|].
      split; [apply (MddProgress.keep_ceq inp Hnocut Hwidth Hroot_depth); auto|]. split; auto.
    - inversion H; subst. split; [exact HP|]. split; [apply MddProgress.keep_refl|]. split; [apply ceq_refl|apply incl_refl].
  Qed.

  Lemma move_some_stepC (m m' : mdd) l :
    move_to_next_layer_clean st_eqb inp m = (m', Some l) -> m_curr_depth m < length (m_cache m) -> PLinv m -> PMinv m m' l.
  Proof.
    rewrite move_clean_unfold. intros H Hcl [L1 L2 L3 L4 L5 L6 L7].
    set (d := m_curr_depth m) in *.
    destruct (m_next m) as [|x nx] eqn:Hn; [discriminate|]. rewrite <- Hn in H.
    set (ma := with_next m []) in *.
    assert (HPa : Pinv d ma) by (apply MddProgress.Pinv_with_next; [exact L1|intros id []]).
    assert (Hka : keep m ma) by apply (MddProgress.keep_with_next inp Hnocut Hwidth Hroot_depth).
    assert (Hoa : MddProgress.in_open ma (m_next m)) by (intros id Hid; apply (MddProgress.P_next _ _ _ L1); exact Hid).
    destruct (prefilter st_eqb inp ma (m_next m)) as [m1 l1] eqn:H1.
    destruct (filter_with_dominance inp m1 l1) as [m2 l2] eqn:H2.
    destruct (squash_if_needed st_eqb inp m2 l2) as [m3 l3] eqn:H3.
    inversion H; subst m' l; clear H.
    destruct (prefilter_stepC d ma _ m1 l1 H1 Hcl HPa) as (A1 & A2 & A3 & A4).
    destruct (MddProgress.filter_with_dominance_step inp Hnodom Hnocut Hwidth Hroot_depth d m1 l1 m2 l2 H2 A1) as (B1 & B2 & B3 & B4).
    assert (Hk2 : keep m m2).
    { eapply (MddProgress.keep_trans inp Hnocut Hwidth Hroot_depth); [exact Hka|]; eapply (MddProgress.keep_trans inp Hnocut Hwidth Hroot_depth); eauto. }
    assert (Ho2 : MddProgress.in_open m2 l2).
    { apply (MddProgress.in_open_keep inp Hnocut Hwidth Hroot_depth ma m2 (m_next m) l2);
        [eapply (MddProgress.keep_trans inp Hnocut Hwidth Hroot_depth); [exact A2|exact B2]|eapply incl_tran; [exact B4|exact A4]|exact Hoa]. }
    destruct (MddProgress.squash_step st_eqb inp Hclean Hnocut Hwidth Hroot_depth d m2 l2 m3 l3 H3 B1) as (C1 & C2 & C3 & C4 & C5); auto.
    { rewrite (MddProgress.k_layers _ _ _ Hk2). exact L3. }
    assert (Hk3 : keep m m3) by (eapply (MddProgress.keep_trans inp Hnocut Hwidth Hroot_depth); eauto).
    assert (Hn3 : m_next m3 = []).
    { rewrite (squash_next st_eqb inp _ _ _ _ H3).
      destruct B3 as (_ & b & _). destruct A3 as (_ & a & _). rewrite b, a. reflexivity. }
    assert (Hlen2 : length (m_nodes m2) = length (m_nodes m)).
    { destruct B3 as ((_ & _ & b & _) & _). destruct A3 as ((_ & _ & a & _) & _). rewrite b, a. reflexivity. }
    assert (Hlel2 : m_lel m2 = m_lel m).
    { destruct B3 as (_ & _ & _ & _ & b & _). destruct A3 as (_ & _ & _ & _ & a & _). rewrite b, a. reflexivity. }
    set (from := m_layer_end m3). set (to := length (m_nodes m3)).
    set (m4 := push_layer m3 (seq from (to - from)) to).
    assert (Hgn4 : forall k, gn m4 k = gn m3 k) by reflexivity.
    split.
    - apply (MddProgress.Pinv_push_layer inp Hnocut Hwidth Hroot_depth); auto.
    - change (m_crash m4) with (m_crash m3). rewrite (MddProgress.k_crash _ _ _ Hk3). exact L2.
    - change (m_curr_depth m4) with (m_curr_depth m3). apply (MddProgress.k_cd _ _ _ Hk3).
    - exact L3.
    - eexists. unfold m4. msimpl. rewrite (MddProgress.k_layers _ _ _ Hk3). reflexivity.
    - apply (MddProgress.layers_ok_push inp Hnocut Hwidth Hroot_depth).
      + eapply (MddProgress.layers_ok_keep inp Hnocut Hwidth Hroot_depth); eauto.
      + intros id Hid. apply in_seq in Hid. split; [unfold to in Hid; lia|].
        rewrite (MddProgress.P_open _ _ _ C1 id) by (unfold from, to in Hid; lia).
        rewrite (MddProgress.k_layers _ _ _ Hk3). exact L3.
    - unfold m4. msimpl. apply Forall_app. split; [rewrite (MddProgress.k_layers _ _ _ Hk3); exact L6|].
      constructor; [apply seq_NoDup|constructor].
    - intros k Hk Hr. change (m_lel m4) with (m_lel m3) in Hk.
      destruct (C5 k Hk) as [Hold|Hnew]; [|auto]. rewrite Hlel2 in Hold. apply L7; auto.
    - exact Hn3.
    - intros id Hid. destruct (C4 id Hid) as [c1 c2]. rewrite Hgn4. split; [exact c2|].
      apply (MddProgress.P_open _ _ _ C1); auto.
    - change (length (m_nodes m4)) with (length (m_nodes m3)). lia.
  Qed.

  Lemma mc_expand_layer var l : forall (m : mdd), m_cache (fold_left (expand_node st_eqb inp var) l m) = m_cache m.
  Proof. induction l as [|id l IH]; intros m; simpl; [reflexivity|]. rewrite IH. apply mc_expand_node. Qed.

  Lemma layer_loop_postC : forall fuel (m : mdd),
    PLinv m -> N < length (m_cache m) -> N - m_curr_depth m < fuel ->
    exists m', layer_loop st_eqb inp fuel m = (m', LoopDone) /\ PPost m'.
  Proof.
    induction fuel as [|fuel IH]; intros m HL Hcl Hf; [lia|].
    cbn [layer_loop]. cbv zeta.
    set (states := map (fun id => n_state (gn m id)) (m_next m)).
    destruct (Nat.lt_ge_cases (m_curr_depth m) N) as [Hlt|Hge].
    - destruct (nv_some (m_curr_depth m) states Hlt) as [var Hv]. rewrite Hv.
      set (m1 := add_log m (EvNextVar (m_curr_depth m) states (Some var))).
      set (m2 := with_polls m1 (S (m_polls m1))).
      rewrite Hnocut. change (Nat.ltb 0 0) with false. cbn [andb].
      rewrite (MddProgress.not_pooled' inp Hclean).
      assert (HL2 : PLinv m2) by (apply (MddProgress.Linv_frame inp Hnocut Hwidth Hroot_depth m); auto; reflexivity).
      pose proof (mc_move st_eqb inp m2) as Hmc.
      destruct (move_to_next_layer_clean st_eqb inp m2) as [m3 [l|]] eqn:Hmv.
      + assert (Hcl2 : m_curr_depth m2 < length (m_cache m2)) by (change (m_curr_depth m < length (m_cache m)); lia).
        pose proof (move_some_stepC m2 m3 l Hmv Hcl2 HL2) as HM.
        destruct (MddProgress.expand_finish st_eqb inp Hclean Hnocut Hwidth Hroot_depth var m2 m3 l HM Hlt) as [HL4 Hcd4].
        apply IH; [exact HL4| |].
        * cbn [fst] in Hmc. msimpl. rewrite mc_expand_layer, Hmc. exact Hcl.
        * msimpl. rewrite Hcd4. change (m_curr_depth m2) with (m_curr_depth m). lia.
      + exists m3. split; [reflexivity|]. right. exists m2.
        destruct (MddProgress.move_none_inv st_eqb inp m2 m3 Hmv) as [E1 E2]. auto.
    - rewrite (nv_none _ states Hge).
      eexists. split; [reflexivity|]. left. split; [|exact Hge].
      apply (MddProgress.Linv_frame inp Hnocut Hwidth Hroot_depth m); auto; reflexivity.
  Qed.

  (* ---------------------------------------------------------------- _compute_thresholds: crash flag and cache length *)
  Lemma cache_update_facts (m : mdd) s d v e :
    m_nodes (cache_update st_eqb inp m s d v e) = m_nodes m /\
    (d < length (m_cache m) ->
     m_crash (cache_update st_eqb inp m s d v e) = m_crash m /\
     length (m_cache (cache_update st_eqb inp m s d v e)) = length (m_cache m)).
  Proof.
    unfold cache_update. destruct (ci_use_cache inp); [|split; [reflexivity|intros _; split; reflexivity]].
    cbn [m_cache add_log]. unfold update_threshold.
    destruct (nth_error (m_cache m) d) as [l|] eqn:E.
    - split; [reflexivity|]. intros _. split; [reflexivity|]. cbn [m_cache with_cache]. apply upd_nth_length.
    - split; [reflexivity|]. intros Hlt. apply nth_error_None in E. lia.
  Qed.

  Definition CQ (m a : mdd) : Prop :=
    m_crash a = m_crash m /\ length (m_cache a) = length (m_cache m) /\ forall x, n_depth (gn a x) = n_depth (gn m x).

  Lemma CQ_refl m : CQ m m. Proof. repeat split. Qed.
  Lemma CQ_upd_theta (m a : mdd) k (t : node -> option Z) : CQ m a -> CQ m (upd_node a k (fun n => set_theta n (t n))).
  Proof.
    intros (Q1 & Q2 & Q3). split; [exact Q1|]. split; [exact Q2|]. intros x.
    rewrite gn_depth_upd_theta_flags by (intros n; reflexivity). apply Q3.
  Qed.

  Lemma CQ_th_step (m : mdd) bk (a : mdd) id :
    (forall x, n_depth (gn m x) < length (m_cache m)) -> CQ m a -> CQ m (th_step st_eqb inp bk a id).
  Proof.
    intros Hd HQ. unfold th_step. destruct (f_deleted _); [exact HQ|].
    assert (H1 : CQ m (th_own st_eqb inp bk a id)).
    { unfold th_own. cbv zeta. destruct (negb _); [|exact HQ].
      match goal with |- CQ m (maybe_update_cache st_eqb inp ?mm id) => set (m1 := mm); assert (HQ1 : CQ m m1) end.
      { unfold m1. repeat match goal with |- context [if ?c then _ else _] => destruct c end;
          try exact HQ; apply (CQ_upd_theta m a id); exact HQ. }
      unfold maybe_update_cache. destruct (n_theta (gn m1 id)) as [t|]; [|exact HQ1].
      destruct (f_above _); [|exact HQ1].
      destruct HQ1 as (Q1 & Q2 & Q3).
      destruct (cache_update_facts m1 (n_state (gn m1 id)) (n_depth (gn m1 id)) t (negb (f_cutset (n_flags (gn m1 id))))) as (U1 & U2).
      destruct U2 as (U2 & U3); [rewrite Q3, Q2; apply Hd|].
      split; [congruence|]. split; [congruence|]. intros x.
      rewrite (gn_nodes_eq inp m1 _ x U1). apply Q3. }
    unfold th_prop. destruct (n_theta _); [|exact H1].
    apply (MddExact.fold_left_inv (CQ m)); [exact H1|]. intros b eid _ Hb. unfold prop_step. cbv zeta.
    apply (CQ_upd_theta m b _ (fun p => Some (Z.min (opt_default IMAX (n_theta p)) (sat_sub z (e_cost (get_edge b eid)))))). exact Hb.
  Qed.

  Lemma ct_facts (m : mdd) :
    (forall x, n_depth (gn m x) < length (m_cache m)) ->
    m_crash (compute_thresholds st_eqb inp m) = m_crash m /\
    length (m_cache (compute_thresholds st_eqb inp m)) = length (m_cache m).
  Proof.
    intros Hd. assert (HQ : CQ m (compute_thresholds st_eqb inp m)).
    { rewrite compute_thresholds_unfold. destruct (_ || _); [|apply CQ_refl].
      destruct (m_best_exact m) as [be|].
      - cbv zeta. set (bk := Z.max (ci_best_lb inp) (n_vtop (gn m be))).
        assert (HP : CQ m (th_preset inp bk m)).
        { unfold th_preset. apply (MddExact.fold_left_inv (CQ m)); [apply CQ_refl|]. intros a id _ Ha.
          match goal with |- context [if ?c then _ else _] => destruct c end; [|exact Ha].
          apply (CQ_upd_theta m a id (fun _ => Some bk)). exact Ha. }
        apply (MddExact.fold_left_inv (CQ m)); [exact HP|]. intros a id _ Ha. apply CQ_th_step; assumption.
      - apply (MddExact.fold_left_inv (CQ m)); [apply CQ_refl|]. intros a id _ Ha. apply CQ_th_step; assumption. }
    destruct HQ as (Q1 & Q2 & _). auto.
  Qed.

  Lemma insens_cache : MddProgress.insens (fun a : mdd => m_cache a).
  Proof. repeat split. Qed.

  (* ---------------------------------------------------------------- the finished diagram *)
  Lemma finalize_factsC tb tb2 (ml : mdd) :
    PPost ml -> Sinv inp ml -> Xs inp ml -> N < length (m_cache ml) ->
    let m := finalize st_eqb inp tb tb2 ml in
    m_crash m = false /\
    length (m_nodes m) = length (m_nodes ml) /\
    (forall id, id < length (m_nodes m) -> d0 <= n_depth (gn m id) <= N) /\
    MddProgress.layers_ok inp m /\
    length (m_layers m) <= S N /\
    (forall id, In id (m_next m) -> n_depth (gn m id) = N) /\
    (forall b, m_best m = Some b -> In b (m_next m)) /\
    (forall b, m_best_exact m = Some b -> In b (m_next m)) /\
    NoDup (m_cutset m) /\
    (ci_type inp = Relaxed -> forall id, In id (m_cutset m) -> id < length (m_nodes m) /\ d0 < n_depth (gn m id)) /\
    length (m_cache m) = length (m_cache ml).
  Proof.
    intros HPost HS HX Hcl.
    destruct (finalize_spec st_eqb inp Hclean tb tb2 ml HS HX) as (Pl6 & Nl6 & _).
    pose proof (finalize_layers_eq st_eqb inp tb tb2 ml) as Hlayers.
    pose proof (MddProgress.finalize_layers_Finv inp Hclean Hnocut Hwidth Hroot_depth ml HPost) as HF1.
    destruct (MddProgress.finalize_layers_same inp Hclean ml) as (S1 & S2 & S3 & S4 & S5).
    unfold finalize in *.
    set (m1 := finalize_layers inp ml) in *.
    set (m2 := find_best_node inp tb tb2 m1) in *.
    set (m3 := finalize_exact inp m2) in *.
    set (m4 := finalize_cutset inp m3) in *.
    pose proof (compute_local_bounds_keq inp Hclean m4) as K5.
    set (m5 := compute_local_bounds inp m4) in *.
    pose proof (compute_thresholds_keq st_eqb inp m5) as K6.
    set (m6 := compute_thresholds st_eqb inp m5) in *.
    cbv zeta.
    assert (P1l : peq inp ml m1) by (apply peq_same_nodes; auto).
    assert (P16 : peq inp m1 m6) by (eapply peq_trans; [apply peq_sym; exact P1l|exact Pl6]).
    pose proof P16 as (_ & _ & Len16 & C16).
    assert (Hd : forall k, n_depth (gn m6 k) = n_depth (gn m1 k)).
    { intros k. destruct (C16 k) as (_ & _ & _ & _ & _ & _ & c7). congruence. }
    assert (HF3 : Finv m3) by (apply (MddProgress.Finv_same inp m1); auto; reflexivity).
    assert (Hc3 : m_cutset m3 = []).
    { change (m_cutset m3) with (m_cutset m1). rewrite S5. apply (X_cutset _ _ _ HX). }
    destruct (MddProgress.finalize_cutset_facts inp Hclean Hnocut Hwidth Hroot_depth m3 HF3 Hc3) as [Cnd Cdep].
    destruct K5 as (_ & N5 & B5 & BE5 & Cs5). destruct K6 as (_ & N6 & B6 & BE6 & Cs6).
    assert (Hc5 : m_cache m5 = m_cache ml).
    { unfold m5. rewrite (MddProgress.ins_compute_local_bounds inp _ insens_cache). unfold m4.
      rewrite (MddProgress.ins_finalize_cutset inp Hclean _ insens_cache) by reflexivity.
      unfold m3, m2, m1, finalize_exact, find_best_node, finalize_layers. cbv zeta. rewrite (MddProgress.not_pooled' inp Hclean).
      destruct (m_next ml); reflexivity. }
    assert (Hcr5 : m_crash m5 = false).
    { unfold m5. rewrite (MddProgress.ins_compute_local_bounds inp _ (MddProgress.insens_crash)). unfold m4.
      rewrite (MddProgress.ins_finalize_cutset inp Hclean _ (MddProgress.insens_crash)) by reflexivity.
      apply (MddProgress.F_crash _ _ HF1). }
    assert (Hd5 : forall x, n_depth (gn m5 x) < length (m_cache m5)).
    { intros x. rewrite Hc5. destruct (Nat.lt_ge_cases x (length (m_nodes m5))) as [Hlt|Hge].
      - 
        assert (Hdx : n_depth (gn m5 x) = n_depth (gn m1 x)).
        { pose proof (compute_thresholds_keq st_eqb inp m5) as ((_ & _ & _ & C56) & _).
          destruct (C56 x) as (_ & _ & _ & _ & _ & _ & c7). fold m6 in c7. rewrite c7. apply Hd. }
        rewrite Hdx.
        assert (Hx1 : x < length (m_nodes m1)).
        { pose proof (compute_thresholds_keq st_eqb inp m5) as ((_ & _ & L56 & _) & _). fold m6 in L56. lia. }
        pose proof (MddProgress.F_depth _ _ HF1 x Hx1). lia.
      - rewrite (gn_out_of_range inp m5 x Hge). simpl. lia. }
    destruct (ct_facts m5 Hd5) as (Hcr6 & Hlc6). fold m6 in Hcr6, Hlc6.
    assert (Hcr : m_crash m6 = false) by (rewrite Hcr6; exact Hcr5).
    assert (Hb4 : m_best m4 = m_best m3) by (apply (MddProgress.ins_finalize_cutset inp Hclean _ MddProgress.insens_best); reflexivity).
    assert (Hbe4 : m_best_exact m4 = m_best_exact m3) by (apply (MddProgress.ins_finalize_cutset inp Hclean _ MddProgress.insens_best_exact); reflexivity).
    assert (Hn6 : m_next m6 = m_next m1) by (rewrite Nl6, S4; reflexivity).
    assert (Hbest2 : forall b, m_best m2 = Some b -> In b (m_next m1)).
    { intros b Hb. unfold m2, find_best_node in Hb. msimpl_in Hb.
      apply MddExact.pick_In in Hb. apply (argmax_candidates_In inp Hclean) in Hb. exact Hb. }
    split; [exact Hcr|]. split; [rewrite Len16, S1; reflexivity|].
    split; [|split; [|split; [|split; [|split; [|split; [|split; [|split]]]]]]].
    - intros id Hid. rewrite Hd. apply (MddProgress.F_depth _ _ HF1). lia.
    - intros i ids id H1 H2. rewrite Hlayers in H1. destruct (MddProgress.F_layers _ _ HF1 i ids id H1 H2) as [a b].
      rewrite Hd. split; [lia|exact b].
    - rewrite Hlayers. apply (MddProgress.F_nlayers _ _ HF1).
    - intros id Hid. rewrite Hn6 in Hid. rewrite Hd. apply (MddProgress.F_next _ _ HF1); exact Hid.
    - intros b Hb. rewrite Hn6. rewrite B6, B5, Hb4 in Hb. apply Hbest2. exact Hb.
    - intros b Hb. rewrite Hn6. rewrite BE6, BE5, Hbe4 in Hb.
      unfold m3, finalize_exact in Hb. cbv zeta in Hb. msimpl_in Hb.
      destruct (is_relaxed_ct (ci_type inp) && has_exact_best_path inp (S (length (m_nodes m2))) m2 (m_best m2)).
      + apply Hbest2; exact Hb.
      + unfold m2, find_best_node in Hb. msimpl_in Hb.
        apply MddExact.pick_In in Hb. apply (argmax_candidates_In inp Hclean) in Hb. apply filter_In in Hb. tauto.
    - rewrite Cs6, Cs5. exact Cnd.
    - intros Hr id Hid. rewrite Cs6, Cs5 in Hid. destruct (Cdep Hr id Hid) as [a b].
      change (m_nodes m3) with (m_nodes m1) in a. change (gn m3 id) with (gn m1 id) in b.
      rewrite Hd. split; [lia|exact b].
    - rewrite Hlc6, Hc5. reflexivity.
  Qed.


  (* ---------------------------------------------------------------- the theorems about [compile] *)
  Lemma compile_unfoldC tb tb2 c ds polls : N < length c ->
    exists ml, layer_loop st_eqb inp (S (S N)) (initialize inp c ds polls) = (ml, LoopDone) /\
               PPost ml /\ Sinv inp ml /\ Xs inp ml /\ m_cache ml = c /\
               compile st_eqb inp tb tb2 c ds polls = (finalize st_eqb inp tb tb2 ml, Compiled).
  Proof.
    intros Hc.
    destruct (layer_loop_postC (S (S N)) (initialize inp c ds polls)
                (MddProgress.Linv_initialize inp Hclean Hnocut Hwidth Hroot_depth c ds polls)) as (ml & Hl & HP).
    { exact Hc. }
    { simpl. lia. }
    destruct (layer_loop_Sinv st_eqb st_eqb_spec inp Hclean (S (S N)) c ds polls) as [HS HX].
    pose proof (mc_layer_loop st_eqb inp Hclean (S (S N)) (initialize inp c ds polls)) as Hmc.
    rewrite Hl in HS, HX, Hmc. cbn [fst] in HS, HX, Hmc.
    exists ml. split; [exact Hl|]. split; [exact HP|]. split; [exact HS|]. split; [exact HX|]. split; [exact Hmc|].
    unfold compile. cbv zeta. rewrite Hl. reflexivity.
  Qed.

  Theorem compile_completesC tb tb2 c ds polls (m : mdd) out : N < length c ->
    compile st_eqb inp tb tb2 c ds polls = (m, out) ->
    out = Compiled /\ m_crash m = false /\ length (m_cache m) = length c.
  Proof.
    intros Hcl H. destruct (compile_unfoldC tb tb2 c ds polls Hcl) as (ml & _ & HP & HS & HX & Hmc & Hc).
    rewrite Hc in H. inversion H; subst. split; [reflexivity|].
    destruct (finalize_factsC tb tb2 ml HP HS HX Hcl) as (F1 & _ & _ & _ & _ & _ & _ & _ & _ & _ & F11). auto.
  Qed.

  Theorem compile_node_depthC tb tb2 c ds polls (m : mdd) out id : N < length c ->
    compile st_eqb inp tb tb2 c ds polls = (m, out) ->
    id < length (m_nodes m) -> d0 <= n_depth (gn m id) <= N.
  Proof.
    intros Hcl H. destruct (compile_unfoldC tb tb2 c ds polls Hcl) as (ml & _ & HP & HS & HX & Hmc & Hc).
    rewrite Hc in H. inversion H; subst.
    destruct (finalize_factsC tb tb2 ml HP HS HX Hcl) as (_ & _ & F & _). apply F.
  Qed.

  Theorem compile_layer_depthC tb tb2 c ds polls (m : mdd) out i ids id : N < length c ->
    compile st_eqb inp tb tb2 c ds polls = (m, out) ->
    nth_error (m_layers m) i = Some ids -> In id ids ->
    id < length (m_nodes m) /\ n_depth (gn m id) = d0 + i.
  Proof.
    intros Hcl H. destruct (compile_unfoldC tb tb2 c ds polls Hcl) as (ml & _ & HP & HS & HX & Hmc & Hc).
    rewrite Hc in H. inversion H; subst.
    destruct (finalize_factsC tb tb2 ml HP HS HX Hcl) as (_ & _ & _ & F & _). apply F.
  Qed.

  Theorem compile_best_depthC tb tb2 c ds polls (m : mdd) out b : N < length c ->
    compile st_eqb inp tb tb2 c ds polls = (m, out) ->
    m_best m = Some b \/ m_best_exact m = Some b -> n_depth (gn m b) = N.
  Proof.
    intros Hcl H Hb. destruct (compile_unfoldC tb tb2 c ds polls Hcl) as (ml & _ & HP & HS & HX & Hmc & Hc).
    rewrite Hc in H. inversion H; subst.
    destruct (finalize_factsC tb tb2 ml HP HS HX Hcl) as (_ & _ & _ & _ & _ & F & G1 & G2 & _).
    apply F. destruct Hb as [Hb|Hb]; [apply G1|apply G2]; exact Hb.
  Qed.

  Theorem cutset_depthC tb tb2 c ds polls (m : mdd) out sp : N < length c ->
    ci_type inp = Relaxed ->
    compile st_eqb inp tb tb2 c ds polls = (m, out) ->
    In sp (drain_cutset inp m) -> d0 < sp_depth sp <= N.
  Proof.
    intros Hcl Hr H Hin. destruct (compile_unfoldC tb tb2 c ds polls Hcl) as (ml & _ & HP & HS & HX & Hmc & Hc).
    rewrite Hc in H. inversion H; subst.
    destruct (finalize_factsC tb tb2 ml HP HS HX Hcl) as (_ & _ & Fd & _ & _ & _ & _ & _ & _ & Fc & _).
    destruct (MddProgress.drain_cutset_In inp _ sp Hin) as (id & Hid & ->).
    destruct (Fc Hr id Hid) as [a b]. specialize (Fd id a). lia.
  Qed.

  (* ---------------------------------------------------------------- the size of the diagram *)
  Variable D : nat.
  Hypothesis dom_bound : forall x s, length (domain pb x s) <= D.
  Notation Mbound := (MddProgress.Mbound inp D).
  Notation cnt_ok := (MddProgress.cnt_ok inp D).

  Lemma layer_loop_countC : forall fuel (m m' : mdd) e,
    ci_type inp = Relaxed -> PLinv m -> N < length (m_cache m) -> cnt_ok m ->
    layer_loop st_eqb inp fuel m = (m', e) -> length (m_nodes m') <= Mbound.
  Proof.
    induction fuel as [|fuel IH]; intros m m' e Ht HL Hcl HC H.
    - simpl in H. inversion H; subst. apply (MddProgress.cnt_ok_bound inp Hnocut Hwidth Hroot_depth D); [exact HC|].
      pose proof (MddProgress.L_cd _ _ HL). pose proof (MddProgress.L_cdN _ _ HL). lia.
    - assert (Hhere : length (m_nodes m) <= Mbound).
      { apply (MddProgress.cnt_ok_bound inp Hnocut Hwidth Hroot_depth D); [exact HC|].
        pose proof (MddProgress.L_cd _ _ HL). pose proof (MddProgress.L_cdN _ _ HL). lia. }
      revert H. cbn [layer_loop]. cbv zeta.
      set (states := map (fun id => n_state (gn m id)) (m_next m)).
      destruct (next_variable (ci_problem inp) (m_curr_depth m) states) as [var|] eqn:Hv.
      2:{ intros H; inversion H; subst. exact Hhere. }
      assert (Hlt : m_curr_depth m < N).
      { destruct (Nat.lt_ge_cases (m_curr_depth m) N) as [G|G]; [exact G|].
        rewrite (nv_none _ states G) in Hv. discriminate. }
      set (m1 := add_log m (EvNextVar (m_curr_depth m) states (Some var))).
      set (m2 := with_polls m1 (S (m_polls m1))).
      rewrite Hnocut. change (Nat.ltb 0 0) with false. cbn [andb].
      rewrite (MddProgress.not_pooled' inp Hclean).
      assert (HL2 : PLinv m2) by (apply (MddProgress.Linv_frame inp Hnocut Hwidth Hroot_depth m); auto; reflexivity).
      pose proof (mc_move st_eqb inp m2) as Hmc.
      destruct (move_to_next_layer_clean st_eqb inp m2) as [m3 [l|]] eqn:Hmv.
      2:{ intros H; inversion H; subst. destruct (MddProgress.move_none_inv st_eqb inp m2 m' Hmv) as [_ ->]. exact Hhere. }
      assert (Hcl2 : m_curr_depth m2 < length (m_cache m2)) by (change (m_curr_depth m < length (m_cache m)); lia).
      pose proof (move_some_stepC m2 m3 l Hmv Hcl2 HL2) as HM.
      destruct (MddProgress.expand_finish st_eqb inp Hclean Hnocut Hwidth Hroot_depth var m2 m3 l HM Hlt) as [HL4 Hcd4].
      destruct (MddProgress.expand_layer_counts st_eqb inp Hnocut Hwidth Hroot_depth D dom_bound var l m3) as [X1 X2].
      set (m4 := fold_left (expand_node st_eqb inp var) l m3) in *.
      intros H. apply (IH _ _ _ Ht HL4) in H; [exact H| |].
      { cbn [fst] in Hmc. msimpl. unfold m4. rewrite mc_expand_layer, Hmc. exact Hcl. }
      (* the counters after one more layer *)
      pose proof (MddProgress.M_len _ _ _ _ HM) as Hlen3. change (m_nodes m2) with (m_nodes m) in Hlen3.
      rewrite (MddProgress.M_next _ _ _ _ HM) in X2. simpl in X2.
      destruct (MddProgress.M_layers _ _ _ _ HM) as [ids Hly]. change (m_layers m2) with (m_layers m) in Hly.
      pose proof (MddProgress.expand_layer_step st_eqb inp Hclean Hnocut Hwidth Hroot_depth var (m_curr_depth m2) l m3
                    (MddProgress.M_P _ _ _ _ HM) (MddProgress.M_l _ _ _ _ HM)) as [_ Hk4].
      assert (Hk5 : length (m_layers (with_depth m4 (S (m_curr_depth m4)))) = S (length (m_layers m))).
      { msimpl. fold m4 in Hk4. rewrite (MddProgress.k_layers _ _ _ Hk4), Hly, app_length. simpl. lia. }
      destruct HC as (C0 & C1 & C2).
      unfold MddProgress.cnt_ok. rewrite Hk5. msimpl.
      destruct (length (m_layers m)) as [|[|k]] eqn:Ek.
      + destruct C0 as [c1 c2]; auto.
        assert (Hl : length l <= 1).
        { pose proof (MddProgress.move_first_layers_len st_eqb inp m2 m3 l Hmv Ht) as G. change (m_layers m2) with (m_layers m) in G.
          change (m_next m2) with (m_next m) in G. rewrite Ek in G. specialize (G ltac:(lia)). lia. }
        assert (Hm : length l * D <= 1 * D) by (apply Nat.mul_le_mono_r; exact Hl).
        split; [discriminate|]. split; [intros _; lia|intros G; lia].
      + destruct C1 as [c1 c2]; auto.
        assert (Hl : length l <= D).
        { pose proof (MddProgress.move_first_layers_len st_eqb inp m2 m3 l Hmv Ht) as G. change (m_layers m2) with (m_layers m) in G.
          change (m_next m2) with (m_next m) in G. rewrite Ek in G. specialize (G ltac:(lia)). lia. }
        assert (Hm : length l * D <= D * D) by (apply Nat.mul_le_mono_r; exact Hl).
        split; [discriminate|]. split; [discriminate|]. intros _. simpl. lia.
      + assert (H2 : 2 <= S (S k)) by lia. specialize (C2 H2).
        assert (Hl : length l <= W).
        { apply (move_clean_width_relaxed st_eqb inp m2 m3 l Hmv Ht); [|exact Hwidth].
          change (m_layers m2) with (m_layers m). rewrite Ek. lia. }
        assert (Hm : length l * D <= W * D) by (apply Nat.mul_le_mono_r; exact Hl).
        split; [discriminate|]. split; [discriminate|]. intros _.
        replace (S (S (S k)) - 2) with (S (S (S k) - 2)) by lia.
        rewrite Nat.mul_succ_l. lia.
  Qed.

  Theorem cutset_size_boundC tb tb2 c ds polls (m : mdd) out : N < length c ->
    ci_type inp = Relaxed ->
    compile st_eqb inp tb tb2 c ds polls = (m, out) -> length (drain_cutset inp m) <= Mbound.
  Proof.
    intros Hcl Ht H.
    destruct (compile_unfoldC tb tb2 c ds polls Hcl) as (ml & Hl & HP & HS & HX & Hmc & Hc).
    rewrite Hc in H. inversion H; subst. clear H.
    destruct (finalize_factsC tb tb2 ml HP HS HX Hcl) as (_ & Hlen & _ & _ & _ & _ & _ & _ & Fnd & Fc & _).
    assert (Hn : length (m_nodes ml) <= Mbound).
    { eapply layer_loop_countC; [exact Ht|apply (MddProgress.Linv_initialize inp Hclean Hnocut Hwidth Hroot_depth)| | |exact Hl].
      - cbn [m_cache initialize]. exact Hcl.
      - split; [|split]; simpl; intros; try discriminate; lia. }
    set (m := finalize st_eqb inp tb tb2 ml) in *.
    assert (H1 : length (drain_cutset inp m) <= length (m_cutset m)).
    { unfold drain_cutset. destruct (dd_best_value inp m); [|simpl; lia].
      apply MddProgress.flat_map_length_le. intros id. destruct (f_marked _); simpl; lia. }
    assert (H2 : length (m_cutset m) <= length (m_nodes m)).
    { apply MddProgress.NoDup_bounded_length; [exact Fnd|]. intros id Hid. apply (Fc Ht id Hid). }
    lia.
  Qed.
End ProgressC.

Local Open Scope Z_scope.

Section StructHolds.
  Context {St : Type}.
  Variable st_eqb : St -> St -> bool.
  Hypothesis st_eqb_spec : forall a b, st_eqb a b = true <-> a = b.
  Variable cfg : @sconfig St.
  Local Notation pb := (sc_problem cfg).
  Local Notation N := (nb_vars (sc_problem cfg)).
  Hypothesis cfg_clean : sc_flavour cfg = CleanLEL \/ sc_flavour cfg = CleanFC.
  Hypothesis cfg_nodom : sc_domrule cfg = None.
  Hypothesis cfg_nocut : sc_cutoff cfg = 0%nat.
  Hypothesis cfg_width : (1 <= sc_width cfg)%nat.
  Hypothesis nv_static : forall k l1 l2, next_variable pb k l1 = next_variable pb k l2.
  Hypothesis nv_some : forall k l, (k < N)%nat -> exists x, next_variable pb k l = Some x.
  Hypothesis nv_none : forall k l, (N <= k)%nat -> next_variable pb k l = None.
  Variable D : nat.
  Hypothesis dom_bound : forall x s, (length (domain pb x s) <= D)%nat.
  Variable B : Z.
  Hypothesis HB : 2 * B <= IMAX.
  Hypothesis guard0 : forall ds s' v', frun pb 0 (init_state pb) (init_value pb) ds = Some (s', v') -> - B <= v' <= B.

  Local Notation good := (sgood (sc_problem cfg)).
  Local Notation feas := (sfeasible (sc_problem cfg)).

  Lemma gguardC n : good n -> forall ds s' v',
    frun pb (sp_depth n) (sp_state n) (sp_value n) ds = Some (s', v') -> - B <= v' <= B.
  Proof. apply sgood_guard. exact guard0. Qed.

  Lemma len_lt (c : @cache St) : length c = S N -> (N < length c)%nat.
  Proof. intros H. rewrite H. lia. Qed.

  Theorem KC_struct_holds : KC_struct st_eqb cfg (Kbound cfg D).
  Proof.
    split; [|split; [|split]].
    - intros ct n lb c ds polls m out _ _ Hd Hl Hc.
      destruct (compile_completesC st_eqb st_eqb_spec (mk_input cfg ct n lb) cfg_clean cfg_nodom cfg_nocut cfg_width
                  nv_some nv_none Hd 0%nat 0%nat c ds polls m out (len_lt c Hl) Hc) as (A1 & A2 & A3).
      split; [exact A1|]. split; [exact A2|]. rewrite A3. exact Hl.
    - intros ct n lb c ds polls m out _ Hg Hd Hl Hc v Hv.
      destruct (compile_completesC st_eqb st_eqb_spec (mk_input cfg ct n lb) cfg_clean cfg_nodom cfg_nocut cfg_width
                  nv_some nv_none Hd 0%nat 0%nat c ds polls m out (len_lt c Hl) Hc) as (-> & _ & _).
      unfold dd_best_exact_value in Hv. unfold dd_best_exact_solution.
      destruct (m_best_exact m) as [b|] eqn:Eb; [|discriminate]. simpl in Hv. inversion Hv; subst v. simpl.
      destruct (best_exact_solution_genuine st_eqb st_eqb_spec (mk_input cfg ct n lb) cfg_clean 0%nat 0%nat c ds polls m b Hc Eb)
        as (Hlt & Hcc & _ & Hpath & Hlen).
      pose proof (Assembly.clean_chain_frun st_eqb st_eqb_spec (mk_input cfg ct n lb) cfg_clean nv_static B HB (gguardC n Hg)
                    0%nat 0%nat c ds polls m b Hc Hcc Hlt) as Hrun.
      pose proof (compile_best_depthC st_eqb st_eqb_spec (mk_input cfg ct n lb) cfg_clean cfg_nodom cfg_nocut cfg_width
                    nv_some nv_none Hd 0%nat 0%nat c ds polls m Compiled b (len_lt c Hl) Hc (or_intror Eb)) as HdN.
      destruct Hg as (_ & ds0 & G1 & G2 & G3).
      eexists. split; [reflexivity|].
      exists (ds0 ++ rev (chain (mk_input cfg ct n lb) m b)), (n_state (get_node (mk_input cfg ct n lb) m b)).
      split; [|split].
      + rewrite app_length, rev_length, G1, Hlen, HdN. cbn [mk_input ci_root ci_problem]. lia.
      + rewrite Hpath. apply Permutation_app; [exact G2|]. apply Permutation_sym, Permutation_rev.
      + rewrite frun_app, G3, G1. exact Hrun.
    - intros n lb c ds polls m out Hg Hd Hl Hc _ x Hx.
      destruct (compile_completesC st_eqb st_eqb_spec (mk_input cfg Relaxed n lb) cfg_clean cfg_nodom cfg_nocut cfg_width
                  nv_some nv_none Hd 0%nat 0%nat c ds polls m out (len_lt c Hl) Hc) as (-> & _ & _).
      pose proof (cutset_depthC st_eqb st_eqb_spec (mk_input cfg Relaxed n lb) cfg_clean cfg_nodom cfg_nocut cfg_width
                    nv_some nv_none Hd 0%nat 0%nat c ds polls m Compiled x (len_lt c Hl) eq_refl Hc Hx) as Hdx.
      cbn [mk_input ci_root ci_problem] in Hdx. split; [|exact Hdx].
      destruct (cutset_nodes_exact st_eqb st_eqb_spec (mk_input cfg Relaxed n lb) cfg_clean 0%nat 0%nat c ds polls m x Hc Hx)
        as (id & _ & Hlt & _ & Hcc & Hpath & Hst & Hval & _ & _ & Hlen).
      pose proof (Assembly.clean_chain_frun st_eqb st_eqb_spec (mk_input cfg Relaxed n lb) cfg_clean nv_static B HB (gguardC n Hg)
                    0%nat 0%nat c ds polls m id Hc Hcc Hlt) as Hrun.
      destruct Hg as (_ & ds0 & G1 & G2 & G3).
      split; [apply Hdx|].
      exists (ds0 ++ rev (chain (mk_input cfg Relaxed n lb) m id)). split; [|split].
      + rewrite app_length, rev_length, G1, Hlen. reflexivity.
      + rewrite Hpath. apply Permutation_app; [exact G2|]. apply Permutation_sym, Permutation_rev.
      + rewrite frun_app, G3, G1, Hst, Hval. exact Hrun.
    - intros n lb c ds polls m out Hg Hd Hl Hc _.
      exact (cutset_size_boundC st_eqb st_eqb_spec (mk_input cfg Relaxed n lb) cfg_clean cfg_nodom cfg_nocut cfg_width
               nv_some nv_none Hd D dom_bound 0%nat 0%nat c ds polls m out (len_lt c Hl) eq_refl Hc).
  Qed.
End StructHolds.

Local Open Scope nat_scope.


(* ================================================================== 6. the layer loop of a RELAXED compilation started from ANY cache *)
Section LoopC.
  Context {St : Type}.
  Variable st_eqb : St -> St -> bool.
  Hypothesis st_eqb_spec : forall a b, st_eqb a b = true <-> a = b.
  Variable inp : @cinput St.
  Let pb := ci_problem inp.
  Let rlx := ci_relax inp.
  Let root := ci_root inp.
  Let lb := ci_best_lb inp.
  Let N := nb_vars pb.
  Let rd := sp_depth root.
  Let rs := sp_state root.
  Let rv := sp_value root.
  Hypothesis Hclean : ci_flavour inp = CleanLEL \/ ci_flavour inp = CleanFC.
  Hypothesis Hnodom : ci_domrule inp = None.
  Hypothesis Hnocut : ci_cutoff inp = 0.
  Hypothesis Hwidth : 1 <= ci_width inp.
  Hypothesis Hrel : ci_type inp = Relaxed.
  Hypothesis Hrd : rd <= N.
  Hypothesis nv_static : forall k l1 l2, next_variable pb k l1 = next_variable pb k l2.
  Hypothesis nv_some : forall k l, k < N -> exists x, next_variable pb k l = Some x.
  Hypothesis nv_none : forall k l, N <= k -> next_variable pb k l = None.
  Variable cov : St -> St -> Prop.
  Hypothesis cov_refl : forall s, cov s s.
  Hypothesis cov_sim : forall s s' x v, cov s s' -> In v (domain pb x s') ->
    let d := {| d_var := x; d_val := v |} in
    In v (domain pb x s) /\ cov (transition pb s d) (transition pb s' d) /\
    (transition_cost pb s' (transition pb s' d) d <= transition_cost pb s (transition pb s d) d)%Z.
  Hypothesis merge_cov : forall L s s', In s L -> cov s s' -> cov (merge rlx L) s'.
  Hypothesis relax_ge : forall src dst mg d c, (c <= relax rlx src dst mg d c)%Z.

  Notation mdd := (@mdd St).
  Notation node := (@node St).
  Notation gn := (get_node inp).
  Notation dpath := (MddSim.dpath inp cov).
  Notation del := (Thresholds.del inp).
  Notation same_below := (Thresholds.same_below inp).

  (* ---------------------------------------------------------------- nodes outside a set are not touched *)
  Definition outside (S : nat -> Prop) (m m' : mdd) : Prop := forall x, ~ S x -> gn m' x = gn m x.

  Lemma outside_refl (S : nat -> Prop) m : outside S m m. Proof. intros x _. reflexivity. Qed.
  Lemma outside_trans (S : nat -> Prop) a b c : outside S a b -> outside S b c -> outside S a c.
  Proof. intros H1 H2 x Hx. rewrite H2, H1; auto. Qed.
  Lemma outside_nodes (S : nat -> Prop) (m m' : mdd) : m_nodes m' = m_nodes m -> outside S m m'.
  Proof. intros H x _. apply gn_nodes_eq. exact H. Qed.
  Lemma outside_upd (S : nat -> Prop) (m : mdd) id f : S id -> outside S m (upd_node m id f).
  Proof. intros H x Hx. apply gn_upd_other. intros ->. contradiction. Qed.
  Lemma outside_append (S : nat -> Prop) (m : mdd) e : S (e_to e) -> outside S m (append_edge inp m e).
  Proof. intros H x Hx. apply gn_append_other. intros ->. contradiction. Qed.
  Lemma outside_snoc (S : nat -> Prop) (m : mdd) n : S (length (m_nodes m)) -> outside S m (with_nodes m (m_nodes m ++ [n])).
  Proof.
    intros H x Hx. destruct (Nat.lt_ge_cases x (length (m_nodes m))) as [Hlt|Hge].
    - apply gn_snoc_old. exact Hlt.
    - assert (x <> length (m_nodes m)) by (intros ->; contradiction).
      rewrite (gn_out_of_range inp m x) by lia.
      apply gn_out_of_range. msimpl. rewrite app_length. simpl. lia.
  Qed.
  Lemma outside_fold {X} (S : nat -> Prop) (f : mdd -> X -> mdd) l : forall m,
    (forall a x, In x l -> outside S a (f a x)) -> outside S m (fold_left f l m).
  Proof.
    induction l as [|x l IH]; intros m Hf; simpl; [apply outside_refl|].
    eapply outside_trans; [apply Hf; left; reflexivity|]. apply IH. intros a y Hy. apply Hf. right; exact Hy.
  Qed.

  Lemma outside_drop_step (S : nat -> Prop) merged mid (a : mdd) did : S mid -> S did -> outside S a (drop_step inp merged mid a did).
  Proof.
    intros H1 H2. unfold drop_step. rewrite redirect_edges_fold.
    eapply outside_trans; [apply outside_upd; exact H2|].
    apply outside_fold. intros c eid _. unfold redirect_step. cbv zeta.
    match goal with |- outside S c (append_edge inp ?mm ?ee) =>
      apply (outside_trans S c mm); [apply outside_nodes; reflexivity|apply outside_append; nsimpl; exact H1] end.
  Qed.

  Lemma squash_outside (m : mdd) l :
    outside (fun x => In x l \/ x = length (m_nodes m)) m (fst (squash_if_needed st_eqb inp m l)).
  Proof.
    unfold squash_if_needed. rewrite Hrel.
    destruct (Nat.ltb (ci_width inp) (length l) && Nat.ltb 1 (length (m_layers m))) eqn:Eg; [|apply outside_refl]. cbn [fst].
    apply andb_true_iff in Eg. destruct Eg as [Eg _]. apply Nat.ltb_lt in Eg.
    assert (Hex : exists w1, ci_width inp = S w1) by (exists (ci_width inp - 1); lia).
    destruct Hex as [w1 Ew]. rewrite Ew in Eg. rewrite (relax_layer_unfold st_eqb inp m l w1 Ew). cbv zeta.
    destruct (note_squash_fields inp Hclean m) as (F1 & _).
    set (m0 := note_squash inp m) in *.
    set (S := fun x => In x l \/ x = length (m_nodes m)).
    set (sorted := sort_by (rank_order inp m0) l).
    assert (Hslen : length sorted = length l) by apply sort_by_length.
    assert (Hsorted : forall x, In x sorted -> In x l) by (intros x Hx; apply sort_by_In in Hx; exact Hx).
    assert (Hkeep : forall x, In x (firstn w1 sorted) -> S x).
    { intros x Hx. left. apply Hsorted. rewrite <- (firstn_skipn w1 sorted). apply in_or_app; left; exact Hx. }
    assert (Hmrg : forall x, In x (skipn w1 sorted) -> S x).
    { intros x Hx. left. apply Hsorted. rewrite <- (firstn_skipn w1 sorted). apply in_or_app; right; exact Hx. }
    match goal with |- context [add_log m0 ?ev] => set (m1 := add_log m0 ev) end.
    assert (O1 : outside S m m1) by (apply outside_nodes; exact F1).
    match goal with |- context [find ?f ?k] => destruct (find f k) as [rid|] eqn:Hrec end; cbn [fst].
    - apply find_some in Hrec. destruct Hrec as [Hrin _].
      match goal with |- outside S m (upd_node ?m3 ?sv _) =>
        apply (outside_trans S m m3); [|apply outside_upd; left; apply Hsorted; apply nth_In; lia] end.
      match goal with |- outside S m (fold_left ?f ?L ?m2) =>
        apply (outside_trans S m m2);
          [|apply outside_fold; intros a y Hy; apply outside_drop_step; [apply Hkeep; exact Hrin|apply Hmrg; exact Hy]] end.
      apply (outside_trans S m m1); [exact O1|]. apply outside_upd. apply Hkeep. exact Hrin.
    - assert (Hmid : S (length (m_nodes m1))) by (right; unfold m1; msimpl; rewrite F1; reflexivity).
      match goal with |- outside S m (fold_left ?f ?L ?m2) =>
        apply (outside_trans S m m2);
          [|apply outside_fold; intros a y Hy; apply outside_drop_step; [exact Hmid|apply Hmrg; exact Hy]] end.
      match goal with |- outside S m (upd_node ?m1' _ _) =>
        apply (outside_trans S m m1'); [|apply outside_upd; exact Hmid] end.
      apply (outside_trans S m m1); [exact O1|]. apply outside_snoc. exact Hmid.
  Qed.

  (* ---------------------------------------------------------------- what the cache filter does to the nodes *)
  Definition dropnode (n : node) (t : Z) : node := set_theta (set_flags n (fl_set_cache (n_flags n) true)) (Some t).

  Lemma fwc_nodes l : forall (m : mdd), NoDup l -> (forall x, In x l -> x < length (m_nodes m)) ->
    (forall x, ~ In x l -> gn (fst (filter_with_cache st_eqb inp m l)) x = gn m x) /\
    (forall x, In x (snd (filter_with_cache st_eqb inp m l)) ->
       In x l /\ gn (fst (filter_with_cache st_eqb inp m l)) x = gn m x) /\
    (forall x, In x l -> ~ In x (snd (filter_with_cache st_eqb inp m l)) ->
       exists th, ci_use_cache inp = true /\
         cget st_eqb (m_cache m) (n_state (gn m x)) (n_depth (gn m x)) = Some th /\
         (n_vtop (gn m x) <= th_value th)%Z /\
         gn (fst (filter_with_cache st_eqb inp m l)) x = dropnode (gn m x) (th_value th)) /\
    NoDup (snd (filter_with_cache st_eqb inp m l)).
  Proof.
    induction l as [|id l IH]; intros m Hnd Hr; cbn [filter_with_cache].
    - cbn [fst snd]. split; [reflexivity|]. split; [intros x []|]. split; [intros x []|constructor].
    - cbv zeta. inversion Hnd as [|? ? Hnin Hnd']; subst.
      destruct (cache_get_facts st_eqb inp Hnocut Hwidth Hrd m (n_state (gn m id)) (n_depth (gn m id))) as (G1 & G2 & _ & G4).
      destruct (cache_get st_eqb inp m (n_state (gn m id)) (n_depth (gn m id))) as [m1 th]. cbn [fst snd] in G1, G2, G4.
      assert (Hg1 : forall k, gn m1 k = gn m k) by (intros k; apply gn_nodes_eq; exact G1).
      assert (Hr1 : forall x, In x l -> x < length (m_nodes m1)) by (intros x Hx; rewrite G1; apply Hr; right; exact Hx).
      assert (Hkeepcase : forall (HH : True),
                let r := (let '(m2, r0) := filter_with_cache st_eqb inp m1 l in (m2, id :: r0)) in
                (forall x, ~ In x (id :: l) -> gn (fst r) x = gn m x) /\
                (forall x, In x (snd r) -> In x (id :: l) /\ gn (fst r) x = gn m x) /\
                (forall x, In x (id :: l) -> ~ In x (snd r) ->
                   exists th0, ci_use_cache inp = true /\
                     cget st_eqb (m_cache m) (n_state (gn m x)) (n_depth (gn m x)) = Some th0 /\
                     (n_vtop (gn m x) <= th_value th0)%Z /\ gn (fst r) x = dropnode (gn m x) (th_value th0)) /\
                NoDup (snd r)).
      { intros _. cbv zeta. destruct (IH m1 Hnd' Hr1) as (I1 & I2 & I3 & I4).
        destruct (filter_with_cache st_eqb inp m1 l) as [m2 r0]. cbn [fst snd] in *.
        split; [|split; [|split]].
        - intros x Hx. rewrite I1 by (intros H; apply Hx; right; exact H). apply Hg1.
        - intros x [<-|Hx].
          + split; [left; reflexivity|]. rewrite I1 by exact Hnin. apply Hg1.
          + destruct (I2 x Hx) as [a b]. split; [right; exact a|]. rewrite b. apply Hg1.
        - intros x [<-|Hx] Hn; [exfalso; apply Hn; left; reflexivity|].
          destruct (I3 x Hx) as (th0 & T1 & T2 & T3 & T4); [intros H; apply Hn; right; exact H|].
          exists th0. rewrite !Hg1, G2 in T2. rewrite Hg1 in T3, T4. auto.
        - constructor; [|exact I4]. intros H. apply Hnin. apply (I2 id H). }
      destruct th as [t|].
      + destruct (n_vtop (gn m id) >? th_value t)%Z eqn:Ev; [apply (Hkeepcase I)|].
        clear Hkeepcase. destruct (G4 t eq_refl) as [Huse Hcg].
        rewrite Z.gtb_ltb in Ev. apply Z.ltb_ge in Ev.
        set (f := fun n : node => set_theta (set_flags n (fl_set_cache (n_flags n) true)) (Some (th_value t))).
        set (m1' := upd_node m1 id f).
        assert (Hidlt : id < length (m_nodes m1)) by (rewrite G1; apply Hr; left; reflexivity).
        assert (Hg1' : forall k, k <> id -> gn m1' k = gn m k).
        { intros k Hk. unfold m1'. rewrite gn_upd_other by congruence. apply Hg1. }
        assert (Hgid : gn m1' id = dropnode (gn m id) (th_value t)).
        { unfold m1'. rewrite gn_upd_same by exact Hidlt. unfold f, dropnode. rewrite Hg1. reflexivity. }
        destruct (IH m1' Hnd') as (I1 & I2 & I3 & I4).
        { intros x Hx. unfold m1'. msimpl. rewrite upd_nth_length. apply Hr1. exact Hx. }
        destruct (filter_with_cache st_eqb inp m1' l) as [m2 r0]. cbn [fst snd] in *.
        split; [|split; [|split]].
        * intros x Hx. rewrite I1 by (intros H; apply Hx; right; exact H). apply Hg1'. intros ->. apply Hx. left; reflexivity.
        * intros x Hx. destruct (I2 x Hx) as [a b]. split; [right; exact a|]. rewrite b. apply Hg1'. intros ->. contradiction.
        * intros x [<-|Hx] Hn.
          -- exists t. split; [exact Huse|]. split; [exact Hcg|]. split; [exact Ev|]. rewrite I1 by exact Hnin. exact Hgid.
          -- assert (Hxid : x <> id) by (intros ->; contradiction).
             destruct (I3 x Hx Hn) as (th0 & T1 & T2 & T3 & T4).
             exists th0. rewrite !(Hg1' x Hxid) in T2, T3, T4. change (m_cache m1') with (m_cache m1) in T2. rewrite G2 in T2. auto.
        * exact I4.
      + apply (Hkeepcase I).
  Qed.

  (* theta and the cache flag of the existing nodes are left alone *)
  Definition thc (m m' : mdd) : Prop :=
    forall x, x < length (m_nodes m) ->
      f_cache (n_flags (gn m' x)) = f_cache (n_flags (gn m x)) /\ n_theta (gn m' x) = n_theta (gn m x).
  Lemma thc_refl m : thc m m. Proof. intros x _. split; reflexivity. Qed.
  Lemma thc_trans a b c : length (m_nodes a) <= length (m_nodes b) -> thc a b -> thc b c -> thc a c.
  Proof. intros Hl H1 H2 x Hx. destruct (H1 x Hx) as [a1 a2]. destruct (H2 x ltac:(lia)) as [b1 b2]. split; congruence. Qed.
  Lemma thc_nodes (m m' : mdd) : m_nodes m' = m_nodes m -> thc m m'.
  Proof. intros H x _. rewrite (gn_nodes_eq inp m m' x H). split; reflexivity. Qed.
  Lemma thc_upd (m : mdd) id f :
    (forall n, f_cache (n_flags (f n)) = f_cache (n_flags n) /\ n_theta (f n) = n_theta n) -> thc m (upd_node m id f).
  Proof.
    intros Hf x _. split.
    - apply (get_node_upd_node_proj inp (fun n => f_cache (n_flags n))). intros n. apply Hf.
    - apply (get_node_upd_node_proj inp (fun n => n_theta n)). intros n. apply Hf.
  Qed.
  Lemma thc_append (m : mdd) e : thc m (append_edge inp m e).
  Proof.
    intros x Hx. destruct (Nat.eq_dec x (e_to e)) as [->|Hne].
    - rewrite gn_append_same by exact Hx. cbv zeta. nsimpl. split; reflexivity.
    - rewrite gn_append_other by exact Hne. split; reflexivity.
  Qed.
  Lemma thc_snoc (m : mdd) n : thc m (with_nodes m (m_nodes m ++ [n])).
  Proof. intros x Hx. rewrite gn_snoc_old by exact Hx. split; reflexivity. Qed.

  Lemma thc_drop_step merged mid (a : mdd) did :
    thc a (drop_step inp merged mid a did) /\ length (m_nodes (drop_step inp merged mid a did)) = length (m_nodes a).
  Proof.
    split; [|apply drop_step_nodes_length].
    unfold drop_step. rewrite redirect_edges_fold.
    set (a1 := upd_node a did (fun n => set_flags n (fl_set_deleted (n_flags n) true))).
    assert (H1 : thc a a1) by (apply thc_upd; intros n; split; reflexivity).
    assert (L1 : length (m_nodes a1) = length (m_nodes a)) by (unfold a1; msimpl; apply upd_nth_length).
    assert (G : forall L (b : mdd), length (m_nodes b) = length (m_nodes a) -> thc a b ->
              thc a (fold_left (redirect_step inp merged mid) L b)).
    { induction L as [|eid L IH]; intros b Lb Hb; simpl; [exact Hb|].
      apply IH.
      - unfold redirect_step. cbv zeta. msimpl. rewrite upd_nth_length. exact Lb.
      - apply (thc_trans a b); [lia|exact Hb|]. unfold redirect_step. cbv zeta.
        match goal with |- thc b (append_edge inp ?mm ?ee) =>
          apply (thc_trans b mm); [apply Nat.le_refl|apply thc_nodes; reflexivity|apply thc_append] end. }
    apply G; assumption.
  Qed.

  Lemma squash_thc (m : mdd) l : thc m (fst (squash_if_needed st_eqb inp m l)).
  Proof.
    unfold squash_if_needed. rewrite Hrel.
    destruct (Nat.ltb (ci_width inp) (length l) && Nat.ltb 1 (length (m_layers m))) eqn:Eg; [|apply thc_refl]. cbn [fst].
    assert (Hex : exists w1, ci_width inp = S w1) by (exists (ci_width inp - 1); lia).
    destruct Hex as [w1 Ew]. rewrite (relax_layer_unfold st_eqb inp m l w1 Ew). cbv zeta.
    destruct (note_squash_fields inp Hclean m) as (F1 & _).
    set (m0 := note_squash inp m) in *.
    match goal with |- context [add_log m0 ?ev] => set (m1 := add_log m0 ev) end.
    assert (O1 : thc m m1) by (apply thc_nodes; exact F1).
    assert (L1 : length (m_nodes m1) = length (m_nodes m)) by (unfold m1; msimpl; rewrite F1; reflexivity).
    assert (GF : forall mg mid L (b : mdd), length (m_nodes m) <= length (m_nodes b) -> thc m b ->
               thc m (fold_left (drop_step inp mg mid) L b) /\
               length (m_nodes (fold_left (drop_step inp mg mid) L b)) = length (m_nodes b)).
    { intros mg mid L. induction L as [|y L IH]; intros b Lb Hb; simpl; [split; [exact Hb|reflexivity]|].
      destruct (thc_drop_step mg mid b y) as [T1 T2].
      destruct (IH (drop_step inp mg mid b y)) as [I1 I2]; [rewrite T2; exact Lb|apply (thc_trans m b); [exact Lb|exact Hb|exact T1]|].
      split; [exact I1|]. rewrite I2. exact T2. }
    match goal with |- context [find ?f ?k] => destruct (find f k) as [rid|] end; cbn [fst].
    - set (m2 := upd_node m1 rid set_relaxed_flag).
      assert (H2 : thc m m2).
      { apply (thc_trans m m1); [lia|exact O1|]. apply thc_upd. intros n. split; reflexivity. }
      assert (L2 : length (m_nodes m2) = length (m_nodes m)) by (unfold m2; msimpl; rewrite upd_nth_length; exact L1).
      match goal with |- thc m (upd_node (fold_left (drop_step inp ?mg ?mid) ?L m2) ?sv ?g) => destruct (GF mg mid L m2) as [G1 G2]; [lia|exact H2|] end.
      match goal with |- thc m (upd_node ?m3 ?sv ?g) =>
        apply (thc_trans m m3); [rewrite G2; lia|exact G1|apply thc_upd; intros n; split; reflexivity] end.
    - match goal with |- thc m (fold_left ?f ?L ?m2') => set (m2 := m2') end.
      assert (H2 : thc m m2).
      { unfold m2. match goal with |- thc m (upd_node ?m1' _ _) =>
          apply (thc_trans m m1'); [msimpl; rewrite app_length; lia| |apply thc_upd; intros n; split; reflexivity] end.
        apply (thc_trans m m1); [lia|exact O1|apply thc_snoc]. }
      assert (L2 : length (m_nodes m) <= length (m_nodes m2)).
      { unfold m2. msimpl. rewrite upd_nth_length, app_length. lia. }
      match goal with |- thc m (fold_left (drop_step inp ?mg ?mid) ?L m2) => apply (GF mg mid L m2 L2 H2) end.
  Qed.

  (* ---------------------------------------------------------------- _move_to_next_layer, simulation part (MddSim.move_sim with the cache) *)
  Notation Cinv := (MddSim.Cinv inp).
  Notation Einv := (MddSim.Einv inp).
  Notation gr := (MddSim.gr inp).
  Notation enabled := (MddSim.enabled inp).

  Definition kept (m : mdd) : list nat := snd (prefilter st_eqb inp (with_next m []) (m_next m)).

  Lemma move_simC (m : mdd) d :
    Cinv d m -> m_next m <> [] ->
    exists m3 l ids, move_to_next_layer_clean st_eqb inp m = (m3, Some l) /\
      Cinv (S d) m3 /\ m_next m3 = [] /\
      (forall id, In id l -> id < m_layer_end m3 /\ n_depth (gn m3 id) = d) /\
      m_curr_depth m3 = m_curr_depth m /\ m_layers m3 = m_layers m ++ [ids] /\
      (forall id, In id l -> In id ids) /\
      (enabled m3 -> enabled m) /\
      (forall i0 c0 sc0 u ds s', In u (kept m) -> (1 < length (m_layers m) -> ds <> []) -> enabled m3 ->
        dpath m i0 c0 sc0 ds u s' -> exists u', In u' l /\ dpath m3 i0 c0 sc0 ds u' s') /\
      MddSim.srcs m m3 /\
      (forall x, x < m_layer_end m -> core_eq (gn m x) (gn m3 x)) /\
      (forall x, MddSim.Src m3 x -> ~ In x ids) /\
      (forall x, In x ids -> m_layer_end m <= x) /\
      m_layer_end m <= m_layer_end m3 /\
      (forall i u s ds t s', dpath m i u s ds t s' -> dpath m3 i u s ds t s').
  Proof.
    intros (HD & HX & Hnd & HE) Hne. unfold kept.
    rewrite move_clean_unfold.
    destruct (m_next m) as [|c0 cs] eqn:En; [congruence|].
    set (curr := c0 :: cs) in *.
    set (ma := with_next m []).
    assert (Hpa : peq inp m ma) by (apply peq_same_nodes; reflexivity).
    assert (HDa : Dinv inp ma).
    { eapply (Dg_peq inp Hclean); [exact Hpa|exact HD|apply Nat.le_refl|apply (D_le _ _ _ HD)|]. intros id []. }
    assert (HXa : Xinv inp ma) by (eapply Xg_peq; [exact Hpa|reflexivity|reflexivity|reflexivity|exact HX]).
    assert (HEa : Einv ma).
    { eapply (MddSim.Einv_frame inp Hnocut Hwidth Hrd); [| | | |exact HE]; try reflexivity. apply (MddSim.E_le _ _ HE). }
    assert (Hla : layer_ok inp ma curr d).
    { intros id Hid. rewrite <- En in Hid. split; [apply (D_next _ _ _ HD id Hid)|apply Hnd; exact Hid]. }
    (* cache filter *)
    assert (Hb : ceq inp ma (fst (prefilter st_eqb inp ma curr)) /\ incl (snd (prefilter st_eqb inp ma curr)) curr).
    { unfold prefilter. destruct (Nat.ltb 0 (length (m_layers ma))).
      - apply (filter_with_cache_ceq st_eqb inp Hclean curr ma).
      - split; [apply ceq_refl|apply incl_refl]. }
    destruct (prefilter st_eqb inp ma curr) as [mb lb0]. cbn [fst snd] in Hb. destruct Hb as [Hcb Hib].
    (* dominance filter *)
    pose proof (filter_with_dominance_ceq inp mb lb0) as [Hcc _].
    pose proof (MddSim.filter_with_dominance_nodom inp Hnodom mb lb0) as Hlc.
    destruct (filter_with_dominance inp mb lb0) as [mc lc]. cbn [fst snd] in Hcc, Hlc.
    assert (Hac : ceq inp ma mc) by (eapply ceq_trans; eauto).
    assert (HDc : Dinv inp mc) by (eapply (Dg_ceq inp Hclean); eauto).
    assert (HXc : Xinv inp mc) by (eapply Xinv_ceq; eauto).
    assert (HEc : Einv mc) by (eapply (MddSim.Einv_ceq inp Hnocut Hwidth Hrd); eauto).
    assert (Hlcl : layer_ok inp mc lc d).
    { eapply layer_ok_stable; [apply ceq_stable; exact Hac|exact Hla|]. intros x Hx. apply Hib. apply Hlc. exact Hx. }
    assert (Hnc : m_next mc = []) by (destruct Hac as (_ & Hn & _); rewrite Hn; reflexivity).
    (* squash *)
    destruct (squash_if_needed_inv st_eqb inp Hclean mc lc d HDc HXc Hlcl) as (Q1 & Q2 & Q3 & Q4 & Q5).
    destruct (MddSim.squash_sim st_eqb st_eqb_spec inp Hclean Hnocut Hwidth Hrd cov merge_cov relax_ge mc lc d HDc HXc HEc Hlcl)
      as (S1 & S2 & S2s & S3 & S4).
    destruct (squash_if_needed st_eqb inp mc lc) as [md ld]. cbn [fst snd] in *.
    set (from := m_layer_end md). set (to := length (m_nodes md)).
    assert (Hft : from <= to) by apply (D_le _ _ _ Q1).
    set (m3 := push_layer md (seq from (to - from)) to).
    assert (Hp : peq inp md m3) by (apply peq_same_nodes; reflexivity).
    exists m3, ld, (seq from (to - from)).
    split; [reflexivity|].
    assert (Hlay3 : m_layers m3 = m_layers m ++ [seq from (to - from)]).
    { unfold m3. msimpl. f_equal. rewrite (MddSim.gr_layers inp _ _ S2).
      destruct Hac as (_ & _ & _ & Hl & _). rewrite Hl. reflexivity. }
    assert (Hle_mc : m_layer_end mc = m_layer_end m).
    { destruct Hac as (_ & _ & Hl & _). rewrite Hl. reflexivity. }
    assert (Hle_md : m_layer_end md = m_layer_end m).
    { destruct Q3 as (q1 & _). rewrite q1. exact Hle_mc. }
    assert (Htrack : forall i0 cc0 sc0 u ds s', In u lb0 -> (1 < length (m_layers m) -> ds <> []) -> enabled m3 ->
              dpath m i0 cc0 sc0 ds u s' -> exists u', In u' ld /\ dpath m3 i0 cc0 sc0 ds u' s').
    { intros i0 cc0 sc0 u ds s' Hu Hds Hen Hpth.
      assert (Hpc : dpath mc i0 cc0 sc0 ds u s').
      { eapply (MddSim.dpath_ceq inp Hnocut Hwidth Hrd); [exact Hac|].
        eapply (MddSim.dpath_peq inp Hnocut Hwidth Hrd); [exact Hpa| |exact Hpth]. auto. }
      destruct (S4 i0 cc0 sc0 u ds s') as (u' & Hu' & Hp').
      + apply Hlc. exact Hu.
      + intros H1. apply Hds. destruct Hac as (_ & _ & _ & Hl & _). rewrite Hl in H1. exact H1.
      + exact Hen.
      + exact Hpc.
      + exists u'. split; [exact Hu'|]. eapply (MddSim.dpath_peq inp Hnocut Hwidth Hrd); [exact Hp| |exact Hp'].
        intros k x. unfold m3. msimpl. apply MddSim.nth_layers_app. }
    split; [|split; [|split; [|split; [|split; [|split; [|split; [|split; [|split; [|split; [|split; [|split; [|split]]]]]]]]]]]].
    - split; [|split; [|split]].
      + eapply (Dg_peq inp Hclean); [exact Hp|exact Q1|exact Hft|apply Nat.le_refl|].
        intros id Hid. unfold m3 in Hid. msimpl_in Hid. rewrite Q4, Hnc in Hid. destruct Hid.
      + apply Xg_push_layer.
        * eapply Xg_weaken; [|exact Q2]. exact Hft.
        * apply Nat.le_refl.
        * intros id Hid. apply in_seq in Hid. unfold m3. msimpl. unfold from, to in *. lia.
      + intros id Hid. unfold m3 in Hid. msimpl_in Hid. rewrite Q4, Hnc in Hid. destruct Hid.
      + apply (MddSim.Einv_frame inp Hnocut Hwidth Hrd md m3); [reflexivity|reflexivity|exact Hft|apply Nat.le_refl|exact S1].
    - unfold m3. msimpl. rewrite Q4. exact Hnc.
    - intros id Hid. destruct (Q5 id Hid) as [Hr Hdp]. unfold m3. msimpl. split; [unfold to; lia|exact Hdp].
    - unfold m3. msimpl. destruct Q3 as (_ & _ & _ & _ & q5). rewrite q5.
      destruct Hac as (_ & _ & _ & _ & _ & _ & a7). rewrite a7. reflexivity.
    - exact Hlay3.
    - intros id Hid. destruct (Q5 id Hid) as [Hr _]. apply in_seq. unfold from, to. lia.
    - intros Hen. assert (Hmc : enabled mc) by (apply S3; exact Hen).
      intros Ht. specialize (Hmc Ht). destruct Hac as (_ & _ & _ & _ & Hlel & _). rewrite Hlel in Hmc. exact Hmc.
    - exact Htrack.
    - eapply MddSim.srcs_trans; [|eapply MddSim.srcs_trans; [exact S2s|apply MddSim.srcs_edges_eq; reflexivity]].
      apply MddSim.srcs_edges_eq. destruct Hac as ((Hce & _) & _). rewrite Hce. reflexivity.
    - intros x Hx.
      destruct Hpa as (_ & _ & _ & A4a). destruct Hac as ((_ & _ & _ & A4c) & _).
      destruct Q3 as (_ & _ & q3 & _). destruct Hp as (_ & _ & _ & A4p).
      eapply (core_eq_trans inp Hclean); [apply A4a|]. eapply (core_eq_trans inp Hclean); [apply A4c|].
      eapply (core_eq_trans inp Hclean); [apply q3; rewrite Hle_mc; exact Hx|apply A4p].
    - intros x (eid & He1 & He2) Hin. apply in_seq in Hin.
      change (m_edges m3) with (m_edges md) in He1. change (get_edge m3 eid) with (get_edge md eid) in He2.
      pose proof (MddSim.E_from _ _ S1 eid He1) as Hf. rewrite He2 in Hf. unfold from in Hin. lia.
    - intros x Hin. apply in_seq in Hin. unfold from in Hin. lia.
    - unfold m3. msimpl. unfold to, from in *. lia.
    - intros i u s ds t s' Hpth.
      assert (Hpc : dpath mc i u s ds t s').
      { eapply (MddSim.dpath_ceq inp Hnocut Hwidth Hrd); [exact Hac|].
        eapply (MddSim.dpath_peq inp Hnocut Hwidth Hrd); [exact Hpa| |exact Hpth]. auto. }
      eapply (MddSim.dpath_peq inp Hnocut Hwidth Hrd); [exact Hp| |eapply (MddSim.dpath_gr inp Hnocut Hwidth Hrd); [exact S2|exact Hpc]].
      intros k x. unfold m3. msimpl. apply MddSim.nth_layers_app.
  Qed.

  Lemma squash_ld_sub (m : mdd) l : forall x, In x (snd (squash_if_needed st_eqb inp m l)) -> In x l \/ x = length (m_nodes m).
  Proof.
    intros x. unfold squash_if_needed. rewrite Hrel.
    destruct (Nat.ltb (ci_width inp) (length l) && Nat.ltb 1 (length (m_layers m))) eqn:Eg; [|cbn [snd]; auto].
    assert (Hex : exists w1, ci_width inp = S w1) by (exists (ci_width inp - 1); lia).
    destruct Hex as [w1 Ew]. rewrite (relax_layer_unfold st_eqb inp m l w1 Ew). cbv zeta.
    destruct (note_squash_fields inp Hclean m) as (F1 & _).
    set (m0 := note_squash inp m) in *.
    set (sorted := sort_by (rank_order inp m0) l).
    assert (Hsorted : forall y, In y sorted -> In y l) by (intros y Hy; apply sort_by_In in Hy; exact Hy).
    match goal with |- context [find ?f ?k] => destruct (find f k) as [rid|] end; cbn [snd]; intros Hx.
    - left. apply Hsorted. rewrite <- (firstn_skipn (S w1) sorted). apply in_or_app. left; exact Hx.
    - apply in_app_or in Hx. destruct Hx as [Hx|[<-|[]]].
      + left. apply Hsorted. rewrite <- (firstn_skipn w1 sorted). apply in_or_app. left; exact Hx.
      + right. msimpl. rewrite F1. reflexivity.
  Qed.

  Lemma squash_new_node (m : mdd) l :
    length (m_nodes m) < length (m_nodes (fst (squash_if_needed st_eqb inp m l))) ->
    f_cache (n_flags (gn (fst (squash_if_needed st_eqb inp m l)) (length (m_nodes m)))) = false.
  Proof.
    unfold squash_if_needed. rewrite Hrel.
    destruct (Nat.ltb (ci_width inp) (length l) && Nat.ltb 1 (length (m_layers m))) eqn:Eg; [|cbn [fst]; lia].
    assert (Hex : exists w1, ci_width inp = S w1) by (exists (ci_width inp - 1); lia).
    destruct Hex as [w1 Ew]. rewrite (relax_layer_unfold st_eqb inp m l w1 Ew). cbv zeta.
    destruct (note_squash_fields inp Hclean m) as (F1 & _).
    set (m0 := note_squash inp m) in *.
    match goal with |- context [add_log m0 ?ev] => set (m1 := add_log m0 ev) end.
    assert (L1 : length (m_nodes m1) = length (m_nodes m)) by (unfold m1; msimpl; rewrite F1; reflexivity).
    assert (GF : forall mg mid L (b : mdd),
               thc b (fold_left (drop_step inp mg mid) L b) /\
               length (m_nodes (fold_left (drop_step inp mg mid) L b)) = length (m_nodes b)).
    { intros mg mid L. induction L as [|y L IH]; intros b; simpl; [split; [apply thc_refl|reflexivity]|].
      destruct (thc_drop_step mg mid b y) as [T1 T2].
      destruct (IH (drop_step inp mg mid b y)) as [I1 I2].
      split; [apply (thc_trans b (drop_step inp mg mid b y)); [lia|exact T1|exact I1]|]. rewrite I2. exact T2. }
    match goal with |- context [find ?f ?k] => destruct (find f k) as [rid|] end; cbn [fst].
    - intros Hlt. exfalso. revert Hlt. msimpl. rewrite upd_nth_length.
      match goal with |- context [fold_left (drop_step inp ?mg ?mid) ?L ?b] => destruct (GF mg mid L b) as [_ G2] end.
      rewrite G2. msimpl. rewrite upd_nth_length. fold (m_nodes m1). rewrite L1. lia.
    - intros _.
      match goal with |- context [fold_left (drop_step inp ?mg ?mid) ?L ?b] => set (m2 := b); destruct (GF mg mid L b) as [G1 _] end.
      fold m2 in G1.
      assert (Hlt2 : length (m_nodes m) < length (m_nodes m2)).
      { unfold m2. msimpl. rewrite upd_nth_length, app_length. fold (m_nodes m1). rewrite L1. simpl. lia. }
      destruct (G1 (length (m_nodes m)) Hlt2) as [G1a _]. rewrite G1a.
      unfold m2. rewrite <- L1. rewrite gn_upd_same by (msimpl; rewrite app_length; simpl; lia).
      rewrite gn_snoc_new. reflexivity.
  Qed.

  (* ---------------------------------------------------------------- _move_to_next_layer, frames and flags (Thresholds.move_extra with the cache) *)
  Notation tr := (Thresholds.tr inp).
  Let tr_transC := Thresholds.tr_trans inp Hnocut Hwidth Hrd.
  Let tr_sameC := Thresholds.tr_same inp Hnocut Hwidth Hrd.
  Definition fcache (m : mdd) (x : nat) : bool := f_cache (n_flags (gn m x)).

  Lemma move_extraC (m : mdd) :
    m_next m <> [] -> m_layer_end m <= length (m_nodes m) ->
    (forall x, In x (m_next m) <-> m_layer_end m <= x < length (m_nodes m)) -> NoDup (m_next m) ->
    (forall x, In x (m_next m) -> del m x = false) ->
    (forall x, In x (m_next m) -> fcache m x = false) ->
    exists m3 l, move_to_next_layer_clean st_eqb inp m = (m3, Some l) /\
      m_layer_end m3 = length (m_nodes m3) /\
      m_layers m3 = m_layers m ++ [seq (m_layer_end m) (length (m_nodes m3) - m_layer_end m)] /\
      same_below (m_layer_end m) m m3 /\ tr m m3 /\
      (forall x, In x l -> del m3 x = false /\ m_layer_end m <= x < length (m_nodes m3)) /\
      (forall x, m_layer_end m <= x < length (m_nodes m3) -> del m3 x = false -> fcache m3 x = false -> In x l) /\
      (m_lel m3 = m_lel m \/ (m_lel m = None /\ m_lel m3 = Some (length (m_layers m) - 1) /\ 1 < length (m_layers m))) /\
      (forall x, In x l -> fcache m3 x = false) /\
      incl (kept m) (m_next m) /\
      (forall x, In x (m_next m) -> ~ In x (kept m) ->
         del m3 x = false /\
         exists th, ci_use_cache inp = true /\
           cget st_eqb (m_cache m) (n_state (gn m x)) (n_depth (gn m x)) = Some th /\
           (n_vtop (gn m x) <= th_value th)%Z /\ gn m3 x = dropnode (gn m x) (th_value th)) /\
      (forall x, In x (kept m) -> fcache m3 x = false) /\
      (forall x, m_layer_end m <= x < length (m_nodes m3) -> In x (m_next m) \/ In x l).
  Proof.
    intros Hne Hle Hopen Hnd Hdel Hfc. unfold kept.
    rewrite move_clean_unfold. destruct (m_next m) as [|c0 cs] eqn:En; [congruence|].
    set (curr := c0 :: cs) in *.
    set (ma := with_next m []).
    assert (Hga : forall k, gn ma k = gn m k) by reflexivity.
    (* cache filter *)
    assert (Hb : ceq inp ma (fst (prefilter st_eqb inp ma curr)) /\ incl (snd (prefilter st_eqb inp ma curr)) curr /\
                 m_nodes (fst (prefilter st_eqb inp ma curr)) = m_nodes ma \/ True).
    { right. exact I. }
    clear Hb.
    assert (Hpre : let r := prefilter st_eqb inp ma curr in
              ceq inp ma (fst r) /\ length (m_nodes (fst r)) = length (m_nodes m) /\ NoDup (snd r) /\
              (forall x, ~ In x curr -> gn (fst r) x = gn m x) /\
              (forall x, In x (snd r) -> In x curr /\ gn (fst r) x = gn m x) /\
              (forall x, In x curr -> ~ In x (snd r) ->
                 exists th, ci_use_cache inp = true /\
                   cget st_eqb (m_cache m) (n_state (gn m x)) (n_depth (gn m x)) = Some th /\
                   (n_vtop (gn m x) <= th_value th)%Z /\ gn (fst r) x = dropnode (gn m x) (th_value th))).
    { cbv zeta. unfold prefilter. destruct (Nat.ltb 0 (length (m_layers ma))).
      - destruct (filter_with_cache_ceq st_eqb inp Hclean curr ma) as [C1 C2].
        destruct (fwc_nodes curr ma Hnd) as (W1 & W2 & W3 & W4).
        { intros x Hx. apply Hopen. exact Hx. }
        split; [exact C1|]. split; [destruct C1 as ((_ & _ & c & _) & _); exact c|]. split; [exact W4|].
        split; [exact W1|]. split; [exact W2|exact W3].
      - cbn [fst snd]. split; [apply ceq_refl|]. split; [reflexivity|]. split; [exact Hnd|].
        split; [reflexivity|]. split; [intros x Hx; split; [exact Hx|reflexivity]|]. intros x Hx Hn. contradiction. }
    cbv zeta in Hpre.
    destruct (prefilter st_eqb inp ma curr) as [mb lb0]. cbn [fst snd] in Hpre.
    destruct Hpre as (Hcb & Hlenb & Hndb & Wout & Wkept & Wdrop).
    (* dominance filter *)
    pose proof (filter_with_dominance_ceq inp mb lb0) as [Hcc _].
    pose proof (MddSim.filter_with_dominance_nodom inp Hnodom mb lb0) as Hlc.
    assert (Hncc : m_nodes (fst (filter_with_dominance inp mb lb0)) = m_nodes mb).
    { unfold filter_with_dominance. apply (MddSim.dom_retain_nodes inp Hnodom). }
    assert (Hndc : NoDup (snd (filter_with_dominance inp mb lb0))).
    { unfold filter_with_dominance. rewrite (MddSim.dom_retain_nodom inp Hnodom).
      apply (proj2 (sub_sort_by _ lb0)). exact Hndb. }
    destruct (filter_with_dominance inp mb lb0) as [mc lc]. cbn [fst snd] in Hcc, Hlc, Hncc, Hndc.
    assert (Hac : ceq inp ma mc) by (eapply ceq_trans; eauto).
    assert (Hgc : forall k, gn mc k = gn mb k) by (intros k; apply gn_nodes_eq; exact Hncc).
    assert (Hlenc : length (m_nodes mc) = length (m_nodes m)) by (rewrite Hncc; exact Hlenb).
    destruct Hac as ((Hec & _) & _ & Hlec & Hlyc & Hlelc & _).
    change (m_layer_end ma) with (m_layer_end m) in Hlec. change (m_layers ma) with (m_layers m) in Hlyc.
    change (m_lel ma) with (m_lel m) in Hlelc. change (m_edges ma) with (m_edges m) in Hec.
    assert (Hlcin : forall x, In x lc -> In x curr /\ gn mc x = gn m x).
    { intros x Hx. apply Hlc in Hx. rewrite Hgc. apply Wkept. exact Hx. }
    assert (Hdc : forall x, del mc x = del m x).
    { intros x. unfold Thresholds.del. rewrite Hgc.
      destruct (classic_in x curr) as [Hin|Hnin]; [|rewrite (Wout x Hnin); reflexivity].
      destruct (classic_in x lb0) as [Hk|Hk]; [rewrite (proj2 (Wkept x Hk)); reflexivity|].
      destruct (Wdrop x Hin Hk) as (th & _ & _ & _ & E). rewrite E. reflexivity. }
    (* squash *)
    destruct (Thresholds.squash_extra st_eqb inp Hclean Hnocut Hwidth Hrel Hrd mc lc) as (S1 & S2 & S3 & S4 & S5 & S6).
    { rewrite Hlec, Hlenc. exact Hle. }
    { intros x Hx. rewrite Hlec, Hlenc. apply Hopen. apply (Hlcin x Hx). }
    { exact Hndc. }
    { intros x Hx. rewrite Hdc. apply Hdel. apply (Hlcin x Hx). }
    cbv zeta in S1, S2, S3, S4, S5, S6.
    pose proof (Thresholds.squash_gr st_eqb inp Hclean Hnocut Hwidth Hrel Hrd mc lc) as Gcd.
    pose proof (squash_outside mc lc) as Oout.
    pose proof (squash_thc mc lc) as Othc.
    destruct (squash_if_needed st_eqb inp mc lc) as [md ld] eqn:Esq. cbn [fst snd] in *.
    rewrite Hlec in S1, S2. rewrite Hlenc in S4, S5. rewrite Hlelc, Hlyc in S6.
    pose proof (MddSim.gr_layers inp _ _ Gcd) as Hlyd. rewrite Hlyc in Hlyd.
    assert (Hled : m_layer_end md = m_layer_end m).
    { destruct Gcd as [E _]. rewrite (ext_lend _ _ _ E). exact Hlec. }
    set (m3 := push_layer md (seq (m_layer_end md) (length (m_nodes md) - m_layer_end md)) (length (m_nodes md))).
    exists m3, ld. split; [reflexivity|].
    assert (Hd3 : forall x, del m3 x = del md x) by (intros x; apply Thresholds.del_same_nodes; reflexivity).
    assert (Hg3 : forall x, gn m3 x = gn md x) by (intros x; apply gn_nodes_eq; reflexivity).
    change (length (m_nodes m3)) with (length (m_nodes md)).
    split; [reflexivity|]. split; [unfold m3; msimpl; rewrite Hled, Hlyd; reflexivity|].
    assert (Hbm : same_below (m_layer_end m) m md).
    { apply (Thresholds.same_below_trans inp _ m mc); [|exact S1].
      intros x Hx. rewrite Hgc. apply Wout. intros Hin. apply Hopen in Hin. lia. }
    split; [intros x Hx; rewrite Hg3; apply Hbm; exact Hx|].
    split.
    { apply (tr_transC m md m3); [|apply tr_sameC; reflexivity].
      apply (tr_transC m mc md); [|apply Thresholds.tr_gr; exact Gcd].
      (* m -> mc: same states, same inbound lists, same edges *)
      split; [rewrite Hlenc; apply Nat.le_refl|]. split; [|split; [|exists []; rewrite app_nil_r; exact Hec]].
      - intros x Hx. rewrite Hgc. destruct (classic_in x curr) as [Hin|Hnin]; [|rewrite (Wout x Hnin); reflexivity].
        destruct (classic_in x lb0) as [Hk|Hk]; [rewrite (proj2 (Wkept x Hk)); reflexivity|].
        destruct (Wdrop x Hin Hk) as (th & _ & _ & _ & E). rewrite E. reflexivity.
      - intros x. rewrite Hgc. destruct (classic_in x curr) as [Hin|Hnin]; [|rewrite (Wout x Hnin); apply incl_refl].
        destruct (classic_in x lb0) as [Hk|Hk]; [rewrite (proj2 (Wkept x Hk)); apply incl_refl|].
        destruct (Wdrop x Hin Hk) as (th & _ & _ & _ & E). rewrite E. apply incl_refl. }
    assert (Hfcd : forall x, x < length (m_nodes m) -> fcache md x = fcache mc x).
    { intros x Hx. unfold fcache. apply Othc. rewrite Hlenc. exact Hx. }
    assert (Hfc_kept : forall x, In x lb0 -> fcache mc x = false).
    { intros x Hx. unfold fcache. rewrite Hgc, (proj2 (Wkept x Hx)). apply Hfc. apply (Wkept x Hx). }
    assert (Hfc_ld : forall x, In x ld -> fcache md x = false).
    { intros x Hx. destruct (Nat.lt_ge_cases x (length (m_nodes m))) as [Hlt|Hge].
      - rewrite (Hfcd x Hlt).
        destruct (classic_in x lc) as [Hin|Hnin]; [apply Hfc_kept; apply Hlc; exact Hin|].
        (* x < length nodes, in ld but not in lc: impossible (ld is a sublist of lc plus the new node) *)
        exfalso. destruct (S2 x Hx) as [_ Hr].
        assert (Hxc : In x curr) by (apply Hopen; lia).
        destruct (classic_in x lb0) as [Hk|Hk]; [apply Hnin; apply Hlc; exact Hk|].
        (* a dropped node is outside lc: untouched by the squash, hence not in ld unless ld ⊆ lc ∪ {new} *)
        pose proof (squash_ld_sub mc lc) as Hsub. rewrite Esq in Hsub. cbn [snd] in Hsub.
        destruct (Hsub x Hx) as [H1|H1]; [contradiction|]. rewrite Hlenc in H1. lia.
      - (* the new merged node *)
        destruct (S2 x Hx) as [_ Hr]. assert (x = length (m_nodes m)) by lia. subst x.
        pose proof (squash_new_node mc lc) as Hnew. rewrite Esq in Hnew. cbn [fst] in Hnew.
        rewrite Hlenc in Hnew. apply Hnew. lia. }
    split; [intros x Hx; rewrite Hd3; apply S2; exact Hx|]. split.
    { intros x Hx Hdx Hfx. rewrite Hd3 in Hdx. unfold fcache in Hfx. rewrite Hg3 in Hfx. fold (fcache md x) in Hfx.
      destruct (classic_in x ld) as [Hin|Hnin]; [exact Hin|]. exfalso.
      destruct (Nat.lt_ge_cases x (length (m_nodes m))) as [Hlt|Hge].
      - assert (Hxc : In x curr) by (apply Hopen; lia).
        destruct (classic_in x lb0) as [Hk|Hk].
        + assert (Hxl : In x lc) by (apply Hlc; exact Hk). rewrite (S3 x Hxl Hnin) in Hdx. discriminate.
        + rewrite (Hfcd x Hlt) in Hfx. unfold fcache in Hfx. rewrite Hgc in Hfx.
          destruct (Wdrop x Hxc Hk) as (th & _ & _ & _ & E). rewrite E in Hfx. unfold dropnode in Hfx. nsimpl_in Hfx. discriminate.
      - assert (x = length (m_nodes m)) by lia. subst x. apply Hnin. apply S5. lia. }
    split; [exact S6|].
    split; [intros x Hx; unfold fcache; rewrite Hg3; apply Hfc_ld; exact Hx|].
    split; [intros x Hx; apply (Wkept x Hx)|].
    split.
    { intros x Hx Hk.
      assert (Hxr : m_layer_end m <= x < length (m_nodes m)) by (apply Hopen; exact Hx).
      assert (Hnlc : ~ In x lc) by (intros H; apply Hk; apply Hlc; exact H).
      assert (Hgd : gn md x = gn mc x).
      { apply Oout. intros [H|H]; [contradiction|]. rewrite Hlenc in H. lia. }
      destruct (Wdrop x Hx Hk) as (th & T1 & T2 & T3 & T4).
      split.
      - rewrite Hd3. unfold Thresholds.del. rewrite Hgd, Hgc, T4. unfold dropnode. nsimpl. apply Hdel. exact Hx.
      - exists th. split; [exact T1|]. split; [exact T2|]. split; [exact T3|]. rewrite Hg3, Hgd, Hgc. exact T4. }
    split.
    { intros x Hx. unfold fcache. rewrite Hg3. fold (fcache md x).
      assert (Hxr : x < length (m_nodes m)) by (apply Hopen; apply (Wkept x Hx)).
      rewrite (Hfcd x Hxr). apply Hfc_kept. exact Hx. }
    intros x Hx. destruct (Nat.lt_ge_cases x (length (m_nodes m))) as [Hlt|Hge].
    - left. apply Hopen. lia.
    - right. assert (x = length (m_nodes m)) by lia. subst x. apply S5. lia.
  Qed.

  (* ---------------------------------------------------------------- node-local invariant: no threshold unless dropped by the cache, no above flag *)
  Definition PnC (n : node) : Prop :=
    f_above (n_flags n) = false /\ (f_cache (n_flags n) = false -> n_theta n = None).
  Definition NinvC (m : mdd) : Prop := Forall PnC (m_nodes m).

  Lemma NinvC_same (m m' : mdd) : m_nodes m' = m_nodes m -> NinvC m -> NinvC m'.
  Proof. unfold NinvC. intros ->. auto. Qed.
  Lemma NinvC_upd (m : mdd) id f : (forall n, PnC n -> PnC (f n)) -> NinvC m -> NinvC (upd_node m id f).
  Proof. intros Hf H. unfold NinvC. msimpl. apply Forall_upd_nth; auto. Qed.
  Lemma NinvC_append_edge (m : mdd) e : NinvC m -> NinvC (append_edge inp m e).
  Proof.
    intros H. unfold NinvC. msimpl. apply Forall_upd_nth; [|exact H].
    intros n (P1 & P2). split; nsimpl; auto.
  Qed.
  Lemma NinvC_snoc (m : mdd) n : PnC n -> NinvC m -> NinvC (with_nodes m (m_nodes m ++ [n])).
  Proof. intros Hn H. unfold NinvC. msimpl. apply Forall_app. split; [exact H|constructor; auto]. Qed.
  Lemma NinvC_fold {X} (f : mdd -> X -> mdd) l m : (forall a x, NinvC a -> NinvC (f a x)) -> NinvC m -> NinvC (fold_left f l m).
  Proof. intros Hf. revert m. induction l as [|x l IH]; intros m Hm; simpl; auto. Qed.
  Lemma PnC_set_flag (n : node) fl :
    f_cache fl = f_cache (n_flags n) -> f_above fl = f_above (n_flags n) -> PnC n -> PnC (set_flags n fl).
  Proof. intros Hf Hg (P1 & P2). split; nsimpl; [congruence|]. intros E. apply P2. congruence. Qed.

  Lemma NinvC_gn (m : mdd) x : NinvC m -> PnC (gn m x).
  Proof.
    intros H. destruct (Nat.lt_ge_cases x (length (m_nodes m))) as [Hlt|Hge].
    - unfold NinvC in H. rewrite Forall_forall in H. apply H. apply nth_In. exact Hlt.
    - rewrite (gn_out_of_range inp m x Hge). split; [reflexivity|intros _; reflexivity].
  Qed.

  Lemma NinvC_branch_on (m : mdd) id d : NinvC m -> NinvC (branch_on st_eqb inp m id d).
  Proof.
    intros H. unfold branch_on. cbv zeta.
    match goal with |- context [find_next ?a ?b ?c ?d] => destruct (find_next a b c d) end.
    - apply NinvC_append_edge. eapply NinvC_same; [|exact H]. reflexivity.
    - eapply NinvC_same; [reflexivity|]. apply NinvC_append_edge. apply NinvC_snoc.
      + split; [reflexivity|intros _; reflexivity].
      + eapply NinvC_same; [|exact H]. reflexivity.
  Qed.

  Lemma NinvC_expand_node var (m : mdd) id : NinvC m -> NinvC (expand_node st_eqb inp var m id).
  Proof.
    intros H. unfold expand_node. cbv zeta.
    set (m1 := upd_node m id (fun n => set_rub n (fast_upper_bound (ci_relax inp) (n_state (gn m id))))).
    assert (H1 : NinvC m1).
    { unfold m1. apply NinvC_upd; [|exact H]. intros n (P1 & P2). split; nsimpl; auto. }
    destruct (_ >? _)%Z; [|exact H1].
    apply NinvC_fold; [intros; apply NinvC_branch_on; assumption|].
    eapply NinvC_same; [|exact H1]. reflexivity.
  Qed.

  Lemma NinvC_drop_step merged mid (a : mdd) did : NinvC a -> NinvC (drop_step inp merged mid a did).
  Proof.
    intros H. unfold drop_step. rewrite redirect_edges_fold.
    apply NinvC_fold.
    - intros b x Hb. unfold redirect_step. cbv zeta. apply NinvC_append_edge. eapply NinvC_same; [|exact Hb]. reflexivity.
    - apply NinvC_upd; [|exact H]. intros n Hn. apply PnC_set_flag; [reflexivity|reflexivity|exact Hn].
  Qed.

  Lemma NinvC_squash (m : mdd) l : NinvC m -> NinvC (fst (squash_if_needed st_eqb inp m l)).
  Proof.
    intros H. unfold squash_if_needed. rewrite Hrel.
    destruct (_ && _); [|exact H].
    assert (Hex : exists w1, ci_width inp = S w1) by (exists (ci_width inp - 1); lia).
    destruct Hex as [w1 Ew]. rewrite (relax_layer_unfold st_eqb inp m l w1 Ew). cbv zeta.
    assert (H0 : NinvC (note_squash inp m)) by (eapply NinvC_same; [apply (note_squash_fields inp Hclean m)|exact H]).
    set (m0 := note_squash inp m) in *.
    match goal with |- context [add_log m0 ?ev] => set (m1 := add_log m0 ev) end.
    assert (H1 : NinvC m1) by (eapply NinvC_same; [|exact H0]; reflexivity).
    match goal with |- context [find ?f ?k] => destruct (find f k) as [rid|] end; cbn [fst].
    + apply NinvC_upd; [intros n Hn; apply PnC_set_flag; [reflexivity|reflexivity|exact Hn]|].
      apply NinvC_fold; [intros; apply NinvC_drop_step; assumption|].
      apply NinvC_upd; [intros n Hn; apply PnC_set_flag; [reflexivity|reflexivity|exact Hn]|exact H1].
    + apply NinvC_fold; [intros; apply NinvC_drop_step; assumption|].
      apply NinvC_upd; [intros n Hn; apply PnC_set_flag; [reflexivity|reflexivity|exact Hn]|].
      apply NinvC_snoc; [|exact H1]. split; [reflexivity|intros _; reflexivity].
  Qed.

  Lemma NinvC_cache_get (m : mdd) s d : NinvC m -> NinvC (fst (cache_get st_eqb inp m s d)).
  Proof.
    intros H. eapply NinvC_same; [|exact H].
    apply (cache_get_facts st_eqb inp Hnocut Hwidth Hrd m s d).
  Qed.

  Lemma NinvC_fwc l : forall (m : mdd), NinvC m -> NinvC (fst (filter_with_cache st_eqb inp m l)).
  Proof.
    induction l as [|id l IH]; intros m H; cbn [filter_with_cache]; [exact H|]. cbv zeta.
    pose proof (NinvC_cache_get m (n_state (gn m id)) (n_depth (gn m id)) H) as H1.
    destruct (cache_get st_eqb inp m (n_state (gn m id)) (n_depth (gn m id))) as [m1 th]. cbn [fst] in H1.
    destruct th as [t|].
    - destruct (_ >? _)%Z.
      + specialize (IH m1 H1). destruct (filter_with_cache st_eqb inp m1 l) as [m2 r]. exact IH.
      + apply IH. apply NinvC_upd; [|exact H1]. intros n (P1 & P2). split; nsimpl; [exact P1|discriminate].
    - specialize (IH m1 H1). destruct (filter_with_cache st_eqb inp m1 l) as [m2 r]. exact IH.
  Qed.

  Lemma NinvC_move (m : mdd) : NinvC m -> NinvC (fst (move_to_next_layer_clean st_eqb inp m)).
  Proof.
    intros H. rewrite move_clean_unfold. destruct (m_next m) as [|c0 cs]; [exact H|].
    set (curr := c0 :: cs).
    assert (Hb : NinvC (fst (prefilter st_eqb inp (with_next m []) curr))).
    { unfold prefilter. destruct (Nat.ltb 0 _); [|exact H]. apply NinvC_fwc. exact H. }
    destruct (prefilter st_eqb inp (with_next m []) curr) as [mb lb0]. cbn [fst] in Hb.
    assert (Hcc : NinvC (fst (filter_with_dominance inp mb lb0))).
    { unfold filter_with_dominance. eapply NinvC_same; [apply (MddSim.dom_retain_nodes inp Hnodom)|exact Hb]. }
    destruct (filter_with_dominance inp mb lb0) as [mc lc]. cbn [fst] in Hcc.
    pose proof (NinvC_squash mc lc Hcc) as Hd.
    destruct (squash_if_needed st_eqb inp mc lc) as [md ld]. cbn [fst] in *. exact Hd.
  Qed.

  Lemma NinvC_initialize c ds polls : NinvC (initialize inp c ds polls).
  Proof. constructor; [|constructor]. split; [reflexivity|intros _; reflexivity]. Qed.

  (* ---------------------------------------------------------------- the cache flag of the nodes created by an expansion *)
  Definition fcQ (b : nat) (a : mdd) : Prop := forall x, b <= x -> fcache a x = false.

  Lemma fcache_append (a : mdd) e x : fcache (append_edge inp a e) x = fcache a x.
  Proof.
    unfold fcache. destruct (Nat.eq_dec x (e_to e)) as [->|Hne].
    - destruct (Nat.lt_ge_cases (e_to e) (length (m_nodes a))) as [Hlt|Hge].
      + rewrite gn_append_same by exact Hlt. cbv zeta. nsimpl. reflexivity.
      + unfold get_node. msimpl. rewrite upd_nth_out by exact Hge. reflexivity.
    - rewrite gn_append_other by exact Hne. reflexivity.
  Qed.

  Lemma fcache_with_next (a : mdd) nx x : fcache (with_next a nx) x = fcache a x.
  Proof. reflexivity. Qed.
  Lemma fcache_snoc (a : mdd) n x : f_cache (n_flags n) = false ->
    fcache (with_nodes a (m_nodes a ++ [n])) x = if Nat.ltb x (length (m_nodes a)) then fcache a x else false.
  Proof.
    intros Hn. unfold fcache. destruct (Nat.ltb_spec x (length (m_nodes a))) as [Hlt|Hge].
    - rewrite gn_snoc_old by exact Hlt. reflexivity.
    - destruct (Nat.eq_dec x (length (m_nodes a))) as [->|Hne].
      + rewrite gn_snoc_new. exact Hn.
      + rewrite gn_out_of_range; [reflexivity|]. msimpl. rewrite app_length. simpl. lia.
  Qed.

  Lemma fcQ_branch_on b (a : mdd) id d : fcQ b a -> fcQ b (branch_on st_eqb inp a id d).
  Proof.
    intros HQ x Hx. unfold branch_on. cbv zeta.
    match goal with |- context [find_next ?a0 ?b0 ?c0 ?d0] => destruct (find_next a0 b0 c0 d0) end.
    - rewrite fcache_append. apply (HQ x Hx).
    - rewrite fcache_with_next, fcache_append, fcache_snoc by reflexivity.
      destruct (Nat.ltb _ _); [apply (HQ x Hx)|reflexivity].
  Qed.

  Lemma fcQ_expand_node b var (a : mdd) id : fcQ b a -> fcQ b (expand_node st_eqb inp var a id).
  Proof.
    intros HQ. unfold expand_node. cbv zeta.
    set (m1 := upd_node a id (fun n => set_rub n (fast_upper_bound (ci_relax inp) (n_state (gn a id))))).
    assert (H1 : fcQ b m1).
    { intros x Hx. unfold fcache, m1. rewrite (get_node_upd_node_proj inp (fun n => f_cache (n_flags n))) by (intros n; reflexivity).
      apply (HQ x Hx). }
    destruct (_ >? _)%Z; [|exact H1].
    apply (MddExact.fold_left_inv (fcQ b)); [exact H1|]. intros a0 v _ Ha. apply fcQ_branch_on. exact Ha.
  Qed.

  Lemma fcQ_expand_layer b var l : forall (a : mdd), fcQ b a -> fcQ b (fold_left (expand_node st_eqb inp var) l a).
  Proof. induction l as [|id l IH]; intros a Ha; simpl; [exact Ha|]. apply IH. apply fcQ_expand_node. exact Ha. Qed.

  (* ---------------------------------------------------------------- the invariant of the layer loop, with the cache *)
  Notation lyr m j := (nth j (m_layers m) []).
  Notation SCn := (Thresholds.SCn inp cov).
  Notation OI := (Thresholds.OI inp).
  Notation mkd := Thresholds.mkd.

  Record TIc (c : @cache St) (m : mdd) : Prop := {
    Tc_C : Cinv (m_curr_depth m) m;
    Tc_d1 : rd <= m_curr_depth m;
    Tc_d2 : m_curr_depth m <= N;
    Tc_len : length (m_layers m) = m_curr_depth m - rd;
    Tc_wf : wf inp m;
    Tc_oi : OI m;
    Tc_ord1 : forall j j' x y, j < j' -> In x (lyr m j) -> In y (lyr m j') -> x < y;
    Tc_ord2 : forall j, NoDup (lyr m j);
    Tc_ord3 : forall j x eid y, In x (lyr m j) -> In eid (n_inb (gn m x)) -> In y (lyr m j) ->
               e_from (get_edge m eid) < y;
    Tc_dep : forall j x, In x (lyr m j) -> del m x = false -> n_depth (gn m x) = rd + j;
    Tc_expC : forall j x, S j < length (m_layers m) -> In x (lyr m j) -> del m x = false -> fcache m x = false ->
               SCn m j x (fun t' => In t' (lyr m (S j)) /\ del m t' = false);
    Tc_expO : forall j x, S j = length (m_layers m) -> In x (lyr m j) -> del m x = false -> fcache m x = false ->
               SCn m j x (fun t' => In t' (m_next m));
    Tc_lel : forall k, m_lel m = Some k -> forall j x, j <= k -> In x (lyr m j) -> is_ex inp m x = true;
    Tc_nc : NinvC m;
    Tc_open : forall x, In x (m_next m) -> fcache m x = false;
    Tc_cached : forall j x, In x (lyr m j) -> del m x = false -> fcache m x = true ->
       exists th, ci_use_cache inp = true /\ cget st_eqb c (n_state (gn m x)) (n_depth (gn m x)) = Some th /\
         (n_vtop (gn m x) <= th_value th)%Z /\ n_theta (gn m x) = Some (th_value th);
    Tc_mc : m_cache m = c;
    Tc_src : forall x, MddSim.Src m x -> fcache m x = false;
    Tc_srcl : forall x, MddSim.Src m x -> del m x = false /\ exists j, In x (lyr m j);
    Tc_root : del m 0 = false /\ fcache m 0 = false /\ ((m_layers m = [] /\ m_next m = [0]) \/ In 0 (lyr m 0)) }.

  Lemma nth_app_casesC {A} (l : list (list A)) (x : list A) j y :
    In y (nth j (l ++ [x]) []) -> (j < length l /\ In y (nth j l [])) \/ (j = length l /\ In y x).
  Proof.
    intros H. destruct (Nat.lt_ge_cases j (length l)) as [Hlt|Hge].
    - left. split; [exact Hlt|]. rewrite app_nth1 in H by exact Hlt. exact H.
    - right. rewrite app_nth2 in H by exact Hge. destruct (j - length l) as [|k] eqn:E.
      + split; [lia|exact H].
      + destruct k; simpl in H; destruct H.
  Qed.
  Lemma nth_app_newC {A} (l : list (list A)) (x : list A) : nth (length l) (l ++ [x]) [] = x.
  Proof. rewrite app_nth2 by lia. rewrite Nat.sub_diag. reflexivity. Qed.

  Lemma TIc_layer_below c (m : mdd) j x : TIc c m -> In x (lyr m j) -> x < m_layer_end m.
  Proof.
    intros HT Hx. destruct (Tc_C _ _ HT) as (_ & HX & _).
    apply (X_layers _ _ _ HX (lyr m j) x); [apply nth_In; eapply Thresholds.nth_in_len; eauto|exact Hx].
  Qed.

  (* the first layer is neither filtered by the cache nor squashed *)
  Lemma move_firstC (m : mdd) m3 ol : m_layers m = [] ->
    move_to_next_layer_clean st_eqb inp m = (m3, ol) -> m_nodes m3 = m_nodes m.
  Proof.
    intros Hl. rewrite move_clean_unfold. destruct (m_next m) as [|c0 cs] eqn:En.
    - intros E. inversion E. reflexivity.
    - unfold prefilter. change (m_layers (with_next m [])) with (m_layers m). rewrite Hl. cbn [length Nat.ltb Nat.leb].
      destruct (filter_with_dominance inp (with_next m []) (c0 :: cs)) as [mc lc] eqn:Ef.
      assert (Hn : m_nodes mc = m_nodes m).
      { pose proof (MddSim.dom_retain_nodes inp Hnodom (sort_by (dom_order inp (with_next m [])) (c0 :: cs)) (with_next m [])) as Hd.
        unfold filter_with_dominance in Ef. rewrite Ef in Hd. exact Hd. }
      assert (Hlc : m_layers mc = []).
      { rewrite (ext_layers inp _ _ (ext_filter_with_dominance inp _ _ _ _ Ef)). exact Hl. }
      unfold squash_if_needed. rewrite Hrel, Hlc. cbn [length Nat.ltb Nat.leb]. rewrite andb_false_r.
      intros E. inversion E. exact Hn.
  Qed.

  Lemma iter_TIc c (m : mdd) var ev p :
    TIc c m -> m_curr_depth m < N -> next_variable pb (m_curr_depth m) [] = Some var -> m_next m <> [] ->
    let m2 := with_polls (add_log m ev) p in
    exists m3 l, move_to_next_layer_clean st_eqb inp m2 = (m3, Some l) /\
      let m4 := fold_left (expand_node st_eqb inp var) l m3 in
      TIc c (with_depth m4 (S (m_curr_depth m4))).
  Proof.
    intros HT HdN Hvar Hne. cbv zeta.
    set (d := m_curr_depth m) in *.
    set (m2 := with_polls (add_log m ev) p).
    pose proof (Tc_C _ _ HT) as HC. pose proof (Tc_len _ _ HT) as Hlen. pose proof (Tc_d1 _ _ HT) as Hd1.
    assert (Hc2 : ceq inp m m2) by (eapply ceq_trans; [apply ceq_add_log|apply ceq_with_polls]).
    assert (HC2 : Cinv d m2).
    { destruct HC as (HD & HX & Hnd & HE).
      split; [eapply (Dg_ceq inp Hclean); eauto|]. split; [eapply Xinv_ceq; eauto|]. split; [exact Hnd|].
      eapply (MddSim.Einv_ceq inp Hnocut Hwidth Hrd); eauto. }
    assert (Hg2 : forall x, gn m2 x = gn m x) by reflexivity.
    assert (Hne2 : m_next m2 <> []) by exact Hne.
    destruct (move_simC m2 d HC2 Hne2)
      as (m3 & l & ids & Emv & C3 & N3 & L3 & D3 & Ly3 & Lids & En3 & T3 & Sr3 & Cl3 & Ns3 & Ge3 & Le3 & Tp3).
    pose proof (Tc_oi _ _ HT) as (O1 & O2 & O3).
    destruct (move_extraC m2) as (m3' & l' & Emv' & X1 & X2 & X3 & X4 & X5 & X6 & X7 & X8 & X9 & X10 & X11 & X12).
    { exact Hne. } { exact O1. } { exact O2. } { apply (wf_next_nodup _ _ (Tc_wf _ _ HT)). } { exact O3. }
    { exact (Tc_open _ _ HT). }
    rewrite Emv in Emv'. inversion Emv'; subst m3' l'. clear Emv'.
    change (m_layer_end m2) with (m_layer_end m) in *. change (m_layers m2) with (m_layers m) in *.
    change (m_lel m2) with (m_lel m) in *. change (m_next m2) with (m_next m) in *.
    change (m_cache m2) with (m_cache m) in *.
    set (b := m_layer_end m) in *.
    assert (Eids : ids = seq b (length (m_nodes m3) - b)).
    { rewrite Ly3 in X2. apply app_inv_head in X2. inversion X2. reflexivity. }
    exists m3, l. split; [exact Emv|].
    assert (Hvar' : exists states : list St, next_variable pb d states = Some var) by (exists []; exact Hvar).
    destruct (MddSim.expand_layer_Cinv st_eqb st_eqb_spec inp Hclean Hnocut Hwidth Hrd var l d m3 C3 L3 Hvar') as (C4 & S4 & G4).
    assert (HO3 : OI m3).
    { split; [rewrite X1; lia|]. split; [|intros x Hx; rewrite N3 in Hx; destruct Hx].
      intros x. rewrite N3, X1. simpl. lia. }
    assert (Hl3 : forall id, In id l -> id < m_layer_end m3) by (intros id Hid; apply (L3 id Hid)).
    destruct (Thresholds.expand_layer_OI st_eqb inp Hnocut Hwidth Hrd var l m3 HO3 Hl3) as (I1 & I2 & I3 & I4).
    cbv zeta in I1, I2, I3, I4.
    set (m4 := fold_left (expand_node st_eqb inp var) l m3) in *.
    set (m5 := with_depth m4 (S (m_curr_depth m4))).
    assert (Hcd4 : m_curr_depth m4 = d).
    { destruct S4 as (_ & _ & _ & _ & s5). rewrite s5, D3. reflexivity. }
    assert (Hly4 : m_layers m4 = m_layers m ++ [ids]) by (rewrite (MddSim.gr_layers inp _ _ G4); exact Ly3).
    assert (Hg5 : forall x, gn m5 x = gn m4 x) by reflexivity.
    set (nl := length (m_layers m)) in *.
    assert (Hdnl : d = rd + nl) by (unfold nl; lia).
    (* old closed nodes are untouched *)
    assert (Hb3 : b <= length (m_nodes m3)) by (destruct X4 as (T1 & _); lia).
    assert (Hold : forall x, x < b -> gn m4 x = gn m x).
    { intros x Hx. rewrite I3; [apply X3; exact Hx|rewrite X1; lia|].
      intros Hin. destruct (X5 x Hin) as [_ Hr]. lia. }
    assert (Holdl : forall j x, In x (lyr m j) -> x < b) by (intros j x Hx; eapply TIc_layer_below; eauto).
    assert (Hidsb : forall x, In x ids -> b <= x < length (m_nodes m3)).
    { intros x Hx. rewrite Eids in Hx. apply in_seq in Hx. lia. }
    assert (Hinids : forall x, b <= x < length (m_nodes m3) -> In x ids).
    { intros x Hx. rewrite Eids. apply in_seq. lia. }
    assert (Hnl4 : forall x, x < length (m_nodes m3) -> ~ In x l -> gn m4 x = gn m3 x).
    { intros x Hx Hn. apply I3; [rewrite X1; exact Hx|exact Hn]. }
    assert (Hlids : forall x, In x l -> del m4 x = false).
    { intros x Hx. unfold Thresholds.del. rewrite (I4 x Hx). nsimpl. apply (X5 x Hx). }
    assert (Hlfc : forall x, In x l -> fcache m4 x = false).
    { intros x Hx. unfold fcache. rewrite (I4 x Hx). nsimpl. apply (X8 x Hx). }
    assert (Hlive_l : forall x, In x ids -> del m4 x = false -> fcache m4 x = false -> In x l).
    { intros x Hx Hd Hf. destruct (classic_in x l) as [Hin|Hnin]; [exact Hin|].
      apply X6; [apply Hidsb; exact Hx| |].
      - unfold Thresholds.del in *. rewrite <- (Hnl4 x (proj2 (Hidsb x Hx)) Hnin). exact Hd.
      - unfold fcache in *. rewrite <- (Hnl4 x (proj2 (Hidsb x Hx)) Hnin). exact Hf. }
    (* a live node of the new layer that is not expanded was dropped by the cache filter *)
    assert (Hdropped : forall x, In x ids -> ~ In x l -> del m4 x = false ->
              In x (m_next m) /\ ~ In x (kept m2) /\
              exists th, ci_use_cache inp = true /\
                cget st_eqb (m_cache m) (n_state (gn m x)) (n_depth (gn m x)) = Some th /\
                (n_vtop (gn m x) <= th_value th)%Z /\ gn m4 x = dropnode (gn m x) (th_value th)).
    { intros x Hx Hnin Hd.
      destruct (X12 x (Hidsb x Hx)) as [Hxn|Hxl]; [|contradiction].
      assert (Hnk : ~ In x (kept m2)).
      { intros Hk. apply Hnin. apply X6; [apply Hidsb; exact Hx| |apply X11; exact Hk].
        unfold Thresholds.del in *. rewrite <- (Hnl4 x (proj2 (Hidsb x Hx)) Hnin). exact Hd. }
      split; [exact Hxn|]. split; [exact Hnk|].
      destruct (X10 x Hxn Hnk) as (_ & th & U1 & U2 & U3 & U4).
      exists th. rewrite !Hg2 in U2, U3, U4. rewrite (Hnl4 x (proj2 (Hidsb x Hx)) Hnin). auto. }
    (* transport of paths among old closed layers *)
    assert (Htr24 : tr m m4).
    { apply (tr_transC m m3 m4); [exact X4|apply Thresholds.tr_gr; exact G4]. }
    assert (Hlay24 : forall k x, In x (nth k (m_layers m) []) -> In x (nth k (m_layers m4) [])).
    { intros k x Hx. rewrite Hly4. apply MddSim.nth_layers_app. exact Hx. }
    assert (Hp24 : forall i u s ds t s', dpath m i u s ds t s' -> dpath m4 i u s ds t s').
    { intros i u s ds t s' Hp. eapply (Thresholds.dpath_tr inp Hnocut Hwidth Hrd); eauto. }
    assert (Hp5 : forall i u s ds t s', dpath m4 i u s ds t s' -> dpath m5 i u s ds t s').
    { intros i u s ds t s' Hp. eapply (MddSim.dpath_frame inp Hnocut Hwidth Hrd); try exact Hp; try reflexivity; assumption. }
    assert (HE : Einv m) by apply HC.
    split.
    - (* Cinv *)
      change (m_curr_depth m5) with (S (m_curr_depth m4)). rewrite Hcd4.
      assert (Hp45 : peq inp m4 m5) by (apply peq_same_nodes; reflexivity).
      destruct C4 as (D4 & X4' & Nd4 & E4).
      split; [|split; [|split]].
      + eapply (Dg_peq inp Hclean); [exact Hp45|exact D4|apply Nat.le_refl|apply (D_le _ _ _ D4)|apply (D_next _ _ _ D4)].
      + eapply Xg_peq; [exact Hp45|reflexivity|reflexivity|reflexivity|exact X4'].
      + exact Nd4.
      + eapply (MddSim.Einv_frame inp Hnocut Hwidth Hrd); try exact E4; try reflexivity; try assumption. apply (MddSim.E_le _ _ E4).
    - change (m_curr_depth m5) with (S (m_curr_depth m4)). lia.
    - change (m_curr_depth m5) with (S (m_curr_depth m4)). lia.
    - change (m_curr_depth m5) with (S (m_curr_depth m4)). change (m_layers m5) with (m_layers m4).
      rewrite Hly4, app_length, Hcd4. cbn [length]. fold nl. lia.
    - (* wf *)
      apply wf_with_depth. apply wf_fold_expand.
      + apply (proj1 (wf_move_clean st_eqb inp m2 m3 (Some l) Emv (wf_with_polls inp _ _ (wf_add_log inp _ _ (Tc_wf _ _ HT))))).
      + apply (proj1 (proj2 (wf_move_clean st_eqb inp m2 m3 (Some l) Emv (wf_with_polls inp _ _ (wf_add_log inp _ _ (Tc_wf _ _ HT)))) l eq_refl)).
    - apply (Thresholds.OI_same inp m4 m5); auto.
    - (* ord1 *)
      change (m_layers m5) with (m_layers m4). rewrite Hly4. intros j j' x y Hjj Hx Hy.
      apply nth_app_casesC in Hx. apply nth_app_casesC in Hy. fold nl in Hx, Hy.
      destruct Hx as [[Hj Hx]|[Hj Hx]]; destruct Hy as [[Hj' Hy]|[Hj' Hy]]; try lia.
      + apply (Tc_ord1 _ _ HT j j' x y Hjj Hx Hy).
      + pose proof (Holdl j x Hx). pose proof (Hidsb y Hy). lia.
    - (* ord2 *)
      change (m_layers m5) with (m_layers m4). rewrite Hly4. intros j.
      destruct (Nat.lt_ge_cases j nl) as [Hj|Hj].
      + rewrite Thresholds.nth_app_old by exact Hj. apply (Tc_ord2 _ _ HT).
      + destruct (Nat.eq_dec j nl) as [->|Hjn].
        * unfold nl. rewrite nth_app_newC. rewrite Eids. apply seq_NoDup.
        * rewrite nth_overflow by (rewrite app_length; simpl; fold nl; lia). constructor.
    - (* ord3 *)
      change (m_layers m5) with (m_layers m4). rewrite Hly4. intros j x eid y Hx Hin Hy. rewrite Hg5 in Hin.
      apply nth_app_casesC in Hx. apply nth_app_casesC in Hy. fold nl in Hx, Hy.
      destruct Hx as [[Hj Hx]|[Hj Hx]]; destruct Hy as [[Hj' Hy]|[Hj' Hy]]; try lia.
      + pose proof (Holdl j x Hx) as Hxb. rewrite (Hold x Hxb) in Hin.
        assert (Hxl : x < length (m_nodes m)) by (pose proof (MddSim.E_le _ _ HE); unfold b in Hxb; lia).
        destruct (MddSim.E_inb _ _ HE x eid Hxl Hin) as (He & _).
        change (get_edge m5 eid) with (get_edge m4 eid). rewrite (Thresholds.tr_edge inp m m4 eid Htr24 He).
        apply (Tc_ord3 _ _ HT j x eid y Hx Hin Hy).
      + pose proof (Hidsb x Hx) as Hxr.
        assert (Hin3 : In eid (n_inb (gn m3 x))).
        { destruct (classic_in x l) as [Hxl|Hxl]; [rewrite (I4 x Hxl) in Hin; exact Hin|].
          rewrite I3 in Hin; [exact Hin|rewrite X1; lia|exact Hxl]. }
        destruct C3 as (_ & _ & _ & E3).
        destruct (MddSim.E_inb _ _ E3 x eid ltac:(lia) Hin3) as (He3 & _).
        change (get_edge m5 eid) with (get_edge m4 eid). rewrite (MddSim.gr_edge inp m3 m4 eid G4 He3).
        assert (HSrc : MddSim.Src m3 (e_from (get_edge m3 eid))) by (exists eid; auto).
        apply Sr3 in HSrc. destruct HSrc as (eid2 & He2 & Hf2).
        assert (HE2 : Einv m2) by apply HC2.
        pose proof (MddSim.E_from _ _ HE2 eid2 He2) as Hlt. rewrite Hf2 in Hlt.
        change (m_layer_end m2) with b in Hlt. pose proof (Hidsb y Hy). lia.
    - (* depth *)
      change (m_layers m5) with (m_layers m4). rewrite Hly4. intros j x Hx Hd. rewrite Hg5.
      change (del m5 x) with (del m4 x) in Hd.
      apply nth_app_casesC in Hx. fold nl in Hx. destruct Hx as [[Hj Hx]|[Hj Hx]].
      + pose proof (Holdl j x Hx) as Hxb. rewrite (Hold x Hxb). apply (Tc_dep _ _ HT j x Hx).
        unfold Thresholds.del in *. rewrite <- (Hold x Hxb). exact Hd.
      + destruct (classic_in x l) as [Hxl|Hxl].
        * rewrite (I4 x Hxl). nsimpl. destruct (L3 x Hxl) as [_ Hdp]. lia.
        * destruct (Hdropped x Hx Hxl Hd) as (Hxn & _ & th & _ & _ & _ & E). rewrite E. unfold dropnode. nsimpl.
          destruct HC as (_ & _ & Hnd & _). rewrite (Hnd x Hxn). lia.
    - (* closed targets *)
      change (m_layers m5) with (m_layers m4). rewrite Hly4, app_length. cbn [length]. fold nl.
      intros j x Hj Hx Hd Hf. change (del m5 x) with (del m4 x) in Hd. change (fcache m5 x) with (fcache m4 x) in Hf.
      rewrite Thresholds.nth_app_old in Hx by (fold nl; lia).
      pose proof (Holdl j x Hx) as Hxb.
      assert (Hdm : del m x = false) by (unfold Thresholds.del in *; rewrite <- (Hold x Hxb); exact Hd).
      assert (Hfm : fcache m x = false) by (unfold fcache in *; rewrite <- (Hold x Hxb); exact Hf).
      intros Hbr s var0 val Hcov Hv0 Hval.
      unfold Thresholds.brd in Hbr. rewrite Hg5, (Hold x Hxb) in Hbr. rewrite Hg5, (Hold x Hxb) in Hcov.
      destruct (Nat.lt_ge_cases (S j) nl) as [Hjn|Hjn].
      + destruct (Tc_expC _ _ HT j x Hjn Hx Hdm Hfm Hbr s var0 val Hcov Hv0 Hval) as (t' & [Ht' Hdt'] & Hp).
        exists t'. split.
        * rewrite Thresholds.nth_app_old by (fold nl; lia). split; [exact Ht'|].
          pose proof (Holdl (S j) t' Ht') as Htb. change (del m5 t') with (del m4 t'). unfold Thresholds.del in *.
          rewrite (Hold t' Htb). exact Hdt'.
        * apply Hp5, Hp24. exact Hp.
      + assert (Ej : S j = nl) by lia.
        destruct (Tc_expO _ _ HT j x Ej Hx Hdm Hfm Hbr s var0 val Hcov Hv0 Hval) as (t' & Ht' & Hp).
        destruct (classic_in t' (kept m2)) as [Hk|Hk].
        * destruct (T3 j x s t' [mkd var0 val] (transition pb s (mkd var0 val))) as (u' & Hu' & Hp3).
          -- exact Hk.
          -- intros _. discriminate.
          -- intros E. rewrite Hrel in E. discriminate.
          -- eapply (MddSim.dpath_ceq inp Hnocut Hwidth Hrd); eauto.
          -- exists u'. split.
             ++ rewrite Ej. unfold nl. rewrite nth_app_newC. split; [apply Lids; exact Hu'|].
                change (del m5 u') with (del m4 u'). apply Hlids. exact Hu'.
             ++ apply Hp5. eapply (MddSim.dpath_gr inp Hnocut Hwidth Hrd); eauto.
        * (* the successor was dropped by the cache filter: it stays in the layer, not expanded *)
          destruct (X10 t' Ht' Hk) as (Hdel3 & _).
          assert (Ht'r : b <= t' < length (m_nodes m3)).
          { pose proof (proj1 (O2 t') Ht') as Hr0. destruct X4 as (T1 & _). change (m_nodes m2) with (m_nodes m) in T1. unfold b. lia. }
          assert (Hnl : ~ In t' l).
          { intros Hin. pose proof (X8 t' Hin) as Hf8.
            destruct (X10 t' Ht' Hk) as (_ & th & _ & _ & _ & E). unfold fcache in Hf8. rewrite E in Hf8.
            unfold dropnode in Hf8. nsimpl_in Hf8. discriminate. }
          exists t'. split.
          -- rewrite Ej. unfold nl. rewrite nth_app_newC. split; [apply Hinids; exact Ht'r|].
             change (del m5 t') with (del m4 t'). unfold Thresholds.del in *. rewrite (Hnl4 t' (proj2 Ht'r) Hnl). exact Hdel3.
          -- apply Hp5. eapply (MddSim.dpath_gr inp Hnocut Hwidth Hrd); [exact G4|]. apply Tp3.
             eapply (MddSim.dpath_ceq inp Hnocut Hwidth Hrd); eauto.
    - (* open targets: the layer just expanded *)
      change (m_layers m5) with (m_layers m4). rewrite Hly4, app_length. cbn [length]. fold nl.
      intros j x Hj Hx Hd Hf. assert (j = nl) by lia. subst j. change (del m5 x) with (del m4 x) in Hd.
      change (fcache m5 x) with (fcache m4 x) in Hf.
      unfold nl in Hx. rewrite nth_app_newC in Hx.
      pose proof (Hlive_l x Hx Hd Hf) as Hxl.
      intros Hbr s var0 val Hcov Hv0 Hval.
      assert (var0 = var).
      { assert (Hv0' : next_variable pb d [] = Some var0) by (rewrite Hdnl; exact Hv0).
        rewrite Hvar in Hv0'. inversion Hv0'; reflexivity. }
      subst var0.
      unfold Thresholds.brd in Hbr. rewrite Hg5, (I4 x Hxl) in Hbr. nsimpl_in Hbr. rewrite Hg5, (I4 x Hxl) in Hcov. nsimpl_in Hcov.
      change (m_next m5) with (m_next m4).
      (* split the expansion fold at x *)
      assert (G : forall l0 (a : mdd), (forall y, In y l0 -> y < m_layer_end a) -> OI a -> gr m3 a ->
                (forall y, In y l0 -> n_state (gn a y) = n_state (gn m3 y) /\ n_vtop (gn a y) = n_vtop (gn m3 y)) ->
                In x l0 ->
                exists t', In t' (m_next (fold_left (expand_node st_eqb inp var) l0 a)) /\
                  dpath (fold_left (expand_node st_eqb inp var) l0 a) nl x s [mkd var val] t' (transition pb s (mkd var val))).
      { induction l0 as [|y l0 IH]; intros a Hla Ha Ga Hsa Hin; [destruct Hin|]. simpl.
        destruct (Thresholds.expand_node_OI st_eqb inp Hnocut Hwidth Hrd var a y Ha (Hla y (or_introl eq_refl))) as (E1 & E2 & E3 & E4).
        cbv zeta in E1, E2, E3, E4.
        pose proof (MddSim.gr_expand_node st_eqb inp var a y) as Gay.
        destruct (Nat.eq_dec y x) as [->|Hne'].
        - destruct (Thresholds.expand_node_succ st_eqb st_eqb_spec inp Hnocut Hwidth Hrd cov cov_sim var a x nl s val Ha) as (t' & Ht' & Hp).
          + pose proof (Hla x (or_introl eq_refl)). destruct Ha as (A1 & _). lia.
          + rewrite (MddSim.gr_layers inp _ _ Ga). rewrite Ly3. unfold nl. rewrite nth_app_newC. exact Hx.
          + destruct (Hsa x (or_introl eq_refl)) as [Es Ev]. rewrite Es, Ev. apply Z.gtb_lt. fold rlx in Hbr. exact Hbr.
          + destruct (Hsa x (or_introl eq_refl)) as [Es _]. rewrite Es. exact Hcov.
          + exact Hval.
          + cbv zeta in Ht', Hp.
            assert (Grest : gr (expand_node st_eqb inp var a x) (fold_left (expand_node st_eqb inp var) l0 (expand_node st_eqb inp var a x))).
            { apply MddSim.gr_fold. intros; apply MddSim.gr_expand_node. }
            exists t'. split; [eapply MddSim.gr_next; eauto|eapply (MddSim.dpath_gr inp Hnocut Hwidth Hrd); eauto].
        - destruct Hin as [E|Hin]; [congruence|].
          apply IH.
          + intros z Hz. rewrite E2. apply Hla. right; exact Hz.
          + exact E1.
          + eapply MddSim.gr_trans; eauto.
          + intros z Hz. destruct (Hsa z (or_intror Hz)) as [Es Ev].
            destruct (Nat.eq_dec z y) as [->|Hzy].
            * rewrite E4. nsimpl. auto.
            * rewrite (E3 z (Hla z (or_intror Hz)) Hzy). auto.
          + exact Hin. }
      destruct (G l m3 Hl3 HO3 (MddSim.gr_refl inp m3) (fun y _ => conj eq_refl eq_refl) Hxl) as (t' & Ht' & Hp).
      exists t'. split; [exact Ht'|]. apply Hp5. exact Hp.
    - (* last exact layer *)
      change (m_lel m5) with (m_lel m4). change (m_layers m5) with (m_layers m4).
      unfold m4. rewrite MddSim.expand_layer_lel. fold m4. rewrite Hly4.
      intros k Hk j x Hjk Hx. unfold is_ex. rewrite Hg5.
      assert (Hkl : k < nl).
      { destruct X7 as [E|(E1 & E2 & E3)]; [|rewrite E2 in Hk; inversion Hk; subst k; fold nl; fold nl in E3; lia].
        rewrite E in Hk. destruct HC as (_ & HX & _). apply (X_lel_lt _ _ _ HX Hrel k Hk). }
      rewrite Thresholds.nth_app_old in Hx by (fold nl; lia).
      pose proof (Holdl j x Hx) as Hxb. rewrite (Hold x Hxb).
      destruct X7 as [E|(E1 & E2 & _)].
      + rewrite E in Hk. apply (Tc_lel _ _ HT k Hk j x Hjk Hx).
      + destruct HC as (_ & HX & _). apply (X_lel_none _ _ _ HX E1).
        pose proof (MddSim.E_le _ _ HE). unfold b in Hxb. lia.
    - (* NinvC *)
      eapply NinvC_same; [reflexivity|].
      apply NinvC_fold; [intros; apply NinvC_expand_node; assumption|].
      pose proof (NinvC_move m2) as Hmv. rewrite Emv in Hmv. cbn [fst] in Hmv. apply Hmv.
      eapply NinvC_same; [|exact (Tc_nc _ _ HT)]. reflexivity.
    - (* open nodes carry no cache flag *)
      intros x Hx. change (m_next m5) with (m_next m4) in Hx. change (fcache m5 x) with (fcache m4 x).
      destruct I1 as (_ & I1b & _). apply I1b in Hx.
      assert (HQ : fcQ (length (m_nodes m3)) m4).
      { unfold m4. apply fcQ_expand_layer. intros y Hy. unfold fcache. rewrite gn_out_of_range by exact Hy. reflexivity. }
      apply HQ. rewrite I2, X1 in Hx. lia.
    - (* nodes dropped by the cache *)
      change (m_layers m5) with (m_layers m4). rewrite Hly4. intros j x Hx Hd Hf. rewrite !Hg5.
      change (del m5 x) with (del m4 x) in Hd. change (fcache m5 x) with (fcache m4 x) in Hf.
      apply nth_app_casesC in Hx. fold nl in Hx. destruct Hx as [[Hj Hx]|[Hj Hx]].
      + pose proof (Holdl j x Hx) as Hxb. rewrite (Hold x Hxb). apply (Tc_cached _ _ HT j x Hx).
        * unfold Thresholds.del in *. rewrite <- (Hold x Hxb). exact Hd.
        * unfold fcache in *. rewrite <- (Hold x Hxb). exact Hf.
      + assert (Hxl : ~ In x l) by (intros Hin; rewrite (Hlfc x Hin) in Hf; discriminate).
        destruct (Hdropped x Hx Hxl Hd) as (_ & _ & th & U1 & U2 & U3 & U4).
        exists th. rewrite U4. unfold dropnode. nsimpl. rewrite (Tc_mc _ _ HT) in U2. auto.
    - (* the cache itself *)
      change (m_cache m5) with (m_cache m4). unfold m4. rewrite (mc_expand_layer st_eqb inp).
      pose proof (mc_move st_eqb inp m2) as Hmc. rewrite Emv in Hmc. cbn [fst] in Hmc. rewrite Hmc.
      exact (Tc_mc _ _ HT).
    - (* only expanded nodes are the source of an arc *)
      intros x Hs. change (fcache m5 x) with (fcache m4 x).
      assert (Hs4 : MddSim.Src m4 x) by exact Hs.
      destruct (MddSim.Src_expand_layer st_eqb inp Hnocut Hwidth Hrd var l m3 x Hs4) as [Hs3|Hxl]; [|apply Hlfc; exact Hxl].
      apply Sr3 in Hs3. assert (Hsm : MddSim.Src m x) by exact Hs3.
      pose proof (Tc_src _ _ HT x Hsm) as Hfm.
      destruct Hsm as (eid & He & Hf). pose proof (MddSim.E_from _ _ HE eid He) as Hlt. rewrite Hf in Hlt.
      unfold fcache in *. rewrite (Hold x Hlt). exact Hfm.
    - (* the source of an arc is a live node of a layer *)
      intros x Hs. change (del m5 x) with (del m4 x). change (m_layers m5) with (m_layers m4).
      assert (Hs4 : MddSim.Src m4 x) by exact Hs.
      destruct (MddSim.Src_expand_layer st_eqb inp Hnocut Hwidth Hrd var l m3 x Hs4) as [Hs3|Hxl].
      + apply Sr3 in Hs3. assert (Hsm : MddSim.Src m x) by exact Hs3.
        destruct (Tc_srcl _ _ HT x Hsm) as (Hdm & j & Hj).
        destruct Hsm as (eid & He & Hf). pose proof (MddSim.E_from _ _ HE eid He) as Hlt. rewrite Hf in Hlt.
        split; [unfold Thresholds.del in *; rewrite (Hold x Hlt); exact Hdm|].
        exists j. apply Hlay24. exact Hj.
      + split; [apply Hlids; exact Hxl|]. exists nl. rewrite Hly4. unfold nl. rewrite nth_app_newC.
        apply Hinids. destruct (X5 x Hxl) as [_ Hr]. exact Hr.
    - (* the root *)
      change (del m5 0) with (del m4 0). change (fcache m5 0) with (fcache m4 0).
      change (m_layers m5) with (m_layers m4). change (m_next m5) with (m_next m4).
      destruct (Tc_root _ _ HT) as (R1 & R2 & [[R3 R4]|R3]).
      + (* first iteration *)
        assert (Hn3 : m_nodes m3 = m_nodes m).
        { apply (move_firstC m2 m3 (Some l)); [exact R3|exact Emv]. }
        assert (Hg3 : forall x, gn m3 x = gn m x) by (intros x; apply gn_nodes_eq; exact Hn3).
        assert (H0n : In 0 (m_next m)) by (rewrite R4; left; reflexivity).
        pose proof (proj1 (O2 0) H0n) as Hb0.
        assert (Hfl : del m4 0 = false /\ fcache m4 0 = false).
        { destruct (classic_in 0 l) as [Hin|Hnin].
          - split; [apply Hlids; exact Hin|apply Hlfc; exact Hin].
          - assert (E : gn m4 0 = gn m 0).
            { rewrite (Hnl4 0); [apply Hg3| |exact Hnin]. rewrite Hn3. lia. }
            unfold Thresholds.del, fcache in *. rewrite E. auto. }
        split; [apply Hfl|]. split; [apply Hfl|]. right.
        rewrite Hly4, R3. simpl. apply Hinids. rewrite Hn3. unfold b. lia.
      + pose proof (Holdl 0 0 R3) as Hxb.
        split; [unfold Thresholds.del in *; rewrite (Hold 0 Hxb); exact R1|].
        split; [unfold fcache in *; rewrite (Hold 0 Hxb); exact R2|]. right. apply Hlay24. exact R3.
  Qed.

  (* ---------------------------------------------------------------- what the loop leaves behind *)
  Notation SCr := (Thresholds.SCr inp cov).

  Record FSc (c : @cache St) (ml : mdd) (lay : nat -> list nat) : Prop := {
    Fc_einv : forall id eid, id < length (m_nodes ml) -> In eid (n_inb (gn ml id)) ->
      eid < length (m_edges ml) /\
      (sat_add (n_vtop (gn ml (e_from (get_edge ml eid)))) (e_cost (get_edge ml eid)) <= n_vtop (gn ml id))%Z /\
      (is_ex inp ml id = true ->
         is_ex inp ml (e_from (get_edge ml eid)) = true /\
         n_state (gn ml id) = transition pb (n_state (gn ml (e_from (get_edge ml eid)))) (e_dec (get_edge ml eid)));
    Fc_range : forall j x, In x (lay j) -> x < length (m_nodes ml);
    Fc_ord1 : forall j j' x y, j < j' -> In x (lay j) -> In y (lay j') -> x < y;
    Fc_ord2 : forall j, NoDup (lay j);
    Fc_ord3 : forall j x eid y, In x (lay j) -> In eid (n_inb (gn ml x)) -> In y (lay j) -> e_from (get_edge ml eid) < y;
    Fc_dep : forall j x, In x (lay j) -> del ml x = false -> n_depth (gn ml x) = rd + j;
    Fc_exp : forall j x, In x (lay j) -> del ml x = false -> fcache ml x = false -> SCr ml lay j x;
    Fc_lel : forall k, m_lel ml = Some k -> forall j x, j <= k -> In x (lay j) -> is_ex inp ml x = true;
    Fc_last : forall j x, In x (lay j) -> rd + j = N ->
      In x (m_next ml) /\ m_layer_end ml <= x < length (m_nodes ml) /\ length (m_layers ml) = j /\ fcache ml x = false;
    Fc_nc : NinvC ml;
    Fc_cached : forall j x, In x (lay j) -> del ml x = false -> fcache ml x = true ->
       exists th, ci_use_cache inp = true /\ cget st_eqb c (n_state (gn ml x)) (n_depth (gn ml x)) = Some th /\
         (n_vtop (gn ml x) <= th_value th)%Z /\ n_theta (gn ml x) = Some (th_value th);
    Fc_mc : m_cache ml = c;
    Fc_src : forall x, MddSim.Src ml x -> fcache ml x = false;
    Fc_srcl : forall x, MddSim.Src ml x -> del ml x = false /\ exists j, In x (lay j);
    Fc_root : In 0 (lay 0) /\ del ml 0 = false /\ fcache ml 0 = false;
    Fc_open : forall x, In x (m_next ml) -> fcache ml x = false }.

  Lemma FS_of_TIc c (m ml : mdd) lastl :
    TIc c m -> m_nodes ml = m_nodes m -> m_edges ml = m_edges m -> m_lel ml = m_lel m -> m_cache ml = m_cache m ->
    (forall x, In x (m_next ml) -> In x (m_next m)) ->
    (forall x, In x lastl <-> In x (m_next m)) -> NoDup lastl ->
    ((m_curr_depth m = N /\ m_next ml = m_next m /\ m_layer_end ml = m_layer_end m /\ m_layers ml = m_layers m) \/
     (m_curr_depth m < N /\ m_next m = [])) ->
    FSc c ml (fun j => nth j (m_layers m ++ [lastl]) []).
  Proof.
    intros HT Hn He Hlel Hmc Hnxt Hlast Hnd Hexit.
    assert (Hg : forall x, gn ml x = gn m x) by (intros x; apply gn_nodes_eq; exact Hn).
    assert (Hge : forall k, get_edge ml k = get_edge m k) by (intros k; apply ge_edges_eq; exact He).
    assert (Hdl : forall x, del ml x = del m x) by (intros x; apply Thresholds.del_same_nodes; exact Hn).
    assert (Hfl : forall x, fcache ml x = fcache m x) by (intros x; unfold fcache; rewrite Hg; reflexivity).
    pose proof (Tc_C _ _ HT) as (HD & HX & Hnd' & HE).
    pose proof (Tc_oi _ _ HT) as (O1 & O2 & O3). pose proof (Tc_len _ _ HT) as Hlen.
    set (nl := length (m_layers m)) in *.
    assert (Holdl : forall j x, In x (lyr m j) -> x < m_layer_end m) by (intros j x Hx; eapply TIc_layer_below; eauto).
    assert (Hlastr : forall x, In x lastl -> m_layer_end m <= x < length (m_nodes m)).
    { intros x Hx. apply O2. apply Hlast. exact Hx. }
    split.
    - intros id eid Hid Hin. rewrite Hn in Hid. rewrite Hg in Hin. unfold is_ex. rewrite He, !Hge, !Hg.
      destruct (MddSim.E_inb _ _ HE id eid Hid Hin) as (G1 & G2 & G3). split; [exact G1|]. split; [exact G2|].
      intros Hx. destruct (G3 Hx) as (Y1 & Y2 & _). auto.
    - intros j x Hx. rewrite Hn. apply nth_app_casesC in Hx. destruct Hx as [[_ Hx]|[_ Hx]].
      + pose proof (Holdl j x Hx). lia.
      + apply Hlastr. exact Hx.
    - intros j j' x y Hjj Hx Hy. apply nth_app_casesC in Hx. apply nth_app_casesC in Hy. fold nl in Hx, Hy.
      destruct Hx as [[Hj Hx]|[Hj Hx]]; destruct Hy as [[Hj' Hy]|[Hj' Hy]]; try lia.
      + apply (Tc_ord1 _ _ HT j j' x y Hjj Hx Hy).
      + pose proof (Holdl j x Hx). pose proof (Hlastr y Hy). lia.
    - intros j. destruct (Nat.lt_ge_cases j nl) as [Hj|Hj].
      + rewrite Thresholds.nth_app_old by exact Hj. apply (Tc_ord2 _ _ HT).
      + destruct (Nat.eq_dec j nl) as [->|Hjn].
        * unfold nl. rewrite nth_app_newC. exact Hnd.
        * rewrite nth_overflow by (rewrite app_length; simpl; fold nl; lia). constructor.
    - intros j x eid y Hx Hin Hy. rewrite Hg in Hin. rewrite Hge.
      apply nth_app_casesC in Hx. apply nth_app_casesC in Hy. fold nl in Hx, Hy.
      destruct Hx as [[Hj Hx]|[Hj Hx]]; destruct Hy as [[Hj' Hy]|[Hj' Hy]]; try lia.
      + apply (Tc_ord3 _ _ HT j x eid y Hx Hin Hy).
      + pose proof (Hlastr x Hx) as Hxr. destruct (MddSim.E_inb _ _ HE x eid ltac:(lia) Hin) as (G1 & _).
        pose proof (MddSim.E_from _ _ HE eid G1). pose proof (Hlastr y Hy). lia.
    - intros j x Hx Hd. rewrite Hdl in Hd. rewrite Hg. apply nth_app_casesC in Hx. fold nl in Hx.
      destruct Hx as [[Hj Hx]|[Hj Hx]]; [apply (Tc_dep _ _ HT j x Hx Hd)|].
      subst j. rewrite (Hnd' x (proj1 (Hlast x) Hx)). pose proof (Tc_d1 _ _ HT). lia.
    - intros j x Hx Hd Hf. rewrite Hdl in Hd. rewrite Hfl in Hf. apply nth_app_casesC in Hx. fold nl in Hx.
      intros Hbr s var val Hcov Hv Hval. unfold Thresholds.brd in Hbr. rewrite Hg in Hbr, Hcov. cbv zeta.
      destruct Hx as [[Hj Hx]|[Hj Hx]].
      + destruct (Nat.lt_ge_cases (S j) nl) as [Hjn|Hjn].
        * destruct (Tc_expC _ _ HT j x Hjn Hx Hd Hf Hbr s var val Hcov Hv Hval) as (t' & [Ht' Hdt'] & Hp).
          destruct (Thresholds.dpath1_inv _ _ _ _ _ _ _ _ _ Hp) as (_ & P2 & eid & Q1 & Q2 & Q3 & Q4 & Q5 & Q6).
          exists t', eid. rewrite Thresholds.nth_app_old by (fold nl; lia). rewrite Hdl, Hn, He, Hge, !Hg. auto 12.
        * assert (Ej : S j = nl) by lia.
          destruct (Tc_expO _ _ HT j x Ej Hx Hd Hf Hbr s var val Hcov Hv Hval) as (t' & Ht' & Hp).
          destruct (Thresholds.dpath1_inv _ _ _ _ _ _ _ _ _ Hp) as (_ & P2 & eid & Q1 & Q2 & Q3 & Q4 & Q5 & Q6).
          exists t', eid. rewrite Ej. unfold nl. rewrite nth_app_newC. rewrite Hdl, Hn, He, Hge, !Hg.
          split; [apply Hlast; exact Ht'|]. split; [apply O3; exact Ht'|]. auto 12.
      + (* the last layer: no variable left, or no node *)
        exfalso. subst j. destruct Hexit as [(HdN & _)|(HdN & Hnx)].
        * change (next_variable pb (rd + nl) [] = Some var) in Hv.
          rewrite nv_none in Hv by (pose proof (Tc_d1 _ _ HT); lia). discriminate.
        * apply Hlast in Hx. rewrite Hnx in Hx. destruct Hx.
    - intros k Hk j x Hjk Hx. rewrite Hlel in Hk. unfold is_ex. rewrite Hg.
      pose proof (X_lel_lt _ _ _ HX Hrel k Hk) as Hkl. fold nl in Hkl.
      rewrite Thresholds.nth_app_old in Hx by (fold nl; lia). apply (Tc_lel _ _ HT k Hk j x Hjk Hx).
    - intros j x Hx HjN. apply nth_app_casesC in Hx. fold nl in Hx.
      pose proof (Tc_d1 _ _ HT) as Hd1. pose proof (Tc_d2 _ _ HT) as Hd2.
      destruct Hexit as [(HdN & E1 & E2 & E3)|(HdN & Hnx)].
      + destruct Hx as [[Hj Hx]|[Hj Hx]]; [lia|]. subst j.
        rewrite E1, E2, E3, Hn. split; [apply Hlast; exact Hx|]. split; [apply Hlastr; exact Hx|]. split; [reflexivity|].
        rewrite Hfl. apply (Tc_open _ _ HT). apply Hlast. exact Hx.
      + destruct Hx as [[Hj Hx]|[Hj Hx]]; [lia|]. apply Hlast in Hx. rewrite Hnx in Hx. destruct Hx.
    - eapply NinvC_same; [exact Hn|exact (Tc_nc _ _ HT)].
    - intros j x Hx Hd Hf. rewrite Hdl in Hd. rewrite Hfl in Hf. rewrite !Hg. apply nth_app_casesC in Hx. fold nl in Hx.
      destruct Hx as [[Hj Hx]|[Hj Hx]]; [apply (Tc_cached _ _ HT j x Hx Hd Hf)|].
      exfalso. rewrite (Tc_open _ _ HT x (proj1 (Hlast x) Hx)) in Hf. discriminate.
    - rewrite Hmc. exact (Tc_mc _ _ HT).
    - intros x (eid & He1 & He2). rewrite Hfl. apply (Tc_src _ _ HT). exists eid. rewrite He in He1. rewrite Hge in He2. auto.
    - intros x (eid & He1 & He2). rewrite Hdl.
      destruct (Tc_srcl _ _ HT x) as (Hd & j & Hj); [exists eid; rewrite He in He1; rewrite Hge in He2; auto|].
      split; [exact Hd|]. exists j. apply MddSim.nth_layers_app. exact Hj.
    - rewrite Hdl, Hfl. destruct (Tc_root _ _ HT) as (R1 & R2 & [[R3 R4]|R3]).
      + split; [|split; assumption]. rewrite R3. simpl. apply Hlast. rewrite R4. left; reflexivity.
      + split; [|split; assumption]. apply MddSim.nth_layers_app. exact R3.
    - intros x Hx. rewrite Hfl. apply (Tc_open _ _ HT). apply Hnxt. exact Hx.
  Qed.

  Lemma FSc_ext c (ml : mdd) (lay lay' : nat -> list nat) : (forall j, lay j = lay' j) -> FSc c ml lay -> FSc c ml lay'.
  Proof.
    intros Hext [G1 G2 G3 G4 G5 G6 G7 G8 G9 G10 G11 G12 G13 G14 G15 G16].
    split.
    - exact G1.
    - intros j x Hx. rewrite <- Hext in Hx. eauto.
    - intros j j' x y Hjj Hx Hy. rewrite <- Hext in Hx, Hy. eauto.
    - intros j. rewrite <- Hext. apply G4.
    - intros j x eid y Hx Hin Hy. rewrite <- Hext in Hx, Hy. eauto.
    - intros j x Hx. rewrite <- Hext in Hx. eauto.
    - intros j x Hx Hd Hf. rewrite <- Hext in Hx. intros Hbr s var val Hc Hv Hval. cbv zeta.
      destruct (G7 j x Hx Hd Hf Hbr s var val Hc Hv Hval) as (t' & eid & Q). exists t', eid. rewrite <- Hext. exact Q.
    - intros k Hk j x Hjk Hx. rewrite <- Hext in Hx. eauto.
    - intros j x Hx. rewrite <- Hext in Hx. eauto.
    - exact G10.
    - intros j x Hx. rewrite <- Hext in Hx. eauto.
    - exact G12.
    - exact G13.
    - intros x Hx. destruct (G14 x Hx) as (Hd & j & Hj). split; [exact Hd|]. exists j. rewrite <- Hext. exact Hj.
    - rewrite <- Hext. exact G15.
    - exact G16.
  Qed.

  Lemma TIc_initialize c ds polls : TIc c (initialize inp c ds polls).
  Proof.
    assert (Hnil : forall j (x : nat), In x (nth j (@nil (list nat)) []) -> False).
    { intros j x H. destruct j; simpl in H; destruct H. }
    split.
    - apply (MddSim.Linv_initialize inp Hnocut Hwidth Hrd cov cov_refl c ds polls).
    - simpl. apply Nat.le_refl.
    - simpl. exact Hrd.
    - simpl. fold root. fold rd. lia.
    - apply wf_initialize.
    - split; [simpl; lia|]. split; [intros x; simpl; lia|]. intros x [<-|[]]. reflexivity.
    - intros j j' x y _ Hx. exfalso. exact (Hnil _ _ Hx).
    - intros j. simpl. destruct j; constructor.
    - intros j x eid y Hx. exfalso. exact (Hnil _ _ Hx).
    - intros j x Hx. exfalso. exact (Hnil _ _ Hx).
    - intros j x _ Hx. exfalso. exact (Hnil _ _ Hx).
    - intros j x _ Hx. exfalso. exact (Hnil _ _ Hx).
    - intros k Hk. discriminate.
    - apply NinvC_initialize.
    - intros x [<-|[]]. reflexivity.
    - intros j x Hx. exfalso. exact (Hnil _ _ Hx).
    - reflexivity.
    - intros x (eid & He & _). simpl in He. lia.
    - intros x (eid & He & _). simpl in He. lia.
    - split; [reflexivity|]. split; [reflexivity|]. left. split; reflexivity.
  Qed.

  Notation LF := (Thresholds.LF inp).

  Lemma layer_loop_TIc c : forall fuel (m m' : mdd),
    TIc c m -> layer_loop st_eqb inp fuel m = (m', LoopDone) -> FSc c m' (fun j => nth j (LF m') []).
  Proof.
    induction fuel as [|fuel IH]; intros m m' HT Hloop; [simpl in Hloop; inversion Hloop|].
    set (d := m_curr_depth m) in *.
    cbn [layer_loop] in Hloop. cbv zeta in Hloop.
    set (states := map (fun id => n_state (gn m id)) (m_next m)) in *.
    fold pb in Hloop.
    pose proof (Tc_d1 _ _ HT) as Hd1. pose proof (Tc_d2 _ _ HT) as Hd2. pose proof (Tc_oi _ _ HT) as (O1 & O2 & O3).
    destruct (next_variable pb (m_curr_depth m) states) as [var|] eqn:Eov.
    2:{ (* the variables are exhausted *)
      inversion Hloop; subst m'. clear Hloop.
      assert (HdN : d = N).
      { destruct (Nat.lt_ge_cases d N) as [Hlt|Hge]; [|fold d in Hd2; lia].
        destruct (nv_some d states Hlt) as [x Hx]. unfold d in Hx. rewrite Hx in Eov. discriminate. }
      set (ml := add_log m (EvNextVar (m_curr_depth m) states None)).
      unfold Thresholds.LF. destruct (MddSim.finalize_layers_fields inp Hclean ml) as (_ & _ & _ & _ & F5). rewrite F5.
      change (m_next ml) with (m_next m). change (m_layers ml) with (m_layers m).
      change (m_layer_end ml) with (m_layer_end m). change (length (m_nodes ml)) with (length (m_nodes m)).
      set (lastl := seq (m_layer_end m) (length (m_nodes m) - m_layer_end m)).
      assert (Hlast : forall x, In x lastl <-> In x (m_next m)).
      { intros x. unfold lastl. rewrite in_seq, O2. lia. }
      pose proof (FS_of_TIc c m ml lastl HT eq_refl eq_refl eq_refl eq_refl (fun x Hx => Hx) Hlast (seq_NoDup _ _)
                    (or_introl (conj HdN (conj eq_refl (conj eq_refl eq_refl))))) as HF.
      destruct (m_next m) as [|c0 cs] eqn:En; [|exact HF].
      (* empty last layer: the same layers, as functions *)
      assert (Elast : lastl = []).
      { destruct lastl as [|z zs] eqn:E; [reflexivity|]. exfalso. apply (proj1 (Hlast z)). left; reflexivity. }
      rewrite Elast in HF.
      assert (Heq : forall j, nth j (m_layers m) [] = nth j (m_layers m ++ [[]]) []).
      { intros j. destruct (Nat.lt_ge_cases j (length (m_layers m))) as [Hlt|Hge].
        - rewrite app_nth1 by exact Hlt. reflexivity.
        - rewrite nth_overflow by exact Hge. rewrite app_nth2 by exact Hge.
          destruct (j - length (m_layers m)) as [|k]; [reflexivity|destruct k; reflexivity]. }
      apply (FSc_ext c ml (fun j => nth j (m_layers m ++ [[]]) []) (fun j => nth j (m_layers m) [])); [|exact HF].
      intros j. symmetry. apply Heq. }
    set (m1 := add_log m (EvNextVar (m_curr_depth m) states (Some var))) in *.
    set (m2 := with_polls m1 (S (m_polls m1))) in *.
    rewrite Hnocut in Hloop. cbn [Nat.ltb Nat.leb andb] in Hloop.
    rewrite (not_pooled inp Hclean) in Hloop.
    assert (HdN : d < N).
    { destruct (Nat.lt_ge_cases d N) as [Hlt|Hge]; [exact Hlt|].
      pose proof (nv_none d states Hge) as Hn. unfold d in Hn. rewrite Hn in Eov. discriminate. }
    assert (Hvar : next_variable pb (m_curr_depth m) [] = Some var) by (rewrite (nv_static _ [] states); exact Eov).
    destruct (m_next m) as [|c0 cs] eqn:En.
    - (* the next layer is empty: the loop stops *)
      rewrite move_clean_unfold in Hloop. change (m_next m2) with (m_next m) in Hloop. rewrite En in Hloop.
      inversion Hloop; subst m'. clear Hloop.
      set (ml := push_layer (with_next m2 []) [] 0).
      unfold Thresholds.LF. destruct (MddSim.finalize_layers_fields inp Hclean ml) as (_ & _ & _ & _ & F5). rewrite F5.
      change (m_next ml) with (@nil nat). change (m_layers ml) with (m_layers m ++ [[]]).
      apply (FS_of_TIc c m ml [] HT eq_refl eq_refl eq_refl eq_refl (fun x (Hx : In x []) => match Hx with end)).
      + intros x. rewrite En. reflexivity.
      + constructor.
      + right. split; [exact HdN|exact En].
    - destruct (iter_TIc c m var (EvNextVar (m_curr_depth m) states (Some var)) (S (m_polls m1)) HT HdN Hvar)
        as (m3 & l & Emv & HT5).
      { rewrite En. discriminate. }
      cbv zeta in HT5. fold m1 in Emv. fold m2 in Emv. rewrite Emv in Hloop.
      apply (IH _ m' HT5). exact Hloop.
  Qed.
End LoopC.

Local Open Scope Z_scope.

(* ================================================================== 7. runs against the static diagram, with nodes dropped by the cache *)
Section RunCov.
  Context {St : Type}.
  Variable pb : problem St.
  Let N := nb_vars pb.
  Hypothesis nv_static : forall k l1 l2, next_variable pb k l1 = next_variable pb k l2.
  Hypothesis nv_some : forall k l, (k < N)%nat -> exists x, next_variable pb k l = Some x.
  Hypothesis nv_none : forall k l, (N <= k)%nat -> next_variable pb k l = None.
  Variable cov : St -> St -> Prop.
  Hypothesis cov_sim : forall s s' x v, cov s s' -> In v (domain pb x s') ->
    let d := {| d_var := x; d_val := v |} in
    In v (domain pb x s) /\ cov (transition pb s d) (transition pb s' d) /\
    transition_cost pb s' (transition pb s' d) d <= transition_cost pb s (transition pb s d) d.

  Lemma frun_cov ds : forall k s s' v v' s1' v1', cov s s' -> v' <= v ->
    frun pb k s' v' ds = Some (s1', v1') ->
    exists s1 v1, frun pb k s v ds = Some (s1, v1) /\ cov s1 s1' /\ v1' <= v1.
  Proof.
    induction ds as [|d ds IH]; intros k s s' v v' s1' v1' Hc Hv Hr; simpl in *.
    - inversion Hr; subst. exists s, v. auto.
    - destruct (var_ok pb k d) eqn:Ev; simpl in Hr; [|discriminate].
      destruct (in_domain pb s' d) eqn:Ed; [|discriminate].
      apply in_domain_In in Ed.
      destruct (cov_sim s s' (d_var d) (d_val d) Hc Ed) as (D1 & D2 & D3). cbv zeta in D2, D3.
      assert (Ed' : {| d_var := d_var d; d_val := d_val d |} = d) by (destruct d; reflexivity).
      rewrite Ed' in D2, D3. simpl. rewrite (In_in_domain pb s d D1). simpl.
      apply (IH (S k) _ _ (v + transition_cost pb s (transition pb s d) d) (v' + transition_cost pb s' (transition pb s' d) d) s1' v1' D2); [lia|exact Hr].
  Qed.

  Lemma H_cov k s s' h' : (k <= N)%nat -> cov s s' -> H pb k s' = Some h' -> exists h, H pb k s = Some h /\ h' <= h.
  Proof.
    intros Hk Hc Hh.
    destruct (H_attained pb nv_static nv_some nv_none (N - k) k s' 0 h' eq_refl Hk Hh) as (ds & s1' & Hr & Hl).
    destruct (frun_cov ds k s s' 0 0 s1' (0 + h') Hc (Z.le_refl _) Hr) as (s1 & v1 & Hr1 & _ & Hv).
    destruct (frun_le_H pb nv_static nv_none ds k s 0 s1 v1 Hl Hr1) as (h & Hh1 & Hle).
    exists h. split; [exact Hh1|lia].
  Qed.
End RunCov.

Section StaticC.
  Context {St : Type}.
  Variable st_eqb : St -> St -> bool.
  Hypothesis st_eqb_spec : forall a b, st_eqb a b = true <-> a = b.
  Variable inp : @cinput St.
  Let pb := ci_problem inp.
  Let rlx := ci_relax inp.
  Let lb := ci_best_lb inp.
  Let N := nb_vars pb.
  Let rd := sp_depth (ci_root inp).
  Let rs := sp_state (ci_root inp).
  Let rv := sp_value (ci_root inp).
  Hypothesis Hrd : (rd <= N)%nat.
  Hypothesis nv_static : forall k l1 l2, next_variable pb k l1 = next_variable pb k l2.
  Hypothesis nv_some : forall k l, (k < N)%nat -> exists x, next_variable pb k l = Some x.
  Hypothesis nv_none : forall k l, (N <= k)%nat -> next_variable pb k l = None.
  Variable cov : St -> St -> Prop.
  Hypothesis cov_refl : forall s, cov s s.
  Hypothesis cov_sim : forall s s' x v, cov s s' -> In v (domain pb x s') ->
    let d := {| d_var := x; d_val := v |} in
    In v (domain pb x s) /\ cov (transition pb s d) (transition pb s' d) /\
    transition_cost pb s' (transition pb s' d) d <= transition_cost pb s (transition pb s d) d.
  Hypothesis rub_adm : forall k s s' h, cov s s' -> H pb k s' = Some h -> h <= fast_upper_bound rlx s.
  Variable B : Z.
  Hypothesis HB : 2 * B <= IMAX.
  Hypothesis Hguard : forall ds s' v', frun pb rd rs rv ds = Some (s', v') -> - B <= v' <= B.

  Notation mdd := (@mdd St).
  Notation node := (@node St).
  Notation gn := (get_node inp).
  Notation th_own := (Thresholds.th_own st_eqb inp).
  Notation th_step := (Thresholds.th_step st_eqb inp).
  Notation th_prop := (Thresholds.th_prop inp).
  Notation theta_of := (Thresholds.theta_of inp).
  Notation own_theta := (@Thresholds.own_theta St).

  Variable m0 : mdd.
  Variable bk : Z.
  Hypothesis Hbk : lb <= bk.
  Variable Drained : nat -> Prop.
  Variable Old : nat -> St -> Z -> Prop.      (* (depth, state, threshold) recorded in the cache the compilation started from *)
  Variable c0 : @cache St.

  Notation lay := (Thresholds.lay m0).
  Notation live := (Thresholds.live inp m0).
  Notation isex := (Thresholds.isex inp m0).
  Notation above := (Thresholds.above inp m0).
  Notation cuts := (Thresholds.cuts inp m0).
  Notation st := (Thresholds.st inp m0).
  Notation vt := (Thresholds.vt inp m0).
  Notation vb := (Thresholds.vb inp m0).
  Notation rb := (Thresholds.rb inp m0).
  Notation branched := (Thresholds.branched inp m0).
  Notation Adm := (Thresholds.Adm inp cov m0).
  Notation rcost := (Thresholds.rcost inp).
  Notation Start := (Thresholds.Start inp).
  Notation complete := (Thresholds.complete inp).
  Notation lpath := (Thresholds.lpath inp cov m0).
  Notation Capt := (Thresholds.Capt inp m0 Drained).
  Notation nd := (Thresholds.nd inp m0).

  Definition cached (x : nat) : Prop := f_cache (n_flags (gn m0 x)) = true.
  Definition thc0 (x : nat) : option Z := n_theta (gn m0 x).

  Hypothesis H_range : forall j x, lay j x -> (x < length (m_nodes m0))%nat.
  Hypothesis H_uniq : forall j j' x, lay j x -> lay j' x -> j = j'.
  Hypothesis H_ord : forall done x rest, bottom_up m0 = done ++ x :: rest ->
    ~ In x done /\
    (forall eid, In eid (n_inb (gn m0 x)) -> ~ In (e_from (get_edge m0 eid)) (done ++ [x])) /\
    (forall j c, lay j x -> lay (S j) c -> In c done).
  Hypothesis H_efrom : forall j x eid, lay j x -> In eid (n_inb (gn m0 x)) ->
    (e_from (get_edge m0 eid) < length (m_nodes m0))%nat.
  Hypothesis H_depth : forall j x, lay j x -> live x -> n_depth (gn m0 x) = (rd + j)%nat.
  Hypothesis H_SC : forall j x s var val, lay j x -> live x -> ~ cached x -> Adm x s -> (rd + j < N)%nat -> branched x ->
    next_variable pb (rd + j) [] = Some var -> In val (domain pb var s) ->
    let d := {| d_var := var; d_val := val |} in
    exists c eid, lay (S j) c /\ live c /\ Adm c (transition pb s d) /\
      In eid (n_inb (gn m0 c)) /\ e_from (get_edge m0 eid) = x /\ e_dec (get_edge m0 eid) = d /\
      rcost s d <= e_cost (get_edge m0 eid).
  Hypothesis H_rub : forall j x, lay j x -> rb x = IMAX \/ rb x = fast_upper_bound rlx (st x).
  Hypothesis H_cached : forall j x, lay j x -> live x -> cached x ->
    exists tc, thc0 x = Some tc /\ vt x <= tc /\ Old (rd + j) (st x) tc.
  Hypothesis H_cut_ex : forall j x, lay j x -> cuts x -> isex x.
  Hypothesis H_kid : forall j x c eid, lay j x -> live x -> isex x -> above x -> ~ cuts x ->
    lay (S j) c -> live c -> In eid (n_inb (gn m0 c)) -> e_from (get_edge m0 eid) = x -> isex c /\ above c.
  Hypothesis H_real : forall j x, lay j x -> live x -> isex x -> Start j (st x) (vt x).
  Hypothesis H_vtop : forall j x ds1 y s1 v1, lay j x -> live x -> isex x ->
    lpath j x (st x) ds1 y s1 -> frun pb (rd + j) (st x) (vt x) ds1 = Some (s1, v1) -> v1 <= vt y.
  Hypothesis H_locb : forall j x ds T s' w0 w1, lay j x -> live x -> cuts x ->
    lpath j x (st x) ds T s' -> complete j ds -> frun pb (rd + j) (st x) w0 ds = Some (s', w1) ->
    (forall ds1 ds2 s1 v1, ds = ds1 ++ ds2 -> frun pb (rd + j) (st x) w0 ds1 = Some (s1, v1) -> in_isize (w1 - v1)) ->
    w1 - w0 <= vb x.
  Hypothesis H_drain : forall j x ds T s' w0 w1, lay j x -> live x -> cuts x ->
    lpath j x (st x) ds T s' -> complete j ds -> frun pb (rd + j) (st x) w0 ds = Some (s', w1) ->
    (forall ds1 ds2 s1 v1, ds = ds1 ++ ds2 -> frun pb (rd + j) (st x) w0 ds1 = Some (s1, v1) -> in_isize (w1 - v1)) ->
    Drained x.
  Hypothesis H_above_ex : forall j x, lay j x -> live x -> above x -> isex x.

  (* ---------------------------------------------------------------- a run is lost to the cache at layer >= jm *)
  Definition LostAt (jm : nat) (val : Z) : Prop :=
    exists j' y tc h, (jm <= j')%nat /\ lay j' y /\ live y /\ cached y /\ Old (rd + j') (st y) tc /\
      H pb (rd + j') (st y) = Some h /\ val <= tc + h.

  Lemma LostAt_mono jm jm' val val' : (jm' <= jm)%nat -> val' <= val -> LostAt jm val -> LostAt jm' val'.
  Proof.
    intros Hj Hv (j' & y & tc & h & L1 & L2 & L3 & L4 & L5 & L6 & L7).
    exists j', y, tc, h. repeat split; auto; lia.
  Qed.

  Lemma complete_eq j ds : complete j ds <-> (rd + j + length ds = N)%nat.
  Proof. reflexivity. Qed.

  Lemma cached_dec x : {cached x} + {~ cached x}.
  Proof. unfold cached. destruct (f_cache (n_flags (gn m0 x))); [left; reflexivity|right; discriminate]. Qed.

  Definition cj (x j : nat) : nat := if f_cache (n_flags (gn m0 x)) then j else S j.

  (* ---------------------------------------------------------------- real runs *)
  Lemma Start_guard j s r : Start j s r -> - B <= r <= B.
  Proof. intros (pre & Hp & _). eapply Hguard; eauto. Qed.

  Lemma Start_ext j s r ds s' r' : Start j s r -> frun pb (rd + j) s r ds = Some (s', r') ->
    Start (j + length ds) s' r'.
  Proof.
    intros (pre & Hp & Hl) Hr. exists (pre ++ ds). split; [|rewrite app_length; lia].
    change (frun pb rd rs rv pre = Some (s, r)) in Hp.
    change (frun pb rd rs rv (pre ++ ds) = Some (s', r')).
    rewrite frun_app, Hp, Hl. exact Hr.
  Qed.

  Lemma Start_step j s r d : Start j s r -> var_ok pb (rd + j) d = true -> in_domain pb s d = true ->
    Start (S j) (transition pb s d) (r + rcost s d).
  Proof.
    intros HS V1 V2. replace (S j) with (j + length [d])%nat by (simpl; lia).
    apply (Start_ext j s r [d]); [exact HS|]. rewrite (Thresholds.frun_cons inp). fold pb. rewrite V1, V2. reflexivity.
  Qed.

  Lemma cost_le_rub jy y s1 r1 ds2 s' r' : lay jy y -> cov (st y) s1 -> Start jy s1 r1 ->
    frun pb (rd + jy) s1 r1 ds2 = Some (s', r') -> complete jy ds2 -> r' - r1 <= rb y.
  Proof.
    intros Hl Hc HS Hr Hcomp.
    destruct (H_rub jy y Hl) as [E|E]; rewrite E.
    - pose proof (Start_guard _ _ _ HS). pose proof (Start_guard _ _ _ (Start_ext _ _ _ _ _ _ HS Hr)). unfold IMAX in *. lia.
    - destruct (frun_le_H pb nv_static nv_none ds2 (rd + jy) s1 r1 s' r' Hcomp Hr) as (h & Hh & Hle).
      pose proof (rub_adm _ _ _ _ Hc Hh). lia.
  Qed.

  Lemma rub_case_sound j x s r ds s' r' : lay j x -> cov (st x) s -> Start j s r ->
    frun pb (rd + j) s r ds = Some (s', r') -> complete j ds ->
    forall dl, IMIN + B < dl -> r + dl <= sat_sub bk (rb x) -> r' + dl <= bk.
  Proof.
    intros Hl Hc HS Hr Hcomp dl Hdl Hle.
    pose proof (Start_guard _ _ _ HS) as Hg.
    pose proof (cost_le_rub j x s r ds s' r' Hl Hc HS Hr Hcomp) as Hcr.
    pose proof (sat_sub_sound bk (rb x) (r + dl) ltac:(lia) Hle). lia.
  Qed.

  (* a run that reaches a node dropped by the cache with an arrival value below the recorded threshold is lost there *)
  Lemma cached_lost j x s r ds s' r' tc : lay j x -> live x -> cached x -> Old (rd + j) (st x) tc ->
    cov (st x) s -> frun pb (rd + j) s r ds = Some (s', r') -> complete j ds ->
    forall val, val <= tc + (r' - r) -> LostAt j val.
  Proof.
    intros Hl Hv Hc Ho Hcov Hr Hcomp val Hval.
    destruct (frun_le_H pb nv_static nv_none ds (rd + j) s r s' r' Hcomp Hr) as (hs & Hhs & Hle).
    assert (HjN : (rd + j <= N)%nat).
    { pose proof (proj1 (complete_eq j ds) Hcomp) as Hcq. lia. }
    destruct (H_cov pb nv_static nv_some nv_none cov cov_sim (rd + j) (st x) s hs HjN Hcov Hhs) as (h & Hh & Hhh).
    exists j, x, tc, h. repeat split; auto; lia.
  Qed.

  (* ---------------------------------------------------------------- live paths and where a run leaves the diagram *)
  Definition Fall (j x : nat) (s : St) (ds : list decision) : Prop :=
    exists ds1 ds2 y s1, ds = ds1 ++ ds2 /\ lpath j x s ds1 y s1 /\ (rd + j + length ds1 < N)%nat /\
      (~ branched y \/ cached y).

  Lemma branched_dec x : {branched x} + {~ branched x}.
  Proof. unfold Thresholds.branched. destruct (Z_lt_dec (ci_best_lb inp) (sat_add (rb x) (vt x))); [left|right]; assumption. Qed.

  Lemma path_dich ds : forall j x s r s' r', lay j x -> live x -> Adm x s ->
    frun pb (rd + j) s r ds = Some (s', r') -> complete j ds ->
    (exists T, lpath j x s ds T s') \/ Fall j x s ds.
  Proof.
    induction ds as [|d ds IH]; intros j x s r s' r' Hl Hv Ha Hr Hc.
    - simpl in Hr. inversion Hr; subst. left. exists x. apply Thresholds.lp_nil; assumption.
    - rewrite (Thresholds.frun_cons inp) in Hr. fold pb in Hr.
      destruct (var_ok pb (rd + j) d) eqn:Ev; [|discriminate]. destruct (in_domain pb s d) eqn:Ed; [|discriminate].
      simpl in Hr. apply (proj1 (complete_eq _ _)) in Hc. simpl in Hc.
      destruct (cached_dec x) as [Hcx|Hcx].
      { right. exists [], (d :: ds), x, s. split; [reflexivity|]. split; [apply Thresholds.lp_nil; assumption|].
        split; [simpl; lia|right; exact Hcx]. }
      destruct (branched_dec x) as [Hb|Hb].
      + apply (var_ok_spec pb nv_static (rd + j) d []) in Ev. apply in_domain_In in Ed.
        destruct (H_SC j x s (d_var d) (d_val d) Hl Hv Hcx Ha ltac:(lia) Hb Ev Ed) as (c & eid & C1 & C2 & C3 & C4 & C5 & C6 & C7).
        cbv zeta in C3, C6, C7. rewrite Thresholds.mkdec_eta in C3, C6, C7.
        replace (S (rd + j)) with (rd + S j)%nat in Hr by lia.
        destruct (IH (S j) c _ _ _ _ C1 C2 C3 Hr) as [[T HT]|HF].
        * apply (proj2 (complete_eq _ _)). lia.
        * left. exists T. eapply Thresholds.lp_cons; eauto.
        * right. destruct HF as (ds1 & ds2 & y & s1 & E & Hp & Hlt & Hnb).
          exists (d :: ds1), ds2, y, s1. split; [simpl; rewrite E; reflexivity|]. split; [eapply Thresholds.lp_cons; eauto|].
          split; [simpl; lia|exact Hnb].
      + right. exists [], (d :: ds), x, s. split; [reflexivity|]. split; [apply Thresholds.lp_nil; assumption|].
        split; [simpl; lia|left; exact Hb].
  Qed.

  (* ---------------------------------------------------------------- leaving the diagram from a cut-set node whose threshold is its value *)
  Lemma cut_vtop_fall j x r ds1 ds2 y s1 s' r' : lay j x -> live x -> isex x ->
    Start j (st x) r -> frun pb (rd + j) (st x) r (ds1 ++ ds2) = Some (s', r') -> complete j (ds1 ++ ds2) ->
    lpath j x (st x) ds1 y s1 -> (rd + j + length ds1 < N)%nat -> (~ branched y \/ cached y) ->
    forall dl, r + dl <= vt x -> r' + dl <= bk \/ LostAt (j + length ds1) (r' + dl).
  Proof.
    intros Hl Hv Hx HS Hr Hcomp Hp Hlt Hnb dl Hdl.
    pose proof (H_real j x Hl Hv Hx) as HSx.
    set (a := vt x - r).
    pose proof (frun_shift pb _ _ _ _ a _ _ Hr) as Hr2. replace (r + a) with (vt x) in Hr2 by (unfold a; lia).
    rewrite frun_app in Hr2.
    destruct (frun pb (rd + j) (st x) (vt x) ds1) as [[s1' v1]|] eqn:E1; [|discriminate].
    destruct (Thresholds.lpath_end _ _ _ _ _ _ _ _ _ Hp) as (L1 & L2 & L3 & L4).
    assert (s1' = s1) by (rewrite L4; apply (frun_state pb _ _ _ _ _ _ E1)). subst s1'.
    pose proof (H_vtop j x ds1 y s1 v1 Hl Hv Hx Hp E1) as Hv1.
    pose proof (Start_ext _ _ _ _ _ _ HSx E1) as HS1.
    replace (rd + j + length ds1)%nat with (rd + (j + length ds1))%nat in Hr2 by lia.
    assert (Hc2 : complete (j + length ds1) ds2).
    { apply (proj2 (complete_eq _ _)). apply (proj1 (complete_eq _ _)) in Hcomp. rewrite app_length in Hcomp. lia. }
    destruct Hnb as [Hnb|Hcy].
    - left.
      pose proof (cost_le_rub _ y s1 v1 ds2 s' (r' + a) L1 (proj1 L3) HS1 Hr2 Hc2) as Hcr.
      pose proof (Start_guard _ _ _ (Start_ext _ _ _ _ _ _ HS1 Hr2)) as HgV.
      assert (HV : r' + a <= sat_add (rb y) (vt y)).
      { apply sat_add_ge; [unfold in_isize, IMIN, IMAX in *; lia|lia]. }
      unfold Thresholds.branched in Hnb. fold lb in Hnb. unfold a in *. lia.
    - right. destruct (H_cached _ y L1 L2 Hcy) as (tc & _ & Htc & Hold).
      apply (cached_lost (j + length ds1) y s1 v1 ds2 s' (r' + a) tc L1 L2 Hcy Hold (proj1 L3) Hr2 Hc2).
      unfold a. lia.
  Qed.

  (* capture by a drained cut-set node; with e = true the node is met strictly deeper than the starting point *)
  Definition CaptD (e : bool) (j : nat) (s : St) (w : Z) (ds : list decision) : Prop :=
    exists ds1 ds2 y s1 w1, ds = ds1 ++ ds2 /\ frun pb (rd + j) s w ds1 = Some (s1, w1) /\
      Drained y /\ st y = s1 /\ n_depth (gn m0 y) = (rd + j + length ds1)%nat /\ w1 <= vt y /\ (e = true -> ds1 <> []).

  Lemma CaptD_weaken e j s w ds : CaptD e j s w ds -> CaptD false j s w ds.
  Proof.
    intros (ds1 & ds2 & y & s1 & w1 & A1 & A2 & A3 & A4 & A5 & A6 & _).
    exists ds1, ds2, y, s1, w1. repeat split; auto. discriminate.
  Qed.

  Definition cutb (x : nat) : bool := f_cutset (n_flags (gn m0 x)).

  (* ---------------------------------------------------------------- the two semantic invariants *)
  Definition GB (x : nat) (th : option Z) : Prop :=
    forall j s r ds s' r', lay j x -> Adm x s -> Start j s r ->
      frun pb (rd + j) s r ds = Some (s', r') -> complete j ds -> Fall j x s ds ->
      exists t, th = Some t /\ forall dl, IMIN + B < dl -> r + dl <= t -> r' + dl <= bk \/ LostAt (cj x j) (r' + dl).

  Definition GA (x : nat) (th : option Z) : Prop :=
    isex x -> above x ->
    forall j r ds s' r' T, lay j x -> Start j (st x) r ->
      frun pb (rd + j) (st x) r ds = Some (s', r') -> complete j ds -> lpath j x (st x) ds T s' ->
      exists t, th = Some t /\
        forall dl, IMIN + B < dl -> r + dl <= t ->
          r' + dl <= bk \/ CaptD (negb (cutb x)) j (st x) (r + dl) ds \/ LostAt (cj x j) (r' + dl).

  Lemma cj_ge x j : (j <= cj x j)%nat.
  Proof. unfold cj. destruct (f_cache _); lia. Qed.
  Lemma cj_nc x j : ~ cached x -> cj x j = S j.
  Proof. unfold cj, cached. destruct (f_cache _); [intros H; exfalso; apply H; reflexivity|reflexivity]. Qed.
  Lemma cj_c x j : cached x -> cj x j = j.
  Proof. unfold cj, cached. intros ->. reflexivity. Qed.

  Section Core.
    Variables (x j : nat) (pre : option Z) (thk : nat -> option Z).
    Hypothesis Hl : lay j x.
    Hypothesis Hv : live x.
    Hypothesis KB : forall c, lay (S j) c -> live c -> GB c (thk c).
    Hypothesis KA : forall c, lay (S j) c -> live c -> GA c (thk c).
    Hypothesis KQ : forall c eid tc, lay (S j) c -> live c -> thk c = Some tc ->
      In eid (n_inb (gn m0 c)) -> e_from (get_edge m0 eid) = x ->
      exists tp, pre = Some tp /\ tp <= sat_sub tc (e_cost (get_edge m0 eid)).
    Hypothesis KT : isex x -> above x -> (rd + j = N)%nat -> exists t, pre = Some t /\ t <= bk.
    Hypothesis KM : cached x -> tle pre (thc0 x).

    Lemma own_theta_nd :
      own_theta bk (nd x pre) =
        if negb (f_cache (n_flags (gn m0 x))) then
          if sat_add (vt x) (rb x) <=? bk then Some (sat_sub bk (rb x))
          else if f_cutset (n_flags (gn m0 x)) then
            if sat_add (vt x) (vb x) <=? bk then Some (Z.min (opt_default IMAX pre) (sat_sub bk (vb x)))
            else Some (vt x)
          else if fl_is_exact (n_flags (gn m0 x)) && match pre with None => true | Some _ => false end
            then Some IMAX else pre
        else pre.
    Proof. unfold Thresholds.own_theta, Thresholds.nd. cbn [n_flags n_vtop n_rub n_vbot n_theta set_theta]. reflexivity. Qed.

    Lemma not_rub_branched : (sat_add (vt x) (rb x) <=? bk) = false -> branched x.
    Proof.
      intros E. apply Z.leb_gt in E. unfold Thresholds.branched. fold lb. rewrite sat_add_comm.
      destruct (Z_lt_dec lb (sat_add (vt x) (rb x))); [assumption|lia].
    Qed.

    (* a node dropped by the cache: its threshold is (at most) the recorded one *)
    Lemma cached_case : cached x ->
      exists t tc, pre = Some t /\ t <= tc /\ Old (rd + j) (st x) tc /\
        own_theta bk (nd x pre) = Some t.
    Proof.
      intros Hc. destruct (H_cached j x Hl Hv Hc) as (tc & E0 & _ & Hold).
      pose proof (KM Hc) as Ht. rewrite E0 in Ht. simpl in Ht. destruct Ht as (t & Et & Hle).
      exists t, tc. split; [exact Et|]. split; [exact Hle|]. split; [exact Hold|].
      rewrite own_theta_nd. unfold cached in Hc. rewrite Hc. simpl. exact Et.
    Qed.

    Lemma core_GB : GB x (own_theta bk (nd x pre)).
    Proof.
      intros j' s r ds s' r' Hl' Ha HS Hr Hcomp HF.
      assert (j' = j) by (eapply H_uniq; eauto). subst j'.
      destruct (cached_dec x) as [Hcx|Hcx].
      { destruct (cached_case Hcx) as (t & tc & Et & Hle & Hold & Eo). rewrite Eo.
        exists t. split; [reflexivity|]. intros dl Hdl Hrt. right. rewrite (cj_c x j Hcx).
        apply (cached_lost j x s r ds s' r' tc Hl Hv Hcx Hold (proj1 Ha) Hr Hcomp). lia. }
      rewrite (cj_nc x j Hcx).
      rewrite own_theta_nd. assert (Efc : f_cache (n_flags (gn m0 x)) = false).
      { unfold cached in Hcx. destruct (f_cache (n_flags (gn m0 x))); [exfalso; apply Hcx; reflexivity|reflexivity]. }
      rewrite Efc. cbn [negb].
      destruct (sat_add (vt x) (rb x) <=? bk) eqn:E1.
      { eexists. split; [reflexivity|]. intros dl Hdl Hle. left.
        exact (rub_case_sound j x s r ds s' r' Hl (proj1 Ha) HS Hr Hcomp dl Hdl Hle). }
      pose proof (not_rub_branched E1) as Hbr.
      destruct HF as (ds1 & ds2 & y & s1 & E & Hp & Hlt & Hnb). subst ds.
      destruct ds1 as [|d ds1].
      { destruct (Thresholds.lpath_nil_inv _ _ _ _ _ _ _ _ Hp) as [-> _]. destruct Hnb; contradiction. }
      destruct (Thresholds.lpath_cons_inv _ _ _ _ _ _ _ _ _ _ Hp) as (c & eid & A4 & A5 & A6 & A7 & Hp').
      destruct (Thresholds.lpath_start _ _ _ _ _ _ _ _ _ Hp') as (C1 & C2 & C3).
      change ((d :: ds1) ++ ds2) with (d :: (ds1 ++ ds2)) in Hr, Hcomp.
      destruct (Thresholds.frun_cons_inv inp _ _ _ _ _ _ _ Hr) as (V1 & V2 & Hr').
      fold pb in V1, V2, Hr'.
      replace (S (rd + j)) with (rd + S j)%nat in Hr' by lia.
      pose proof (Start_step j s r _ HS V1 V2) as HSc.
      assert (Hcc : complete (S j) (ds1 ++ ds2)).
      { apply (proj2 (complete_eq _ _)). apply (proj1 (complete_eq _ _)) in Hcomp. simpl in Hcomp. lia. }
      assert (HFc : Fall (S j) c (transition pb s d) (ds1 ++ ds2)).
      { exists ds1, ds2, y, s1. split; [reflexivity|]. split; [exact Hp'|]. split; [simpl in Hlt; lia|exact Hnb]. }
      destruct (KB c C1 C2 (S j) _ _ _ _ _ C1 C3 HSc Hr' Hcc HFc) as (tc & Etc & Hsc).
      destruct (KQ c eid tc C1 C2 Etc A4 A5) as (tp & -> & Htp).
      pose proof (Start_guard _ _ _ HS) as Hg.
      assert (Hs : forall dl, IMIN + B < dl -> r + dl <= tp -> r' + dl <= bk \/ LostAt (S j) (r' + dl)).
      { apply (Thresholds.via_child inp B (fun dl => r' + dl <= bk \/ LostAt (S j) (r' + dl)) r (rcost s d)
                 (e_cost (get_edge m0 eid)) tp tc A7 (proj1 Hg) Htp).
        intros dl Hdl Hle. destruct (Hsc dl Hdl ltac:(lia)) as [H1|H1]; [left; exact H1|right].
        eapply LostAt_mono; [apply cj_ge|apply Z.le_refl|exact H1]. }
      destruct (f_cutset (n_flags (gn m0 x))) eqn:E2.
      - destruct (sat_add (vt x) (vb x) <=? bk) eqn:E3.
        + eexists. split; [reflexivity|]. intros dl Hdl Hle. apply Hs; [exact Hdl|]. simpl in Hle. lia.
        + eexists. split; [reflexivity|]. intros dl Hdl Hle.
          pose proof (H_cut_ex j x Hl E2) as Hex. pose proof (proj2 Ha Hex) as Es. subst s.
          destruct (cut_vtop_fall j x r (d :: ds1) ds2 y s1 s' r' Hl Hv Hex HS Hr Hcomp Hp Hlt Hnb dl Hle) as [H1|H1];
            [left; exact H1|right].
          eapply LostAt_mono; [|apply Z.le_refl|exact H1]. simpl. lia.
      - rewrite andb_false_r. eexists. split; [reflexivity|]. exact Hs.
    Qed.

    Lemma core_GA : GA x (own_theta bk (nd x pre)).
    Proof.
      intros Hex Hab j' r ds s' r' T Hl' HS Hr Hcomp Hp.
      assert (j' = j) by (eapply H_uniq; eauto). subst j'.
      destruct (Thresholds.lpath_start _ _ _ _ _ _ _ _ _ Hp) as (_ & _ & Ha).
      destruct (cached_dec x) as [Hcx|Hcx].
      { destruct (cached_case Hcx) as (t & tc & Et & Hle & Hold & Eo). rewrite Eo.
        exists t. split; [reflexivity|]. intros dl Hdl Hrt. right; right. rewrite (cj_c x j Hcx).
        apply (cached_lost j x (st x) r ds s' r' tc Hl Hv Hcx Hold (proj1 Ha) Hr Hcomp). lia. }
      rewrite (cj_nc x j Hcx).
      rewrite own_theta_nd. assert (Efc : f_cache (n_flags (gn m0 x)) = false).
      { unfold cached in Hcx. destruct (f_cache (n_flags (gn m0 x))); [exfalso; apply Hcx; reflexivity|reflexivity]. }
      rewrite Efc. cbn [negb].
      pose proof (Start_guard _ _ _ HS) as Hg.
      destruct (sat_add (vt x) (rb x) <=? bk) eqn:E1.
      { eexists. split; [reflexivity|]. intros dl Hdl Hle. left.
        exact (rub_case_sound j x (st x) r ds s' r' Hl (proj1 Ha) HS Hr Hcomp dl Hdl Hle). }
      destruct (f_cutset (n_flags (gn m0 x))) eqn:E2.
      - destruct (sat_add (vt x) (vb x) <=? bk) eqn:E3.
        + eexists. split; [reflexivity|]. intros dl Hdl Hle. left.
          assert (Hlb : r' - r <= vb x).
          { apply (H_locb j x ds T s' r r' Hl Hv E2 Hp Hcomp Hr).
            intros da db s1 v1 Ed Hr1. apply (Thresholds.isize_diff inp B HB).
            - apply (Start_guard _ _ _ (Start_ext _ _ _ _ _ _ HS Hr)).
            - apply (Start_guard _ _ _ (Start_ext _ _ _ _ _ _ HS Hr1)). }
          assert (Hle2 : r + dl <= sat_sub bk (vb x)) by lia.
          pose proof (sat_sub_sound bk (vb x) (r + dl) ltac:(lia) Hle2). lia.
        + eexists. split; [reflexivity|]. intros dl Hdl Hle. right; left.
          assert (Hd : Drained x).
          { apply (H_drain j x ds T s' r r' Hl Hv E2 Hp Hcomp Hr).
            intros da db s1 v1 Ed Hr1. apply (Thresholds.isize_diff inp B HB).
            - apply (Start_guard _ _ _ (Start_ext _ _ _ _ _ _ HS Hr)).
            - apply (Start_guard _ _ _ (Start_ext _ _ _ _ _ _ HS Hr1)). }
          exists [], ds, x, (st x), (r + dl). split; [reflexivity|]. split; [reflexivity|].
          split; [exact Hd|]. split; [reflexivity|]. split; [|split; [exact Hle|]].
          { rewrite (H_depth j x Hl Hv). simpl. fold rd. lia. }
          unfold cutb. rewrite E2. discriminate.
      - destruct ds as [|d ds].
        + destruct (KT Hex Hab) as (t0 & -> & Ht0).
          { apply (proj1 (complete_eq _ _)) in Hcomp. simpl in Hcomp. lia. }
          rewrite andb_false_r. eexists. split; [reflexivity|]. intros dl Hdl Hle. left.
          simpl in Hr. inversion Hr; subst. lia.
        + destruct (Thresholds.lpath_cons_inv _ _ _ _ _ _ _ _ _ _ Hp) as (c & eid & A4 & A5 & A6 & A7 & Hp').
          destruct (Thresholds.lpath_start _ _ _ _ _ _ _ _ _ Hp') as (C1 & C2 & C3).
          assert (Hnc : ~ cuts x) by (unfold Thresholds.cuts; rewrite E2; discriminate).
          destruct (H_kid j x c eid Hl Hv Hex Hab Hnc C1 C2 A4 A5) as [Hexc Habc].
          assert (Etr : transition pb (st x) d = st c) by exact (proj2 C3 Hexc).
          change (lpath (S j) c (transition pb (st x) d) ds T s') in Hp'.
          destruct (Thresholds.frun_cons_inv inp _ _ _ _ _ _ _ Hr) as (V1 & V2 & Hr').
          fold pb in V1, V2, Hr'.
          replace (S (rd + j)) with (rd + S j)%nat in Hr' by lia.
          pose proof (Start_step j (st x) r _ HS V1 V2) as HSc.
          assert (Hcc : complete (S j) ds).
          { apply (proj2 (complete_eq _ _)). apply (proj1 (complete_eq _ _)) in Hcomp. simpl in Hcomp. lia. }
          rewrite Etr in Hr', HSc, Hp'.
          destruct (KA c C1 C2 Hexc Habc (S j) _ _ _ _ T C1 HSc Hr' Hcc Hp') as (tc & Etc & Hsc).
          destruct (KQ c eid tc C1 C2 Etc A4 A5) as (tp & -> & Htp).
          rewrite andb_false_r. eexists. split; [reflexivity|].
          apply (Thresholds.via_child inp B
                   (fun dl => r' + dl <= bk \/ CaptD (negb (cutb x)) j (st x) (r + dl) (d :: ds) \/ LostAt (S j) (r' + dl)) r (rcost (st x) d)
                   (e_cost (get_edge m0 eid)) tp tc A7 (proj1 Hg) Htp).
          intros dl Hdl Hle. destruct (Hsc dl Hdl Hle) as [H1|[H1|H1]]; [left; exact H1|right; left|right; right].
          * destruct H1 as (ds1 & ds2 & y & s1 & w1 & E & Hf & Hd & Hs & Hdep & Hw & _).
            exists (d :: ds1), ds2, y, s1, w1. split; [simpl; rewrite E; reflexivity|]. split.
            { change (frun pb (rd + j) (st x) (r + dl) (d :: ds1) = Some (s1, w1)). cbn [frun]. rewrite V1, V2. cbn [andb].
              replace (S (rd + j)) with (rd + S j)%nat by lia.
              replace (r + dl + transition_cost pb (st x) (transition pb (st x) d) d) with (r + rcost (st x) d + dl)
                by (unfold Thresholds.rcost; fold pb; lia).
              rewrite Etr. exact Hf. }
            split; [exact Hd|]. split; [exact Hs|]. split; [rewrite Hdep; simpl; lia|]. split; [exact Hw|discriminate].
          * eapply LostAt_mono; [apply cj_ge|apply Z.le_refl|exact H1].
    Qed.
  End Core.

  (* ---------------------------------------------------------------- what a sound threshold of a node above the cut-set means *)
  Definition SafeAt (j : nat) (s : St) (t : Z) (e : bool) : Prop :=
    (exists r, Start j s r) /\
    forall v ds s' v', IMIN + 2 * B < v -> v <= t ->
      frun pb (rd + j) s v ds = Some (s', v') -> complete j ds ->
      v' <= bk \/ CaptD e j s v ds \/ LostAt (S j) v'.

  Lemma node_safe x j t : lay j x -> live x -> above x -> ~ cached x -> GA x (Some t) -> GB x (Some t) ->
    SafeAt j (st x) t (negb (cutb x)).
  Proof.
    intros Hl Hv Hab Hnc HA HG.
    pose proof (H_above_ex j x Hl Hv Hab) as Hex.
    pose proof (H_real j x Hl Hv Hex) as HS. pose proof (Start_guard _ _ _ HS) as Hg.
    split; [exists (vt x); exact HS|].
    intros v ds s' v' Hv1 Hv2 Hr Hcomp.
    set (dl := v - vt x).
    pose proof (frun_shift pb _ _ _ _ (- dl) _ _ Hr) as Hr2. replace (v + - dl) with (vt x) in Hr2 by (unfold dl; lia).
    assert (Ha : Adm x (st x)) by (split; [apply cov_refl|reflexivity]).
    assert (Hdl : IMIN + B < dl) by (unfold dl; lia).
    assert (Hle : vt x + dl <= t) by (unfold dl; lia).
    destruct (path_dich ds j x (st x) (vt x) s' (v' + - dl) Hl Hv Ha Hr2 Hcomp) as [[T HT]|HF].
    - destruct (HA Hex Hab j (vt x) ds s' (v' + - dl) T Hl HS Hr2 Hcomp HT) as (t' & Et & Hs).
      inversion Et; subst t'. destruct (Hs dl Hdl Hle) as [H1|[H1|H1]].
      + left. lia.
      + right; left. replace (vt x + dl) with v in H1 by (unfold dl; lia). exact H1.
      + right; right. rewrite (cj_nc x j Hnc) in H1. eapply LostAt_mono; [apply Nat.le_refl| |exact H1]. lia.
    - destruct (HG j (st x) (vt x) ds s' (v' + - dl) Hl Ha HS Hr2 Hcomp HF) as (t' & Et & Hs).
      inversion Et; subst t'. destruct (Hs dl Hdl Hle) as [H1|H1].
      + left. lia.
      + right; right. rewrite (cj_nc x j Hnc) in H1. eapply LostAt_mono; [apply Nat.le_refl| |exact H1]. lia.
  Qed.

  (* ---------------------------------------------------------------- the cache: every entry is an initial one, or sound *)
  Definition CacheOKg (c : @cache St) : Prop :=
    forall d s th, cget st_eqb c s d = Some th ->
      cget st_eqb c0 s d = Some th \/ exists j, d = (rd + j)%nat /\ SafeAt j s (th_value th) (th_explored th).

  Lemma CacheOKg_update c s d v e c' j :
    update_threshold st_eqb c s d v e = Some c' -> CacheOKg c -> d = (rd + j)%nat -> SafeAt j s v e -> CacheOKg c'.
  Proof.
    intros Hu HC Hd HS d' s' th Hg.
    assert (Hlen : length c' = length c) by (apply (cstep_length st_eqb c (OpUpdate s d v e) c'); exact Hu).
    assert (Hd' : (d' < length c)%nat).
    { unfold cget in Hg. destruct (nth_error c' d') eqn:E; [|discriminate].
      rewrite <- Hlen. apply nth_error_Some. congruence. }
    rewrite (cget_step st_eqb st_eqb_spec c (OpUpdate s d v e) c' s' d' Hu Hd') in Hg.
    destruct (Nat.eqb d d' && st_eqb s s') eqn:Ek; [|apply HC; exact Hg].
    apply andb_true_iff in Ek. destruct Ek as [E1 E2]. apply Nat.eqb_eq in E1. apply st_eqb_spec in E2. subst d' s'.
    unfold omax_th in Hg. destruct (cget st_eqb c s d) as [t0|] eqn:E0.
    - inversion Hg; subst th. unfold th_max. destruct (is_gt _).
      + right. exists j. split; [exact Hd|exact HS].
      + apply HC. exact E0.
    - inversion Hg; subst th. right. exists j. split; [exact Hd|exact HS].
  Qed.

  (* ---------------------------------------------------------------- the invariant of the fold *)
  Notation sk := (@Thresholds.sk St).
  Definition Fr (a : mdd) : Prop :=
    length (m_nodes a) = length (m_nodes m0) /\ (forall x, sk (gn a x) = sk (gn m0 x)) /\ m_edges a = m_edges m0.
  Definition PA (a : mdd) (done : list nat) : Prop :=
    forall x, In x done -> live x -> GA x (theta_of a x) /\ GB x (theta_of a x).
  Definition PQ (a : mdd) (done : list nat) : Prop :=
    forall c eid tc, In c done -> live c -> theta_of a c = Some tc -> In eid (n_inb (gn m0 c)) ->
      ~ In (e_from (get_edge m0 eid)) done ->
      exists tp, theta_of a (e_from (get_edge m0 eid)) = Some tp /\ tp <= sat_sub tc (e_cost (get_edge m0 eid)).
  Definition PT (a : mdd) (done : list nat) : Prop :=
    forall x j, ~ In x done -> lay j x -> live x -> isex x -> above x -> (rd + j = N)%nat ->
      exists t, theta_of a x = Some t /\ t <= bk.
  Definition PM (a : mdd) : Prop := forall x, cached x -> tle (theta_of a x) (thc0 x).
  Definition FI (a : mdd) (done : list nat) : Prop :=
    Fr a /\ PA a done /\ PQ a done /\ PT a done /\ PM a /\ CacheOKg (m_cache a).

  Lemma bu_lay x : In x (bottom_up m0) -> exists j, lay j x.
  Proof.
    unfold bottom_up. intros H. apply in_concat in H. destruct H as (l & Hl & Hx).
    apply in_rev in Hl. apply (In_nth _ _ []) in Hl. destruct Hl as (j & _ & Ej).
    exists j. unfold Thresholds.lay. rewrite Ej. exact Hx.
  Qed.

  Lemma lay_bu j x : lay j x -> In x (bottom_up m0).
  Proof.
    unfold Thresholds.lay, bottom_up. intros H. apply in_concat. exists (nth j (m_layers m0) []). split; [|exact H].
    apply in_rev. rewrite rev_involutive.
    destruct (Nat.lt_ge_cases j (length (m_layers m0))) as [Hlt|Hge]; [apply nth_In; exact Hlt|].
    rewrite nth_overflow in H by exact Hge. destruct H.
  Qed.

  Lemma Fr_node (a : mdd) x : Fr a -> gn a x = nd x (theta_of a x).
  Proof.
    intros (_ & F2 & _). unfold Thresholds.nd, Thresholds.theta_of. rewrite (Thresholds.node_of_sk (gn a x)) at 1.
    rewrite F2. apply Thresholds.set_theta_sk.
  Qed.

  Lemma th_own_cached bk0 (a : mdd) x : f_cache (n_flags (gn a x)) = true -> th_own bk0 a x = a.
  Proof. intros H. unfold Thresholds.th_own. cbv zeta. rewrite H. reflexivity. Qed.

  Lemma th_step_FI (a : mdd) done x rest :
    bottom_up m0 = done ++ x :: rest -> FI a done -> FI (th_step bk a x) (done ++ [x]).
  Proof.
    intros HBU (HF & HPA & HPQ & HPT & HPM & HC).
    destruct (H_ord _ _ _ HBU) as (O1 & O2 & O3).
    assert (Hxin : In x (bottom_up m0)) by (rewrite HBU; apply in_or_app; right; left; reflexivity).
    destruct (bu_lay x Hxin) as [j Hl].
    pose proof (H_range j x Hl) as Hxlt.
    pose proof HF as (F1 & F2 & F3).
    pose proof (Fr_node a x HF) as Hgx.
    unfold Thresholds.th_step. rewrite Hgx. unfold Thresholds.nd at 1. cbn [n_flags set_theta].
    destruct (f_deleted (n_flags (gn m0 x))) eqn:Edel.
    { (* deleted: skipped *)
      split; [exact HF|]. split; [|split; [|split; [|split]]].
      - intros y Hy Hvy. apply in_app_or in Hy. destruct Hy as [Hy|[<-|[]]]; [apply HPA; assumption|].
        unfold Thresholds.live in Hvy. congruence.
      - intros c eid tc Hc Hvc Et Hin Hnp. apply in_app_or in Hc. destruct Hc as [Hc|[<-|[]]].
        + apply (HPQ c eid tc Hc Hvc Et Hin). intros Hp. apply Hnp. apply in_or_app. left; exact Hp.
        + unfold Thresholds.live in Hvc. congruence.
      - intros y jy Hny. apply HPT. intros Hy. apply Hny. apply in_or_app. left; exact Hy.
      - exact HPM.
      - exact HC. }
    assert (Hv : live x) by exact Edel.
    set (pre := theta_of a x) in *.
    set (th1 := own_theta bk (nd x pre)).
    set (a1 := th_own bk a x).
    assert (Hlta : (x < length (m_nodes a))%nat) by (rewrite F1; exact Hxlt).
    assert (G1 : forall y, gn a1 y = if Nat.eqb y x then set_theta (gn a x) th1 else gn a y).
    { intros y. unfold a1. rewrite (Thresholds.th_own_gn st_eqb inp bk a x y Hlta). rewrite Hgx. reflexivity. }
    assert (G1x : gn a1 x = nd x th1).
    { rewrite G1, Nat.eqb_refl, Hgx. unfold Thresholds.nd. destruct (gn m0 x); reflexivity. }
    assert (G1o : forall y, y <> x -> gn a1 y = gn a y).
    { intros y Hne. rewrite G1. apply Nat.eqb_neq in Hne. rewrite Hne. reflexivity. }
    assert (E1 : m_edges a1 = m_edges m0) by (unfold a1; rewrite Thresholds.th_own_edges; exact F3).
    assert (L1 : length (m_nodes a1) = length (m_nodes m0)).
    { unfold a1. rewrite Thresholds.th_own_nodes. unfold Thresholds.own_upd. simpl. rewrite upd_nth_length. exact F1. }
    assert (S1 : forall y, sk (gn a1 y) = sk (gn m0 y)).
    { intros y. rewrite G1. destruct (Nat.eqb y x) eqn:E.
      - apply Nat.eqb_eq in E. subst y. rewrite Thresholds.sk_set_theta. apply F2.
      - apply F2. }
    (* the propagation to the parents *)
    set (a2 := th_prop a1 x).
    assert (HP : m_edges a2 = m_edges m0 /\ length (m_nodes a2) = length (m_nodes m0) /\ m_cache a2 = m_cache a1 /\
                 (forall y, sk (gn a2 y) = sk (gn m0 y)) /\
                 (forall y, tle (theta_of a2 y) (theta_of a1 y)) /\
                 (forall y, (forall eid, In eid (n_inb (gn m0 x)) -> e_from (get_edge m0 eid) <> y) -> gn a2 y = gn a1 y) /\
                 (forall my, th1 = Some my -> forall eid, In eid (n_inb (gn m0 x)) ->
                    exists t', theta_of a2 (e_from (get_edge m0 eid)) = Some t' /\ t' <= sat_sub my (e_cost (get_edge m0 eid)))).
    { assert (Hinb : n_inb (gn a1 x) = n_inb (gn m0 x)) by (rewrite G1x; reflexivity).
      assert (Hth : n_theta (gn a1 x) = th1) by (rewrite G1x; reflexivity).
      unfold a2, Thresholds.th_prop. rewrite Hinb, Hth.
      assert (Hge : forall k, get_edge a1 k = get_edge m0 k) by (intros k; apply ge_edges_eq; exact E1).
      destruct th1 as [my|] eqn:Eth.
      - destruct (Thresholds.prop_fold_spec inp my (n_inb (gn m0 x)) a1) as (Q1 & Q2 & Q2c & Q3 & Q4 & Q5 & Q6).
        cbv zeta in Q1, Q2, Q2c, Q3, Q4, Q5, Q6.
        split; [congruence|]. split; [congruence|]. split; [exact Q2c|]. split; [intros y; rewrite Q3; apply S1|].
        split; [exact Q4|]. split.
        + intros y Hy. apply Q5. intros eid Hin. rewrite Hge. apply Hy. exact Hin.
        + intros my' Emy eid Hin. inversion Emy; subst my'. rewrite <- (Hge eid). apply Q6; [exact Hin|].
          rewrite Hge, L1. eapply H_efrom; eauto.
      - split; [exact E1|]. split; [exact L1|]. split; [reflexivity|]. split; [exact S1|].
        split; [intros y; apply tle_refl|]. split; [reflexivity|]. intros my Emy. discriminate. }
    destruct HP as (P1 & P1l & P5 & P1s & P2 & P3 & P4).
    assert (Hfroz : forall y, In y (done ++ [x]) -> gn a2 y = gn a1 y).
    { intros y Hy. apply P3. intros eid Hin E. apply (O2 eid Hin). rewrite E. exact Hy. }
    assert (Hold : forall y, In y done -> theta_of a2 y = theta_of a y).
    { intros y Hy. unfold Thresholds.theta_of. rewrite Hfroz by (apply in_or_app; left; exact Hy).
      rewrite G1o; [reflexivity|]. intros ->. contradiction. }
    assert (Hthx : theta_of a2 x = th1).
    { unfold Thresholds.theta_of. rewrite Hfroz by (apply in_or_app; right; left; reflexivity). rewrite G1x. reflexivity. }
    (* the semantic core *)
    assert (Hcore : GA x th1 /\ GB x th1).
    { assert (KB : forall c, lay (S j) c -> live c -> GB c (theta_of a c)).
      { intros c Hc Hvc. apply HPA; [apply (O3 j c Hl Hc)|exact Hvc]. }
      assert (KA : forall c, lay (S j) c -> live c -> GA c (theta_of a c)).
      { intros c Hc Hvc. apply HPA; [apply (O3 j c Hl Hc)|exact Hvc]. }
      assert (KQ : forall c eid tc, lay (S j) c -> live c -> theta_of a c = Some tc ->
                In eid (n_inb (gn m0 c)) -> e_from (get_edge m0 eid) = x ->
                exists tp, pre = Some tp /\ tp <= sat_sub tc (e_cost (get_edge m0 eid))).
      { intros c eid tc Hc Hvc Et Hin Ef.
        destruct (HPQ c eid tc (O3 j c Hl Hc) Hvc Et Hin) as (tp & Etp & Hle); [rewrite Ef; exact O1|].
        rewrite Ef in Etp. exists tp. auto. }
      assert (KT : isex x -> above x -> (rd + j = N)%nat -> exists t, pre = Some t /\ t <= bk).
      { intros Hex Hab HN. apply (HPT x j O1 Hl Hv Hex Hab HN). }
      assert (KM : cached x -> tle pre (thc0 x)) by (intros Hc; apply HPM; exact Hc).
      split; [exact (core_GA x j pre (theta_of a) Hl Hv KA KQ KT KM)|exact (core_GB x j pre (theta_of a) Hl Hv KB KQ KT KM)]. }
    split; [|split; [|split; [|split; [|split]]]].
    - split; [exact P1l|]. split; [exact P1s|exact P1].
    - intros y Hy Hvy. apply in_app_or in Hy. destruct Hy as [Hy|[<-|[]]].
      + rewrite (Hold y Hy). apply HPA; assumption.
      + rewrite Hthx. exact Hcore.
    - intros c eid tc Hc Hvc Et Hin Hnp.
      assert (Hpne : e_from (get_edge m0 eid) <> x).
      { intros E. apply Hnp. rewrite E. apply in_or_app. right; left; reflexivity. }
      apply in_app_or in Hc. destruct Hc as [Hc|[<-|[]]].
      + rewrite (Hold c Hc) in Et.
        destruct (HPQ c eid tc Hc Hvc Et Hin) as (tp & Etp & Hle).
        { intros Hp. apply Hnp. apply in_or_app. left; exact Hp. }
        pose proof (P2 (e_from (get_edge m0 eid))) as Ht. unfold Thresholds.theta_of at 2 in Ht. rewrite (G1o _ Hpne) in Ht.
        fold (theta_of a (e_from (get_edge m0 eid))) in Ht. rewrite Etp in Ht. simpl in Ht.
        destruct Ht as (t2 & E2 & Hle2). exists t2. split; [exact E2|lia].
      + rewrite Hthx in Et. apply (P4 tc Et eid Hin).
    - intros y jy Hny Hly Hvy Hexy Haby HN.
      assert (Hyne : y <> x) by (intros ->; apply Hny; apply in_or_app; right; left; reflexivity).
      destruct (HPT y jy) as (t & Et & Hle); auto.
      { intros Hy. apply Hny. apply in_or_app. left; exact Hy. }
      pose proof (P2 y) as Ht. unfold Thresholds.theta_of at 2 in Ht. rewrite (G1o _ Hyne) in Ht. fold (theta_of a y) in Ht.
      rewrite Et in Ht. simpl in Ht. destruct Ht as (t2 & E2 & Hle2). exists t2. split; [exact E2|lia].
    - (* thresholds of the dropped nodes only decrease *)
      intros y Hcy. eapply tle_trans; [apply P2|].
      destruct (Nat.eq_dec y x) as [->|Hne].
      + unfold Thresholds.theta_of. rewrite G1x. unfold Thresholds.nd. cbn [n_theta set_theta]. unfold th1.
        unfold Thresholds.own_theta, Thresholds.nd. cbn [n_flags set_theta n_theta]. unfold cached in Hcy. rewrite Hcy. simpl.
        apply HPM. exact Hcy.
      + unfold Thresholds.theta_of. rewrite (G1o y Hne). apply HPM. exact Hcy.
    - rewrite P5. unfold a1.
      destruct (cached_dec x) as [Hcx|Hcx].
      { rewrite th_own_cached; [exact HC|]. rewrite Hgx. unfold Thresholds.nd. cbn [n_flags set_theta]. exact Hcx. }
      destruct (Thresholds.th_own_cache st_eqb inp bk a x) as [Ec|(t & c' & T1 & T2 & T3 & T4)]; [rewrite Ec; exact HC|].
      rewrite T4.
      assert (Gu : gn (Thresholds.own_upd bk a x) x = nd x th1).
      { unfold Thresholds.own_upd. rewrite gn_upd_same by exact Hlta. rewrite Hgx. unfold th1, Thresholds.nd. destruct (gn m0 x); reflexivity. }
      rewrite Gu in T1, T2, T3. unfold Thresholds.nd in T1, T2, T3. cbn [n_theta n_flags n_state n_depth set_theta] in T1, T2, T3.
      apply (CacheOKg_update _ _ _ _ _ _ j T3 HC (H_depth j x Hl Hv)).
      change (n_state (gn m0 x)) with (st x). change (negb (f_cutset (n_flags (gn m0 x)))) with (negb (cutb x)).
      destruct Hcore as [HA HG]. fold th1 in T1. rewrite T1 in HA, HG.
      apply (node_safe x j t Hl Hv T2 Hcx HA HG).
  Qed.

  Lemma th_fold_FI rest : forall done (a : mdd),
    bottom_up m0 = done ++ rest -> FI a done -> FI (fold_left (th_step bk) rest a) (bottom_up m0).
  Proof.
    induction rest as [|x rest IH]; intros done a HBU HI; simpl.
    - rewrite HBU, app_nil_r. exact HI.
    - apply (IH (done ++ [x])).
      + rewrite HBU, <- app_assoc. reflexivity.
      + eapply th_step_FI; eauto.
  Qed.

  Theorem theta_fold_soundC :
    PT m0 [] -> CacheOKg (m_cache m0) ->
    let af := fold_left (th_step bk) (bottom_up m0) m0 in
    Fr af /\ CacheOKg (m_cache af).
  Proof.
    intros HT HC af.
    assert (HI : FI af (bottom_up m0)).
    { apply (th_fold_FI (bottom_up m0) [] m0); [reflexivity|].
      split; [repeat split; auto|]. split; [intros x []|]. split; [intros c eid tc []|]. split; [exact HT|].
      split; [intros x _; apply tle_refl|exact HC]. }
    destruct HI as (HF & _ & _ & _ & _ & HC'). split; [exact HF|exact HC'].
  Qed.

  (* ---------------------------------------------------------------- (A) every run from an exact node above the cut-set *)
  Hypothesis H_term : forall j x, lay j x -> live x -> isex x -> above x -> (rd + j = N)%nat -> vt x <= bk.

  Lemma Capt_cons j x d ds c r e :
    var_ok pb (rd + j) d = true -> in_domain pb (st x) d = true -> transition pb (st x) d = st c ->
    CaptD e (S j) (st c) (r + rcost (st x) d) ds -> CaptD false j (st x) r (d :: ds).
  Proof.
    intros V1 V2 Etr (ds1 & ds2 & y & s1 & w1 & E & Hf & Hd & Hs & Hdep & Hw & _).
    exists (d :: ds1), ds2, y, s1, w1. split; [simpl; rewrite E; reflexivity|]. split.
    { change (frun pb (rd + j) (st x) r (d :: ds1) = Some (s1, w1)). cbn [frun]. rewrite V1, V2. cbn [andb].
      replace (S (rd + j)) with (rd + S j)%nat by lia.
      change (transition_cost pb (st x) (transition pb (st x) d) d) with (rcost (st x) d).
      rewrite Etr. exact Hf. }
    split; [exact Hd|]. split; [exact Hs|]. split; [rewrite Hdep; simpl; lia|]. split; [exact Hw|discriminate].
  Qed.

  Lemma lpath_cases ds : forall j x r s' r' T, lay j x -> live x -> isex x -> above x ->
    Start j (st x) r -> r <= vt x ->
    frun pb (rd + j) (st x) r ds = Some (s', r') -> complete j ds -> lpath j x (st x) ds T s' ->
    r' <= bk \/ CaptD false j (st x) r ds.
  Proof.
    induction ds as [|d ds IH]; intros j x r s' r' T Hl Hv Hex Hab HS Hrv Hr Hcomp Hp.
    - destruct (f_cutset (n_flags (gn m0 x))) eqn:E2.
      + right. assert (Hd : Drained x).
        { apply (H_drain j x [] T s' r r' Hl Hv E2 Hp Hcomp Hr).
          intros da db s1 v1 Ed Hr1. apply (Thresholds.isize_diff inp B HB).
          - apply (Start_guard _ _ _ (Start_ext _ _ _ _ _ _ HS Hr)).
          - apply (Start_guard _ _ _ (Start_ext _ _ _ _ _ _ HS Hr1)). }
        exists [], [], x, (st x), r. split; [reflexivity|]. split; [reflexivity|].
        split; [exact Hd|]. split; [reflexivity|]. split; [|split; [exact Hrv|discriminate]].
        rewrite (H_depth j x Hl Hv). simpl. fold rd. lia.
      + left. simpl in Hr. inversion Hr; subst.
        pose proof (H_term j x Hl Hv Hex Hab ltac:(apply (proj1 (complete_eq _ _)) in Hcomp; simpl in Hcomp; lia)). lia.
    - destruct (f_cutset (n_flags (gn m0 x))) eqn:E2.
      + right. assert (Hd : Drained x).
        { apply (H_drain j x (d :: ds) T s' r r' Hl Hv E2 Hp Hcomp Hr).
          intros da db s1 v1 Ed Hr1. apply (Thresholds.isize_diff inp B HB).
          - apply (Start_guard _ _ _ (Start_ext _ _ _ _ _ _ HS Hr)).
          - apply (Start_guard _ _ _ (Start_ext _ _ _ _ _ _ HS Hr1)). }
        exists [], (d :: ds), x, (st x), r. split; [reflexivity|]. split; [reflexivity|].
        split; [exact Hd|]. split; [reflexivity|]. split; [|split; [exact Hrv|discriminate]].
        rewrite (H_depth j x Hl Hv). simpl. fold rd. lia.
      + destruct (Thresholds.lpath_cons_inv _ _ _ _ _ _ _ _ _ _ Hp) as (c & eid & A4 & A5 & A6 & A7 & Hp').
        destruct (Thresholds.lpath_start _ _ _ _ _ _ _ _ _ Hp') as (C1 & C2 & C3).
        assert (Hnc : ~ cuts x) by (unfold Thresholds.cuts; rewrite E2; discriminate).
        destruct (H_kid j x c eid Hl Hv Hex Hab Hnc C1 C2 A4 A5) as [Hexc Habc].
        assert (Etr : transition pb (st x) d = st c) by exact (proj2 C3 Hexc).
        change (lpath (S j) c (transition pb (st x) d) ds T s') in Hp'.
        destruct (Thresholds.frun_cons_inv inp _ _ _ _ _ _ _ Hr) as (V1 & V2 & Hr').
        fold pb in V1, V2, Hr'.
        replace (S (rd + j)) with (rd + S j)%nat in Hr' by lia.
        pose proof (Start_step j (st x) r _ HS V1 V2) as HSc.
        assert (Hcc : complete (S j) ds).
        { apply (proj2 (complete_eq _ _)). apply (proj1 (complete_eq _ _)) in Hcomp. simpl in Hcomp. lia. }
        rewrite Etr in Hr', HSc, Hp'.
        (* the arrival value at the child stays below its value *)
        assert (Hvc : r + rcost (st x) d <= vt c).
        { assert (Hp1 : lpath j x (st x) [d] c (st c)).
          { eapply (Thresholds.lp_cons inp cov m0 j x (st x) d [] c eid c (st c)); eauto.
            - split; [apply cov_refl|reflexivity].
            - fold pb. rewrite Etr. apply Thresholds.lp_nil; [exact C1|exact C2|split; [apply cov_refl|reflexivity]]. }
          assert (Hr1 : frun pb (rd + j) (st x) (vt x) [d] = Some (st c, vt x + rcost (st x) d)).
          { cbn [frun]. rewrite V1, V2. cbn [andb].
            change (transition_cost pb (st x) (transition pb (st x) d) d) with (rcost (st x) d). rewrite Etr. reflexivity. }
          pose proof (H_vtop j x [d] c (st c) _ Hl Hv Hex Hp1 Hr1). lia. }
        destruct (IH (S j) c (r + rcost (st x) d) s' r' T C1 C2 Hexc Habc HSc Hvc Hr' Hcc Hp') as [H1|H1]; [left; exact H1|right].
        apply (Capt_cons j x d ds c r false V1 V2 Etr H1).
  Qed.

  Lemma run_cases j x r ds s' r' : lay j x -> live x -> isex x -> above x -> ~ cached x ->
    Start j (st x) r -> r <= vt x ->
    frun pb (rd + j) (st x) r ds = Some (s', r') -> complete j ds ->
    r' <= bk \/ CaptD false j (st x) r ds \/ LostAt (S j) r'.
  Proof.
    intros Hl Hv Hex Hab Hnc HS Hrv Hr Hcomp.
    assert (Ha : Adm x (st x)) by (split; [apply cov_refl|reflexivity]).
    destruct (path_dich ds j x (st x) r s' r' Hl Hv Ha Hr Hcomp) as [[T HT]|HF].
    - destruct (lpath_cases ds j x r s' r' T Hl Hv Hex Hab HS Hrv Hr Hcomp HT) as [H1|H1]; [left; exact H1|right; left; exact H1].
    - destruct HF as (ds1 & ds2 & y & s1 & E & Hp & Hlt & Hnb). subst ds.
      destruct ds1 as [|d ds1].
      + destruct (Thresholds.lpath_nil_inv _ _ _ _ _ _ _ _ Hp) as [-> _].
        destruct Hnb as [Hnb|Hcy]; [|contradiction]. left.
        pose proof (cost_le_rub j x (st x) r ds2 s' r' Hl (proj1 Ha) HS Hr Hcomp) as Hcr.
        pose proof (Start_guard _ _ _ (Start_ext _ _ _ _ _ _ HS Hr)) as HgV.
        assert (HV : r' <= sat_add (rb x) (vt x)).
        { apply sat_add_ge; [unfold in_isize, IMIN, IMAX in *; lia|lia]. }
        unfold Thresholds.branched in Hnb. fold lb in Hnb. lia.
      + destruct (cut_vtop_fall j x r (d :: ds1) ds2 y s1 s' r' Hl Hv Hex HS Hr Hcomp Hp Hlt Hnb 0 ltac:(lia)) as [H1|H1].
        * left. lia.
        * right; right. eapply LostAt_mono; [| |exact H1]; [simpl; lia|lia].
  Qed.

  (* ---------------------------------------------------------------- (B) the three components of the upper bound of a cut-set node *)
  Lemma ub_cases j x ds s' r' : lay j x -> live x -> cuts x -> ~ cached x ->
    frun pb (rd + j) (st x) (vt x) ds = Some (s', r') -> complete j ds ->
    r' <= lb \/ LostAt (S j) r' \/
    (r' <= sat_add (vt x) (rb x) /\ r' <= sat_add (vt x) (vb x) /\
     exists T, lay (j + length ds) T /\ live T /\ r' <= vt T).
  Proof.
    intros Hl Hv Hc Hnc Hr Hcomp.
    pose proof (H_cut_ex j x Hl Hc) as Hex.
    pose proof (H_real j x Hl Hv Hex) as HS.
    assert (Ha : Adm x (st x)) by (split; [apply cov_refl|reflexivity]).
    pose proof (Start_guard _ _ _ (Start_ext _ _ _ _ _ _ HS Hr)) as HgV.
    pose proof (Start_guard _ _ _ HS) as Hg0.
    destruct (path_dich ds j x (st x) (vt x) s' r' Hl Hv Ha Hr Hcomp) as [[T HT]|HF].
    - right; right.
      pose proof (cost_le_rub j x (st x) (vt x) ds s' r' Hl (proj1 Ha) HS Hr Hcomp) as Hcr.
      assert (Hlb : r' - vt x <= vb x).
      { apply (H_locb j x ds T s' (vt x) r' Hl Hv Hc HT Hcomp Hr).
        intros da db s1 v1 Ed Hr1. apply (Thresholds.isize_diff inp B HB).
        - exact HgV.
        - apply (Start_guard _ _ _ (Start_ext _ _ _ _ _ _ HS Hr1)). }
      split; [apply sat_add_ge; [unfold in_isize, IMIN, IMAX in *; lia|lia]|].
      split; [apply sat_add_ge; [unfold in_isize, IMIN, IMAX in *; lia|lia]|].
      destruct (Thresholds.lpath_end _ _ _ _ _ _ _ _ _ HT) as (T1 & T2 & _ & _).
      exists T. split; [exact T1|]. split; [exact T2|]. apply (H_vtop j x ds T s' r' Hl Hv Hex HT Hr).
    - destruct HF as (ds1 & ds2 & y & s1 & E & Hp & Hlt & Hnb). subst ds.
      destruct ds1 as [|d ds1].
      + destruct (Thresholds.lpath_nil_inv _ _ _ _ _ _ _ _ Hp) as [-> _].
        destruct Hnb as [Hnb|Hcy]; [|contradiction]. left.
        pose proof (cost_le_rub j x (st x) (vt x) ds2 s' r' Hl (proj1 Ha) HS Hr Hcomp) as Hcr.
        assert (HV : r' <= sat_add (rb x) (vt x)).
        { apply sat_add_ge; [unfold in_isize, IMIN, IMAX in *; lia|lia]. }
        unfold Thresholds.branched in Hnb. fold lb in Hnb. lia.
      + destruct Hnb as [Hnb|Hcy].
        * left.
          (* the run leaves the diagram at a node pruned by its rough upper bound *)
          rewrite frun_app in Hr.
          destruct (frun pb (rd + j) (st x) (vt x) (d :: ds1)) as [[s1' v1]|] eqn:E1; [|discriminate].
          destruct (Thresholds.lpath_end _ _ _ _ _ _ _ _ _ Hp) as (L1 & L2 & L3 & L4).
          assert (s1' = s1) by (rewrite L4; apply (frun_state pb _ _ _ _ _ _ E1)). subst s1'.
          pose proof (H_vtop j x (d :: ds1) y s1 v1 Hl Hv Hex Hp E1) as Hv1.
          pose proof (Start_ext _ _ _ _ _ _ HS E1) as HS1.
          replace (rd + j + length (d :: ds1))%nat with (rd + (j + length (d :: ds1)))%nat in Hr by lia.
          assert (Hc2 : complete (j + length (d :: ds1)) ds2).
          { apply (proj2 (complete_eq _ _)). apply (proj1 (complete_eq _ _)) in Hcomp. rewrite app_length in Hcomp. lia. }
          pose proof (cost_le_rub _ y s1 v1 ds2 s' r' L1 (proj1 L3) HS1 Hr Hc2) as Hcr.
          assert (HV : r' <= sat_add (rb y) (vt y)).
          { apply sat_add_ge; [unfold in_isize, IMIN, IMAX in *; lia|lia]. }
          unfold Thresholds.branched in Hnb. fold lb in Hnb. lia.
        * right; left.
          destruct (cut_vtop_fall j x (vt x) (d :: ds1) ds2 y s1 s' r' Hl Hv Hex HS Hr Hcomp Hp Hlt (or_intror Hcy) 0 ltac:(lia)) as [H1|H1].
          -- (* r' <= bk is not what we want here: redo the cached case directly *)
             rewrite frun_app in Hr.
             destruct (frun pb (rd + j) (st x) (vt x) (d :: ds1)) as [[s1' v1]|] eqn:E1; [|discriminate].
             destruct (Thresholds.lpath_end _ _ _ _ _ _ _ _ _ Hp) as (L1 & L2 & L3 & L4).
             assert (s1' = s1) by (rewrite L4; apply (frun_state pb _ _ _ _ _ _ E1)). subst s1'.
             pose proof (H_vtop j x (d :: ds1) y s1 v1 Hl Hv Hex Hp E1) as Hv1.
             replace (rd + j + length (d :: ds1))%nat with (rd + (j + length (d :: ds1)))%nat in Hr by lia.
             assert (Hc2 : complete (j + length (d :: ds1)) ds2).
             { apply (proj2 (complete_eq _ _)). apply (proj1 (complete_eq _ _)) in Hcomp. rewrite app_length in Hcomp. lia. }
             destruct (H_cached _ y L1 L2 Hcy) as (tc & _ & Htc & Hold).
             eapply LostAt_mono; [| |apply (cached_lost (j + length (d :: ds1)) y s1 v1 ds2 s' r' tc L1 L2 Hcy Hold (proj1 L3) Hr Hc2 r')];
               [simpl; lia|lia|lia].
          -- eapply LostAt_mono; [| |exact H1]; [simpl; lia|lia].
  Qed.
End StaticC.

Local Open Scope nat_scope.


(* ================================================================== 8. _finalize with the cache on: what _compute_thresholds leaves alone *)
Section TechC.
  Context {St : Type}.
  Variable st_eqb : St -> St -> bool.
  Variable inp : @cinput St.
  Notation mdd := (@mdd St).
  Notation node := (@node St).
  Notation gn := (get_node inp).
  Hypothesis Hclean : ci_flavour inp = CleanLEL \/ ci_flavour inp = CleanFC.

  Section Proj.
    Context {X : Type} (pr : mdd -> X).
    Hypothesis pr_theta : forall (a : mdd) k (t : node -> option Z), pr (upd_node a k (fun n => set_theta n (t n))) = pr a.
    Hypothesis pr_log : forall (a : mdd) e, pr (add_log a e) = pr a.
    Hypothesis pr_cache : forall (a : mdd) c, pr (with_cache a c) = pr a.
    Hypothesis pr_crash : forall (a : mdd), pr (set_crash a) = pr a.

    Lemma proj_cache_updateC (m : mdd) s d v e : pr (cache_update st_eqb inp m s d v e) = pr m.
    Proof.
      unfold cache_update. destruct (ci_use_cache inp); [|apply pr_log].
      destruct (update_threshold _ _ _ _ _ _); [rewrite pr_cache|rewrite pr_crash]; apply pr_log.
    Qed.

    Lemma proj_th_step bk (a : mdd) id : pr (Thresholds.th_step st_eqb inp bk a id) = pr a.
    Proof.
      unfold Thresholds.th_step. destruct (f_deleted _); [reflexivity|].
      assert (H1 : pr (Thresholds.th_own st_eqb inp bk a id) = pr a).
      { unfold Thresholds.th_own. cbv zeta. destruct (negb _); [|reflexivity].
        match goal with |- pr (maybe_update_cache st_eqb inp ?mm id) = _ => set (m1 := mm) end.
        assert (E1 : pr m1 = pr a).
        { unfold m1. repeat match goal with |- context [if ?c then _ else _] => destruct c end; try reflexivity; apply pr_theta. }
        unfold maybe_update_cache. destruct (n_theta (gn m1 id)); [|exact E1]. destruct (f_above (n_flags (gn m1 id))); [|exact E1].
        rewrite proj_cache_updateC. exact E1. }
      unfold Thresholds.th_prop. destruct (n_theta (gn (Thresholds.th_own st_eqb inp bk a id) id)); [|exact H1].
      rewrite (fold_left_proj pr); [exact H1|]. intros b eid. unfold Thresholds.prop_step. cbv zeta. apply pr_theta.
    Qed.

    Lemma proj_compute_thresholdsC (m : mdd) : pr (compute_thresholds st_eqb inp m) = pr m.
    Proof.
      rewrite Thresholds.compute_thresholds_unfold. destruct (_ || _); [|reflexivity].
      destruct (m_best_exact m) as [be|].
      - cbv zeta. rewrite (fold_left_proj pr) by (intros; apply proj_th_step).
        unfold Thresholds.th_preset. apply (fold_left_proj pr). intros a id.
        match goal with |- context [if ?c then _ else _] => destruct c end; [apply pr_theta|reflexivity].
      - apply (fold_left_proj pr). intros; apply proj_th_step.
    Qed.
  End Proj.

  Lemma hdr_ctC (m : mdd) : MddSim.hdr (compute_thresholds st_eqb inp m) = MddSim.hdr m.
  Proof. apply proj_compute_thresholdsC; intros; reflexivity. Qed.

  Lemma node_ctC {Y} (g : node -> Y) (m : mdd) x :
    (forall n t, g (set_theta n t) = g n) ->
    g (gn (compute_thresholds st_eqb inp m) x) = g (gn m x).
  Proof.
    intros Hg. apply (proj_compute_thresholdsC (fun a : mdd => g (gn a x))); try (intros; reflexivity).
    intros a k t. apply (get_node_upd_node_proj inp g). intros n. apply Hg.
  Qed.

  Lemma finalize_hdrC tb tb2 (ml : mdd) :
    let m := finalize st_eqb inp tb tb2 ml in
    let m1 := finalize_layers inp ml in
    m_is_exact m = (match m_lel ml with None => true | Some _ => false end) /\
    (m_has_ebp m = true -> ci_type inp = Relaxed) /\
    m_best m = pick tb (argmax_candidates inp m1 (m_next ml)) /\
    m_best_exact m =
      (if m_has_ebp m then m_best m
       else pick tb2 (argmax_candidates inp m1 (filter (fun id => fl_is_exact (n_flags (gn m1 id))) (m_next ml)))).
  Proof.
    cbv zeta. unfold finalize.
    destruct (MddSim.finalize_layers_fields inp Hclean ml) as (F1 & F2 & F3 & F4 & F5).
    set (m1 := finalize_layers inp ml) in *.
    set (m2 := find_best_node inp tb tb2 m1).
    set (m3 := finalize_exact inp m2).
    assert (Hh : MddSim.hdr (compute_thresholds st_eqb inp (compute_local_bounds inp (finalize_cutset inp m3))) = MddSim.hdr m3).
    { rewrite hdr_ctC, MddSim.hdr_compute_local_bounds, (MddSim.hdr_finalize_cutset inp Hclean). reflexivity. }
    apply MddSim.hdr_eq in Hh. destruct Hh as (H1 & H2 & H3 & H4).
    rewrite H1, H2, H3, H4. clear H1 H2 H3 H4.
    set (ebp := is_relaxed_ct (ci_type inp) && has_exact_best_path inp (S (length (m_nodes m2))) m2 (m_best m2)).
    assert (A1 : m_is_exact m3 = match m_lel m2 with None => true | Some _ => false end).
    { unfold m3, finalize_exact. cbv zeta. cbn [m_is_exact]. rewrite (not_pooled inp Hclean). reflexivity. }
    assert (A2 : m_has_ebp m3 = ebp) by reflexivity.
    assert (A3 : m_best m3 = m_best m2) by reflexivity.
    assert (A4 : m_best_exact m3 = if ebp then m_best m2 else m_best_exact m2) by reflexivity.
    assert (B1 : m_best m2 = pick tb (argmax_candidates inp m1 (m_next m1))) by reflexivity.
    assert (B2 : m_best_exact m2 = pick tb2 (argmax_candidates inp m1
                   (filter (fun id => fl_is_exact (n_flags (gn m1 id))) (m_next m1)))) by reflexivity.
    rewrite A1, A2, A3, A4, B1, B2, F2. change (m_lel m2) with (m_lel m1). rewrite F3.
    split; [reflexivity|]. split; [|split; reflexivity].
    intros Hb. unfold ebp in Hb. apply andb_true_iff in Hb. destruct Hb as [Hb _].
    destruct (ci_type inp); simpl in Hb; try discriminate. reflexivity.
  Qed.

  Hypothesis Hnocut : ci_cutoff inp = 0.
  Hypothesis Hwidth : 1 <= ci_width inp.
  Hypothesis Hrd : sp_depth (ci_root inp) <= nb_vars (ci_problem inp).

  Lemma best_geC tb tb2 (ml : mdd) u :
    Sinv inp ml -> Xs inp ml -> In u (m_next ml) ->
    exists b, m_best (finalize st_eqb inp tb tb2 ml) = Some b /\ In b (m_next ml) /\
      (n_vtop (gn ml u) <= n_vtop (gn (finalize st_eqb inp tb tb2 ml) b))%Z.
  Proof.
    intros HS HX Hu. destruct (finalize_hdrC tb tb2 ml) as (_ & _ & Hb & _). cbv zeta in Hb.
    destruct (MddSim.pick_argmax_some inp Hnocut Hwidth Hrd tb (finalize_layers inp ml) (m_next ml)) as [b Eb].
    { intros E. rewrite E in Hu. destruct Hu. }
    destruct (MddSim.pick_argmax_spec inp Hnocut Hwidth Hrd tb _ _ _ Eb) as [Hin Hmax].
    exists b. split; [rewrite Hb; exact Eb|]. split; [exact Hin|].
    specialize (Hmax u Hu). rewrite !(MddSim.gn_finalize_layers inp Hclean) in Hmax.
    destruct (MddSim.finalize_core st_eqb inp Hclean tb tb2 ml b HS HX) as (_ & c2 & _). rewrite <- c2. exact Hmax.
  Qed.

  Lemma best_exact_geC tb tb2 (ml : mdd) u :
    Sinv inp ml -> Xs inp ml -> In u (m_next ml) -> is_ex inp ml u = true ->
    m_has_ebp (finalize st_eqb inp tb tb2 ml) = false ->
    exists b, m_best_exact (finalize st_eqb inp tb tb2 ml) = Some b /\ In b (m_next ml) /\
      (n_vtop (gn ml u) <= n_vtop (gn (finalize st_eqb inp tb tb2 ml) b))%Z.
  Proof.
    intros HS HX Hu Hex Hebp. destruct (finalize_hdrC tb tb2 ml) as (_ & _ & _ & Hb). cbv zeta in Hb.
    rewrite Hebp in Hb.
    set (m1 := finalize_layers inp ml) in *.
    set (ids := filter (fun id => fl_is_exact (n_flags (gn m1 id))) (m_next ml)) in *.
    assert (Huf : In u ids).
    { apply filter_In. split; [exact Hu|]. unfold m1. rewrite (MddSim.gn_finalize_layers inp Hclean). exact Hex. }
    destruct (MddSim.pick_argmax_some inp Hnocut Hwidth Hrd tb2 m1 ids) as [b Eb].
    { intros E. rewrite E in Huf. destruct Huf. }
    destruct (MddSim.pick_argmax_spec inp Hnocut Hwidth Hrd tb2 _ _ _ Eb) as [Hin Hmax].
    exists b. split; [rewrite Hb; exact Eb|]. split; [apply filter_In in Hin; apply Hin|].
    specialize (Hmax u Huf). unfold m1 in Hmax. rewrite !(MddSim.gn_finalize_layers inp Hclean) in Hmax.
    destruct (MddSim.finalize_core st_eqb inp Hclean tb tb2 ml b HS HX) as (_ & c2 & _). rewrite <- c2. exact Hmax.
  Qed.

  Variable cov : St -> St -> Prop.

  Lemma locb_from_pathC tb tb2 (ml : mdd) k i c sc vc ds2 u s' o :
    ci_type inp = Relaxed -> Sinv inp ml -> Xs inp ml -> m_lel ml = Some k ->
    length (m_layers ml) = i + length ds2 -> In u (m_next ml) ->
    m_layer_end ml <= u < length (m_nodes ml) ->
    MddSim.dpath inp cov ml i c sc ds2 u s' -> frun (ci_problem inp) (sp_depth (ci_root inp) + i) sc vc ds2 = Some (s', o) ->
    (forall da db s1 v1, ds2 = da ++ db -> frun (ci_problem inp) (sp_depth (ci_root inp) + i) sc vc da = Some (s1, v1) -> in_isize (o - v1)) ->
    f_marked (n_flags (gn (finalize st_eqb inp tb tb2 ml) c)) = true /\
    (o - vc <= n_vbot (gn (finalize st_eqb inp tb tb2 ml) c))%Z.
  Proof.
    intros Ht HS HX Hlel Hlen Hu Hur P2 Hrun Hiso.
    destruct (MddSim.pipe3 inp Hclean tb tb2 ml HS HX) as (G1 & G2 & G3 & G4 & G5 & S3 & X3 & Pl3). cbv zeta in G1, G2, G3, G4, G5, S3, X3, Pl3.
    set (m := finalize st_eqb inp tb tb2 ml).
    set (m3 := finalize_exact inp (find_best_node inp tb tb2 (finalize_layers inp ml))) in *.
    set (m4 := finalize_cutset inp m3) in *.
    set (m5 := compute_local_bounds inp m4).
    assert (Em : m = compute_thresholds st_eqb inp m5) by reflexivity.
    destruct (finalize_cutset_spec inp Hclean m3 S3 X3) as [B34 _]. fold m4 in B34.
    destruct B34 as (P34 & _).
    assert (Pl4 : peq inp ml m4) by (eapply peq_trans; eauto).
    destruct (MddSim.finalize_layers_fields inp Hclean ml) as (_ & _ & _ & _ & F5).
    assert (Hly4 : m_layers m4 = m_layers ml ++ [seq (m_layer_end ml) (length (m_nodes ml) - m_layer_end ml)]).
    { unfold m4. rewrite finalize_cutset_layers, G3, F5. destruct (m_next ml); [destruct Hu|reflexivity]. }
    assert (P2' : MddSim.dpath inp cov m4 i c sc ds2 u s').
    { eapply (MddSim.dpath_peq inp Hnocut Hwidth Hrd); [exact Pl4| |exact P2]. intros j x. rewrite Hly4. apply MddSim.nth_layers_app. }
    assert (Hgo4 : MddSim.lb_go inp m4 = true).
    { unfold MddSim.lb_go. rewrite Ht. unfold m4. rewrite (MddSim.lel_finalize_cutset inp Hclean m3 k) by (rewrite G4; exact Hlel).
      fold m4. rewrite Hly4, app_length. cbn [opt_default length is_relaxed_ct].
      pose proof (X_lel_lt _ _ _ HX Ht k Hlel). rewrite andb_true_r. apply Nat.ltb_lt. lia. }
    destruct (MddSim.local_bounds_path inp Hclean Hnocut Hwidth Hrd cov m4 i c sc ds2 u s' (sp_depth (ci_root inp) + i) vc o Hgo4 P2' Hrun) as [M1 M2].
    { rewrite Hly4, app_length. simpl. lia. }
    { rewrite Hly4, last_last. apply in_seq. lia. }
    { exact Hiso. }
    fold m5 in M1, M2. split.
    - rewrite Em. rewrite (node_ctC (fun n => f_marked (n_flags n))) by reflexivity. exact M1.
    - rewrite Em. rewrite (node_ctC (@n_vbot St)) by reflexivity. exact M2.
  Qed.

  (* ---------------------------------------------------------------- MddSim.Ninv through the loop, with the cache *)
  Hypothesis Hnodom : ci_domrule inp = None.
  Notation NinvM := (MddSim.Ninv inp).

  Lemma NinvM_fwc l : forall (m : mdd), NinvM m -> NinvM (fst (filter_with_cache st_eqb inp m l)).
  Proof.
    induction l as [|id l IH]; intros m H; cbn [filter_with_cache]; [exact H|]. cbv zeta.
    assert (H1 : NinvM (fst (cache_get st_eqb inp m (n_state (gn m id)) (n_depth (gn m id))))).
    { eapply MddSim.Ninv_same; [|exact H]. apply (cache_get_facts st_eqb inp Hnocut Hwidth Hrd m). }
    destruct (cache_get st_eqb inp m (n_state (gn m id)) (n_depth (gn m id))) as [m1 th]. cbn [fst] in H1.
    destruct th as [t|].
    - destruct (_ >? _)%Z.
      + specialize (IH m1 H1). destruct (filter_with_cache st_eqb inp m1 l) as [m2 r]. exact IH.
      + apply IH. apply MddSim.Ninv_upd; [|exact H1]. intros n (P1 & P2 & P3). split; [|split]; nsimpl; auto.
    - specialize (IH m1 H1). destruct (filter_with_cache st_eqb inp m1 l) as [m2 r]. exact IH.
  Qed.

  Lemma NinvM_move (m : mdd) : NinvM m -> NinvM (fst (move_to_next_layer_clean st_eqb inp m)).
  Proof.
    intros H. rewrite move_clean_unfold. destruct (m_next m) as [|c0 cs]; [exact H|].
    set (curr := c0 :: cs).
    assert (Hb : NinvM (fst (prefilter st_eqb inp (with_next m []) curr))).
    { unfold prefilter. destruct (Nat.ltb 0 _); [|exact H]. apply NinvM_fwc. exact H. }
    destruct (prefilter st_eqb inp (with_next m []) curr) as [mb lb0]. cbn [fst] in Hb.
    assert (Hcc : NinvM (fst (filter_with_dominance inp mb lb0))).
    { unfold filter_with_dominance. eapply MddSim.Ninv_same; [apply (MddSim.dom_retain_nodes inp Hnodom)|exact Hb]. }
    destruct (filter_with_dominance inp mb lb0) as [mc lc]. cbn [fst] in Hcc.
    pose proof (MddSim.Ninv_squash st_eqb inp Hclean Hnocut Hwidth Hrd mc lc Hcc) as Hd.
    destruct (squash_if_needed st_eqb inp mc lc) as [md ld]. cbn [fst] in *. exact Hd.
  Qed.

  Lemma layer_loop_NinvM : forall fuel (m : mdd), NinvM m -> NinvM (fst (layer_loop st_eqb inp fuel m)).
  Proof.
    induction fuel as [|fuel IH]; intros m H; [exact H|].
    cbn [layer_loop]. cbv zeta.
    destruct (next_variable _ _ _) as [var|]; [|exact H].
    destruct (_ && _); [exact H|].
    rewrite (not_pooled inp Hclean).
    match goal with |- context [move_to_next_layer_clean st_eqb inp ?mm] =>
      pose proof (NinvM_move mm) as Hmv; destruct (move_to_next_layer_clean st_eqb inp mm) as [m3 ol] end.
    cbn [fst] in Hmv. specialize (Hmv H).
    destruct ol as [l|]; [|exact Hmv].
    apply IH. eapply MddSim.Ninv_same; [reflexivity|].
    apply MddSim.Ninv_fold; [intros; apply (MddSim.Ninv_expand_node st_eqb inp Hnocut Hwidth Hrd); assumption|exact Hmv].
  Qed.
End TechC.

(* ================================================================== 9. the diagram handed to _compute_thresholds, cache on *)
Section FinalC.
  Context {St : Type}.
  Variable st_eqb : St -> St -> bool.
  Hypothesis st_eqb_spec : forall a b, st_eqb a b = true <-> a = b.
  Variable inp : @cinput St.
  Let pb := ci_problem inp.
  Let rlx := ci_relax inp.
  Let root := ci_root inp.
  Let lb := ci_best_lb inp.
  Let N := nb_vars pb.
  Let rd := sp_depth root.
  Let rs := sp_state root.
  Let rv := sp_value root.
  Hypothesis Hclean : ci_flavour inp = CleanLEL \/ ci_flavour inp = CleanFC.
  Hypothesis Hnodom : ci_domrule inp = None.
  Hypothesis Hnocut : ci_cutoff inp = 0.
  Hypothesis Hwidth : 1 <= ci_width inp.
  Hypothesis Hrel : ci_type inp = Relaxed.
  Hypothesis Hrd : rd <= N.
  Hypothesis nv_static : forall k l1 l2, next_variable pb k l1 = next_variable pb k l2.
  Hypothesis nv_some : forall k l, k < N -> exists x, next_variable pb k l = Some x.
  Hypothesis nv_none : forall k l, N <= k -> next_variable pb k l = None.
  Variable cov : St -> St -> Prop.
  Hypothesis cov_refl : forall s, cov s s.
  Hypothesis rub_adm : forall k s s' h, cov s s' -> H pb k s' = Some h -> (h <= fast_upper_bound rlx s)%Z.
  Variable B : Z.
  Hypothesis HB : (2 * B <= IMAX)%Z.
  Hypothesis Hguard : forall ds s' v', frun pb rd rs rv ds = Some (s', v') -> (- B <= v' <= B)%Z.
  Variable c0 : @cache St.

  Notation mdd := (@mdd St).
  Notation node := (@node St).
  Notation gn := (get_node inp).
  Notation dpath := (MddSim.dpath inp cov).
  Notation del := (Thresholds.del inp).
  Notation LF := (Thresholds.LF inp).
  Notation FSc := (FSc st_eqb inp cov c0).
  Notation fcache := (fcache inp).

  Variables (tb tb2 : nat) (ml : mdd).
  Hypothesis HFS : FSc ml (fun j => nth j (LF ml) []).
  Hypothesis HS : Sinv inp ml.
  Hypothesis HX : Xs inp ml.
  Hypothesis HN : MddSim.Ninv inp ml.

  Let m3' := finalize_exact inp (find_best_node inp tb tb2 (finalize_layers inp ml)).
  Let m4 := finalize_cutset inp m3'.
  Let m5 := compute_local_bounds inp m4.
  Let mf := finalize st_eqb inp tb tb2 ml.
  Notation m1c := (Thresholds.m1c inp tb tb2 ml).
  Notation ke := (Thresholds.ke inp ml).
  Notation lyf j := (nth j (LF ml) []).

  Local Notation gn3 := (Thresholds.gn3 inp Hclean tb tb2 ml HS HX).
  Local Notation m5_fields := (Thresholds.m5_fields inp Hclean tb tb2 ml HS HX).
  Local Notation m5_flag := (Thresholds.m5_flag inp Hclean tb tb2 ml HS HX).
  Local Notation m3_facts := (Thresholds.m3_facts inp Hclean tb tb2 ml HS HX).
  Local Notation m4_eq := (Thresholds.m4_eq inp Hclean Hrel tb tb2 ml HS HX).
  Local Notation gn1c := (Thresholds.gn1c inp Hclean tb tb2 ml HS HX).
  Local Notation m1c_layers := (Thresholds.m1c_layers inp Hclean tb tb2 ml HS HX).
  Local Notation m1c_len := (Thresholds.m1c_len inp Hclean tb tb2 ml HS HX).
  Local Notation m1c_edge := (Thresholds.m1c_edge inp Hclean tb tb2 ml HS HX).
  Local Notation m1c_cutset := (Thresholds.m1c_cutset inp Hclean tb tb2 ml HS HX).

  Lemma mf_eqC : mf = compute_thresholds st_eqb inp m5.
  Proof. reflexivity. Qed.

  Lemma lay_uniqC j j' x : In x (lyf j) -> In x (lyf j') -> j = j'.
  Proof.
    intros H1 H2. destruct (Nat.lt_trichotomy j j') as [Hlt|[E|Hgt]]; [|exact E|].
    - pose proof (Fc_ord1 _ _ _ _ _ _ HFS j j' x x Hlt H1 H2). lia.
    - pose proof (Fc_ord1 _ _ _ _ _ _ HFS j' j x x Hgt H2 H1). lia.
  Qed.

  Lemma no_flagsC x : f_cutset (n_flags (gn ml x)) = false /\ f_above (n_flags (gn ml x)) = false.
  Proof.
    split.
    - destruct (Nat.lt_ge_cases x (length (m_nodes ml))) as [Hlt|Hge].
      + unfold MddSim.Ninv in HN. rewrite Forall_forall in HN. destruct (HN (gn ml x)) as (P1 & _); [apply nth_In; exact Hlt|exact P1].
      + rewrite (gn_out_of_range inp ml x Hge). reflexivity.
    - apply (NinvC_gn inp ml x (Fc_nc _ _ _ _ _ _ HFS)).
  Qed.

  Lemma cut_flagsC j x : In x (lyf j) ->
    (f_cutset (n_flags (gn m4 x)) = true -> is_ex inp ml x = true /\ In x (m_cutset m4)) /\
    (f_above (n_flags (gn m4 x)) = true -> is_ex inp ml x = true) /\
    (forall c eid, is_ex inp ml x = true -> f_above (n_flags (gn m4 x)) = true -> f_cutset (n_flags (gn m4 x)) = false ->
       In c (lyf (S j)) -> In eid (n_inb (gn ml c)) -> e_from (get_edge ml eid) = x ->
       is_ex inp ml c = true /\ f_above (n_flags (gn m4 c)) = true) /\
    (f_above (n_flags (gn m4 x)) = true -> rd + j = N -> ci_flavour inp = CleanLEL -> m_lel ml = None).
  Proof.
    intros Hx. pose proof (Fc_range _ _ _ _ _ _ HFS j x Hx) as Hxlt.
    destruct (no_flagsC x) as (Nc & Na).
    unfold m4, m3'. rewrite m4_eq. destruct Hclean as [Hf|Hf]; rewrite Hf.
    - (* last exact layer *)
      destruct (Thresholds.lel_cutset_flags inp Hnocut Hwidth Hrd m1c ke x) as (L1 & L2 & L3 & L4 & L5). cbv zeta in L1, L2, L3, L4, L5.
      rewrite m1c_layers in L1, L2, L3, L5. rewrite gn1c in L1, L2. rewrite m1c_len in L3, L5.
      assert (Hex_le : forall j' y, j' <= ke -> In y (lyf j') -> is_ex inp ml y = true).
      { intros j' y Hj' Hy. unfold Thresholds.ke in Hj'. destruct (m_lel ml) as [k|] eqn:El.
        - apply (Fc_lel _ _ _ _ _ _ HFS k El j' y Hj' Hy).
        - apply (Thresholds.all_exact_no_lel inp ml HX); [exact El|apply (Fc_range _ _ _ _ _ _ HFS j' y Hy)]. }
      split; [|split; [|split]].
      + intros Hc. destruct (L1 Hc) as [H|H]; [congruence|]. split; [apply (Hex_le ke x (Nat.le_refl _) H)|].
        destruct (lel_cutset_spec inp m1c ke) as [_ Ecs]. rewrite Ecs, m1c_cutset, m1c_layers. simpl.
        assert (Hk : ke < length (LF ml)) by (eapply Thresholds.nth_in_len; eauto).
        rewrite (nth_error_nth' (LF ml) [] Hk). exact H.
      + intros Ha. destruct (L2 Ha) as [H|(j' & Hj' & H)]; [congruence|]. apply (Hex_le j' x Hj' H).
      + intros c eid Hex Ha Hnc Hc Hin Hfrom.
        destruct (L2 Ha) as [H|(j' & Hj' & H)]; [congruence|].
        pose proof (lay_uniqC j j' x Hx H). subst j'.
        assert (Hjk : j <> ke).
        { intros ->. rewrite (L5 Hx Hxlt) in Hnc. discriminate. }
        pose proof (Fc_range _ _ _ _ _ _ HFS (S j) c Hc) as Hclt.
        split; [apply (Hex_le (S j) c ltac:(lia) Hc)|].
        destruct (Thresholds.lel_cutset_flags inp Hnocut Hwidth Hrd m1c ke c) as (_ & _ & C3 & _). cbv zeta in C3.
        rewrite m1c_layers, m1c_len in C3. apply (C3 (S j)); [lia|exact Hc|exact Hclt].
      + intros Ha HjN _. destruct (L2 Ha) as [H|(j' & Hj' & H)]; [congruence|].
        pose proof (lay_uniqC j j' x Hx H). subst j'.
        destruct (m_lel ml) as [k|] eqn:El; [exfalso|reflexivity].
        destruct (Fc_last _ _ _ _ _ _ HFS j x Hx HjN) as (_ & _ & Hlen & _).
        pose proof (X_lel_lt _ _ _ HX Hrel k El). unfold Thresholds.ke in Hj'. rewrite El in Hj'. lia.
    - (* frontier *)
      destruct (Thresholds.frontier_flags inp Hnocut Hwidth Hrd m1c) as ((FI & Q2 & Q3 & _) & Fab & Fhit).
      { intros y _ Hc. rewrite gn1c in Hc. destruct (no_flagsC y) as (E & _). congruence. }
      assert (Hexeq : forall y, is_ex inp m1c y = is_ex inp ml y) by (intros y; unfold is_ex; rewrite gn1c; reflexivity).
      split; [|split; [|split]].
      + intros Hc. destruct (Q3 x Hc) as [H|H]; [rewrite gn1c in H; congruence|]. rewrite Hexeq in H. split; [exact H|].
        destruct FI as (_ & F2 & _ & F4). apply F4; [rewrite F2, m1c_len; exact Hxlt|exact Hc].
      + intros Ha. destruct (Q2 x Ha) as [H|H]; [rewrite gn1c in H; congruence|]. rewrite Hexeq in H. exact H.
      + intros c eid Hex Ha Hnc Hc Hin Hfrom.
        pose proof (Fc_range _ _ _ _ _ _ HFS (S j) c Hc) as Hclt.
        assert (Hcbu : In c (bottom_up m1c)).
        { unfold bottom_up. rewrite m1c_layers. apply in_concat. exists (lyf (S j)). split; [|exact Hc].
          apply in_rev. rewrite rev_involutive. apply nth_In. eapply Thresholds.nth_in_len; eauto. }
        destruct (is_ex inp ml c) eqn:Exc.
        * split; [reflexivity|]. apply Fab; [exact Hcbu|rewrite m1c_len; exact Hclt|rewrite Hexeq; exact Exc].
        * exfalso. rewrite (Fhit x c eid Hcbu) in Hnc; [discriminate| | | | |].
          -- rewrite Hexeq. exact Exc.
          -- rewrite gn1c. exact Hin.
          -- rewrite m1c_edge. exact Hfrom.
          -- rewrite Hexeq. exact Hex.
          -- rewrite m1c_len. exact Hxlt.
      + intros _ _ E. discriminate.
  Qed.

  (* ---------------------------------------------------------------- any diagram with the static data of m5 *)
  Variable m0 : mdd.
  Hypothesis S_lay : m_layers m0 = LF ml.
  Hypothesis S_edg : m_edges m0 = m_edges ml.
  Hypothesis S_len : length (m_nodes m0) = length (m_nodes ml).
  Hypothesis S_sk : forall x, Thresholds.sk (gn m0 x) = Thresholds.sk (gn m5 x).
  Hypothesis S_cached_theta : forall x, f_cache (n_flags (gn ml x)) = true -> n_theta (gn m0 x) = n_theta (gn ml x).

  Local Notation lay := (Thresholds.lay m0).
  Local Notation live := (Thresholds.live inp m0).
  Local Notation isex := (Thresholds.isex inp m0).
  Local Notation above := (Thresholds.above inp m0).
  Local Notation cuts := (Thresholds.cuts inp m0).
  Local Notation st := (Thresholds.st inp m0).
  Local Notation vt := (Thresholds.vt inp m0).
  Local Notation vb := (Thresholds.vb inp m0).
  Local Notation rb := (Thresholds.rb inp m0).
  Local Notation branched := (Thresholds.branched inp m0).
  Local Notation Adm := (Thresholds.Adm inp cov m0).
  Local Notation rcost := (Thresholds.rcost inp).
  Local Notation Start := (Thresholds.Start inp).
  Local Notation complete := (Thresholds.complete inp).
  Local Notation lpath := (Thresholds.lpath inp cov m0).
  Local Notation cached := (cached inp m0).

  Local Notation m0_fields := (Thresholds.m0_fields inp Hclean tb tb2 ml HS HX m0 S_sk).
  Local Notation ge0 := (Thresholds.ge0 ml m0 S_edg).
  Local Notation lay_eq := (Thresholds.lay_eq inp ml m0 S_lay).
  Local Notation live_eq := (Thresholds.live_eq inp Hclean tb tb2 ml HS HX m0 S_sk).
  Local Notation isex_eq := (Thresholds.isex_eq inp Hclean tb tb2 ml HS HX m0 S_sk).
  Local Notation above_eq := (Thresholds.above_eq inp Hclean tb tb2 ml HS HX m0 S_sk).
  Local Notation cuts_eq := (Thresholds.cuts_eq inp Hclean tb tb2 ml HS HX m0 S_sk).
  Local Notation st_eq := (Thresholds.st_eq inp Hclean tb tb2 ml HS HX m0 S_sk).
  Local Notation vt_eq := (Thresholds.vt_eq inp Hclean tb tb2 ml HS HX m0 S_sk).
  Local Notation rb_eq := (Thresholds.rb_eq inp Hclean tb tb2 ml HS HX m0 S_sk).
  Local Notation inb_eq := (Thresholds.inb_eq inp Hclean tb tb2 ml HS HX m0 S_sk).

  Lemma cached_eqC x : cached x <-> fcache ml x = true.
  Proof.
    unfold cached, fcache. destruct (m0_fields x) as (_ & _ & _ & _ & _ & Ef & _). rewrite Ef.
    rewrite (m5_flag f_cache) by (intros; reflexivity). reflexivity.
  Qed.

  Lemma PC_range j x : lay j x -> x < length (m_nodes m0).
  Proof. intros H. apply lay_eq in H. rewrite S_len. apply (Fc_range _ _ _ _ _ _ HFS j x H). Qed.

  Lemma PC_uniq j j' x : lay j x -> lay j' x -> j = j'.
  Proof. intros H1 H2. apply lay_eq in H1. apply lay_eq in H2. eapply lay_uniqC; eauto. Qed.

  Lemma PC_ord done x rest : bottom_up m0 = done ++ x :: rest ->
    ~ In x done /\
    (forall eid, In eid (n_inb (gn m0 x)) -> ~ In (e_from (get_edge m0 eid)) (done ++ [x])) /\
    (forall j c, lay j x -> lay (S j) c -> In c done).
  Proof.
    intros H. unfold bottom_up in H. rewrite S_lay in H.
    destruct (Thresholds.bu_order (LF ml) (fun y p => exists eid, In eid (n_inb (gn ml y)) /\ p = e_from (get_edge ml eid))
                (Fc_ord1 _ _ _ _ _ _ HFS) (Fc_ord2 _ _ _ _ _ _ HFS)) with (done := done) (x := x) (rest := rest) as (B1 & B2 & B3).
    - intros j y p z Hy (eid & Hin & ->) Hz. apply (Fc_ord3 _ _ _ _ _ _ HFS j y eid z Hy Hin Hz).
    - exact H.
    - split; [exact B1|]. split.
      + intros eid Hin. rewrite inb_eq in Hin. rewrite ge0. apply B2. exists eid. auto.
      + intros j c Hx Hc. apply lay_eq in Hx. apply lay_eq in Hc. apply (B3 j c Hx Hc).
  Qed.

  Lemma PC_efrom j x eid : lay j x -> In eid (n_inb (gn m0 x)) -> e_from (get_edge m0 eid) < length (m_nodes m0).
  Proof.
    intros Hx Hin. apply lay_eq in Hx. rewrite inb_eq in Hin. rewrite ge0, S_len.
    pose proof (Fc_ord3 _ _ _ _ _ _ HFS j x eid x Hx Hin Hx). pose proof (Fc_range _ _ _ _ _ _ HFS j x Hx). lia.
  Qed.

  Lemma PC_depth j x : lay j x -> live x -> n_depth (gn m0 x) = rd + j.
  Proof.
    intros Hx Hv. apply lay_eq in Hx. apply live_eq in Hv. destruct (m0_fields x) as (_ & _ & _ & _ & E & _).
    rewrite E. apply (Fc_dep _ _ _ _ _ _ HFS j x Hx Hv).
  Qed.

  Lemma PC_SC j x s var val : lay j x -> live x -> ~ cached x -> Adm x s -> rd + j < N -> branched x ->
    next_variable pb (rd + j) [] = Some var -> In val (domain pb var s) ->
    let d := {| d_var := var; d_val := val |} in
    exists c eid, lay (S j) c /\ live c /\ Adm c (transition pb s d) /\
      In eid (n_inb (gn m0 c)) /\ e_from (get_edge m0 eid) = x /\ e_dec (get_edge m0 eid) = d /\
      (rcost s d <= e_cost (get_edge m0 eid))%Z.
  Proof.
    intros Hx Hv Hnc [Hcov Hexs] HjN Hbr Hvar Hval. cbv zeta.
    apply lay_eq in Hx. apply live_eq in Hv.
    assert (Hfc : fcache ml x = false).
    { destruct (fcache ml x) eqn:E; [exfalso; apply Hnc; apply cached_eqC; exact E|reflexivity]. }
    unfold Thresholds.branched in Hbr. rewrite rb_eq, vt_eq in Hbr. rewrite st_eq in Hcov.
    destruct (Fc_exp _ _ _ _ _ _ HFS j x Hx Hv Hfc Hbr s var val Hcov Hvar Hval) as (c & eid & Q1 & Q2 & Q3 & Q4 & Q5 & Q6 & Q7 & Q8 & Q9).
    cbv zeta in Q7, Q8, Q9.
    exists c, eid. split; [apply lay_eq; exact Q1|]. split; [apply live_eq; exact Q2|].
    split.
    - split; [rewrite st_eq; exact Q9|]. intros Hexc. apply isex_eq in Hexc.
      destruct (Fc_einv _ _ _ _ _ _ HFS c eid Q3 Q5) as (_ & _ & G3). destruct (G3 Hexc) as (Hexx & Est).
      rewrite Q6 in Hexx, Est. rewrite Q7 in Est. rewrite st_eq, Est.
      rewrite (Hexs (proj2 (isex_eq x) Hexx)), st_eq. reflexivity.
    - rewrite inb_eq, ge0. auto.
  Qed.

  Lemma PC_rub j x : lay j x -> rb x = IMAX \/ rb x = fast_upper_bound rlx (st x).
  Proof.
    intros Hx. apply lay_eq in Hx. pose proof (Fc_range _ _ _ _ _ _ HFS j x Hx) as Hlt. rewrite rb_eq, st_eq.
    unfold MddSim.Ninv in HN. rewrite Forall_forall in HN. destruct (HN (gn ml x)) as (_ & _ & P); [apply nth_In; exact Hlt|exact P].
  Qed.

  Definition OldC (d : nat) (s : St) (t : Z) : Prop := exists th, cget st_eqb c0 s d = Some th /\ th_value th = t.

  Lemma PC_cached j x : lay j x -> live x -> cached x ->
    exists tc, thc0 inp m0 x = Some tc /\ (vt x <= tc)%Z /\ OldC (rd + j) (st x) tc.
  Proof.
    intros Hx Hv Hc. apply lay_eq in Hx. apply live_eq in Hv. apply cached_eqC in Hc.
    destruct (Fc_cached _ _ _ _ _ _ HFS j x Hx Hv Hc) as (th & _ & T2 & T3 & T4).
    exists (th_value th). unfold thc0. rewrite (S_cached_theta x Hc), T4. split; [reflexivity|].
    rewrite vt_eq, st_eq. split; [exact T3|]. exists th. rewrite (Fc_dep _ _ _ _ _ _ HFS j x Hx Hv) in T2. auto.
  Qed.

  Lemma PC_cut_ex j x : lay j x -> cuts x -> isex x.
  Proof.
    intros Hx Hc. apply lay_eq in Hx. apply cuts_eq in Hc. apply isex_eq.
    destruct (cut_flagsC j x Hx) as (C1 & _). apply C1. exact Hc.
  Qed.

  Lemma PC_kid j x c eid : lay j x -> live x -> isex x -> above x -> ~ cuts x ->
    lay (S j) c -> live c -> In eid (n_inb (gn m0 c)) -> e_from (get_edge m0 eid) = x ->
    isex c /\ above c.
  Proof.
    intros Hx _ Hex Hab Hnc Hc _ Hin Hfrom.
    apply lay_eq in Hx. apply lay_eq in Hc. apply isex_eq in Hex. apply above_eq in Hab.
    rewrite inb_eq in Hin. rewrite ge0 in Hfrom.
    assert (Hnc' : f_cutset (n_flags (gn m4 x)) = false).
    { destruct (f_cutset (n_flags (gn m4 x))) eqn:E; [|reflexivity]. exfalso. apply Hnc. apply cuts_eq. exact E. }
    destruct (cut_flagsC j x Hx) as (_ & _ & C3 & _).
    destruct (C3 c eid Hex Hab Hnc' Hc Hin Hfrom) as [K1 K2].
    split; [apply isex_eq; exact K1|apply above_eq; exact K2].
  Qed.

  Lemma PC_above_ex j x : lay j x -> live x -> above x -> isex x.
  Proof.
    intros Hx _ Hab. apply lay_eq in Hx. apply above_eq in Hab. apply isex_eq.
    destruct (cut_flagsC j x Hx) as (_ & C2 & _). apply C2. exact Hab.
  Qed.

  Lemma PC_real j x : lay j x -> live x -> isex x -> Start j (st x) (vt x).
  Proof.
    intros Hx Hv Hex. apply lay_eq in Hx. apply live_eq in Hv. apply isex_eq in Hex.
    pose proof (Fc_range _ _ _ _ _ _ HFS j x Hx) as Hlt.
    pose proof (Sinv_exact_flag_clean_chain inp ml HS x Hlt Hex) as Hcc.
    destruct (MddSim.clean_chain_frun inp Hnocut Hwidth Hrd nv_static B HB Hguard ml x HS Hcc Hlt) as (ds & Hr & Hd).
    rewrite (Fc_dep _ _ _ _ _ _ HFS j x Hx Hv) in Hd.
    exists ds. rewrite st_eq, vt_eq. split; [exact Hr|]. fold root in Hd. fold rd in Hd. lia.
  Qed.

  Lemma lpath_vtopC j x s ds y s1 : lpath j x s ds y s1 ->
    forall v v1, (v <= vt x)%Z ->
      (forall ds1 s2 v2, frun pb (rd + j) s v ds1 = Some (s2, v2) -> in_isize v2) ->
      frun pb (rd + j) s v ds = Some (s1, v1) -> (v1 <= vt y)%Z.
  Proof.
    intros Hp. induction Hp as [j x s H1 H2 H3|j x s d ds c eid t s' H1 H2 H3 H4 H5 H6 H7 Hp IH]; intros v v1 Hv Hiso Hr.
    - simpl in Hr. inversion Hr; subst. exact Hv.
    - cbn [frun] in Hr.
      destruct (var_ok pb (rd + j) d && in_domain pb s d) eqn:Eg; [|discriminate].
      assert (Hiso1 : in_isize (v + transition_cost pb s (transition pb s d) d)%Z).
      { apply (Hiso [d] (transition pb s d)). cbn [frun]. rewrite Eg. reflexivity. }
      destruct (Thresholds.lpath_start _ _ _ _ _ _ _ _ _ Hp) as (C1 & _ & _).
      apply lay_eq in C1. pose proof (Fc_range _ _ _ _ _ _ HFS (S j) c C1) as Hclt.
      rewrite inb_eq in H4. rewrite ge0 in H5, H7.
      destruct (Fc_einv _ _ _ _ _ _ HFS c eid Hclt H4) as (_ & G2 & _). rewrite H5 in G2.
      apply (IH (v + transition_cost pb s (transition pb s d) d)%Z v1).
      + rewrite !vt_eq in *. eapply Z.le_trans; [|exact G2]. apply sat_add_ge; [exact Hiso1|].
        unfold Thresholds.rcost in H7. fold pb in H7. lia.
      + intros ds1 s2 v2 Hr2. apply (Hiso (d :: ds1) s2). cbn [frun]. rewrite Eg.
        replace (S (rd + j)) with (rd + S j) by lia. exact Hr2.
      + replace (rd + S j) with (S (rd + j)) by lia. exact Hr.
  Qed.

  Lemma PC_vtop j x ds1 y s1 v1 : lay j x -> live x -> isex x ->
    lpath j x (st x) ds1 y s1 ->
    frun pb (rd + j) (st x) (vt x) ds1 = Some (s1, v1) -> (v1 <= vt y)%Z.
  Proof.
    intros Hx Hv Hex Hp Hr.
    destruct (PC_real j x Hx Hv Hex) as (pre & Hpre & Hl).
    apply (lpath_vtopC j x _ ds1 y s1 Hp (vt x) v1 (Z.le_refl _)); [|exact Hr].
    assert (Hpre' : frun pb rd rs rv pre = Some (st x, vt x)) by exact Hpre.
    intros ds2 s2 v2 Hr2. destruct (Hguard (pre ++ ds2) s2 v2) as [G1 G2].
    { rewrite frun_app, Hpre', Hl. exact Hr2. }
    unfold in_isize, IMIN, IMAX in *. lia.
  Qed.

  Lemma lpath_dpathC j x s ds T s' : lpath j x s ds T s' ->
    j + length ds <= length (m_layers ml) -> dpath ml j x s ds T s'.
  Proof.
    intros Hp. induction Hp as [j x s H1 H2 H3|j x s d ds c eid t s' H1 H2 H3 H4 H5 H6 H7 Hp IH]; intros Hlen.
    - apply MddSim.dp_nil; [rewrite <- S_len; eapply PC_range; eauto|]. destruct H3 as [Hc _]. rewrite st_eq in Hc. exact Hc.
    - simpl in Hlen.
      destruct (Thresholds.lpath_start _ _ _ _ _ _ _ _ _ Hp) as (C1 & _ & [C3 _]).
      pose proof (PC_range _ _ H1) as Hxlt. pose proof (PC_range _ _ C1) as Hclt. rewrite S_len in Hxlt, Hclt.
      rewrite inb_eq in H4. rewrite ge0 in H5, H6, H7. rewrite st_eq in C3.
      destruct (Fc_einv _ _ _ _ _ _ HFS c eid Hclt H4) as (He & _).
      apply (Thresholds.dpath_cons inp Hnocut Hwidth Hrd cov ml j x s d c eid); auto.
      + destruct H3 as [Hc _]. rewrite st_eq in Hc. exact Hc.
      + apply lay_eq in H1. rewrite <- (Thresholds.LF_old inp Hclean ml) by lia. exact H1.
      + apply IH. lia.
  Qed.

  Lemma mf_fieldC {Y} (g : node -> Y) x : (forall n t, g (set_theta n t) = g n) -> g (gn mf x) = g (gn m5 x).
  Proof. intros Hg. exact (node_ctC st_eqb inp g m5 x Hg). Qed.

  Lemma cuts_lelC x : f_cutset (n_flags (gn m4 x)) = true -> exists k, m_lel ml = Some k.
  Proof.
    intros Hc. destruct (m_lel ml) as [k|] eqn:El; [exists k; reflexivity|]. exfalso.
    destruct (no_flagsC x) as (Nc & _).
    unfold m4, m3' in Hc. rewrite m4_eq in Hc. destruct Hclean as [Hf|Hf]; rewrite Hf in Hc.
    - destruct (Thresholds.lel_cutset_flags inp Hnocut Hwidth Hrd m1c ke x) as (L1 & _). cbv zeta in L1. rewrite m1c_layers, gn1c in L1.
      destruct (L1 Hc) as [H|H]; [congruence|]. unfold Thresholds.ke in H. rewrite El in H.
      rewrite nth_overflow in H by lia. destruct H.
    - rewrite Thresholds.frontier_all_exact in Hc; [rewrite gn1c in Hc; congruence|].
      intros y. unfold is_ex. rewrite gn1c.
      destruct (Nat.lt_ge_cases y (length (m_nodes ml))) as [Hlt|Hge]; [apply (Thresholds.all_exact_no_lel inp ml HX y El Hlt)|].
      rewrite (gn_out_of_range inp ml y Hge). reflexivity.
  Qed.

  Lemma locb_drainC j x ds T s' w0 w1 : lay j x -> live x -> cuts x ->
    lpath j x (st x) ds T s' -> complete j ds ->
    frun pb (rd + j) (st x) w0 ds = Some (s', w1) ->
    (forall ds1 ds2 s1 v1, ds = ds1 ++ ds2 -> frun pb (rd + j) (st x) w0 ds1 = Some (s1, v1) -> in_isize (w1 - v1)) ->
    f_marked (n_flags (gn mf x)) = true /\ (w1 - w0 <= n_vbot (gn mf x))%Z /\ In T (m_next ml).
  Proof.
    intros Hx Hv Hc Hp Hcomp Hr Hiso.
    apply cuts_eq in Hc. destruct (cuts_lelC x Hc) as [k Hk].
    destruct (Thresholds.lpath_end _ _ _ _ _ _ _ _ _ Hp) as (T1 & _ & _ & _). apply lay_eq in T1.
    change (rd + j + length ds = N) in Hcomp.
    assert (HjN : rd + (j + length ds) = N) by lia.
    destruct (Fc_last _ _ _ _ _ _ HFS (j + length ds) T T1 HjN) as (T2 & T3 & T4 & _).
    pose proof (lpath_dpathC j x _ ds T s' Hp ltac:(lia)) as Hdp.
    destruct (locb_from_pathC st_eqb inp Hclean Hnocut Hwidth Hrd cov tb tb2 ml k j x _ w0 ds T s' w1
                Hrel HS HX Hk T4 T2 T3 Hdp Hr Hiso) as [M1 M2].
    split; [exact M1|]. split; [exact M2|exact T2].
  Qed.

  Lemma PC_locb j x ds T s' w0 w1 : lay j x -> live x -> cuts x ->
    lpath j x (st x) ds T s' -> complete j ds ->
    frun pb (rd + j) (st x) w0 ds = Some (s', w1) ->
    (forall ds1 ds2 s1 v1, ds = ds1 ++ ds2 -> frun pb (rd + j) (st x) w0 ds1 = Some (s1, v1) -> in_isize (w1 - v1)) ->
    (w1 - w0 <= vb x)%Z.
  Proof.
    intros Hx Hv Hc Hp Hcomp Hr Hiso.
    destruct (locb_drainC j x ds T s' w0 w1 Hx Hv Hc Hp Hcomp Hr Hiso) as (_ & M2 & _).
    unfold Thresholds.vb. destruct (m0_fields x) as (_ & _ & _ & _ & _ & _ & Eb). rewrite Eb.
    eapply Z.le_trans; [exact M2|]. rewrite (mf_fieldC (@n_vbot St) x) by reflexivity. apply Z.le_refl.
  Qed.

  Notation Drn := (Thresholds.Drn st_eqb inp tb tb2 ml).

  Lemma PC_drain j x ds T s' w0 w1 : lay j x -> live x -> cuts x ->
    lpath j x (st x) ds T s' -> complete j ds ->
    frun pb (rd + j) (st x) w0 ds = Some (s', w1) ->
    (forall ds1 ds2 s1 v1, ds = ds1 ++ ds2 -> frun pb (rd + j) (st x) w0 ds1 = Some (s1, v1) -> in_isize (w1 - v1)) ->
    Drn x.
  Proof.
    intros Hx Hv Hc Hp Hcomp Hr Hiso.
    destruct (locb_drainC j x ds T s' w0 w1 Hx Hv Hc Hp Hcomp Hr Hiso) as (M1 & _ & HT).
    apply cuts_eq in Hc. apply lay_eq in Hx.
    destruct (cut_flagsC j x Hx) as (C1 & _). destruct (C1 Hc) as [_ Hin4].
    assert (Hcs : m_cutset mf = m_cutset m4).
    { destruct (compute_local_bounds_keq inp Hclean m4) as (_ & _ & _ & _ & K5). fold m5 in K5.
      destruct (compute_thresholds_keq st_eqb inp m5) as (_ & _ & _ & _ & K6). change (m_cutset (compute_thresholds st_eqb inp m5) = m_cutset m4). congruence. }
    destruct (best_geC st_eqb inp Hclean Hnocut Hwidth Hrd tb tb2 ml T HS HX HT) as (b & Hb & _).
    fold mf in Hb.
    unfold Thresholds.Drn, drain_cutset, dd_best_value. fold mf. rewrite Hb. cbn [option_map].
    eexists. split.
    - apply in_flat_map. exists x. split; [rewrite Hcs; exact Hin4|]. cbv zeta. rewrite M1. left. reflexivity.
    - cbn [sp_state sp_value sp_depth].
      rewrite (mf_fieldC (@n_state St) x), (mf_fieldC (@n_vtop St) x), (mf_fieldC (@n_depth St) x) by reflexivity.
      destruct (m5_fields x) as (b1 & b2 & _ & _ & b5 & _). auto.
  Qed.

  (* ---------------------------------------------------------------- the terminal nodes *)
  Lemma exact_terminal_bestC x : In x (m_next ml) -> is_ex inp ml x = true ->
    exists be, m_best_exact mf = Some be /\ (n_vtop (gn ml x) <= n_vtop (gn mf be))%Z.
  Proof.
    intros Hx Hex. destruct (m_has_ebp mf) eqn:Eb.
    - destruct (finalize_hdrC st_eqb inp Hclean tb tb2 ml) as (_ & _ & _ & H4). cbv zeta in H4. fold mf in H4.
      rewrite Eb in H4. destruct (best_geC st_eqb inp Hclean Hnocut Hwidth Hrd tb tb2 ml x HS HX Hx) as (b & Hb & _ & Hle).
      fold mf in Hb, Hle. exists b. rewrite H4. auto.
    - destruct (best_exact_geC st_eqb inp Hclean Hnocut Hwidth Hrd tb tb2 ml x HS HX Hx Hex Eb) as (b & Hb & _ & Hle).
      exists b. auto.
  Qed.

  Lemma terminal_aboveC j x : lay j x -> live x -> isex x -> above x -> rd + j = N ->
    In x (m_next ml) /\ is_ex inp ml x = true /\ (ci_flavour inp = CleanLEL -> m_lel ml = None) /\
    exists be, m_best_exact mf = Some be /\ (vt x <= n_vtop (gn mf be))%Z.
  Proof.
    intros Hx Hv Hex Hab HjN. apply lay_eq in Hx. apply isex_eq in Hex. apply above_eq in Hab.
    destruct (Fc_last _ _ _ _ _ _ HFS j x Hx HjN) as (T2 & _ & _).
    destruct (cut_flagsC j x Hx) as (_ & _ & _ & C4).
    split; [exact T2|]. split; [exact Hex|]. split; [intros Hf; apply (C4 Hab HjN Hf)|].
    rewrite vt_eq. apply (exact_terminal_bestC x T2 Hex).
  Qed.

  Lemma above_in_layerC x : f_above (n_flags (gn m4 x)) = true -> exists j, In x (lyf j).
  Proof.
    intros Ha. destruct (no_flagsC x) as (_ & Na).
    unfold m4, m3' in Ha. rewrite m4_eq in Ha. destruct Hclean as [Hf|Hf]; rewrite Hf in Ha.
    - destruct (Thresholds.lel_cutset_flags inp Hnocut Hwidth Hrd m1c ke x) as (_ & L2 & _). cbv zeta in L2. rewrite m1c_layers, gn1c in L2.
      destruct (L2 Ha) as [H|(j & _ & H)]; [congruence|]. exists j. exact H.
    - assert (G : f_above (n_flags (gn m1c x)) = true \/ In x (bottom_up m1c)).
      { revert Ha. rewrite (MddSim.frontier_cutset_unfold inp).
        apply (MddExact.fold_left_inv (fun a : mdd => f_above (n_flags (gn a x)) = true ->
                 f_above (n_flags (gn m1c x)) = true \/ In x (bottom_up m1c))); [auto|].
        intros a y Hy IHa. unfold MddSim.fc_step. cbv zeta. destruct (fl_is_exact (n_flags (gn a y))).
        - destruct (Thresholds.upd_flag_cases inp a y (fun f => fl_set_above f true) x) as [E|(-> & _ & E)]; cbv beta in E; rewrite E; [exact IHa|].
          intros _. right. exact Hy.
        - rewrite (fold_left_proj (fun b : mdd => f_above (n_flags (gn b x)))); [exact IHa|].
          intros b eid. unfold MddSim.fc_inner. cbv zeta. destruct (_ && _); [|reflexivity].
          rewrite (get_node_upd_node_proj inp (fun n => f_above (n_flags n))) by (intros n; reflexivity). reflexivity. }
      destruct G as [G|G]; [rewrite gn1c in G; congruence|].
      unfold bottom_up in G. rewrite m1c_layers in G. apply in_concat in G. destruct G as (l0 & Hl0 & Hx).
      apply in_rev in Hl0. apply (In_nth _ _ []) in Hl0. destruct Hl0 as (j & _ & Ej). exists j. rewrite Ej. exact Hx.
  Qed.
  (* ---------------------------------------------------------------- the cut-set flag of the frontier cut-set *)
  Lemma frontier_cutset_flagC (m : mdd) :
    Sinv inp m ->
    (forall x, x < length (m_nodes m) -> f_cutset (n_flags (gn m x)) = true -> In x (m_cutset m)) ->
    (forall c, In c (m_cutset m) -> f_cutset (n_flags (gn m c)) = true) ->
    forall c, In c (m_cutset (frontier_cutset inp m true)) ->
      f_cutset (n_flags (gn (frontier_cutset inp m true) c)) = true.
  Proof.
    intros HSm H0 H1. rewrite (MddSim.frontier_cutset_unfold inp).
    set (Q := fun a : mdd => MddSim.FInv inp m a /\ forall c, In c (m_cutset a) -> f_cutset (n_flags (gn a c)) = true).
    assert (HF0 : MddSim.FInv inp m m) by (repeat split; auto).
    assert (G : Q (fold_left (MddSim.fc_step inp) (bottom_up m) m)).
    { apply MddSim.fold_left_inv2; [split; [exact HF0|exact H1]|].
      intros a id (Fa & Ca). unfold MddSim.fc_step. cbv zeta. destruct (fl_is_exact _).
      - split; [apply MddSim.FInv_upd_above; exact Fa|].
        intros c Hc. change (In c (m_cutset a)) in Hc.
        destruct (Thresholds.upd_flag_cases inp a id (fun f => fl_set_above f true) c) as [E|(-> & _ & E)]; cbv beta in E; rewrite E.
        + apply Ca; exact Hc.
        + nsimpl. cbn [fl_set_above f_cutset]. apply Ca. exact Hc.
      - pose proof Fa as (_ & _ & F3 & _). destruct (F3 id) as [Hi _].
        assert (Hin : forall eid, In eid (n_inb (gn a id)) -> eid < length (m_edges m)).
        { intros eid He. rewrite Hi in He.
          destruct (Nat.lt_ge_cases id (length (m_nodes m))) as [Hlt|Hge].
          - apply (S_nodes _ _ HSm id Hlt). exact He.
          - rewrite (gn_out_of_range inp m id Hge) in He. destruct He. }
        apply (MddExact.fold_left_inv Q).
        + split; assumption.
        + intros b eid He (Fb & Cb). split; [apply (MddSim.FInv_fc_inner inp m b eid Fb)|].
          pose proof Fb as (G1 & G2 & _).
          assert (Hp : e_from (get_edge b eid) < length (m_nodes b)).
          { rewrite (ge_edges_eq m b eid G1), G2. apply (S_efrom _ _ HSm). apply Hin. exact He. }
          intros c. unfold MddSim.fc_inner. cbv zeta.
          destruct (fl_is_exact (n_flags (gn b (e_from (get_edge b eid)))) && negb (f_cutset (n_flags (gn b (e_from (get_edge b eid)))))).
          2:{ apply Cb. }
          intros Hc. msimpl_in Hc.
          destruct (Nat.eq_dec (e_from (get_edge b eid)) c) as [<-|Hne].
          * rewrite gn_upd_same by (msimpl; exact Hp). nsimpl. reflexivity.
          * rewrite gn_upd_other by exact Hne.
            apply in_app_or in Hc. destruct Hc as [Hc|[E|[]]]; [|congruence].
            change (f_cutset (n_flags (gn b c)) = true). apply Cb; exact Hc. }
    apply G.
  Qed.

  Lemma above_of_exC j x : In x (lyf j) -> is_ex inp ml x = true -> (ci_flavour inp = CleanLEL -> j <= ke) ->
    f_above (n_flags (gn m4 x)) = true.
  Proof.
    intros Hx Hex Hj. pose proof (Fc_range _ _ _ _ _ _ HFS j x Hx) as Hxlt.
    unfold m4, m3'. rewrite m4_eq. destruct Hclean as [Hf|Hf]; rewrite Hf.
    - destruct (Thresholds.lel_cutset_flags inp Hnocut Hwidth Hrd m1c ke x) as (_ & _ & L3 & _). cbv zeta in L3.
      rewrite m1c_layers, m1c_len in L3. apply (L3 j (Hj Hf) Hx Hxlt).
    - destruct (Thresholds.frontier_flags inp Hnocut Hwidth Hrd m1c) as (_ & Fab & _).
      { intros y _ Hc. rewrite gn1c in Hc. destruct (no_flagsC y) as (E & _). congruence. }
      apply Fab.
      + unfold bottom_up. rewrite m1c_layers. apply in_concat. exists (lyf j). split; [|exact Hx].
        apply in_rev. rewrite rev_involutive. apply nth_In. eapply Thresholds.nth_in_len; eauto.
      + rewrite m1c_len. exact Hxlt.
      + unfold is_ex. rewrite gn1c. exact Hex.
  Qed.

  Lemma root_factsC : In 0 (lyf 0) /\ del ml 0 = false /\ fcache ml 0 = false /\ is_ex inp ml 0 = true /\
    f_above (n_flags (gn m4 0)) = true.
  Proof.
    destruct (Fc_root _ _ _ _ _ _ HFS) as (R1 & R2 & R3).
    assert (Hex : is_ex inp ml 0 = true).
    { destruct (m_lel ml) as [k|] eqn:El.
      - apply (Fc_lel _ _ _ _ _ _ HFS k El 0 0 (Nat.le_0_l _) R1).
      - apply (Thresholds.all_exact_no_lel inp ml HX); [exact El|apply (Fc_range _ _ _ _ _ _ HFS 0 0 R1)]. }
    split; [exact R1|]. split; [exact R2|]. split; [exact R3|]. split; [exact Hex|].
    apply (above_of_exC 0 0 R1 Hex). intros _. lia.
  Qed.

  Lemma mcut_eqC : m_cutset mf = m_cutset m4.
  Proof.
    destruct (compute_local_bounds_keq inp Hclean m4) as (_ & _ & _ & _ & K5). fold m5 in K5.
    destruct (compute_thresholds_keq st_eqb inp m5) as (_ & _ & _ & _ & K6).
    change (m_cutset (compute_thresholds st_eqb inp m5) = m_cutset m4). congruence.
  Qed.

  (* a marked cut-set node is the source of an arc: a live node of a layer, not dropped by the cache *)
  Lemma drained_nodeC id : m_next ml <> [] -> In id (m_cutset mf) -> f_marked (n_flags (gn mf id)) = true ->
    exists j, In id (lyf j) /\ del ml id = false /\ fcache ml id = false /\ f_cutset (n_flags (gn m4 id)) = true.
  Proof.
    intros Hnn Hid Hmk. rewrite mcut_eqC in Hid.
    rewrite (mf_fieldC (fun n => f_marked (n_flags n)) id) in Hmk by reflexivity.
    destruct m3_facts as (G1 & G2 & G3 & G4 & G5).
    destruct (MddSim.pipe3 inp Hclean tb tb2 ml HS HX) as (_ & _ & _ & _ & _ & S3 & X3 & _). cbv zeta in S3, X3.
    change (Sinv inp m3') in S3. change (Xs inp m3') in X3.
    assert (Ee : m_edges m1c = m_edges ml).
    { unfold Thresholds.m1c. cbv zeta. destruct (m_lel _); exact G2. }
    assert (HSF : MddSim.Src ml id /\ f_cutset (n_flags (gn m4 id)) = true).
    { destruct Hclean as [Hf|Hf].
      - (* last exact layer *)
        unfold m4, m3' in Hid. rewrite m4_eq, Hf in Hid.
        destruct (lel_cutset_spec inp m1c ke) as [_ Ecs]. rewrite Ecs, m1c_cutset, m1c_layers in Hid. simpl in Hid.
        destruct (nth_error (LF ml) ke) as [ids|] eqn:Enk; [|destruct Hid].
        assert (Hlk : In id (lyf ke)) by (rewrite (nth_error_nth (LF ml) ke [] Enk); exact Hid).
        pose proof (Fc_range _ _ _ _ _ _ HFS ke id Hlk) as Hlt.
        split.
        + assert (S4' : Sinv inp m4).
          { destruct (finalize_cutset_spec inp Hclean m3' S3 X3) as [(P34 & N34 & _) _]. fold m4 in P34, N34.
            eapply (Sinv_peq inp Hclean); [exact P34| |exact S3].
            intros y Hy. rewrite N34 in Hy. destruct P34 as (_ & _ & L34 & _). rewrite L34. apply (S_next _ _ S3). exact Hy. }
          destruct (MddSim.marked_src inp Hclean m4 S4') with (x := id) as [Hl|Hs].
          * intros x. unfold m4. rewrite (MddSim.flag_finalize_cutset inp Hclean f_marked) by (intros; reflexivity).
            rewrite gn3.
            destruct (Nat.lt_ge_cases x (length (m_nodes ml))) as [Hlt'|Hge].
            -- unfold MddSim.Ninv in HN. rewrite Forall_forall in HN. apply (HN (gn ml x)). apply nth_In. exact Hlt'.
            -- rewrite (gn_out_of_range inp ml x Hge). reflexivity.
          * exact Hmk.
          * exfalso. unfold m4, m3' in Hl. rewrite finalize_cutset_layers, G3 in Hl.
            assert (ELF : LF ml = m_layers ml ++ [seq (m_layer_end ml) (length (m_nodes ml) - m_layer_end ml)]).
            { unfold Thresholds.LF. destruct (MddSim.finalize_layers_fields inp Hclean ml) as (_ & _ & _ & _ & F5). rewrite F5.
              destruct (m_next ml); [congruence|reflexivity]. }
            assert (Hl2 : In id (lyf (length (m_layers ml)))).
            { rewrite ELF. rewrite app_nth2 by lia. rewrite Nat.sub_diag. simpl. rewrite ELF, last_last in Hl. exact Hl. }
            pose proof (lay_uniqC _ _ _ Hlk Hl2) as Ek.
            unfold Thresholds.ke in Ek. destruct (m_lel ml) as [k|] eqn:El.
            -- pose proof (X_lel_lt _ _ _ HX Hrel k El). lia.
            -- rewrite ELF, app_length in Ek. simpl in Ek. lia.
          * destruct Hs as (eid & E1 & E2).
            destruct (finalize_cutset_spec inp Hclean m3' S3 X3) as [((Pe & _) & _) _]. fold m4 in Pe.
            assert (G2' : m_edges m3' = m_edges ml) by exact G2.
            exists eid. rewrite Pe, G2' in E1. split; [exact E1|].
            rewrite (ge_edges_eq m3' m4 eid Pe) in E2. rewrite (ge_edges_eq ml m3' eid G2') in E2. exact E2.
        + destruct (Thresholds.lel_cutset_flags inp Hnocut Hwidth Hrd m1c ke id) as (_ & _ & _ & _ & L5). cbv zeta in L5.
          rewrite m1c_layers, m1c_len in L5. unfold m4, m3'. rewrite m4_eq, Hf. apply L5; assumption.
      - (* frontier *)
        unfold m4, m3' in Hid |- *. rewrite m4_eq, Hf in Hid |- *.
        assert (S1c : Sinv inp m1c).
        { unfold Thresholds.m1c. cbv zeta. destruct (m_lel _); [exact S3|]. destruct S3 as [A1 A2 A3 A4 A5]. split; assumption. }
        assert (H0 : forall x, x < length (m_nodes m1c) -> f_cutset (n_flags (gn m1c x)) = true -> In x (m_cutset m1c)).
        { intros y _ Hc. rewrite gn1c in Hc. destruct (no_flagsC y) as (E & _). congruence. }
        split.
        + destruct (MddSim.frontier_cutset_src inp m1c S1c H0 id Hid) as [Hc0|Hs].
          * rewrite m1c_cutset in Hc0. destruct Hc0.
          * destruct Hs as (eid & E1 & E2). exists eid. rewrite Ee in E1. split; [exact E1|].
            rewrite (ge_edges_eq ml m1c eid Ee) in E2. exact E2.
        + apply (frontier_cutset_flagC m1c S1c H0); [rewrite m1c_cutset; intros c []|exact Hid]. }
    destruct HSF as [Hsrc Hfl].
    destruct (Fc_srcl _ _ _ _ _ _ HFS id Hsrc) as (Hd & j & Hj).
    exists j. split; [exact Hj|]. split; [exact Hd|]. split; [apply (Fc_src _ _ _ _ _ _ HFS id Hsrc)|exact Hfl].
  Qed.
End FinalC.

Local Open Scope nat_scope.


(* ================================================================== 8. _finalize with the cache on: what _compute_thresholds leaves alone *)

(* ================================================================== 10. what a relaxed compilation started from ANY cache guarantees *)
Section CompileLevel.
  Context {St : Type}.
  Variable st_eqb : St -> St -> bool.
  Variable inp : @cinput St.
  Let pb := ci_problem inp.
  (* a complete run of final value [val] was lost to an entry of the cache [c] at depth >= dmin *)
  Definition LostC (c : @cache St) (dmin : nat) (val : Z) : Prop :=
    exists d s0 th h, dmin <= d /\ cget st_eqb c s0 d = Some th /\ H pb d s0 = Some h /\ (val <= th_value th + h)%Z.
  (* the run (d, s, w) ds passes through a drained cut-set node, at a value no larger than the node's
     (with e = true: strictly deeper than d) *)
  Definition CaptC (m : @mdd St) (e : bool) (d : nat) (s : St) (w : Z) (ds : list decision) : Prop :=
    exists sp ds1 ds2 s1 w1, In sp (drain_cutset inp m) /\ ds = ds1 ++ ds2 /\ frun pb d s w ds1 = Some (s1, w1) /\
      sp_state sp = s1 /\ sp_depth sp = d + length ds1 /\ (w1 <= sp_value sp)%Z /\ (e = true -> ds1 <> []).

  Lemma LostC_mono c d d' v v' : d' <= d -> (v' <= v)%Z -> LostC c d v -> LostC c d' v'.
  Proof. intros H1 H2 (d0 & s0 & th & h & A & B0 & C & D). exists d0, s0, th, h. repeat split; auto; lia. Qed.
End CompileLevel.

Section UseC.
  Context {St : Type}.
  Variable st_eqb : St -> St -> bool.
  Hypothesis st_eqb_spec : forall a b, st_eqb a b = true <-> a = b.
  Variable inp : @cinput St.
  Let pb := ci_problem inp.
  Let rlx := ci_relax inp.
  Let root := ci_root inp.
  Let lb := ci_best_lb inp.
  Let N := nb_vars pb.
  Let rd := sp_depth root.
  Let rs := sp_state root.
  Let rv := sp_value root.
  Hypothesis Hclean : ci_flavour inp = CleanLEL \/ ci_flavour inp = CleanFC.
  Hypothesis Hnodom : ci_domrule inp = None.
  Hypothesis Hnocut : ci_cutoff inp = 0.
  Hypothesis Hwidth : 1 <= ci_width inp.
  Hypothesis Hrel : ci_type inp = Relaxed.
  Hypothesis Hrd : rd <= N.
  Hypothesis nv_static : forall k l1 l2, next_variable pb k l1 = next_variable pb k l2.
  Hypothesis nv_some : forall k l, k < N -> exists x, next_variable pb k l = Some x.
  Hypothesis nv_none : forall k l, N <= k -> next_variable pb k l = None.
  Variable cov : St -> St -> Prop.
  Hypothesis cov_refl : forall s, cov s s.
  Hypothesis cov_sim : forall s s' x v, cov s s' -> In v (domain pb x s') ->
    let d := {| d_var := x; d_val := v |} in
    In v (domain pb x s) /\ cov (transition pb s d) (transition pb s' d) /\
    (transition_cost pb s' (transition pb s' d) d <= transition_cost pb s (transition pb s d) d)%Z.
  Hypothesis rub_adm : forall k s s' h, cov s s' -> H pb k s' = Some h -> (h <= fast_upper_bound rlx s)%Z.
  Variable B : Z.
  Hypothesis HB : (2 * B <= IMAX)%Z.
  Hypothesis Hguard : forall ds s' v', frun pb rd rs rv ds = Some (s', v') -> (- B <= v' <= B)%Z.

  Notation mdd := (@mdd St).
  Notation gn := (get_node inp).
  Notation LF := (Thresholds.LF inp).

  Variable c : @cache St.
  Variables (tb tb2 : nat) (ml m0 : mdd) (bk : Z).
  Let mf := finalize st_eqb inp tb tb2 ml.
  Let m5 := compute_local_bounds inp (finalize_cutset inp (finalize_exact inp (find_best_node inp tb tb2 (finalize_layers inp ml)))).
  Let Dr := Thresholds.Drn st_eqb inp tb tb2 ml.
  Let Old := OldC st_eqb c.
  Hypothesis HFS : FSc st_eqb inp cov c ml (fun j => nth j (LF ml) []).
  Hypothesis HS : Sinv inp ml.
  Hypothesis HX : Xs inp ml.
  Hypothesis HN : MddSim.Ninv inp ml.
  Hypothesis S_lay : m_layers m0 = LF ml.
  Hypothesis S_edg : m_edges m0 = m_edges ml.
  Hypothesis S_len : length (m_nodes m0) = length (m_nodes ml).
  Hypothesis S_sk : forall x, Thresholds.sk (gn m0 x) = Thresholds.sk (gn m5 x).
  Hypothesis S_ct : forall x, f_cache (n_flags (gn ml x)) = true -> n_theta (gn m0 x) = n_theta (gn ml x).
  Hypothesis Hbk : (lb <= bk)%Z.
  Hypothesis Ebk : bk = bk_of inp mf.
  Hypothesis HCO : CacheOKg st_eqb inp B m0 bk Dr Old c (m_cache mf).

  Local Notation lay := (Thresholds.lay m0).
  Local Notation live := (Thresholds.live inp m0).
  Local Notation isex := (Thresholds.isex inp m0).
  Local Notation above := (Thresholds.above inp m0).
  Local Notation cuts := (Thresholds.cuts inp m0).
  Local Notation st := (Thresholds.st inp m0).
  Local Notation vt := (Thresholds.vt inp m0).
  Local Notation vb := (Thresholds.vb inp m0).
  Local Notation rb := (Thresholds.rb inp m0).
  Local Notation cached := (cached inp m0).
  Local Notation m0_fields := (Thresholds.m0_fields inp Hclean tb tb2 ml HS HX m0 S_sk).
  Local Notation m5_fields := (Thresholds.m5_fields inp Hclean tb tb2 ml HS HX).
  Local Notation lay_eq := (Thresholds.lay_eq inp ml m0 S_lay).
  Local Notation live_eq := (Thresholds.live_eq inp Hclean tb tb2 ml HS HX m0 S_sk).
  Local Notation isex_eq := (Thresholds.isex_eq inp Hclean tb tb2 ml HS HX m0 S_sk).
  Local Notation above_eq := (Thresholds.above_eq inp Hclean tb tb2 ml HS HX m0 S_sk).
  Local Notation cuts_eq := (Thresholds.cuts_eq inp Hclean tb tb2 ml HS HX m0 S_sk).
  Local Notation cached_eq := (cached_eqC inp Hclean tb tb2 ml HS HX m0 S_sk).

  (* the pack of section 7, instantiated *)
  Lemma Q_depth j x : lay j x -> live x -> n_depth (gn m0 x) = rd + j.
  Proof. eapply PC_depth; eassumption. Qed.
  Lemma Q_SC j x s var val : lay j x -> live x -> ~ cached x -> Thresholds.Adm inp cov m0 x s -> rd + j < N ->
    Thresholds.branched inp m0 x -> next_variable pb (rd + j) [] = Some var -> In val (domain pb var s) ->
    let d := {| d_var := var; d_val := val |} in
    exists c' eid, lay (S j) c' /\ live c' /\ Thresholds.Adm inp cov m0 c' (transition pb s d) /\ In eid (n_inb (gn m0 c')) /\
      e_from (get_edge m0 eid) = x /\ e_dec (get_edge m0 eid) = d /\ (Thresholds.rcost inp s d <= e_cost (get_edge m0 eid))%Z.
  Proof. eapply PC_SC; eassumption. Qed.
  Lemma Q_rub j x : lay j x -> rb x = IMAX \/ rb x = fast_upper_bound rlx (st x).
  Proof. eapply PC_rub; eassumption. Qed.
  Lemma Q_cached j x : lay j x -> live x -> cached x ->
    exists tc, thc0 inp m0 x = Some tc /\ (vt x <= tc)%Z /\ Old (rd + j) (st x) tc.
  Proof. eapply PC_cached; eassumption. Qed.
  Lemma Q_cut_ex j x : lay j x -> cuts x -> isex x.
  Proof. eapply PC_cut_ex; eassumption. Qed.
  Lemma Q_kid j x c' eid : lay j x -> live x -> isex x -> above x -> ~ cuts x -> lay (S j) c' -> live c' ->
    In eid (n_inb (gn m0 c')) -> e_from (get_edge m0 eid) = x -> isex c' /\ above c'.
  Proof. eapply PC_kid; eassumption. Qed.
  Lemma Q_real j x : lay j x -> live x -> isex x -> Thresholds.Start inp j (st x) (vt x).
  Proof. eapply PC_real; eassumption. Qed.
  Lemma Q_vtop j x ds1 y s1 v1 : lay j x -> live x -> isex x -> Thresholds.lpath inp cov m0 j x (st x) ds1 y s1 ->
    frun pb (rd + j) (st x) (vt x) ds1 = Some (s1, v1) -> (v1 <= vt y)%Z.
  Proof. eapply PC_vtop; eassumption. Qed.
  Lemma Q_locb j x ds T s' w0 w1 : lay j x -> live x -> cuts x -> Thresholds.lpath inp cov m0 j x (st x) ds T s' ->
    Thresholds.complete inp j ds -> frun pb (rd + j) (st x) w0 ds = Some (s', w1) ->
    (forall ds1 ds2 s1 v1, ds = ds1 ++ ds2 -> frun pb (rd + j) (st x) w0 ds1 = Some (s1, v1) -> in_isize (w1 - v1)) ->
    (w1 - w0 <= vb x)%Z.
  Proof. eapply PC_locb; eassumption. Qed.
  Lemma Q_drain j x ds T s' w0 w1 : lay j x -> live x -> cuts x -> Thresholds.lpath inp cov m0 j x (st x) ds T s' ->
    Thresholds.complete inp j ds -> frun pb (rd + j) (st x) w0 ds = Some (s', w1) ->
    (forall ds1 ds2 s1 v1, ds = ds1 ++ ds2 -> frun pb (rd + j) (st x) w0 ds1 = Some (s1, v1) -> in_isize (w1 - v1)) ->
    Dr x.
  Proof. eapply PC_drain; eassumption. Qed.

  Lemma bk_best_exact be : m_best_exact mf = Some be -> (n_vtop (gn mf be) <= bk)%Z.
  Proof. intros E. rewrite Ebk. unfold bk_of. rewrite E. lia. Qed.

  Lemma Q_term j x : lay j x -> live x -> isex x -> above x -> rd + j = N -> (vt x <= bk)%Z.
  Proof.
    intros Hl Hv Hex Hab HjN.
    destruct (terminal_aboveC st_eqb inp Hclean Hnocut Hwidth Hrel Hrd cov c tb tb2 ml HFS HS HX HN m0 S_lay S_sk
                j x Hl Hv Hex Hab HjN) as (_ & _ & _ & be & T4 & T5).
    eapply Z.le_trans; [exact T5|exact (bk_best_exact be T4)].
  Qed.

  Lemma mf_fields x :
    n_state (gn mf x) = n_state (gn ml x) /\ n_vtop (gn mf x) = n_vtop (gn ml x) /\ n_depth (gn mf x) = n_depth (gn ml x) /\
    n_rub (gn mf x) = n_rub (gn m0 x) /\ n_vbot (gn mf x) = n_vbot (gn m0 x).
  Proof.
    destruct (m5_fields x) as (a1 & a2 & _ & a4 & a5 & _). destruct (m0_fields x) as (_ & _ & _ & b4 & _ & _ & b7).
    unfold mf. rewrite !(mf_fieldC st_eqb inp tb tb2 ml (@n_state St) x), (mf_fieldC st_eqb inp tb tb2 ml (@n_vtop St) x),
      (mf_fieldC st_eqb inp tb tb2 ml (@n_depth St) x), (mf_fieldC st_eqb inp tb tb2 ml (@n_rub St) x),
      (mf_fieldC st_eqb inp tb tb2 ml (@n_vbot St) x) by reflexivity.
    split; [exact a1|]. split; [exact a2|]. split; [exact a5|]. split; [congruence|]. symmetry. exact b7.
  Qed.

  Lemma lost_conv jm val : LostAt inp m0 Old jm val -> LostC st_eqb inp c (rd + jm) val.
  Proof.
    intros (j' & y & tc & h & L1 & _ & _ & _ & (th & G1 & G2) & L6 & L7).
    exists (rd + j'), (st y), th, h. split; [lia|]. split; [exact G1|]. split; [exact L6|]. rewrite G2. exact L7.
  Qed.

  Lemma capt_conv e j s w ds : CaptD inp m0 Dr e j s w ds -> CaptC inp mf e (rd + j) s w ds.
  Proof.
    intros (ds1 & ds2 & y & s1 & w1 & E & Hf & (sp & Hsp & P1 & P2 & P3) & Hs & Hdep & Hw & He).
    destruct (m0_fields y) as (f1 & f2 & _ & _ & f5 & _).
    exists sp, ds1, ds2, s1, w1. split; [exact Hsp|]. split; [exact E|]. split; [exact Hf|].
    split; [rewrite P1, <- f1; exact Hs|]. split; [rewrite P3, <- f5; exact Hdep|]. split; [rewrite P2, <- f2; exact Hw|exact He].
  Qed.

  (* ---------------------------------------------------------------- (A) a complete run from the root *)
  Theorem root_runC ds s' r' : frun pb rd rs rv ds = Some (s', r') -> rd + length ds = N ->
    (r' <= bk_of inp mf)%Z \/ CaptC inp mf false rd rs rv ds \/ LostC st_eqb inp c (S rd) r'.
  Proof.
    intros Hr Hlen.
    destruct (root_factsC st_eqb inp Hclean Hnocut Hwidth Hrel Hrd cov c tb tb2 ml HFS HS HX HN m0 S_len) as (R1 & R2 & R3 & R4 & R5).
    assert (Hl : lay 0 0) by (apply lay_eq; exact R1).
    assert (Hv : live 0) by (apply live_eq; exact R2).
    assert (Hex : isex 0) by (apply isex_eq; exact R4).
    assert (Hab : above 0) by (apply above_eq; exact R5).
    assert (Hnc : ~ cached 0).
    { intros Hc. apply cached_eq in Hc. rewrite R3 in Hc. discriminate. }
    destruct (S_root _ _ HS) as (_ & r2 & r3 & _).
    destruct (m0_fields 0) as (f1 & f2 & _).
    assert (Est : st 0 = rs) by (unfold Thresholds.st; rewrite f1; exact r2).
    assert (Evt : vt 0 = rv) by (unfold Thresholds.vt; rewrite f2; exact r3).
    assert (HSt : Thresholds.Start inp 0 (st 0) rv).
    { exists []. rewrite Est. split; reflexivity. }
    destruct (run_cases inp Hrd nv_static nv_some nv_none cov cov_refl cov_sim rub_adm B HB Hguard m0 bk Hbk Dr Old
                Q_depth Q_SC Q_rub Q_cached Q_kid Q_real Q_vtop Q_drain Q_term 0 0 rv ds s' r' Hl Hv Hex Hab Hnc HSt)
      as [H1|[H1|H1]].
    - rewrite Evt. apply Z.le_refl.
    - rewrite Est. replace (sp_depth (ci_root inp) + 0) with rd by (unfold rd, root; lia). exact Hr.
    - unfold Thresholds.complete. fold pb N. unfold rd, root in Hlen. lia.
    - left. rewrite <- Ebk. exact H1.
    - right; left. apply capt_conv in H1. rewrite Est in H1. replace (rd + 0) with rd in H1 by lia. exact H1.
    - right; right. apply lost_conv in H1. replace (rd + 1) with (S rd) in H1 by lia. exact H1.
  Qed.

  (* ---------------------------------------------------------------- (B) a complete run from a drained cut-set node *)
  Theorem ub_runC sp ds s' r' : In sp (drain_cutset inp mf) ->
    frun pb (sp_depth sp) (sp_state sp) (sp_value sp) ds = Some (s', r') -> sp_depth sp + length ds = N ->
    (r' <= lb)%Z \/ LostC st_eqb inp c (S (sp_depth sp)) r' \/ (r' <= sp_ub sp)%Z.
  Proof.
    intros Hsp Hr Hlen.
    unfold drain_cutset in Hsp. destruct (dd_best_value inp mf) as [bv|] eqn:Ebv; [|destruct Hsp].
    apply in_flat_map in Hsp. destruct Hsp as (id & Hid & Hsp). cbv zeta in Hsp.
    destruct (f_marked (n_flags (gn mf id))) eqn:Emk; [|destruct Hsp].
    destruct Hsp as [<-|[]]. cbn [sp_ub sp_state sp_value sp_depth] in *.
    destruct (finalize_hdrC st_eqb inp Hclean tb tb2 ml) as (_ & _ & H3 & _). cbv zeta in H3. fold mf in H3.
    unfold dd_best_value in Ebv. destruct (m_best mf) as [b|] eqn:Eb; [|discriminate]. cbn [option_map] in Ebv.
    assert (Hnn : m_next ml <> []).
    { symmetry in H3. apply pick_In in H3. apply (argmax_candidates_In inp Hclean) in H3.
      intros E. rewrite E in H3. destruct H3. }
    destruct (drained_nodeC st_eqb inp Hclean Hnocut Hwidth Hrel Hrd cov c tb tb2 ml HFS HS HX HN m0 S_len id Hnn Hid Emk)
      as (j & Hj & Hd & Hfc & Hcf).
    assert (Hl : lay j id) by (apply lay_eq; exact Hj).
    assert (Hv : live id) by (apply live_eq; exact Hd).
    assert (Hc : cuts id) by (apply cuts_eq; exact Hcf).
    assert (Hnc : ~ cached id).
    { intros Hc'. apply cached_eq in Hc'. rewrite Hfc in Hc'. discriminate. }
    destruct (mf_fields id) as (g1 & g2 & g3 & g4 & g5).
    destruct (m0_fields id) as (f1 & f2 & _).
    pose proof (Fc_dep _ _ _ _ _ _ HFS j id Hj Hd) as Hdep.
    rewrite g1, g2, g3 in Hr. rewrite g3 in Hlen.
    destruct (ub_cases inp Hrd nv_static nv_some nv_none cov cov_refl cov_sim rub_adm B HB Hguard m0 bk Hbk Old
                Q_SC Q_rub Q_cached Q_cut_ex Q_real Q_vtop Q_locb j id ds s' r' Hl Hv Hc Hnc) as [H1|[H1|(U1 & U2 & T & T1 & T2 & T3)]].
    - unfold Thresholds.st, Thresholds.vt. rewrite f1, f2. rewrite <- Hdep. exact Hr.
    - unfold Thresholds.complete. fold pb N. rewrite Hdep in Hlen. unfold rd, root in Hlen. lia.
    - left. exact H1.
    - right; left. apply lost_conv in H1. rewrite g3, Hdep. eapply LostC_mono; [|apply Z.le_refl|exact H1]. unfold rd, root. lia.
    - right; right. unfold Thresholds.vt, Thresholds.rb, Thresholds.vb in U1, U2.
      rewrite g2, g4, g5. rewrite f2 in U1, U2.
      apply Z.min_glb; [apply Z.min_glb; assumption|].
      apply lay_eq in T1.
      destruct (Fc_last _ _ _ _ _ _ HFS (j + length ds) T T1) as (T4 & _).
      { rewrite Hdep in Hlen. unfold N, pb in Hlen. lia. }
      destruct (best_geC st_eqb inp Hclean Hnocut Hwidth Hrd tb tb2 ml T HS HX T4) as (b' & Hb' & _ & Hle).
      fold mf in Hb', Hle. rewrite Eb in Hb'. inversion Hb'; subst b'. inversion Ebv; subst bv.
      destruct (m0_fields T) as (_ & t2 & _). unfold Thresholds.vt in T3. rewrite t2 in T3. lia.
  Qed.

  (* ---------------------------------------------------------------- (C) the entries of the final cache *)
  Theorem cache_runC d s th : cget st_eqb (m_cache mf) s d = Some th ->
    cget st_eqb c s d = Some th \/
    exists j, d = rd + j /\ (exists pre r, frun pb rd rs rv pre = Some (s, r) /\ length pre = j) /\
      forall v ds s' v', (IMIN + 2 * B < v)%Z -> (v <= th_value th)%Z -> frun pb d s v ds = Some (s', v') -> d + length ds = N ->
        (v' <= bk_of inp mf)%Z \/ CaptC inp mf (th_explored th) d s v ds \/ LostC st_eqb inp c (S d) v'.
  Proof.
    intros Hg. destruct (HCO d s th Hg) as [H1|(j & -> & (r & pre & P1 & P2) & HSA)]; [left; exact H1|right].
    exists j. split; [reflexivity|]. split; [exists pre, r; auto|].
    intros v ds s' v' Hv1 Hv2 Hr Hlen.
    destruct (HSA v ds s' v' Hv1 Hv2 Hr) as [H1|[H1|H1]].
    - unfold Thresholds.complete. exact Hlen.
    - left. rewrite <- Ebk. exact H1.
    - right; left. apply capt_conv. exact H1.
    - right; right. apply lost_conv in H1. replace (rd + S j) with (S (rd + j)) in H1 by lia. exact H1.
  Qed.
End UseC.

(* ================================================================== 11. the bridge: Mdd.compile (relaxed, any cache with a layer per depth) *)
Section BridgeC.
  Context {St : Type}.
  Variable st_eqb : St -> St -> bool.
  Hypothesis st_eqb_spec : forall a b, st_eqb a b = true <-> a = b.
  Variable inp : @cinput St.
  Let pb := ci_problem inp.
  Let rlx := ci_relax inp.
  Let root := ci_root inp.
  Let lb := ci_best_lb inp.
  Let N := nb_vars pb.
  Let rd := sp_depth root.
  Let rs := sp_state root.
  Let rv := sp_value root.
  Hypothesis Hclean : ci_flavour inp = CleanLEL \/ ci_flavour inp = CleanFC.
  Hypothesis Hnodom : ci_domrule inp = None.
  Hypothesis Hnocut : ci_cutoff inp = 0.
  Hypothesis Hwidth : 1 <= ci_width inp.
  Hypothesis Hrel : ci_type inp = Relaxed.
  Hypothesis Hrd : rd <= N.
  Hypothesis nv_static : forall k l1 l2, next_variable pb k l1 = next_variable pb k l2.
  Hypothesis nv_some : forall k l, k < N -> exists x, next_variable pb k l = Some x.
  Hypothesis nv_none : forall k l, N <= k -> next_variable pb k l = None.
  Variable cov : St -> St -> Prop.
  Hypothesis cov_refl : forall s, cov s s.
  Hypothesis cov_sim : forall s s' x v, cov s s' -> In v (domain pb x s') ->
    let d := {| d_var := x; d_val := v |} in
    In v (domain pb x s) /\ cov (transition pb s d) (transition pb s' d) /\
    (transition_cost pb s' (transition pb s' d) d <= transition_cost pb s (transition pb s d) d)%Z.
  Hypothesis merge_cov : forall L s s', In s L -> cov s s' -> cov (merge rlx L) s'.
  Hypothesis relax_ge : forall src dst mg d c, (c <= relax rlx src dst mg d c)%Z.
  Hypothesis rub_adm : forall k s s' h, cov s s' -> H pb k s' = Some h -> (h <= fast_upper_bound rlx s)%Z.
  Variable B : Z.
  Hypothesis HB : (2 * B <= IMAX)%Z.
  Hypothesis Hguard : forall ds s' v', frun pb rd rs rv ds = Some (s', v') -> (- B <= v' <= B)%Z.

  Notation mdd := (@mdd St).
  Notation gn := (get_node inp).
  Notation LF := (Thresholds.LF inp).
  Notation sk := (@Thresholds.sk St).

  Lemma th_preset_other bk (m : mdd) x : ~ In x (m_next m) -> gn (th_preset inp bk m) x = gn m x.
  Proof.
    intros Hn. unfold th_preset.
    apply (MddExact.fold_left_inv (fun a : mdd => gn a x = gn m x)); [reflexivity|].
    intros a id Hid Ha. cbv zeta.
    match goal with |- context [if ?c then _ else _] => destruct c end; [|exact Ha].
    rewrite gn_upd_other; [exact Ha|]. intros ->. contradiction.
  Qed.

  Theorem bridgeC tb tb2 c ds polls (m : mdd) : N < length c ->
    compile st_eqb inp tb tb2 c ds polls = (m, Compiled) ->
    exists ml m0 bk,
      m = finalize st_eqb inp tb tb2 ml /\
      FSc st_eqb inp cov c ml (fun j => nth j (LF ml) []) /\ Sinv inp ml /\ Xs inp ml /\ MddSim.Ninv inp ml /\
      m_layers m0 = LF ml /\ m_edges m0 = m_edges ml /\ length (m_nodes m0) = length (m_nodes ml) /\
      (forall x, sk (gn m0 x) = sk (gn (compute_local_bounds inp (finalize_cutset inp (finalize_exact inp
                                          (find_best_node inp tb tb2 (finalize_layers inp ml))))) x)) /\
      (forall x, f_cache (n_flags (gn ml x)) = true -> n_theta (gn m0 x) = n_theta (gn ml x)) /\
      (lb <= bk)%Z /\ bk = bk_of inp m /\
      CacheOKg st_eqb inp B m0 bk (Thresholds.Drn st_eqb inp tb tb2 ml) (OldC st_eqb c) c (m_cache m).
  Proof.
    intros Hcl Hc.
    destruct (compile_unfoldC st_eqb st_eqb_spec inp Hclean Hnodom Hnocut Hwidth nv_some nv_none Hrd tb tb2 c ds polls Hcl)
      as (ml & El & _ & HS & HX & Hcml & Ecomp).
    rewrite Ecomp in Hc. inversion Hc as [Em]. clear Hc.
    pose proof (layer_loop_TIc st_eqb st_eqb_spec inp Hclean Hnodom Hnocut Hwidth Hrel Hrd nv_static nv_some nv_none
                  cov cov_sim merge_cov relax_ge c _ _ ml (TIc_initialize st_eqb inp Hnocut Hwidth Hrd cov cov_refl c ds polls) El) as HFS.
    pose proof (layer_loop_NinvM st_eqb inp Hclean Hnocut Hwidth Hrd Hnodom (S (S (nb_vars (ci_problem inp)))) _
                  (MddSim.Ninv_initialize inp c ds polls)) as HN.
    rewrite El in HN. cbn [fst] in HN.
    set (m5 := compute_local_bounds inp (finalize_cutset inp (finalize_exact inp
                 (find_best_node inp tb tb2 (finalize_layers inp ml))))).
    set (M := compute_thresholds st_eqb inp m5).
    assert (EM0 : finalize st_eqb inp tb tb2 ml = M) by reflexivity.
    pose proof (Thresholds.m5_layers inp Hclean tb tb2 ml HS HX) as L5. fold m5 in L5.
    pose proof (Thresholds.m5_edges inp Hclean tb tb2 ml HS HX) as E5. fold m5 in E5.
    pose proof (Thresholds.m5_len inp Hclean tb tb2 ml HS HX) as N5. fold m5 in N5.
    assert (Hins : MddProgress.insens (fun a : mdd => m_cache a)) by (repeat split).
    assert (C5 : m_cache m5 = c).
    { rewrite <- Hcml. unfold m5.
      rewrite (MddProgress.ins_compute_local_bounds inp _ Hins).
      rewrite (MddProgress.ins_finalize_cutset inp Hclean _ Hins) by (intros; reflexivity).
      unfold finalize_exact, find_best_node, finalize_layers. cbv zeta. rewrite (not_pooled inp Hclean).
      destruct (m_next ml); reflexivity. }
    destruct (compute_thresholds_keq st_eqb inp m5) as ((KE & KP & KL & KC) & KN & KB & KBE & KCS).
    fold M in KE, KP, KL, KC, KN, KB, KBE, KCS.
    assert (Hnext5 : m_next m5 = m_next ml).
    { assert (Hi : MddProgress.insens (fun a : mdd => m_next a)) by (repeat split). unfold m5.
      rewrite (MddProgress.ins_compute_local_bounds inp _ Hi).
      rewrite (MddProgress.ins_finalize_cutset inp Hclean _ Hi) by (intros; reflexivity).
      change (m_next (finalize_layers inp ml) = m_next ml). apply (finalize_layers_fields inp Hclean ml). }
    assert (Hex5 : m_is_exact m5 = match m_lel ml with None => true | Some _ => false end).
    { destruct (finalize_hdrC st_eqb inp Hclean tb tb2 ml) as (H1 & _). cbv zeta in H1. rewrite <- H1. rewrite EM0. symmetry.
      unfold M. apply (proj_compute_thresholdsC st_eqb inp (fun a : mdd => m_is_exact a)); intros; reflexivity. }
    assert (Hbe' : m_best_exact M = m_best_exact m5).
    { unfold M. apply (proj_compute_thresholdsC st_eqb inp (fun a : mdd => m_best_exact a)); intros; reflexivity. }
    assert (Hopen : forall x, f_cache (n_flags (gn ml x)) = true -> ~ In x (m_next ml)).
    { intros x Hf Hin. pose proof (Fc_open _ _ _ _ _ _ HFS x Hin) as Ho. unfold fcache in Ho. congruence. }
    (* the fold *)
    assert (Hfold : exists m0 bk, M = fold_left (th_step st_eqb inp bk) (bottom_up m0) m0 /\
              m_layers m0 = LF ml /\ m_edges m0 = m_edges ml /\ length (m_nodes m0) = length (m_nodes ml) /\
              (forall x, sk (gn m0 x) = sk (gn m5 x)) /\ m_cache m0 = c /\ (lb <= bk)%Z /\ bk = bk_of inp M /\
              (forall x, In x (m_next ml) -> x < length (m_nodes ml) -> fl_is_exact (n_flags (gn m5 x)) = true ->
                 (ci_flavour inp = CleanLEL -> m_lel ml = None) ->
                 (exists be, m_best_exact m5 = Some be) -> theta_of inp m0 x = Some bk) /\
              (forall x, f_cache (n_flags (gn ml x)) = true -> n_theta (gn m0 x) = n_theta (gn ml x))).
    { unfold M at 1. rewrite Thresholds.compute_thresholds_unfold. rewrite Hrel. cbn [is_relaxed_ct orb].
      destruct (m_best_exact m5) as [be|] eqn:Ebe.
      - cbv zeta. set (bk := Z.max (ci_best_lb inp) (n_vtop (gn m5 be))).
        destruct (Thresholds.th_preset_frame inp bk m5) as (F1 & F2 & F3 & F4 & F5 & F6). cbv zeta in F1, F2, F3, F4, F5, F6.
        exists (th_preset inp bk m5), bk. split; [reflexivity|]. split; [congruence|]. split; [congruence|].
        split; [congruence|]. split; [exact F5|]. split; [congruence|]. split; [unfold bk, lb; lia|]. split; [|split].
        + unfold bk_of. rewrite KBE. rewrite ?Ebe. unfold bk. destruct (KC be) as (_ & Ev & _). rewrite Ev. reflexivity.
        + intros x Hx Hlt Hexx Hlel _. apply (Thresholds.th_preset_theta inp Hclean Hnocut Hwidth Hrd).
          * rewrite Hnext5. exact Hx.
          * rewrite N5. exact Hlt.
          * intros Hf. rewrite Hex5, (Hlel Hf). reflexivity.
          * exact Hexx.
        + intros x Hf. rewrite th_preset_other by (rewrite Hnext5; apply Hopen; exact Hf).
          destruct (Thresholds.m5_fields inp Hclean tb tb2 ml HS HX x) as (_ & _ & _ & _ & _ & a6). exact a6.
      - exists m5, (ci_best_lb inp). split; [reflexivity|]. split; [exact L5|]. split; [exact E5|]. split; [exact N5|].
        split; [reflexivity|]. split; [exact C5|]. split; [unfold lb; lia|]. split; [|split].
        + unfold bk_of. rewrite KBE. rewrite ?Ebe. reflexivity.
        + intros x _ _ _ _ (be & Hbe). discriminate.
        + intros x _. destruct (Thresholds.m5_fields inp Hclean tb tb2 ml HS HX x) as (_ & _ & _ & _ & _ & a6). exact a6. }
    destruct Hfold as (m0 & bk & EM & S_lay & S_edg & S_len & S_sk & S_cache & Hbk & Ebk & Hpre & S_ct).
    set (Dr := Thresholds.Drn st_eqb inp tb tb2 ml).
    assert (HPT : PT inp m0 bk m0 []).
    { intros x j _ Hl Hv Hex Hab HjN.
      destruct (terminal_aboveC st_eqb inp Hclean Hnocut Hwidth Hrel Hrd cov c tb tb2 ml HFS HS HX HN m0 S_lay S_sk
                  j x Hl Hv Hex Hab HjN) as (T1 & T2 & T3 & (be & T4 & _)).
      exists bk. split; [|lia]. apply Hpre.
      - exact T1.
      - rewrite <- S_len. apply (PC_range st_eqb inp cov c ml HFS m0 S_lay S_len j x Hl).
      - exact (eq_trans (Thresholds.m5_flag inp Hclean tb tb2 ml HS HX fl_is_exact x (fun _ _ => eq_refl) (fun _ _ => eq_refl) (fun _ _ => eq_refl)) T2).
      - exact T3.
      - exists be. rewrite <- Hbe'. rewrite <- EM0. exact T4. }
    assert (HCO : CacheOKg st_eqb inp B m0 bk Dr (OldC st_eqb c) c (m_cache m0)).
    { intros d s th Hg. left. rewrite S_cache in Hg. exact Hg. }
    destruct (theta_fold_soundC st_eqb st_eqb_spec inp Hrd nv_static nv_some nv_none cov cov_refl cov_sim rub_adm B HB Hguard
                m0 bk Hbk Dr (OldC st_eqb c) c) as (R1 & R2).
    { intros; eapply PC_range; eassumption. }
    { intros; eapply PC_uniq; eassumption. }
    { intros; eapply PC_ord; eassumption. }
    { intros; eapply PC_efrom; eassumption. }
    { intros; eapply PC_depth; eassumption. }
    { intros; eapply PC_SC; eassumption. }
    { intros; eapply PC_rub; eassumption. }
    { intros; eapply PC_cached; eassumption. }
    { intros; eapply PC_cut_ex; eassumption. }
    { intros j x c1 eid; eapply PC_kid; eassumption. }
    { intros; eapply PC_real; eassumption. }
    { intros; eapply PC_vtop; eassumption. }
    { intros; eapply PC_locb; eassumption. }
    { intros; eapply PC_drain; eassumption. }
    { intros; eapply PC_above_ex; eassumption. }
    { exact HPT. }
    { exact HCO. }
    cbv zeta in R1, R2. rewrite <- EM in R2.
    exists ml, m0, bk.
    split; [reflexivity|]. split; [exact HFS|]. split; [exact HS|]. split; [exact HX|]. split; [exact HN|].
    split; [exact S_lay|]. split; [exact S_edg|]. split; [exact S_len|]. split; [exact S_sk|]. split; [exact S_ct|].
    split; [exact Hbk|]. split; [rewrite EM0; exact Ebk|]. rewrite EM0. exact R2.
  Qed.
  (* ---------------------------------------------------------------- the three statements, for [compile] *)
  Theorem C_root_run tb tb2 c ds polls (m : mdd) : N < length c ->
    compile st_eqb inp tb tb2 c ds polls = (m, Compiled) ->
    forall ds' s' r', frun pb rd rs rv ds' = Some (s', r') -> rd + length ds' = N ->
      (r' <= bk_of inp m)%Z \/ CaptC inp m false rd rs rv ds' \/ LostC st_eqb inp c (S rd) r'.
  Proof.
    intros Hcl Hc ds' s' r' Hr Hlen.
    destruct (bridgeC tb tb2 c ds polls m Hcl Hc)
      as (ml & m0 & bk & -> & HFS & HS & HX & HN & S_lay & S_edg & S_len & S_sk & S_ct & Hbk & Ebk & HCO).
    exact (root_runC st_eqb inp Hclean Hnocut Hwidth Hrel Hrd nv_static nv_some nv_none cov cov_refl cov_sim rub_adm B HB Hguard
             c tb tb2 ml m0 bk HFS HS HX HN S_lay S_edg S_len S_sk S_ct Hbk Ebk ds' s' r' Hr Hlen).
  Qed.

  Theorem C_ub_run tb tb2 c ds polls (m : mdd) : N < length c ->
    compile st_eqb inp tb tb2 c ds polls = (m, Compiled) ->
    forall sp ds' s' r', In sp (drain_cutset inp m) ->
      frun pb (sp_depth sp) (sp_state sp) (sp_value sp) ds' = Some (s', r') -> sp_depth sp + length ds' = N ->
      (r' <= lb)%Z \/ LostC st_eqb inp c (S (sp_depth sp)) r' \/ (r' <= sp_ub sp)%Z.
  Proof.
    intros Hcl Hc sp ds' s' r' Hsp Hr Hlen.
    destruct (bridgeC tb tb2 c ds polls m Hcl Hc)
      as (ml & m0 & bk & -> & HFS & HS & HX & HN & S_lay & S_edg & S_len & S_sk & S_ct & Hbk & Ebk & HCO).
    exact (ub_runC st_eqb inp Hclean Hnocut Hwidth Hrel Hrd nv_static nv_some nv_none cov cov_refl cov_sim rub_adm B HB Hguard
             c tb tb2 ml m0 bk HFS HS HX HN S_lay S_edg S_len S_sk S_ct Hbk sp ds' s' r' Hsp Hr Hlen).
  Qed.

  Theorem C_cache_run tb tb2 c ds polls (m : mdd) : N < length c ->
    compile st_eqb inp tb tb2 c ds polls = (m, Compiled) ->
    forall d s th, cget st_eqb (m_cache m) s d = Some th ->
      cget st_eqb c s d = Some th \/
      exists j, d = rd + j /\ (exists pre r, frun pb rd rs rv pre = Some (s, r) /\ length pre = j) /\
        forall v ds' s' v', (IMIN + 2 * B < v)%Z -> (v <= th_value th)%Z -> frun pb d s v ds' = Some (s', v') -> d + length ds' = N ->
          (v' <= bk_of inp m)%Z \/ CaptC inp m (th_explored th) d s v ds' \/ LostC st_eqb inp c (S d) v'.
  Proof.
    intros Hcl Hc d s th Hg.
    destruct (bridgeC tb tb2 c ds polls m Hcl Hc)
      as (ml & m0 & bk & -> & HFS & HS & HX & HN & S_lay & S_edg & S_len & S_sk & S_ct & Hbk & Ebk & HCO).
    exact (cache_runC st_eqb inp Hclean Hnocut Hwidth Hrd B c tb tb2 ml m0 bk HS HX S_len S_sk Ebk HCO d s th Hg).
  Qed.

  Lemma drain_ub_le_best (m : mdd) sp : In sp (drain_cutset inp m) ->
    exists bv, dd_best_value inp m = Some bv /\ (sp_ub sp <= bv)%Z.
  Proof.
    unfold drain_cutset. destruct (dd_best_value inp m) as [bv|]; [|intros []].
    intros Hsp. apply in_flat_map in Hsp. destruct Hsp as (id & _ & Hsp). cbv zeta in Hsp.
    destruct (f_marked _); [|destruct Hsp]. destruct Hsp as [<-|[]]. exists bv. split; [reflexivity|].
    cbn [sp_ub]. apply Z.le_min_r.
  Qed.

  (* an exact diagram: the best value is an exact one *)
  Theorem C_exact_best tb tb2 c ds polls (m : mdd) : N < length c ->
    compile st_eqb inp tb tb2 c ds polls = (m, Compiled) -> dd_is_exact m = true ->
    forall bv, dd_best_value inp m = Some bv -> exists e, dd_best_exact_value inp m = Some e /\ (bv <= e)%Z.
  Proof.
    intros Hcl Hc Hex bv Hbv.
    destruct (compile_unfoldC st_eqb st_eqb_spec inp Hclean Hnodom Hnocut Hwidth nv_some nv_none Hrd tb tb2 c ds polls Hcl)
      as (ml & El & _ & HS & HX & Hcml & Ecomp).
    rewrite Ecomp in Hc. inversion Hc as [Em]. clear Hc. subst m.
    set (mf := finalize st_eqb inp tb tb2 ml) in *.
    destruct (finalize_hdrC st_eqb inp Hclean tb tb2 ml) as (H1 & _ & H3 & H4). cbv zeta in H1, H3, H4. fold mf in H1, H3, H4.
    unfold dd_best_value in Hbv. unfold dd_best_exact_value.
    destruct (m_best mf) as [b|] eqn:Eb; [|cbn [option_map] in Hbv; discriminate Hbv]. cbn [option_map] in Hbv. inversion Hbv; subst bv.
    destruct (m_has_ebp mf) eqn:Eebp.
    - rewrite H4. exists (n_vtop (gn mf b)). split; [reflexivity|apply Z.le_refl].
    - unfold dd_is_exact in Hex. rewrite Eebp, orb_false_r in Hex. rewrite Hex in H1.
      destruct (m_lel ml) as [k|] eqn:Elel; [discriminate|].
      assert (Hb : In b (m_next ml)).
      { symmetry in H3. apply pick_In in H3. apply (argmax_candidates_In inp Hclean) in H3. exact H3. }
      assert (Hxb : is_ex inp ml b = true).
      { apply (Thresholds.all_exact_no_lel inp ml HX b Elel). apply (S_next _ _ HS). exact Hb. }
      destruct (best_exact_geC st_eqb inp Hclean Hnocut Hwidth Hrd tb tb2 ml b HS HX Hb Hxb Eebp) as (be & Hbe & _ & Hle).
      fold mf in Hbe, Hle. rewrite Hbe. exists (n_vtop (gn mf be)). split; [reflexivity|].
      destruct (Thresholds.m5_fields inp Hclean tb tb2 ml HS HX b) as (_ & a2 & _).
      unfold mf at 1. rewrite (mf_fieldC st_eqb inp tb tb2 ml (@n_vtop St) b) by reflexivity. rewrite a2. exact Hle.
  Qed.
End BridgeC.

Local Open Scope nat_scope.


(* ================================================================== 8. _finalize with the cache on: what _compute_thresholds leaves alone *)

(* ================================================================== 12. a restricted compilation that never restricts is the relaxed one *)
Definition rx {St} (i : @cinput St) : @cinput St :=
  {| ci_flavour := ci_flavour i; ci_type := Relaxed; ci_problem := ci_problem i; ci_relax := ci_relax i;
     ci_ranking := ci_ranking i; ci_domcmp := ci_domcmp i; ci_width := ci_width i; ci_root := ci_root i;
     ci_best_lb := ci_best_lb i; ci_use_cache := ci_use_cache i; ci_domrule := ci_domrule i; ci_cutoff := ci_cutoff i |}.

Definition with_ebp {St} (m : @mdd St) (b : bool) : @mdd St :=
  {| m_nodes := m_nodes m; m_edges := m_edges m; m_layers := m_layers m; m_layer_end := m_layer_end m; m_next := m_next m;
     m_curr_depth := m_curr_depth m; m_path := m_path m; m_lel := m_lel m; m_cutset := m_cutset m; m_best := m_best m;
     m_best_exact := m_best_exact m; m_is_exact := m_is_exact m; m_has_ebp := b;
     m_cache := m_cache m; m_dom := m_dom m; m_log := m_log m; m_polls := m_polls m; m_crash := m_crash m |}.

Lemma filter_all {A} (f : A -> bool) (l : list A) : (forall x, In x l -> f x = true) -> filter f l = l.
Proof.
  induction l as [|x l IH]; intros H; [reflexivity|]. cbn [filter]. rewrite (H x (or_introl eq_refl)). f_equal.
  apply IH. intros y Hy. apply H. right; exact Hy.
Qed.

Section TypeTwin.
  Context {St : Type}.
  Variable st_eqb : St -> St -> bool.
  Hypothesis st_eqb_spec : forall a b, st_eqb a b = true <-> a = b.
  Variable inp : @cinput St.
  Hypothesis Hclean : ci_flavour inp = CleanLEL \/ ci_flavour inp = CleanFC.
  Hypothesis Hres : ci_type inp = Restricted.
  Notation inpR := (rx inp).
  Notation mdd := (@mdd St).
  Notation gn := (get_node inp).

  Lemma HcleanR : ci_flavour inpR = CleanLEL \/ ci_flavour inpR = CleanFC.
  Proof. exact Hclean. Qed.

  (* ---------------------------------------------------------------- the loop *)
  Lemma tw_prefilter (m : mdd) l : prefilter st_eqb inpR m l = prefilter st_eqb inp m l.
  Proof. reflexivity. Qed.
  Lemma tw_fwd (m : mdd) l : filter_with_dominance inpR m l = filter_with_dominance inp m l.
  Proof. reflexivity. Qed.
  Lemma tw_expand var (m : mdd) id : expand_node st_eqb inpR var m id = expand_node st_eqb inp var m id.
  Proof. reflexivity. Qed.

  Lemma mark_deleted_lel (m : mdd) l : m_lel (mark_deleted m l) = m_lel m.
  Proof. unfold mark_deleted. apply (fold_left_proj (fun a : mdd => m_lel a)). intros; reflexivity. Qed.

  Lemma note_squash_some (m : mdd) : m_lel (note_squash inp m) <> None.
  Proof.
    unfold note_squash. rewrite (not_pooled inp Hclean). destruct (m_lel m) eqn:E; [rewrite E; discriminate|].
    cbn [m_lel with_lel_exact]. discriminate.
  Qed.

  Lemma restrict_some (m : mdd) l : m_lel (fst (restrict_layer inp m l)) <> None.
  Proof. unfold restrict_layer. cbv zeta. cbn [fst]. rewrite mark_deleted_lel. apply note_squash_some. Qed.

  Lemma squash_res (m : mdd) l :
    squash_if_needed st_eqb inp m l = if Nat.ltb (ci_width inp) (length l) then restrict_layer inp m l else (m, l).
  Proof. unfold squash_if_needed. rewrite Hres. reflexivity. Qed.

  Lemma squash_lel_some (m : mdd) l : m_lel m <> None -> m_lel (fst (squash_if_needed st_eqb inp m l)) <> None.
  Proof. intros H. rewrite squash_res. destruct (Nat.ltb _ _); [apply restrict_some|exact H]. Qed.

  Lemma squash_twin (m : mdd) l : m_lel (fst (squash_if_needed st_eqb inp m l)) = None ->
    squash_if_needed st_eqb inpR m l = squash_if_needed st_eqb inp m l.
  Proof.
    intros H. rewrite squash_res in H |- *. unfold squash_if_needed. cbn [rx ci_type ci_width].
    destruct (Nat.ltb (ci_width inp) (length l)) eqn:E.
    - exfalso. apply (restrict_some m l). exact H.
    - reflexivity.
  Qed.

  Lemma prefilter_lel (m : mdd) l : m_lel (fst (prefilter st_eqb inp m l)) = m_lel m.
  Proof.
    unfold prefilter. destruct (Nat.ltb _ _); [|reflexivity].
    destruct (filter_with_cache_ceq st_eqb inp Hclean l m) as [(_ & _ & _ & _ & E & _) _]. exact E.
  Qed.
  Lemma fwd_lel (m : mdd) l : m_lel (fst (filter_with_dominance inp m l)) = m_lel m.
  Proof. destruct (filter_with_dominance_ceq inp m l) as [(_ & _ & _ & _ & E & _) _]. exact E. Qed.

  Lemma move_lel_some (m : mdd) : m_lel m <> None -> m_lel (fst (move_to_next_layer_clean st_eqb inp m)) <> None.
  Proof.
    intros H. rewrite move_clean_unfold. destruct (m_next m) as [|c0 cs]; [exact H|].
    pose proof (prefilter_lel (with_next m []) (c0 :: cs)) as H1.
    destruct (prefilter st_eqb inp (with_next m []) (c0 :: cs)) as [m1 l1]. cbn [fst] in H1.
    pose proof (fwd_lel m1 l1) as H2. destruct (filter_with_dominance inp m1 l1) as [m2 l2]. cbn [fst] in H2.
    pose proof (squash_lel_some m2 l2) as H3. destruct (squash_if_needed st_eqb inp m2 l2) as [m3 l3]. cbn [fst] in *.
    cbn [m_lel push_layer]. apply H3. rewrite H2, H1. exact H.
  Qed.

  Lemma move_twin (m : mdd) : m_lel (fst (move_to_next_layer_clean st_eqb inp m)) = None ->
    move_to_next_layer_clean st_eqb inpR m = move_to_next_layer_clean st_eqb inp m.
  Proof.
    intros H. rewrite (move_clean_unfold st_eqb inpR). rewrite (move_clean_unfold st_eqb inp) in H |- *.
    destruct (m_next m) as [|c0 cs]; [reflexivity|].
    rewrite tw_prefilter. destruct (prefilter st_eqb inp (with_next m []) (c0 :: cs)) as [m1 l1].
    rewrite tw_fwd. destruct (filter_with_dominance inp m1 l1) as [m2 l2].
    rewrite (squash_twin m2 l2); [reflexivity|].
    destruct (squash_if_needed st_eqb inp m2 l2) as [m3 l3]. cbn [fst] in H |- *. exact H.
  Qed.

  Lemma expand_lel var l (m : mdd) : m_lel (fold_left (expand_node st_eqb inp var) l m) = m_lel m.
  Proof.
    apply (fold_left_proj (fun a : mdd => m_lel a)). intros a x. unfold expand_node. cbv zeta.
    destruct (_ >? _)%Z; [|reflexivity].
    rewrite (fold_left_proj (fun a : mdd => m_lel a)); [reflexivity|].
    intros a' d. unfold branch_on. cbv zeta.
    match goal with |- context [find_next ?a ?b ?c ?d] => destruct (find_next a b c d) end; reflexivity.
  Qed.

  Lemma loop_lel_some : forall fuel (m : mdd), m_lel m <> None -> m_lel (fst (layer_loop st_eqb inp fuel m)) <> None.
  Proof.
    induction fuel as [|fuel IH]; intros m H; [exact H|].
    rewrite layer_loop_iteration. cbv zeta.
    destruct (next_variable _ _ _) as [var|]; [|exact H].
    destruct (_ && _); [exact H|].
    unfold loop_move. rewrite (not_pooled inp Hclean).
    match goal with |- context [move_to_next_layer_clean st_eqb inp ?mm] =>
      pose proof (move_lel_some mm H) as Hmv; destruct (move_to_next_layer_clean st_eqb inp mm) as [m2 ol] end.
    cbn [fst] in Hmv. destruct ol as [l|]; [|exact Hmv].
    apply IH. cbn [m_lel with_depth]. rewrite expand_lel. exact Hmv.
  Qed.

  Lemma loop_twin : forall fuel (m : mdd), m_lel (fst (layer_loop st_eqb inp fuel m)) = None ->
    layer_loop st_eqb inpR fuel m = layer_loop st_eqb inp fuel m.
  Proof.
    induction fuel as [|fuel IH]; intros m H; [reflexivity|].
    rewrite (layer_loop_iteration st_eqb inpR). rewrite (layer_loop_iteration st_eqb inp) in H |- *. cbv zeta in H |- *.
    unfold loop_move in H |- *. rewrite (not_pooled inp Hclean) in H |- *. rewrite (not_pooled inpR HcleanR).
    change (ci_problem inpR) with (ci_problem inp). change (ci_cutoff inpR) with (ci_cutoff inp).
    change (get_node inpR) with (get_node inp).
    match goal with |- context [next_variable ?p ?d ?s] => destruct (next_variable p d s) as [var|] end; [|reflexivity].
    match goal with |- context [if ?c then _ else _] => destruct c end; [reflexivity|].
    match goal with |- context [move_to_next_layer_clean st_eqb inp ?mm] => set (m1 := mm) in * end.
    assert (Hm : m_lel (fst (move_to_next_layer_clean st_eqb inp m1)) = None).
    { destruct (move_to_next_layer_clean st_eqb inp m1) as [m2 [l|]]; cbn [fst] in H |- *; [|exact H].
      destruct (m_lel m2) as [k|] eqn:E2; [exfalso|reflexivity].
      apply (loop_lel_some fuel (with_depth (fold_left (expand_node st_eqb inp var) l m2)
                                   (S (m_curr_depth (fold_left (expand_node st_eqb inp var) l m2))))); [|exact H].
      cbn [m_lel with_depth]. rewrite expand_lel, E2. discriminate. }
    rewrite (move_twin m1 Hm). destruct (move_to_next_layer_clean st_eqb inp m1) as [m2 [l|]]; [|reflexivity].
    change (expand_node st_eqb inpR var) with (expand_node st_eqb inp var). apply IH. exact H.
  Qed.
  (* ---------------------------------------------------------------- _finalize: the only difference is the has_exact_best_path flag *)
  Lemma fold_ebp {A} (f : mdd -> A -> mdd) b : (forall a x, f (with_ebp a b) x = with_ebp (f a x) b) ->
    forall l (m : mdd), fold_left f l (with_ebp m b) = with_ebp (fold_left f l m) b.
  Proof. intros Hf l. induction l as [|x l IH]; intros m; [reflexivity|]. cbn [fold_left]. rewrite Hf. apply IH. Qed.

  Lemma gn_ebp (m : mdd) b x : gn (with_ebp m b) x = gn m x.
  Proof. reflexivity. Qed.
  Lemma ge_ebp (m : mdd) b k : get_edge (with_ebp m b) k = get_edge m k.
  Proof. reflexivity. Qed.
  Lemma upd_ebp (m : mdd) b id f : upd_node (with_ebp m b) id f = with_ebp (upd_node m id f) b.
  Proof. reflexivity. Qed.
  Lemma wle_ebp (m : mdd) b l e : with_lel_exact (with_ebp m b) l e = with_ebp (with_lel_exact m l e) b.
  Proof. reflexivity. Qed.
  Lemma wcs_ebp (m : mdd) b cs : with_cutset (with_ebp m b) cs = with_ebp (with_cutset m cs) b.
  Proof. reflexivity. Qed.

  Lemma lel_cutset_ebp (m : mdd) k b : lel_cutset (with_ebp m b) k = with_ebp (lel_cutset m k) b.
  Proof.
    unfold lel_cutset. cbv zeta. change (m_layers (with_ebp m b)) with (m_layers m).
    destruct (nth_error (m_layers m) k) as [ids|].
    - rewrite (fold_ebp _ b) by (intros; apply upd_ebp).
      match goal with |- context [with_cutset (with_ebp ?X b) ?cs] =>
        change (with_cutset (with_ebp X b) cs) with (with_ebp (with_cutset X (m_cutset X ++ ids)) b) end.
      match goal with |- fold_left ?f (concat (rev (firstn k (m_layers (with_ebp ?X b))))) _ = _ =>
        change (m_layers (with_ebp X b)) with (m_layers X) end.
      apply fold_ebp. intros; apply upd_ebp.
    - change (m_layers (with_ebp m b)) with (m_layers m). apply fold_ebp. intros; apply upd_ebp.
  Qed.

  Lemma frontier_cutset_ebp (m : mdd) b : frontier_cutset inp (with_ebp m b) true = with_ebp (frontier_cutset inp m true) b.
  Proof.
    unfold frontier_cutset. change (bottom_up (with_ebp m b)) with (bottom_up m).
    apply fold_ebp. intros a id. cbv zeta. rewrite gn_ebp.
    destruct (fl_is_exact (n_flags (gn a id))); [apply upd_ebp|].
    apply fold_ebp. intros a' eid. cbv zeta. rewrite ge_ebp, gn_ebp.
    destruct (_ && _); reflexivity.
  Qed.

  Lemma lel_cutset_keeps (m : mdd) k :
    m_lel (lel_cutset m k) = m_lel m /\ m_layers (lel_cutset m k) = m_layers m /\ m_is_exact (lel_cutset m k) = m_is_exact m.
  Proof.
    unfold lel_cutset. cbv zeta.
    rewrite !(fold_left_proj (fun a : mdd => m_lel a)), !(fold_left_proj (fun a : mdd => m_layers a)),
      !(fold_left_proj (fun a : mdd => m_is_exact a)) by (intros; reflexivity).
    destruct (nth_error (m_layers m) k); [|repeat split].
    cbn [m_lel m_layers m_is_exact with_cutset].
    rewrite !(fold_left_proj (fun a : mdd => m_lel a)), !(fold_left_proj (fun a : mdd => m_layers a)),
      !(fold_left_proj (fun a : mdd => m_is_exact a)) by (intros; reflexivity).
    repeat split.
  Qed.

  Lemma frontier_cutset_keeps (m : mdd) :
    m_lel (frontier_cutset inp m true) = m_lel m /\ m_layers (frontier_cutset inp m true) = m_layers m /\
    m_is_exact (frontier_cutset inp m true) = m_is_exact m.
  Proof.
    assert (G : forall (X : Type) (g : mdd -> X), (forall a k f, g (upd_node a k f) = g a) -> (forall a cs, g (with_cutset a cs) = g a) ->
                g (frontier_cutset inp m true) = g m).
    { intros X g G1 G2. unfold frontier_cutset. apply (fold_left_proj g). intros a id. cbv zeta.
      destruct (fl_is_exact _); [apply G1|].
      apply (fold_left_proj g). intros a' eid. cbv zeta. destruct (_ && _); [|reflexivity]. rewrite G1, G2. reflexivity. }
    split; [|split]; apply G; intros; reflexivity.
  Qed.

  Lemma fc_twin (m : mdd) b : m_is_exact m = true -> m_lel m = None ->
    finalize_cutset inpR (with_ebp m b) = with_ebp (finalize_cutset inp m) b /\
    m_lel (finalize_cutset inp m) = Some (length (m_layers m)) /\ m_layers (finalize_cutset inp m) = m_layers m /\
    m_is_exact (finalize_cutset inp m) = true.
  Proof.
    intros Hex Hlel. unfold finalize_cutset. cbv zeta.
    change (ci_flavour inpR) with (ci_flavour inp). change (ci_type inpR) with Relaxed.
    change (m_is_exact (with_ebp m b)) with (m_is_exact m). change (m_lel (with_ebp m b)) with (m_lel m).
    change (m_layers (with_ebp m b)) with (m_layers m).
    rewrite Hres, Hex, Hlel. cbn [is_relaxed_ct orb]. rewrite wle_ebp.
    destruct Hclean as [Hf|Hf]; rewrite Hf.
    - change (m_lel (with_ebp (with_lel_exact m (Some (length (m_layers m))) true) b))
        with (m_lel (with_lel_exact m (Some (length (m_layers m))) true)).
      split; [apply lel_cutset_ebp|].
      destruct (lel_cutset_keeps (with_lel_exact m (Some (length (m_layers m))) true)
                  (opt_default 0 (m_lel (with_lel_exact m (Some (length (m_layers m))) true)))) as (K1 & K2 & K3).
      rewrite K1, K2, K3. repeat split.
    - split; [apply frontier_cutset_ebp|].
      destruct (frontier_cutset_keeps (with_lel_exact m (Some (length (m_layers m))) true)) as (K1 & K2 & K3).
      rewrite K1, K2, K3. repeat split.
  Qed.

  Lemma clb_inp (m : mdd) : compute_local_bounds inp m = m.
  Proof. unfold compute_local_bounds. cbv zeta. rewrite Hres. cbn [is_relaxed_ct]. rewrite andb_false_r. reflexivity. Qed.

  Lemma clb_inpR (m : mdd) : Nat.ltb (opt_default 0 (m_lel m)) (length (m_layers m)) = false -> compute_local_bounds inpR m = m.
  Proof.
    intros H. unfold compute_local_bounds. cbv zeta. change (ci_flavour inpR) with (ci_flavour inp).
    rewrite (not_pooled inp Hclean), H. reflexivity.
  Qed.

  Lemma th_preset_ebp bk (m : mdd) b : th_preset inp bk (with_ebp m b) = with_ebp (th_preset inp bk m) b.
  Proof.
    unfold th_preset. change (m_next (with_ebp m b)) with (m_next m). apply fold_ebp. intros a id. cbv zeta.
    change (m_is_exact (with_ebp a b)) with (m_is_exact a). rewrite gn_ebp.
    match goal with |- context [if ?c then _ else _] => destruct c end; reflexivity.
  Qed.

  Lemma cache_update_ebp (m : mdd) b s d v e : cache_update st_eqb inp (with_ebp m b) s d v e = with_ebp (cache_update st_eqb inp m s d v e) b.
  Proof.
    unfold cache_update. cbv zeta. destruct (ci_use_cache inp); [|reflexivity].
    change (m_cache (add_log (with_ebp m b) (EvCacheUpd s d v e))) with (m_cache (add_log m (EvCacheUpd s d v e))).
    destruct (update_threshold _ _ _ _ _ _); reflexivity.
  Qed.

  Lemma muc_ebp (m : mdd) b id : maybe_update_cache st_eqb inp (with_ebp m b) id = with_ebp (maybe_update_cache st_eqb inp m id) b.
  Proof.
    unfold maybe_update_cache. cbv zeta. rewrite gn_ebp. destruct (n_theta (gn m id)); [|reflexivity].
    destruct (f_above _); [apply cache_update_ebp|reflexivity].
  Qed.

  Lemma th_own_ebp bk (a : mdd) b id : th_own st_eqb inp bk (with_ebp a b) id = with_ebp (th_own st_eqb inp bk a id) b.
  Proof.
    unfold th_own. cbv zeta. rewrite gn_ebp. destruct (negb _); [|reflexivity].
    repeat match goal with |- context [if ?c then _ else _] => destruct c end; rewrite ?upd_ebp; apply muc_ebp.
  Qed.

  Lemma th_prop_ebp (a : mdd) b id : th_prop inp (with_ebp a b) id = with_ebp (th_prop inp a id) b.
  Proof.
    unfold th_prop. rewrite gn_ebp. destruct (n_theta (gn a id)); [|reflexivity].
    apply fold_ebp. intros a' eid. unfold prop_step. cbv zeta. rewrite ge_ebp. reflexivity.
  Qed.

  Lemma th_step_ebp bk (a : mdd) b id : th_step st_eqb inp bk (with_ebp a b) id = with_ebp (th_step st_eqb inp bk a id) b.
  Proof.
    unfold th_step. rewrite gn_ebp. destruct (f_deleted _); [reflexivity|]. rewrite th_own_ebp. apply th_prop_ebp.
  Qed.

  Lemma ct_twin (m : mdd) b : m_is_exact m = true ->
    compute_thresholds st_eqb inpR (with_ebp m b) = with_ebp (compute_thresholds st_eqb inp m) b.
  Proof.
    intros Hex. rewrite (Thresholds.compute_thresholds_unfold st_eqb inpR), (Thresholds.compute_thresholds_unfold st_eqb inp).
    change (ci_type inpR) with Relaxed. change (m_is_exact (with_ebp m b)) with (m_is_exact m).
    change (m_best_exact (with_ebp m b)) with (m_best_exact m).
    rewrite Hres, Hex. cbn [is_relaxed_ct orb].
    change (ci_best_lb inpR) with (ci_best_lb inp). change (th_step st_eqb inpR) with (th_step st_eqb inp).
    change (th_preset inpR) with (th_preset inp). change (get_node inpR) with (get_node inp).
    destruct (m_best_exact m) as [be|].
    - cbv zeta. rewrite gn_ebp. rewrite th_preset_ebp.
      match goal with |- context [bottom_up (with_ebp ?X b)] => change (bottom_up (with_ebp X b)) with (bottom_up X) end.
      apply fold_ebp. intros; apply th_step_ebp.
    - change (bottom_up (with_ebp m b)) with (bottom_up m). apply fold_ebp. intros; apply th_step_ebp.
  Qed.

  Lemma finalize_twin tb (ml : mdd) : Sinv inp ml -> Xs inp ml -> m_lel ml = None ->
    exists e, finalize st_eqb inpR tb tb ml = with_ebp (finalize st_eqb inp tb tb ml) e.
  Proof.
    intros HS HX Hlel. unfold finalize.
    change (finalize_layers inpR ml) with (finalize_layers inp ml).
    change (find_best_node inpR tb tb (finalize_layers inp ml)) with (find_best_node inp tb tb (finalize_layers inp ml)).
    set (m1 := finalize_layers inp ml).
    set (m2 := find_best_node inp tb tb m1).
    destruct (finalize_layers_fields inp Hclean ml) as (F1 & F2 & F3 & F4 & F5). fold m1 in F1, F2, F3, F4, F5.
    (* the best node and the best exact node coincide *)
    assert (Hbest : m_best m2 = m_best_exact m2).
    { unfold m2, find_best_node. cbv zeta. cbn [m_best m_best_exact with_best]. f_equal. f_equal.
      symmetry. apply filter_all. intros x Hx. rewrite F2 in Hx.
      assert (Hlt : x < length (m_nodes ml)) by (apply (S_next _ _ HS); exact Hx).
      pose proof (X_lel_none _ _ _ HX Hlel x Hlt) as Hxx. unfold is_ex in Hxx.
      rewrite (gn_nodes_eq inp ml m1 x F1). exact Hxx. }
    set (e := has_exact_best_path inp (S (length (m_nodes m2))) m2 (m_best m2)).
    assert (E3 : finalize_exact inpR m2 = with_ebp (finalize_exact inp m2) e).
    { unfold finalize_exact. change (ci_flavour inpR) with (ci_flavour inp). change (ci_type inpR) with Relaxed.
      change (has_exact_best_path inpR) with (has_exact_best_path inp).
      rewrite Hres. cbn [is_relaxed_ct andb]. fold e. unfold with_ebp.
      cbn [m_nodes m_edges m_layers m_layer_end m_next m_curr_depth m_path m_lel m_cutset m_best m_best_exact m_is_exact
           m_has_ebp m_cache m_dom m_log m_polls m_crash].
      destruct e; [rewrite Hbest|]; reflexivity. }
    rewrite E3. set (m3 := finalize_exact inp m2).
    assert (Hlel3 : m_lel m3 = None).
    { unfold m3, finalize_exact. cbn [m_lel]. unfold m2, find_best_node. cbn [m_lel with_best]. rewrite F3. exact Hlel. }
    assert (Hex3 : m_is_exact m3 = true).
    { unfold m3, finalize_exact. cbv zeta. cbn [m_is_exact]. rewrite (not_pooled inp Hclean).
      change (m_lel m2) with (m_lel m1). rewrite F3, Hlel. reflexivity. }
    destruct (fc_twin m3 e Hex3 Hlel3) as (T1 & T2 & T3 & T4). rewrite T1.
    rewrite clb_inp. rewrite clb_inpR.
    - exists e. apply ct_twin. exact T4.
    - change (m_lel (with_ebp (finalize_cutset inp m3) e)) with (m_lel (finalize_cutset inp m3)).
      change (m_layers (with_ebp (finalize_cutset inp m3) e)) with (m_layers (finalize_cutset inp m3)).
      rewrite T2, T3. cbn [opt_default]. apply Nat.ltb_irrefl.
  Qed.

  (* ---------------------------------------------------------------- compile *)
  Theorem restricted_exact_twin tb c ds polls (m : mdd) :
    compile st_eqb inp tb tb c ds polls = (m, Compiled) -> m_is_exact m = true ->
    exists e, compile st_eqb inpR tb tb c ds polls = (with_ebp m e, Compiled).
  Proof.
    intros Hc Hex. unfold compile in Hc |- *. cbv zeta in Hc |- *.
    change (initialize inpR c ds polls) with (initialize inp c ds polls).
    change (ci_problem inpR) with (ci_problem inp).
    set (fuel := S (S (nb_vars (ci_problem inp)))) in *.
    destruct (layer_loop_Sinv st_eqb st_eqb_spec inp Hclean fuel c ds polls) as [HS HX].
    destruct (layer_loop st_eqb inp fuel (initialize inp c ds polls)) as [ml e] eqn:El.
    destruct e; [|discriminate|discriminate]. inversion Hc; subst m. clear Hc. cbn [fst] in HS, HX.
    destruct (finalize_hdrC st_eqb inp Hclean tb tb ml) as (H1 & _). cbv zeta in H1. rewrite Hex in H1.
    destruct (m_lel ml) as [k|] eqn:Elel; [discriminate|].
    rewrite loop_twin by (rewrite El; exact Elel). rewrite El.
    destruct (finalize_twin tb ml HS HX Elel) as [e He]. exists e. rewrite He. reflexivity.
  Qed.
End TypeTwin.

Section RestrictedInexact.
  Context {St : Type}.
  Variable st_eqb : St -> St -> bool.
  Hypothesis st_eqb_spec : forall a b, st_eqb a b = true <-> a = b.
  Variable inp : @cinput St.
  Let pb := ci_problem inp.
  Let N := nb_vars pb.
  Hypothesis Hclean : ci_flavour inp = CleanLEL \/ ci_flavour inp = CleanFC.
  Hypothesis Hnodom : ci_domrule inp = None.
  Hypothesis Hnocut : ci_cutoff inp = 0.
  Hypothesis Hwidth : 1 <= ci_width inp.
  Hypothesis Hres : ci_type inp = Restricted.
  Hypothesis Hrd : sp_depth (ci_root inp) <= N.
  Hypothesis nv_some : forall k l, k < N -> exists x, next_variable pb k l = Some x.
  Hypothesis nv_none : forall k l, N <= k -> next_variable pb k l = None.
  Notation mdd := (@mdd St).

  (* a restricted compilation that did restrict leaves the cache alone; it never claims an exact best path *)
  Theorem restricted_facts tb tb2 c ds polls (m : mdd) : N < length c ->
    compile st_eqb inp tb tb2 c ds polls = (m, Compiled) ->
    m_has_ebp m = false /\ (m_is_exact m = false -> m_cache m = c).
  Proof.
    intros Hcl Hc.
    destruct (compile_unfoldC st_eqb st_eqb_spec inp Hclean Hnodom Hnocut Hwidth nv_some nv_none Hrd tb tb2 c ds polls Hcl)
      as (ml & El & _ & HS & HX & Hcml & Ecomp).
    rewrite Ecomp in Hc. inversion Hc as [Em]. clear Hc.
    destruct (finalize_hdrC st_eqb inp Hclean tb tb2 ml) as (_ & H2 & _). cbv zeta in H2.
    split.
    - destruct (m_has_ebp (finalize st_eqb inp tb tb2 ml)) eqn:E; [|reflexivity].
      rewrite (H2 eq_refl) in Hres. discriminate.
    - intros Hne.
      set (m5 := compute_local_bounds inp (finalize_cutset inp (finalize_exact inp
                   (find_best_node inp tb tb2 (finalize_layers inp ml))))).
      assert (EM0 : finalize st_eqb inp tb tb2 ml = compute_thresholds st_eqb inp m5) by reflexivity.
      assert (Hex5 : m_is_exact m5 = false).
      { rewrite <- Hne, EM0. symmetry.
        apply (proj_compute_thresholdsC st_eqb inp (fun a : mdd => m_is_exact a)); intros; reflexivity. }
      rewrite EM0, Thresholds.compute_thresholds_unfold, Hres, Hex5. cbn [is_relaxed_ct orb].
      assert (Hins : MddProgress.insens (fun a : mdd => m_cache a)) by (repeat split).
      rewrite <- Hcml. unfold m5.
      rewrite (MddProgress.ins_compute_local_bounds inp _ Hins).
      rewrite (MddProgress.ins_finalize_cutset inp Hclean _ Hins) by (intros; reflexivity).
      unfold finalize_exact, find_best_node, finalize_layers. cbv zeta. rewrite (not_pooled inp Hclean).
      destruct (m_next ml); reflexivity.
  Qed.
End RestrictedInexact.

Local Open Scope Z_scope.

(* ================================================================== 13. the semantic contract, for one relaxed compilation *)
Section KRel.
  Context {St : Type}.
  Variable st_eqb : St -> St -> bool.
  Hypothesis st_eqb_spec : forall a b, st_eqb a b = true <-> a = b.
  Variable inp : @cinput St.
  Let pb := ci_problem inp.
  Let rlx := ci_relax inp.
  Let root := ci_root inp.
  Let lb := ci_best_lb inp.
  Let N := nb_vars pb.
  Let rd := sp_depth root.
  Let rs := sp_state root.
  Let rv := sp_value root.
  Hypothesis Hclean : ci_flavour inp = CleanLEL \/ ci_flavour inp = CleanFC.
  Hypothesis Hnodom : ci_domrule inp = None.
  Hypothesis Hnocut : ci_cutoff inp = 0%nat.
  Hypothesis Hwidth : (1 <= ci_width inp)%nat.
  Hypothesis Hrel : ci_type inp = Relaxed.
  Hypothesis Hrd : (rd <= N)%nat.
  Hypothesis nv_static : forall k l1 l2, next_variable pb k l1 = next_variable pb k l2.
  Hypothesis nv_some : forall k l, (k < N)%nat -> exists x, next_variable pb k l = Some x.
  Hypothesis nv_none : forall k l, (N <= k)%nat -> next_variable pb k l = None.
  Variable cov : St -> St -> Prop.
  Hypothesis cov_refl : forall s, cov s s.
  Hypothesis cov_sim : forall s s' x v, cov s s' -> In v (domain pb x s') ->
    let d := {| d_var := x; d_val := v |} in
    In v (domain pb x s) /\ cov (transition pb s d) (transition pb s' d) /\
    (transition_cost pb s' (transition pb s' d) d <= transition_cost pb s (transition pb s d) d)%Z.
  Hypothesis merge_cov : forall L s s', In s L -> cov s s' -> cov (merge rlx L) s'.
  Hypothesis relax_ge : forall src dst mg d c, (c <= relax rlx src dst mg d c)%Z.
  Hypothesis rub_adm : forall k s s' h, cov s s' -> H pb k s' = Some h -> (h <= fast_upper_bound rlx s)%Z.
  Variable B : Z.
  Hypothesis HB3 : 3 * B <= IMAX.
  Hypothesis HB0 : 0 <= B.
  Hypothesis Hguard : forall ds s' v', frun pb rd rs rv ds = Some (s', v') -> - B <= v' <= B.

  Variables (tb tb2 : nat) (c : @cache St) (ds : @dstore St Z) (polls : nat) (m : @mdd St).
  Hypothesis Hcl : (N < length c)%nat.
  Hypothesis Hc : compile st_eqb inp tb tb2 c ds polls = (m, Compiled).

  (* o bounds every complete run through the root of this compilation (it is the global optimum) *)
  Variable o : Z.
  Hypothesis Hopt : forall ds' s' v', frun pb rd rs rv ds' = Some (s', v') -> (rd + length ds' = N)%nat -> v' <= o.
  Hypothesis Hlb : lb < o.
  Variable P : nat -> Prop.
  Hypothesis Hanti : forall d d', (d' <= d)%nat -> P d -> P d'.
  Hypothesis HCS : forall d s0 th, (rd < d)%nat -> cget st_eqb c s0 d = Some th ->
    (exists h, H pb d s0 = Some h /\ o <= th_value th + h) -> P d.

  Definition bestv (sp : @subproblem St) : option Z := oadd (sp_value sp) (H pb (sp_depth sp) (sp_state sp)).

  Lemma HB2 : 2 * B <= IMAX.
  Proof. lia. Qed.

  Lemma lost_P dmin v : (rd < dmin)%nat -> o <= v -> LostC st_eqb inp c dmin v -> P dmin.
  Proof.
    intros Hd Hv (d & s0 & th & h & L1 & L2 & L3 & L4). apply (Hanti d dmin L1).
    apply (HCS d s0 th); [lia|exact L2|]. exists h. split; [exact L3|lia].
  Qed.

  Lemma capt_best e d s w ds' s' v' : CaptC inp m e d s w ds' -> frun pb d s w ds' = Some (s', v') -> (d + length ds' = N)%nat ->
    exists sp ox (ds1 : list decision), In sp (drain_cutset inp m) /\ bestv sp = Some ox /\ v' <= ox /\ sp_depth sp = (d + length ds1)%nat /\
      (ds1 = [] -> sp_state sp = s /\ w <= sp_value sp) /\ (e = true -> ds1 <> []).
  Proof.
    intros (sp & ds1 & ds2 & s1 & w1 & C1 & -> & C3 & C4 & C5 & C6 & C7) Hr Hlen.
    fold pb in C3. rewrite frun_app, C3 in Hr. rewrite app_length in Hlen.
    destruct (frun_le_H pb nv_static nv_none ds2 (d + length ds1) s1 w1 s' v' ltac:(lia) Hr) as (h & Hh & Hle).
    exists sp, (sp_value sp + h), ds1. split; [exact C1|].
    split; [unfold bestv; rewrite C5, C4, Hh; reflexivity|]. split; [lia|]. split; [exact C5|]. split; [|exact C7].
    intros ->. cbn [frun] in C3. inversion C3; subst. split; [reflexivity|lia].
  Qed.

  Lemma bk_ge_lb : lb <= bk_of inp m.
  Proof. unfold bk_of, lb. destruct (m_best_exact m); lia. Qed.

  Lemma bk_bev e : dd_best_exact_value inp m = Some e -> e <= bk_of inp m.
  Proof. unfold dd_best_exact_value, bk_of. destruct (m_best_exact m); [|discriminate]. cbn [option_map]. intros E; inversion E. lia. Qed.

  Lemma le_bk_bev : o <= bk_of inp m -> exists e, dd_best_exact_value inp m = Some e /\ o <= e.
  Proof.
    unfold dd_best_exact_value, bk_of. fold lb. destruct (m_best_exact m) as [be|]; [|lia].
    intros Hle. exists (n_vtop (get_node inp m be)). split; [reflexivity|lia].
  Qed.

  Lemma drain_depth x : In x (drain_cutset inp m) -> (rd < sp_depth x <= N)%nat.
  Proof.
    intros Hx. exact (cutset_depthC st_eqb st_eqb_spec inp Hclean Hnodom Hnocut Hwidth nv_some nv_none Hrd
                        tb tb2 c ds polls m Compiled x Hcl Hrel Hc Hx).
  Qed.

  (* (c) a sub-problem that holds o *)
  Theorem R4 : oadd rv (H pb rd rs) = Some o ->
    (exists e, dd_best_exact_value inp m = Some e /\ o <= e) \/
    (exists x ox, In x (drain_cutset inp m) /\ bestv x = Some ox /\ o <= ox) \/ P (S rd).
  Proof.
    intros Hb. destruct (H pb rd rs) as [h|] eqn:Eh; [|discriminate]. cbn [oadd option_map] in Hb. assert (Eo : rv + h = o) by congruence.
    destruct (H_attained pb nv_static nv_some nv_none (N - rd) rd rs rv h eq_refl Hrd Eh) as (ds' & s' & Hr & Hl).
    destruct (C_root_run st_eqb st_eqb_spec inp Hclean Hnodom Hnocut Hwidth Hrel Hrd nv_static nv_some nv_none
                cov cov_refl cov_sim merge_cov relax_ge rub_adm B HB2 Hguard tb tb2 c ds polls m Hcl Hc ds' s' (rv + h) Hr Hl)
      as [H1|[H1|H1]].
    - left. apply le_bk_bev. lia.
    - right; left. destruct (capt_best false rd rs rv ds' s' (rv + h) H1 Hr Hl) as (sp & ox & ds1 & A1 & A2 & A3 & _).
      exists sp, ox. split; [exact A1|]. split; [exact A2|lia].
    - right; right. apply (lost_P (S rd) (rv + h)); [lia|lia|exact H1].
  Qed.

  (* (b) the upper bound of a cut-set node that holds at least o *)
  Theorem R3 x ox : In x (drain_cutset inp m) -> bestv x = Some ox -> o <= ox -> ox <= sp_ub x \/ P (S (sp_depth x)).
  Proof.
    intros Hx Hb Hle. destruct (drain_depth x Hx) as [D1 D2].
    unfold bestv in Hb. destruct (H pb (sp_depth x) (sp_state x)) as [h|] eqn:Eh; [|discriminate].
    cbn [oadd option_map] in Hb. assert (Eo : sp_value x + h = ox) by congruence.
    destruct (H_attained pb nv_static nv_some nv_none (N - sp_depth x) (sp_depth x) (sp_state x) (sp_value x) h eq_refl D2 Eh)
      as (ds' & s' & Hr & Hl).
    destruct (C_ub_run st_eqb st_eqb_spec inp Hclean Hnodom Hnocut Hwidth Hrel Hrd nv_static nv_some nv_none
                cov cov_refl cov_sim merge_cov relax_ge rub_adm B HB2 Hguard tb tb2 c ds polls m Hcl Hc x ds' s' _ Hx Hr Hl)
      as [H1|[H1|H1]].
    - exfalso. fold lb in H1. lia.
    - right. apply (lost_P (S (sp_depth x)) (sp_value x + h)); [lia|lia|exact H1].
    - left. lia.
  Qed.

  Lemma exact_ub x : dd_is_exact m = true -> In x (drain_cutset inp m) ->
    exists e, dd_best_exact_value inp m = Some e /\ sp_ub x <= e.
  Proof.
    intros Hex Hx. destruct (drain_ub_le_best inp m x Hx) as (bv & Hbv & Hle).
    destruct (C_exact_best st_eqb st_eqb_spec inp Hclean Hnodom Hnocut Hwidth Hrd nv_some nv_none tb tb2 c ds polls m Hcl Hc Hex bv Hbv)
      as (e & He & Hle2).
    exists e. split; [exact He|lia].
  Qed.

  (* (a) an exact diagram *)
  Theorem R2 : dd_is_exact m = true -> oadd rv (H pb rd rs) = Some o ->
    (exists e, dd_best_exact_value inp m = Some e /\ o <= e) \/ P (S rd).
  Proof.
    intros Hex Hb. destruct (R4 Hb) as [H1|[(x & ox & X1 & X2 & X3)|H1]]; [left; exact H1| |right; exact H1].
    destruct (R3 x ox X1 X2 X3) as [H2|H2].
    - left. destruct (exact_ub x Hex X1) as (e & He & Hle). exists e. split; [exact He|lia].
    - right. destruct (drain_depth x X1) as [D1 _]. apply (Hanti (S (sp_depth x))); [lia|exact H2].
  Qed.

  (* (d) the entries of the final cache *)
  Theorem RW d s0 th : cget st_eqb (m_cache m) s0 d = Some th ->
    (exists h, H pb d s0 = Some h /\ o <= th_value th + h) ->
    cget st_eqb c s0 d = Some th \/ o <= bk_of inp m \/ P (S d) \/
    (dd_is_exact m = false /\
     exists x ox, In x (drain_cutset inp m) /\ bestv x = Some ox /\ o <= ox /\
       ((d < sp_depth x)%nat \/ (sp_depth x = d /\ sp_state x = s0 /\ must_explore_th (Some th) (sp_value x) = true))).
  Proof.
    intros Hg (h & Hh & Hle).
    destruct (C_cache_run st_eqb st_eqb_spec inp Hclean Hnodom Hnocut Hwidth Hrel Hrd nv_static nv_some nv_none
                cov cov_refl cov_sim merge_cov relax_ge rub_adm B HB2 Hguard tb tb2 c ds polls m Hcl Hc d s0 th Hg)
      as [H1|(j & Ed & (pre & r & Hpre & Hlen) & Hall)]; [left; exact H1|right].
    assert (Ed' : d = (rd + j)%nat) by exact Ed. clear Ed.
    assert (Hpre' : frun pb rd rs rv pre = Some (s0, r)) by exact Hpre. clear Hpre.
    assert (Hall' : forall v ds' s' v', IMIN + 2 * B < v -> v <= th_value th -> frun pb d s0 v ds' = Some (s', v') ->
              (d + length ds' = N)%nat ->
              v' <= bk_of inp m \/ CaptC inp m (th_explored th) d s0 v ds' \/ LostC st_eqb inp c (S d) v') by exact Hall.
    clear Hall. rename Ed' into Ed. rename Hpre' into Hpre. rename Hall' into Hall.
    assert (HdN : (d <= N)%nat).
    { assert (Hl : (rd + length pre <= N)%nat) by exact (MddSim.frun_len_le inp Hnocut Hwidth Hrd nv_none pre rd rs rv _ Hpre Hrd). lia. }
    (* the state of the entry is reachable: its best completion is a run through the root *)
    destruct (H_attained pb nv_static nv_some nv_none (N - d) d s0 r h eq_refl HdN Hh) as (ds1 & s1 & Hr1 & Hl1).
    assert (Hfull : frun pb rd rs rv (pre ++ ds1) = Some (s1, r + h)).
    { rewrite frun_app, Hpre, Hlen, <- Ed. exact Hr1. }
    pose proof (Hopt _ _ _ Hfull ltac:(rewrite app_length; lia)) as Ho.
    destruct (Hguard _ _ _ Hpre) as [Gr _].
    set (t := th_value th) in *.
    assert (Ht : IMIN + 2 * B < t) by (unfold IMIN, IMAX in *; lia).
    destruct (H_attained pb nv_static nv_some nv_none (N - d) d s0 t h eq_refl HdN Hh) as (ds2 & s2 & Hr2 & Hl2).
    destruct (Hall t ds2 s2 (t + h) Ht (Z.le_refl _) Hr2 Hl2) as [H1|[H1|H1]].
    - left. lia.
    - destruct (capt_best (th_explored th) d s0 t ds2 s2 (t + h) H1 Hr2 Hl2) as (sp & ox & dsa & A1 & A2 & A3 & A4 & A5 & A6).
      destruct (dd_is_exact m) eqn:Eex.
      + destruct (R3 sp ox A1 A2 ltac:(lia)) as [H2|H2].
        * left. destruct (exact_ub sp Eex A1) as (e & He & Hle2). pose proof (bk_bev e He). lia.
        * right; left. apply (Hanti (S (sp_depth sp))); [lia|exact H2].
      + right; right. split; [reflexivity|]. exists sp, ox. split; [exact A1|]. split; [exact A2|]. split; [lia|].
        destruct dsa as [|da dsa].
        * right. destruct (A5 eq_refl) as [E1 E2]. split; [rewrite A4; simpl; lia|]. split; [exact E1|].
          unfold must_explore_th. fold t.
          destruct (th_explored th) eqn:Ee; [exfalso; apply (A6 eq_refl); reflexivity|].
          destruct (Z.gtb_spec (sp_value sp) t) as [Hgt|Hng]; [reflexivity|].
          assert (E : sp_value sp = t) by lia. rewrite E, Z.eqb_refl. reflexivity.
        * left. rewrite A4. simpl. lia.
    - right; left. apply (lost_P (S d) (t + h)); [lia|lia|exact H1].
  Qed.
End KRel.

(* ================================================================== 14. KC_cache holds for Mdd.compile *)
Section CacheHolds.
  Context {St : Type}.
  Variable st_eqb : St -> St -> bool.
  Hypothesis st_eqb_spec : forall a b, st_eqb a b = true <-> a = b.
  Variable cfg : @sconfig St.
  Local Notation pb := (sc_problem cfg).
  Local Notation rlx := (sc_relax cfg).
  Local Notation N := (nb_vars (sc_problem cfg)).
  Hypothesis cfg_clean : sc_flavour cfg = CleanLEL \/ sc_flavour cfg = CleanFC.
  Hypothesis cfg_nodom : sc_domrule cfg = None.
  Hypothesis cfg_nocut : sc_cutoff cfg = 0%nat.
  Hypothesis cfg_width : (1 <= sc_width cfg)%nat.
  Hypothesis nv_static : forall k l1 l2, next_variable pb k l1 = next_variable pb k l2.
  Hypothesis nv_some : forall k l, (k < N)%nat -> exists x, next_variable pb k l = Some x.
  Hypothesis nv_none : forall k l, (N <= k)%nat -> next_variable pb k l = None.
  Variable cov : St -> St -> Prop.
  Hypothesis cov_refl : forall s, cov s s.
  Hypothesis cov_sim : forall s s' x v, cov s s' -> In v (domain pb x s') ->
    let d := {| d_var := x; d_val := v |} in
    In v (domain pb x s) /\ cov (transition pb s d) (transition pb s' d) /\
    (transition_cost pb s' (transition pb s' d) d <= transition_cost pb s (transition pb s d) d)%Z.
  Hypothesis merge_cov : forall L s s', In s L -> cov s s' -> cov (merge rlx L) s'.
  Hypothesis relax_ge : forall src dst mg d c, (c <= relax rlx src dst mg d c)%Z.
  Hypothesis rub_adm : forall k s s' h, cov s s' -> H pb k s' = Some h -> (h <= fast_upper_bound rlx s)%Z.
  Variable B : Z.
  Hypothesis HB3 : 3 * B <= IMAX.
  Hypothesis guard0 : forall ds s' v', frun pb 0 (init_state pb) (init_value pb) ds = Some (s', v') -> - B <= v' <= B.

  Local Notation good := (sgood (sc_problem cfg)).
  Local Notation bst := (MddSim.best cfg).

  Lemma B_nonneg : 0 <= B.
  Proof. pose proof (guard0 [] (init_state pb) (init_value pb) eq_refl). lia. Qed.

  Lemma gguard3 n : good n -> forall ds s' v',
    frun pb (sp_depth n) (sp_state n) (sp_value n) ds = Some (s', v') -> - B <= v' <= B.
  Proof. apply sgood_guard. exact guard0. Qed.

  Lemma good_opt n o : good n -> opt_enum pb = Some o -> forall ds' s' v',
    frun pb (sp_depth n) (sp_state n) (sp_value n) ds' = Some (s', v') -> (sp_depth n + length ds' = N)%nat -> v' <= o.
  Proof.
    intros (Hd & ds0 & G1 & _ & G3) Ho ds' s' v' Hr Hl.
    assert (Hfull : frun pb 0 (init_state pb) (init_value pb) (ds0 ++ ds') = Some (s', v')).
    { rewrite frun_app, G3, G1. exact Hr. }
    destruct (frun_le_H pb nv_static nv_none (ds0 ++ ds') 0%nat _ _ s' v' ltac:(rewrite app_length; lia) Hfull) as (h & Hh & Hle).
    unfold opt_enum in Ho. rewrite opt_enum_from_H, Hh in Ho. cbn [oadd option_map] in Ho. inversion Ho. lia.
  Qed.

  Lemma lenC (c : @cache St) : length c = S N -> (N < length c)%nat.
  Proof. intros E. rewrite E. lia. Qed.

  Lemma compiled ct n lb c ds polls m out : (sp_depth n <= N)%nat -> length c = S N ->
    compile st_eqb (mk_input cfg ct n lb) 0 0 c ds polls = (m, out) -> out = Compiled.
  Proof.
    intros Hd Hl Hc.
    exact (proj1 (compile_completesC st_eqb st_eqb_spec (mk_input cfg ct n lb) cfg_clean cfg_nodom cfg_nocut cfg_width
                    nv_some nv_none Hd 0%nat 0%nat c ds polls m out (lenC c Hl) Hc)).
  Qed.

  (* ---------------------------------------------------------------- relaxed compilations *)
  Section Rel.
    Variables (n : @subproblem St) (lb : Z) (c : @cache St) (ds : @dstore St Z) (polls : nat) (m : @mdd St).
    Hypothesis Hg : good n.
    Hypothesis Hd : (sp_depth n <= N)%nat.
    Hypothesis Hl : length c = S N.
    Hypothesis Hc : compile st_eqb (mk_input cfg Relaxed n lb) 0 0 c ds polls = (m, Compiled).
    Variables (o : Z) (P : nat -> Prop).
    Hypothesis Ho : opt_enum pb = Some o.
    Hypothesis Hanti : antitone P.
    Hypothesis HCS : CS st_eqb cfg (sp_depth n) c o P.
    Local Notation inp := (mk_input cfg Relaxed n lb).

    Lemma HCS' : forall d s0 th, (sp_depth n < d)%nat -> cget st_eqb c s0 d = Some th ->
      (exists h, H pb d s0 = Some h /\ o <= th_value th + h) -> P d.
    Proof. intros d s0 th H1 H2 H3. exact (HCS d s0 th H1 H2 H3). Qed.

    Lemma rel4 : lb < o -> bst n = Some o ->
      (exists e, dd_best_exact_value inp m = Some e /\ o <= e) \/
      (exists x ox, In x (drain_cutset inp m) /\ bst x = Some ox /\ o <= ox) \/ P (S (sp_depth n)).
    Proof.
      intros Hlb Hb.
      exact (R4 st_eqb st_eqb_spec inp cfg_clean cfg_nodom cfg_nocut cfg_width eq_refl Hd nv_static nv_some nv_none
               cov cov_refl cov_sim merge_cov relax_ge rub_adm B HB3 B_nonneg (gguard3 n Hg) 0%nat 0%nat c ds polls m (lenC c Hl) Hc
               o Hlb P Hanti HCS' Hb).
    Qed.

    Lemma rel3 x ox : lb < o -> In x (drain_cutset inp m) -> bst x = Some ox -> o <= ox -> ox <= sp_ub x \/ P (S (sp_depth x)).
    Proof.
      intros Hlb Hx Hb Hle.
      exact (R3 st_eqb st_eqb_spec inp cfg_clean cfg_nodom cfg_nocut cfg_width eq_refl Hd nv_static nv_some nv_none
               cov cov_refl cov_sim merge_cov relax_ge rub_adm B HB3 B_nonneg (gguard3 n Hg) 0%nat 0%nat c ds polls m (lenC c Hl) Hc
               o Hlb P Hanti HCS' x ox Hx Hb Hle).
    Qed.

    Lemma rel2 : lb < o -> dd_is_exact m = true -> bst n = Some o ->
      (exists e, dd_best_exact_value inp m = Some e /\ o <= e) \/ P (S (sp_depth n)).
    Proof.
      intros Hlb Hex Hb.
      exact (R2 st_eqb st_eqb_spec inp cfg_clean cfg_nodom cfg_nocut cfg_width eq_refl Hd nv_static nv_some nv_none
               cov cov_refl cov_sim merge_cov relax_ge rub_adm B HB3 B_nonneg (gguard3 n Hg) 0%nat 0%nat c ds polls m (lenC c Hl) Hc
               o Hlb P Hanti HCS' Hex Hb).
    Qed.

    Lemma relW d s0 th : entry st_eqb (m_cache m) d s0 th -> crit cfg o d s0 (th_value th) ->
      entry st_eqb c d s0 th \/ o <= bk_of inp m \/ P (S d) \/
      (dd_is_exact m = false /\
       exists x ox, In x (drain_cutset inp m) /\ bst x = Some ox /\ o <= ox /\
         ((d < sp_depth x)%nat \/ (sp_depth x = d /\ sp_state x = s0 /\ must_explore_th (Some th) (sp_value x) = true))).
    Proof.
      intros He Hcr.
      destruct (Z_lt_le_dec lb o) as [Hlb|Hge].
      - exact (RW st_eqb st_eqb_spec inp cfg_clean cfg_nodom cfg_nocut cfg_width eq_refl Hd nv_static nv_some nv_none
                 cov cov_refl cov_sim merge_cov relax_ge rub_adm B HB3 B_nonneg (gguard3 n Hg) 0%nat 0%nat c ds polls m (lenC c Hl) Hc
                 o (good_opt n o Hg Ho) Hlb P Hanti HCS' d s0 th He Hcr).
      - right; left. unfold bk_of. cbn [mk_input ci_best_lb]. destruct (m_best_exact m); lia.
    Qed.
  End Rel.
  Lemma rx_mk n lb : rx (mk_input cfg Restricted n lb) = mk_input cfg Relaxed n lb.
  Proof. reflexivity. Qed.

  Theorem KC_cache_strong : KC_cache st_eqb cfg.
  Proof.
    split; [|split; [|split]].
    - (* exact diagrams *)
      intros ct n lb c ds polls m out Hct Hg Hd Hl Hc Hex o P Ho Hanti Hb Hlb HCS.
      pose proof (compiled ct n lb c ds polls m out Hd Hl Hc) as ->.
      destruct Hct as [->| ->].
      + destruct (restricted_facts st_eqb st_eqb_spec (mk_input cfg Restricted n lb) cfg_clean cfg_nodom cfg_nocut cfg_width
                    eq_refl Hd nv_some nv_none 0%nat 0%nat c ds polls m (lenC c Hl) Hc) as [Hebp _].
        assert (Hme : m_is_exact m = true).
        { unfold dd_is_exact in Hex. rewrite Hebp, orb_false_r in Hex. exact Hex. }
        destruct (restricted_exact_twin st_eqb st_eqb_spec (mk_input cfg Restricted n lb) cfg_clean eq_refl 0%nat c ds polls m Hc Hme)
          as [e Ht].
        rewrite rx_mk in Ht.
        assert (Hex' : dd_is_exact (with_ebp m e) = true).
        { unfold dd_is_exact. cbn [with_ebp m_is_exact m_has_ebp]. rewrite Hme. reflexivity. }
        pose proof (rel2 n lb c ds polls (with_ebp m e) Hg Hd Hl Ht o P) as R.
        assert (R' : (exists e0, dd_best_exact_value (mk_input cfg Relaxed n lb) (with_ebp m e) = Some e0 /\ o <= e0) \/ P (S (sp_depth n)))
          by (apply R; auto; lia).
        destruct R' as [H1|H1]; [left; exact H1|right; exact H1].
      + pose proof (rel2 n lb c ds polls m Hg Hd Hl Hc o P) as R. apply R; auto. lia.
    - (* upper bounds of the cut-set *)
      intros n lb c ds polls m out Hg Hd Hl Hc Hex x Hx o P Ho Hanti Hb Hlb HCS.
      pose proof (compiled Relaxed n lb c ds polls m out Hd Hl Hc) as ->.
      pose proof (rel3 n lb c ds polls m Hg Hd Hl Hc o P) as R.
      apply (R Hanti HCS x o); auto; lia.
    - (* inexact relaxed diagrams *)
      intros n lb c ds polls m out Hg Hd Hl Hc Hex o P Ho Hanti Hb Hlb HCS.
      pose proof (compiled Relaxed n lb c ds polls m out Hd Hl Hc) as ->.
      pose proof (rel4 n lb c ds polls m Hg Hd Hl Hc o P) as R. apply R; auto. lia.
    - (* the cache *)
      intros ct n lb c ds polls m out Hct Hg Hd Hl Hc o P Ho Hanti HCS d s0 th He Hcr.
      pose proof (compiled ct n lb c ds polls m out Hd Hl Hc) as ->.
      destruct Hct as [->| ->].
      + destruct (restricted_facts st_eqb st_eqb_spec (mk_input cfg Restricted n lb) cfg_clean cfg_nodom cfg_nocut cfg_width
                    eq_refl Hd nv_some nv_none 0%nat 0%nat c ds polls m (lenC c Hl) Hc) as [Hebp Hcache].
        destruct (m_is_exact m) eqn:Eme.
        * destruct (restricted_exact_twin st_eqb st_eqb_spec (mk_input cfg Restricted n lb) cfg_clean eq_refl 0%nat c ds polls m Hc Eme)
            as [e Ht].
          rewrite rx_mk in Ht.
          pose proof (relW n lb c ds polls (with_ebp m e) Hg Hd Hl Ht o P Ho Hanti HCS d s0 th He Hcr) as R.
          destruct R as [H1|[H1|[H1|(Hnex & _)]]].
          -- left. exact H1.
          -- right; left. exact H1.
          -- right; right; left. exact H1.
          -- exfalso. unfold dd_is_exact in Hnex. cbn [with_ebp m_is_exact m_has_ebp] in Hnex. rewrite Eme in Hnex. discriminate.
        * left. unfold entry in He |- *. rewrite (Hcache eq_refl) in He. exact He.
      + pose proof (relW n lb c ds polls m Hg Hd Hl Hc o P Ho Hanti HCS d s0 th He Hcr) as R.
        destruct R as [H1|[H1|[H1|(Hnex & Hx)]]]; auto.
        right; right; right. split; [reflexivity|]. split; [exact Hnex|exact Hx].
  Qed.
End CacheHolds.

(* ================================================================== 15. the theorems *)
Definition cache_off {St} (cfg : @sconfig St) : @sconfig St :=
  {| sc_flavour := sc_flavour cfg; sc_problem := sc_problem cfg; sc_relax := sc_relax cfg;
     sc_ranking := sc_ranking cfg; sc_domcmp := sc_domcmp cfg; sc_domrule := sc_domrule cfg; sc_width := sc_width cfg;
     sc_use_cache := false; sc_nodup := sc_nodup cfg; sc_cutoff := sc_cutoff cfg |}.

Section C09.
  Context {St : Type}.
  Variable st_eqb : St -> St -> bool.
  Hypothesis st_eqb_spec : forall a b, st_eqb a b = true <-> a = b.
  Variable cfg : @sconfig St.
  Local Notation pb := (sc_problem cfg).
  Local Notation rlx := (sc_relax cfg).
  Local Notation N := (nb_vars (sc_problem cfg)).
  (* ---- configuration: clean flavour, THE CACHE ON, no dominance rule, SimpleFringe, width >= 1, no cutoff *)
  Hypothesis cfg_clean : sc_flavour cfg = CleanLEL \/ sc_flavour cfg = CleanFC.
  Hypothesis cfg_cache : sc_use_cache cfg = true.
  Hypothesis cfg_nodom : sc_domrule cfg = None.
  Hypothesis cfg_nodup : sc_nodup cfg = false.
  Hypothesis cfg_width : (1 <= sc_width cfg)%nat.
  Hypothesis cfg_nocut : sc_cutoff cfg = 0%nat.
  (* ---- the user's model *)
  Hypothesis nv_static : forall k l1 l2, next_variable pb k l1 = next_variable pb k l2.
  Hypothesis nv_some : forall k l, (k < N)%nat -> exists x, next_variable pb k l = Some x.
  Hypothesis nv_none : forall k l, (N <= k)%nat -> next_variable pb k l = None.
  Hypothesis Hwf : wf_relaxation cfg.
  Variable D : nat.
  Hypothesis dom_bound : forall x s, (length (domain pb x s) <= D)%nat.
  Variable B : Z.
  Hypothesis HB3 : 3 * B <= IMAX.
  Hypothesis guard0 : forall ds s' v', frun pb 0 (init_state pb) (init_value pb) ds = Some (s', v') -> - B <= v' <= B.

  Lemma B_nonneg0 : 0 <= B.
  Proof. pose proof (guard0 [] (init_state pb) (init_value pb) eq_refl). lia. Qed.
  Lemma HB2' : 2 * B <= IMAX.
  Proof. pose proof B_nonneg0. lia. Qed.

  (* the semantic contract, for a relaxation whose relax returns machine integers, through the clipped relaxation *)
  Lemma KC_cache_clip :
    (forall s d, in_isize (transition_cost pb s (transition pb s d) d)) ->
    (forall src dst mg d c, in_isize c -> in_isize (relax rlx src dst mg d c)) ->
    KC_cache st_eqb (clip_cfg cfg) -> KC_cache st_eqb cfg.
  Proof.
    intros cost_isize relax_isize (C2 & C3 & C4 & CW).
    pose proof (clip_compile_cfg st_eqb cfg cfg_clean cost_isize relax_isize) as Hclip.
    split; [|split; [|split]].
    - intros ct n lb c ds polls m out Hct Hg Hd Hl Hc. rewrite <- Hclip in Hc.
      exact (C2 ct n lb c ds polls m out Hct Hg Hd Hl Hc).
    - intros n lb c ds polls m out Hg Hd Hl Hc. rewrite <- Hclip in Hc.
      exact (C3 n lb c ds polls m out Hg Hd Hl Hc).
    - intros n lb c ds polls m out Hg Hd Hl Hc. rewrite <- Hclip in Hc.
      exact (C4 n lb c ds polls m out Hg Hd Hl Hc).
    - intros ct n lb c ds polls m out Hct Hg Hd Hl Hc. rewrite <- Hclip in Hc.
      exact (CW ct n lb c ds polls m out Hct Hg Hd Hl Hc).
  Qed.

  Theorem KC_cache_holds : KC_cache st_eqb cfg.
  Proof.
    destruct Hwf as (cov & [((W1 & W2 & W3 & W4) & W5) | ((W1 & W2 & W3 & W4) & W5 & W6 & W7)]).
    - exact (KC_cache_strong st_eqb st_eqb_spec cfg cfg_clean cfg_nodom cfg_nocut cfg_width nv_static nv_some nv_none
               cov W1 W2 W3 W5 W4 B HB3 guard0).
    - apply (KC_cache_clip W5 W6).
      exact (KC_cache_strong st_eqb st_eqb_spec (clip_cfg cfg) cfg_clean cfg_nodom cfg_nocut cfg_width nv_static nv_some nv_none
               cov W1 W2 W3 (clip_relax_ge cfg cfg_width W7) W4 B HB3 guard0).
  Qed.

  (* C09 at search level: the sequential solver with the threshold cache returns the optimum, with a feasible solution *)
  Theorem C09_sequential_cache_optimal :
    exists f0, forall fuel, (f0 <= fuel)%nat ->
      let r := maximize st_eqb cfg fuel None in
      r_crash r = false /\ r_outoffuel r = false /\ r_exact r = true /\ r_value r = opt_enum pb /\
      (forall v, opt_enum pb = Some v ->
         r_lb r = v /\ r_ub r = v /\
         exists sol, r_sol r = Some (sort_by dec_var_cmp sol) /\ MddProgress.feasible pb sol v) /\
      (opt_enum pb = None -> r_sol r = None /\ r_lb r = IMIN).
  Proof.
    exact (C09_from_contracts st_eqb cfg cfg_cache cfg_nodup nv_static nv_some nv_none B HB2' guard0 (Kbound cfg D)
             (KC_struct_holds st_eqb st_eqb_spec cfg cfg_clean cfg_nodom cfg_nocut cfg_width nv_static nv_some nv_none
                D dom_bound B HB2' guard0)
             KC_cache_holds).
  Qed.

  (* ... hence the cache does not change the answer *)
  Theorem C09_cache_does_not_change_the_answer :
    exists f0, forall fuel, (f0 <= fuel)%nat ->
      r_value (maximize st_eqb cfg fuel None) = r_value (maximize st_eqb (cache_off cfg) fuel None) /\
      r_lb (maximize st_eqb cfg fuel None) = r_lb (maximize st_eqb (cache_off cfg) fuel None) /\
      r_exact (maximize st_eqb cfg fuel None) = true /\ r_exact (maximize st_eqb (cache_off cfg) fuel None) = true.
  Proof.
    destruct C09_sequential_cache_optimal as [f1 H1].
    destruct (C01_sequential_optimal st_eqb st_eqb_spec (cache_off cfg) cfg_clean eq_refl cfg_nodom cfg_nodup cfg_width
                nv_static nv_some nv_none Hwf D dom_bound B HB2' guard0 cfg_nocut) as [f2 H2].
    exists (Nat.max f1 f2). intros fuel Hf.
    destruct (H1 fuel ltac:(lia)) as (_ & _ & A3 & A4 & A5 & A6).
    destruct (H2 fuel ltac:(lia)) as (_ & _ & B3 & B4 & B5 & B6).
    cbv zeta in *. cbn [cache_off sc_problem] in B4, B5, B6.
    split; [rewrite A4, B4; reflexivity|]. split; [|split; assumption].
    destruct (opt_enum pb) as [v|] eqn:Ev.
    - destruct (A5 v eq_refl) as (-> & _). destruct (B5 v eq_refl) as (-> & _). reflexivity.
    - destruct (A6 eq_refl) as (_ & ->). destruct (B6 eq_refl) as (_ & ->). reflexivity.
  Qed.
End C09.

Local Open Scope Z_scope.

(* ================================================================== 16. non-vacuity: the table family of TableWf.v, cache on *)
Section TableC09.
  Variable ti : tinst.
  Variable C : Z.
  Hypothesis Hwf : t_wf ti C.
  Variable flv : flavour.
  Hypothesis Hflv : flv = CleanLEL \/ flv = CleanFC.
  Variable width : nat.
  Hypothesis Hwidth : (1 <= width)%nat.
  Hypothesis HB3 : 3 * tB ti C <= IMAX.

  (* tb_sconfig ti flv (cache := TRUE) (nodup := false) (dominance := false) width 0 *)
  Theorem C09_table_instances :
    exists f0, forall fuel, (f0 <= fuel)%nat ->
      let r := maximize tstate_eqb (tb_sconfig ti flv true false false width 0) fuel None in
      r_crash r = false /\ r_outoffuel r = false /\ r_exact r = true /\ r_value r = opt_enum (t_problem ti) /\
      (forall v, opt_enum (t_problem ti) = Some v ->
         r_lb r = v /\ r_ub r = v /\
         exists sol, r_sol r = Some (sort_by dec_var_cmp sol) /\ MddProgress.feasible (t_problem ti) sol v) /\
      (opt_enum (t_problem ti) = None -> r_sol r = None /\ r_lb r = IMIN).
  Proof.
    destruct (table_premises ti C Hwf flv Hflv width Hwidth 0%nat)
      as (P1 & P2 & P3 & P4 & P5 & P6 & P7 & P8 & P9 & P10 & P11 & P12 & P13).
    exact (C09_sequential_cache_optimal tstate_eqb P1 (tb_sconfig ti flv true false false width 0) P2 eq_refl P4 P5 P6 eq_refl
             P7 P8 P9 P10 (length (t_trans ti)) P11 (tB ti C) HB3 P13).
  Qed.

  Theorem C09_table_cache_does_not_change_the_answer :
    exists f0, forall fuel, (f0 <= fuel)%nat ->
      r_value (maximize tstate_eqb (tb_sconfig ti flv true false false width 0) fuel None) =
      r_value (maximize tstate_eqb (tb_sconfig ti flv false false false width 0) fuel None).
  Proof.
    destruct (table_premises ti C Hwf flv Hflv width Hwidth 0%nat)
      as (P1 & P2 & P3 & P4 & P5 & P6 & P7 & P8 & P9 & P10 & P11 & P12 & P13).
    destruct (C09_cache_does_not_change_the_answer tstate_eqb P1 (tb_sconfig ti flv true false false width 0) P2 eq_refl P4 P5 P6 eq_refl
                P7 P8 P9 P10 (length (t_trans ti)) P11 (tB ti C) HB3 P13) as [f0 Hf].
    exists f0. intros fuel Hfuel. exact (proj1 (Hf fuel Hfuel)).
  Qed.
End TableC09.

(* an instance on which the cache does prune: 5 variables, 2 base states, width 1, last-exact-layer cut-sets *)
Definition c9_ti : tinst := {|
  t_nvars := 5; t_nbase := 2; t_init := 0; t_initval := 1; t_slack := 0; t_rubkind := 0; t_domkind := 0;
  t_usevalue := false; t_ncoord := 0; t_order := [0; 1; 2; 3; 4]%nat;
  t_trans := [ (0%nat,0,0,1,2); (0%nat,0,1,0,7); (0%nat,1,0,1,-4); (1%nat,0,1,0,-3); (1%nat,1,1,1,8);
               (2%nat,0,0,1,-2); (2%nat,0,0,0,0); (2%nat,0,1,1,1); (2%nat,1,0,1,4);
               (3%nat,0,0,1,0); (3%nat,0,0,0,-2); (4%nat,0,0,1,-1); (4%nat,0,0,0,-3); (4%nat,1,1,1,7) ];
  t_notimp := []; t_rub := []; t_key := []; t_coords := []; t_mergekind := 0; t_pos := []; t_up := [] |}.

Example c9_wf : t_wf c9_ti 8.
Proof. apply t_wfb_spec. vm_compute. reflexivity. Qed.

Example c9_opt : opt_enum (t_problem c9_ti) = Some 12.
Proof. vm_compute. reflexivity. Qed.

Example c9_guard : 3 * tB c9_ti 8 <= IMAX.
Proof. vm_compute. intros H. discriminate H. Qed.

(* by the theorem ... *)
Example c9_C09 :
  exists f0, forall fuel, (f0 <= fuel)%nat ->
    let r := maximize tstate_eqb (tb_sconfig c9_ti CleanLEL true false false 1 0) fuel None in
    r_crash r = false /\ r_outoffuel r = false /\ r_exact r = true /\
    r_value r = Some 12 /\ r_lb r = 12 /\ r_ub r = 12 /\
    r_value r = r_value (maximize tstate_eqb (tb_sconfig c9_ti CleanLEL false false false 1 0) fuel None).
Proof.
  destruct (C09_table_instances c9_ti 8 c9_wf CleanLEL (or_introl eq_refl) 1 (le_n 1) c9_guard) as [f1 H1].
  destruct (C09_table_cache_does_not_change_the_answer c9_ti 8 c9_wf CleanLEL (or_introl eq_refl) 1 (le_n 1) c9_guard) as [f2 H2].
  exists (Nat.max f1 f2). intros fuel Hfuel.
  destruct (H1 fuel ltac:(lia)) as (A1 & A2 & A3 & A4 & A5 & _).
  rewrite c9_opt in A4. destruct (A5 12 c9_opt) as (B1 & B2 & _). cbv zeta.
  split; [exact A1|]. split; [exact A2|]. split; [exact A3|]. split; [exact A4|]. split; [exact B1|]. split; [exact B2|].
  exact (H2 fuel ltac:(lia)).
Qed.

(* ... and by running the executable model: the same optimum, the cache prunes (3 sub-problems explored instead of 4),
   and the executable audit of section 3 (invariant of the search + conclusions of the contracts on the 4 compilations) passes *)
Example c9_run :
  (let r := maximize tstate_eqb (tb_sconfig c9_ti CleanLEL true false false 1 0) 60 None in
   (r_crash r, r_outoffuel r, r_exact r, r_value r, r_lb r, r_ub r, r_explored r),
   let r := maximize tstate_eqb (tb_sconfig c9_ti CleanLEL false false false 1 0) 60 None in
   (r_crash r, r_outoffuel r, r_exact r, r_value r, r_lb r, r_ub r, r_explored r),
   audit tstate_eqb (tb_sconfig c9_ti CleanLEL true false false 1 0) 60)
  = ((false, false, true, Some 12, 12, 12, 3%nat), (false, false, true, Some 12, 12, 12, 4%nat), Some (true, 4%nat, 3%nat)).
Proof. vm_compute. reflexivity. Qed.

Example c9_cache_prunes :
  (r_explored (maximize tstate_eqb (tb_sconfig c9_ti CleanLEL true false false 1 0) 60 None) <
   r_explored (maximize tstate_eqb (tb_sconfig c9_ti CleanLEL false false false 1 0) 60 None))%nat.
Proof. apply Nat.ltb_lt. vm_compute. reflexivity. Qed.

(* ================================================================== the results *)
Check @seq_cache_solver_correct.
Check @C09_from_contracts.
Check @KC_struct_holds.
Check @KC_cache_holds.
Check @C09_sequential_cache_optimal.
Check @C09_cache_does_not_change_the_answer.
Check @C09_table_instances.
Print Assumptions C09_from_contracts.
Print Assumptions KC_struct_holds.
Print Assumptions KC_cache_holds.
Print Assumptions C09_sequential_cache_optimal.
Print Assumptions C09_cache_does_not_change_the_answer.
Print Assumptions C09_table_instances.
Print Assumptions c9_C09.
