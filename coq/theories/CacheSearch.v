(* CacheSearch.v — C09, search level: the SEQUENTIAL solver with the threshold cache ON returns the optimum.
   (see the summary comment at the end of the file for the list of results and what is assumed where) *)
Require Import DDO.Base DDO.Fringe DDO.DP DDO.Cache DDO.Dom DDO.Mdd DDO.MddStruct DDO.MddExact DDO.Solver DDO.SolverProofs.
Require Import DDO.MddProgress DDO.MddSim DDO.Assembly DDO.Table DDO.Run DDO.TableWf DDO.Thresholds.
From Coq Require Import Lia List Arith ZArith Bool Permutation.
Import ListNotations.
Local Open Scope Z_scope.

(* ================================================================== 1. the cache, seen through [cget] *)
Section CacheFacts.
  Context {St : Type}.
  Variable eqb : St -> St -> bool.
  Hypothesis eqb_spec : forall a b, eqb a b = true <-> a = b.

  (* the threshold currently recorded for (state s0, depth d) *)
  Definition entry (c : @cache St) (d : nat) (s0 : St) (th : threshold) : Prop := cget eqb c s0 d = Some th.

  Lemma entry_fun c d s0 th th' : entry c d s0 th -> entry c d s0 th' -> th = th'.
  Proof. unfold entry. intros H1 H2. congruence. Qed.

  Lemma entry_clear_layer c d c' d' s0 th :
    clear_layer c d = Some c' -> entry c' d' s0 th -> entry c d' s0 th.
  Proof.
    unfold clear_layer, entry, cget. destruct (nth_error c d) as [l0|] eqn:E; [|discriminate].
    intros H; inversion H; subst c'.
    destruct (Nat.eq_dec d d') as [->|Hne].
    - rewrite (nth_error_upd_nth_same _ _ _ _ E). simpl. discriminate.
    - rewrite nth_error_upd_nth_other by exact Hne. auto.
  Qed.

  Lemma clear_layer_length (c : @cache St) d c' : clear_layer c d = Some c' -> length c' = length c.
  Proof.
    unfold clear_layer. destruct (nth_error c d); [|discriminate]. intros H; inversion H. apply upd_nth_length.
  Qed.

  Lemma clear_layer_some (c : @cache St) d : (d < length c)%nat -> exists c', clear_layer c d = Some c'.
  Proof.
    intros H. unfold clear_layer. destruct (nth_error c d) eqn:E; [eauto|]. apply nth_error_None in E. lia.
  Qed.

  Lemma must_explore_some c s d v : (d < length c)%nat -> exists b, must_explore eqb c s d v = Some b.
  Proof.
    intros H. unfold must_explore, get_threshold. destruct (nth_error c d) eqn:E; [simpl; eauto|].
    apply nth_error_None in E. lia.
  Qed.

  Lemma must_explore_false c s d v : must_explore eqb c s d v = Some false ->
    exists th, entry c d s th /\ must_explore_th (Some th) v = false.
  Proof.
    unfold must_explore, get_threshold, entry, cget. destruct (nth_error c d) as [l|]; [|discriminate].
    simpl. destruct (lget eqb l s) as [th|]; simpl; intros H; [|discriminate].
    exists th. split; [reflexivity|]. inversion H. reflexivity.
  Qed.

  Lemma must_explore_th_false th v : must_explore_th (Some th) v = false -> v <= th_value th.
  Proof.
    simpl. intros H. apply orb_false_iff in H. destruct H as [H _].
    rewrite Z.gtb_ltb in H. apply Z.ltb_ge in H. exact H.
  Qed.

  Lemma lget_In (l : @layer St) s th : lget eqb l s = Some th -> In (s, th) l.
  Proof.
    induction l as [|[k t] l IH]; simpl; [discriminate|].
    destruct (eqb k s) eqn:E.
    - intros H; inversion H; subst. apply eqb_spec in E. subst. left; reflexivity.
    - intros H. right. apply IH; exact H.
  Qed.

  Lemma entry_In c d s0 th : entry c d s0 th -> exists l, nth_error c d = Some l /\ In (s0, th) l.
  Proof.
    unfold entry, cget. destruct (nth_error c d) as [l|]; [|discriminate]. intros H. exists l. split; [reflexivity|].
    apply lget_In; exact H.
  Qed.
End CacheFacts.

(* ================================================================== 2. the solver-level argument, from per-compilation contracts *)
Section CacheSolver.
  Context {St : Type}.
  Variable st_eqb : St -> St -> bool.
  Hypothesis st_eqb_spec : forall a b, st_eqb a b = true <-> a = b.
  Variable cfg : @sconfig St.
  Let pb := sc_problem cfg.
  Let N := nb_vars pb.

  Hypothesis cfg_cache : sc_use_cache cfg = true.
  Hypothesis cfg_nodup : sc_nodup cfg = false.

  (* ---------------- abstract semantics (as in SolverProofs.v; [best] is the concrete value + Bellman value) *)
  Variable good : @subproblem St -> Prop.
  Variable feasible : list decision -> Z -> Prop.
  Notation best := (MddSim.best cfg).
  Notation OPT := (SolverProofs.OPT cfg (MddSim.best cfg)).
  Notation entry := (entry st_eqb).

  Hypothesis good_root : good (root_node cfg).
  Hypothesis feasible_le_opt : forall sol v, feasible sol v -> exists o, OPT = Some o /\ v <= o.
  Hypothesis opt_in_isize : forall o, OPT = Some o -> IMIN < o <= IMAX.
  Hypothesis best_le_opt : forall n v o, good n -> best n = Some v -> OPT = Some o -> v <= o.
  Hypothesis good_set_ub : forall c u, good c -> good (set_ub c u).

  Lemma best_set_ub (c : @subproblem St) u : best (set_ub c u) = best c.
  Proof. reflexivity. Qed.

  (* ---------------- the vocabulary of the contracts *)
  (* the entry (s0, d) -> t is CRITICAL for the value o: arriving in s0 at depth d with value t could still reach o *)
  Definition crit (o : Z) (d : nat) (s0 : St) (t : Z) : Prop := exists h, H pb d s0 = Some h /\ o <= t + h.
  Definition antitone (P : nat -> Prop) : Prop := forall d d', (d' <= d)%nat -> P d -> P d'.
  (* the cache c is sound below depth k w.r.t. the value o: every critical entry deeper than k is vouched for by P *)
  Definition CS (k : nat) (c : @cache St) (o : Z) (P : nat -> Prop) : Prop :=
    forall d s0 th, (k < d)%nat -> entry c d s0 th -> crit o d s0 (th_value th) -> P d.

  Variable M : nat.

  Hypothesis KC0 : forall ct n lb c ds polls m out,
    dd_ct ct -> good n -> (sp_depth n <= N)%nat -> length c = S N ->
    compile st_eqb (mk_input cfg ct n lb) 0 0 c ds polls = (m, out) ->
    out = Compiled /\ m_crash m = false /\ length (m_cache m) = S N.
  Hypothesis KC1 : forall ct n lb c ds polls m out,
    dd_ct ct -> good n -> (sp_depth n <= N)%nat -> length c = S N ->
    compile st_eqb (mk_input cfg ct n lb) 0 0 c ds polls = (m, out) ->
    forall v, dd_best_exact_value (mk_input cfg ct n lb) m = Some v ->
    exists sol, dd_best_exact_solution (mk_input cfg ct n lb) m = Some sol /\ feasible sol v.
  Hypothesis KC2 : forall ct n lb c ds polls m out,
    dd_ct ct -> good n -> (sp_depth n <= N)%nat -> length c = S N ->
    compile st_eqb (mk_input cfg ct n lb) 0 0 c ds polls = (m, out) ->
    dd_is_exact m = true ->
    forall o P, OPT = Some o -> antitone P -> best n = Some o -> o > lb -> CS (sp_depth n) c o P ->
    (exists e, dd_best_exact_value (mk_input cfg ct n lb) m = Some e /\ o <= e) \/ P (S (sp_depth n)).
  Hypothesis KC3_good : forall n lb c ds polls m out,
    good n -> (sp_depth n <= N)%nat -> length c = S N ->
    compile st_eqb (mk_input cfg Relaxed n lb) 0 0 c ds polls = (m, out) ->
    dd_is_exact m = false ->
    forall x, In x (drain_cutset (mk_input cfg Relaxed n lb) m) -> good x.
  Hypothesis KC3_depth : forall n lb c ds polls m out,
    good n -> (sp_depth n <= N)%nat -> length c = S N ->
    compile st_eqb (mk_input cfg Relaxed n lb) 0 0 c ds polls = (m, out) ->
    dd_is_exact m = false ->
    forall x, In x (drain_cutset (mk_input cfg Relaxed n lb) m) -> (sp_depth n < sp_depth x <= N)%nat.
  Hypothesis KC3_ub : forall n lb c ds polls m out,
    good n -> (sp_depth n <= N)%nat -> length c = S N ->
    compile st_eqb (mk_input cfg Relaxed n lb) 0 0 c ds polls = (m, out) ->
    dd_is_exact m = false ->
    forall x, In x (drain_cutset (mk_input cfg Relaxed n lb) m) ->
    forall o P, OPT = Some o -> antitone P -> best x = Some o -> o > lb -> CS (sp_depth n) c o P ->
    o <= sp_ub x \/ P (S (sp_depth x)).
  Hypothesis KC4 : forall n lb c ds polls m out,
    good n -> (sp_depth n <= N)%nat -> length c = S N ->
    compile st_eqb (mk_input cfg Relaxed n lb) 0 0 c ds polls = (m, out) ->
    dd_is_exact m = false ->
    forall o P, OPT = Some o -> antitone P -> best n = Some o -> o > lb -> CS (sp_depth n) c o P ->
    (exists e, dd_best_exact_value (mk_input cfg Relaxed n lb) m = Some e /\ o <= e) \/
    (exists x ox, In x (drain_cutset (mk_input cfg Relaxed n lb) m) /\ best x = Some ox /\ o <= ox) \/
    P (S (sp_depth n)).
  Hypothesis KC5 : forall n lb c ds polls m out,
    good n -> (sp_depth n <= N)%nat -> length c = S N ->
    compile st_eqb (mk_input cfg Relaxed n lb) 0 0 c ds polls = (m, out) ->
    dd_is_exact m = false ->
    (length (drain_cutset (mk_input cfg Relaxed n lb) m) <= M)%nat.
  (* what the compilation leaves in the cache: every critical entry is an old one, or hopeless (o <= best known), or vouched
     for by P strictly deeper, or (relaxed, inexact diagram) covered by a sub-problem of the cut-set that it does not reject *)
  Hypothesis KCW : forall ct n lb c ds polls m out,
    dd_ct ct -> good n -> (sp_depth n <= N)%nat -> length c = S N ->
    compile st_eqb (mk_input cfg ct n lb) 0 0 c ds polls = (m, out) ->
    forall o P, OPT = Some o -> antitone P -> CS (sp_depth n) c o P ->
    forall d s0 th, entry (m_cache m) d s0 th -> crit o d s0 (th_value th) ->
      entry c d s0 th \/ o <= bk_of (mk_input cfg ct n lb) m \/ P (S d) \/
      (ct = Relaxed /\ dd_is_exact m = false /\
       exists x ox, In x (drain_cutset (mk_input cfg ct n lb) m) /\ best x = Some ox /\ o <= ox /\
         ((d < sp_depth x)%nat \/
          (sp_depth x = d /\ sp_state x = s0 /\ must_explore_th (Some th) (sp_value x) = true))).

  (* ------------------------------------------------------------------ SimpleFringe *)
  Lemma fr_len_simpleC s : fr_len cfg s = length (s_simple s).
  Proof. unfold fr_len. rewrite cfg_nodup. reflexivity. Qed.

  Lemma fr_push_simpleC s n :
    fr_push st_eqb cfg s n =
    upd_s s (n :: s_simple s) (s_nodup s) (s_explored s) (s_open s) (s_fal s) (s_lb s) (s_ub s) (s_sol s) (s_abort s)
          (s_cache s) (s_dom s) (s_polls s) (s_crash s) (s_tie s) (s_compiles s).
  Proof. unfold fr_push. rewrite cfg_nodup. reflexivity. Qed.

  Lemma fr_pop_simpleC s :
    fr_pop st_eqb cfg s =
    match pq_pop cfg (s_simple s) with
    | None => (s, None)
    | Some (x, rest) => (upd_s s rest (s_nodup s) (s_explored s) (s_open s) (s_fal s) (s_lb s) (s_ub s) (s_sol s)
                         (s_abort s) (s_cache s) (s_dom s) (s_polls s) (s_crash s) (s_tie s) (s_compiles s), Some x)
    end.
  Proof. unfold fr_pop. rewrite cfg_nodup. reflexivity. Qed.

  (* the abstract priority queue pops an element whose upper bound is maximal (MaxUB compares sp_ub first) *)
  Lemma pq_pop_maxC l x rest : pq_pop cfg l = Some (x, rest) -> forall y, In y l -> sp_ub y <= sp_ub x.
  Proof.
    revert x rest; induction l as [|z l IH]; intros x rest Hp; [discriminate|].
    cbn [pq_pop] in Hp. destruct (pq_pop cfg l) as [[y r]|] eqn:E.
    - specialize (IH _ _ eq_refl).
      destruct (is_gt (maxub_cmp (sc_ranking cfg) z y)) eqn:G; injection Hp as <- <-; intros u [Hu|Hu]; subst.
      + lia.
      + specialize (IH _ Hu). unfold maxub_cmp, cmp_then, Zcmp in G.
        destruct (sp_ub z ?= sp_ub y) eqn:C; try discriminate.
        * apply Z.compare_eq in C. lia.
        * apply Z.compare_gt_iff in C. lia.
      + unfold maxub_cmp, cmp_then, Zcmp in G.
        destruct (sp_ub u ?= sp_ub y) eqn:C.
        * apply Z.compare_eq in C. lia.
        * assert (sp_ub u < sp_ub y) by exact C. lia.
        * discriminate.
      + apply IH. exact Hu.
    - injection Hp as <- <-. apply pq_pop_none in E. subst l. intros u [Hu|[]]. subst. lia.
  Qed.

  (* ------------------------------------------------------------------ invariant *)
  Notation Core := (SolverProofs.Core cfg good feasible).
  Notation wt := (SolverProofs.wt cfg M).
  Notation Phi := (SolverProofs.Phi cfg M).

  (* y is an open sub-problem that still holds the optimum o, with an upper bound that does not hide it *)
  Definition Wit (o : Z) (l : list (@subproblem St)) (y : @subproblem St) : Prop :=
    In y l /\ best y = Some o /\ o <= sp_ub y.
  Definition Below (o : Z) (l : list (@subproblem St)) (d : nat) : Prop :=
    exists y, Wit o l y /\ (d <= sp_depth y)%nat.
  (* the critical entry (s0, d) -> th is justified: a witness strictly deeper, or at the same (state, depth) and NOT rejected *)
  Definition Just (o : Z) (l : list (@subproblem St)) (d : nat) (s0 : St) (th : threshold) : Prop :=
    exists y, Wit o l y /\
      ((d < sp_depth y)%nat \/ (sp_depth y = d /\ sp_state y = s0 /\ must_explore_th (Some th) (sp_value y) = true)).

  Definition ComplC (lb : Z) (l : list (@subproblem St)) : Prop :=
    forall o, OPT = Some o -> o <= lb \/ exists y, Wit o l y.
  Definition CacheInv (c : @cache St) (lb : Z) (l : list (@subproblem St)) : Prop :=
    forall o, OPT = Some o -> lb < o ->
    forall d s0 th, entry c d s0 th -> crit o d s0 (th_value th) -> Just o l d s0 th.

  Definition InvC (s : @sstate St) : Prop :=
    Core s /\ length (s_cache s) = S N /\ ComplC (s_lb s) (s_simple s) /\ CacheInv (s_cache s) (s_lb s) (s_simple s).

  Lemma Below_antitone o l : antitone (Below o l).
  Proof. intros d d' Hle (y & Hy & Hd). exists y. split; [exact Hy|lia]. Qed.

  Lemma Below_Just o l d s0 th : Below o l (S d) -> Just o l d s0 th.
  Proof. intros (y & Hy & Hd). exists y. split; [exact Hy|left; lia]. Qed.

  Lemma Wit_incl o l l' y : incl l l' -> Wit o l y -> Wit o l' y.
  Proof. intros Hi (H1 & H2 & H3). split; [apply Hi; exact H1|auto]. Qed.

  Lemma Below_incl o l l' d : incl l l' -> Below o l d -> Below o l' d.
  Proof. intros Hi (y & Hy & Hd). exists y. split; [eapply Wit_incl; eauto|exact Hd]. Qed.

  Lemma Just_incl o l l' d s0 th : incl l l' -> Just o l d s0 th -> Just o l' d s0 th.
  Proof. intros Hi (y & Hy & Hd). exists y. split; [eapply Wit_incl; eauto|exact Hd]. Qed.

  (* the node n leaves the fringe; whatever it held is now held strictly deeper *)
  Lemma Just_transfer o l l2 n d s0 th :
    incl l l2 -> (best n = Some o -> o <= sp_ub n -> Below o l2 (S (sp_depth n))) ->
    Just o (n :: l) d s0 th -> Just o l2 d s0 th.
  Proof.
    intros Hi Hn (y & (Hy1 & Hy2 & Hy3) & Hd). destruct Hy1 as [<-|Hy1].
    - destruct (Hn Hy2 Hy3) as (y' & Hy' & Hd'). exists y'. split; [exact Hy'|]. left.
      destruct Hd as [Hd|(Hd & _)]; lia.
    - exists y. split; [split; [apply Hi; exact Hy1|auto]|exact Hd].
  Qed.

  Lemma Compl_transfer lb lb2 l l2 n :
    incl l l2 -> lb <= lb2 ->
    (forall o, OPT = Some o -> lb2 < o -> best n = Some o -> o <= sp_ub n -> Below o l2 (S (sp_depth n))) ->
    ComplC lb (n :: l) -> ComplC lb2 l2.
  Proof.
    intros Hi Hlb Hn HC o Ho. destruct (Z_le_gt_dec o lb2) as [Hle|Hgt]; [left; exact Hle|].
    destruct (HC o Ho) as [Hle|(y & (Hy1 & Hy2 & Hy3))]; [lia|]. right.
    destruct Hy1 as [<-|Hy1].
    - destruct (Hn o Ho ltac:(lia) Hy2 Hy3) as (y' & Hy' & _). exists y'. exact Hy'.
    - exists y. split; [apply Hi; exact Hy1|auto].
  Qed.

  (* ------------------------------------------------------------------ the observable part of a state, cache included *)
  Definition viewC (s : @sstate St) :=
    (s_simple s, s_open s, s_lb s, s_sol s, s_abort s, s_crash s).

  Lemma viewC_inv s s' : viewC s' = viewC s ->
    s_simple s' = s_simple s /\ s_open s' = s_open s /\ s_lb s' = s_lb s /\ s_sol s' = s_sol s /\
    s_abort s' = s_abort s /\ s_crash s' = s_crash s.
  Proof. unfold viewC; intros H; inversion H; auto 10. Qed.

  (* ------------------------------------------------------------------ get_workload *)
  Lemma clean_cache_loop_spec fuel : forall s,
    (forall d, (d <= N)%nat -> exists k, nth_error (s_open s) d = Some k) -> length (s_cache s) = S N ->
    viewC (clean_cache_loop cfg fuel s) = viewC s /\ length (s_cache (clean_cache_loop cfg fuel s)) = S N /\
    (forall d s0 th, entry (s_cache (clean_cache_loop cfg fuel s)) d s0 th -> entry (s_cache s) d s0 th).
  Proof.
    induction fuel as [|fuel IH]; intros s Hop Hlen; cbn [clean_cache_loop]; [auto|].
    destruct (Nat.ltb (s_fal s) (nb_vars (sc_problem cfg))) eqn:E; [|auto].
    apply Nat.ltb_lt in E. destruct (Hop (s_fal s)) as [k Hk]; [unfold N, pb; lia|].
    rewrite Hk. destruct k; [|auto]. rewrite cfg_cache.
    destruct (clear_layer_some (s_cache s) (s_fal s)) as [c' Hc']; [rewrite Hlen; unfold N, pb; lia|].
    rewrite Hc'.
    match goal with |- context [clean_cache_loop cfg fuel ?s1] => destruct (IH s1) as (I1 & I2 & I3) end.
    - exact Hop.
    - cbn [s_cache upd_s]. rewrite (clear_layer_length _ _ _ Hc'). exact Hlen.
    - split; [rewrite I1; reflexivity|]. split; [exact I2|].
      intros d s0 th He. apply I3 in He. cbn [s_cache upd_s] in He. eapply entry_clear_layer; eauto.
  Qed.

  Lemma get_workload_specC s : Core s -> length (s_cache s) = S N ->
    (s_simple s = [] /\ exists s1, get_workload st_eqb cfg s = (s1, WComplete) /\
       s_simple s1 = [] /\ s_crash s1 = false /\ s_abort s1 = false /\ s_lb s1 = s_lb s /\
       s_sol s1 = s_sol s /\ s_ub s1 = s_lb s)
    \/ (exists x rest s1, get_workload st_eqb cfg s = (s1, WItem x) /\ Permutation (s_simple s) (x :: rest) /\
         s_simple s1 = rest /\ Core s1 /\ s_lb s1 = s_lb s /\ length (s_cache s1) = S N /\
         (forall d s0 th, entry (s_cache s1) d s0 th -> entry (s_cache s) d s0 th) /\
         (forall y, In y (s_simple s) -> sp_ub y <= sp_ub x)).
  Proof.
    intros (Hcr & Hab & Hinc & Hfr & Hop) Hlen.
    unfold get_workload.
    set (sc := clean_cache_loop cfg (S (nb_vars (sc_problem cfg))) s).
    destruct (clean_cache_loop_spec (S (nb_vars (sc_problem cfg))) s) as (Hv & Hlc & Hent).
    { intros d Hd. eexists. apply Hop. exact Hd. }
    { exact Hlen. }
    fold sc in Hv, Hlc, Hent.
    apply viewC_inv in Hv. destruct Hv as (V1 & V2 & V3 & V4 & V5 & V6).
    rewrite fr_len_simpleC, V1.
    destruct (s_simple s) as [|y l] eqn:El.
    - left. split; [reflexivity|]. eexists. split; [reflexivity|].
      cbn [s_simple s_crash s_abort s_lb s_sol s_ub upd_s]. rewrite V3, V4, V5, V6. auto 10.
    - right. cbn [length Nat.eqb]. rewrite V5, Hab. rewrite fr_pop_simpleC, V1.
      destruct (pq_pop cfg (y :: l)) as [[x rest]|] eqn:Ep; [|apply pq_pop_none in Ep; discriminate].
      pose proof (pq_pop_perm _ _ _ _ Ep) as Hperm.
      assert (Hx : In x (y :: l)). { eapply Permutation_in; [apply Permutation_sym; exact Hperm|]. left; reflexivity. }
      destruct (Hfr x Hx) as [Hgx Hdx].
      cbn [s_open upd_s]. rewrite V2, (Hop _ Hdx).
      rewrite (cnt_perm _ _ _ Hperm), cnt_cons_same.
      exists x, rest. eexists. split; [reflexivity|]. split; [exact Hperm|].
      cbn [s_simple s_lb s_cache upd_s]. split; [reflexivity|].
      split; [|split; [exact V3|split; [exact Hlc|split; [exact Hent|exact (pq_pop_maxC _ _ _ Ep)]]]].
      unfold SolverProofs.Core. cbn [s_simple s_crash s_abort s_lb s_sol s_open upd_s].
      rewrite ?V2, ?V3, ?V4, ?V5, ?V6. split; [exact Hcr|]. split; [exact Hab|]. split; [exact Hinc|]. split.
      + intros n Hn. apply Hfr. eapply Permutation_in; [apply Permutation_sym; exact Hperm|]. right; exact Hn.
      + intros d Hd. destruct (Nat.eq_dec (sp_depth x) d) as [Heq|Hne].
        * subst d. erewrite nth_error_upd_nth_same; [reflexivity|]. rewrite (Hop _ Hd).
          rewrite (cnt_perm _ _ _ Hperm), cnt_cons_same. reflexivity.
        * rewrite nth_error_upd_nth_other by exact Hne. rewrite (Hop _ Hd).
          rewrite (cnt_perm _ _ _ Hperm), cnt_cons_other by exact Hne. reflexivity.
  Qed.

  (* ------------------------------------------------------------------ compilation + incumbent update *)
  Lemma run_compile_specC s ct n s' inp m o :
    run_compile st_eqb cfg s ct n = (s', inp, m, o) ->
    inp = mk_input cfg ct n (s_lb s) /\
    compile st_eqb (mk_input cfg ct n (s_lb s)) 0 0 (s_cache s) (s_dom s) (s_polls s) = (m, o) /\
    s_simple s' = s_simple s /\ s_open s' = s_open s /\ s_lb s' = s_lb s /\ s_sol s' = s_sol s /\
    s_abort s' = s_abort s /\ s_crash s' = (s_crash s || m_crash m)%bool /\ s_cache s' = m_cache m.
  Proof.
    unfold run_compile.
    destruct (compile st_eqb (mk_input cfg ct n (s_lb s)) 0 0 (s_cache s) (s_dom s) (s_polls s)) as [m0 o0] eqn:E.
    intros H; inversion H; subst. cbn [s_simple s_open s_lb s_sol s_abort s_crash s_cache upd_s]. auto 10.
  Qed.

  Lemma mub_cache (s : @sstate St) inp m : s_cache (maybe_update_best s inp m) = s_cache s.
  Proof. unfold maybe_update_best. destruct (_ >? _); reflexivity. Qed.

  Lemma bk_of_le (inp : @cinput St) (m : @mdd St) z :
    ci_best_lb inp <= z -> (forall e, dd_best_exact_value inp m = Some e -> e <= z) -> bk_of inp m <= z.
  Proof.
    intros H1 H2. unfold bk_of. unfold dd_best_exact_value in H2.
    destruct (m_best_exact m) as [be|]; [|exact H1].
    specialize (H2 _ eq_refl). lia.
  Qed.

  Lemma phaseC s ct n s' inp m o :
    Core s -> length (s_cache s) = S N -> dd_ct ct -> good n -> (sp_depth n <= N)%nat ->
    run_compile st_eqb cfg s ct n = (s', inp, m, o) ->
    o = Compiled /\ inp = mk_input cfg ct n (s_lb s) /\
    compile st_eqb (mk_input cfg ct n (s_lb s)) 0 0 (s_cache s) (s_dom s) (s_polls s) = (m, Compiled) /\
    Core (maybe_update_best s' inp m) /\ s_simple (maybe_update_best s' inp m) = s_simple s /\
    s_cache (maybe_update_best s' inp m) = m_cache m /\ length (m_cache m) = S N /\
    s_lb s <= s_lb (maybe_update_best s' inp m) /\
    (forall e, dd_best_exact_value inp m = Some e -> e <= s_lb (maybe_update_best s' inp m)) /\
    bk_of inp m <= s_lb (maybe_update_best s' inp m).
  Proof.
    intros (Hcr & Hab & Hinc & Hfr & Hop) Hlen Hct Hg Hd Hrc.
    apply run_compile_specC in Hrc. destruct Hrc as (Hinp & Hc & R1 & R2 & R3 & R4 & R5 & R6 & R7).
    destruct (KC0 _ _ _ _ _ _ _ _ Hct Hg Hd Hlen Hc) as (Ho & Hmc & Hlm). subst o.
    assert (Hlb' : IMIN <= s_lb s') by (rewrite R3; apply Hinc).
    pose proof (mub_spec cfg s' inp m Hlb') as Hm. cbv zeta in Hm.
    destruct Hm as (U1 & U2 & U3 & U4 & U5).
    split; [reflexivity|]. split; [exact Hinp|]. split; [exact Hc|].
    assert (Hcore_rest : s_crash (maybe_update_best s' inp m) = false /\ s_abort (maybe_update_best s' inp m) = false /\
              FringeOK cfg good (s_simple (maybe_update_best s' inp m)) /\
              OpenOK cfg (s_open (maybe_update_best s' inp m)) (s_simple (maybe_update_best s' inp m))).
    { rewrite U4, U3, U2, U1, R6, R5, R2, R1, Hcr, Hmc, Hab. auto. }
    destruct Hcore_rest as (C1 & C2 & C4 & C5).
    assert (Hbk : forall z, s_lb s <= z -> (forall e, dd_best_exact_value inp m = Some e -> e <= z) -> bk_of inp m <= z).
    { intros z Hz1 Hz2. apply bk_of_le; [rewrite Hinp; exact Hz1|exact Hz2]. }
    destruct U5 as [(L1 & L2 & L3) | (v & Hv & Hgt & L1 & L2)].
    - split; [|split; [rewrite U1, R1; reflexivity|split; [rewrite mub_cache; exact R7|split; [exact Hlm|]]]].
      + unfold SolverProofs.Core. rewrite L1, L2, R3, R4. auto.
      + assert (A1 : s_lb s <= s_lb (maybe_update_best s' inp m)) by (rewrite L1, R3; lia).
        assert (A2 : forall e, dd_best_exact_value inp m = Some e -> e <= s_lb (maybe_update_best s' inp m)) by (rewrite L1; exact L3).
        split; [exact A1|]. split; [exact A2|]. apply Hbk; assumption.
    - subst inp. destruct (KC1 _ _ _ _ _ _ _ _ Hct Hg Hd Hlen Hc v Hv) as (sol & Hsol & Hfeas).
      split; [|split; [rewrite U1, R1; reflexivity|split; [rewrite mub_cache; exact R7|split; [exact Hlm|]]]].
      + unfold SolverProofs.Core. split; [exact C1|]. split; [exact C2|]. split; [|split; [exact C4|exact C5]].
        rewrite L1, L2. split; [rewrite R3 in Hgt; destruct Hinc; lia|].
        right. exists sol. split; [exact Hsol|exact Hfeas].
      + assert (A1 : s_lb s <= s_lb (maybe_update_best s' (mk_input cfg ct n (s_lb s)) m)) by (rewrite L1; rewrite R3 in Hgt; lia).
        assert (A2 : forall e, dd_best_exact_value (mk_input cfg ct n (s_lb s)) m = Some e ->
                      e <= s_lb (maybe_update_best s' (mk_input cfg ct n (s_lb s)) m)).
        { intros e He. rewrite Hv in He. assert (e = v) by congruence. rewrite L1. lia. }
        split; [exact A1|]. split; [exact A2|]. apply Hbk; assumption.
  Qed.

  (* ------------------------------------------------------------------ enqueue_cutset *)
  Notation enq_step := (SolverProofs.enq_step st_eqb cfg).

  Lemma enq_step_specC lb ub s c :
    (sp_depth c <= N)%nat -> OpenOK cfg (s_open s) (s_simple s) ->
    s_lb (enq_step lb ub s c) = s_lb s /\ s_sol (enq_step lb ub s c) = s_sol s /\
    s_abort (enq_step lb ub s c) = s_abort s /\ s_crash (enq_step lb ub s c) = s_crash s /\
    s_cache (enq_step lb ub s c) = s_cache s /\
    s_simple (enq_step lb ub s c) =
      (if Z.min ub (sp_ub c) >? lb then [set_ub c (Z.min ub (sp_ub c))] else []) ++ s_simple s /\
    OpenOK cfg (s_open (enq_step lb ub s c)) (s_simple (enq_step lb ub s c)).
  Proof.
    intros Hd Hop. unfold SolverProofs.enq_step.
    destruct (Z.min ub (sp_ub c) >? lb) eqn:E; [|cbn [app]; auto 10].
    rewrite fr_push_simpleC, !fr_len_simpleC. cbn [s_simple s_open s_lb s_sol s_abort s_crash s_cache upd_s length].
    rewrite (Hop _ Hd). cbn [s_simple s_open s_lb s_sol s_abort s_crash s_cache upd_s app].
    repeat (split; [reflexivity|]).
    replace (S (length (s_simple s)) - length (s_simple s))%nat with 1%nat by lia.
    fold (set_ub c (Z.min ub (sp_ub c))).
    intros d Hd'. destruct (Nat.eq_dec (sp_depth c) d) as [Heq|Hne].
    - subst d. erewrite nth_error_upd_nth_same; [|apply Hop; exact Hd].
      change (sp_depth c) with (sp_depth (set_ub c (Z.min ub (sp_ub c)))) at 2.
      rewrite cnt_cons_same. f_equal. cbn [set_ub sp_depth]. lia.
    - rewrite nth_error_upd_nth_other by exact Hne. rewrite (Hop _ Hd').
      rewrite cnt_cons_other; [reflexivity|exact Hne].
  Qed.

  Lemma enq_fold_specC lb ub cs : forall s,
    (forall c, In c cs -> (sp_depth c <= N)%nat) -> OpenOK cfg (s_open s) (s_simple s) ->
    s_lb (fold_left (enq_step lb ub) cs s) = s_lb s /\ s_sol (fold_left (enq_step lb ub) cs s) = s_sol s /\
    s_abort (fold_left (enq_step lb ub) cs s) = s_abort s /\ s_crash (fold_left (enq_step lb ub) cs s) = s_crash s /\
    s_cache (fold_left (enq_step lb ub) cs s) = s_cache s /\
    OpenOK cfg (s_open (fold_left (enq_step lb ub) cs s)) (s_simple (fold_left (enq_step lb ub) cs s)) /\
    (forall x, In x (s_simple (fold_left (enq_step lb ub) cs s)) <->
       In x (s_simple s) \/ exists c, In c cs /\ Z.min ub (sp_ub c) > lb /\ x = set_ub c (Z.min ub (sp_ub c))) /\
    (Phi (s_simple (fold_left (enq_step lb ub) cs s)) <= Phi (s_simple s) + sumf wt cs)%nat.
  Proof.
    induction cs as [|c cs IH]; intros s Hd Hop; cbn [fold_left].
    - repeat (split; [reflexivity|]). split; [exact Hop|]. split.
      + intros x; split; [auto|]. intros [H|(c & [] & _)]; exact H.
      + simpl. lia.
    - assert (Hdc : (sp_depth c <= N)%nat) by (apply Hd; left; reflexivity).
      destruct (enq_step_specC lb ub s c Hdc Hop) as (E1 & E2 & E3 & E4 & E4c & E5 & E6).
      destruct (IH (enq_step lb ub s c)) as (F1 & F2 & F3 & F4 & F4c & F5 & F6 & F7);
        [intros c' Hc'; apply Hd; right; exact Hc'|exact E6|].
      rewrite F1, F2, F3, F4, F4c, E1, E2, E3, E4, E4c. repeat (split; [reflexivity|]). split; [exact F5|]. split.
      + intros x. rewrite F6, E5. destruct (Z.min ub (sp_ub c) >? lb) eqn:E.
        * rewrite Z.gtb_ltb in E. apply Z.ltb_lt in E. cbn [app In]. split.
          -- intros [[Hx|Hx]|(c' & Hc' & Hgt & Hx)].
             ++ right. exists c. split; [left; reflexivity|]. split; [lia|auto].
             ++ left; exact Hx.
             ++ right. exists c'. split; [right; exact Hc'|auto].
          -- intros [Hx|(c' & [Hc'|Hc'] & Hgt & Hx)].
             ++ left; right; exact Hx.
             ++ subst c'. left; left; auto.
             ++ right. exists c'. auto.
        * rewrite Z.gtb_ltb in E. apply Z.ltb_ge in E. cbn [app In]. split.
          -- intros [Hx|(c' & Hc' & Hgt & Hx)]; [left; exact Hx|]. right. exists c'. split; [right; exact Hc'|auto].
          -- intros [Hx|(c' & [Hc'|Hc'] & Hgt & Hx)]; [left; exact Hx| subst c'; lia |]. right. exists c'. auto.
      + eapply Nat.le_trans; [exact F7|]. rewrite E5. cbn [sumf].
        destruct (Z.min ub (sp_ub c) >? lb); cbn [app]; unfold SolverProofs.Phi; cbn [sumf].
        * change (wt (set_ub c (Z.min ub (sp_ub c)))) with (wt c). lia.
        * lia.
  Qed.


  (* ------------------------------------------------------------------ process_one_node *)
  Lemma best_crit (n : @subproblem St) o t : best n = Some o -> sp_value n <= t -> crit o (sp_depth n) (sp_state n) t.
  Proof.
    unfold MddSim.best, oadd. intros Hb Hv.
    destruct (H (sc_problem cfg) (sp_depth n) (sp_state n)) as [h|] eqn:Eh; [|discriminate].
    simpl in Hb. inversion Hb. exists h. split; [exact Eh|lia].
  Qed.

  Lemma process_specC s n s2 err :
    Core s -> length (s_cache s) = S N -> good n -> (sp_depth n <= N)%nat ->
    (forall y, In y (s_simple s) -> sp_ub y <= sp_ub n) ->
    ComplC (s_lb s) (n :: s_simple s) -> CacheInv (s_cache s) (s_lb s) (n :: s_simple s) ->
    process_one_node st_eqb cfg s n = (s2, err) ->
    err = false /\ Core s2 /\ length (s_cache s2) = S N /\ ComplC (s_lb s2) (s_simple s2) /\
    CacheInv (s_cache s2) (s_lb s2) (s_simple s2) /\ (Phi (s_simple s2) < Phi (s_simple s) + wt n)%nat.
  Proof.
    intros HCore Hlen Hg Hd Hmax HCompl HCI. unfold process_one_node.
    set (l := s_simple s) in *.
    (* --- pruned by its upper bound *)
    destruct (sp_ub n <=? s_lb s) eqn:Eub.
    { apply Z.leb_le in Eub. intros Hr; inversion Hr; subst s2 err. split; [reflexivity|]. split; [exact HCore|].
      split; [exact Hlen|]. split; [|split].
      - apply (Compl_transfer (s_lb s) (s_lb s) l l n); [apply incl_refl|lia| |exact HCompl].
        intros o _ Hlt _ Hu. exfalso. lia.
      - intros o Ho Hlt d s0 th He Hc. apply (Just_transfer o l l n); [apply incl_refl| |exact (HCI o Ho Hlt d s0 th He Hc)].
        intros _ Hu. exfalso. lia.
      - pose proof (wt_pos cfg M n). fold l. lia. }
    rewrite cfg_cache.
    destruct (must_explore_some st_eqb (s_cache s) (sp_state n) (sp_depth n) (sp_value n)) as [b Hb]; [rewrite Hlen; lia|].
    rewrite Hb. destruct b.
    2:{ (* --- skipped: the cache holds a threshold that rejects it *)
      intros Hr; inversion Hr; subst s2 err. split; [reflexivity|]. split; [exact HCore|]. split; [exact Hlen|].
      destruct (must_explore_false st_eqb _ _ _ _ Hb) as (th & He & Hrej).
      assert (Key : forall o, OPT = Some o -> s_lb s < o -> best n = Some o -> o <= sp_ub n ->
                exists y, Wit o l y /\
                  ((sp_depth n < sp_depth y)%nat \/
                   (sp_depth y = sp_depth n /\ sp_state y = sp_state n /\ must_explore_th (Some th) (sp_value y) = true))).
      { intros o Ho Hlt Hbn Hun.
        assert (Hc : crit o (sp_depth n) (sp_state n) (th_value th)).
        { apply best_crit; [exact Hbn|]. apply (must_explore_th_false th). exact Hrej. }
        destruct (HCI o Ho Hlt _ _ _ He Hc) as (y & (Hy1 & Hy2 & Hy3) & Hcond).
        destruct Hy1 as [<-|Hy1].
        - exfalso. destruct Hcond as [Hcond|(_ & _ & Hcond)]; [lia|]. rewrite Hcond in Hrej. discriminate.
        - exists y. split; [split; [exact Hy1|auto]|exact Hcond]. }
      split; [|split].
      - intros o Ho. destruct (Z_le_gt_dec o (s_lb s)) as [Hle|Hgt]; [left; exact Hle|]. right.
        destruct (HCompl o Ho) as [Hle|(y & (Hy1 & Hy2 & Hy3))]; [lia|].
        destruct Hy1 as [<-|Hy1].
        + destruct (Key o Ho ltac:(lia) Hy2 Hy3) as (y' & Hy' & _). exists y'. exact Hy'.
        + exists y. split; [exact Hy1|auto].
      - intros o Ho Hlt d s0 th0 He0 Hc0.
        destruct (HCI o Ho Hlt d s0 th0 He0 Hc0) as (y & (Hy1 & Hy2 & Hy3) & Hcond).
        destruct Hy1 as [<-|Hy1].
        + destruct (Key o Ho Hlt Hy2 Hy3) as (y' & Hy' & Hcond').
          destruct Hcond as [Hcond|(E1 & E2 & E3)].
          * exists y'. split; [exact Hy'|]. left. destruct Hcond' as [Hc'|(Hc' & _)]; lia.
          * exfalso. subst d s0. rewrite (entry_fun st_eqb _ _ _ _ _ He0 He) in E3. rewrite E3 in Hrej. discriminate.
        + exists y. split; [split; [exact Hy1|auto]|exact Hcond].
      - pose proof (wt_pos cfg M n). fold l. lia. }
    (* --- explored: restricted, then relaxed compilation *)
    assert (UBn : forall o, OPT = Some o -> s_lb s < o -> o <= sp_ub n).
    { intros o Ho Hlt. destruct (HCompl o Ho) as [Hle|(y & (Hy1 & Hy2 & Hy3))]; [lia|].
      destruct Hy1 as [<-|Hy1]; [exact Hy3|]. specialize (Hmax y Hy1). lia. }
    assert (CS1 : forall o, OPT = Some o -> s_lb s < o -> CS (sp_depth n) (s_cache s) o (Below o l)).
    { intros o Ho Hlt d s0 th Hdd He Hc.
      destruct (HCI o Ho Hlt d s0 th He Hc) as (y & (Hy1 & Hy2 & Hy3) & Hcond).
      destruct Hy1 as [<-|Hy1]; [exfalso; destruct Hcond as [Hcond|(Hcond & _)]; lia|].
      exists y. split; [split; [exact Hy1|auto]|]. destruct Hcond as [Hcond|(Hcond & _)]; lia. }
    destruct (run_compile st_eqb cfg s Restricted n) as [[[sa0 inpa] ma] oa] eqn:Ea.
    destruct (phaseC _ _ _ _ _ _ _ HCore Hlen (or_introl eq_refl) Hg Hd Ea)
      as (-> & Hinpa & Hca & HCa & Hsa & Hcca & Hlma & Hlba & Heva & Hbka).
    cbv beta iota zeta.
    set (sa := maybe_update_best sa0 inpa ma) in HCa, Hsa, Hcca, Hlba, Heva, Hbka |- *.
    fold l in Hsa. subst inpa.
    (* entries left by the restricted compilation *)
    assert (JA : forall o, OPT = Some o -> s_lb sa < o -> forall d s0 th, entry (m_cache ma) d s0 th ->
               crit o d s0 (th_value th) -> entry (s_cache s) d s0 th \/ Below o l (S d)).
    { intros o Ho Hlt d s0 th He Hc.
      destruct (KCW _ _ _ _ _ _ _ _ (or_introl eq_refl) Hg Hd Hlen Hca o (Below o l) Ho (Below_antitone o l)
                  (CS1 o Ho ltac:(lia)) d s0 th He Hc) as [H1|[H1|[H1|(H1 & _)]]].
      - left; exact H1.
      - exfalso. lia.
      - right; exact H1.
      - discriminate. }
    destruct (dd_is_exact ma) eqn:Eexa.
    { intros Hr; inversion Hr; subst s2 err. split; [reflexivity|]. split; [exact HCa|].
      split; [rewrite Hcca; exact Hlma|].
      assert (NewW : forall o, OPT = Some o -> s_lb sa < o -> best n = Some o -> o <= sp_ub n -> Below o l (S (sp_depth n))).
      { intros o Ho Hlt Hbn _.
        destruct (KC2 _ _ _ _ _ _ _ _ (or_introl eq_refl) Hg Hd Hlen Hca Eexa o (Below o l) Ho (Below_antitone o l) Hbn
                    ltac:(lia) (CS1 o Ho ltac:(lia))) as [(e & He & Hoe)|H1]; [|exact H1].
        exfalso. specialize (Heva e He). lia. }
      rewrite Hsa. split; [|split].
      - apply (Compl_transfer (s_lb s) (s_lb sa) l l n); [apply incl_refl|exact Hlba|exact NewW|exact HCompl].
      - rewrite Hcca. intros o Ho Hlt d s0 th He Hc.
        destruct (JA o Ho Hlt d s0 th He Hc) as [H1|H1]; [|apply Below_Just; exact H1].
        apply (Just_transfer o l l n); [apply incl_refl|exact (NewW o Ho Hlt)|].
        exact (HCI o Ho ltac:(lia) d s0 th H1 Hc).
      - pose proof (wt_pos cfg M n). lia. }
    assert (Hlena : length (s_cache sa) = S N) by (rewrite Hcca; exact Hlma).
    assert (CSa : forall o, OPT = Some o -> s_lb sa < o -> CS (sp_depth n) (s_cache sa) o (Below o l)).
    { intros o Ho Hlt d s0 th Hdd He Hc. rewrite Hcca in He.
      destruct (JA o Ho Hlt d s0 th He Hc) as [H1|H1].
      - exact (CS1 o Ho ltac:(lia) d s0 th Hdd H1 Hc).
      - apply (Below_antitone o l (S d)); [lia|exact H1]. }
    destruct (run_compile st_eqb cfg sa Relaxed n) as [[[sb0 inpb] mb] ob] eqn:Eb.
    destruct (phaseC _ _ _ _ _ _ _ HCa Hlena (or_intror eq_refl) Hg Hd Eb)
      as (-> & Hinpb & Hcb & HCb & Hsb & Hccb & Hlmb & Hlbb & Hevb & Hbkb).
    cbv beta iota zeta.
    set (sb := maybe_update_best sb0 inpb mb) in HCb, Hsb, Hccb, Hlbb, Hevb, Hbkb |- *.
    rewrite Hsa in Hsb. subst inpb.
    (* entries left by the relaxed compilation, except those covered by its cut-set *)
    assert (JB : forall o, OPT = Some o -> s_lb sb < o -> forall d s0 th, entry (m_cache mb) d s0 th ->
               crit o d s0 (th_value th) ->
               entry (s_cache s) d s0 th \/ Below o l (S d) \/
               (dd_is_exact mb = false /\
                exists x ox, In x (drain_cutset (mk_input cfg Relaxed n (s_lb sa)) mb) /\ best x = Some ox /\ o <= ox /\
                  ((d < sp_depth x)%nat \/
                   (sp_depth x = d /\ sp_state x = s0 /\ must_explore_th (Some th) (sp_value x) = true)))).
    { intros o Ho Hlt d s0 th He Hc.
      destruct (KCW _ _ _ _ _ _ _ _ (or_intror eq_refl) Hg Hd Hlena Hcb o (Below o l) Ho (Below_antitone o l)
                  (CSa o Ho ltac:(lia)) d s0 th He Hc) as [H1|[H1|[H1|(_ & H1 & H2)]]].
      - rewrite Hcca in H1. destruct (JA o Ho ltac:(lia) d s0 th H1 Hc) as [H3|H3]; [left; exact H3|right; left; exact H3].
      - exfalso. lia.
      - right; left; exact H1.
      - right; right. split; [exact H1|exact H2]. }
    destruct (dd_is_exact mb) eqn:Eexb.
    { intros Hr; inversion Hr; subst s2 err. split; [reflexivity|]. split; [exact HCb|].
      split; [rewrite Hccb; exact Hlmb|].
      assert (NewW : forall o, OPT = Some o -> s_lb sb < o -> best n = Some o -> o <= sp_ub n -> Below o l (S (sp_depth n))).
      { intros o Ho Hlt Hbn _.
        destruct (KC2 _ _ _ _ _ _ _ _ (or_intror eq_refl) Hg Hd Hlena Hcb Eexb o (Below o l) Ho (Below_antitone o l) Hbn
                    ltac:(lia) (CSa o Ho ltac:(lia))) as [(e & He & Hoe)|H1]; [|exact H1].
        exfalso. specialize (Hevb e He). lia. }
      rewrite Hsb. split; [|split].
      - apply (Compl_transfer (s_lb s) (s_lb sb) l l n); [apply incl_refl|lia|exact NewW|exact HCompl].
      - rewrite Hccb. intros o Ho Hlt d s0 th He Hc.
        destruct (JB o Ho Hlt d s0 th He Hc) as [H1|[H1|(H1 & _)]]; [|apply Below_Just; exact H1|discriminate].
        apply (Just_transfer o l l n); [apply incl_refl|exact (NewW o Ho Hlt)|].
        exact (HCI o Ho ltac:(lia) d s0 th H1 Hc).
      - pose proof (wt_pos cfg M n). lia. }
    (* --- the cut-set is enqueued *)
    intros Hr; inversion Hr; subst s2 err. clear Hr. split; [reflexivity|].
    rewrite enqueue_cutset_fold.
    set (cs := drain_cutset (mk_input cfg Relaxed n (s_lb sa)) mb) in *.
    assert (Hdep : forall c, In c cs -> (sp_depth n < sp_depth c <= N)%nat).
    { intros c Hc. exact (KC3_depth _ _ _ _ _ _ _ Hg Hd Hlena Hcb Eexb c Hc). }
    destruct HCb as (B1 & B2 & B3 & B4 & B5).
    destruct (enq_fold_specC (s_lb sb) (sp_ub n) cs sb) as (F1 & F2 & F3 & F4 & F4c & F5 & F6 & F7);
      [intros c Hc; apply Hdep in Hc; lia|exact B5|].
    set (s2 := fold_left (enq_step (s_lb sb) (sp_ub n)) cs sb) in *.
    assert (Hincl : incl l (s_simple s2)).
    { intros y Hy. apply F6. left. rewrite Hsb. exact Hy. }
    (* a sub-problem of the cut-set that holds the optimum is represented in the new fringe *)
    assert (CutWit : forall o, OPT = Some o -> s_lb sb < o -> forall x ox, In x cs -> best x = Some ox -> o <= ox ->
              exists y, Wit o (s_simple s2) y /\
                ((sp_depth x < sp_depth y)%nat \/
                 (sp_depth y = sp_depth x /\ sp_state y = sp_state x /\ sp_value y = sp_value x))).
    { intros o Ho Hlt x ox Hx Hbx Hox.
      assert (Hgx : good x) by exact (KC3_good _ _ _ _ _ _ _ Hg Hd Hlena Hcb Eexb x Hx).
      pose proof (best_le_opt x ox o Hgx Hbx Ho) as Hle. assert (ox = o) by lia. subst ox.
      destruct (KC3_ub _ _ _ _ _ _ _ Hg Hd Hlena Hcb Eexb x Hx o (Below o l) Ho (Below_antitone o l) Hbx ltac:(lia)
                  (CSa o Ho ltac:(lia))) as [H1|(y & Hy & Hdy)].
      - exists (set_ub x (Z.min (sp_ub n) (sp_ub x))). split.
        + pose proof (UBn o Ho ltac:(lia)) as Hun. split; [|split].
          * apply F6. right. exists x. split; [exact Hx|]. split; [lia|reflexivity].
          * rewrite best_set_ub. exact Hbx.
          * cbn [set_ub sp_ub]. lia.
        + right. cbn [set_ub sp_depth sp_state sp_value]. auto.
      - exists y. split; [eapply Wit_incl; eauto|]. left. lia. }
    assert (NewW : forall o, OPT = Some o -> s_lb sb < o -> best n = Some o -> o <= sp_ub n ->
              Below o (s_simple s2) (S (sp_depth n))).
    { intros o Ho Hlt Hbn _.
      destruct (KC4 _ _ _ _ _ _ _ Hg Hd Hlena Hcb Eexb o (Below o l) Ho (Below_antitone o l) Hbn ltac:(lia)
                  (CSa o Ho ltac:(lia))) as [(e & He & Hoe)|[(x & ox & Hx & Hbx & Hox)|H1]].
      - exfalso. specialize (Hevb e He). lia.
      - destruct (CutWit o Ho Hlt x ox Hx Hbx Hox) as (y & Hy & Hcond). exists y. split; [exact Hy|].
        pose proof (Hdep x Hx). destruct Hcond as [Hcond|(Hcond & _)]; lia.
      - eapply Below_incl; eauto. }
    split; [|split; [|split; [|split]]].
    - unfold SolverProofs.Core. rewrite F1, F2, F3, F4. split; [exact B1|]. split; [exact B2|]. split; [exact B3|].
      split; [|exact F5]. intros x Hx. apply F6 in Hx. destruct Hx as [Hx|(c & Hc & _ & ->)].
      + apply B4; exact Hx.
      + split; [apply good_set_ub; exact (KC3_good _ _ _ _ _ _ _ Hg Hd Hlena Hcb Eexb c Hc)|]. cbn [set_ub sp_depth]. apply Hdep in Hc. unfold N, pb in Hc. lia.
    - rewrite F4c, Hccb. exact Hlmb.
    - rewrite F1. apply (Compl_transfer (s_lb s) (s_lb sb) l (s_simple s2) n); [exact Hincl|lia|exact NewW|exact HCompl].
    - rewrite F1, F4c, Hccb. intros o Ho Hlt d s0 th He Hc.
      destruct (JB o Ho Hlt d s0 th He Hc) as [H1|[H1|(_ & x & ox & Hx & Hbx & Hox & Hcond)]].
      + apply (Just_transfer o l (s_simple s2) n); [exact Hincl|exact (NewW o Ho Hlt)|].
        exact (HCI o Ho ltac:(lia) d s0 th H1 Hc).
      + apply Below_Just. eapply Below_incl; eauto.
      + destruct (CutWit o Ho Hlt x ox Hx Hbx Hox) as (y & Hy & Hcy). exists y. split; [exact Hy|].
        destruct Hcy as [Hcy|(E1 & E2 & E3)].
        * left. destruct Hcond as [Hcond|(Hcond & _)]; lia.
        * destruct Hcond as [Hcond|(C1 & C2 & C3)]; [left; lia|]. right. rewrite E1, E2, E3. auto.
    - eapply Nat.le_lt_trans; [exact F7|]. rewrite Hsb.
      apply Nat.add_lt_mono_l. apply kids_weight; [|exact Hdep].
      exact (KC5 _ _ _ _ _ _ _ Hg Hd Hlena Hcb Eexb).
  Qed.


  (* ------------------------------------------------------------------ the loop *)
  Notation Final := (SolverProofs.Final cfg (MddSim.best cfg) feasible).

  Lemma pop_inv s x rest s1 :
    InvC s -> Permutation (s_simple s) (x :: rest) -> s_simple s1 = rest -> s_lb s1 = s_lb s ->
    (forall d s0 th, entry (s_cache s1) d s0 th -> entry (s_cache s) d s0 th) ->
    (forall y, In y (s_simple s) -> sp_ub y <= sp_ub x) ->
    (forall y, In y (s_simple s1) -> sp_ub y <= sp_ub x) /\
    ComplC (s_lb s1) (x :: s_simple s1) /\ CacheInv (s_cache s1) (s_lb s1) (x :: s_simple s1).
  Proof.
    intros (_ & _ & HCompl & HCI) Hperm W1 W2 Hent Hmax. rewrite W1, W2.
    assert (Hi : incl (s_simple s) (x :: rest)) by (intros y Hy; eapply Permutation_in; eauto).
    split; [|split].
    - intros y Hy. apply Hmax. eapply Permutation_in; [apply Permutation_sym; exact Hperm|]. right; exact Hy.
    - intros o Ho. destruct (HCompl o Ho) as [Hle|(y & Hy)]; [left; exact Hle|right]. exists y. eapply Wit_incl; eauto.
    - intros o Ho Hlt d s0 th He Hc. eapply Just_incl; [exact Hi|]. apply (HCI o Ho Hlt d s0 th); [apply Hent; exact He|exact Hc].
  Qed.

  Lemma main_loop_specC : forall fuel s, InvC s -> (Phi (s_simple s) < fuel)%nat ->
    exists s', main_loop st_eqb cfg fuel s = (s', Finished) /\ Final s'.
  Proof.
    induction fuel as [|fuel IH]; intros s HI Hfuel; [lia|].
    pose proof HI as (HCore & Hlen & HCompl & HCI).
    cbn [main_loop]. assert (Hcr : s_crash s = false) by apply HCore. rewrite Hcr.
    destruct (get_workload_specC s HCore Hlen) as [(Hemp & s1 & Hgw & W1 & W2 & W3 & W4 & W5 & W6)
                                            |(x & rest & s1 & Hgw & Hperm & W1 & HC1 & W2 & W3 & W4 & W5)]; rewrite Hgw.
    - exists s1. split; [reflexivity|]. unfold SolverProofs.Final. rewrite W6, W5, W4. split; [exact W2|]. split; [exact W3|].
      split; [reflexivity|]. split; [apply HCore|]. intros o Ho.
      destruct (HCompl o Ho) as [Hle|(y & Hy & _)]; [exact Hle|]. rewrite Hemp in Hy. destruct Hy.
    - destruct (process_one_node st_eqb cfg s1 x) as [s2 err] eqn:Ep.
      assert (Hx : In x (s_simple s)).
      { eapply Permutation_in; [apply Permutation_sym; exact Hperm|]. left; reflexivity. }
      destruct HCore as (_ & _ & _ & Hfr & _). destruct (Hfr x Hx) as [Hgx Hdx].
      destruct (pop_inv s x rest s1 HI Hperm W1 W2 W4 W5) as (P1 & P2 & P3).
      destruct (process_specC s1 x s2 err HC1 W3 Hgx Hdx P1 P2 P3 Ep) as (-> & HC2 & Hl2 & HCompl2 & HCI2 & HPhi).
      apply IH; [split; [exact HC2|split; [exact Hl2|split; assumption]]|].
      rewrite (Phi_perm _ _ _ _ Hperm) in Hfuel. unfold SolverProofs.Phi in Hfuel, HPhi |- *. cbn [sumf] in Hfuel.
      rewrite W1 in HPhi. lia.
  Qed.

  Lemma main_loop_partialC : forall fuel s s', InvC s ->
    main_loop st_eqb cfg fuel s = (s', Finished) -> Final s'.
  Proof.
    induction fuel as [|fuel IH]; intros s s' HI; [cbn [main_loop]; discriminate|].
    pose proof HI as (HCore & Hlen & HCompl & HCI).
    cbn [main_loop]. assert (Hcr : s_crash s = false) by apply HCore. rewrite Hcr.
    destruct (get_workload_specC s HCore Hlen) as [(Hemp & s1 & Hgw & W1 & W2 & W3 & W4 & W5 & W6)
                                            |(x & rest & s1 & Hgw & Hperm & W1 & HC1 & W2 & W3 & W4 & W5)]; rewrite Hgw.
    - intros Hr; inversion Hr; subst s'. unfold SolverProofs.Final. rewrite W6, W5, W4. split; [exact W2|]. split; [exact W3|].
      split; [reflexivity|]. split; [apply HCore|]. intros o Ho.
      destruct (HCompl o Ho) as [Hle|(y & Hy & _)]; [exact Hle|]. rewrite Hemp in Hy. destruct Hy.
    - destruct (process_one_node st_eqb cfg s1 x) as [s2 err] eqn:Ep.
      assert (Hx : In x (s_simple s)).
      { eapply Permutation_in; [apply Permutation_sym; exact Hperm|]. left; reflexivity. }
      destruct HCore as (_ & _ & _ & Hfr & _). destruct (Hfr x Hx) as [Hgx Hdx].
      destruct (pop_inv s x rest s1 HI Hperm W1 W2 W4 W5) as (P1 & P2 & P3).
      destruct (process_specC s1 x s2 err HC1 W3 Hgx Hdx P1 P2 P3 Ep) as (-> & HC2 & Hl2 & HCompl2 & HCI2 & HPhi).
      apply IH. split; [exact HC2|split; [exact Hl2|split; assumption]].
  Qed.

  (* ------------------------------------------------------------------ initialisation *)
  Lemma start_state_cache primal : s_cache (start_state cfg primal) = init_cache N.
  Proof.
    unfold start_state. destruct primal as [[pv psol]|].
    - unfold set_primal. destruct (_ >? _); cbn [s_cache upd_s init_sstate]; rewrite cfg_cache; reflexivity.
    - cbn [s_cache init_sstate]. rewrite cfg_cache. reflexivity.
  Qed.

  Lemma initialize_invC s0 :
    s_simple s0 = [] -> s_open s0 = repeat O (S N) -> s_crash s0 = false -> s_abort s0 = false ->
    Incumbent feasible (s_lb s0) (s_sol s0) -> s_cache s0 = init_cache N ->
    InvC (initialize_solver st_eqb cfg s0) /\ s_simple (initialize_solver st_eqb cfg s0) = [root_node cfg].
  Proof.
    intros H1 H2 H3 H4 H5 H6. unfold initialize_solver. rewrite fr_push_simpleC.
    cbn [s_simple s_open s_lb s_sol s_abort s_crash s_cache upd_s]. rewrite H1. split; [|reflexivity].
    split; [|split; [|split]].
    - unfold SolverProofs.Core. cbn [s_simple s_open s_lb s_sol s_abort s_crash upd_s].
      split; [exact H3|]. split; [exact H4|]. split; [exact H5|]. split.
      + intros n [<-|[]]. split; [exact good_root|]. cbn [root_node sp_depth]. lia.
      + intros d Hd. rewrite H2. destruct d as [|d].
        * reflexivity.
        * cbn [repeat upd_nth nth_error]. unfold N, pb. rewrite nth_error_repeat by lia.
          rewrite cnt_cons_other by (cbn [root_node sp_depth]; lia). reflexivity.
    - cbn [s_cache upd_s]. rewrite H6. unfold init_cache. apply repeat_length.
    - cbn [s_simple s_lb upd_s]. intros o Ho. right. exists (root_node cfg). split; [left; reflexivity|].
      split; [exact Ho|]. cbn [root_node sp_ub]. apply opt_in_isize. exact Ho.
    - cbn [s_simple s_lb s_cache upd_s]. rewrite H6. intros o Ho Hlt d s0' th He _. exfalso.
      unfold CacheSearch.entry in He. rewrite cget_init in He. discriminate.
  Qed.

  (* ------------------------------------------------------------------ main theorems, modulo the contracts *)
  Theorem maximize_correctC primal : primal_ok feasible primal ->
    forall fuel, (fuel0 cfg M <= fuel)%nat -> result_ok cfg (MddSim.best cfg) feasible (maximize st_eqb cfg fuel primal).
  Proof.
    intros Hp fuel Hfuel.
    destruct (start_state_ok cfg feasible primal Hp) as (S1 & S2 & S3 & S4 & S5).
    destruct (initialize_invC _ S1 S2 S3 S4 S5 (start_state_cache primal)) as [HInv Hsimple].
    destruct (main_loop_specC fuel _ HInv) as (s' & Hml & HF).
    { rewrite Hsimple. unfold SolverProofs.Phi, SolverProofs.wt. cbn [sumf root_node sp_depth]. rewrite Nat.sub_0_r.
      unfold fuel0 in Hfuel. lia. }
    eapply maximize_of_final; eassumption.
  Qed.

  Theorem seq_cache_partial_correct primal : primal_ok feasible primal ->
    forall fuel, r_outoffuel (maximize st_eqb cfg fuel primal) = false ->
    result_ok cfg (MddSim.best cfg) feasible (maximize st_eqb cfg fuel primal).
  Proof.
    intros Hp fuel Hnf.
    destruct (start_state_ok cfg feasible primal Hp) as (S1 & S2 & S3 & S4 & S5).
    destruct (initialize_invC _ S1 S2 S3 S4 S5 (start_state_cache primal)) as [HInv _].
    destruct (main_loop st_eqb cfg fuel (initialize_solver st_eqb cfg (start_state cfg primal))) as [s' e] eqn:Hml.
    assert (He : e = Finished).
    { unfold maximize in Hnf. fold (start_state cfg primal) in Hnf. rewrite Hml in Hnf.
      cbn [r_outoffuel] in Hnf. destruct e; [reflexivity|discriminate]. }
    subst e. eapply maximize_of_final; [exact feasible_le_opt|exact opt_in_isize|exact Hml|].
    eapply main_loop_partialC; eassumption.
  Qed.

  Theorem seq_cache_solver_correct :
    exists f0, forall fuel, (f0 <= fuel)%nat ->
      let r := maximize st_eqb cfg fuel None in
      r_crash r = false /\ r_outoffuel r = false /\ r_exact r = true /\ r_value r = OPT /\
      (forall v, OPT = Some v ->
         r_lb r = v /\ r_ub r = v /\ exists sol, r_sol r = Some (sort_by dec_var_cmp sol) /\ feasible sol v) /\
      (OPT = None -> r_sol r = None /\ r_lb r = IMIN).
  Proof.
    exists (fuel0 cfg M). intros fuel Hfuel. apply (maximize_correctC None); [|exact Hfuel].
    intros pv psol H; discriminate.
  Qed.

End CacheSolver.

(* ================================================================== 3. the contracts and the invariant as EXECUTABLE checks
   (used to validate their statements on examples: [audit] replays the solver and evaluates, at every iteration, the
   invariant InvC and, at every compilation, the conclusions of KC0, KC2, KC3_ub, KC4, KCW with P := Below o fringe) *)
Section Audit.
  Context {St : Type}.
  Variable st_eqb : St -> St -> bool.
  Variable cfg : @sconfig St.
  Let pb := sc_problem cfg.

  Definition entries (c : @cache St) : list (nat * St * threshold) :=
    flat_map (fun d => match nth_error c d with
                       | Some l => flat_map (fun '(s0, th) =>
                                     match lget st_eqb l s0 with
                                     | Some th' => if (th_value th' =? th_value th) && Bool.eqb (th_explored th') (th_explored th)
                                                   then [(d, s0, th)] else []
                                     | None => [] end) l
                       | None => [] end) (seq 0 (length c)).
  Definition critb (o : Z) (d : nat) (s0 : St) (t : Z) : bool :=
    match H pb d s0 with Some h => o <=? t + h | None => false end.
  Definition witb (o : Z) (y : @subproblem St) : bool :=
    match MddSim.best cfg y with Some v => (v =? o) && (o <=? sp_ub y) | None => false end.
  Definition belowb (o : Z) (l : list (@subproblem St)) (d : nat) : bool :=
    existsb (fun y => witb o y && Nat.leb d (sp_depth y)) l.
  Definition justb (o : Z) (l : list (@subproblem St)) (d : nat) (s0 : St) (th : threshold) : bool :=
    existsb (fun y => witb o y &&
      (Nat.ltb d (sp_depth y) ||
       (Nat.eqb (sp_depth y) d && st_eqb (sp_state y) s0 && must_explore_th (Some th) (sp_value y)))) l.
  Definition csb (k : nat) (c : @cache St) (o : Z) (l : list (@subproblem St)) : bool :=
    forallb (fun '(d, s0, th) => implb (Nat.ltb k d && critb o d s0 (th_value th)) (belowb o l d)) (entries c).
  Definition complb (o lb : Z) (l : list (@subproblem St)) : bool := (o <=? lb) || existsb (witb o) l.
  Definition cacheinvb (o lb : Z) (c : @cache St) (l : list (@subproblem St)) : bool :=
    implb (lb <? o)
      (forallb (fun '(d, s0, th) => implb (critb o d s0 (th_value th)) (justb o l d s0 th)) (entries c)).
  Definition entryb (c : @cache St) (d : nat) (s0 : St) (th : threshold) : bool :=
    match cget st_eqb c s0 d with
    | Some th' => (th_value th' =? th_value th) && Bool.eqb (th_explored th') (th_explored th)
    | None => false end.
  Definition besteq (x : @subproblem St) (o : Z) : bool :=
    match MddSim.best cfg x with Some v => v =? o | None => false end.
  Definition bestge (x : @subproblem St) (o : Z) : bool :=
    match MddSim.best cfg x with Some v => o <=? v | None => false end.
  Definition bevge (inp : @cinput St) (m : @mdd St) (o : Z) : bool :=
    match dd_best_exact_value inp m with Some e => o <=? e | None => false end.

  (* the conclusions of the contracts for one compilation; the second component tells whether the cache premise CS held *)
  Definition kc_check (ct : comptype) (n : @subproblem St) (lb : Z) (c : @cache St) (ds : @dstore St Z) (polls : nat)
      (l : list (@subproblem St)) (o : Z) : bool * bool :=
    let inp := mk_input cfg ct n lb in
    let '(m, out) := compile st_eqb inp 0 0 c ds polls in
    let dn := sp_depth n in
    let cut := drain_cutset inp m in
    let k0 := match out with Compiled => true | _ => false end && negb (m_crash m) && Nat.eqb (length (m_cache m)) (length c) in
    let k2 := implb (dd_is_exact m && besteq n o && (o >? lb)) (bevge inp m o || belowb o l (S dn)) in
    let rx := match ct with Relaxed => negb (dd_is_exact m) | _ => false end in
    let k3 := implb rx (forallb (fun x => implb (besteq x o && (o >? lb)) ((o <=? sp_ub x) || belowb o l (S (sp_depth x)))) cut) in
    let k4 := implb (rx && besteq n o && (o >? lb))
                (bevge inp m o || existsb (fun x => bestge x o) cut || belowb o l (S dn)) in
    let kw := forallb (fun '(d, s0, th) =>
                implb (critb o d s0 (th_value th))
                  (entryb c d s0 th || (o <=? bk_of inp m) || belowb o l (S d) ||
                   (rx && existsb (fun x => bestge x o &&
                      (Nat.ltb d (sp_depth x) ||
                       (Nat.eqb (sp_depth x) d && st_eqb (sp_state x) s0 && must_explore_th (Some th) (sp_value x)))) cut)))
                (entries (m_cache m)) in
    (k0 && implb (csb dn c o l) (k2 && k3 && k4 && kw), implb (lb <? o) (csb dn c o l)).

  (* replay of main_loop; returns (everything checked held, number of compilations whose CS premise held, iterations) *)
  Fixpoint audit_loop (fuel : nat) (s : @sstate St) (o : Z) (acc : bool * nat * nat) : bool * nat * nat :=
    match fuel with
    | O => acc
    | S fuel' =>
        let '(ok, nk, it) := acc in
        if s_crash s then (false, nk, it) else
        let ok := ok && complb o (s_lb s) (s_simple s) && cacheinvb o (s_lb s) (s_cache s) (s_simple s) in
        let '(s1, w) := get_workload st_eqb cfg s in
        match w with
        | WItem x =>
            let l := s_simple s1 in
            let explore :=
              negb (sp_ub x <=? s_lb s1) &&
              match must_explore st_eqb (s_cache s1) (sp_state x) (sp_depth x) (sp_value x) with Some b => b | None => false end in
            let '(ok, nk) :=
              if explore then
                let '(ka, pa) := kc_check Restricted x (s_lb s1) (s_cache s1) (s_dom s1) (s_polls s1) l o in
                let '(sa0, inpa, ma, _) := run_compile st_eqb cfg s1 Restricted x in
                let sa := maybe_update_best sa0 inpa ma in
                if dd_is_exact ma then (ok && ka && pa, S nk)
                else
                  let '(kb, pb') := kc_check Relaxed x (s_lb sa) (s_cache sa) (s_dom sa) (s_polls sa) l o in
                  (ok && ka && pa && kb && pb', S (S nk))
              else (ok, nk) in
            let '(s2, err) := process_one_node st_eqb cfg s1 x in
            if err then (false, nk, it) else audit_loop fuel' s2 o (ok, nk, S it)
        | _ => (ok, nk, it)
        end
    end.

  Definition audit (fuel : nat) : option (bool * nat * nat) :=
    match opt_enum pb with
    | Some o => Some (audit_loop fuel (initialize_solver st_eqb cfg (init_sstate cfg)) o (true, O, O))
    | None => None
    end.
End Audit.

(* ================================================================== 4. the contracts, packaged for the concrete semantics of Assembly.v
   good := sgood pb (reached from the initial state by a feasible run), feasible := sfeasible pb, best := value + Bellman value *)
Section Contract.
  Context {St : Type}.
  Variable st_eqb : St -> St -> bool.
  Variable cfg : @sconfig St.
  Local Notation pb := (sc_problem cfg).
  Local Notation N := (nb_vars (sc_problem cfg)).
  Local Notation good := (sgood (sc_problem cfg)).
  Local Notation feas := (sfeasible (sc_problem cfg)).
  Local Notation bst := (MddSim.best cfg).
  Local Notation OPTo := (opt_enum (sc_problem cfg)).

  (* KC_struct: what a compilation started from ANY cache with a layer per depth does to the structures
     (the counterparts of K0, K1, K3_good, K3_depth, K5) *)
  Definition KC_struct (M : nat) : Prop :=
    (forall ct n lb c ds polls m out,
       dd_ct ct -> good n -> (sp_depth n <= N)%nat -> length c = S N ->
       compile st_eqb (mk_input cfg ct n lb) 0 0 c ds polls = (m, out) ->
       out = Compiled /\ m_crash m = false /\ length (m_cache m) = S N) /\
    (forall ct n lb c ds polls m out,
       dd_ct ct -> good n -> (sp_depth n <= N)%nat -> length c = S N ->
       compile st_eqb (mk_input cfg ct n lb) 0 0 c ds polls = (m, out) ->
       forall v, dd_best_exact_value (mk_input cfg ct n lb) m = Some v ->
       exists sol, dd_best_exact_solution (mk_input cfg ct n lb) m = Some sol /\ feas sol v) /\
    (forall n lb c ds polls m out,
       good n -> (sp_depth n <= N)%nat -> length c = S N ->
       compile st_eqb (mk_input cfg Relaxed n lb) 0 0 c ds polls = (m, out) ->
       dd_is_exact m = false ->
       forall x, In x (drain_cutset (mk_input cfg Relaxed n lb) m) -> good x /\ (sp_depth n < sp_depth x <= N)%nat) /\
    (forall n lb c ds polls m out,
       good n -> (sp_depth n <= N)%nat -> length c = S N ->
       compile st_eqb (mk_input cfg Relaxed n lb) 0 0 c ds polls = (m, out) ->
       dd_is_exact m = false ->
       (length (drain_cutset (mk_input cfg Relaxed n lb) m) <= M)%nat).

  (* KC_cache: the semantic contract.  o is the optimum; [P d] stands for "an open sub-problem of depth >= d still holds o";
     [CS k c o P]: every entry of the initial cache c deeper than k that could reject a run of value o is vouched for by P.
     (a) exact diagram: the optimum of the sub-problem, if it is o, is found or was handed over to P strictly deeper;
     (b) the upper bound of a cut-set node that holds o does not hide it, or o was handed over to P deeper than the node;
     (c) inexact relaxed diagram: o is found, or held by a cut-set node, or handed over to P;
     (d) every critical entry of the final cache is an old one, or o <= best known, or vouched for by P strictly deeper,
         or (inexact relaxed diagram) covered by a cut-set node that the entry does not reject. *)
  Definition KC_cache : Prop :=
    (forall ct n lb c ds polls m out,
       dd_ct ct -> good n -> (sp_depth n <= N)%nat -> length c = S N ->
       compile st_eqb (mk_input cfg ct n lb) 0 0 c ds polls = (m, out) ->
       dd_is_exact m = true ->
       forall o P, OPTo = Some o -> antitone P -> bst n = Some o -> o > lb -> CS st_eqb cfg (sp_depth n) c o P ->
       (exists e, dd_best_exact_value (mk_input cfg ct n lb) m = Some e /\ o <= e) \/ P (S (sp_depth n))) /\
    (forall n lb c ds polls m out,
       good n -> (sp_depth n <= N)%nat -> length c = S N ->
       compile st_eqb (mk_input cfg Relaxed n lb) 0 0 c ds polls = (m, out) ->
       dd_is_exact m = false ->
       forall x, In x (drain_cutset (mk_input cfg Relaxed n lb) m) ->
       forall o P, OPTo = Some o -> antitone P -> bst x = Some o -> o > lb -> CS st_eqb cfg (sp_depth n) c o P ->
       o <= sp_ub x \/ P (S (sp_depth x))) /\
    (forall n lb c ds polls m out,
       good n -> (sp_depth n <= N)%nat -> length c = S N ->
       compile st_eqb (mk_input cfg Relaxed n lb) 0 0 c ds polls = (m, out) ->
       dd_is_exact m = false ->
       forall o P, OPTo = Some o -> antitone P -> bst n = Some o -> o > lb -> CS st_eqb cfg (sp_depth n) c o P ->
       (exists e, dd_best_exact_value (mk_input cfg Relaxed n lb) m = Some e /\ o <= e) \/
       (exists x ox, In x (drain_cutset (mk_input cfg Relaxed n lb) m) /\ bst x = Some ox /\ o <= ox) \/
       P (S (sp_depth n))) /\
    (forall ct n lb c ds polls m out,
       dd_ct ct -> good n -> (sp_depth n <= N)%nat -> length c = S N ->
       compile st_eqb (mk_input cfg ct n lb) 0 0 c ds polls = (m, out) ->
       forall o P, OPTo = Some o -> antitone P -> CS st_eqb cfg (sp_depth n) c o P ->
       forall d s0 th, entry st_eqb (m_cache m) d s0 th -> crit cfg o d s0 (th_value th) ->
         entry st_eqb c d s0 th \/ o <= bk_of (mk_input cfg ct n lb) m \/ P (S d) \/
         (ct = Relaxed /\ dd_is_exact m = false /\
          exists x ox, In x (drain_cutset (mk_input cfg ct n lb) m) /\ bst x = Some ox /\ o <= ox /\
            ((d < sp_depth x)%nat \/
             (sp_depth x = d /\ sp_state x = s0 /\ must_explore_th (Some th) (sp_value x) = true)))).
End Contract.

Section FromContracts.
  Context {St : Type}.
  Variable st_eqb : St -> St -> bool.
  Variable cfg : @sconfig St.
  Local Notation pb := (sc_problem cfg).
  Local Notation N := (nb_vars (sc_problem cfg)).
  Local Notation good := (sgood (sc_problem cfg)).
  Local Notation feas := (sfeasible (sc_problem cfg)).
  Local Notation bst := (MddSim.best cfg).

  Hypothesis cfg_cache : sc_use_cache cfg = true.
  Hypothesis cfg_nodup : sc_nodup cfg = false.
  Hypothesis nv_static : forall k l1 l2, next_variable pb k l1 = next_variable pb k l2.
  Hypothesis nv_some : forall k l, (k < N)%nat -> exists x, next_variable pb k l = Some x.
  Hypothesis nv_none : forall k l, (N <= k)%nat -> next_variable pb k l = None.
  Variable B : Z.
  Hypothesis HB : 2 * B <= IMAX.
  Hypothesis guard0 : forall ds s' v', frun pb 0 (init_state pb) (init_value pb) ds = Some (s', v') -> - B <= v' <= B.

  Lemma OPT_enum : SolverProofs.OPT cfg bst = opt_enum pb.
  Proof. apply OPT_is_opt_enum. Qed.

  Lemma opt_isize o : SolverProofs.OPT cfg bst = Some o -> IMIN < o <= IMAX.
  Proof.
    unfold SolverProofs.OPT, MddSim.best. cbn [root_node sp_value sp_depth sp_state].
    destruct (H pb 0 (init_state pb)) as [h|] eqn:Eh; [|discriminate]. simpl. intros E. inversion E; subst o.
    destruct (H_attained pb nv_static nv_some nv_none (N - 0) 0%nat (init_state pb) (init_value pb) h eq_refl
                ltac:(lia) Eh) as (ds & s' & Hr & _).
    pose proof (guard0 ds s' _ Hr). unfold IMIN, IMAX in *. lia.
  Qed.

  Lemma sbest_le_opt n v o : good n -> bst n = Some v -> SolverProofs.OPT cfg bst = Some o -> v <= o.
  Proof.
    intros (Hd & ds0 & H1 & _ & H3) Hb Ho.
    unfold MddSim.best, oadd in Hb.
    destruct (H pb (sp_depth n) (sp_state n)) as [h|] eqn:Eh; [|discriminate]. simpl in Hb. inversion Hb; subst v.
    destruct (H_attained pb nv_static nv_some nv_none (N - sp_depth n) (sp_depth n) (sp_state n) (sp_value n) h eq_refl Hd Eh)
      as (ds & s' & Hr & Hl).
    assert (Hfull : frun pb 0 (init_state pb) (init_value pb) (ds0 ++ ds) = Some (s', sp_value n + h)).
    { rewrite frun_app, H3, H1. exact Hr. }
    destruct (frun_le_H pb nv_static nv_none (ds0 ++ ds) 0%nat _ _ s' _ ltac:(rewrite app_length; lia) Hfull) as (h0 & Hh0 & Hle).
    unfold SolverProofs.OPT, MddSim.best in Ho. cbn [root_node sp_value sp_depth sp_state] in Ho.
    rewrite Hh0 in Ho. simpl in Ho. inversion Ho; subst o. exact Hle.
  Qed.

  Variable M : nat.
  Hypothesis HKS : KC_struct st_eqb cfg M.
  Hypothesis HKC : KC_cache st_eqb cfg.

  Theorem C09_from_contracts_run :
    exists f0, forall fuel, (f0 <= fuel)%nat ->
      let r := maximize st_eqb cfg fuel None in
      r_crash r = false /\ r_outoffuel r = false /\ r_exact r = true /\ r_value r = opt_enum pb /\
      (forall v, opt_enum pb = Some v ->
         r_lb r = v /\ r_ub r = v /\ exists sol, r_sol r = Some (sort_by dec_var_cmp sol) /\ feas sol v) /\
      (opt_enum pb = None -> r_sol r = None /\ r_lb r = IMIN).
  Proof.
    destruct HKS as (S0 & S1 & S3 & S5). destruct HKC as (C2 & C3 & C4 & CW).
    destruct (seq_cache_solver_correct st_eqb cfg cfg_cache cfg_nodup good feas (Assembly.good_root cfg)
                (Assembly.feasible_le_opt cfg nv_static nv_none) opt_isize sbest_le_opt
                (fun c u => sgood_set_ub pb c u) M) as [f0 Hf].
    - exact S0.
    - exact S1.
    - intros ct n lb c ds polls m out Hct Hg Hd Hl Hc He o P Ho. rewrite OPT_enum in Ho. exact (C2 ct n lb c ds polls m out Hct Hg Hd Hl Hc He o P Ho).
    - intros n lb c ds polls m out Hg Hd Hl Hc He x Hx. exact (proj1 (S3 n lb c ds polls m out Hg Hd Hl Hc He x Hx)).
    - intros n lb c ds polls m out Hg Hd Hl Hc He x Hx. exact (proj2 (S3 n lb c ds polls m out Hg Hd Hl Hc He x Hx)).
    - intros n lb c ds polls m out Hg Hd Hl Hc He x Hx o P Ho. rewrite OPT_enum in Ho. exact (C3 n lb c ds polls m out Hg Hd Hl Hc He x Hx o P Ho).
    - intros n lb c ds polls m out Hg Hd Hl Hc He o P Ho. rewrite OPT_enum in Ho. exact (C4 n lb c ds polls m out Hg Hd Hl Hc He o P Ho).
    - exact S5.
    - intros ct n lb c ds polls m out Hct Hg Hd Hl Hc o P Ho. rewrite OPT_enum in Ho. exact (CW ct n lb c ds polls m out Hct Hg Hd Hl Hc o P Ho).
    - exists f0. intros fuel Hfuel. specialize (Hf fuel Hfuel). rewrite OPT_enum in Hf. exact Hf.
  Qed.

  Theorem C09_from_contracts :
    exists f0, forall fuel, (f0 <= fuel)%nat ->
      let r := maximize st_eqb cfg fuel None in
      r_crash r = false /\ r_outoffuel r = false /\ r_exact r = true /\ r_value r = opt_enum pb /\
      (forall v, opt_enum pb = Some v ->
         r_lb r = v /\ r_ub r = v /\
         exists sol, r_sol r = Some (sort_by dec_var_cmp sol) /\ MddProgress.feasible pb sol v) /\
      (opt_enum pb = None -> r_sol r = None /\ r_lb r = IMIN).
  Proof.
    destruct C09_from_contracts_run as [f0 Hf]. exists f0. intros fuel Hfuel.
    destruct (Hf fuel Hfuel) as (A1 & A2 & A3 & A4 & A5 & A6).
    split; [exact A1|]. split; [exact A2|]. split; [exact A3|]. split; [exact A4|]. split; [|exact A6].
    intros v Hv. destruct (A5 v Hv) as (E1 & E2 & sol & S1 & S2). split; [exact E1|]. split; [exact E2|].
    exists sol. split; [exact S1|]. apply (sfeasible_feasible pb B HB guard0). exact S2.
  Qed.
End FromContracts.

Check @C09_from_contracts.
Print Assumptions C09_from_contracts.
