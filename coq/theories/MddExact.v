(* MddExact.v — properties C07 / C08(i) / C06 / C02 for the CLEAN flavours (CleanLEL, CleanFC) of Mdd.v:
   in a compiled diagram, every node whose best chain up to the root only traverses non-merged
   nodes has (state, value) equal to what replaying its best path through the user's model gives
   (with the saturating isize accumulation the code performs).

   Definitions
     replay_sat pb ds s v   DP.replay with sat_add accumulation  (replay_sat_eq_replay: equal to DP.replay
                            when no partial sum overflows; replay_sat_feasible: same states in any case)
     chain m id             walk_up (S (length nodes)) m (n_best (node id)), deepest decision first
     clean_chain m id       inductive: id and all nodes met walking the best edges are not F_RELAXED,
                            and the walk ends in node 0
     Sinv m                 static invariant of a diagram (node_ok / root_ok / ranges / edge_var_ok)
     Dinv m, Xinv m         dynamic invariants carried through the compilation loop

   Main results (all for ci_flavour inp = CleanLEL \/ CleanFC, st_eqb deciding equality)
     finalize_preserves_paths, finalize_spec
     T1  exact_flag_implies_clean_chain            (+ _loop version for the state after layer_loop)
     T2  has_exact_best_path_implies_clean_chain   (+ _loop)
     T3  clean_chain_replays (+ _loop), clean_chain_variables, clean_chain_feasible
     C1  restricted_solution_feasible, restricted_best_solution_replays
     C2  cutset_nodes_exact      (both cut-set kinds: last exact layer and frontier)
     C3  best_exact_solution_genuine (no hypothesis on the type / dd_is_exact needed),
         relaxed_exact_solution_genuine (the statement as asked)
     compile_Sinv_any: the static invariant holds whatever the outcome (so Sinv_* lemmas apply to
     diagrams returned with CutoffOccurred too).
   No statement had to be weakened (no _partial).

   Plan of the file
     1. list / upd_nth / record-projection lemmas     2. replay_sat, chain, clean_chain
     3. core equality of nodes, path-equivalence [peq] / [ceq] of diagrams, [stable]
     4. the invariants     5. preservation: append_edge, branch_on, expand_node, filters, squash
        (restrict / relax), layer move, layer_loop     6. finalize     7-8. the theorems. *)
Require Import DDO.Base DDO.Fringe DDO.DP DDO.Cache DDO.Dom DDO.Mdd.
Local Open Scope nat_scope.

(* ------------------------------------------------------------------ 1. lists *)
Lemma nth_upd_nth_same {A} (n : nat) (f : A -> A) (l : list A) (d : A) :
  n < length l -> nth n (upd_nth n f l) d = f (nth n l d).
Proof.
  revert n; induction l as [|x l IH]; intros [|n] H; simpl in *; try lia; auto.
  apply IH; lia.
Qed.

Lemma nth_upd_nth_other {A} (n k : nat) (f : A -> A) (l : list A) (d : A) :
  n <> k -> nth k (upd_nth n f l) d = nth k l d.
Proof.
  revert n k; induction l as [|x l IH]; intros [|n] [|k] H; simpl; auto; try congruence.
Qed.

Lemma upd_nth_out {A} (n : nat) (f : A -> A) (l : list A) :
  length l <= n -> upd_nth n f l = l.
Proof.
  revert n; induction l as [|x l IH]; intros [|n] H; simpl in *; auto; try lia.
  f_equal; apply IH; lia.
Qed.

Lemma nth_snoc_old {A} (l : list A) (x d : A) (k : nat) :
  k < length l -> nth k (l ++ [x]) d = nth k l d.
Proof. intros H; apply app_nth1; exact H. Qed.

Lemma nth_snoc_new {A} (l : list A) (x d : A) : nth (length l) (l ++ [x]) d = x.
Proof. rewrite app_nth2 by lia. rewrite Nat.sub_diag. reflexivity. Qed.

Lemma In_firstn {A} (n : nat) (l : list A) (x : A) : In x (firstn n l) -> In x l.
Proof.
  revert n; induction l as [|y l IH]; intros [|n] H; simpl in *; auto; try contradiction.
  destruct H as [H|H]; auto. right; eapply IH; eauto.
Qed.

Lemma In_skipn {A} (n : nat) (l : list A) (x : A) : In x (skipn n l) -> In x l.
Proof.
  revert n; induction l as [|y l IH]; intros [|n] H; simpl in *; auto.
  right; eapply IH; eauto.
Qed.

Lemma find_In {A} (p : A -> bool) (l : list A) (x : A) : find p l = Some x -> In x l /\ p x = true.
Proof. apply find_some. Qed.

Lemma fold_left_inv {A B} (P : A -> Prop) (f : A -> B -> A) (l : list B) (a : A) :
  P a -> (forall a x, In x l -> P a -> P (f a x)) -> P (fold_left f l a).
Proof.
  revert a; induction l as [|y l IH]; intros a Ha Hstep; simpl; auto.
  apply IH.
  - apply Hstep; simpl; auto.
  - intros a' x Hx Ha'; apply Hstep; simpl; auto.
Qed.

(* ------------------------------------------------------------------ tactic: projections of the record helpers *)
Local Ltac msimpl :=
  cbn [m_nodes m_edges m_layers m_layer_end m_next m_curr_depth m_path m_lel m_cutset m_best
       m_best_exact m_is_exact m_has_ebp m_cache m_dom m_log m_polls m_crash
       with_nodes upd_node add_log set_crash with_next with_cache with_dom with_lel_exact
       push_layer with_depth with_polls with_best with_cutset append_edge].
Local Ltac msimpl_in H :=
  cbn [m_nodes m_edges m_layers m_layer_end m_next m_curr_depth m_path m_lel m_cutset m_best
       m_best_exact m_is_exact m_has_ebp m_cache m_dom m_log m_polls m_crash
       with_nodes upd_node add_log set_crash with_next with_cache with_dom with_lel_exact
       push_layer with_depth with_polls with_best with_cutset append_edge] in H.
Local Ltac nsimpl :=
  cbn [n_state n_vtop n_vbot n_best n_inb n_rub n_theta n_flags n_depth
       set_flags set_theta set_vbot set_rub set_depth
       f_exact f_relaxed f_marked f_cutset f_deleted f_cache f_above
       fl_set_exact fl_set_relaxed fl_set_marked fl_set_cutset fl_set_deleted fl_set_cache fl_set_above
       fl_new_exact fl_new_relaxed e_from e_to e_dec e_cost].
Local Ltac nsimpl_in H :=
  cbn [n_state n_vtop n_vbot n_best n_inb n_rub n_theta n_flags n_depth
       set_flags set_theta set_vbot set_rub set_depth
       f_exact f_relaxed f_marked f_cutset f_deleted f_cache f_above
       fl_set_exact fl_set_relaxed fl_set_marked fl_set_cutset fl_set_deleted fl_set_cache fl_set_above
       fl_new_exact fl_new_relaxed e_from e_to e_dec e_cost] in H.

(* ------------------------------------------------------------------ 2. replay_sat *)
Section ReplaySat.
  Context {St : Type}.
  Variable pb : problem St.

  (* what the code computes: the accumulation saturates at the isize bounds *)
  Fixpoint replay_sat (ds : list decision) (s : St) (v : Z) : option (St * Z) :=
    match ds with
    | [] => Some (s, v)
    | d :: ds' =>
        if in_domain pb s d then
          let s' := transition pb s d in
          replay_sat ds' s' (sat_add v (transition_cost pb s s' d))
        else None
    end.

  (* "clampZ never fired": every exact partial sum along the path is an isize *)
  Fixpoint no_overflow (ds : list decision) (s : St) (v : Z) : Prop :=
    match ds with
    | [] => True
    | d :: ds' =>
        let s' := transition pb s d in
        let v' := (v + transition_cost pb s s' d)%Z in
        in_isize v' /\ no_overflow ds' s' v'
    end.

  Lemma replay_sat_eq_replay ds : forall s v,
    no_overflow ds s v -> replay_sat ds s v = replay pb ds s v.
  Proof.
    induction ds as [|d ds IH]; intros s v Hno; simpl; auto.
    destruct Hno as [Hin Hno].
    destruct (in_domain pb s d); auto.
    unfold step. unfold sat_add. rewrite clampZ_id by exact Hin. apply IH; exact Hno.
  Qed.

  Lemma replay_sat_app ds1 : forall ds2 s v,
    replay_sat (ds1 ++ ds2) s v =
    match replay_sat ds1 s v with Some (s', v') => replay_sat ds2 s' v' | None => None end.
  Proof.
    induction ds1 as [|d ds1 IH]; intros ds2 s v; simpl; auto.
    destruct (in_domain pb s d); auto.
  Qed.

  (* what a successful replay_sat means, decision by decision: each decision is in the domain of its
     variable at the state reached by the preceding ones, states follow [transition], values follow
     the saturated sum of [transition_cost] *)
  Lemma replay_sat_snoc ds d s v s1 v1 :
    replay_sat ds s v = Some (s1, v1) ->
    replay_sat (ds ++ [d]) s v =
      if in_domain pb s1 d then
        Some (transition pb s1 d, sat_add v1 (transition_cost pb s1 (transition pb s1 d) d))
      else None.
  Proof. intros H. rewrite replay_sat_app, H. reflexivity. Qed.

  Lemma replay_sat_prefix ds1 ds2 s v r :
    replay_sat (ds1 ++ ds2) s v = Some r -> exists r1, replay_sat ds1 s v = Some r1.
  Proof.
    rewrite replay_sat_app. destruct (replay_sat ds1 s v) as [[s1 v1]|]; [|discriminate].
    intros _. eexists; reflexivity.
  Qed.

  (* feasibility does not depend on the saturation: the same decisions replay through DP.replay,
     reaching the same state (the value may differ only if an isize overflow was clamped) *)
  Lemma replay_sat_feasible ds : forall s v s' v' w,
    replay_sat ds s v = Some (s', v') -> exists w', replay pb ds s w = Some (s', w').
  Proof.
    induction ds as [|d ds IH]; intros s v s' v' w H; simpl in *.
    - inversion H; subst. eexists; reflexivity.
    - destruct (in_domain pb s d); [|discriminate]. unfold step. eapply IH; eauto.
  Qed.

End ReplaySat.

Section Exact.
  Context {St : Type}.
  Variable st_eqb : St -> St -> bool.
  Hypothesis st_eqb_spec : forall a b, st_eqb a b = true <-> a = b.
  Variable inp : @cinput St.
  Hypothesis Hclean : ci_flavour inp = CleanLEL \/ ci_flavour inp = CleanFC.
  Let pb := ci_problem inp.
  Let root := ci_root inp.
  Notation mdd := (@mdd St).
  Notation node := (@node St).
  Notation gn := (get_node inp).

  Lemma not_pooled : is_pooled (ci_flavour inp) = false.
  Proof. destruct Hclean as [H|H]; rewrite H; reflexivity. Qed.

  (* ---------------------------------------------------------------- projection lemmas *)
  (* which fields each record-update helper changes (all by computation) *)
  Lemma with_nodes_proj (m : mdd) ns :
    m_nodes (with_nodes m ns) = ns /\ m_edges (with_nodes m ns) = m_edges m /\
    m_layers (with_nodes m ns) = m_layers m /\ m_layer_end (with_nodes m ns) = m_layer_end m /\
    m_next (with_nodes m ns) = m_next m /\ m_path (with_nodes m ns) = m_path m /\
    m_lel (with_nodes m ns) = m_lel m /\ m_cutset (with_nodes m ns) = m_cutset m /\
    m_best (with_nodes m ns) = m_best m /\ m_best_exact (with_nodes m ns) = m_best_exact m /\
    m_is_exact (with_nodes m ns) = m_is_exact m /\ m_curr_depth (with_nodes m ns) = m_curr_depth m.
  Proof. repeat split. Qed.

  Lemma upd_node_proj (m : mdd) id f :
    m_nodes (upd_node m id f) = upd_nth id f (m_nodes m) /\ m_edges (upd_node m id f) = m_edges m /\
    m_layers (upd_node m id f) = m_layers m /\ m_layer_end (upd_node m id f) = m_layer_end m /\
    m_next (upd_node m id f) = m_next m /\ m_path (upd_node m id f) = m_path m /\
    m_lel (upd_node m id f) = m_lel m /\ m_cutset (upd_node m id f) = m_cutset m /\
    m_best (upd_node m id f) = m_best m /\ m_best_exact (upd_node m id f) = m_best_exact m /\
    m_is_exact (upd_node m id f) = m_is_exact m /\ m_curr_depth (upd_node m id f) = m_curr_depth m.
  Proof. repeat split. Qed.

  Lemma add_log_proj (m : mdd) e :
    m_nodes (add_log m e) = m_nodes m /\ m_edges (add_log m e) = m_edges m /\
    m_layers (add_log m e) = m_layers m /\ m_layer_end (add_log m e) = m_layer_end m /\
    m_next (add_log m e) = m_next m /\ m_path (add_log m e) = m_path m /\
    m_lel (add_log m e) = m_lel m /\ m_cutset (add_log m e) = m_cutset m /\
    m_best (add_log m e) = m_best m /\ m_best_exact (add_log m e) = m_best_exact m /\
    m_is_exact (add_log m e) = m_is_exact m /\ m_curr_depth (add_log m e) = m_curr_depth m /\
    m_log (add_log m e) = e :: m_log m.
  Proof. repeat split. Qed.

  Lemma with_next_proj (m : mdd) nx :
    m_nodes (with_next m nx) = m_nodes m /\ m_edges (with_next m nx) = m_edges m /\
    m_layers (with_next m nx) = m_layers m /\ m_layer_end (with_next m nx) = m_layer_end m /\
    m_next (with_next m nx) = nx /\ m_path (with_next m nx) = m_path m /\
    m_lel (with_next m nx) = m_lel m /\ m_cutset (with_next m nx) = m_cutset m /\
    m_best (with_next m nx) = m_best m /\ m_best_exact (with_next m nx) = m_best_exact m /\
    m_is_exact (with_next m nx) = m_is_exact m /\ m_curr_depth (with_next m nx) = m_curr_depth m.
  Proof. repeat split. Qed.

  Lemma with_cache_proj (m : mdd) c :
    m_nodes (with_cache m c) = m_nodes m /\ m_edges (with_cache m c) = m_edges m /\
    m_layers (with_cache m c) = m_layers m /\ m_layer_end (with_cache m c) = m_layer_end m /\
    m_next (with_cache m c) = m_next m /\ m_path (with_cache m c) = m_path m /\
    m_lel (with_cache m c) = m_lel m /\ m_cutset (with_cache m c) = m_cutset m /\
    m_best (with_cache m c) = m_best m /\ m_best_exact (with_cache m c) = m_best_exact m /\
    m_is_exact (with_cache m c) = m_is_exact m /\ m_curr_depth (with_cache m c) = m_curr_depth m /\
    m_cache (with_cache m c) = c.
  Proof. repeat split. Qed.

  Lemma with_dom_proj (m : mdd) c :
    m_nodes (with_dom m c) = m_nodes m /\ m_edges (with_dom m c) = m_edges m /\
    m_layers (with_dom m c) = m_layers m /\ m_layer_end (with_dom m c) = m_layer_end m /\
    m_next (with_dom m c) = m_next m /\ m_path (with_dom m c) = m_path m /\
    m_lel (with_dom m c) = m_lel m /\ m_cutset (with_dom m c) = m_cutset m /\
    m_best (with_dom m c) = m_best m /\ m_best_exact (with_dom m c) = m_best_exact m /\
    m_is_exact (with_dom m c) = m_is_exact m /\ m_curr_depth (with_dom m c) = m_curr_depth m /\
    m_dom (with_dom m c) = c.
  Proof. repeat split. Qed.

  Lemma set_crash_proj (m : mdd) :
    m_nodes (set_crash m) = m_nodes m /\ m_edges (set_crash m) = m_edges m /\
    m_layers (set_crash m) = m_layers m /\ m_layer_end (set_crash m) = m_layer_end m /\
    m_next (set_crash m) = m_next m /\ m_path (set_crash m) = m_path m /\
    m_lel (set_crash m) = m_lel m /\ m_cutset (set_crash m) = m_cutset m /\
    m_best (set_crash m) = m_best m /\ m_best_exact (set_crash m) = m_best_exact m /\
    m_is_exact (set_crash m) = m_is_exact m /\ m_curr_depth (set_crash m) = m_curr_depth m /\
    m_crash (set_crash m) = true.
  Proof. repeat split. Qed.

  Lemma push_layer_proj (m : mdd) ids e :
    m_nodes (push_layer m ids e) = m_nodes m /\ m_edges (push_layer m ids e) = m_edges m /\
    m_layers (push_layer m ids e) = m_layers m ++ [ids] /\ m_layer_end (push_layer m ids e) = e /\
    m_next (push_layer m ids e) = m_next m /\ m_path (push_layer m ids e) = m_path m /\
    m_lel (push_layer m ids e) = m_lel m /\ m_cutset (push_layer m ids e) = m_cutset m /\
    m_best (push_layer m ids e) = m_best m /\ m_best_exact (push_layer m ids e) = m_best_exact m /\
    m_is_exact (push_layer m ids e) = m_is_exact m /\ m_curr_depth (push_layer m ids e) = m_curr_depth m.
  Proof. repeat split. Qed.

  Lemma with_lel_exact_proj (m : mdd) l x :
    m_nodes (with_lel_exact m l x) = m_nodes m /\ m_edges (with_lel_exact m l x) = m_edges m /\
    m_layers (with_lel_exact m l x) = m_layers m /\ m_layer_end (with_lel_exact m l x) = m_layer_end m /\
    m_next (with_lel_exact m l x) = m_next m /\ m_path (with_lel_exact m l x) = m_path m /\
    m_lel (with_lel_exact m l x) = l /\ m_cutset (with_lel_exact m l x) = m_cutset m /\
    m_best (with_lel_exact m l x) = m_best m /\ m_best_exact (with_lel_exact m l x) = m_best_exact m /\
    m_is_exact (with_lel_exact m l x) = x /\ m_curr_depth (with_lel_exact m l x) = m_curr_depth m.
  Proof. repeat split. Qed.

  Lemma with_depth_proj (m : mdd) d :
    m_nodes (with_depth m d) = m_nodes m /\ m_edges (with_depth m d) = m_edges m /\
    m_layers (with_depth m d) = m_layers m /\ m_layer_end (with_depth m d) = m_layer_end m /\
    m_next (with_depth m d) = m_next m /\ m_path (with_depth m d) = m_path m /\
    m_lel (with_depth m d) = m_lel m /\ m_cutset (with_depth m d) = m_cutset m /\
    m_best (with_depth m d) = m_best m /\ m_best_exact (with_depth m d) = m_best_exact m /\
    m_is_exact (with_depth m d) = m_is_exact m /\ m_curr_depth (with_depth m d) = d.
  Proof. repeat split. Qed.

  Lemma with_polls_proj (m : mdd) p :
    m_nodes (with_polls m p) = m_nodes m /\ m_edges (with_polls m p) = m_edges m /\
    m_layers (with_polls m p) = m_layers m /\ m_layer_end (with_polls m p) = m_layer_end m /\
    m_next (with_polls m p) = m_next m /\ m_path (with_polls m p) = m_path m /\
    m_lel (with_polls m p) = m_lel m /\ m_cutset (with_polls m p) = m_cutset m /\
    m_best (with_polls m p) = m_best m /\ m_best_exact (with_polls m p) = m_best_exact m /\
    m_is_exact (with_polls m p) = m_is_exact m /\ m_curr_depth (with_polls m p) = m_curr_depth m /\
    m_polls (with_polls m p) = p.
  Proof. repeat split. Qed.

  Lemma with_best_proj (m : mdd) b be :
    m_nodes (with_best m b be) = m_nodes m /\ m_edges (with_best m b be) = m_edges m /\
    m_layers (with_best m b be) = m_layers m /\ m_layer_end (with_best m b be) = m_layer_end m /\
    m_next (with_best m b be) = m_next m /\ m_path (with_best m b be) = m_path m /\
    m_lel (with_best m b be) = m_lel m /\ m_cutset (with_best m b be) = m_cutset m /\
    m_best (with_best m b be) = b /\ m_best_exact (with_best m b be) = be /\
    m_is_exact (with_best m b be) = m_is_exact m /\ m_curr_depth (with_best m b be) = m_curr_depth m.
  Proof. repeat split. Qed.

  Lemma with_cutset_proj (m : mdd) cs :
    m_nodes (with_cutset m cs) = m_nodes m /\ m_edges (with_cutset m cs) = m_edges m /\
    m_layers (with_cutset m cs) = m_layers m /\ m_layer_end (with_cutset m cs) = m_layer_end m /\
    m_next (with_cutset m cs) = m_next m /\ m_path (with_cutset m cs) = m_path m /\
    m_lel (with_cutset m cs) = m_lel m /\ m_cutset (with_cutset m cs) = cs /\
    m_best (with_cutset m cs) = m_best m /\ m_best_exact (with_cutset m cs) = m_best_exact m /\
    m_is_exact (with_cutset m cs) = m_is_exact m /\ m_curr_depth (with_cutset m cs) = m_curr_depth m.
  Proof. repeat split. Qed.

  Lemma append_edge_proj (m : mdd) e :
    m_edges (append_edge inp m e) = m_edges m ++ [e] /\
    length (m_nodes (append_edge inp m e)) = length (m_nodes m) /\
    m_layers (append_edge inp m e) = m_layers m /\ m_layer_end (append_edge inp m e) = m_layer_end m /\
    m_next (append_edge inp m e) = m_next m /\ m_path (append_edge inp m e) = m_path m /\
    m_lel (append_edge inp m e) = m_lel m /\ m_cutset (append_edge inp m e) = m_cutset m /\
    m_best (append_edge inp m e) = m_best m /\ m_best_exact (append_edge inp m e) = m_best_exact m /\
    m_is_exact (append_edge inp m e) = m_is_exact m /\ m_curr_depth (append_edge inp m e) = m_curr_depth m.
  Proof. repeat split. msimpl. apply upd_nth_length. Qed.

  (* ---------------------------------------------------------------- get_node / get_edge *)
  Lemma gn_upd_same (m : mdd) id f :
    id < length (m_nodes m) -> gn (upd_node m id f) id = f (gn m id).
  Proof. intros H. unfold get_node. msimpl. apply nth_upd_nth_same; exact H. Qed.

  Lemma gn_upd_other (m : mdd) id f k : id <> k -> gn (upd_node m id f) k = gn m k.
  Proof. intros H. unfold get_node. msimpl. apply nth_upd_nth_other; exact H. Qed.

  Lemma gn_upd_out (m : mdd) id f k : length (m_nodes m) <= id -> gn (upd_node m id f) k = gn m k.
  Proof. intros H. unfold get_node. msimpl. rewrite upd_nth_out by exact H. reflexivity. Qed.

  Lemma gn_nodes_eq (m m' : mdd) k : m_nodes m' = m_nodes m -> gn m' k = gn m k.
  Proof. intros H. unfold get_node. rewrite H. reflexivity. Qed.

  Lemma ge_edges_eq (m m' : mdd) k : m_edges m' = m_edges m -> get_edge m' k = get_edge m k.
  Proof. intros H. unfold get_edge. rewrite H. reflexivity. Qed.

  Lemma ge_snoc_old (m m' : mdd) e k :
    m_edges m' = m_edges m ++ [e] -> k < length (m_edges m) -> get_edge m' k = get_edge m k.
  Proof. intros H Hk. unfold get_edge. rewrite H. apply nth_snoc_old; exact Hk. Qed.

  Lemma ge_snoc_new (m m' : mdd) e :
    m_edges m' = m_edges m ++ [e] -> get_edge m' (length (m_edges m)) = e.
  Proof. intros H. unfold get_edge. rewrite H. apply nth_snoc_new. Qed.

  (* ================================================================== 2b. chain, clean_chain *)
  Definition chain (m : mdd) (id : nat) : list decision :=
    walk_up inp (S (length (m_nodes m))) m (n_best (gn m id)).

  Lemma best_path_chain (m : mdd) id : best_path inp m id = m_path m ++ chain m id.
  Proof. reflexivity. Qed.

  (* [id] and every node met walking the best edges up to a node without best edge are
     not merged nodes, and that last node is node 0 (the root) *)
  Inductive clean_chain (m : mdd) : nat -> Prop :=
  | cc_root : f_relaxed (n_flags (gn m 0)) = false -> n_best (gn m 0) = None -> clean_chain m 0
  | cc_step : forall id eid,
      f_relaxed (n_flags (gn m id)) = false -> n_best (gn m id) = Some eid ->
      clean_chain m (e_from (get_edge m eid)) -> clean_chain m id.

  (* ================================================================== 3. core equality, path equivalence *)
  Definition core_eq (a b : node) : Prop :=
    n_state a = n_state b /\ n_vtop a = n_vtop b /\ n_best a = n_best b /\ n_inb a = n_inb b /\
    f_exact (n_flags a) = f_exact (n_flags b) /\ f_relaxed (n_flags a) = f_relaxed (n_flags b) /\
    n_depth a = n_depth b.

  Lemma core_eq_refl a : core_eq a a.
  Proof. repeat split. Qed.
  Lemma core_eq_sym a b : core_eq a b -> core_eq b a.
  Proof. unfold core_eq; intuition. Qed.
  Lemma core_eq_trans a b c : core_eq a b -> core_eq b c -> core_eq a c.
  Proof. unfold core_eq; intuition congruence. Qed.
  Lemma core_eq_is_exact a b : core_eq a b -> fl_is_exact (n_flags a) = fl_is_exact (n_flags b).
  Proof. unfold core_eq, fl_is_exact; intros (_ & _ & _ & _ & H1 & H2 & _). rewrite H1, H2. reflexivity. Qed.

  Definition peq (m m' : mdd) : Prop :=
    m_edges m' = m_edges m /\ m_path m' = m_path m /\ length (m_nodes m') = length (m_nodes m) /\
    forall id, core_eq (gn m id) (gn m' id).

  Lemma peq_refl m : peq m m.
  Proof. repeat split. Qed.
  Lemma peq_trans m1 m2 m3 : peq m1 m2 -> peq m2 m3 -> peq m1 m3.
  Proof.
    intros (A1 & A2 & A3 & A4) (B1 & B2 & B3 & B4). repeat split; try congruence.
    all: destruct (A4 id) as (a1 & a2 & a3 & a4 & a5 & a6 & a7);
         destruct (B4 id) as (b1 & b2 & b3 & b4 & b5 & b6 & b7); congruence.
  Qed.
  Lemma peq_sym m1 m2 : peq m1 m2 -> peq m2 m1.
  Proof.
    intros (A1 & A2 & A3 & A4). unfold peq. repeat split; try congruence.
    all: destruct (A4 id) as (a1 & a2 & a3 & a4 & a5 & a6 & a7); congruence.
  Qed.

  (* any change of the fields outside the core is invisible *)
  Lemma peq_same_nodes (m m' : mdd) :
    m_nodes m' = m_nodes m -> m_edges m' = m_edges m -> m_path m' = m_path m -> peq m m'.
  Proof.
    intros H1 H2 H3. unfold peq. rewrite H1. repeat split; auto.
    all: rewrite (gn_nodes_eq m m' id H1); reflexivity.
  Qed.

  Lemma peq_upd_node (m : mdd) id f :
    (forall n, core_eq n (f n)) -> peq m (upd_node m id f).
  Proof.
    intros Hf. unfold peq. msimpl. rewrite upd_nth_length. split; [reflexivity|]. split; [reflexivity|].
    split; [reflexivity|]. intros k.
    destruct (Nat.eq_dec id k) as [->|Hne].
    - destruct (Nat.lt_ge_cases k (length (m_nodes m))) as [Hlt|Hge].
      + rewrite gn_upd_same by exact Hlt. apply Hf.
      + rewrite gn_upd_out by exact Hge. apply core_eq_refl.
    - rewrite gn_upd_other by exact Hne. apply core_eq_refl.
  Qed.

  Lemma peq_fold {B} (f : mdd -> B -> mdd) (l : list B) (m : mdd) :
    (forall m x, peq m (f m x)) -> peq m (fold_left f l m).
  Proof.
    intros Hf. revert m; induction l as [|x l IH]; intros m; simpl.
    - apply peq_refl.
    - eapply peq_trans; [apply Hf|apply IH].
  Qed.

  (* the core-neutral node updates used by the code *)
  Lemma core_eq_set_flags_nc (n : node) fl :
    f_exact fl = f_exact (n_flags n) -> f_relaxed fl = f_relaxed (n_flags n) -> core_eq n (set_flags n fl).
  Proof. intros H1 H2. unfold core_eq. nsimpl. rewrite H1, H2. repeat split. Qed.
  Lemma core_eq_set_theta (n : node) t : core_eq n (set_theta n t).
  Proof. repeat split. Qed.
  Lemma core_eq_set_vbot (n : node) t : core_eq n (set_vbot n t).
  Proof. repeat split. Qed.
  Lemma core_eq_set_rub (n : node) t : core_eq n (set_rub n t).
  Proof. repeat split. Qed.

  (* ================================================================== 4. the invariant *)
  Definition best_ok (m : mdd) (id eid : nat) : Prop :=
    eid < length (m_edges m) /\
    e_to (get_edge m eid) = id /\
    e_from (get_edge m eid) < id /\
    n_state (gn m id) = transition pb (n_state (gn m (e_from (get_edge m eid)))) (e_dec (get_edge m eid)) /\
    e_cost (get_edge m eid) =
      transition_cost pb (n_state (gn m (e_from (get_edge m eid)))) (n_state (gn m id)) (e_dec (get_edge m eid)) /\
    in_domain pb (n_state (gn m (e_from (get_edge m eid)))) (e_dec (get_edge m eid)) = true /\
    n_vtop (gn m id) = sat_add (n_vtop (gn m (e_from (get_edge m eid)))) (e_cost (get_edge m eid)) /\
    n_depth (gn m id) = S (n_depth (gn m (e_from (get_edge m eid)))) /\
    (fl_is_exact (n_flags (gn m id)) = true -> fl_is_exact (n_flags (gn m (e_from (get_edge m eid)))) = true).

  Definition node_ok (m : mdd) (id : nat) : Prop :=
    (forall eid, In eid (n_inb (gn m id)) -> eid < length (m_edges m)) /\
    (f_relaxed (n_flags (gn m id)) = false ->
       match n_best (gn m id) with None => id = 0 | Some eid => best_ok m id eid end).

  Definition root_ok (m : mdd) : Prop :=
    0 < length (m_nodes m) /\ n_state (gn m 0) = sp_state root /\ n_vtop (gn m 0) = sp_value root /\
    n_depth (gn m 0) = sp_depth root /\ m_path m = sp_path root.

  (* the decision of an edge branches on the variable that next_variable returned for the layer of
     its source (for some layer content [states]) *)
  Definition edge_var_ok (m : mdd) (eid : nat) : Prop :=
    exists states, next_variable pb (n_depth (gn m (e_from (get_edge m eid)))) states
                   = Some (d_var (e_dec (get_edge m eid))).

  (* the static invariant: what the theorems need of a finished diagram *)
  Record Sinv (m : mdd) : Prop := {
    S_nodes : forall id, id < length (m_nodes m) -> node_ok m id;
    S_root : root_ok m;
    S_efrom : forall eid, eid < length (m_edges m) -> e_from (get_edge m eid) < length (m_nodes m);
    S_next : forall id, In id (m_next m) -> id < length (m_nodes m);
    S_var : forall eid, eid < length (m_edges m) -> edge_var_ok m eid }.

  (* the dynamic invariant: sources of edges are closed nodes (below m_layer_end), open nodes are above;
     [P] selects the nodes whose node_ok is claimed (all but a freshly created one) *)
  Record Dg (P : nat -> Prop) (m : mdd) : Prop := {
    D_nodes : forall id, id < length (m_nodes m) -> P id -> node_ok m id;
    D_root : root_ok m;
    D_efrom : forall eid, eid < length (m_edges m) -> e_from (get_edge m eid) < m_layer_end m;
    D_le : m_layer_end m <= length (m_nodes m);
    D_next : forall id, In id (m_next m) -> m_layer_end m <= id < length (m_nodes m);
    D_var : forall eid, eid < length (m_edges m) -> edge_var_ok m eid }.
  Definition Dinv := Dg (fun _ => True).

  Lemma Dinv_Sinv m : Dinv m -> Sinv m.
  Proof.
    intros [H1 H2 H3 H4 H5 H6]. split; auto.
    - intros eid He. specialize (H3 eid He). lia.
    - intros id Hid. apply H5 in Hid. lia.
  Qed.

  Lemma Dg_weaken (P Q : nat -> Prop) m : (forall id, Q id -> P id) -> Dg P m -> Dg Q m.
  Proof. intros HPQ [H1 H2 H3 H4 H5 H6]. split; auto. Qed.

  Lemma node_ok_transfer (m m' : mdd) id :
    node_ok m id ->
    core_eq (gn m id) (gn m' id) ->
    (forall eid, eid < length (m_edges m) ->
        eid < length (m_edges m') /\ get_edge m' eid = get_edge m eid /\
        core_eq (gn m (e_from (get_edge m eid))) (gn m' (e_from (get_edge m eid)))) ->
    node_ok m' id.
  Proof.
    intros [Hinb Hbest] Hc Hedges.
    pose proof (core_eq_is_exact _ _ Hc) as Hex.
    destruct Hc as (c1 & c2 & c3 & c4 & c5 & c6 & c7).
    split.
    - rewrite <- c4. intros eid Hin. apply Hinb in Hin. apply Hedges in Hin. tauto.
    - rewrite <- c6, <- c3. intros Hr. specialize (Hbest Hr).
      destruct (n_best (gn m id)) as [eid|]; auto.
      destruct Hbest as (b1 & b2 & b3 & b4 & b5 & b6 & b7 & b8 & b9).
      destruct (Hedges eid b1) as (E1 & E2 & E3).
      pose proof (core_eq_is_exact _ _ E3) as Hpex.
      destruct E3 as (p1 & p2 & p3 & p4 & p5 & p6 & p7).
      unfold best_ok. rewrite E2. rewrite <- c1, <- c2, <- c7, <- p1, <- p2, <- p7, <- Hex, <- Hpex.
      repeat split; auto.
  Qed.

  Lemma edge_var_ok_transfer (m m' : mdd) eid :
    edge_var_ok m eid -> get_edge m' eid = get_edge m eid ->
    n_depth (gn m' (e_from (get_edge m eid))) = n_depth (gn m (e_from (get_edge m eid))) ->
    edge_var_ok m' eid.
  Proof. intros [st H] He Hd. exists st. rewrite He, Hd. exact H. Qed.

  Lemma edge_var_ok_peq m m' eid : peq m m' -> edge_var_ok m eid -> edge_var_ok m' eid.
  Proof.
    intros (A1 & A2 & A3 & A4) H. eapply edge_var_ok_transfer; [exact H|apply ge_edges_eq; exact A1|].
    destruct (A4 (e_from (get_edge m eid))) as (_ & _ & _ & _ & _ & _ & c7). congruence.
  Qed.

  Lemma node_ok_peq m m' id : peq m m' -> node_ok m id -> node_ok m' id.
  Proof.
    intros (A1 & A2 & A3 & A4) Hok. eapply node_ok_transfer; eauto.
    intros eid He. rewrite A1. split; [exact He|]. split; [apply ge_edges_eq; exact A1|apply A4].
  Qed.

  Lemma root_ok_peq m m' : peq m m' -> root_ok m -> root_ok m'.
  Proof.
    intros (A1 & A2 & A3 & A4) (r1 & r2 & r3 & r4 & r5).
    destruct (A4 0) as (c1 & c2 & c3 & c4 & c5 & c6 & c7).
    unfold root_ok. rewrite A3, A2, <- c1, <- c2, <- c7. auto.
  Qed.

  Lemma Sinv_peq m m' :
    peq m m' -> (forall id, In id (m_next m') -> id < length (m_nodes m')) -> Sinv m -> Sinv m'.
  Proof.
    intros Hp Hnext [H1 H2 H3 H4 H5]. pose proof Hp as (A1 & A2 & A3 & A4). split; auto.
    - intros id Hid. eapply node_ok_peq; eauto. apply H1. lia.
    - eapply root_ok_peq; eauto.
    - intros eid He. rewrite (ge_edges_eq m m' eid A1). rewrite A3. apply H3. rewrite <- A1. exact He.
    - intros eid He. eapply edge_var_ok_peq; eauto. apply H5. rewrite <- A1. exact He.
  Qed.

  Lemma Dg_peq P m m' :
    peq m m' -> Dg P m ->
    m_layer_end m <= m_layer_end m' -> m_layer_end m' <= length (m_nodes m') ->
    (forall id, In id (m_next m') -> m_layer_end m' <= id < length (m_nodes m')) ->
    Dg P m'.
  Proof.
    intros Hp [H1 H2 H3 H4 H5 H6] Hle1 Hle2 Hnext. pose proof Hp as (A1 & A2 & A3 & A4). split; auto.
    - intros id Hid HP. eapply node_ok_peq; eauto. apply H1; auto. lia.
    - eapply root_ok_peq; eauto.
    - intros eid He. rewrite (ge_edges_eq m m' eid A1). rewrite A1 in He. specialize (H3 eid He). lia.
    - intros eid He. eapply edge_var_ok_peq; eauto. apply H6. rewrite <- A1. exact He.
  Qed.

  (* same next / layer_end / layers / lel / cutset: the usual case *)
  Definition ceq (m m' : mdd) : Prop :=
    peq m m' /\ m_next m' = m_next m /\ m_layer_end m' = m_layer_end m /\
    m_layers m' = m_layers m /\ m_lel m' = m_lel m /\ m_cutset m' = m_cutset m /\
    m_curr_depth m' = m_curr_depth m.
  Lemma ceq_refl m : ceq m m.
  Proof. split; [apply peq_refl|repeat split]. Qed.
  Lemma ceq_trans m1 m2 m3 : ceq m1 m2 -> ceq m2 m3 -> ceq m1 m3.
  Proof.
    intros (A & B & C & D & E & F & G) (A' & B' & C' & D' & E' & F' & G').
    split; [eapply peq_trans; eauto|]. repeat split; congruence.
  Qed.
  Lemma Dg_ceq P m m' : ceq m m' -> Dg P m -> Dg P m'.
  Proof.
    intros (Hp & Hn & Hl & _) HD. pose proof Hp as (A1 & A2 & A3 & A4).
    eapply Dg_peq; eauto.
    - lia.
    - rewrite Hl, A3. apply (D_le _ _ HD).
    - rewrite Hl, Hn, A3. apply (D_next _ _ HD).
  Qed.
  Lemma ceq_upd_node (m : mdd) id f : (forall n, core_eq n (f n)) -> ceq m (upd_node m id f).
  Proof. intros Hf. split; [apply peq_upd_node; exact Hf|]. repeat split. Qed.
  Lemma ceq_fold {B} (f : mdd -> B -> mdd) (l : list B) (m : mdd) :
    (forall m x, ceq m (f m x)) -> ceq m (fold_left f l m).
  Proof.
    intros Hf. revert m; induction l as [|x l IH]; intros m; simpl.
    - apply ceq_refl.
    - eapply ceq_trans; [apply Hf|apply IH].
  Qed.
  Ltac ceq_triv := split; [apply peq_same_nodes; reflexivity|repeat split].
  Lemma ceq_add_log (m : mdd) ev : ceq m (add_log m ev).
  Proof. ceq_triv. Qed.
  Lemma ceq_set_crash (m : mdd) : ceq m (set_crash m).
  Proof. ceq_triv. Qed.
  Lemma ceq_with_cache (m : mdd) c : ceq m (with_cache m c).
  Proof. ceq_triv. Qed.
  Lemma ceq_with_dom (m : mdd) c : ceq m (with_dom m c).
  Proof. ceq_triv. Qed.
  Lemma ceq_with_polls (m : mdd) c : ceq m (with_polls m c).
  Proof. ceq_triv. Qed.

  (* closed nodes (below m_layer_end) keep their core; state and depth of a node never change *)
  Definition stable (m m' : mdd) : Prop :=
    m_layer_end m' = m_layer_end m /\ length (m_nodes m) <= length (m_nodes m') /\
    (forall id, id < m_layer_end m -> core_eq (gn m id) (gn m' id)) /\
    (forall id, id < length (m_nodes m) ->
       n_state (gn m' id) = n_state (gn m id) /\ n_depth (gn m' id) = n_depth (gn m id)) /\
    m_curr_depth m' = m_curr_depth m.
  Lemma stable_refl m : stable m m.
  Proof. repeat split; auto. Qed.
  Lemma stable_trans m1 m2 m3 : stable m1 m2 -> stable m2 m3 -> stable m1 m3.
  Proof.
    intros (A & B & C & D & E) (A' & B' & C' & D' & E'). split; [congruence|]. split; [lia|]. split; [|split].
    - intros id Hid. eapply core_eq_trans; [apply C; exact Hid|apply C'; rewrite A; exact Hid].
    - intros id Hid. destruct (D id Hid) as [d1 d2]. destruct (D' id) as [d1' d2']; [lia|].
      split; congruence.
    - congruence.
  Qed.
  Lemma ceq_stable m m' : ceq m m' -> stable m m'.
  Proof.
    intros ((A1 & A2 & A3 & A4) & _ & Hl & _ & _ & _ & Hcd). split; [exact Hl|]. split; [lia|]. split; [|split].
    - intros id _. apply A4.
    - intros id _. destruct (A4 id) as (c1 & c2 & c3 & c4 & c5 & c6 & c7). split; congruence.
    - exact Hcd.
  Qed.

  (* ================================================================== 5. preservation *)
  (* ---------------------------------------------------------------- append_edge *)
  Lemma gn_append_other (m : mdd) e k : k <> e_to e -> gn (append_edge inp m e) k = gn m k.
  Proof. intros H. unfold get_node. msimpl. apply nth_upd_nth_other. congruence. Qed.

  Lemma gn_append_same (m : mdd) e :
    e_to e < length (m_nodes m) ->
    gn (append_edge inp m e) (e_to e) =
    let n := gn m (e_to e) in
    let value := sat_add (n_vtop (gn m (e_from e))) (e_cost e) in
    let better := (value >=? n_vtop n)%Z in
    {| n_state := n_state n; n_vtop := if better then value else n_vtop n; n_vbot := n_vbot n;
       n_best := if better then Some (length (m_edges m)) else n_best n;
       n_inb := length (m_edges m) :: n_inb n; n_rub := n_rub n; n_theta := n_theta n;
       n_flags := fl_set_exact (n_flags n)
                    (fl_is_exact (n_flags (gn m (e_from e))) && fl_is_exact (n_flags n));
       n_depth := n_depth n |}.
  Proof.
    intros H. unfold get_node. msimpl. rewrite nth_upd_nth_same by exact H. reflexivity.
  Qed.

  Lemma fl_is_exact_set_exact fl b :
    fl_is_exact (fl_set_exact fl b) = b && negb (f_relaxed fl).
  Proof. reflexivity. Qed.

  Lemma append_edge_Dg (m : mdd) (e : edge) :
    Dg (fun id => id <> e_to e) m ->
    e_from e < m_layer_end m -> m_layer_end m <= e_to e -> e_to e < length (m_nodes m) ->
    (forall x, In x (n_inb (gn m (e_to e))) -> x < length (m_edges m)) ->
    (f_relaxed (n_flags (gn m (e_to e))) = false ->
       n_state (gn m (e_to e)) = transition pb (n_state (gn m (e_from e))) (e_dec e) /\
       e_cost e = transition_cost pb (n_state (gn m (e_from e))) (n_state (gn m (e_to e))) (e_dec e) /\
       in_domain pb (n_state (gn m (e_from e))) (e_dec e) = true /\
       n_depth (gn m (e_to e)) = S (n_depth (gn m (e_from e))) /\
       match n_best (gn m (e_to e)) with
       | None => (n_vtop (gn m (e_to e)) <= sat_add (n_vtop (gn m (e_from e))) (e_cost e))%Z
       | Some b => best_ok m (e_to e) b
       end) ->
    (exists states, next_variable pb (n_depth (gn m (e_from e))) states = Some (d_var (e_dec e))) ->
    Dinv (append_edge inp m e).
  Proof.
    intros [H1 H2 H3 H4 H5 H6] Hfrom Hto Hlt Hinb Hpre Hvar.
    assert (Hne : e_from e <> e_to e) by lia.
    assert (Hedges : m_edges (append_edge inp m e) = m_edges m ++ [e]) by reflexivity.
    assert (Hlen : length (m_nodes (append_edge inp m e)) = length (m_nodes m))
      by (msimpl; apply upd_nth_length).
    assert (Helen : length (m_edges (append_edge inp m e)) = S (length (m_edges m)))
      by (rewrite Hedges, app_length; simpl; lia).
    split.
    - (* nodes *)
      intros id Hid _. rewrite Hlen in Hid.
      destruct (Nat.eq_dec id (e_to e)) as [->|Hidne].
      + (* the target *)
        unfold node_ok, best_ok. rewrite gn_append_same by exact Hlt.
        cbv zeta. nsimpl. rewrite Helen. split.
        * intros x [<-|Hx]; [lia|]. apply Hinb in Hx. lia.
        * intros Hr. specialize (Hpre Hr). destruct Hpre as (P1 & P2 & P3 & P4 & P5).
          destruct (sat_add (n_vtop (gn m (e_from e))) (e_cost e) >=? n_vtop (gn m (e_to e)))%Z eqn:Hb.
          -- rewrite (ge_snoc_new m _ e Hedges).
             rewrite (gn_append_other m e (e_from e) Hne).
             rewrite fl_is_exact_set_exact.
             repeat split; auto; try lia.
             intros Hx. apply andb_true_iff in Hx. destruct Hx as [Hx _].
             apply andb_true_iff in Hx. tauto.
          -- destruct (n_best (gn m (e_to e))) as [b|].
             ++ destruct P5 as (b1 & b2 & b3 & b4 & b5 & b6 & b7 & b8 & b9).
                rewrite (ge_snoc_old m _ e b Hedges b1).
                assert (Hsrc : e_from (get_edge m b) <> e_to e) by lia.
                rewrite (gn_append_other m e _ Hsrc).
                rewrite fl_is_exact_set_exact.
                repeat split; auto; try lia.
                intros Hx. apply andb_true_iff in Hx. destruct Hx as [Hx _].
                apply andb_true_iff in Hx. tauto.
             ++ exfalso. rewrite Z.geb_leb in Hb. apply Z.leb_gt in Hb. lia.
      + (* the other nodes *)
        eapply node_ok_transfer.
        * apply H1; auto.
        * rewrite gn_append_other by exact Hidne. apply core_eq_refl.
        * intros x Hx. split; [lia|]. split; [apply (ge_snoc_old m _ e x Hedges Hx)|].
          specialize (H3 x Hx).
          rewrite gn_append_other by lia. apply core_eq_refl.
    - (* root *)
      destruct H2 as (r1 & r2 & r3 & r4 & r5). unfold root_ok.
      rewrite Hlen. rewrite gn_append_other by lia. auto.
    - (* sources *)
      intros x Hx. rewrite Helen in Hx.
      destruct (Nat.eq_dec x (length (m_edges m))) as [->|Hxne].
      + rewrite (ge_snoc_new m _ e Hedges). exact Hfrom.
      + assert (Hx' : x < length (m_edges m)) by lia.
        rewrite (ge_snoc_old m _ e x Hedges Hx'). apply H3; exact Hx'.
    - rewrite Hlen. exact H4.
    - intros id Hid. rewrite Hlen. apply H5. exact Hid.
    - (* variables *)
      intros x Hx. rewrite Helen in Hx.
      destruct (Nat.eq_dec x (length (m_edges m))) as [->|Hxne].
      + unfold edge_var_ok. rewrite (ge_snoc_new m _ e Hedges). rewrite gn_append_other by exact Hne. exact Hvar.
      + assert (Hx' : x < length (m_edges m)) by lia.
        eapply edge_var_ok_transfer; [apply H6; exact Hx'|apply (ge_snoc_old m _ e x Hedges Hx')|].
        specialize (H3 x Hx'). rewrite gn_append_other by lia. reflexivity.
  Qed.

  Lemma append_edge_stable (m : mdd) e :
    m_layer_end m <= e_to e -> stable m (append_edge inp m e).
  Proof.
    intros Hto. split; [reflexivity|]. split; [|split; [|split]].
    - msimpl. rewrite upd_nth_length. lia.
    - intros id Hid. rewrite gn_append_other by lia. apply core_eq_refl.
    - intros id Hid. destruct (Nat.eq_dec id (e_to e)) as [->|Hne].
      + rewrite gn_append_same by exact Hid. split; reflexivity.
      + rewrite gn_append_other by exact Hne. split; reflexivity.
    - reflexivity.
  Qed.
  (* ---------------------------------------------------------------- the extra invariant
     (empty cutset during compilation; nodes are exact-flagged as long as nothing was squashed /
      for the non-relaxed compilations; layers are closed; the layer designated by m_lel is exact) *)
  Record Xg (bound : nat) (m : mdd) : Prop := {
    X_cutset : m_cutset m = [];
    X_exact_nr : ci_type inp <> Relaxed ->
                 forall id, id < length (m_nodes m) -> fl_is_exact (n_flags (gn m id)) = true;
    X_lel_none : m_lel m = None ->
                 forall id, id < length (m_nodes m) -> fl_is_exact (n_flags (gn m id)) = true;
    X_lel_lt : ci_type inp = Relaxed -> forall k, m_lel m = Some k -> k < length (m_layers m);
    X_layers : forall ids id, In ids (m_layers m) -> In id ids -> id < bound;
    X_lel_some : forall k ids id, m_lel m = Some k -> nth_error (m_layers m) k = Some ids -> In id ids ->
                 fl_is_exact (n_flags (gn m id)) = true }.
  Definition Xinv (m : mdd) : Prop := Xg (m_layer_end m) m.   (* during the compilation: layers are closed *)
  Definition Xs (m : mdd) : Prop := Xg (length (m_nodes m)) m. (* afterwards: layers are in range *)

  Lemma Xinv_ceq m m' : ceq m m' -> Xinv m -> Xinv m'.
  Proof.
    intros ((A1 & A2 & A3 & A4) & Hn & Hl & Hly & Hlel & Hcs & _) [X1 X2 X3 X4 X5 X6].
    split.
    - congruence.
    - intros Ht id Hid. rewrite <- (core_eq_is_exact _ _ (A4 id)). apply X2; auto. lia.
    - intros Hnone id Hid. rewrite <- (core_eq_is_exact _ _ (A4 id)). apply X3; auto; [congruence|lia].
    - intros Ht k Hk. rewrite Hly. apply X4; auto. congruence.
    - intros ids id H1 H2. rewrite Hl. rewrite Hly in H1. eapply X5; eauto.
    - intros k ids id H1 H2 H3. rewrite <- (core_eq_is_exact _ _ (A4 id)).
      rewrite Hlel in H1. rewrite Hly in H2. eapply X6; eauto.
  Qed.

  Lemma append_edge_Xinv (m : mdd) e :
    Xinv m -> m_layer_end m <= e_to e -> e_to e < length (m_nodes m) -> e_from e < length (m_nodes m) ->
    Xinv (append_edge inp m e).
  Proof.
    intros [X1 X2 X3 X4 X5 X6] Hto Hlt Hfrom.
    assert (Hlen : length (m_nodes (append_edge inp m e)) = length (m_nodes m))
      by (msimpl; apply upd_nth_length).
    assert (Hall : (forall id, id < length (m_nodes m) -> fl_is_exact (n_flags (gn m id)) = true) ->
                   forall id, id < length (m_nodes (append_edge inp m e)) ->
                   fl_is_exact (n_flags (gn (append_edge inp m e) id)) = true).
    { intros Hex id Hid. rewrite Hlen in Hid.
      destruct (Nat.eq_dec id (e_to e)) as [->|Hne].
      - rewrite gn_append_same by exact Hlt. cbv zeta. nsimpl. rewrite fl_is_exact_set_exact.
        pose proof (Hex _ Hlt) as Ht. pose proof (Hex _ Hfrom) as Hp. rewrite Hp, Ht. simpl.
        unfold fl_is_exact in Ht. apply andb_true_iff in Ht. tauto.
      - rewrite gn_append_other by exact Hne. apply Hex; exact Hid. }
    split.
    - exact X1.
    - intros Ht. apply Hall. apply X2; exact Ht.
    - intros Hnone. apply Hall. apply X3; exact Hnone.
    - exact X4.
    - exact X5.
    - intros k ids id H1 H2 H3.
      assert (Hid : id < m_layer_end m).
      { eapply X5; eauto. eapply nth_error_In; eauto. }
      rewrite gn_append_other by lia. eapply X6; eauto.
  Qed.

  (* ---------------------------------------------------------------- a fresh node *)
  Lemma gn_snoc_old (m : mdd) n k :
    k < length (m_nodes m) -> gn (with_nodes m (m_nodes m ++ [n])) k = gn m k.
  Proof. intros H. unfold get_node. msimpl. apply nth_snoc_old; exact H. Qed.
  Lemma gn_snoc_new (m : mdd) n : gn (with_nodes m (m_nodes m ++ [n])) (length (m_nodes m)) = n.
  Proof. unfold get_node. msimpl. apply nth_snoc_new. Qed.
  Lemma len_snoc (m : mdd) n : length (m_nodes (with_nodes m (m_nodes m ++ [n]))) = S (length (m_nodes m)).
  Proof. msimpl. rewrite app_length. simpl. lia. Qed.

  Lemma Dg_snoc_node (m : mdd) n :
    Dinv m -> Dg (fun id => id <> length (m_nodes m)) (with_nodes m (m_nodes m ++ [n])).
  Proof.
    intros [H1 H2 H3 H4 H5 H6]. split.
    - intros id Hid Hne. rewrite len_snoc in Hid.
      assert (Hid' : id < length (m_nodes m)) by lia.
      eapply node_ok_transfer.
      + apply H1; auto.
      + rewrite gn_snoc_old by exact Hid'. apply core_eq_refl.
      + intros x Hx. split; [exact Hx|]. split; [reflexivity|].
        specialize (H3 x Hx). rewrite gn_snoc_old by lia. apply core_eq_refl.
    - destruct H2 as (r1 & r2 & r3 & r4 & r5). unfold root_ok. rewrite len_snoc.
      rewrite gn_snoc_old by exact r1. repeat split; auto.
    - exact H3.
    - rewrite len_snoc. msimpl. lia.
    - intros id Hid. rewrite len_snoc. msimpl. apply H5 in Hid. lia.
    - intros x Hx. eapply edge_var_ok_transfer; [apply H6; exact Hx|reflexivity|].
      specialize (H3 x Hx). rewrite gn_snoc_old by lia. reflexivity.
  Qed.

  Lemma Xinv_snoc_node (m : mdd) n :
    Xinv m -> (ci_type inp <> Relaxed \/ m_lel m = None -> fl_is_exact (n_flags n) = true) ->
    m_layer_end m <= length (m_nodes m) ->
    Xinv (with_nodes m (m_nodes m ++ [n])).
  Proof.
    intros [X1 X2 X3 X4 X5 X6] Hn Hle.
    assert (Hall : (forall id, id < length (m_nodes m) -> fl_is_exact (n_flags (gn m id)) = true) ->
                   fl_is_exact (n_flags n) = true ->
                   forall id, id < length (m_nodes (with_nodes m (m_nodes m ++ [n]))) ->
                   fl_is_exact (n_flags (gn (with_nodes m (m_nodes m ++ [n])) id)) = true).
    { intros Hex Hnx id Hid. rewrite len_snoc in Hid.
      destruct (Nat.eq_dec id (length (m_nodes m))) as [->|Hne].
      - rewrite gn_snoc_new. exact Hnx.
      - rewrite gn_snoc_old by lia. apply Hex. lia. }
    split.
    - exact X1.
    - intros Ht. apply Hall; auto.
    - intros Hnone. apply Hall; auto.
    - exact X4.
    - exact X5.
    - intros k ids id H1 H2 H3.
      assert (Hid : id < m_layer_end m).
      { eapply X5; eauto. eapply nth_error_In; eauto. }
      rewrite gn_snoc_old by lia. eapply X6; eauto.
  Qed.

  Lemma snoc_node_stable (m : mdd) n :
    m_layer_end m <= length (m_nodes m) -> stable m (with_nodes m (m_nodes m ++ [n])).
  Proof.
    intros Hle. split; [reflexivity|]. split; [rewrite len_snoc; lia|]. split; [|split].
    - intros id Hid. rewrite gn_snoc_old by lia. apply core_eq_refl.
    - intros id Hid. rewrite gn_snoc_old by lia. split; reflexivity.
    - reflexivity.
  Qed.

  (* ---------------------------------------------------------------- branch_on *)
  Definition next_depth (dn : nat) (m : mdd) : Prop :=
    forall id, In id (m_next m) -> n_depth (gn m id) = dn.

  Lemma branch_on_inv (m : mdd) (from_id : nat) (d : decision) :
    Dinv m -> Xinv m -> from_id < m_layer_end m ->
    next_depth (S (n_depth (gn m from_id))) m ->
    in_domain pb (n_state (gn m from_id)) d = true ->
    (exists states, next_variable pb (n_depth (gn m from_id)) states = Some (d_var d)) ->
    Dinv (branch_on st_eqb inp m from_id d) /\ Xinv (branch_on st_eqb inp m from_id d) /\
    stable m (branch_on st_eqb inp m from_id d) /\
    next_depth (S (n_depth (gn m from_id))) (branch_on st_eqb inp m from_id d).
  Proof.
    intros HD HX Hfrom Hnd Hdom Hv.
    unfold branch_on. cbv zeta.
    set (state := n_state (gn m from_id)).
    set (ns := transition (ci_problem inp) state d).
    set (cost := transition_cost (ci_problem inp) state ns d).
    set (m1 := add_log (add_log m (EvTransition state d ns)) (EvCost state ns d cost)).
    assert (Hc1 : ceq m m1).
    { eapply ceq_trans; apply ceq_add_log. }
    assert (HD1 : Dinv m1) by (eapply Dg_ceq; eauto).
    assert (HX1 : Xinv m1) by (eapply Xinv_ceq; eauto).
    assert (Hgn1 : forall k, gn m1 k = gn m k) by reflexivity.
    assert (Hfromlen : from_id < length (m_nodes m1)).
    { pose proof (D_le _ _ HD1). change (m_layer_end m1) with (m_layer_end m) in H. lia. }
    destruct (find_next st_eqb inp m1 ns) as [t|] eqn:Hfind.
    - (* an existing node of the next layer *)
      unfold find_next in Hfind. apply find_some in Hfind. destruct Hfind as [Hin Heq].
      apply st_eqb_spec in Heq.
      pose proof (D_next _ _ HD1 t Hin) as Hrange.
      set (e := {| e_from := from_id; e_to := t; e_dec := d; e_cost := cost |}).
      pose proof (D_nodes _ _ HD1 t (proj2 Hrange) I) as [Hinb Hbest].
      split; [|split; [|split]].
      + apply append_edge_Dg; unfold e; nsimpl.
        * eapply Dg_weaken; [|exact HD1]. intros; exact I.
        * exact Hfrom.
        * lia.
        * lia.
        * exact Hinb.
        * intros Hr. specialize (Hbest Hr). rewrite !Hgn1. rewrite Hgn1 in Heq. rewrite Heq.
          repeat split; auto.
          rewrite Hgn1 in Hbest. destruct (n_best (gn m t)); auto.
          exfalso. change (m_layer_end m1) with (m_layer_end m) in Hrange. lia.
        * rewrite Hgn1. exact Hv.
      + apply append_edge_Xinv; unfold e; nsimpl; auto; lia.
      + eapply stable_trans; [apply ceq_stable; exact Hc1|]. apply append_edge_stable. unfold e; nsimpl. lia.
      + intros id Hid. change (In id (m_next m)) in Hid.
        destruct (Nat.eq_dec id t) as [->|Hne].
        * rewrite gn_append_same by (unfold e; nsimpl; lia). cbv zeta. nsimpl. rewrite Hgn1. apply Hnd; exact Hid.
        * rewrite gn_append_other by (unfold e; nsimpl; exact Hne). rewrite Hgn1. apply Hnd; exact Hid.
    - (* a fresh node *)
      set (t := length (m_nodes m1)).
      set (n := {| n_state := ns; n_vtop := sat_add (n_vtop (gn m from_id)) cost; n_vbot := IMIN;
                   n_best := None; n_inb := []; n_rub := IMAX; n_theta := None;
                   n_flags := fl_set_exact fl_new_exact (fl_is_exact (n_flags (gn m from_id)));
                   n_depth := S (n_depth (gn m from_id)) |}).
      set (m2 := with_nodes m1 (m_nodes m1 ++ [n])).
      set (e := {| e_from := from_id; e_to := t; e_dec := d; e_cost := cost |}).
      set (m3 := append_edge inp m2 e).
      assert (Hlen2 : length (m_nodes m2) = S t) by apply len_snoc.
      assert (Hgn2old : forall k, k < t -> gn m2 k = gn m k).
      { intros k Hk. unfold m2. rewrite gn_snoc_old by exact Hk. apply Hgn1. }
      assert (Hgn2new : gn m2 t = n) by apply gn_snoc_new.
      assert (HD2 : Dg (fun id => id <> e_to e) m2) by (apply Dg_snoc_node; exact HD1).
      assert (Hle1 : m_layer_end m1 <= t) by apply (D_le _ _ HD1).
      assert (HX2 : Xinv m2).
      { apply Xinv_snoc_node; auto. intros Hor. unfold n. nsimpl. rewrite fl_is_exact_set_exact. simpl.
        rewrite andb_true_r.
        destruct Hor as [Hor|Hor].
        - apply (X_exact_nr _ _ HX Hor). exact Hfromlen.
        - apply (X_lel_none _ _ HX Hor). exact Hfromlen. }
      assert (HD3 : Dinv m3).
      { apply append_edge_Dg; unfold e; nsimpl; auto; try lia.
        - intros x. rewrite Hgn2new. simpl. tauto.
        - intros _. rewrite Hgn2new. rewrite Hgn2old by (change (m_layer_end m1) with (m_layer_end m) in Hle1; lia).
          unfold n. nsimpl. repeat split; auto. lia.
        - rewrite Hgn2old by (change (m_layer_end m1) with (m_layer_end m) in Hle1; lia). exact Hv. }
      assert (HX3 : Xinv m3).
      { apply append_edge_Xinv; unfold e; nsimpl; auto; lia. }
      assert (Hst3 : stable m m3).
      { eapply stable_trans; [apply ceq_stable; exact Hc1|].
        eapply stable_trans; [apply snoc_node_stable; exact Hle1|].
        apply append_edge_stable. unfold e; nsimpl. exact Hle1. }
      assert (Hlen3 : length (m_nodes m3) = S t).
      { unfold m3. msimpl. rewrite upd_nth_length. exact Hlen2. }
      assert (Hp : peq m3 (with_next m3 (m_next m3 ++ [t]))) by (apply peq_same_nodes; reflexivity).
      split; [|split; [|split]].
      + eapply Dg_peq; [exact Hp|exact HD3| | |].
        * apply Nat.le_refl.
        * apply (D_le _ _ HD3).
        * intros id Hid. change (In id (m_next m ++ [t])) in Hid. apply in_app_or in Hid.
          change (m_layer_end (with_next m3 (m_next m3 ++ [t]))) with (m_layer_end m).
          change (length (m_nodes (with_next m3 (m_next m3 ++ [t])))) with (length (m_nodes m3)).
          rewrite Hlen3. change (m_layer_end m1) with (m_layer_end m) in Hle1.
          destruct Hid as [Hid|[<-|[]]]; [|lia].
          pose proof (D_next _ _ HD id Hid). change (length (m_nodes m1)) with (length (m_nodes m)) in t. lia.
      + destruct HX3 as [X1 X2 X3 X4 X5 X6]. split; auto.
      + destruct Hst3 as (s1 & s2 & s3 & s4 & s5). split; [exact s1|]. split; [exact s2|]. split; [exact s3|]. split; [exact s4|exact s5].
      + intros id Hid. change (In id (m_next m ++ [t])) in Hid. apply in_app_or in Hid.
        change (gn (with_next m3 (m_next m3 ++ [t])) id) with (gn m3 id).
        destruct Hid as [Hid|[<-|[]]].
        * pose proof (D_next _ _ HD id Hid) as Hr.
          assert (Hne : id <> t) by (unfold t; change (length (m_nodes m1)) with (length (m_nodes m)); lia).
          unfold m3. rewrite gn_append_other by (unfold e; nsimpl; exact Hne).
          rewrite Hgn2old by (unfold t; change (length (m_nodes m1)) with (length (m_nodes m)); lia).
          apply Hnd; exact Hid.
        * unfold m3. change t with (e_to e). rewrite gn_append_same by (unfold e; nsimpl; lia).
          cbv zeta. nsimpl. change (e_to e) with t. rewrite Hgn2new. reflexivity.
  Qed.
  (* ---------------------------------------------------------------- expand_node *)
  Lemma in_domain_of_In var val s : In val (domain pb var s) -> in_domain pb s {| d_var := var; d_val := val |} = true.
  Proof.
    intros H. unfold in_domain. simpl. apply existsb_exists. exists val. split; [exact H|apply Z.eqb_refl].
  Qed.

  Lemma expand_node_inv (var : nat) (m : mdd) (id : nat) :
    Dinv m -> Xinv m -> id < m_layer_end m -> next_depth (S (n_depth (gn m id))) m ->
    (exists states, next_variable pb (n_depth (gn m id)) states = Some var) ->
    Dinv (expand_node st_eqb inp var m id) /\ Xinv (expand_node st_eqb inp var m id) /\
    stable m (expand_node st_eqb inp var m id) /\
    next_depth (S (n_depth (gn m id))) (expand_node st_eqb inp var m id).
  Proof.
    intros HD HX Hid Hnd Hv. unfold expand_node. cbv zeta.
    set (state := n_state (gn m id)).
    set (m1 := upd_node m id (fun n => set_rub n (fast_upper_bound (ci_relax inp) state))).
    assert (Hc1 : ceq m m1) by (apply ceq_upd_node; intros n; apply core_eq_set_rub).
    assert (HD1 : Dinv m1) by (eapply Dg_ceq; eauto).
    assert (HX1 : Xinv m1) by (eapply Xinv_ceq; eauto).
    assert (Hst1 : stable m m1) by (apply ceq_stable; exact Hc1).
    assert (Hidlen : id < length (m_nodes m)) by (pose proof (D_le _ _ HD); lia).
    assert (Hnd1 : next_depth (S (n_depth (gn m id))) m1).
    { intros k Hk. change (In k (m_next m)) in Hk.
      destruct Hc1 as ((_ & _ & _ & A4) & _). destruct (A4 k) as (_ & _ & _ & _ & _ & _ & c7).
      rewrite <- c7. apply Hnd; exact Hk. }
    destruct (sat_add (fast_upper_bound (ci_relax inp) state) (n_vtop (gn m1 id)) >? ci_best_lb inp)%Z.
    2: { auto. }
    set (m2 := add_log m1 (EvDomain var state)).
    assert (Hc2 : ceq m1 m2) by apply ceq_add_log.
    assert (HD2 : Dinv m2) by (eapply Dg_ceq; eauto).
    assert (HX2 : Xinv m2) by (eapply Xinv_ceq; eauto).
    assert (Hst2 : stable m m2) by (eapply stable_trans; [exact Hst1|apply ceq_stable; exact Hc2]).
    assert (Hnd2 : next_depth (S (n_depth (gn m id))) m2) by exact Hnd1.
    apply (fold_left_inv
             (fun m' => Dinv m' /\ Xinv m' /\ stable m m' /\ next_depth (S (n_depth (gn m id))) m')).
    - auto.
    - intros a val Hval (Ha1 & Ha2 & Ha3 & Ha4).
      pose proof Ha3 as (s1 & s2 & s3 & s4 & s5).
      destruct (s4 id Hidlen) as [Hs Hdp].
      assert (Hida : id < m_layer_end a) by (rewrite s1; exact Hid).
      destruct (branch_on_inv a id {| d_var := var; d_val := val |} Ha1 Ha2 Hida) as (B1 & B2 & B3 & B4).
      + rewrite Hdp. exact Ha4.
      + rewrite Hs. apply in_domain_of_In. exact Hval.
      + rewrite Hdp. exact Hv.
      + split; [exact B1|]. split; [exact B2|]. split.
        * eapply stable_trans; eauto.
        * rewrite Hdp in B4. exact B4.
  Qed.

  Lemma expand_layer_inv (var : nat) (l : list nat) (d : nat) : forall (m : mdd),
    Dinv m -> Xinv m -> next_depth (S d) m ->
    (forall id, In id l -> id < m_layer_end m /\ n_depth (gn m id) = d) ->
    (exists states, next_variable pb d states = Some var) ->
    Dinv (fold_left (expand_node st_eqb inp var) l m) /\ Xinv (fold_left (expand_node st_eqb inp var) l m) /\
    stable m (fold_left (expand_node st_eqb inp var) l m) /\
    next_depth (S d) (fold_left (expand_node st_eqb inp var) l m).
  Proof.
    intros m HD HX Hnd Hl Hv.
    apply (fold_left_inv (fun m' => Dinv m' /\ Xinv m' /\ stable m m' /\ next_depth (S d) m')).
    - split; [exact HD|]. split; [exact HX|]. split; [apply stable_refl|exact Hnd].
    - intros a id Hin (Ha1 & Ha2 & Ha3 & Ha4).
      pose proof Ha3 as (s1 & s2 & s3 & s4 & s5).
      destruct (Hl id Hin) as [Hlt Hdp].
      assert (Hidlen : id < length (m_nodes m)) by (pose proof (D_le _ _ HD); lia).
      destruct (s4 id Hidlen) as [_ Hdp'].
      assert (Hd : n_depth (gn a id) = d) by congruence.
      destruct (expand_node_inv var a id Ha1 Ha2) as (B1 & B2 & B3 & B4).
      + rewrite s1; exact Hlt.
      + rewrite Hd. exact Ha4.
      + rewrite Hd. exact Hv.
      + rewrite Hd in B4. split; [exact B1|]. split; [exact B2|]. split; [|exact B4].
        eapply stable_trans; eauto.
  Qed.

  (* ---------------------------------------------------------------- the filters: core-neutral, return a sub-list *)
  Lemma cache_get_ceq (m : mdd) s dp : ceq m (fst (cache_get st_eqb inp m s dp)).
  Proof.
    unfold cache_get. destruct (ci_use_cache inp).
    - destruct (get_threshold st_eqb (m_cache (add_log m (EvCacheGet s dp))) s dp); simpl.
      + apply ceq_add_log.
      + eapply ceq_trans; [apply ceq_add_log|apply ceq_set_crash].
    - simpl. apply ceq_add_log.
  Qed.

  Lemma cache_update_ceq (m : mdd) s dp v e : ceq m (cache_update st_eqb inp m s dp v e).
  Proof.
    unfold cache_update. destruct (ci_use_cache inp).
    - destruct (update_threshold st_eqb (m_cache (add_log m (EvCacheUpd s dp v e))) s dp v e).
      + eapply ceq_trans; [apply ceq_add_log|apply ceq_with_cache].
      + eapply ceq_trans; [apply ceq_add_log|apply ceq_set_crash].
    - apply ceq_add_log.
  Qed.

  Lemma dom_query_ceq (m : mdd) s dp v : ceq m (fst (dom_query inp m s dp v)).
  Proof.
    unfold dom_query. destruct (ci_domrule inp) as [[[[key nd] coord] usev]|].
    - destruct (is_dominated_or_insert Z.eqb key nd coord usev (m_dom m) s dp v) as [[st' r]|]; simpl.
      + eapply ceq_trans; [apply ceq_with_dom|apply ceq_add_log].
      + eapply ceq_trans; [apply ceq_set_crash|apply ceq_add_log].
    - simpl. apply ceq_add_log.
  Qed.

  Lemma filter_with_cache_ceq (l : list nat) : forall (m : mdd),
    ceq m (fst (filter_with_cache st_eqb inp m l)) /\ incl (snd (filter_with_cache st_eqb inp m l)) l.
  Proof.
    induction l as [|id l IH]; intros m; simpl.
    - split; [apply ceq_refl|apply incl_refl].
    - pose proof (cache_get_ceq m (n_state (gn m id)) (n_depth (gn m id))) as Hc.
      destruct (cache_get st_eqb inp m (n_state (gn m id)) (n_depth (gn m id))) as [m1 th]. simpl in Hc.
      destruct th as [t|].
      + destruct (n_vtop (gn m id) >? th_value t)%Z.
        * destruct (IH m1) as [I1 I2]. destruct (filter_with_cache st_eqb inp m1 l) as [m2 r]. simpl in *.
          split; [eapply ceq_trans; eauto|]. apply incl_cons; [left; reflexivity|apply incl_tl; exact I2].
        * match goal with |- context [filter_with_cache st_eqb inp ?mm l] => destruct (IH mm) as [I1 I2] end.
          split.
          -- eapply ceq_trans; [exact Hc|]. eapply ceq_trans; [|exact I1].
             apply ceq_upd_node. intros n.
             eapply core_eq_trans; [|apply core_eq_set_theta]. apply core_eq_set_flags_nc; reflexivity.
          -- apply incl_tl; exact I2.
      + destruct (IH m1) as [I1 I2]. destruct (filter_with_cache st_eqb inp m1 l) as [m2 r]. simpl in *.
        split; [eapply ceq_trans; eauto|]. apply incl_cons; [left; reflexivity|apply incl_tl; exact I2].
  Qed.

  Lemma dom_retain_ceq (l : list nat) : forall (m : mdd),
    ceq m (fst (dom_retain inp m l)) /\ incl (snd (dom_retain inp m l)) l.
  Proof.
    induction l as [|id l IH]; intros m; simpl.
    - split; [apply ceq_refl|apply incl_refl].
    - destruct (fl_is_exact (n_flags (gn m id))).
      + pose proof (dom_query_ceq m (n_state (gn m id)) (n_depth (gn m id)) (n_vtop (gn m id))) as Hc.
        destruct (dom_query inp m (n_state (gn m id)) (n_depth (gn m id)) (n_vtop (gn m id))) as [m1 r].
        simpl in Hc. destruct (dc_dominated r).
        * match goal with |- context [dom_retain inp ?mm l] => destruct (IH mm) as [I1 I2] end.
          split.
          -- eapply ceq_trans; [exact Hc|]. eapply ceq_trans; [|exact I1].
             apply ceq_upd_node. intros n. apply core_eq_set_theta.
          -- apply incl_tl; exact I2.
        * destruct (IH m1) as [I1 I2]. destruct (dom_retain inp m1 l) as [m2 k]. simpl in *.
          split; [eapply ceq_trans; eauto|]. apply incl_cons; [left; reflexivity|apply incl_tl; exact I2].
      + destruct (IH m) as [I1 I2]. destruct (dom_retain inp m l) as [m2 k]. simpl in *.
        split; [exact I1|]. apply incl_cons; [left; reflexivity|apply incl_tl; exact I2].
  Qed.

  Lemma filter_with_dominance_ceq (m : mdd) (l : list nat) :
    ceq m (fst (filter_with_dominance inp m l)) /\ incl (snd (filter_with_dominance inp m l)) l.
  Proof.
    unfold filter_with_dominance. destruct (dom_retain_ceq (sort_by (dom_order inp m) l) m) as [I1 I2].
    split; [exact I1|]. intros x Hx. apply I2 in Hx. apply sort_by_In in Hx. exact Hx.
  Qed.
  (* ---------------------------------------------------------------- squash *)
  Definition layer_ok (m : mdd) (l : list nat) (d : nat) : Prop :=
    forall id, In id l -> (m_layer_end m <= id < length (m_nodes m)) /\ n_depth (gn m id) = d.

  Lemma layer_ok_stable m m' l l' d :
    stable m m' -> layer_ok m l d -> incl l' l -> layer_ok m' l' d.
  Proof.
    intros (s1 & s2 & s3 & s4 & s5) Hl Hincl id Hin. apply Hincl in Hin. destruct (Hl id Hin) as [Hr Hd].
    destruct (s4 id) as [_ Hd']; [lia|]. rewrite s1. split; [lia|congruence].
  Qed.

  Lemma note_squash_fields (m : mdd) :
    m_nodes (note_squash inp m) = m_nodes m /\ m_edges (note_squash inp m) = m_edges m /\
    m_path (note_squash inp m) = m_path m /\ m_next (note_squash inp m) = m_next m /\
    m_layer_end (note_squash inp m) = m_layer_end m /\ m_layers (note_squash inp m) = m_layers m /\
    m_cutset (note_squash inp m) = m_cutset m /\
    m_lel (note_squash inp m) =
      match m_lel m with Some k => Some k | None => Some (length (m_layers m) - 1) end /\
    m_curr_depth (note_squash inp m) = m_curr_depth m.
  Proof.
    unfold note_squash. cbv zeta. rewrite not_pooled. destruct (m_lel m) eqn:E; repeat split; auto.
  Qed.

  Lemma note_squash_inv (m : mdd) :
    Dinv m -> Xinv m -> (ci_type inp = Relaxed -> m_layers m <> []) ->
    Dinv (note_squash inp m) /\ Xinv (note_squash inp m) /\ stable m (note_squash inp m) /\
    m_next (note_squash inp m) = m_next m /\ m_lel (note_squash inp m) <> None /\
    forall k, gn (note_squash inp m) k = gn m k.
  Proof.
    intros HD HX Hly.
    destruct (note_squash_fields m) as (F1 & F2 & F3 & F4 & F5 & F6 & F7 & F8 & F9).
    assert (Hp : peq m (note_squash inp m)) by (apply peq_same_nodes; auto).
    assert (Hgn : forall k, gn (note_squash inp m) k = gn m k) by (intros k; apply gn_nodes_eq; exact F1).
    split; [|split; [|split; [|split; [|split]]]]; auto.
    - eapply Dg_peq; eauto.
      + rewrite F5; lia.
      + rewrite F5, F1. apply (D_le _ _ HD).
      + rewrite F5, F4, F1. apply (D_next _ _ HD).
    - destruct HX as [X1 X2 X3 X4 X5 X6]. split.
      + congruence.
      + intros Ht id Hid. rewrite Hgn. apply X2; auto. rewrite <- F1. exact Hid.
      + intros Hnone. rewrite F8 in Hnone. destruct (m_lel m); discriminate.
      + intros Ht k Hk. rewrite F6. rewrite F8 in Hk. destruct (m_lel m) as [k0|] eqn:E.
        * apply X4; auto.
        * inversion Hk; subst. specialize (Hly Ht). destruct (m_layers m); [congruence|simpl; lia].
      + intros ids id H1 H2. rewrite F5. rewrite F6 in H1. eapply X5; eauto.
      + intros k ids id H1 H2 H3. rewrite Hgn. rewrite F6 in H2. rewrite F8 in H1.
        destruct (m_lel m) as [k0|] eqn:E.
        * eapply X6; eauto.
        * apply X3; auto. pose proof (D_le _ _ HD).
          assert (id < m_layer_end m) by (eapply X5; eauto; eapply nth_error_In; eauto). lia.
    - split; [exact F5|]. split; [rewrite F1; lia|]. split; [|split].
      + intros id _. rewrite Hgn. apply core_eq_refl.
      + intros id _. rewrite Hgn. split; reflexivity.
      + exact F9.
    - rewrite F8. destruct (m_lel m); discriminate.
  Qed.

  Lemma mark_deleted_ceq (l : list nat) (m : mdd) : ceq m (mark_deleted m l).
  Proof.
    unfold mark_deleted. apply ceq_fold. intros a x. apply ceq_upd_node.
    intros n. apply core_eq_set_flags_nc; reflexivity.
  Qed.

  Lemma restrict_layer_inv (m : mdd) (l : list nat) :
    Dinv m -> Xinv m -> ci_type inp <> Relaxed ->
    Dinv (fst (restrict_layer inp m l)) /\ Xinv (fst (restrict_layer inp m l)) /\
    stable m (fst (restrict_layer inp m l)) /\ m_next (fst (restrict_layer inp m l)) = m_next m /\
    incl (snd (restrict_layer inp m l)) l.
  Proof.
    intros HD HX Ht. unfold restrict_layer. cbv zeta. simpl fst. simpl snd.
    destruct (note_squash_inv m HD HX) as (N1 & N2 & N3 & N4 & N5 & N6); [congruence|].
    set (m0 := note_squash inp m) in *.
    pose proof (mark_deleted_ceq (skipn (ci_width inp) (sort_by (rank_order inp m0) l)) m0) as Hc.
    split; [eapply Dg_ceq; eauto|]. split; [eapply Xinv_ceq; eauto|]. split; [|split].
    - eapply stable_trans; [exact N3|apply ceq_stable; exact Hc].
    - destruct Hc as (_ & Hn & _). rewrite Hn. exact N4.
    - intros x Hx. apply In_firstn in Hx. apply sort_by_In in Hx. exact Hx.
  Qed.

  (* marking a (still open) node as merged *)
  Lemma set_relaxed_inv (m : mdd) (id : nat) :
    Dinv m -> Xinv m -> ci_type inp = Relaxed -> m_lel m <> None ->
    m_layer_end m <= id -> id < length (m_nodes m) ->
    let m' := upd_node m id (fun n => set_flags n (fl_set_relaxed (n_flags n) true)) in
    Dinv m' /\ Xinv m' /\ stable m m' /\ m_next m' = m_next m /\
    f_relaxed (n_flags (gn m' id)) = true.
  Proof.
    intros HD HX Ht Hlel Hle Hlt m'.
    assert (Hlen : length (m_nodes m') = length (m_nodes m)) by (unfold m'; msimpl; apply upd_nth_length).
    assert (Hsame : gn m' id = set_flags (gn m id) (fl_set_relaxed (n_flags (gn m id)) true))
      by (unfold m'; apply gn_upd_same; exact Hlt).
    assert (Hother : forall k, k <> id -> gn m' k = gn m k)
      by (intros k Hk; unfold m'; apply gn_upd_other; congruence).
    assert (Hsd : forall k, n_state (gn m' k) = n_state (gn m k) /\ n_vtop (gn m' k) = n_vtop (gn m k) /\
                            n_depth (gn m' k) = n_depth (gn m k) /\ n_inb (gn m' k) = n_inb (gn m k)).
    { intros k. destruct (Nat.eq_dec k id) as [->|Hne].
      - rewrite Hsame. repeat split.
      - rewrite Hother by exact Hne. repeat split. }
    destruct HD as [H1 H2 H3 H4 H5 H6].
    split; [|split; [|split; [|split]]].
    - split.
      + intros k Hk _. rewrite Hlen in Hk. destruct (Nat.eq_dec k id) as [->|Hne].
        * split.
          -- destruct (Hsd id) as (_ & _ & _ & Hi). rewrite Hi. apply (H1 id Hlt I).
          -- rewrite Hsame. nsimpl. discriminate.
        * eapply node_ok_transfer.
          -- apply H1; auto.
          -- rewrite Hother by exact Hne. apply core_eq_refl.
          -- intros x Hx. split; [exact Hx|]. split; [reflexivity|].
             specialize (H3 x Hx). rewrite Hother by lia. apply core_eq_refl.
      + destruct H2 as (r1 & r2 & r3 & r4 & r5). unfold root_ok. rewrite Hlen.
        destruct (Hsd 0) as (q1 & q2 & q3 & _). rewrite q1, q2, q3. auto.
      + exact H3.
      + rewrite Hlen. exact H4.
      + rewrite Hlen. exact H5.
      + intros x Hx. eapply edge_var_ok_transfer; [apply H6; exact Hx|reflexivity|].
        destruct (Hsd (e_from (get_edge m x))) as (_ & _ & q3 & _). exact q3.
    - destruct HX as [X1 X2 X3 X4 X5 X6]. split.
      + exact X1.
      + intros Hnt. congruence.
      + intros Hnone. exfalso. apply Hlel. exact Hnone.
      + exact X4.
      + exact X5.
      + intros k ids x G1 G2 G3.
        assert (x < m_layer_end m) by (eapply X5; eauto; eapply nth_error_In; eauto).
        rewrite Hother by lia. eapply X6; eauto.
    - split; [reflexivity|]. split; [lia|]. split; [|split].
      + intros k Hk. rewrite Hother by lia. apply core_eq_refl.
      + intros k _. destruct (Hsd k) as (q1 & _ & q3 & _). auto.
      + reflexivity.
    - reflexivity.
    - rewrite Hsame. reflexivity.
  Qed.

  Lemma redirect_edges_inv (m : mdd) (merged : St) (merged_id drop_id : nat) :
    Dinv m -> Xinv m -> drop_id < length (m_nodes m) ->
    m_layer_end m <= merged_id -> merged_id < length (m_nodes m) ->
    f_relaxed (n_flags (gn m merged_id)) = true ->
    let m' := redirect_edges inp m merged merged_id drop_id in
    Dinv m' /\ Xinv m' /\ stable m m' /\ m_next m' = m_next m /\
    length (m_nodes m') = length (m_nodes m) /\ f_relaxed (n_flags (gn m' merged_id)) = true /\
    length (m_edges m) <= length (m_edges m').
  Proof.
    intros HD HX Hdrop Hle Hlt Hrel. cbv zeta. unfold redirect_edges.
    apply (fold_left_inv (fun m' =>
      Dinv m' /\ Xinv m' /\ stable m m' /\ m_next m' = m_next m /\
      length (m_nodes m') = length (m_nodes m) /\ f_relaxed (n_flags (gn m' merged_id)) = true /\
      length (m_edges m) <= length (m_edges m'))).
    - split; [exact HD|]. split; [exact HX|]. split; [apply stable_refl|]. auto.
    - intros a eid Hin (A1 & A2 & A3 & A4 & A5 & A6 & A7). cbv zeta.
      assert (Heid : eid < length (m_edges a)).
      { destruct (D_nodes _ _ HD drop_id Hdrop I) as [Hinb _]. apply Hinb in Hin. lia. }
      set (e := get_edge a eid).
      set (rc := relax (ci_relax inp) (n_state (gn a (e_from e))) (n_state (gn a (e_to e))) merged (e_dec e) (e_cost e)).
      set (a1 := add_log a (EvRelax (n_state (gn a (e_from e))) (n_state (gn a (e_to e))) merged (e_dec e) (e_cost e) rc)).
      set (e' := {| e_from := e_from e; e_to := merged_id; e_dec := e_dec e; e_cost := rc |}).
      assert (Hc : ceq a a1) by apply ceq_add_log.
      assert (HD1 : Dinv a1) by (eapply Dg_ceq; eauto).
      assert (HX1 : Xinv a1) by (eapply Xinv_ceq; eauto).
      pose proof A3 as (s1 & s2 & s3 & s4 & s5).
      assert (Hfrom : e_from e < m_layer_end a) by (apply (D_efrom _ _ A1); exact Heid).
      assert (Hlea : m_layer_end a <= length (m_nodes a)) by apply (D_le _ _ A1).
      split; [|split; [|split; [|split; [|split; [|split]]]]].
      + apply append_edge_Dg; unfold e'; nsimpl.
        * eapply Dg_weaken; [|exact HD1]. intros; exact I.
        * exact Hfrom.
        * change (m_layer_end a1) with (m_layer_end a). lia.
        * change (length (m_nodes a1)) with (length (m_nodes a)). lia.
        * apply (D_nodes _ _ HD1 merged_id); [change (length (m_nodes a1)) with (length (m_nodes a)); lia|exact I].
        * intros Hr. change (gn a1 merged_id) with (gn a merged_id) in Hr. congruence.
        * apply (D_var _ _ HD1 eid). exact Heid.
      + apply append_edge_Xinv; unfold e'; nsimpl; auto.
        * change (m_layer_end a1) with (m_layer_end a). lia.
        * change (length (m_nodes a1)) with (length (m_nodes a)). lia.
        * change (length (m_nodes a1)) with (length (m_nodes a)). lia.
      + eapply stable_trans; [exact A3|]. eapply stable_trans; [apply ceq_stable; exact Hc|].
        apply append_edge_stable. unfold e'; nsimpl. change (m_layer_end a1) with (m_layer_end a). lia.
      + exact A4.
      + msimpl. rewrite upd_nth_length. exact A5.
      + change (gn (append_edge inp a1 e') merged_id) with (gn (append_edge inp a1 e') (e_to e')). rewrite gn_append_same.
        * cbv zeta. nsimpl. exact A6.
        * unfold e'; nsimpl. change (length (m_nodes a1)) with (length (m_nodes a)). lia.
      + msimpl. rewrite app_length. simpl. lia.
  Qed.
  Lemma relax_fold_inv (merged : St) (merged_id : nat) (mrg : list nat) (m : mdd) :
    Dinv m -> Xinv m -> (forall x, In x mrg -> x < length (m_nodes m)) ->
    m_layer_end m <= merged_id -> merged_id < length (m_nodes m) ->
    f_relaxed (n_flags (gn m merged_id)) = true ->
    let m' := fold_left (fun m drop_id =>
                 let m := upd_node m drop_id (fun n => set_flags n (fl_set_deleted (n_flags n) true)) in
                 redirect_edges inp m merged merged_id drop_id) mrg m in
    Dinv m' /\ Xinv m' /\ stable m m' /\ m_next m' = m_next m /\ length (m_nodes m') = length (m_nodes m).
  Proof.
    intros HD HX Hmrg Hle Hlt Hrel. cbv zeta.
    assert (G : let m' := fold_left (fun m drop_id =>
                 let m := upd_node m drop_id (fun n => set_flags n (fl_set_deleted (n_flags n) true)) in
                 redirect_edges inp m merged merged_id drop_id) mrg m in
            Dinv m' /\ Xinv m' /\ stable m m' /\ m_next m' = m_next m /\
            length (m_nodes m') = length (m_nodes m) /\ f_relaxed (n_flags (gn m' merged_id)) = true).
    { cbv zeta. apply (fold_left_inv (fun m' =>
        Dinv m' /\ Xinv m' /\ stable m m' /\ m_next m' = m_next m /\
        length (m_nodes m') = length (m_nodes m) /\ f_relaxed (n_flags (gn m' merged_id)) = true)).
      - split; [exact HD|]. split; [exact HX|]. split; [apply stable_refl|]. auto.
      - intros a drop Hin (A1 & A2 & A3 & A4 & A5 & A6). cbv zeta.
        set (a1 := upd_node a drop (fun n => set_flags n (fl_set_deleted (n_flags n) true))).
        assert (Hc : ceq a a1).
        { apply ceq_upd_node. intros n. apply core_eq_set_flags_nc; reflexivity. }
        assert (HD1 : Dinv a1) by (eapply Dg_ceq; eauto).
        assert (HX1 : Xinv a1) by (eapply Xinv_ceq; eauto).
        pose proof A3 as (s1 & s2 & s3 & s4 & s5).
        pose proof Hc as ((c1 & c2 & c3 & c4) & c5 & c6 & _).
        destruct (redirect_edges_inv a1 merged merged_id drop HD1 HX1) as (B1 & B2 & B3 & B4 & B5 & B6 & B7).
        + rewrite c3, A5. apply Hmrg; exact Hin.
        + rewrite c6, s1. exact Hle.
        + rewrite c3, A5. exact Hlt.
        + destruct (c4 merged_id) as (_ & _ & _ & _ & _ & q & _). rewrite <- q. exact A6.
        + split; [exact B1|]. split; [exact B2|]. split; [|split; [|split]].
          * eapply stable_trans; [exact A3|]. eapply stable_trans; [apply ceq_stable; exact Hc|exact B3].
          * rewrite B4, c5. exact A4.
          * rewrite B5, c3. exact A5.
          * exact B6. }
    cbv zeta in G. destruct G as (G1 & G2 & G3 & G4 & G5 & G6). auto.
  Qed.

  Lemma skipn_nonempty {A} n (l : list A) : n < length l -> skipn n l <> [].
  Proof. intros H E. pose proof (skipn_length n l) as HL. rewrite E in HL. simpl in HL. lia. Qed.
  Lemma hd_In {A} (d : A) l : l <> [] -> In (hd d l) l.
  Proof. destruct l; [congruence|simpl; auto]. Qed.

  Lemma relax_core_inv (m2 : mdd) (merged : St) (merged_id : nat) (mrg : list nat) :
    Dinv m2 -> Xinv m2 -> ci_type inp = Relaxed -> m_lel m2 <> None ->
    (forall x, In x mrg -> x < length (m_nodes m2)) ->
    m_layer_end m2 <= merged_id -> merged_id < length (m_nodes m2) ->
    let m4 := fold_left (fun m drop_id =>
                 redirect_edges inp
                   (upd_node m drop_id (fun n => set_flags n (fl_set_deleted (n_flags n) true)))
                   merged merged_id drop_id) mrg
                (upd_node m2 merged_id (fun n => set_flags n (fl_set_relaxed (n_flags n) true))) in
    Dinv m4 /\ Xinv m4 /\ stable m2 m4 /\ m_next m4 = m_next m2 /\ length (m_nodes m4) = length (m_nodes m2).
  Proof.
    intros HD HX Ht Hlel Hmrg Hle Hlt.
    destruct (set_relaxed_inv m2 merged_id HD HX Ht Hlel Hle Hlt) as (R1 & R2 & R3 & R4 & R5).
    set (m3 := upd_node m2 merged_id (fun n => set_flags n (fl_set_relaxed (n_flags n) true))) in *.
    assert (Hlen3 : length (m_nodes m3) = length (m_nodes m2)) by (unfold m3; msimpl; apply upd_nth_length).
    pose proof (relax_fold_inv merged merged_id mrg m3 R1 R2) as G. cbv zeta in G.
    destruct G as (G1 & G2 & G3 & G4 & G5).
    - intros x Hx. rewrite Hlen3. apply Hmrg; exact Hx.
    - exact Hle.
    - rewrite Hlen3. exact Hlt.
    - exact R5.
    - cbv zeta. split; [exact G1|]. split; [exact G2|]. split; [|split].
      + eapply stable_trans; eauto.
      + rewrite G4. exact R4.
      + rewrite G5. exact Hlen3.
  Qed.

  Lemma relax_layer_inv (m : mdd) (l : list nat) (d : nat) :
    Dinv m -> Xinv m -> ci_type inp = Relaxed -> m_layers m <> [] ->
    layer_ok m l d -> ci_width inp < length l ->
    Dinv (fst (relax_layer st_eqb inp m l)) /\ Xinv (fst (relax_layer st_eqb inp m l)) /\
    stable m (fst (relax_layer st_eqb inp m l)) /\
    m_next (fst (relax_layer st_eqb inp m l)) = m_next m /\
    layer_ok (fst (relax_layer st_eqb inp m l)) (snd (relax_layer st_eqb inp m l)) d.
  Proof.
    intros HD HX Ht Hly Hl Hw. unfold relax_layer. cbv zeta.
    destruct (note_squash_inv m HD HX) as (N1 & N2 & N3 & N4 & N5 & N6); [auto|].
    set (m0 := note_squash inp m) in *.
    set (sorted := sort_by (rank_order inp m0) l).
    assert (Hsorted : forall x, In x sorted -> In x l) by (intros x Hx; apply sort_by_In in Hx; exact Hx).
    destruct (ci_width inp) as [|w1] eqn:Ew.
    - simpl fst. simpl snd.
      assert (Hc : ceq m0 (set_crash m0)) by apply ceq_set_crash.
      split; [eapply Dg_ceq; eauto|]. split; [eapply Xinv_ceq; eauto|].
      assert (Hst : stable m (set_crash m0)) by (eapply stable_trans; [exact N3|apply ceq_stable; exact Hc]).
      split; [exact Hst|]. split; [exact N4|].
      eapply layer_ok_stable; eauto. apply incl_refl.
    - set (keep := firstn w1 sorted).
      set (mrg := skipn w1 sorted).
      set (mstates := map (fun id => n_state (gn m0 id)) mrg).
      set (merged := merge (ci_relax inp) mstates).
      set (m1 := add_log m0 (EvMerge mstates merged)).
      assert (Hc1 : ceq m0 m1) by apply ceq_add_log.
      assert (HD1 : Dinv m1) by (eapply Dg_ceq; eauto).
      assert (HX1 : Xinv m1) by (eapply Xinv_ceq; eauto).
      assert (Hst1 : stable m m1) by (eapply stable_trans; [exact N3|apply ceq_stable; exact Hc1]).
      assert (Hl1 : layer_ok m1 l d) by (eapply layer_ok_stable; eauto; apply incl_refl).
      assert (Hkeep : forall x, In x keep -> In x l) by (intros x Hx; apply In_firstn in Hx; auto).
      assert (Hmrg : forall x, In x mrg -> In x l) by (intros x Hx; apply In_skipn in Hx; auto).
      assert (Hmrg1 : forall x, In x mrg -> x < length (m_nodes m1)).
      { intros x Hx. apply Hmrg in Hx. apply Hl1 in Hx. lia. }
      destruct (find (fun id => st_eqb (n_state (gn m1 id)) merged) keep) as [rid|] eqn:Hrec.
      + (* the merged state is the state of a kept node *)
        apply find_some in Hrec. destruct Hrec as [Hin _]. apply Hkeep in Hin.
        destruct (Hl1 rid Hin) as [Hr _].
        destruct (relax_core_inv m1 merged rid mrg HD1 HX1 Ht N5 Hmrg1) as (G1 & G2 & G3 & G4 & G5); [lia|lia|].
        cbv zeta in G1, G2, G3, G4, G5.
        cbv beta iota. cbn [fst snd].
        match goal with |- Dinv (upd_node ?mm ?sv ?ff) /\ _ => set (m4 := mm) in *; set (saved := sv); set (f := ff) end.
        assert (Hc : ceq m4 (upd_node m4 saved f)).
        { apply ceq_upd_node. intros n. apply core_eq_set_flags_nc; reflexivity. }
        assert (Hst : stable m (upd_node m4 saved f)).
        { eapply stable_trans; [exact Hst1|]. eapply stable_trans; [exact G3|apply ceq_stable; exact Hc]. }
        split; [eapply Dg_ceq; eauto|]. split; [eapply Xinv_ceq; eauto|]. split; [exact Hst|]. split.
        * destruct Hc as (_ & Hn & _). rewrite Hn, G4. exact N4.
        * eapply layer_ok_stable; eauto. intros x Hx. apply In_firstn in Hx. auto.
      + (* a fresh merged node *)
        cbv beta iota. cbn [fst snd].
        set (n := {| n_state := merged; n_vtop := IMIN; n_vbot := IMIN; n_best := None; n_inb := [];
                     n_rub := IMAX; n_theta := None; n_flags := fl_new_relaxed;
                     n_depth := n_depth (gn m1 (hd 0 mrg)) |}).
        set (m2 := with_nodes m1 (m_nodes m1 ++ [n])).
        set (mid := length (m_nodes m1)).
        assert (Hle1 : m_layer_end m1 <= mid) by apply (D_le _ _ HD1).
        assert (Hlen2 : length (m_nodes m2) = S mid) by apply len_snoc.
        assert (HD2 : Dinv m2).
        { pose proof (Dg_snoc_node m1 n HD1) as [H1 H2 H3 H4 H5 H6]. split; auto.
          intros id Hid _. destruct (Nat.eq_dec id mid) as [->|Hne].
          - split.
            + unfold m2, mid. rewrite gn_snoc_new. simpl. tauto.
            + unfold m2, mid. rewrite gn_snoc_new. unfold n. nsimpl. discriminate.
          - apply H1; auto. }
        assert (HX2 : Xinv m2).
        { apply Xinv_snoc_node; auto. intros [Hor|Hor]; [congruence|]. exfalso. apply N5. exact Hor. }
        assert (Hst2 : stable m1 m2) by (apply snoc_node_stable; exact Hle1).
        assert (Hmrg2 : forall x, In x mrg -> x < length (m_nodes m2)).
        { intros x Hx. apply Hmrg1 in Hx. rewrite Hlen2. unfold mid. lia. }
        destruct (relax_core_inv m2 merged mid mrg HD2 HX2 Ht N5 Hmrg2) as (G1 & G2 & G3 & G4 & G5).
        { exact Hle1. } { lia. }
        cbv zeta in G1, G2, G3, G4, G5.
        match goal with |- Dinv ?mm /\ _ => set (m4 := mm) in * end.
        assert (Hst : stable m m4).
        { eapply stable_trans; [exact Hst1|]. eapply stable_trans; [exact Hst2|exact G3]. }
        split; [exact G1|]. split; [exact G2|]. split; [exact Hst|]. split.
        * rewrite G4. exact N4.
        * intros x Hx. apply in_app_or in Hx. destruct Hx as [Hx|[<-|[]]].
          -- apply (layer_ok_stable m m4 l keep d Hst Hl); auto.
          -- destruct Hst as (s1 & _). destruct G3 as (_ & _ & _ & g4 & _).
             destruct (g4 mid) as [_ Hdp]; [lia|].
             rewrite s1, G5, Hlen2. destruct Hst1 as (t1 & _). rewrite t1 in Hle1.
             split; [lia|]. rewrite Hdp. unfold m2, mid. rewrite gn_snoc_new. unfold n. nsimpl.
             apply Hl1. apply Hmrg. apply hd_In. apply skipn_nonempty.
             unfold sorted. rewrite sort_by_length. lia.
  Qed.
  Lemma squash_if_needed_inv (m : mdd) (l : list nat) (d : nat) :
    Dinv m -> Xinv m -> layer_ok m l d ->
    Dinv (fst (squash_if_needed st_eqb inp m l)) /\ Xinv (fst (squash_if_needed st_eqb inp m l)) /\
    stable m (fst (squash_if_needed st_eqb inp m l)) /\
    m_next (fst (squash_if_needed st_eqb inp m l)) = m_next m /\
    layer_ok (fst (squash_if_needed st_eqb inp m l)) (snd (squash_if_needed st_eqb inp m l)) d.
  Proof.
    intros HD HX Hl. unfold squash_if_needed.
    assert (Htriv : Dinv m /\ Xinv m /\ stable m m /\ m_next m = m_next m /\ layer_ok m l d).
    { split; [exact HD|]. split; [exact HX|]. split; [apply stable_refl|]. split; [reflexivity|exact Hl]. }
    destruct (ci_type inp) eqn:Et.
    - exact Htriv.
    - destruct (Nat.ltb (ci_width inp) (length l) && Nat.ltb 1 (length (m_layers m))) eqn:Eg; [|exact Htriv].
      apply andb_true_iff in Eg. destruct Eg as [E1 E2].
      apply Nat.ltb_lt in E1. apply Nat.ltb_lt in E2.
      apply relax_layer_inv; auto. intros E. rewrite E in E2. simpl in E2. lia.
    - destruct (Nat.ltb (ci_width inp) (length l)) eqn:Eg; [|exact Htriv].
      assert (Hnr : ci_type inp <> Relaxed) by (rewrite Et; discriminate).
      destruct (restrict_layer_inv m l HD HX Hnr) as (R1 & R2 & R3 & R4 & R5).
      split; [exact R1|]. split; [exact R2|]. split; [exact R3|]. split; [exact R4|].
      eapply layer_ok_stable; eauto.
  Qed.

  (* ---------------------------------------------------------------- Xg under path-equivalence and push_layer *)
  Lemma Xg_peq b m m' :
    peq m m' -> m_layers m' = m_layers m -> m_lel m' = m_lel m -> m_cutset m' = m_cutset m ->
    Xg b m -> Xg b m'.
  Proof.
    intros (A1 & A2 & A3 & A4) Hly Hlel Hcs [X1 X2 X3 X4 X5 X6].
    split.
    - congruence.
    - intros Ht id Hid. rewrite <- (core_eq_is_exact _ _ (A4 id)). apply X2; auto. lia.
    - intros Hnone id Hid. rewrite <- (core_eq_is_exact _ _ (A4 id)). apply X3; auto; [congruence|lia].
    - intros Ht k Hk. rewrite Hly. apply X4; auto. congruence.
    - intros ids id H1 H2. rewrite Hly in H1. eapply X5; eauto.
    - intros k ids id H1 H2 H3. rewrite <- (core_eq_is_exact _ _ (A4 id)).
      rewrite Hlel in H1. rewrite Hly in H2. eapply X6; eauto.
  Qed.

  Lemma Xg_weaken b b' m : b <= b' -> Xg b m -> Xg b' m.
  Proof.
    intros Hb [X1 X2 X3 X4 X5 X6]. split; auto.
    intros ids id H1 H2. specialize (X5 ids id H1 H2). lia.
  Qed.

  Lemma Xinv_Xs m : Dinv m -> Xinv m -> Xs m.
  Proof. intros HD HX. eapply Xg_weaken; [|exact HX]. apply (D_le _ _ HD). Qed.

  Lemma Xg_push_layer b (m : mdd) ids e :
    Xg b m -> b <= length (m_nodes m) -> (forall id, In id ids -> id < b) -> Xg b (push_layer m ids e).
  Proof.
    intros [X1 X2 X3 X4 X5 X6] Hb Hids. split.
    - exact X1.
    - exact X2.
    - exact X3.
    - intros Ht k Hk. msimpl. rewrite app_length. specialize (X4 Ht k Hk). lia.
    - intros ids0 id H1 H2. msimpl_in H1. apply in_app_or in H1. destruct H1 as [H1|[<-|[]]].
      + eapply X5; eauto.
      + apply Hids; exact H2.
    - intros k ids0 id H1 H2 H3. msimpl_in H1. msimpl_in H2.
      change (gn (push_layer m ids e) id) with (gn m id).
      destruct (Nat.lt_ge_cases k (length (m_layers m))) as [Hk|Hk].
      + rewrite nth_error_app1 in H2 by exact Hk. eapply X6; eauto.
      + destruct (ci_type inp) eqn:Et.
        * apply X2; [discriminate|].
          apply nth_error_In in H2. apply in_app_or in H2. destruct H2 as [H2|[<-|[]]].
          -- specialize (X5 _ _ H2 H3). lia.
          -- specialize (Hids _ H3). lia.
        * specialize (X4 eq_refl k H1). lia.
        * apply X2; [discriminate|].
          apply nth_error_In in H2. apply in_app_or in H2. destruct H2 as [H2|[<-|[]]].
          -- specialize (X5 _ _ H2 H3). lia.
          -- specialize (Hids _ H3). lia.
  Qed.

  (* ---------------------------------------------------------------- _move_to_next_layer (clean) *)
  Lemma move_to_next_layer_clean_inv (m : mdd) (d : nat) :
    Dinv m -> Xinv m -> next_depth d m ->
    match snd (move_to_next_layer_clean st_eqb inp m) with
    | None => Sinv (fst (move_to_next_layer_clean st_eqb inp m)) /\
              Xs (fst (move_to_next_layer_clean st_eqb inp m)) /\
              m_next (fst (move_to_next_layer_clean st_eqb inp m)) = []
    | Some l => Dinv (fst (move_to_next_layer_clean st_eqb inp m)) /\
                Xinv (fst (move_to_next_layer_clean st_eqb inp m)) /\
                m_next (fst (move_to_next_layer_clean st_eqb inp m)) = [] /\
                (forall id, In id l ->
                  id < m_layer_end (fst (move_to_next_layer_clean st_eqb inp m)) /\
                  n_depth (gn (fst (move_to_next_layer_clean st_eqb inp m)) id) = d) /\
                m_curr_depth (fst (move_to_next_layer_clean st_eqb inp m)) = m_curr_depth m
    end.
  Proof.
    intros HD HX Hnd. unfold move_to_next_layer_clean. cbv zeta.
    set (ma := with_next m []).
    assert (Hpa : peq m ma) by (apply peq_same_nodes; reflexivity).
    destruct (m_next m) as [|c0 cs] eqn:En.
    - cbn [fst snd].
      assert (Hp : peq m (push_layer ma [] 0)) by (apply peq_same_nodes; reflexivity).
      split; [|split].
      + eapply Sinv_peq; [exact Hp| |apply Dinv_Sinv; exact HD]. intros id [].
      + apply Xg_push_layer.
        * eapply Xg_peq; [exact Hpa|reflexivity|reflexivity|reflexivity|]. change (Xs m). apply Xinv_Xs; auto.
        * apply Nat.le_refl.
        * intros id [].
      + reflexivity.
    - set (curr := c0 :: cs) in *.
      assert (HDa : Dinv ma).
      { eapply Dg_peq; [exact Hpa|exact HD|apply Nat.le_refl|apply (D_le _ _ HD)|]. intros id []. }
      assert (HXa : Xinv ma) by (eapply Xg_peq; [exact Hpa|reflexivity|reflexivity|reflexivity|exact HX]).
      assert (Hla : layer_ok ma curr d).
      { intros id Hid. rewrite <- En in Hid. split; [apply (D_next _ _ HD id Hid)|apply Hnd; exact Hid]. }
      assert (Hna : m_next ma = []) by reflexivity.
      (* cache filter *)
      assert (Hb : exists mb lb,
                 (if Nat.ltb 0 (length (m_layers ma)) then filter_with_cache st_eqb inp ma curr else (ma, curr)) = (mb, lb)
                 /\ ceq ma mb /\ incl lb curr).
      { destruct (Nat.ltb 0 (length (m_layers ma))).
        - destruct (filter_with_cache_ceq curr ma) as [I1 I2].
          destruct (filter_with_cache st_eqb inp ma curr) as [mb lb]. exists mb, lb. auto.
        - exists ma, curr. split; [reflexivity|]. split; [apply ceq_refl|apply incl_refl]. }
      destruct Hb as (mb & lb & Eb & Hcb & Hib).
      change (m_layers (with_next m [])) with (m_layers ma). rewrite Eb.
      (* dominance filter *)
      destruct (filter_with_dominance_ceq mb lb) as [Hcc Hic].
      destruct (filter_with_dominance inp mb lb) as [mc lc]. cbn [fst snd] in Hcc, Hic.
      assert (Hac : ceq ma mc) by (eapply ceq_trans; eauto).
      assert (HDc : Dinv mc) by (eapply Dg_ceq; eauto).
      assert (HXc : Xinv mc) by (eapply Xinv_ceq; eauto).
      assert (Hlc : layer_ok mc lc d).
      { eapply layer_ok_stable; [apply ceq_stable; exact Hac|exact Hla|]. eapply incl_tran; eauto. }
      assert (Hnc : m_next mc = []) by (destruct Hac as (_ & Hn & _); rewrite Hn; exact Hna).
      (* squash *)
      destruct (squash_if_needed_inv mc lc d HDc HXc Hlc) as (Q1 & Q2 & Q3 & Q4 & Q5).
      destruct (squash_if_needed st_eqb inp mc lc) as [md ld]. cbn [fst snd] in Q1, Q2, Q3, Q4, Q5.
      cbn [fst snd].
      set (from := m_layer_end md). set (to := length (m_nodes md)).
      assert (Hft : from <= to) by apply (D_le _ _ Q1).
      assert (Hp : peq md (push_layer md (seq from (to - from)) to)) by (apply peq_same_nodes; reflexivity).
      split; [|split; [|split; [|split]]].
      + eapply Dg_peq; [exact Hp|exact Q1|exact Hft|apply Nat.le_refl|].
        intros id Hid. msimpl_in Hid. rewrite Q4, Hnc in Hid. destruct Hid.
      + apply Xg_push_layer.
        * eapply Xg_weaken; [|exact Q2]. exact Hft.
        * apply Nat.le_refl.
        * intros id Hid. apply in_seq in Hid. msimpl. lia.
      + msimpl. rewrite Q4. exact Hnc.
      + intros id Hid. destruct (Q5 id Hid) as [Hr Hdp]. msimpl. split; [unfold to; lia|exact Hdp].
      + msimpl. destruct Q3 as (_ & _ & _ & _ & q5). rewrite q5.
        destruct Hac as (_ & _ & _ & _ & _ & _ & a7). rewrite a7. reflexivity.
  Qed.
  (* ---------------------------------------------------------------- _initialize *)
  Lemma initialize_inv c ds polls :
    Dinv (initialize inp c ds polls) /\ Xinv (initialize inp c ds polls) /\
    next_depth (sp_depth root) (initialize inp c ds polls).
  Proof.
    split; [|split].
    - split.
      + intros id Hid _. simpl in Hid. assert (id = 0) by lia. subst id. split.
        * intros eid [].
        * intros _. reflexivity.
      + unfold root_ok. simpl. repeat split; auto.
      + intros eid He. simpl in He. lia.
      + simpl. lia.
      + intros id [<-|[]]. simpl. lia.
      + intros eid He. simpl in He. lia.
    - split.
      + reflexivity.
      + intros _ id Hid. simpl in Hid. assert (id = 0) by lia. subst id. reflexivity.
      + intros _ id Hid. simpl in Hid. assert (id = 0) by lia. subst id. reflexivity.
      + intros _ k Hk. discriminate.
      + intros ids id [].
      + intros k ids id Hk. discriminate.
    - intros id [<-|[]]. reflexivity.
  Qed.

  (* ---------------------------------------------------------------- the layer loop *)
  Lemma layer_loop_inv (fuel : nat) : forall (m : mdd),
    Dinv m -> Xinv m -> next_depth (m_curr_depth m) m ->
    Sinv (fst (layer_loop st_eqb inp fuel m)) /\ Xs (fst (layer_loop st_eqb inp fuel m)).
  Proof.
    induction fuel as [|fuel IH]; intros m HD HX Hnd; set (d := m_curr_depth m) in Hnd.
    - simpl. split; [apply Dinv_Sinv; exact HD|apply Xinv_Xs; auto].
    - cbn [layer_loop]. cbv zeta.
      set (states := map (fun id => n_state (gn m id)) (m_next m)).
      set (ov := next_variable (ci_problem inp) (m_curr_depth m) states).
      set (m1 := add_log m (EvNextVar (m_curr_depth m) states ov)).
      assert (Hc1 : ceq m m1) by apply ceq_add_log.
      assert (HD1 : Dinv m1) by (eapply Dg_ceq; eauto).
      assert (HX1 : Xinv m1) by (eapply Xinv_ceq; eauto).
      assert (Hov : ov = next_variable pb d states) by reflexivity.
      destruct ov as [var|].
      2: { cbn [fst]. split; [apply Dinv_Sinv; exact HD1|apply Xinv_Xs; auto]. }
      set (m2 := with_polls m1 (S (m_polls m1))).
      assert (Hc2 : ceq m1 m2) by apply ceq_with_polls.
      assert (HD2 : Dinv m2) by (eapply Dg_ceq; eauto).
      assert (HX2 : Xinv m2) by (eapply Xinv_ceq; eauto).
      assert (Hnd2 : next_depth d m2) by exact Hnd.
      destruct (Nat.ltb 0 (ci_cutoff inp) && Nat.leb (ci_cutoff inp) (m_polls m2)).
      { cbn [fst]. split; [apply Dinv_Sinv; exact HD2|apply Xinv_Xs; auto]. }
      rewrite not_pooled.
      pose proof (move_to_next_layer_clean_inv m2 d HD2 HX2 Hnd2) as Hmv.
      destruct (move_to_next_layer_clean st_eqb inp m2) as [m3 ol]. cbn [fst snd] in Hmv.
      destruct ol as [l|].
      2: { cbn [fst]. destruct Hmv as (M1 & M2 & _). auto. }
      destruct Hmv as (M1 & M2 & M3 & M4 & M5).
      assert (Hnd3 : next_depth (S d) m3) by (intros id Hid; rewrite M3 in Hid; destruct Hid).
      destruct (expand_layer_inv var l d m3 M1 M2 Hnd3 M4) as (E1 & E2 & E3 & E4).
      { exists states. symmetry. exact Hov. }
      set (m4 := fold_left (expand_node st_eqb inp var) l m3) in *.
      assert (Hp5 : peq m4 (with_depth m4 (S (m_curr_depth m4)))) by (apply peq_same_nodes; reflexivity).
      apply IH.
      + eapply Dg_peq; [exact Hp5|exact E1|apply Nat.le_refl|apply (D_le _ _ E1)|apply (D_next _ _ E1)].
      + eapply Xg_peq; [exact Hp5|reflexivity|reflexivity|reflexivity|exact E2].
      + cbn [m_curr_depth with_depth]. destruct E3 as (_ & _ & _ & _ & e5). rewrite e5.
        change (m_curr_depth m2) with (m_curr_depth m) in M5. rewrite M5. exact E4.
  Qed.

  (* ================================================================== 7. the theorems, on any diagram satisfying Sinv *)
  Lemma fl_is_exact_not_relaxed fl : fl_is_exact fl = true -> f_relaxed fl = false.
  Proof. unfold fl_is_exact. intros H. apply andb_true_iff in H. destruct H as [_ H]. destruct (f_relaxed fl); auto. Qed.

  (* T1 *)
  Lemma Sinv_exact_flag_clean_chain (m : mdd) :
    Sinv m -> forall id, id < length (m_nodes m) ->
    fl_is_exact (n_flags (gn m id)) = true -> clean_chain m id.
  Proof.
    intros HS id. induction id as [id IH] using lt_wf_ind. intros Hid Hex.
    pose proof (fl_is_exact_not_relaxed _ Hex) as Hr.
    destruct (S_nodes _ HS id Hid) as [_ Hb]. specialize (Hb Hr).
    destruct (n_best (gn m id)) as [eid|] eqn:Eb.
    - destruct Hb as (b1 & b2 & b3 & b4 & b5 & b6 & b7 & b8 & b9).
      eapply cc_step; eauto. apply IH; auto. lia.
    - subst id. apply cc_root; auto.
  Qed.

  (* T2 *)
  Lemma Sinv_ebp_clean_chain (m : mdd) :
    Sinv m -> forall fuel id, id < fuel -> id < length (m_nodes m) ->
    has_exact_best_path inp fuel m (Some id) = true -> clean_chain m id.
  Proof.
    intros HS fuel. induction fuel as [|fuel IH]; intros id Hf Hid Hebp; [lia|].
    cbn [has_exact_best_path] in Hebp.
    destruct (fl_is_exact (n_flags (gn m id))) eqn:Hex.
    - apply Sinv_exact_flag_clean_chain; auto.
    - apply andb_true_iff in Hebp. destruct Hebp as [Hr Hrec].
      apply negb_true_iff in Hr.
      destruct (S_nodes _ HS id Hid) as [_ Hb]. specialize (Hb Hr).
      destruct (n_best (gn m id)) as [eid|] eqn:Eb.
      + destruct Hb as (b1 & b2 & b3 & b4 & b5 & b6 & b7 & b8 & b9).
        simpl in Hrec. eapply cc_step; eauto. apply IH; auto; lia.
      + subst id. apply cc_root; auto.
  Qed.

  (* T3 *)
  Lemma Sinv_clean_chain_walk (m : mdd) :
    Sinv m -> forall id, clean_chain m id -> forall fuel, id < fuel -> id < length (m_nodes m) ->
    replay_sat pb (rev (walk_up inp fuel m (n_best (gn m id)))) (sp_state root) (sp_value root)
      = Some (n_state (gn m id), n_vtop (gn m id)) /\
    n_depth (gn m id) = sp_depth root + length (walk_up inp fuel m (n_best (gn m id))).
  Proof.
    intros HS id Hcc. induction Hcc as [Hr Hb|id eid Hr Hb Hcc IH]; intros fuel Hf Hid.
    - rewrite Hb. destruct (S_root _ HS) as (r1 & r2 & r3 & r4 & r5).
      destruct fuel; simpl; rewrite r2, r3, r4; split; auto.
    - destruct (S_nodes _ HS id Hid) as [_ Hok]. specialize (Hok Hr). rewrite Hb in Hok.
      destruct Hok as (b1 & b2 & b3 & b4 & b5 & b6 & b7 & b8 & b9).
      destruct fuel as [|fuel]; [lia|].
      rewrite Hb. cbn [walk_up].
      set (e := get_edge m eid) in *. set (p := e_from e) in *.
      destruct (IH fuel) as [IH1 IH2]; [lia|lia|].
      split.
      + cbn [rev]. rewrite replay_sat_app. rewrite IH1. cbn [replay_sat].
        rewrite b6. rewrite <- b4. rewrite <- b5. rewrite <- b7. reflexivity.
      + cbn [length]. rewrite b8, IH2. lia.
  Qed.
  (* ================================================================== 6. _finalize preserves the paths *)
  (* [keq]: same core, same next layer, same best nodes, same cutset *)
  Definition keq (m m' : mdd) : Prop :=
    peq m m' /\ m_next m' = m_next m /\ m_best m' = m_best m /\ m_best_exact m' = m_best_exact m /\
    m_cutset m' = m_cutset m.
  Lemma keq_refl m : keq m m.
  Proof. split; [apply peq_refl|repeat split]. Qed.
  Lemma keq_trans m1 m2 m3 : keq m1 m2 -> keq m2 m3 -> keq m1 m3.
  Proof.
    intros (A & B & C & D & E) (A' & B' & C' & D' & E').
    split; [eapply peq_trans; eauto|]. repeat split; congruence.
  Qed.
  Lemma keq_upd_node (m : mdd) id f : (forall n, core_eq n (f n)) -> keq m (upd_node m id f).
  Proof. intros Hf. split; [apply peq_upd_node; exact Hf|]. repeat split. Qed.
  Lemma keq_fold {B} (f : mdd -> B -> mdd) (l : list B) (m : mdd) :
    (forall m x, keq m (f m x)) -> keq m (fold_left f l m).
  Proof.
    intros Hf. revert m; induction l as [|x l IH]; intros m; simpl.
    - apply keq_refl.
    - eapply keq_trans; [apply Hf|apply IH].
  Qed.
  Lemma ceq_keq m m' :
    ceq m m' -> m_best m' = m_best m -> m_best_exact m' = m_best_exact m -> keq m m'.
  Proof. intros (A & B & C & D & E & F & _) H1 H2. split; [exact A|]. repeat split; auto. Qed.

  Lemma cache_update_keq (m : mdd) s dp v e : keq m (cache_update st_eqb inp m s dp v e).
  Proof.
    apply ceq_keq; [apply cache_update_ceq| |];
    unfold cache_update; destruct (ci_use_cache inp); try reflexivity;
    destruct (update_threshold st_eqb (m_cache (add_log m (EvCacheUpd s dp v e))) s dp v e); reflexivity.
  Qed.

  Lemma compute_local_bounds_keq (m : mdd) : keq m (compute_local_bounds inp m).
  Proof.
    unfold compute_local_bounds. cbv zeta.
    match goal with |- context [if ?c then _ else _] => destruct c end; [|apply keq_refl].
    eapply keq_trans; [|apply keq_fold].
    - apply keq_fold. intros a id. apply keq_upd_node. intros n.
      eapply core_eq_trans; [|apply core_eq_set_vbot]. apply core_eq_set_flags_nc; reflexivity.
    - intros a id. destruct (f_marked (n_flags (gn a id))); [|apply keq_refl].
      apply keq_fold. intros a' eid. apply keq_upd_node. intros n.
      eapply core_eq_trans; [|apply core_eq_set_vbot]. apply core_eq_set_flags_nc; reflexivity.
  Qed.

  Lemma maybe_update_cache_keq (m : mdd) id : keq m (maybe_update_cache st_eqb inp m id).
  Proof.
    unfold maybe_update_cache. destruct (n_theta (gn m id)); [|apply keq_refl].
    destruct (f_above (n_flags (gn m id))); [apply cache_update_keq|apply keq_refl].
  Qed.

  Lemma compute_thresholds_keq (m : mdd) : keq m (compute_thresholds st_eqb inp m).
  Proof.
    unfold compute_thresholds. cbv zeta.
    destruct (is_relaxed_ct (ci_type inp) || m_is_exact m); [|apply keq_refl].
    match goal with |- keq m (let '(m0, bk) := ?X in _) =>
      assert (Hx : keq m (fst X)); [|destruct X as [m1 bk]; cbn [fst] in Hx] end.
    { destruct (m_best_exact m) as [be|]; cbn [fst]; [|apply keq_refl].
      apply keq_fold. intros a id.
      match goal with |- context [if ?c then _ else _] => destruct c end; [|apply keq_refl].
      apply keq_upd_node. intros n. apply core_eq_set_theta. }
    eapply keq_trans; [exact Hx|].
    apply keq_fold. intros a id.
    destruct (f_deleted (n_flags (gn a id))); [apply keq_refl|].
    match goal with |- keq a (match n_theta (gn ?X id) with _ => _ end) =>
      assert (Hy : keq a X); [|set (a2 := X) in *] end.
    { destruct (negb (f_cache (n_flags (gn a id)))); [|apply keq_refl].
      eapply keq_trans; [|apply maybe_update_cache_keq].
      repeat match goal with |- context [if ?c then _ else _] => destruct c end;
        try apply keq_refl; apply keq_upd_node; intros n; apply core_eq_set_theta. }
    eapply keq_trans; [exact Hy|].
    destruct (n_theta (gn a2 id)); [|apply keq_refl].
    apply keq_fold. intros a' eid. apply keq_upd_node. intros n. apply core_eq_set_theta.
  Qed.
  (* [beq]: as keq but the cutset may differ *)
  Definition beq (m m' : mdd) : Prop :=
    peq m m' /\ m_next m' = m_next m /\ m_best m' = m_best m /\ m_best_exact m' = m_best_exact m.
  Lemma beq_refl m : beq m m.
  Proof. split; [apply peq_refl|repeat split]. Qed.
  Lemma beq_trans m1 m2 m3 : beq m1 m2 -> beq m2 m3 -> beq m1 m3.
  Proof.
    intros (A & B & C & D) (A' & B' & C' & D').
    split; [eapply peq_trans; eauto|]. repeat split; congruence.
  Qed.
  Lemma keq_beq m m' : keq m m' -> beq m m'.
  Proof. intros (A & B & C & D & E). split; auto. Qed.

  Definition above_cutset_upd (n : node) : node := set_flags n (fl_set_above (fl_set_cutset (n_flags n) true) true).

  Lemma lel_cutset_spec (m : mdd) (k : nat) :
    beq m (lel_cutset m k) /\
    m_cutset (lel_cutset m k) =
      m_cutset m ++ match nth_error (m_layers m) k with Some ids => ids | None => [] end.
  Proof.
    unfold lel_cutset.
    match goal with |- beq m (fold_left ?f ?l ?X) /\ _ => set (m1 := X) end.
    match goal with |- beq m (fold_left ?f ?l m1) /\ _ => set (F := f); set (L := l) end.
    assert (H1 : beq m m1 /\ m_cutset m1 = m_cutset m ++ match nth_error (m_layers m) k with Some ids => ids | None => [] end).
    { unfold m1. destruct (nth_error (m_layers m) k) as [ids|].
      - match goal with |- beq m (with_cutset ?Y _) /\ _ => assert (Hk : keq m Y); [|set (m0 := Y) in *] end.
        { apply keq_fold. intros a id. apply keq_upd_node. intros n. apply core_eq_set_flags_nc; reflexivity. }
        destruct Hk as (K1 & K2 & K3 & K4 & K5). split.
        + split; [|repeat split; auto]. eapply peq_trans; [exact K1|]. apply peq_same_nodes; reflexivity.
        + msimpl. rewrite K5. reflexivity.
      - split; [apply beq_refl|]. rewrite app_nil_r. reflexivity. }
    destruct H1 as [H1 H2].
    assert (Hk : keq m1 (fold_left F L m1)).
    { apply keq_fold. intros a id. apply keq_upd_node. intros n. apply core_eq_set_flags_nc; reflexivity. }
    split.
    - eapply beq_trans; [exact H1|apply keq_beq; exact Hk].
    - destruct Hk as (_ & _ & _ & _ & K5). rewrite K5. exact H2.
  Qed.

  Lemma gn_out_of_range (m : mdd) id :
    length (m_nodes m) <= id -> gn m id = default_node (sp_state (ci_root inp)).
  Proof. intros H. unfold get_node. apply nth_overflow. exact H. Qed.

  Lemma frontier_cutset_spec (m : mdd) :
    Sinv m ->
    beq m (frontier_cutset inp m true) /\
    forall id, In id (m_cutset (frontier_cutset inp m true)) ->
      In id (m_cutset m) \/ (id < length (m_nodes m) /\ fl_is_exact (n_flags (gn m id)) = true).
  Proof.
    intros HS. unfold frontier_cutset.
    set (P := fun a : mdd => beq m a /\ forall id, In id (m_cutset a) ->
                In id (m_cutset m) \/ (id < length (m_nodes m) /\ fl_is_exact (n_flags (gn m id)) = true)).
    apply (fold_left_inv P).
    - split; [apply beq_refl|]. intros id Hid. left; exact Hid.
    - intros a id _ [Ha1 Ha2].
      destruct (fl_is_exact (n_flags (gn a id))).
      + split.
        * eapply beq_trans; [exact Ha1|]. apply keq_beq. apply keq_upd_node.
          intros n. apply core_eq_set_flags_nc; reflexivity.
        * exact Ha2.
      + assert (Hinb : forall eid, In eid (n_inb (gn a id)) -> e_from (get_edge m eid) < length (m_nodes m)).
        { intros eid Hin. destruct Ha1 as ((_ & _ & _ & A4) & _).
          destruct (A4 id) as (_ & _ & _ & c4 & _). rewrite <- c4 in Hin.
          destruct (Nat.lt_ge_cases id (length (m_nodes m))) as [Hlt|Hge].
          - apply (S_efrom _ HS). apply (S_nodes _ HS id Hlt). exact Hin.
          - rewrite gn_out_of_range in Hin by exact Hge. destruct Hin. }
        apply (fold_left_inv P).
        * split; assumption.
        * intros a' eid Hin [Hb1 Hb2].
          pose proof Hb1 as ((B1 & B2 & B3 & B4) & B5 & B6 & B7).
          rewrite (ge_edges_eq m a' eid B1).
          set (src := e_from (get_edge m eid)).
          destruct (fl_is_exact (n_flags (gn a' src)) && negb (f_cutset (n_flags (gn a' src)))) eqn:Ec;
            [|split; assumption].
          apply andb_true_iff in Ec. destruct Ec as [Ec _].
          rewrite <- (core_eq_is_exact _ _ (B4 src)) in Ec.
          split.
          -- eapply beq_trans; [exact Hb1|].
             eapply beq_trans; [|apply keq_beq; apply keq_upd_node; intros n; apply core_eq_set_flags_nc; reflexivity].
             split; [apply peq_same_nodes; reflexivity|repeat split].
          -- intros x Hx. msimpl_in Hx. apply in_app_or in Hx. destruct Hx as [Hx|[<-|[]]].
             ++ apply Hb2; exact Hx.
             ++ right. split; [apply Hinb; exact Hin|exact Ec].
  Qed.

  Definition cutset_ok (m : mdd) : Prop :=
    forall id, In id (m_cutset m) -> id < length (m_nodes m) /\ fl_is_exact (n_flags (gn m id)) = true.

  Lemma finalize_cutset_spec (m : mdd) :
    Sinv m -> Xs m -> beq m (finalize_cutset inp m) /\ cutset_ok (finalize_cutset inp m).
  Proof.
    intros HS HX.
    assert (Hco : forall m', beq m m' ->
              (forall id, In id (m_cutset m') ->
                 In id (m_cutset m) \/ (id < length (m_nodes m) /\ fl_is_exact (n_flags (gn m id)) = true)) ->
              cutset_ok m').
    { intros m' ((A1 & A2 & A3 & A4) & _) H id Hid. destruct (H id Hid) as [Hc|[H1 H2]].
      - rewrite (X_cutset _ _ HX) in Hc. destruct Hc.
      - rewrite A3. rewrite <- (core_eq_is_exact _ _ (A4 id)). auto. }
    unfold finalize_cutset. cbv zeta.
    set (m1 := match m_lel m with
               | None => with_lel_exact m (Some (length (m_layers m))) (m_is_exact m)
               | Some _ => m end).
    assert (H1 : beq m m1 /\ m_cutset m1 = m_cutset m /\ m_layers m1 = m_layers m /\ m_nodes m1 = m_nodes m /\
                 m_lel m1 = match m_lel m with None => Some (length (m_layers m)) | Some k => Some k end).
    { unfold m1. destruct (m_lel m) as [k|] eqn:El.
      - split; [apply beq_refl|]. repeat split. exact El.
      - split; [|repeat split]. split; [apply peq_same_nodes; reflexivity|repeat split]. }
    destruct H1 as (H1 & H2 & H3 & H4 & H5).
    assert (Hsame : beq m m1 /\ cutset_ok m1).
    { split; [exact H1|]. apply Hco; [exact H1|]. intros id Hid. rewrite H2 in Hid. left; exact Hid. }
    assert (HS1 : Sinv m1).
    { destruct H1 as (Hp & Hn & _). eapply Sinv_peq; [exact Hp| |exact HS].
      intros id Hid. rewrite Hn in Hid. rewrite H4. apply (S_next _ HS); exact Hid. }
    destruct Hclean as [Hf|Hf]; rewrite Hf.
    - (* last exact layer *)
      destruct (is_relaxed_ct (ci_type inp) || m_is_exact m); [|exact Hsame].
      destruct (lel_cutset_spec m1 (opt_default 0 (m_lel m1))) as [L1 L2].
      split; [eapply beq_trans; eauto|].
      apply Hco; [eapply beq_trans; eauto|].
      intros id Hid. rewrite L2, H2 in Hid. apply in_app_or in Hid. destruct Hid as [Hid|Hid]; [left; exact Hid|].
      right. rewrite H3, H5 in Hid.
      destruct (m_lel m) as [k|] eqn:El; cbn [opt_default] in Hid.
      + destruct (nth_error (m_layers m) k) as [ids|] eqn:En; [|destruct Hid]. split.
        * eapply (X_layers _ _ HX); eauto. eapply nth_error_In; eauto.
        * eapply (X_lel_some _ _ HX); eauto.
      + destruct (nth_error (m_layers m) (length (m_layers m))) as [ids|] eqn:En; [|destruct Hid].
        exfalso. assert (length (m_layers m) < length (m_layers m)); [|lia].
        apply nth_error_Some. rewrite En. discriminate.
    - (* frontier *)
      destruct (is_relaxed_ct (ci_type inp) || m_is_exact m); [|exact Hsame].
      destruct (frontier_cutset_spec m1 HS1) as [F1 F2].
      split; [eapply beq_trans; eauto|].
      apply Hco; [eapply beq_trans; eauto|].
      intros id Hid. destruct (F2 id Hid) as [Hc|[G1 G2]].
      + left. rewrite <- H2. exact Hc.
      + right. rewrite H4 in G1. rewrite (gn_nodes_eq m m1 id H4) in G2. auto.
  Qed.
  Lemma clean_chain_peq m m' id : peq m m' -> clean_chain m id -> clean_chain m' id.
  Proof.
    intros (A1 & A2 & A3 & A4) Hcc. induction Hcc as [Hr Hb|id eid Hr Hb Hcc IH].
    - destruct (A4 0) as (_ & _ & c3 & _ & _ & c6 & _). apply cc_root; congruence.
    - destruct (A4 id) as (_ & _ & c3 & _ & _ & c6 & _).
      apply (cc_step m' id eid); [congruence|congruence|].
      rewrite (ge_edges_eq m m' eid A1). exact IH.
  Qed.

  Lemma pick_In tb cands b : pick tb cands = Some b -> In b cands.
  Proof. unfold pick. destruct cands as [|c cs]; [discriminate|]. apply nth_error_In. Qed.

  Lemma argmax_candidates_In (m : mdd) ids b : In b (argmax_candidates inp m ids) -> In b ids.
  Proof.
    unfold argmax_candidates. destruct (zmax_list _); [|intros []]. intros H. apply filter_In in H. tauto.
  Qed.

  Lemma finalize_layers_spec (m : mdd) :
    Sinv m -> Xs m ->
    Sinv (finalize_layers inp m) /\ Xs (finalize_layers inp m) /\ peq m (finalize_layers inp m) /\
    m_next (finalize_layers inp m) = m_next m.
  Proof.
    intros HS HX. unfold finalize_layers. cbv zeta. rewrite not_pooled.
    destruct (m_next m) as [|c cs] eqn:En.
    - split; [exact HS|]. split; [exact HX|]. split; [apply peq_refl|exact En].
    - set (m' := push_layer m _ _).
      assert (Hp : peq m m') by (apply peq_same_nodes; reflexivity).
      split; [|split; [|split]].
      + eapply Sinv_peq; [exact Hp| |exact HS]. intros id Hid. apply (S_next _ HS). exact Hid.
      + apply Xg_push_layer; [exact HX|apply Nat.le_refl|]. intros id Hid. apply in_seq in Hid.
        change (id < length (m_nodes m)). lia.
      + exact Hp.
      + exact En.
  Qed.

  (* the statement asked for: [finalize] does not change n_state, n_vtop, n_best, n_inb, the exact and
     relaxed flags, n_depth of any node, nor m_edges, m_path, the number of nodes, m_next *)
  Theorem finalize_spec (tb tb2 : nat) (m : mdd) :
    Sinv m -> Xs m ->
    peq m (finalize st_eqb inp tb tb2 m) /\
    m_next (finalize st_eqb inp tb tb2 m) = m_next m /\
    Sinv (finalize st_eqb inp tb tb2 m) /\
    (forall b, m_best (finalize st_eqb inp tb tb2 m) = Some b ->
               b < length (m_nodes (finalize st_eqb inp tb tb2 m))) /\
    (forall b, m_best_exact (finalize st_eqb inp tb tb2 m) = Some b ->
               b < length (m_nodes (finalize st_eqb inp tb tb2 m)) /\
               clean_chain (finalize st_eqb inp tb tb2 m) b) /\
    cutset_ok (finalize st_eqb inp tb tb2 m) /\
    (ci_type inp <> Relaxed -> forall id, id < length (m_nodes (finalize st_eqb inp tb tb2 m)) ->
       fl_is_exact (n_flags (gn (finalize st_eqb inp tb tb2 m) id)) = true).
  Proof.
    intros HS HX. unfold finalize.
    destruct (finalize_layers_spec m HS HX) as (S1 & X1 & P1 & N1).
    set (m1 := finalize_layers inp m) in *.
    (* find_best_node *)
    set (m2 := find_best_node inp tb tb2 m1).
    assert (P2 : peq m1 m2) by (apply peq_same_nodes; reflexivity).
    assert (S2 : Sinv m2).
    { eapply Sinv_peq; [exact P2| |exact S1]. intros id Hid. apply (S_next _ S1). exact Hid. }
    assert (X2 : Xs m2) by (eapply Xg_peq; [exact P2|reflexivity|reflexivity|reflexivity|exact X1]).
    assert (B2 : forall b, m_best m2 = Some b -> b < length (m_nodes m2)).
    { intros b Hb. unfold m2, find_best_node in Hb. msimpl_in Hb.
      apply pick_In in Hb. apply argmax_candidates_In in Hb. apply (S_next _ S1). exact Hb. }
    assert (BE2 : forall b, m_best_exact m2 = Some b ->
                    b < length (m_nodes m2) /\ fl_is_exact (n_flags (gn m2 b)) = true).
    { intros b Hb. unfold m2, find_best_node in Hb. msimpl_in Hb.
      apply pick_In in Hb. apply argmax_candidates_In in Hb. apply filter_In in Hb. destruct Hb as [Hb1 Hb2].
      split; [apply (S_next _ S1); exact Hb1|exact Hb2]. }
    (* finalize_exact *)
    set (m3 := finalize_exact inp m2).
    assert (P3 : peq m2 m3) by (apply peq_same_nodes; reflexivity).
    assert (S3 : Sinv m3).
    { eapply Sinv_peq; [exact P3| |exact S2]. intros id Hid. apply (S_next _ S2). exact Hid. }
    assert (X3 : Xs m3) by (eapply Xg_peq; [exact P3|reflexivity|reflexivity|reflexivity|exact X2]).
    assert (B3 : forall b, m_best m3 = Some b -> b < length (m_nodes m2)) by exact B2.
    assert (BE3 : forall b, m_best_exact m3 = Some b -> b < length (m_nodes m2) /\ clean_chain m2 b).
    { intros b Hb. unfold m3, finalize_exact in Hb. cbv zeta in Hb. msimpl_in Hb.
      destruct (is_relaxed_ct (ci_type inp) && has_exact_best_path inp (S (length (m_nodes m2))) m2 (m_best m2)) eqn:Eb.
      - apply andb_true_iff in Eb. destruct Eb as [_ Eb]. rewrite Hb in Eb.
        pose proof (B2 b Hb) as Hlt. split; [exact Hlt|].
        eapply Sinv_ebp_clean_chain; [exact S2| |exact Hlt|exact Eb]. lia.
      - destruct (BE2 b Hb) as [Hlt Hex]. split; [exact Hlt|].
        apply Sinv_exact_flag_clean_chain; auto. }
    (* finalize_cutset, local bounds, thresholds *)
    destruct (finalize_cutset_spec m3 S3 X3) as [Q4 C4].
    set (m4 := finalize_cutset inp m3) in *.
    pose proof (compute_local_bounds_keq m4) as K5.
    set (m5 := compute_local_bounds inp m4) in *.
    pose proof (compute_thresholds_keq m5) as K6.
    set (m6 := compute_thresholds st_eqb inp m5) in *.
    assert (Q6 : beq m3 m6).
    { eapply beq_trans; [exact Q4|]. apply keq_beq. eapply keq_trans; eauto. }
    assert (K46 : keq m4 m6) by (eapply keq_trans; eauto).
    destruct Q6 as (P6 & N6 & Bb6 & Be6).
    assert (P26 : peq m2 m6) by (eapply peq_trans; [exact P3|exact P6]).
    assert (P06 : peq m m6) by (eapply peq_trans; [exact P1|]; eapply peq_trans; [exact P2|exact P26]).
    pose proof P26 as (_ & _ & L26 & _).
    assert (Nx6 : m_next m6 = m_next m) by (rewrite N6; exact N1).
    split; [exact P06|]. split; [exact Nx6|].
    split; [|split; [|split; [|split]]].
    - eapply Sinv_peq; [exact P06| |exact HS]. intros id Hid. rewrite Nx6 in Hid.
      destruct P06 as (_ & _ & L & _). rewrite L. apply (S_next _ HS). exact Hid.
    - intros b Hb. rewrite Bb6 in Hb. rewrite L26. apply B3; exact Hb.
    - intros b Hb. rewrite Be6 in Hb. destruct (BE3 b Hb) as [G1 G2]. rewrite L26.
      split; [exact G1|]. eapply clean_chain_peq; [exact P26|exact G2].
    - destruct K46 as ((_ & _ & L & A4) & _ & _ & _ & Kc). intros id Hid. rewrite Kc in Hid.
      destruct (C4 id Hid) as [G1 G2]. rewrite L. rewrite <- (core_eq_is_exact _ _ (A4 id)). auto.
    - intros Ht id Hid. destruct P06 as (_ & _ & L & A4). rewrite <- (core_eq_is_exact _ _ (A4 id)).
      apply (X_exact_nr _ _ HX Ht). rewrite <- L. exact Hid.
  Qed.

  Corollary finalize_preserves_paths (tb tb2 : nat) (m : mdd) :
    Sinv m -> Xs m ->
    m_edges (finalize st_eqb inp tb tb2 m) = m_edges m /\
    m_path (finalize st_eqb inp tb tb2 m) = m_path m /\
    length (m_nodes (finalize st_eqb inp tb tb2 m)) = length (m_nodes m) /\
    forall id,
      n_state (gn (finalize st_eqb inp tb tb2 m) id) = n_state (gn m id) /\
      n_vtop (gn (finalize st_eqb inp tb tb2 m) id) = n_vtop (gn m id) /\
      n_best (gn (finalize st_eqb inp tb tb2 m) id) = n_best (gn m id) /\
      n_inb (gn (finalize st_eqb inp tb tb2 m) id) = n_inb (gn m id) /\
      f_exact (n_flags (gn (finalize st_eqb inp tb tb2 m) id)) = f_exact (n_flags (gn m id)) /\
      f_relaxed (n_flags (gn (finalize st_eqb inp tb tb2 m) id)) = f_relaxed (n_flags (gn m id)) /\
      n_depth (gn (finalize st_eqb inp tb tb2 m) id) = n_depth (gn m id).
  Proof.
    intros HS HX. destruct (finalize_spec tb tb2 m HS HX) as ((A1 & A2 & A3 & A4) & _).
    split; [exact A1|]. split; [exact A2|]. split; [exact A3|].
    intros id. destruct (A4 id) as (c1 & c2 & c3 & c4 & c5 & c6 & c7). repeat split; auto.
  Qed.
  (* ================================================================== 8. the main theorems *)
  (* the diagrams the theorems talk about *)
  Lemma layer_loop_Sinv fuel c ds polls :
    Sinv (fst (layer_loop st_eqb inp fuel (initialize inp c ds polls))) /\
    Xs (fst (layer_loop st_eqb inp fuel (initialize inp c ds polls))).
  Proof.
    destruct (initialize_inv c ds polls) as (I1 & I2 & I3).
    apply layer_loop_inv; auto.
  Qed.

  Lemma compile_Compiled tb tb2 c ds polls m :
    compile st_eqb inp tb tb2 c ds polls = (m, Compiled) ->
    exists ml, ml = fst (layer_loop st_eqb inp (S (S (nb_vars pb))) (initialize inp c ds polls)) /\
               m = finalize st_eqb inp tb tb2 ml /\ Sinv ml /\ Xs ml.
  Proof.
    unfold compile. cbv zeta. intros H.
    destruct (layer_loop_Sinv (S (S (nb_vars pb))) c ds polls) as [HS HX].
    fold pb in H.
    destruct (layer_loop st_eqb inp (S (S (nb_vars pb))) (initialize inp c ds polls)) as [ml e].
    cbn [fst] in HS, HX.
    destruct e; inversion H. exists ml. auto.
  Qed.

  Lemma compile_Sinv tb tb2 c ds polls m :
    compile st_eqb inp tb tb2 c ds polls = (m, Compiled) -> Sinv m.
  Proof.
    intros H. destruct (compile_Compiled _ _ _ _ _ _ H) as (ml & _ & -> & HS & HX).
    apply (finalize_spec tb tb2 ml HS HX).
  Qed.

  (* ---------------------------------------------------------------- T1 *)
  Theorem exact_flag_implies_clean_chain tb tb2 c ds polls m id :
    compile st_eqb inp tb tb2 c ds polls = (m, Compiled) ->
    fl_is_exact (n_flags (gn m id)) = true -> id < length (m_nodes m) -> clean_chain m id.
  Proof.
    intros H Hex Hid. apply Sinv_exact_flag_clean_chain; auto. eapply compile_Sinv; eauto.
  Qed.

  Theorem exact_flag_implies_clean_chain_loop fuel c ds polls id :
    let m := fst (layer_loop st_eqb inp fuel (initialize inp c ds polls)) in
    fl_is_exact (n_flags (gn m id)) = true -> id < length (m_nodes m) -> clean_chain m id.
  Proof.
    intros m Hex Hid. apply Sinv_exact_flag_clean_chain; auto. apply layer_loop_Sinv.
  Qed.

  (* ---------------------------------------------------------------- T2 *)
  Theorem has_exact_best_path_implies_clean_chain tb tb2 c ds polls m id :
    compile st_eqb inp tb tb2 c ds polls = (m, Compiled) ->
    has_exact_best_path inp (S (length (m_nodes m))) m (Some id) = true ->
    id < length (m_nodes m) -> clean_chain m id.
  Proof.
    intros H Hebp Hid. eapply Sinv_ebp_clean_chain; [eapply compile_Sinv; eauto| |exact Hid|exact Hebp]. lia.
  Qed.

  Theorem has_exact_best_path_implies_clean_chain_loop fuel c ds polls id :
    let m := fst (layer_loop st_eqb inp fuel (initialize inp c ds polls)) in
    has_exact_best_path inp (S (length (m_nodes m))) m (Some id) = true ->
    id < length (m_nodes m) -> clean_chain m id.
  Proof.
    intros m Hebp Hid. eapply Sinv_ebp_clean_chain; [apply layer_loop_Sinv| |exact Hid|exact Hebp]. lia.
  Qed.

  (* ---------------------------------------------------------------- T3 *)
  Lemma Sinv_clean_chain_replays (m : mdd) id :
    Sinv m -> clean_chain m id -> id < length (m_nodes m) ->
    replay_sat pb (rev (chain m id)) (sp_state root) (sp_value root)
      = Some (n_state (gn m id), n_vtop (gn m id)) /\
    length (chain m id) = n_depth (gn m id) - sp_depth root /\
    sp_depth root <= n_depth (gn m id) /\
    m_path m = sp_path root.
  Proof.
    intros HS Hcc Hid. unfold chain.
    destruct (Sinv_clean_chain_walk m HS id Hcc (S (length (m_nodes m)))) as [H1 H2]; [lia|exact Hid|].
    split; [exact H1|]. split; [lia|]. split; [lia|]. apply (S_root _ HS).
  Qed.

  Theorem clean_chain_replays tb tb2 c ds polls m id :
    compile st_eqb inp tb tb2 c ds polls = (m, Compiled) ->
    clean_chain m id -> id < length (m_nodes m) ->
    replay_sat pb (rev (chain m id)) (sp_state root) (sp_value root)
      = Some (n_state (gn m id), n_vtop (gn m id)) /\
    length (chain m id) = n_depth (gn m id) - sp_depth root /\
    sp_depth root <= n_depth (gn m id) /\
    m_path m = sp_path root.
  Proof. intros H. apply Sinv_clean_chain_replays. eapply compile_Sinv; eauto. Qed.

  Theorem clean_chain_replays_loop fuel c ds polls id :
    let m := fst (layer_loop st_eqb inp fuel (initialize inp c ds polls)) in
    clean_chain m id -> id < length (m_nodes m) ->
    replay_sat pb (rev (chain m id)) (sp_state root) (sp_value root)
      = Some (n_state (gn m id), n_vtop (gn m id)) /\
    length (chain m id) = n_depth (gn m id) - sp_depth root /\
    sp_depth root <= n_depth (gn m id) /\
    m_path m = sp_path root.
  Proof. intros m. apply Sinv_clean_chain_replays. apply layer_loop_Sinv. Qed.

  (* T3, the variables: the k-th decision from the root branches on the variable that next_variable
     returned at depth (sp_depth root + k) (for the content [states] of that layer) *)
  Lemma Sinv_clean_chain_vars_walk (m : mdd) :
    Sinv m -> forall id, clean_chain m id -> forall fuel, id < fuel -> id < length (m_nodes m) ->
    forall k d, nth_error (rev (walk_up inp fuel m (n_best (gn m id)))) k = Some d ->
    exists states, next_variable pb (sp_depth root + k) states = Some (d_var d).
  Proof.
    intros HS id Hcc. induction Hcc as [Hr Hb|id eid Hr Hb Hcc IH]; intros fuel Hf Hid k d Hk.
    - rewrite Hb in Hk. destruct fuel; destruct k; discriminate.
    - destruct (S_nodes _ HS id Hid) as [_ Hok]. specialize (Hok Hr). rewrite Hb in Hok.
      destruct Hok as (b1 & b2 & b3 & b4 & b5 & b6 & b7 & b8 & b9).
      destruct fuel as [|fuel]; [lia|].
      rewrite Hb in Hk. cbn [walk_up rev] in Hk.
      set (p := e_from (get_edge m eid)) in *.
      assert (Hp : p < length (m_nodes m)) by lia.
      assert (Hpf : p < fuel) by lia.
      destruct (Sinv_clean_chain_walk m HS p Hcc fuel Hpf Hp) as [_ Hdepth].
      set (W := walk_up inp fuel m (n_best (gn m p))) in *.
      destruct (Nat.lt_ge_cases k (length (rev W))) as [Hlt|Hge].
      + rewrite nth_error_app1 in Hk by exact Hlt. eapply IH; eauto.
      + rewrite nth_error_app2 in Hk by exact Hge.
        rewrite rev_length in Hge, Hk.
        destruct (k - length W) as [|j] eqn:Ej; [|destruct j; discriminate].
        simpl in Hk. inversion Hk; subst d.
        destruct (S_var _ HS eid b1) as [st Hst]. exists st.
        replace (sp_depth root + k) with (n_depth (gn m p)) by lia. exact Hst.
  Qed.

  Lemma Sinv_clean_chain_vars (m : mdd) id :
    Sinv m -> clean_chain m id -> id < length (m_nodes m) ->
    forall k d, nth_error (rev (chain m id)) k = Some d ->
    exists states, next_variable pb (sp_depth root + k) states = Some (d_var d).
  Proof.
    intros HS Hcc Hid. unfold chain. eapply Sinv_clean_chain_vars_walk; eauto.
  Qed.

  Theorem clean_chain_variables tb tb2 c ds polls m id :
    compile st_eqb inp tb tb2 c ds polls = (m, Compiled) ->
    clean_chain m id -> id < length (m_nodes m) ->
    forall k d, nth_error (rev (chain m id)) k = Some d ->
    exists states, next_variable pb (sp_depth root + k) states = Some (d_var d).
  Proof. intros H. apply Sinv_clean_chain_vars. eapply compile_Sinv; eauto. Qed.


  (* feasibility in the sense of DP.replay: the chain replays to the node's state; the value is the
     node's value whenever no isize overflow was clamped along the way *)
  Corollary Sinv_clean_chain_feasible (m : mdd) id :
    Sinv m -> clean_chain m id -> id < length (m_nodes m) ->
    exists w, replay pb (rev (chain m id)) (sp_state root) (sp_value root) = Some (n_state (gn m id), w) /\
              (no_overflow pb (rev (chain m id)) (sp_state root) (sp_value root) -> w = n_vtop (gn m id)).
  Proof.
    intros HS Hcc Hid. destruct (Sinv_clean_chain_replays m id HS Hcc Hid) as (R1 & _).
    destruct (replay_sat_feasible pb _ _ _ _ _ (sp_value root) R1) as [w Hw].
    exists w. split; [exact Hw|]. intros Hno.
    rewrite (replay_sat_eq_replay pb _ _ _ Hno) in R1. rewrite Hw in R1. inversion R1. reflexivity.
  Qed.

  (* whatever the outcome (Compiled, CutoffOccurred, OutOfFuel) the returned diagram satisfies the
     static invariant, so the Sinv_* lemmas above apply to it *)
  Lemma compile_Sinv_any tb tb2 c ds polls : Sinv (fst (compile st_eqb inp tb tb2 c ds polls)).
  Proof.
    unfold compile. cbv zeta.
    destruct (layer_loop_Sinv (S (S (nb_vars pb))) c ds polls) as [HS HX]. fold pb.
    destruct (layer_loop st_eqb inp (S (S (nb_vars pb))) (initialize inp c ds polls)) as [ml e].
    cbn [fst] in HS, HX. destruct e; cbn [fst]; auto.
    apply (finalize_spec tb tb2 ml HS HX).
  Qed.

  Theorem clean_chain_feasible tb tb2 c ds polls m id :
    compile st_eqb inp tb tb2 c ds polls = (m, Compiled) ->
    clean_chain m id -> id < length (m_nodes m) ->
    exists w, replay pb (rev (chain m id)) (sp_state root) (sp_value root) = Some (n_state (gn m id), w) /\
              (no_overflow pb (rev (chain m id)) (sp_state root) (sp_value root) -> w = n_vtop (gn m id)).
  Proof. intros H. apply Sinv_clean_chain_feasible. eapply compile_Sinv; eauto. Qed.

  (* ---------------------------------------------------------------- C1 *)
  Theorem restricted_solution_feasible tb tb2 c ds polls m b :
    ci_type inp = Restricted \/ ci_type inp = Exact ->
    compile st_eqb inp tb tb2 c ds polls = (m, Compiled) ->
    m_best m = Some b \/ m_best_exact m = Some b ->
    b < length (m_nodes m) /\ clean_chain m b /\
    replay_sat pb (rev (chain m b)) (sp_state root) (sp_value root)
      = Some (n_state (gn m b), n_vtop (gn m b)) /\
    best_path inp m b = sp_path root ++ chain m b /\
    length (chain m b) = n_depth (gn m b) - sp_depth root.
  Proof.
    intros Ht H Hb.
    destruct (compile_Compiled _ _ _ _ _ _ H) as (ml & _ & -> & HS & HX).
    destruct (finalize_spec tb tb2 ml HS HX) as (F1 & F2 & F3 & F4 & F5 & F6 & F7).
    set (m := finalize st_eqb inp tb tb2 ml) in *.
    assert (Hlt : b < length (m_nodes m)).
    { destruct Hb as [Hb|Hb]; [apply F4; exact Hb|apply F5; exact Hb]. }
    assert (Hnr : ci_type inp <> Relaxed) by (destruct Ht as [E|E]; rewrite E; discriminate).
    assert (Hcc : clean_chain m b).
    { apply Sinv_exact_flag_clean_chain; auto. }
    destruct (Sinv_clean_chain_replays m b F3 Hcc Hlt) as (R1 & R2 & R3 & R4).
    split; [exact Hlt|]. split; [exact Hcc|]. split; [exact R1|]. split; [|exact R2].
    rewrite best_path_chain, R4. reflexivity.
  Qed.

  (* the same in terms of the DecisionDiagram API *)
  Corollary restricted_best_solution_replays tb tb2 c ds polls m sol v :
    ci_type inp = Restricted \/ ci_type inp = Exact ->
    compile st_eqb inp tb tb2 c ds polls = (m, Compiled) ->
    dd_best_solution inp m = Some sol -> dd_best_value inp m = Some v ->
    exists ch s, sol = sp_path root ++ ch /\ replay_sat pb (rev ch) (sp_state root) (sp_value root) = Some (s, v).
  Proof.
    intros Ht H Hsol Hv. unfold dd_best_solution in Hsol. unfold dd_best_value in Hv.
    destruct (m_best m) as [b|] eqn:Eb; [|discriminate]. simpl in Hsol, Hv.
    destruct (restricted_solution_feasible tb tb2 c ds polls m b Ht H (or_introl Eb)) as (G1 & G2 & G3 & G4 & G5).
    inversion Hsol; inversion Hv; subst. exists (chain m b), (n_state (gn m b)). auto.
  Qed.

  (* ---------------------------------------------------------------- C3 *)
  (* stronger than asked: no hypothesis on the compilation type nor on dd_is_exact is needed *)
  Theorem best_exact_solution_genuine tb tb2 c ds polls m b :
    compile st_eqb inp tb tb2 c ds polls = (m, Compiled) ->
    m_best_exact m = Some b ->
    b < length (m_nodes m) /\ clean_chain m b /\
    replay_sat pb (rev (chain m b)) (sp_state root) (sp_value root)
      = Some (n_state (gn m b), n_vtop (gn m b)) /\
    best_path inp m b = sp_path root ++ chain m b /\
    length (chain m b) = n_depth (gn m b) - sp_depth root.
  Proof.
    intros H Hb.
    destruct (compile_Compiled _ _ _ _ _ _ H) as (ml & _ & -> & HS & HX).
    destruct (finalize_spec tb tb2 ml HS HX) as (F1 & F2 & F3 & F4 & F5 & F6 & F7).
    set (m := finalize st_eqb inp tb tb2 ml) in *.
    destruct (F5 b Hb) as [Hlt Hcc].
    destruct (Sinv_clean_chain_replays m b F3 Hcc Hlt) as (R1 & R2 & R3 & R4).
    split; [exact Hlt|]. split; [exact Hcc|]. split; [exact R1|]. split; [|exact R2].
    rewrite best_path_chain, R4. reflexivity.
  Qed.

  Theorem relaxed_exact_solution_genuine tb tb2 c ds polls m b :
    ci_type inp = Relaxed ->
    compile st_eqb inp tb tb2 c ds polls = (m, Compiled) ->
    dd_is_exact m = true -> m_best_exact m = Some b ->
    clean_chain m b /\
    replay_sat pb (rev (chain m b)) (sp_state root) (sp_value root)
      = Some (n_state (gn m b), n_vtop (gn m b)).
  Proof.
    intros _ H _ Hb. destruct (best_exact_solution_genuine _ _ _ _ _ _ _ H Hb) as (G1 & G2 & G3 & _). auto.
  Qed.

  (* ---------------------------------------------------------------- C2 *)
  Theorem cutset_nodes_exact tb tb2 c ds polls m sp :
    compile st_eqb inp tb tb2 c ds polls = (m, Compiled) ->
    In sp (drain_cutset inp m) ->
    exists id, In id (m_cutset m) /\ id < length (m_nodes m) /\
      fl_is_exact (n_flags (gn m id)) = true /\ clean_chain m id /\
      sp_path sp = sp_path root ++ chain m id /\
      sp_state sp = n_state (gn m id) /\ sp_value sp = n_vtop (gn m id) /\
      sp_depth sp = n_depth (gn m id) /\
      replay_sat pb (rev (chain m id)) (sp_state root) (sp_value root) = Some (sp_state sp, sp_value sp) /\
      sp_depth sp = sp_depth root + length (chain m id).
  Proof.
    intros H Hin.
    destruct (compile_Compiled _ _ _ _ _ _ H) as (ml & _ & -> & HS & HX).
    destruct (finalize_spec tb tb2 ml HS HX) as (F1 & F2 & F3 & F4 & F5 & F6 & F7).
    set (m := finalize st_eqb inp tb tb2 ml) in *.
    unfold drain_cutset in Hin. destruct (dd_best_value inp m) as [bv|]; [|destruct Hin].
    apply in_flat_map in Hin. destruct Hin as (id & Hid & Hsp).
    destruct (f_marked (n_flags (gn m id))); [|destruct Hsp].
    destruct Hsp as [<-|[]].
    destruct (F6 id Hid) as [Hlt Hex].
    assert (Hcc : clean_chain m id) by (apply Sinv_exact_flag_clean_chain; auto).
    destruct (Sinv_clean_chain_replays m id F3 Hcc Hlt) as (R1 & R2 & R3 & R4).
    exists id. cbn [sp_path sp_state sp_value sp_depth].
    split; [exact Hid|]. split; [exact Hlt|]. split; [exact Hex|]. split; [exact Hcc|].
    split; [rewrite best_path_chain, R4; reflexivity|].
    split; [reflexivity|]. split; [reflexivity|]. split; [reflexivity|]. split; [exact R1|]. lia.
  Qed.
End Exact.

(* ------------------------------------------------------------------ assumptions *)
Print Assumptions replay_sat_eq_replay.
Print Assumptions finalize_preserves_paths.
Print Assumptions exact_flag_implies_clean_chain.
Print Assumptions exact_flag_implies_clean_chain_loop.
Print Assumptions has_exact_best_path_implies_clean_chain.
Print Assumptions has_exact_best_path_implies_clean_chain_loop.
Print Assumptions clean_chain_replays.
Print Assumptions clean_chain_replays_loop.
Print Assumptions clean_chain_variables.
Print Assumptions clean_chain_feasible.
Print Assumptions compile_Sinv_any.
Print Assumptions restricted_solution_feasible.
Print Assumptions restricted_best_solution_replays.
Print Assumptions cutset_nodes_exact.
Print Assumptions best_exact_solution_genuine.
Print Assumptions relaxed_exact_solution_genuine.
