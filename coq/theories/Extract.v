(* Extract.v — extraction of the executable model to OCaml. ExtrOcamlBasic only:
   bool, option, list, prod, unit, sumbool map to OCaml natives; Z, positive, nat, ascii, string
   stay the extracted inductives. No Extract Constant. *)
Require Import ExtrOcamlBasic.
Require Import DDO.Run.
Extraction "model.ml"
  run_gap run_gap_old run_width run_width_release
  zc_init zc_update zc_get zc_clear_layer zc_clear zc_must_explore zc_spec_get
  zd_init zd_query zd_clear_layer zd_cmp zd_partial_cmp zd_spec_dominated
  zf_empty zf_push zf_pop zf_len zf0_empty zf0_push zf0_pop z_maxub zq_push_nodup zq_coalesce
  tb_input tb_compile tb_candidates tb_dot tb_cache_init tb_dom_init tb_cache_update
  tb_sconfig tb_maximize tb_maximize_multi tb_par_maximize tb_opt_enum tb_opt_from tb_hstar tb_replay tb_enum_from
  Mdd.dd_is_exact Mdd.dd_best_value Mdd.dd_best_exact_value Mdd.dd_best_solution Mdd.dd_best_exact_solution
  Mdd.drain_cutset Mdd.m_log Mdd.m_cache Mdd.m_dom Mdd.m_polls Mdd.m_crash.
