(* Dom.v — executable model of the dominance rule's default methods
   (ddo/src/abstraction/dominance.rs: Dominance::partial_cmp, Dominance::cmp) and of
   SimpleDominanceChecker::is_dominated_or_insert (ddo/src/implementation/dominance/simple.rs).
   Definitions only; the theorems are in DomProofs.v. *)
Require Import DDO.Base.
Open Scope Z_scope.

Record dres := { d_ord : comparison; d_ovd : bool }.   (* DominanceCmpResult *)

Section Dom.
  Context {St Key : Type}.
  Variable key_eqb : Key -> Key -> bool.
  Variable get_key : St -> option Key.
  Variable nd : nat.                       (* nb_dimensions *)
  Variable coord : St -> nat -> Z.         (* get_coordinate *)
  Variable use_value : bool.

  (* the loop  for i in 0..nb_dimensions { match (ordering, a_i.cmp(b_i)) ... } ; None = early return None *)
  Fixpoint pc_loop (a b : St) (is : list nat) (ord : comparison) : option comparison :=
    match is with
    | [] => Some ord
    | i :: is' =>
        match ord, Zcmp (coord a i) (coord b i) with
        | Lt, Gt => None
        | Gt, Lt => None
        | Eq, Gt => pc_loop a b is' Gt
        | Eq, Lt => pc_loop a b is' Lt
        | _, _ => pc_loop a b is' ord
        end
    end.

  Definition partial_cmp (a : St) (va : Z) (b : St) (vb : Z) : option dres :=
    match pc_loop a b (seq 0 nd) Eq with
    | None => None
    | Some ord =>
        if use_value then
          match ord, Zcmp va vb with
          | Lt, Gt => None
          | Gt, Lt => None
          | Eq, Gt => Some {| d_ord := Gt; d_ovd := true |}
          | Eq, Lt => Some {| d_ord := Lt; d_ovd := true |}
          | _, _ => Some {| d_ord := ord; d_ovd := false |}
          end
        else Some {| d_ord := ord; d_ovd := false |}
    end.

  Fixpoint cmp_loop (a b : St) (is : list nat) : comparison :=
    match is with
    | [] => Eq
    | i :: is' => match Zcmp (coord a i) (coord b i) with Eq => cmp_loop a b is' | c => c end
    end.

  Definition dcmp (a : St) (va : Z) (b : St) (vb : Z) : comparison :=
    if use_value then
      match Zcmp va vb with
      | Eq => cmp_loop a b (seq 0 nd)
      | c => c
      end
    else cmp_loop a b (seq 0 nd).

  (* ------------------------------------------------------------ the store *)
  Definition entry := (St * Z)%type.
  Definition bucket := list entry.
  Definition dlayer := list (Key * bucket).
  Definition dstore := list dlayer.

  Definition init_dstore (nvars : nat) : dstore := repeat ([] : dlayer) (S nvars).

  Record dcheck := { dc_dominated : bool; dc_threshold : option Z }.

  (* Option<isize>::min with None < Some(_) ; the accumulator is always Some in the code *)
  Definition omin (a : option Z) (b : Z) : option Z :=
    match a with None => None | Some x => Some (Z.min x b) end.

  (* the closure passed to Vec::retain, threaded state = (dominated, threshold) *)
  Fixpoint retain_loop (s : St) (v : Z) (es : bucket) (dominated : bool) (thr : option Z)
    : bucket * bool * option Z :=
    match es with
    | [] => ([], dominated, thr)
    | (os, ov) :: es' =>
        match partial_cmp s v os ov with
        | Some {| d_ord := Lt; d_ovd := ovd |} =>
            let thr' := if use_value then (if ovd then omin thr (sat_sub ov 1) else omin thr ov) else thr in
            let '(r, d, t) := retain_loop s v es' true thr' in ((os, ov) :: r, d, t)
        | Some {| d_ord := Eq |} => retain_loop s v es' dominated thr
        | Some {| d_ord := Gt |} => retain_loop s v es' dominated thr
        | None => let '(r, d, t) := retain_loop s v es' dominated thr in ((os, ov) :: r, d, t)
        end
    end.

  Definition bucket_query (s : St) (v : Z) (es : bucket) : bucket * dcheck :=
    let '(r, d, t) := retain_loop s v es false (Some IMAX) in
    if d then (r, {| dc_dominated := true; dc_threshold := t |})
    else (r ++ [(s, v)], {| dc_dominated := false; dc_threshold := None |}).

  Fixpoint layer_query (k : Key) (s : St) (v : Z) (l : dlayer) : dlayer * dcheck :=
    match l with
    | [] => ([(k, [(s, v)])], {| dc_dominated := false; dc_threshold := None |})
    | (k', es) :: l' =>
        if key_eqb k' k then let '(es', r) := bucket_query s v es in ((k', es') :: l', r)
        else let '(l'', r) := layer_query k s v l' in ((k', es) :: l'', r)
    end.

  (* None = index out of bounds panic *)
  Definition is_dominated_or_insert (st : dstore) (s : St) (depth : nat) (v : Z) : option (dstore * dcheck) :=
    match get_key s with
    | None => Some (st, {| dc_dominated := false; dc_threshold := None |})
    | Some k =>
        match nth_error st depth with
        | None => None
        | Some l => let '(l', r) := layer_query k s v l in Some (upd_nth depth (fun _ => l') st, r)
        end
    end.

  Definition dclear_layer (st : dstore) (depth : nat) : option dstore :=
    match nth_error st depth with None => None | Some _ => Some (upd_nth depth (fun _ => []) st) end.

  Fixpoint lookup_bucket (k : Key) (l : dlayer) : bucket :=
    match l with
    | [] => []
    | (k', es) :: l' => if key_eqb k' k then es else lookup_bucket k l'
    end.
End Dom.
