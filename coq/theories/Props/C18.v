(* C18 — cache and dominance stores match their sequential specification, also under concurrency.
   Statements, [exact] proofs and Print Assumptions only.
   Concurrency: assumption A-dashmap (each trait method is one atomic per-key map operation) reduces a concurrent
   history to an interleaving of the atomic operations; the order-independence theorems then give the claim. *)
From Coq Require Import Permutation.
Require Import DDO.Base DDO.Cache DDO.Dom DDO.DomProofs DDO.Conc.
Open Scope Z_scope.

(* for every operation sequence, every (state, depth) reads back the maximum, in (value, explored) order, of all
   thresholds recorded for it since that layer was last cleared *)
Theorem C18_cache_refines_spec :
  forall (St : Type) (eqb : St -> St -> bool), (forall a b : St, eqb a b = true <-> a = b) ->
  forall (nvars : nat) (ops : list cop) (c : cache) (s : St) (d : nat),
  crun eqb (init_cache nvars) ops = Some c -> (d <= nvars)%nat ->
  get_threshold eqb c s d = Some (spec_get eqb ops s d).
Proof. exact (@cache_refines_spec). Qed.

Theorem C18_cache_never_panics_in_range :
  forall (St : Type) (eqb : St -> St -> bool) (nvars : nat) (ops : list cop),
  Forall (op_in_range (S nvars)) ops -> exists c : cache, crun eqb (init_cache nvars) ops = Some c.
Proof. exact (@cache_total). Qed.

Theorem C18_clear_layer_affects_no_other :
  forall (St : Type) (eqb : St -> St -> bool) (c : cache) (d : nat) (c' : cache) (s : St) (d' : nat),
  clear_layer c d = Some c' -> d' <> d -> get_threshold eqb c' s d' = get_threshold eqb c s d'.
Proof. exact (@clear_layer_other_layers). Qed.

Theorem C18_stored_threshold_never_decreases :
  forall (St : Type) (eqb : St -> St -> bool), (forall a b : St, eqb a b = true <-> a = b) ->
  forall (c : cache) (s : St) (d : nat) (v : Z) (e : bool) (c' : cache) (t : threshold),
  update_threshold eqb c s d v e = Some c' -> cget eqb c s d = Some t ->
  exists t' : threshold, cget eqb c' s d = Some t' /\ th_le t t'.
Proof. exact (@update_monotone). Qed.

Theorem C18_interleaving_independent :
  forall (St : Type) (eqb : St -> St -> bool), (forall a b : St, eqb a b = true <-> a = b) ->
  forall (c : cache) (ops1 ops2 : list cop) (c1 c2 : cache) (s : St) (d : nat),
  Permutation ops1 ops2 -> Forall is_update ops1 ->
  crun eqb c ops1 = Some c1 -> crun eqb c ops2 = Some c2 -> (d < length c)%nat ->
  cget eqb c1 s d = cget eqb c2 s d.
Proof. exact (@cache_updates_order_independent). Qed.

Theorem C18_no_update_lost :
  forall (St : Type) (eqb : St -> St -> bool), (forall a b : St, eqb a b = true <-> a = b) ->
  forall (c : cache) (ops : list cop) (c' : cache) (s : St) (d : nat) (v : Z) (e : bool),
  Forall is_update ops -> crun eqb c ops = Some c' -> (d < length c)%nat -> In (OpUpdate s d v e) ops ->
  exists t' : threshold, cget eqb c' s d = Some t' /\ th_le {| th_value := v; th_explored := e |} t'.
Proof. exact (@cache_no_update_lost). Qed.

(* after any interleaving of insert-queries the dominance store answers a later query as the Pareto front of all
   recorded states would: the verdict depends only on the set of recorded states *)
Theorem C18_dominance_store_order_independent :
  forall (St Key : Type), (St -> option Key) ->
  forall (nd : nat) (coord : St -> nat -> Z) (use_value : bool) (qs1 qs2 : list (St * Z)) (s : St) (v : Z),
  Permutation qs1 qs2 ->
  dc_dominated (snd (bucket_query nd coord use_value s v (bucket_after nd coord use_value qs1))) =
  dc_dominated (snd (bucket_query nd coord use_value s v (bucket_after nd coord use_value qs2))).
Proof. exact (@dominance_order_independent). Qed.

Theorem C18_dominance_store_is_pareto_front :
  forall (St Key : Type), (St -> option Key) ->
  forall (nd : nat) (coord : St -> nat -> Z) (use_value : bool) (qs1 : list (St * Z)) (s : St) (v : Z),
  dc_dominated (snd (bucket_query nd coord use_value s v (bucket_after nd coord use_value qs1))) = true <->
  (exists (s' : St) (v' : Z), In (s', v') qs1 /\
     le_all nd coord use_value s v s' v' /\ ~ le_all nd coord use_value s' v' s v).
Proof. exact (@pareto_front_history). Qed.

(* non-vacuity: a concrete history *)
Example C18_example :
  exists c, crun Z.eqb (init_cache 1) [OpUpdate 7 0%nat 5 true; OpUpdate 7 0%nat 5 false; OpUpdate 7 0%nat 3 true;
                                       OpClearLayer 1%nat; OpUpdate 8 1%nat 2 false] = Some c /\
            get_threshold Z.eqb c 7 0%nat = Some (Some {| th_value := 5; th_explored := true |}) /\
            get_threshold Z.eqb c 8 1%nat = Some (Some {| th_value := 2; th_explored := false |}).
Proof. eexists. vm_compute. repeat split. Qed.

Print Assumptions C18_cache_refines_spec.
Print Assumptions C18_cache_never_panics_in_range.
Print Assumptions C18_clear_layer_affects_no_other.
Print Assumptions C18_stored_threshold_never_decreases.
Print Assumptions C18_interleaving_independent.
Print Assumptions C18_no_update_lost.
Print Assumptions C18_dominance_store_order_independent.
Print Assumptions C18_dominance_store_is_pareto_front.
