(* C10 — dominance: the checker implements Pareto-front semantics (checker level).
   Statements, [exact] proofs and Print Assumptions only. The solver-level clause (enabling the checker never
   changes the optimum) is NOT proved here; see DESIGN.md 7.10. *)
Require Import DDO.Base DDO.Dom DDO.DomProofs.
Open Scope Z_scope.

(* "at least as good in every coordinate (and in value when values are used)" *)
Theorem C10_partial_cmp_is_componentwise_order :
  forall (St Key : Type), (St -> option Key) ->
  forall (nd : nat) (coord : St -> nat -> Z) (use_value : bool) (a : St) (va : Z) (b : St) (vb : Z),
  (partial_cmp nd coord use_value a va b vb = None <-> ~ le_all nd coord use_value a va b vb /\ ~ le_all nd coord use_value b vb a va) /\
  ((exists o : bool, partial_cmp nd coord use_value a va b vb = Some {| d_ord := Lt; d_ovd := o |}) <->
   le_all nd coord use_value a va b vb /\ ~ le_all nd coord use_value b vb a va) /\
  ((exists o : bool, partial_cmp nd coord use_value a va b vb = Some {| d_ord := Gt; d_ovd := o |}) <->
   le_all nd coord use_value b vb a va /\ ~ le_all nd coord use_value a va b vb) /\
  ((exists o : bool, partial_cmp nd coord use_value a va b vb = Some {| d_ord := Eq; d_ovd := o |}) <->
   le_all nd coord use_value a va b vb /\ le_all nd coord use_value b vb a va).
Proof. exact (@partial_cmp_spec). Qed.

(* one query: dominated exactly when a recorded state with the same key strictly dominates it; otherwise it is
   recorded and exactly the recorded states it dominates (or equals) are dropped *)
Theorem C10_query_verdict :
  forall (St Key : Type), (St -> option Key) ->
  forall (nd : nat) (coord : St -> nat -> Z) (use_value : bool) (s : St) (v : Z) (es es' : bucket) (r : dcheck),
  bucket_query nd coord use_value s v es = (es', r) ->
  (dc_dominated r = true <->
   (exists (os : St) (ov : Z) (o : bool),
      In (os, ov) es /\ partial_cmp nd coord use_value s v os ov = Some {| d_ord := Lt; d_ovd := o |})) /\
  (dc_dominated r = false -> es' = filter (pc_incomp nd coord use_value s v) es ++ [(s, v)] /\ dc_threshold r = None) /\
  (dc_dominated r = true ->
   es' = filter (pc_keep nd coord use_value s v) es /\ dc_threshold r = fold_left (thr_step nd coord use_value s v) es (Some IMAX)).
Proof. exact (@bucket_query_verdict). Qed.

Theorem C10_dominated_query_changes_nothing :
  forall (St Key : Type), (St -> option Key) ->
  forall (nd : nat) (coord : St -> nat -> Z) (use_value : bool) (s : St) (v : Z) (es es' : bucket) (r : dcheck),
  antichain nd coord use_value es -> bucket_query nd coord use_value s v es = (es', r) -> dc_dominated r = true -> es' = es.
Proof. exact (@dominated_drops_nothing). Qed.

Theorem C10_store_is_always_an_antichain :
  forall (St Key : Type), (St -> option Key) ->
  forall (nd : nat) (coord : St -> nat -> Z) (use_value : bool) (qs : list entry),
  antichain nd coord use_value (bucket_after_from nd coord use_value [] qs).
Proof. exact (@reachable_bucket_antichain). Qed.

(* every query sequence: the n-th query is dominated iff an EARLIER query (recorded or not) strictly dominates it *)
Theorem C10_pareto_front_semantics :
  forall (St Key : Type), (St -> option Key) ->
  forall (nd : nat) (coord : St -> nat -> Z) (use_value : bool) (qs : list (St * Z)) (n : nat) (s : St) (v : Z) (r : dcheck),
  nth_error qs n = Some (s, v) ->
  nth_error (verdicts nd coord use_value qs) n = Some r ->
  dc_dominated r = true <->
  (exists (m : nat) (s' : St) (v' : Z),
     (m < n)%nat /\ nth_error qs m = Some (s', v') /\ le_all nd coord use_value s v s' v' /\ ~ le_all nd coord use_value s' v' s v).
Proof. exact (@pareto_front_semantics). Qed.

Theorem C10_threshold_sound :
  forall (St Key : Type), (St -> option Key) ->
  forall (nd : nat) (coord : St -> nat -> Z) (use_value : bool) (s : St) (v : Z) (es es' : bucket) (r : dcheck),
  in_isize v ->
  bucket_query nd coord use_value s v es = (es', r) ->
  dc_dominated r = true ->
  (use_value = true ->
   exists t : Z, dc_threshold r = Some t /\ v <= t /\ t <= IMAX /\
     (forall v' : Z, v' <= t -> dc_dominated (snd (bucket_query nd coord use_value s v' es)) = true)) /\
  (use_value = false -> dc_threshold r = Some IMAX).
Proof. exact (@threshold_sound). Qed.

Theorem C10_cmp_ranks_dominator_first :
  forall (St Key : Type), (St -> option Key) ->
  forall (nd : nat) (coord : St -> nat -> Z) (use_value : bool) (a : St) (va : Z) (b : St) (vb : Z) (o : bool),
  partial_cmp nd coord use_value a va b vb = Some {| d_ord := Lt; d_ovd := o |} -> dcmp nd coord use_value a va b vb = Lt.
Proof. exact (@cmp_ranks_dominator_first). Qed.

(* the whole store: a query touches only the bucket of its key at its depth; key-less states are never recorded *)
Theorem C10_store_query_is_bucket_query :
  forall (St Key : Type) (key_eqb : Key -> Key -> bool), (forall a b : Key, key_eqb a b = true <-> a = b) ->
  forall (get_key : St -> option Key) (nd : nat) (coord : St -> nat -> Z) (use_value : bool) (st : dstore)
    (s : St) (d : nat) (v : Z) (k : Key) (st' : dstore) (r : dcheck),
  get_key s = Some k ->
  is_dominated_or_insert key_eqb get_key nd coord use_value st s d v = Some (st', r) ->
  (store_bucket key_eqb st' d k, r) = bucket_query nd coord use_value s v (store_bucket key_eqb st d k) /\
  (forall (d' : nat) (k' : Key), d' <> d \/ k' <> k -> store_bucket key_eqb st' d' k' = store_bucket key_eqb st d' k') /\
  length st' = length st.
Proof. exact (@idoi_spec). Qed.

Theorem C10_keyless_states_never_dominated :
  forall (St Key : Type) (key_eqb : Key -> Key -> bool) (get_key : St -> option Key) (nd : nat) (coord : St -> nat -> Z)
    (use_value : bool) (st : dstore) (s : St) (d : nat) (v : Z),
  get_key s = None ->
  is_dominated_or_insert key_eqb get_key nd coord use_value st s d v = Some (st, {| dc_dominated := false; dc_threshold := None |}).
Proof. exact (@idoi_no_key). Qed.

Print Assumptions C10_partial_cmp_is_componentwise_order.
Print Assumptions C10_query_verdict.
Print Assumptions C10_dominated_query_changes_nothing.
Print Assumptions C10_store_is_always_an_antichain.
Print Assumptions C10_pareto_front_semantics.
Print Assumptions C10_threshold_sound.
Print Assumptions C10_cmp_ranks_dominator_first.
Print Assumptions C10_store_query_is_bucket_query.
Print Assumptions C10_keyless_states_never_dominated.
