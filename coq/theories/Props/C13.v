(* C13 — the width-heuristic combinators never yield a width of zero (combinator clause).
   Statements, [exact] proofs and Print Assumptions only. usize arithmetic is explicit: debug builds panic on overflow
   (None), release builds wrap modulo 2^64. The per-layer width clause is in MddStruct.v (registered when closed). *)
Require Import DDO.Base DDO.Width.
Open Scope Z_scope.

Theorem C13_times_debug_nonzero : forall k w r, times_debug k w = Some r -> 1 <= r.
Proof. exact times_debug_nonzero. Qed.
Theorem C13_times_release_nonzero : forall k w, 1 <= times_release k w.
Proof. exact times_release_nonzero. Qed.
Theorem C13_times_release_stays_usize : forall k w, in_usize (times_release k w).
Proof. exact times_release_in_usize. Qed.
Theorem C13_divby_nonzero : forall k w r, divby k w = Some r -> 1 <= r.
Proof. exact divby_nonzero. Qed.

Print Assumptions C13_times_debug_nonzero.
Print Assumptions C13_times_release_nonzero.
Print Assumptions C13_times_release_stays_usize.
Print Assumptions C13_divby_nonzero.
