(* C11 — fringes are faithful priority queues; de-duplication never merges distinct sub-problems.
   Statements, [exact] proofs and Print Assumptions only. Model: Fringe.v (faithful indexed binary heap of
   no_duplicate.rs) instantiated at keys (state, depth) as in the code after the "fix:" commit (Fringe2.v).
   SimpleFringe is binary_heap_plus (external crate): specified by the same abstract queue, tested only. *)
From Coq Require Import Permutation.
Require Import DDO.Base DDO.Fringe DDO.FringeProofs DDO.Fringe2.
Open Scope Z_scope.

(* for EVERY operation sequence: no index ever goes out of bounds, the heap / pos / states / recycle-bin invariant
   holds, and the run is simulated step by step by the abstract priority queue:
   push = insert, or coalesce with THE entry of the same key; pop = remove a MaxUB-maximal entry; clear = empty;
   the reported length is the number of poppable items *)
Theorem C11_nodup_refines_priority_queue :
  forall (St : Type) (st_eqb : St -> St -> bool), (forall a b : St, st_eqb a b = true <-> a = b) ->
  forall st_cmp : St -> St -> comparison,
  (forall a b : St, st_cmp a b = CompOpp (st_cmp b a)) ->
  (forall a b c : St, st_cmp a b <> Gt -> st_cmp b c <> Gt -> st_cmp a c <> Gt) ->
  forall ops : list (@fop St),
  exists (f : @knodup St) obs q,
    nd_run (key_eqb st_eqb) (kcmp st_cmp) nd_empty (map embed_op ops) = Some (f, obs) /\
    nd_inv (key_eqb st_eqb) (kcmp st_cmp) f /\
    pq_run (kcmp st_cmp) [] (map embed_op ops) q obs /\ Permutation (abs f) q.
Proof. exact (@keyed_run_refines_pq). Qed.

(* two pops in a row: non-increasing upper bound, ties by larger value *)
Theorem C11_pops_are_nonincreasing :
  forall (St : Type) (st_eqb : St -> St -> bool), (forall a b : St, st_eqb a b = true <-> a = b) ->
  forall st_cmp : St -> St -> comparison,
  (forall a b : St, st_cmp a b = CompOpp (st_cmp b a)) ->
  (forall a b c : St, st_cmp a b <> Gt -> st_cmp b c <> Gt -> st_cmp a c <> Gt) ->
  forall (f : nodup) (x : subproblem) (f' : nodup) (y : subproblem) (f'' : nodup),
  nd_inv st_eqb (maxub_cmp st_cmp) f ->
  nd_pop st_eqb (maxub_cmp st_cmp) f = Some (f', Some x) ->
  nd_pop st_eqb (maxub_cmp st_cmp) f' = Some (f'', Some y) ->
  sp_ub y < sp_ub x \/ sp_ub y = sp_ub x /\ sp_value y <= sp_value x.
Proof. exact (@maxub_successive_pops). Qed.

Theorem C11_len_is_number_of_poppable_items :
  forall (St : Type) (st_eqb : St -> St -> bool) (f : nodup), nd_core st_eqb f -> nd_len f = length (abs f).
Proof. exact (@abs_len). Qed.

(* the survivor keeps the larger value with that value's own path (and depth), and the larger upper bound *)
Theorem C11_survivor_keeps_best :
  forall (St : Type) (old n : @subproblem St),
  sp_value (coalesce old n) = Z.max (sp_value old) (sp_value n) /\
  sp_ub (coalesce old n) = Z.max (sp_ub old) (sp_ub n) /\
  (sp_value n > sp_value old ->
   sp_state (coalesce old n) = sp_state n /\ sp_path (coalesce old n) = sp_path n /\ sp_depth (coalesce old n) = sp_depth n) /\
  (sp_value n <= sp_value old ->
   sp_state (coalesce old n) = sp_state old /\ sp_path (coalesce old n) = sp_path old /\ sp_depth (coalesce old n) = sp_depth old).
Proof. exact (@coalesce_keeps_best). Qed.

(* de-duplication only merges entries denoting the same sub-problem: the coalescing key of every held or popped
   entry is (its state, its depth) *)
Theorem C11_dedup_only_same_subproblem :
  forall (St : Type) (st_eqb : St -> St -> bool), (forall a b : St, st_eqb a b = true <-> a = b) ->
  forall st_cmp : St -> St -> comparison,
  (forall a b : St, st_cmp a b = CompOpp (st_cmp b a)) ->
  (forall a b c : St, st_cmp a b <> Gt -> st_cmp b c <> Gt -> st_cmp a c <> Gt) ->
  forall (ops : list (@fop St)) (f : @knodup St) obs,
  nd_run (key_eqb st_eqb) (kcmp st_cmp) nd_empty (map embed_op ops) = Some (f, obs) ->
  (forall x, In x (abs f) -> sp_state x = (fst (sp_state x), sp_depth x)) /\
  (forall k x, In (k, Some (Some x)) obs -> sp_state x = (fst (sp_state x), sp_depth x)).
Proof. exact (@keyed_dedup_only_same_subproblem). Qed.

(* finding D4: the code before the fix (map keyed by the state alone) merged equal states of different depths *)
Theorem C11_refuted_before_fix :
  exists (a b : @subproblem nat) f obs,
    sp_state a = sp_state b /\ sp_depth a <> sp_depth b /\
    nd_run Nat.eqb (maxub_cmp Nat.compare) nd_empty [FPush a; FPush b] = Some (f, obs) /\ nd_len f = 1%nat.
Proof. exact dedup_ignores_depth. Qed.

Print Assumptions C11_nodup_refines_priority_queue.
Print Assumptions C11_pops_are_nonincreasing.
Print Assumptions C11_len_is_number_of_poppable_items.
Print Assumptions C11_survivor_keeps_best.
Print Assumptions C11_dedup_only_same_subproblem.
Print Assumptions C11_refuted_before_fix.
