(* C17 — the optimality gap is well defined and zero only at optimality.
   Only statements, [exact] proofs and Print Assumptions live in this file. *)
From Coq Require Import ZArith Reals.
From Flocq Require Import Core BinarySingleNaN.
Require Import DDO.Base DDO.Gap.
Open Scope Z_scope.

Theorem C17_never_nan : forall lb ub, in_isize lb -> in_isize ub -> is_nan (gap lb ub) = false.
Proof. exact gap_never_nan. Qed.

Theorem C17_never_negative : forall lb ub, in_isize lb -> in_isize ub ->
  is_finite (gap lb ub) = true /\ (0 <= B2R (gap lb ub))%R /\ (gap lb ub = B754_zero true -> False).
Proof. exact gap_nonneg. Qed.

Theorem C17_one_while_infinite : forall lb ub, ub = IMAX \/ lb = IMIN -> B2R (gap lb ub) = 1%R.
Proof. exact gap_one_when_infinite. Qed.

Theorem C17_zero_iff_coincide : forall lb ub, in_isize lb -> in_isize ub -> no_sentinel lb ub ->
  (B2R (gap lb ub) = 0%R <-> lb = ub).
Proof. exact gap_zero_iff. Qed.

Theorem C17_at_most_one_same_sign : forall lb ub, in_isize lb -> in_isize ub -> lb <= ub ->
  (0 <= lb \/ ub <= 0) -> (B2R (gap lb ub) <= 1)%R.
Proof. exact gap_le_one_same_sign. Qed.

(* The code as it was before the "fix:" commit violated the property (finding D0). *)
Theorem C17_refuted_before_fix :
  is_nan (gap_old 0 0) = true /\ gap_old (-5) 5 = B754_zero false.
Proof. exact (conj gap_old_nan_at_zero gap_old_zero_while_bounds_differ). Qed.

(* non-vacuity: concrete values *)
Example C17_example : B2R (gap 3 5) = (13421773 * / 33554432)%R.
Proof. vm_compute. reflexivity. Qed.

Print Assumptions C17_never_nan.
Print Assumptions C17_never_negative.
Print Assumptions C17_one_while_infinite.
Print Assumptions C17_zero_iff_coincide.
Print Assumptions C17_at_most_one_same_sign.
Print Assumptions C17_refuted_before_fix.
