(* C14 — a warm-start primal never makes the solver miss a better solution (assume-guarantee form).
   Statements, [exact] proofs and Print Assumptions only. The statements are the closed forms of the theorems of
   SolverProofs.v: the premises are (1) the configuration (no cache, no dominance rule, no cutoff, SimpleFringe),
   (2) an abstract semantics good / best / feasible of sub-problems, and (3) the DIAGRAM CONTRACTS K0..K5 quantified over
   every compilation the solver may request. The contracts are the diagram-level properties C06 / C07 / C08; as long as
   they are not all proved about Mdd.compile the claim for this property stays "other" (see DESIGN.md). *)
Require Import DDO.Base DDO.Fringe DDO.DP DDO.Cache DDO.Dom DDO.Mdd DDO.Solver DDO.SolverProofs.
Open Scope Z_scope.

Theorem C14_seq_solver_correct_with_primal :
  forall (St : Type) (st_eqb : St -> St -> bool) (cfg : sconfig),
         config_ok cfg ->
         forall (good : subproblem -> Prop) (best : subproblem -> option Z) (feasible : list decision -> Z -> Prop),
         good (root_node cfg) ->
         (forall (sol : list decision) (v : Z), feasible sol v -> exists o : Z, OPT cfg best = Some o /\ v <= o) ->
         (forall o : Z, OPT cfg best = Some o -> IMIN < o <= IMAX) ->
         (forall (c : subproblem) (u : Z), good c -> good (set_ub c u)) ->
         (forall (c : subproblem) (u : Z), best (set_ub c u) = best c) ->
         forall M : nat,
         (forall (ct : comptype) (n : subproblem) (lb : Z) (c : cache) (ds : dstore) (polls : nat) (m : mdd) (out : outcome),
          dd_ct ct ->
          good n ->
          (sp_depth n <= nb_vars (sc_problem cfg))%nat ->
          compile st_eqb (mk_input cfg ct n lb) 0 0 c ds polls = (m, out) -> out = Compiled /\ m_crash m = false) ->
         (forall (ct : comptype) (n : subproblem) (lb : Z) (c : cache) (ds : dstore) (polls : nat) (m : mdd) (out : outcome),
          dd_ct ct ->
          good n ->
          (sp_depth n <= nb_vars (sc_problem cfg))%nat ->
          compile st_eqb (mk_input cfg ct n lb) 0 0 c ds polls = (m, out) ->
          forall v : Z,
          dd_best_exact_value (mk_input cfg ct n lb) m = Some v ->
          exists sol : list decision, dd_best_exact_solution (mk_input cfg ct n lb) m = Some sol /\ feasible sol v) ->
         (forall (ct : comptype) (n : subproblem) (lb : Z) (c : cache) (ds : dstore) (polls : nat) (m : mdd) (out : outcome),
          dd_ct ct ->
          good n ->
          (sp_depth n <= nb_vars (sc_problem cfg))%nat ->
          compile st_eqb (mk_input cfg ct n lb) 0 0 c ds polls = (m, out) ->
          dd_is_exact m = true -> forall o : Z, best n = Some o -> o > lb -> dd_best_exact_value (mk_input cfg ct n lb) m = Some o) ->
         (forall (n : subproblem) (lb : Z) (c : cache) (ds : dstore) (polls : nat) (m : mdd) (out : outcome),
          good n ->
          (sp_depth n <= nb_vars (sc_problem cfg))%nat ->
          compile st_eqb (mk_input cfg Relaxed n lb) 0 0 c ds polls = (m, out) ->
          dd_is_exact m = false -> forall x : subproblem, In x (drain_cutset (mk_input cfg Relaxed n lb) m) -> good x) ->
         (forall (n : subproblem) (lb : Z) (c : cache) (ds : dstore) (polls : nat) (m : mdd) (out : outcome),
          good n ->
          (sp_depth n <= nb_vars (sc_problem cfg))%nat ->
          compile st_eqb (mk_input cfg Relaxed n lb) 0 0 c ds polls = (m, out) ->
          dd_is_exact m = false ->
          forall x : subproblem,
          In x (drain_cutset (mk_input cfg Relaxed n lb) m) -> (sp_depth n < sp_depth x <= nb_vars (sc_problem cfg))%nat) ->
         (forall (n : subproblem) (lb : Z) (c : cache) (ds : dstore) (polls : nat) (m : mdd) (out : outcome),
          good n ->
          (sp_depth n <= nb_vars (sc_problem cfg))%nat ->
          compile st_eqb (mk_input cfg Relaxed n lb) 0 0 c ds polls = (m, out) ->
          dd_is_exact m = false ->
          forall x : subproblem, In x (drain_cutset (mk_input cfg Relaxed n lb) m) -> forall o : Z, best x = Some o -> o > lb -> o <= sp_ub x) ->
         (forall (n : subproblem) (lb : Z) (c : cache) (ds : dstore) (polls : nat) (m : mdd) (out : outcome),
          good n ->
          (sp_depth n <= nb_vars (sc_problem cfg))%nat ->
          compile st_eqb (mk_input cfg Relaxed n lb) 0 0 c ds polls = (m, out) ->
          dd_is_exact m = false ->
          forall o : Z,
          best n = Some o ->
          o > lb ->
          (forall e : Z, dd_best_exact_value (mk_input cfg Relaxed n lb) m = Some e -> e < o) ->
          exists x : subproblem, In x (drain_cutset (mk_input cfg Relaxed n lb) m) /\ best x = Some o) ->
         (forall (n : subproblem) (lb : Z) (c : cache) (ds : dstore) (polls : nat) (m : mdd) (out : outcome),
          good n ->
          (sp_depth n <= nb_vars (sc_problem cfg))%nat ->
          compile st_eqb (mk_input cfg Relaxed n lb) 0 0 c ds polls = (m, out) ->
          dd_is_exact m = false -> (length (drain_cutset (mk_input cfg Relaxed n lb) m) <= M)%nat) ->
         forall (pv : Z) (psol : list decision),
         feasible psol pv ->
         exists f0 : nat,
           forall fuel : nat,
           (f0 <= fuel)%nat ->
           let r := maximize st_eqb cfg fuel (Some (pv, psol)) in
           r_crash r = false /\
           r_outoffuel r = false /\
           r_exact r = true /\
           r_value r = OPT cfg best /\
           (forall v : Z,
            OPT cfg best = Some v ->
            r_lb r = v /\ r_ub r = v /\ (exists sol : list decision, r_sol r = Some (sort_by dec_var_cmp sol) /\ feasible sol v)) /\
           (OPT cfg best = None -> r_sol r = None /\ r_lb r = IMIN).
Proof. exact (@seq_solver_correct_primal). Qed.

Theorem C14_set_primal_replaces_only_when_strictly_greater :
  forall (St : Type) (s : @sstate St) (v : Z) (sol : list decision),
         (v > s_lb s -> s_lb (set_primal s v sol) = v /\ s_sol (set_primal s v sol) = Some sol) /\ (~ v > s_lb s -> set_primal s v sol = s).
Proof. exact (@set_primal_strict). Qed.

Print Assumptions C14_seq_solver_correct_with_primal.
Print Assumptions C14_set_primal_replaces_only_when_strictly_greater.
