(* ExtractKp.v — extraction of the model of the shipped knapsack example (Knapsack.v) for its correspondence check.
   ExtrOcamlBasic only; no Extract Constant / Extract Inductive of our own. *)
Require Import ExtrOcamlBasic.
Require Import DDO.Knapsack.
Extraction "kpmodel.ml" kp_problem kp_relaxation kp_ranking kp_wfb sortedRb kp_brute kstate_eqb.
