(* Solver.v — executable transliteration of SequentialSolver (ddo/src/implementation/solver/sequential.rs):
   initialize, get_workload, process_one_node, maybe_update_best, enqueue_cutset, abort_search, set_primal,
   maximize and the accessors. The fringe is either the faithful NoDupFringe model or an abstract
   priority queue standing for SimpleFringe (binary_heap_plus). *)
Require Import DDO.Base DDO.Fringe DDO.FringeProofs DDO.Fringe2 DDO.DP DDO.Cache DDO.Dom DDO.Mdd.
Open Scope Z_scope.

Section Solver.
  Context {St : Type}.
  Variable st_eqb : St -> St -> bool.

  Record sconfig := {
    sc_flavour : flavour;
    sc_problem : problem St;
    sc_relax : relaxation St;
    sc_ranking : St -> St -> comparison;
    sc_domcmp : St -> Z -> St -> Z -> comparison;
    sc_domrule : option ((St -> option Z) * nat * (St -> nat -> Z) * bool);
    sc_width : nat;                      (* FixedWidth *)
    sc_use_cache : bool;
    sc_nodup : bool;                     (* NoDupFringe vs SimpleFringe *)
    sc_cutoff : nat }.

  Variable cfg : sconfig.
  Let pb := sc_problem cfg.
  Let spcmp := @maxub_cmp St (sc_ranking cfg).

  Record sstate := {
    s_simple : list (@subproblem St);    (* SimpleFringe content (abstract priority queue) *)
    s_nodup : @nodup (St * nat);         (* NoDupFringe, keyed by (state, depth) *)
    s_explored : nat;
    s_open : list nat;                   (* open_by_layer *)
    s_fal : nat;                         (* first_active_layer *)
    s_lb : Z; s_ub : Z;
    s_sol : option (list decision);
    s_abort : bool;
    s_cache : @cache St;
    s_dom : @dstore St Z;
    s_polls : nat;
    s_crash : bool;
    s_tie : bool;                        (* some compilation had several equally valued best terminal nodes *)
    s_compiles : nat }.

  Definition init_sstate : sstate := {|
    s_simple := []; s_nodup := nd_empty; s_explored := O;
    s_open := repeat O (S (nb_vars pb)); s_fal := O;
    s_lb := IMIN; s_ub := IMAX; s_sol := None; s_abort := false;
    s_cache := if sc_use_cache cfg then init_cache (nb_vars pb) else [];
    s_dom := init_dstore (nb_vars pb); s_polls := O; s_crash := false; s_tie := false; s_compiles := O |}.

  Definition upd_s (s : sstate) simple nodupv explored open fal lb ub sol abort cache dom polls crash tie comps : sstate :=
    {| s_simple := simple; s_nodup := nodupv; s_explored := explored; s_open := open; s_fal := fal; s_lb := lb; s_ub := ub;
       s_sol := sol; s_abort := abort; s_cache := cache; s_dom := dom; s_polls := polls; s_crash := crash; s_tie := tie;
       s_compiles := comps |}.

  Definition crashed (s : sstate) : sstate :=
    upd_s s (s_simple s) (s_nodup s) (s_explored s) (s_open s) (s_fal s) (s_lb s) (s_ub s) (s_sol s) (s_abort s)
          (s_cache s) (s_dom s) (s_polls s) true (s_tie s) (s_compiles s).

  (* ------------------------------------------------------------ fringe *)
  Definition fr_len (s : sstate) : nat := if sc_nodup cfg then nd_len (s_nodup s) else length (s_simple s).

  Definition fr_push (s : sstate) (n : @subproblem St) : sstate :=
    if sc_nodup cfg then
      match k_push st_eqb (sc_ranking cfg) (s_nodup s) n with
      | Some f => upd_s s (s_simple s) f (s_explored s) (s_open s) (s_fal s) (s_lb s) (s_ub s) (s_sol s) (s_abort s)
                        (s_cache s) (s_dom s) (s_polls s) (s_crash s) (s_tie s) (s_compiles s)
      | None => crashed s
      end
    else upd_s s (n :: s_simple s) (s_nodup s) (s_explored s) (s_open s) (s_fal s) (s_lb s) (s_ub s) (s_sol s) (s_abort s)
               (s_cache s) (s_dom s) (s_polls s) (s_crash s) (s_tie s) (s_compiles s).

  (* abstract pop (SimpleFringe = binary_heap_plus): extract a cmp-maximal element, positionally.
     pq_pop l = Some (x, rest): x is the LAST cmp-maximal element of l, rest is l without that occurrence *)
  Fixpoint pq_pop (l : list (@subproblem St)) : option (@subproblem St * list (@subproblem St)) :=
    match l with
    | [] => None
    | x :: l' => match pq_pop l' with
                 | None => Some (x, [])
                 | Some (y, rest) => if is_gt (spcmp x y) then Some (x, l') else Some (y, x :: rest)
                 end
    end.

  Definition fr_pop (s : sstate) : sstate * option (@subproblem St) :=
    if sc_nodup cfg then
      match k_pop st_eqb (sc_ranking cfg) (s_nodup s) with
      | Some (f, r) => (upd_s s (s_simple s) f (s_explored s) (s_open s) (s_fal s) (s_lb s) (s_ub s) (s_sol s) (s_abort s)
                              (s_cache s) (s_dom s) (s_polls s) (s_crash s) (s_tie s) (s_compiles s), r)
      | None => (crashed s, None)
      end
    else
      match pq_pop (s_simple s) with
      | None => (s, None)
      | Some (x, rest) => (upd_s s rest (s_nodup s) (s_explored s) (s_open s) (s_fal s) (s_lb s) (s_ub s) (s_sol s)
                         (s_abort s) (s_cache s) (s_dom s) (s_polls s) (s_crash s) (s_tie s) (s_compiles s), Some x)
      end.

  Definition fr_clear (s : sstate) : sstate :=
    upd_s s [] nd_empty (s_explored s) (s_open s) (s_fal s) (s_lb s) (s_ub s) (s_sol s) (s_abort s)
          (s_cache s) (s_dom s) (s_polls s) (s_crash s) (s_tie s) (s_compiles s).

  (* ------------------------------------------------------------ compilation *)
  Definition mk_input (ct : comptype) (node : @subproblem St) (lb : Z) : @cinput St := {|
    ci_flavour := sc_flavour cfg; ci_type := ct; ci_problem := pb; ci_relax := sc_relax cfg;
    ci_ranking := sc_ranking cfg; ci_domcmp := sc_domcmp cfg; ci_width := sc_width cfg; ci_root := node;
    ci_best_lb := lb; ci_use_cache := sc_use_cache cfg; ci_domrule := sc_domrule cfg; ci_cutoff := sc_cutoff cfg |}.

  Definition run_compile (s : sstate) (ct : comptype) (node : @subproblem St) : sstate * @cinput St * @mdd St * outcome :=
    let inp := mk_input ct node (s_lb s) in
    let '(m, o) := compile st_eqb inp O O (s_cache s) (s_dom s) (s_polls s) in
    let tie := Nat.ltb 1 (length (argmax_candidates inp m (m_next m))) in
    (upd_s s (s_simple s) (s_nodup s) (s_explored s) (s_open s) (s_fal s) (s_lb s) (s_ub s) (s_sol s) (s_abort s)
           (m_cache m) (m_dom m) (m_polls m) (s_crash s || m_crash m) (s_tie s || tie) (S (s_compiles s)), inp, m, o).

  Definition maybe_update_best (s : sstate) (inp : @cinput St) (m : @mdd St) : sstate :=
    let v := opt_default IMIN (dd_best_exact_value inp m) in
    if v >? s_lb s then
      upd_s s (s_simple s) (s_nodup s) (s_explored s) (s_open s) (s_fal s) v (s_ub s) (dd_best_exact_solution inp m) (s_abort s)
            (s_cache s) (s_dom s) (s_polls s) (s_crash s) (s_tie s) (s_compiles s)
    else s.

  Definition enqueue_cutset (s : sstate) (inp : @cinput St) (m : @mdd St) (ub : Z) : sstate :=
    let best_lb := s_lb s in
    fold_left (fun s c =>
        let cub := Z.min ub (sp_ub c) in
        if cub >? best_lb then
          let c' := {| sp_state := sp_state c; sp_value := sp_value c; sp_path := sp_path c; sp_ub := cub; sp_depth := sp_depth c |} in
          let before := fr_len s in
          let s := fr_push s c' in
          let after := fr_len s in
          match nth_error (s_open s) (sp_depth c) with
          | None => crashed s
          | Some _ =>
              upd_s s (s_simple s) (s_nodup s) (s_explored s) (upd_nth (sp_depth c) (fun o => o + (after - before))%nat (s_open s))
                    (s_fal s) (s_lb s) (s_ub s) (s_sol s) (s_abort s) (s_cache s) (s_dom s) (s_polls s) (s_crash s) (s_tie s) (s_compiles s)
          end
        else s)
      (drain_cutset inp m) s.

  Definition abort_search (s : sstate) : sstate :=
    let s := fr_clear s in
    upd_s s (s_simple s) (s_nodup s) (s_explored s) (s_open s) (s_fal s) (s_lb s) (s_ub s) (s_sol s) true
          (clear (s_cache s)) (s_dom s) (s_polls s) (s_crash s) (s_tie s) (s_compiles s).

  (* Ok(()) = false, Err(CutoffOccurred) = true *)
  Definition process_one_node (s : sstate) (node : @subproblem St) : sstate * bool :=
    let node_ub := sp_ub node in
    if node_ub <=? s_lb s then (s, false)
    else
      let explore :=
        if sc_use_cache cfg then
          match must_explore st_eqb (s_cache s) (sp_state node) (sp_depth node) (sp_value node) with
          | Some b => Some b | None => None end
        else Some true in
      match explore with
      | None => (crashed s, false)
      | Some false => (s, false)
      | Some true =>
          let '(s, inp, m, o) := run_compile s Restricted node in
          match o with
          | Compiled =>
              let s := maybe_update_best s inp m in
              if dd_is_exact m then (s, false)
              else
                let '(s, inp, m, o) := run_compile s Relaxed node in
                match o with
                | Compiled =>
                    let s := maybe_update_best s inp m in
                    if dd_is_exact m then (s, false) else (enqueue_cutset s inp m node_ub, false)
                | _ => (s, true)
                end
          | _ => (s, true)
          end
      end.

  Inductive workload := WComplete | WAborted | WItem (n : @subproblem St).

  (* the `while first_active_layer < nb_variables && open_by_layer[..] == 0` loop *)
  Fixpoint clean_cache_loop (fuel : nat) (s : sstate) : sstate :=
    match fuel with
    | O => s
    | S fuel' =>
        if Nat.ltb (s_fal s) (nb_vars pb) then
          match nth_error (s_open s) (s_fal s) with
          | Some O =>
              let c := if sc_use_cache cfg then
                         match clear_layer (s_cache s) (s_fal s) with Some c => Some c | None => None end
                       else Some (s_cache s) in
              match c with
              | Some c =>
                  clean_cache_loop fuel'
                    (upd_s s (s_simple s) (s_nodup s) (s_explored s) (s_open s) (S (s_fal s)) (s_lb s) (s_ub s) (s_sol s) (s_abort s)
                           c (s_dom s) (s_polls s) (s_crash s) (s_tie s) (s_compiles s))
              | None => crashed s
              end
          | Some _ => s
          | None => crashed s
          end
        else s
    end.

  Definition get_workload (s : sstate) : sstate * workload :=
    let s := clean_cache_loop (S (nb_vars pb)) s in
    if Nat.eqb (fr_len s) 0 then
      (upd_s s (s_simple s) (s_nodup s) (s_explored s) (s_open s) (s_fal s) (s_lb s) (s_lb s) (s_sol s) (s_abort s)
             (s_cache s) (s_dom s) (s_polls s) (s_crash s) (s_tie s) (s_compiles s), WComplete)
    else if s_abort s then (s, WAborted)
    else
      let '(s, o) := fr_pop s in
      match o with
      | None => (crashed s, WComplete)
      | Some nn =>
          match nth_error (s_open s) (sp_depth nn) with
          | Some (S k) =>
              (upd_s s (s_simple s) (s_nodup s) (S (s_explored s)) (upd_nth (sp_depth nn) (fun _ => k) (s_open s)) (s_fal s)
                     (s_lb s) (sp_ub nn) (s_sol s) (s_abort s) (s_cache s) (s_dom s) (s_polls s) (s_crash s) (s_tie s) (s_compiles s),
               WItem nn)
          | _ => (crashed s, WComplete)       (* open_by_layer[depth] -= 1 underflows / index out of bounds *)
          end
      end.

  Inductive run_end := Finished | RanOutOfFuel.

  Fixpoint main_loop (fuel : nat) (s : sstate) : sstate * run_end :=
    match fuel with
    | O => (s, RanOutOfFuel)
    | S fuel' =>
        if s_crash s then (s, Finished) else
        let '(s, w) := get_workload s in
        match w with
        | WComplete => (s, Finished)
        | WAborted => (s, Finished)
        | WItem node =>
            let '(s, err) := process_one_node s node in
            if err then (abort_search s, Finished) else main_loop fuel' s
        end
    end.

  Definition root_node : @subproblem St :=
    {| sp_state := init_state pb; sp_value := init_value pb; sp_path := []; sp_ub := IMAX; sp_depth := O |}.

  Definition set_primal (s : sstate) (v : Z) (sol : list decision) : sstate :=
    if v >? s_lb s then
      upd_s s (s_simple s) (s_nodup s) (s_explored s) (s_open s) (s_fal s) v (s_ub s) (Some sol) (s_abort s)
            (s_cache s) (s_dom s) (s_polls s) (s_crash s) (s_tie s) (s_compiles s)
    else s.

  Definition initialize_solver (s : sstate) : sstate :=
    let s := fr_push s root_node in
    upd_s s (s_simple s) (s_nodup s) (s_explored s) (upd_nth O S (s_open s)) (s_fal s) (s_lb s) (s_ub s) (s_sol s) (s_abort s)
          (s_cache s) (s_dom s) (s_polls s) (s_crash s) (s_tie s) (s_compiles s).

  Definition dec_var_cmp (a b : decision) : comparison := Nat.compare (d_var a) (d_var b).

  Record sresult := {
    r_exact : bool; r_value : option Z; r_lb : Z; r_ub : Z; r_sol : option (list decision);
    r_explored : nat; r_polls : nat; r_crash : bool; r_tie : bool; r_outoffuel : bool; r_compiles : nat }.

  Definition maximize (fuel : nat) (primal : option (Z * list decision)) : sresult :=
    let s0 := match primal with Some (v, sol) => set_primal init_sstate v sol | None => init_sstate end in
    let '(s, e) := main_loop fuel (initialize_solver s0) in
    let sol := option_map (sort_by dec_var_cmp) (s_sol s) in
    {| r_exact := negb (s_abort s);
       r_value := match sol with Some _ => Some (s_lb s) | None => None end;
       r_lb := s_lb s; r_ub := s_ub s; r_sol := sol; r_explored := s_explored s; r_polls := s_polls s;
       r_crash := s_crash s; r_tie := s_tie s;
       r_outoffuel := match e with RanOutOfFuel => true | Finished => false end; r_compiles := s_compiles s |}.
End Solver.
