(* Run.v — entry points used by the extracted OCaml driver (and by cases.v style evaluation).
   No theorem lives here. *)
From Coq Require Import String.
From Flocq Require Import Core BinarySingleNaN.
Require Import DDO.Base DDO.Gap DDO.Width DDO.Cache DDO.Dom DDO.DomSpec DDO.Fringe DDO.FringeProofs DDO.Fringe2 DDO.DP DDO.Mdd DDO.Viz DDO.Table DDO.Solver DDO.Par.
Open Scope Z_scope.

(* IEEE-754 binary32 bit pattern of a model float; None = NaN *)
Definition f32_bits (f : f32) : option Z :=
  match f with
  | B754_zero s => Some (if s then 2147483648 else 0)
  | B754_infinity s => Some ((if s then 2147483648 else 0) + 2139095040)
  | B754_nan => None
  | B754_finite s m e _ =>
      let sg := if s then 2147483648 else 0 in
      let mz := Zpos m in
      if mz <? 8388608 then Some (sg + mz)                       (* subnormal: e = -149 *)
      else Some (sg + (e + 150) * 8388608 + (mz - 8388608))
  end.
Definition run_gap (lb ub : Z) : option Z := f32_bits (gap lb ub).
Definition run_gap_old (lb ub : Z) : option Z := f32_bits (gap_old lb ub).

(* debug-profile result of the combinators exercised by the harness *)
Definition obind {A B} (o : option A) (f : A -> option B) : option B := match o with Some x => f x | None => None end.
Definition run_width (kind k inner : Z) : option Z :=
  match kind with
  | 0 => times_debug k inner
  | 1 => divby k inner
  | 2 => obind (times_debug k inner) (times_debug k)
  | 3 => obind (times_debug k inner) (divby k)
  | _ => obind (divby k inner) (times_debug k)
  end.
Definition run_width_release (kind k inner : Z) : option Z :=
  match kind with
  | 0 => Some (times_release k inner)
  | 1 => divby k inner
  | 2 => Some (times_release k (times_release k inner))
  | 3 => divby k (times_release k inner)
  | _ => obind (divby k inner) (fun w => Some (times_release k w))
  end.

(* cache over integer states *)
Definition zcache := @cache Z.
Definition zc_init (nvars : nat) : zcache := init_cache nvars.
Definition zc_update := @update_threshold Z Z.eqb.
Definition zc_get := @get_threshold Z Z.eqb.
Definition zc_clear_layer := @clear_layer Z.
Definition zc_clear := @clear Z.
Definition zc_must_explore := @must_explore Z Z.eqb.

(* the sequential specification of the cache *)
Definition zc_spec_get := @spec_get Z Z.eqb.

(* dominance checker over explicit (key, coords) states *)
Definition dstate := (option Z * list Z)%type.
Definition ds_key (s : dstate) : option Z := fst s.
Definition ds_coord (s : dstate) (i : nat) : Z := nth i (snd s) 0.
Definition zd_init (nvars : nat) : @dstore dstate Z := init_dstore nvars.
Definition zd_query (nd : nat) (usev : bool) := @is_dominated_or_insert dstate Z Z.eqb ds_key nd ds_coord usev.
Definition zd_clear_layer := @dclear_layer dstate Z.
Definition zd_cmp (nd : nat) (usev : bool) := @dcmp dstate nd ds_coord usev.
Definition zd_partial_cmp (nd : nat) (usev : bool) := @partial_cmp dstate nd ds_coord usev.

Definition zd_spec_dominated (nd : nat) (usev : bool) := @spec_dominated dstate nd ds_coord usev.

(* fringes over integer states, MaxUB ranking *)
Definition zsub := @subproblem Z.
Definition z_maxub := @maxub_cmp Z Z.compare.
(* NoDupFringe as it is after the fix: keyed by (state, depth) *)
Definition zf_empty : @knodup Z := k_empty.
Definition zf_push := @k_push Z Z.eqb Z.compare.
Definition zf_pop := @k_pop Z Z.eqb Z.compare.
Definition zf_len := @k_len Z.
(* NoDupFringe as it was before the fix: keyed by the state alone (kept for replaying finding D4) *)
Definition zf0_empty : @nodup Z := nd_empty.
Definition zf0_push := @nd_push Z Z.eqb z_maxub.
Definition zf0_pop := @nd_pop Z Z.eqb z_maxub.

(* abstract priority queue (the specification): coalescing insert, membership / maximality test *)
Definition zq_push_nodup := @pq_push_nodup Z Z.eqb.
Definition zq_coalesce := @coalesce Z.

(* table instances *)
Definition tb_input (ti : tinst) (flv : flavour) (ct : comptype) (width : nat) (lb : Z) (usecache usedom : bool)
    (cutoff : nat) (root : @subproblem tstate) : @cinput tstate := {|
  ci_flavour := flv; ci_type := ct; ci_problem := t_problem ti; ci_relax := t_relaxation ti;
  ci_ranking := t_ranking; ci_domcmp := t_domcmp ti usedom; ci_width := width; ci_root := root;
  ci_best_lb := lb; ci_use_cache := usecache; ci_domrule := t_domrule ti usedom; ci_cutoff := cutoff |}.

Definition tb_compile (inp : @cinput tstate) (tb tb2 : nat) (c : @cache tstate) (ds : @dstore tstate Z) (polls : nat) :=
  compile tstate_eqb inp tb tb2 c ds polls.
Definition tb_candidates (inp : @cinput tstate) (m : @mdd tstate) : nat * nat :=
  (length (argmax_candidates inp m (m_next m)),
   length (argmax_candidates inp m (filter (fun id => fl_is_exact (n_flags (get_node inp m id))) (m_next m)))).
Definition tb_dot (inp : @cinput tstate) (m : @mdd tstate) (c : vizconfig) : option string :=
  as_graphviz t_show inp m c.
Definition tb_cache_init (ti : tinst) : @cache tstate := init_cache (t_nvars ti).
Definition tb_dom_init (ti : tinst) : @dstore tstate Z := init_dstore (t_nvars ti).
Definition tb_cache_update := @update_threshold tstate tstate_eqb.

Definition tb_sconfig (ti : tinst) (flv : flavour) (usecache nodupf usedom : bool) (width cutoff : nat) : @sconfig tstate := {|
  sc_flavour := flv; sc_problem := t_problem ti; sc_relax := t_relaxation ti; sc_ranking := t_ranking;
  sc_domcmp := t_domcmp ti usedom; sc_domrule := t_domrule ti usedom; sc_width := width; sc_use_cache := usecache;
  sc_nodup := nodupf; sc_cutoff := cutoff |}.
Definition tb_maximize (cfg : @sconfig tstate) (fuel : nat) (primal : option (Z * list decision)) :=
  maximize tstate_eqb cfg fuel primal.
(* several set_primal calls before maximize(): same packaging of the result as Solver.maximize *)
Definition tb_maximize_multi (cfg : @sconfig tstate) (fuel : nat) (primals : list (Z * list decision)) : sresult :=
  let s0 := fold_left (fun s p => set_primal s (fst p) (snd p)) primals (init_sstate cfg) in
  let '(s, e) := main_loop tstate_eqb cfg fuel (initialize_solver tstate_eqb cfg s0) in
  let sol := option_map (sort_by dec_var_cmp) (s_sol s) in
  {| r_exact := negb (s_abort s);
     r_value := match sol with Some _ => Some (s_lb s) | None => None end;
     r_lb := s_lb s; r_ub := s_ub s; r_sol := sol; r_explored := s_explored s; r_polls := s_polls s;
     r_crash := s_crash s; r_tie := s_tie s;
     r_outoffuel := match e with RanOutOfFuel => true | Finished => false end; r_compiles := s_compiles s |}.

(* the property oracles (executable formal specification) *)
Definition tb_opt_enum (ti : tinst) : option Z := opt_enum (t_problem ti).
Definition tb_opt_from (ti : tinst) (k : nat) (s : tstate) (v : Z) : option Z := opt_enum_from (t_problem ti) k s v.
Definition tb_hstar (ti : tinst) (k : nat) (s : tstate) : option Z := H (t_problem ti) k s.
Definition tb_replay (ti : tinst) (ds : list decision) (s : tstate) (v : Z) := replay (t_problem ti) ds s v.
Definition tb_enum_from (ti : tinst) (k : nat) (s : tstate) (v : Z) := enum_from (t_problem ti) (S (t_nvars ti) - k) k s v.

(* the parallel protocol model under a given schedule *)
Definition tb_par_maximize (cfg : @sconfig tstate) (fuel ctor nthreads : nat) (primal : option (Z * list decision)) (sched : list nat) :=
  (* after the fix, with_nb_threads resizes upper_bounds to the number of spawned workers *)
  par_maximize tstate_eqb cfg fuel nthreads nthreads primal sched.
Definition tb_par_maximize_prefix (cfg : @sconfig tstate) (fuel ctor nthreads : nat) (primal : option (Z * list decision)) (sched : list nat) :=
  par_maximize tstate_eqb cfg fuel ctor nthreads primal sched.
