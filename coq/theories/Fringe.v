(* Fringe.v — sub-problems, the MaxUB ranking (heuristics/subproblem_ranking.rs),
   a faithful executable model of NoDupFringe (fringe/no_duplicate.rs: states map, nodes,
   pos, heap, recycle_bin, bubble_up / bubble_down / parent / max_child_of) and the abstract
   priority-queue specification both fringes are compared with.
   Definitions only; theorems are in FringeProofs.v. *)
Require Import DDO.Base.
Open Scope Z_scope.

Record decision := { d_var : nat; d_val : Z }.

Section Fringe.
  Context {St : Type}.
  Variable st_eqb : St -> St -> bool.
  Variable st_cmp : St -> St -> comparison.       (* StateRanking::compare *)

  Record subproblem := {
    sp_state : St; sp_value : Z; sp_path : list decision; sp_ub : Z; sp_depth : nat }.

  (* MaxUB::compare : ub, then value, then the state ranking *)
  Definition maxub_cmp (l r : subproblem) : comparison :=
    cmp_then (Zcmp (sp_ub l) (sp_ub r))
      (cmp_then (Zcmp (sp_value l) (sp_value r)) (st_cmp (sp_state l) (sp_state r))).

  Variable cmp : subproblem -> subproblem -> comparison.   (* CompareSubProblem<O> *)

  Record nodup := {
    nd_states : list (St * nat);     (* FxHashMap<Arc<State>, NodeId> as an association list *)
    nd_nodes : list subproblem;
    nd_pos : list nat;
    nd_heap : list nat;
    nd_bin : list nat }.             (* recycle_bin, last element = top of the Vec *)

  Definition nd_empty : nodup :=
    {| nd_states := []; nd_nodes := []; nd_pos := []; nd_heap := []; nd_bin := [] |}.

  Definition nd_len (f : nodup) : nat := length (nd_heap f).

  Notation "'do' x <- a ; b" := (match a with Some x => b | None => None end)
    (at level 200, x pattern, a at level 100, b at level 200).

  Definition set_nth {A} (n : nat) (x : A) (l : list A) : list A := upd_nth n (fun _ => x) l.

  Fixpoint states_get (m : list (St * nat)) (s : St) : option nat :=
    match m with [] => None | (k, v) :: m' => if st_eqb k s then Some v else states_get m' s end.
  Fixpoint states_remove (m : list (St * nat)) (s : St) : list (St * nat) :=
    match m with [] => [] | (k, v) :: m' => if st_eqb k s then m' else (k, v) :: states_remove m' s end.

  Definition is_root (p : nat) : bool := Nat.eqb p 0.
  Definition is_left (p : nat) : bool := Nat.eqb (Nat.modulo p 2) 1.
  (* pos / 2 - 1 on usize would underflow for pos = 0, excluded by is_root *)
  Definition parent (p : nat) : nat :=
    if is_root p then p else if is_left p then Nat.div p 2 else Nat.div p 2 - 1.
  Definition left_child (p : nat) : nat := p * 2 + 1.
  Definition right_child (p : nat) : nat := p * 2 + 2.

  (* None = the Rust code would index out of bounds (panic) *)
  Definition compare_at_pos (f : nodup) (x y : nat) : option comparison :=
    do ix <- nth_error (nd_heap f) x;
    do iy <- nth_error (nd_heap f) y;
    do nx <- nth_error (nd_nodes f) ix;
    do ny <- nth_error (nd_nodes f) iy;
    Some (cmp nx ny).

  Definition max_child_of (f : nodup) (p : nat) : option nat :=
    let size := nd_len f in
    let l := left_child p in
    let r := right_child p in
    if Nat.leb size l then Some O
    else if Nat.leb size r then Some l
    else do c <- compare_at_pos f l r; Some (match c with Gt => l | _ => r end).

  (* swap the heap slots [a] (holding id_a = id) and [b] (holding id_b), as in the loop bodies:
       pos[id_b] = a; pos[id] = b; heap[a] = id_b; heap[b] = id *)
  Definition swap_slots (f : nodup) (id a b : nat) : option nodup :=
    do id_b <- nth_error (nd_heap f) b;
    if Nat.ltb id_b (length (nd_pos f)) && Nat.ltb id (length (nd_pos f)) && Nat.ltb a (length (nd_heap f))
    then Some {| nd_states := nd_states f; nd_nodes := nd_nodes f;
                 nd_pos := set_nth id b (set_nth id_b a (nd_pos f));
                 nd_heap := set_nth b id (set_nth a id_b (nd_heap f));
                 nd_bin := nd_bin f |}
    else None.

  Fixpoint bubble_up_loop (fuel : nat) (f : nodup) (id me : nat) : option nodup :=
    match fuel with
    | O => Some f
    | S fuel' =>
        if is_root me then Some f
        else
          let p := parent me in
          do c <- compare_at_pos f me p;
          match c with
          | Gt => do f' <- swap_slots f id me p; bubble_up_loop fuel' f' id p
          | _ => Some f
          end
    end.
  Definition bubble_up (f : nodup) (id : nat) : option nodup :=
    do me <- nth_error (nd_pos f) id;
    (* evaluating parent(me) and the loop condition indexes heap[me] unless me is the root *)
    bubble_up_loop (S (nd_len f)) f id me.

  Fixpoint bubble_down_loop (fuel : nat) (f : nodup) (id me : nat) : option nodup :=
    match fuel with
    | O => Some f
    | S fuel' =>
        do kid <- max_child_of f me;
        if Nat.ltb 0 kid then
          do c <- compare_at_pos f me kid;
          match c with
          | Lt => do f' <- swap_slots f id me kid; bubble_down_loop fuel' f' id kid
          | _ => Some f
          end
        else Some f
    end.
  Definition bubble_down (f : nodup) (id : nat) : option nodup :=
    do me <- nth_error (nd_pos f) id;
    bubble_down_loop (S (nd_len f)) f id me.

  Definition nd_push (f : nodup) (node : subproblem) : option nodup :=
    match states_get (nd_states f) (sp_state node) with
    | Some id =>
        do old <- nth_error (nd_nodes f) id;
        let old_lp := sp_value old in let old_ub := sp_ub old in
        let new_lp := sp_value node in let new_ub := sp_ub node in
        let node' := {| sp_state := sp_state node; sp_value := sp_value node; sp_path := sp_path node;
                        sp_ub := Z.max new_ub old_ub; sp_depth := sp_depth node |} in
        let up := is_gt (cmp node' old) in
        let nodes1 := if new_lp >? old_lp then set_nth id node' (nd_nodes f) else nd_nodes f in
        let nodes2 := if new_ub >? old_ub
                      then upd_nth id (fun n => {| sp_state := sp_state n; sp_value := sp_value n; sp_path := sp_path n;
                                                   sp_ub := new_ub; sp_depth := sp_depth n |}) nodes1
                      else nodes1 in
        let f' := {| nd_states := nd_states f; nd_nodes := nodes2; nd_pos := nd_pos f;
                     nd_heap := nd_heap f; nd_bin := nd_bin f |} in
        if up then bubble_up f' id else Some f'
    | None =>
        let '(id, nodes, pos, bin) :=
          match rev (nd_bin f) with
          | [] => (length (nd_nodes f), nd_nodes f ++ [node], nd_pos f ++ [O], nd_bin f)
          | id :: rbin' => (id, set_nth id node (nd_nodes f), nd_pos f, rev rbin')
          end in
        if Nat.ltb id (length pos) && Nat.ltb id (length nodes) then
          let heap := nd_heap f ++ [id] in
          let pos' := set_nth id (length heap - 1)%nat pos in
          let f' := {| nd_states := (sp_state node, id) :: nd_states f; nd_nodes := nodes; nd_pos := pos';
                       nd_heap := heap; nd_bin := bin |} in
          bubble_up f' id
        else None
    end.

  (* Vec::swap_remove(0): removes slot 0, moving the last element into it *)
  Definition swap_remove0 (h : list nat) : option (nat * list nat) :=
    match h with
    | [] => None
    | x :: t => match rev t with
                | [] => Some (x, [])
                | lst :: rt' => Some (x, lst :: rev rt')
                end
    end.

  Definition nd_pop (f : nodup) : option (nodup * option subproblem) :=
    match nd_heap f with
    | [] => Some (f, None)
    | _ =>
        do (id, heap') <- swap_remove0 (nd_heap f);
        do f1 <- match heap' with
                 | [] => Some {| nd_states := nd_states f; nd_nodes := nd_nodes f; nd_pos := nd_pos f;
                                 nd_heap := heap'; nd_bin := nd_bin f |}
                 | h0 :: _ =>
                     if Nat.ltb h0 (length (nd_pos f)) then
                       bubble_down {| nd_states := nd_states f; nd_nodes := nd_nodes f;
                                      nd_pos := set_nth h0 O (nd_pos f); nd_heap := heap'; nd_bin := nd_bin f |} h0
                     else None
                 end;
        do node <- nth_error (nd_nodes f1) id;
        Some ({| nd_states := states_remove (nd_states f1) (sp_state node); nd_nodes := nd_nodes f1;
                 nd_pos := nd_pos f1; nd_heap := nd_heap f1; nd_bin := nd_bin f1 ++ [id] |}, Some node)
    end.

  Definition nd_clear (f : nodup) : nodup := nd_empty.

  (* ------------------------------------------------------------ operation sequences *)
  Inductive fop := FPush (n : subproblem) | FPop | FClear.

  (* observable outcome of one operation: length afterwards and the popped item *)
  Definition fobs := (nat * option (option subproblem))%type.

  Definition nd_step (f : nodup) (o : fop) : option (nodup * fobs) :=
    match o with
    | FPush n => do f' <- nd_push f n; Some (f', (nd_len f', None))
    | FPop => do (f', r) <- nd_pop f; Some (f', (nd_len f', Some r))
    | FClear => Some (nd_clear f, (O, None))
    end.

  Fixpoint nd_run (f : nodup) (ops : list fop) : option (nodup * list fobs) :=
    match ops with
    | [] => Some (f, [])
    | o :: ops' =>
        do (f', ob) <- nd_step f o;
        do (f'', obs) <- nd_run f' ops';
        Some (f'', ob :: obs)
    end.

  (* ------------------------------------------------------------ abstract priority queue (the spec):
     a list of items; pop removes some cmp-maximal item. The NoDup variant coalesces on push. *)
  Definition pq := list subproblem.

  Definition coalesce (old new : subproblem) : subproblem :=
    let ub := Z.max (sp_ub new) (sp_ub old) in
    if sp_value new >? sp_value old
    then {| sp_state := sp_state new; sp_value := sp_value new; sp_path := sp_path new; sp_ub := ub; sp_depth := sp_depth new |}
    else {| sp_state := sp_state old; sp_value := sp_value old; sp_path := sp_path old; sp_ub := ub; sp_depth := sp_depth old |}.

  Fixpoint pq_push_nodup (q : pq) (n : subproblem) : pq :=
    match q with
    | [] => [n]
    | x :: q' => if st_eqb (sp_state x) (sp_state n) then coalesce x n :: q' else x :: pq_push_nodup q' n
    end.

  Definition is_max_of (q : pq) (x : subproblem) : Prop :=
    In x q /\ forall y, In y q -> cmp y x <> Gt.
End Fringe.

Arguments sp_state {St}. Arguments sp_value {St}. Arguments sp_path {St}. Arguments sp_ub {St}. Arguments sp_depth {St}.
