theories/Base.vo theories/Base.glob theories/Base.v.beautified theories/Base.required_vo: theories/Base.v 
theories/Base.vio: theories/Base.v 
theories/Base.vos theories/Base.vok theories/Base.required_vos: theories/Base.v 
theories/Gap.vo theories/Gap.glob theories/Gap.v.beautified theories/Gap.required_vo: theories/Gap.v theories/Base.vo
theories/Gap.vio: theories/Gap.v theories/Base.vio
theories/Gap.vos theories/Gap.vok theories/Gap.required_vos: theories/Gap.v theories/Base.vos
theories/Cache.vo theories/Cache.glob theories/Cache.v.beautified theories/Cache.required_vo: theories/Cache.v theories/Base.vo
theories/Cache.vio: theories/Cache.v theories/Base.vio
theories/Cache.vos theories/Cache.vok theories/Cache.required_vos: theories/Cache.v theories/Base.vos
theories/Dom.vo theories/Dom.glob theories/Dom.v.beautified theories/Dom.required_vo: theories/Dom.v theories/Base.vo
theories/Dom.vio: theories/Dom.v theories/Base.vio
theories/Dom.vos theories/Dom.vok theories/Dom.required_vos: theories/Dom.v theories/Base.vos
theories/DomProofs.vo theories/DomProofs.glob theories/DomProofs.v.beautified theories/DomProofs.required_vo: theories/DomProofs.v theories/Base.vo theories/Dom.vo
theories/DomProofs.vio: theories/DomProofs.v theories/Base.vio theories/Dom.vio
theories/DomProofs.vos theories/DomProofs.vok theories/DomProofs.required_vos: theories/DomProofs.v theories/Base.vos theories/Dom.vos
theories/Conc.vo theories/Conc.glob theories/Conc.v.beautified theories/Conc.required_vo: theories/Conc.v theories/Base.vo theories/Cache.vo theories/Dom.vo theories/DomProofs.vo
theories/Conc.vio: theories/Conc.v theories/Base.vio theories/Cache.vio theories/Dom.vio theories/DomProofs.vio
theories/Conc.vos theories/Conc.vok theories/Conc.required_vos: theories/Conc.v theories/Base.vos theories/Cache.vos theories/Dom.vos theories/DomProofs.vos
theories/DomSpec.vo theories/DomSpec.glob theories/DomSpec.v.beautified theories/DomSpec.required_vo: theories/DomSpec.v theories/Base.vo theories/Dom.vo theories/DomProofs.vo
theories/DomSpec.vio: theories/DomSpec.v theories/Base.vio theories/Dom.vio theories/DomProofs.vio
theories/DomSpec.vos theories/DomSpec.vok theories/DomSpec.required_vos: theories/DomSpec.v theories/Base.vos theories/Dom.vos theories/DomProofs.vos
theories/Fringe.vo theories/Fringe.glob theories/Fringe.v.beautified theories/Fringe.required_vo: theories/Fringe.v theories/Base.vo
theories/Fringe.vio: theories/Fringe.v theories/Base.vio
theories/Fringe.vos theories/Fringe.vok theories/Fringe.required_vos: theories/Fringe.v theories/Base.vos
theories/FringeProofs.vo theories/FringeProofs.glob theories/FringeProofs.v.beautified theories/FringeProofs.required_vo: theories/FringeProofs.v theories/Base.vo theories/Fringe.vo
theories/FringeProofs.vio: theories/FringeProofs.v theories/Base.vio theories/Fringe.vio
theories/FringeProofs.vos theories/FringeProofs.vok theories/FringeProofs.required_vos: theories/FringeProofs.v theories/Base.vos theories/Fringe.vos
theories/Fringe2.vo theories/Fringe2.glob theories/Fringe2.v.beautified theories/Fringe2.required_vo: theories/Fringe2.v theories/Base.vo theories/Fringe.vo theories/FringeProofs.vo
theories/Fringe2.vio: theories/Fringe2.v theories/Base.vio theories/Fringe.vio theories/FringeProofs.vio
theories/Fringe2.vos theories/Fringe2.vok theories/Fringe2.required_vos: theories/Fringe2.v theories/Base.vos theories/Fringe.vos theories/FringeProofs.vos
theories/DP.vo theories/DP.glob theories/DP.v.beautified theories/DP.required_vo: theories/DP.v theories/Base.vo theories/Fringe.vo
theories/DP.vio: theories/DP.v theories/Base.vio theories/Fringe.vio
theories/DP.vos theories/DP.vok theories/DP.required_vos: theories/DP.v theories/Base.vos theories/Fringe.vos
theories/Mdd.vo theories/Mdd.glob theories/Mdd.v.beautified theories/Mdd.required_vo: theories/Mdd.v theories/Base.vo theories/Fringe.vo theories/DP.vo theories/Cache.vo theories/Dom.vo
theories/Mdd.vio: theories/Mdd.v theories/Base.vio theories/Fringe.vio theories/DP.vio theories/Cache.vio theories/Dom.vio
theories/Mdd.vos theories/Mdd.vok theories/Mdd.required_vos: theories/Mdd.v theories/Base.vos theories/Fringe.vos theories/DP.vos theories/Cache.vos theories/Dom.vos
theories/MddExact.vo theories/MddExact.glob theories/MddExact.v.beautified theories/MddExact.required_vo: theories/MddExact.v theories/Base.vo theories/Fringe.vo theories/DP.vo theories/Cache.vo theories/Dom.vo theories/Mdd.vo
theories/MddExact.vio: theories/MddExact.v theories/Base.vio theories/Fringe.vio theories/DP.vio theories/Cache.vio theories/Dom.vio theories/Mdd.vio
theories/MddExact.vos theories/MddExact.vok theories/MddExact.required_vos: theories/MddExact.v theories/Base.vos theories/Fringe.vos theories/DP.vos theories/Cache.vos theories/Dom.vos theories/Mdd.vos
theories/Viz.vo theories/Viz.glob theories/Viz.v.beautified theories/Viz.required_vo: theories/Viz.v theories/Base.vo theories/Fringe.vo theories/DP.vo theories/Cache.vo theories/Dom.vo theories/Mdd.vo
theories/Viz.vio: theories/Viz.v theories/Base.vio theories/Fringe.vio theories/DP.vio theories/Cache.vio theories/Dom.vio theories/Mdd.vio
theories/Viz.vos theories/Viz.vok theories/Viz.required_vos: theories/Viz.v theories/Base.vos theories/Fringe.vos theories/DP.vos theories/Cache.vos theories/Dom.vos theories/Mdd.vos
theories/MddStruct.vo theories/MddStruct.glob theories/MddStruct.v.beautified theories/MddStruct.required_vo: theories/MddStruct.v theories/Base.vo theories/Fringe.vo theories/DP.vo theories/Cache.vo theories/Dom.vo theories/Mdd.vo theories/Viz.vo
theories/MddStruct.vio: theories/MddStruct.v theories/Base.vio theories/Fringe.vio theories/DP.vio theories/Cache.vio theories/Dom.vio theories/Mdd.vio theories/Viz.vio
theories/MddStruct.vos theories/MddStruct.vok theories/MddStruct.required_vos: theories/MddStruct.v theories/Base.vos theories/Fringe.vos theories/DP.vos theories/Cache.vos theories/Dom.vos theories/Mdd.vos theories/Viz.vos
theories/Table.vo theories/Table.glob theories/Table.v.beautified theories/Table.required_vo: theories/Table.v theories/Base.vo theories/Fringe.vo theories/DP.vo theories/Cache.vo theories/Dom.vo theories/Mdd.vo theories/Viz.vo
theories/Table.vio: theories/Table.v theories/Base.vio theories/Fringe.vio theories/DP.vio theories/Cache.vio theories/Dom.vio theories/Mdd.vio theories/Viz.vio
theories/Table.vos theories/Table.vok theories/Table.required_vos: theories/Table.v theories/Base.vos theories/Fringe.vos theories/DP.vos theories/Cache.vos theories/Dom.vos theories/Mdd.vos theories/Viz.vos
theories/Solver.vo theories/Solver.glob theories/Solver.v.beautified theories/Solver.required_vo: theories/Solver.v theories/Base.vo theories/Fringe.vo theories/FringeProofs.vo theories/Fringe2.vo theories/DP.vo theories/Cache.vo theories/Dom.vo theories/Mdd.vo
theories/Solver.vio: theories/Solver.v theories/Base.vio theories/Fringe.vio theories/FringeProofs.vio theories/Fringe2.vio theories/DP.vio theories/Cache.vio theories/Dom.vio theories/Mdd.vio
theories/Solver.vos theories/Solver.vok theories/Solver.required_vos: theories/Solver.v theories/Base.vos theories/Fringe.vos theories/FringeProofs.vos theories/Fringe2.vos theories/DP.vos theories/Cache.vos theories/Dom.vos theories/Mdd.vos
theories/SolverProofs.vo theories/SolverProofs.glob theories/SolverProofs.v.beautified theories/SolverProofs.required_vo: theories/SolverProofs.v theories/Base.vo theories/Fringe.vo theories/DP.vo theories/Cache.vo theories/Dom.vo theories/Mdd.vo theories/Solver.vo
theories/SolverProofs.vio: theories/SolverProofs.v theories/Base.vio theories/Fringe.vio theories/DP.vio theories/Cache.vio theories/Dom.vio theories/Mdd.vio theories/Solver.vio
theories/SolverProofs.vos theories/SolverProofs.vok theories/SolverProofs.required_vos: theories/SolverProofs.v theories/Base.vos theories/Fringe.vos theories/DP.vos theories/Cache.vos theories/Dom.vos theories/Mdd.vos theories/Solver.vos
theories/MddProgress.vo theories/MddProgress.glob theories/MddProgress.v.beautified theories/MddProgress.required_vo: theories/MddProgress.v theories/Base.vo theories/Fringe.vo theories/DP.vo theories/Cache.vo theories/Dom.vo theories/Mdd.vo theories/Viz.vo theories/MddStruct.vo theories/MddExact.vo theories/Solver.vo theories/SolverProofs.vo
theories/MddProgress.vio: theories/MddProgress.v theories/Base.vio theories/Fringe.vio theories/DP.vio theories/Cache.vio theories/Dom.vio theories/Mdd.vio theories/Viz.vio theories/MddStruct.vio theories/MddExact.vio theories/Solver.vio theories/SolverProofs.vio
theories/MddProgress.vos theories/MddProgress.vok theories/MddProgress.required_vos: theories/MddProgress.v theories/Base.vos theories/Fringe.vos theories/DP.vos theories/Cache.vos theories/Dom.vos theories/Mdd.vos theories/Viz.vos theories/MddStruct.vos theories/MddExact.vos theories/Solver.vos theories/SolverProofs.vos
theories/Par.vo theories/Par.glob theories/Par.v.beautified theories/Par.required_vo: theories/Par.v theories/Base.vo theories/Fringe.vo theories/FringeProofs.vo theories/Fringe2.vo theories/DP.vo theories/Cache.vo theories/Dom.vo theories/Mdd.vo theories/Solver.vo
theories/Par.vio: theories/Par.v theories/Base.vio theories/Fringe.vio theories/FringeProofs.vio theories/Fringe2.vio theories/DP.vio theories/Cache.vio theories/Dom.vio theories/Mdd.vio theories/Solver.vio
theories/Par.vos theories/Par.vok theories/Par.required_vos: theories/Par.v theories/Base.vos theories/Fringe.vos theories/FringeProofs.vos theories/Fringe2.vos theories/DP.vos theories/Cache.vos theories/Dom.vos theories/Mdd.vos theories/Solver.vos
theories/ParProofs.vo theories/ParProofs.glob theories/ParProofs.v.beautified theories/ParProofs.required_vo: theories/ParProofs.v theories/Base.vo theories/Fringe.vo theories/FringeProofs.vo theories/Fringe2.vo theories/DP.vo theories/Cache.vo theories/Dom.vo theories/Mdd.vo theories/Solver.vo theories/Par.vo theories/SolverProofs.vo
theories/ParProofs.vio: theories/ParProofs.v theories/Base.vio theories/Fringe.vio theories/FringeProofs.vio theories/Fringe2.vio theories/DP.vio theories/Cache.vio theories/Dom.vio theories/Mdd.vio theories/Solver.vio theories/Par.vio theories/SolverProofs.vio
theories/ParProofs.vos theories/ParProofs.vok theories/ParProofs.required_vos: theories/ParProofs.v theories/Base.vos theories/Fringe.vos theories/FringeProofs.vos theories/Fringe2.vos theories/DP.vos theories/Cache.vos theories/Dom.vos theories/Mdd.vos theories/Solver.vos theories/Par.vos theories/SolverProofs.vos
theories/Width.vo theories/Width.glob theories/Width.v.beautified theories/Width.required_vo: theories/Width.v theories/Base.vo
theories/Width.vio: theories/Width.v theories/Base.vio
theories/Width.vos theories/Width.vok theories/Width.required_vos: theories/Width.v theories/Base.vos
theories/Run.vo theories/Run.glob theories/Run.v.beautified theories/Run.required_vo: theories/Run.v theories/Base.vo theories/Gap.vo theories/Width.vo theories/Cache.vo theories/Dom.vo theories/DomSpec.vo theories/Fringe.vo theories/FringeProofs.vo theories/Fringe2.vo theories/DP.vo theories/Mdd.vo theories/Viz.vo theories/Table.vo theories/Solver.vo theories/Par.vo
theories/Run.vio: theories/Run.v theories/Base.vio theories/Gap.vio theories/Width.vio theories/Cache.vio theories/Dom.vio theories/DomSpec.vio theories/Fringe.vio theories/FringeProofs.vio theories/Fringe2.vio theories/DP.vio theories/Mdd.vio theories/Viz.vio theories/Table.vio theories/Solver.vio theories/Par.vio
theories/Run.vos theories/Run.vok theories/Run.required_vos: theories/Run.v theories/Base.vos theories/Gap.vos theories/Width.vos theories/Cache.vos theories/Dom.vos theories/DomSpec.vos theories/Fringe.vos theories/FringeProofs.vos theories/Fringe2.vos theories/DP.vos theories/Mdd.vos theories/Viz.vos theories/Table.vos theories/Solver.vos theories/Par.vos
theories/ExSpec.vo theories/ExSpec.glob theories/ExSpec.v.beautified theories/ExSpec.required_vo: theories/ExSpec.v 
theories/ExSpec.vio: theories/ExSpec.v 
theories/ExSpec.vos theories/ExSpec.vok theories/ExSpec.required_vos: theories/ExSpec.v 
theories/Props/C17.vo theories/Props/C17.glob theories/Props/C17.v.beautified theories/Props/C17.required_vo: theories/Props/C17.v theories/Base.vo theories/Gap.vo
theories/Props/C17.vio: theories/Props/C17.v theories/Base.vio theories/Gap.vio
theories/Props/C17.vos theories/Props/C17.vok theories/Props/C17.required_vos: theories/Props/C17.v theories/Base.vos theories/Gap.vos
theories/Props/C18.vo theories/Props/C18.glob theories/Props/C18.v.beautified theories/Props/C18.required_vo: theories/Props/C18.v theories/Base.vo theories/Cache.vo theories/Dom.vo theories/DomProofs.vo theories/Conc.vo
theories/Props/C18.vio: theories/Props/C18.v theories/Base.vio theories/Cache.vio theories/Dom.vio theories/DomProofs.vio theories/Conc.vio
theories/Props/C18.vos theories/Props/C18.vok theories/Props/C18.required_vos: theories/Props/C18.v theories/Base.vos theories/Cache.vos theories/Dom.vos theories/DomProofs.vos theories/Conc.vos
theories/Props/C10.vo theories/Props/C10.glob theories/Props/C10.v.beautified theories/Props/C10.required_vo: theories/Props/C10.v theories/Base.vo theories/Dom.vo theories/DomProofs.vo
theories/Props/C10.vio: theories/Props/C10.v theories/Base.vio theories/Dom.vio theories/DomProofs.vio
theories/Props/C10.vos theories/Props/C10.vok theories/Props/C10.required_vos: theories/Props/C10.v theories/Base.vos theories/Dom.vos theories/DomProofs.vos
theories/Props/C11.vo theories/Props/C11.glob theories/Props/C11.v.beautified theories/Props/C11.required_vo: theories/Props/C11.v theories/Base.vo theories/Fringe.vo theories/FringeProofs.vo theories/Fringe2.vo
theories/Props/C11.vio: theories/Props/C11.v theories/Base.vio theories/Fringe.vio theories/FringeProofs.vio theories/Fringe2.vio
theories/Props/C11.vos theories/Props/C11.vok theories/Props/C11.required_vos: theories/Props/C11.v theories/Base.vos theories/Fringe.vos theories/FringeProofs.vos theories/Fringe2.vos
theories/Props/C01.vo theories/Props/C01.glob theories/Props/C01.v.beautified theories/Props/C01.required_vo: theories/Props/C01.v theories/Base.vo theories/Fringe.vo theories/DP.vo theories/Cache.vo theories/Dom.vo theories/Mdd.vo theories/Solver.vo theories/SolverProofs.vo
theories/Props/C01.vio: theories/Props/C01.v theories/Base.vio theories/Fringe.vio theories/DP.vio theories/Cache.vio theories/Dom.vio theories/Mdd.vio theories/Solver.vio theories/SolverProofs.vio
theories/Props/C01.vos theories/Props/C01.vok theories/Props/C01.required_vos: theories/Props/C01.v theories/Base.vos theories/Fringe.vos theories/DP.vos theories/Cache.vos theories/Dom.vos theories/Mdd.vos theories/Solver.vos theories/SolverProofs.vos
theories/Props/C13.vo theories/Props/C13.glob theories/Props/C13.v.beautified theories/Props/C13.required_vo: theories/Props/C13.v theories/Base.vo theories/Fringe.vo theories/DP.vo theories/Cache.vo theories/Dom.vo theories/Mdd.vo theories/Viz.vo theories/MddStruct.vo theories/MddExact.vo theories/Width.vo
theories/Props/C13.vio: theories/Props/C13.v theories/Base.vio theories/Fringe.vio theories/DP.vio theories/Cache.vio theories/Dom.vio theories/Mdd.vio theories/Viz.vio theories/MddStruct.vio theories/MddExact.vio theories/Width.vio
theories/Props/C13.vos theories/Props/C13.vok theories/Props/C13.required_vos: theories/Props/C13.v theories/Base.vos theories/Fringe.vos theories/DP.vos theories/Cache.vos theories/Dom.vos theories/Mdd.vos theories/Viz.vos theories/MddStruct.vos theories/MddExact.vos theories/Width.vos
theories/Props/C14.vo theories/Props/C14.glob theories/Props/C14.v.beautified theories/Props/C14.required_vo: theories/Props/C14.v theories/Base.vo theories/Fringe.vo theories/DP.vo theories/Cache.vo theories/Dom.vo theories/Mdd.vo theories/Solver.vo theories/SolverProofs.vo
theories/Props/C14.vio: theories/Props/C14.v theories/Base.vio theories/Fringe.vio theories/DP.vio theories/Cache.vio theories/Dom.vio theories/Mdd.vio theories/Solver.vio theories/SolverProofs.vio
theories/Props/C14.vos theories/Props/C14.vok theories/Props/C14.required_vos: theories/Props/C14.v theories/Base.vos theories/Fringe.vos theories/DP.vos theories/Cache.vos theories/Dom.vos theories/Mdd.vos theories/Solver.vos theories/SolverProofs.vos
theories/Props/C07.vo theories/Props/C07.glob theories/Props/C07.v.beautified theories/Props/C07.required_vo: theories/Props/C07.v theories/Base.vo theories/Fringe.vo theories/DP.vo theories/Cache.vo theories/Dom.vo theories/Mdd.vo theories/Viz.vo theories/MddStruct.vo theories/MddExact.vo
theories/Props/C07.vio: theories/Props/C07.v theories/Base.vio theories/Fringe.vio theories/DP.vio theories/Cache.vio theories/Dom.vio theories/Mdd.vio theories/Viz.vio theories/MddStruct.vio theories/MddExact.vio
theories/Props/C07.vos theories/Props/C07.vok theories/Props/C07.required_vos: theories/Props/C07.v theories/Base.vos theories/Fringe.vos theories/DP.vos theories/Cache.vos theories/Dom.vos theories/Mdd.vos theories/Viz.vos theories/MddStruct.vos theories/MddExact.vos
theories/Props/C08.vo theories/Props/C08.glob theories/Props/C08.v.beautified theories/Props/C08.required_vo: theories/Props/C08.v theories/Base.vo theories/Fringe.vo theories/DP.vo theories/Cache.vo theories/Dom.vo theories/Mdd.vo theories/Viz.vo theories/MddStruct.vo theories/MddExact.vo
theories/Props/C08.vio: theories/Props/C08.v theories/Base.vio theories/Fringe.vio theories/DP.vio theories/Cache.vio theories/Dom.vio theories/Mdd.vio theories/Viz.vio theories/MddStruct.vio theories/MddExact.vio
theories/Props/C08.vos theories/Props/C08.vok theories/Props/C08.required_vos: theories/Props/C08.v theories/Base.vos theories/Fringe.vos theories/DP.vos theories/Cache.vos theories/Dom.vos theories/Mdd.vos theories/Viz.vos theories/MddStruct.vos theories/MddExact.vos
theories/Props/C06.vo theories/Props/C06.glob theories/Props/C06.v.beautified theories/Props/C06.required_vo: theories/Props/C06.v theories/Base.vo theories/Fringe.vo theories/DP.vo theories/Cache.vo theories/Dom.vo theories/Mdd.vo theories/Viz.vo theories/MddStruct.vo theories/MddExact.vo
theories/Props/C06.vio: theories/Props/C06.v theories/Base.vio theories/Fringe.vio theories/DP.vio theories/Cache.vio theories/Dom.vio theories/Mdd.vio theories/Viz.vio theories/MddStruct.vio theories/MddExact.vio
theories/Props/C06.vos theories/Props/C06.vok theories/Props/C06.required_vos: theories/Props/C06.v theories/Base.vos theories/Fringe.vos theories/DP.vos theories/Cache.vos theories/Dom.vos theories/Mdd.vos theories/Viz.vos theories/MddStruct.vos theories/MddExact.vos
theories/Props/C02.vo theories/Props/C02.glob theories/Props/C02.v.beautified theories/Props/C02.required_vo: theories/Props/C02.v theories/Base.vo theories/Fringe.vo theories/DP.vo theories/Cache.vo theories/Dom.vo theories/Mdd.vo theories/Viz.vo theories/MddStruct.vo theories/MddExact.vo
theories/Props/C02.vio: theories/Props/C02.v theories/Base.vio theories/Fringe.vio theories/DP.vio theories/Cache.vio theories/Dom.vio theories/Mdd.vio theories/Viz.vio theories/MddStruct.vio theories/MddExact.vio
theories/Props/C02.vos theories/Props/C02.vok theories/Props/C02.required_vos: theories/Props/C02.v theories/Base.vos theories/Fringe.vos theories/DP.vos theories/Cache.vos theories/Dom.vos theories/Mdd.vos theories/Viz.vos theories/MddStruct.vos theories/MddExact.vos
theories/Props/C12.vo theories/Props/C12.glob theories/Props/C12.v.beautified theories/Props/C12.required_vo: theories/Props/C12.v theories/Base.vo theories/Fringe.vo theories/DP.vo theories/Cache.vo theories/Dom.vo theories/Mdd.vo theories/Viz.vo theories/MddStruct.vo theories/MddExact.vo
theories/Props/C12.vio: theories/Props/C12.v theories/Base.vio theories/Fringe.vio theories/DP.vio theories/Cache.vio theories/Dom.vio theories/Mdd.vio theories/Viz.vio theories/MddStruct.vio theories/MddExact.vio
theories/Props/C12.vos theories/Props/C12.vok theories/Props/C12.required_vos: theories/Props/C12.v theories/Base.vos theories/Fringe.vos theories/DP.vos theories/Cache.vos theories/Dom.vos theories/Mdd.vos theories/Viz.vos theories/MddStruct.vos theories/MddExact.vos
theories/Props/C20.vo theories/Props/C20.glob theories/Props/C20.v.beautified theories/Props/C20.required_vo: theories/Props/C20.v theories/Base.vo theories/Fringe.vo theories/DP.vo theories/Cache.vo theories/Dom.vo theories/Mdd.vo theories/Viz.vo theories/MddStruct.vo theories/MddExact.vo
theories/Props/C20.vio: theories/Props/C20.v theories/Base.vio theories/Fringe.vio theories/DP.vio theories/Cache.vio theories/Dom.vio theories/Mdd.vio theories/Viz.vio theories/MddStruct.vio theories/MddExact.vio
theories/Props/C20.vos theories/Props/C20.vok theories/Props/C20.required_vos: theories/Props/C20.v theories/Base.vos theories/Fringe.vos theories/DP.vos theories/Cache.vos theories/Dom.vos theories/Mdd.vos theories/Viz.vos theories/MddStruct.vos theories/MddExact.vos
theories/Props/C04.vo theories/Props/C04.glob theories/Props/C04.v.beautified theories/Props/C04.required_vo: theories/Props/C04.v theories/Base.vo theories/Fringe.vo theories/FringeProofs.vo theories/Fringe2.vo theories/DP.vo theories/Cache.vo theories/Dom.vo theories/Mdd.vo theories/Solver.vo theories/SolverProofs.vo theories/Par.vo theories/ParProofs.vo
theories/Props/C04.vio: theories/Props/C04.v theories/Base.vio theories/Fringe.vio theories/FringeProofs.vio theories/Fringe2.vio theories/DP.vio theories/Cache.vio theories/Dom.vio theories/Mdd.vio theories/Solver.vio theories/SolverProofs.vio theories/Par.vio theories/ParProofs.vio
theories/Props/C04.vos theories/Props/C04.vok theories/Props/C04.required_vos: theories/Props/C04.v theories/Base.vos theories/Fringe.vos theories/FringeProofs.vos theories/Fringe2.vos theories/DP.vos theories/Cache.vos theories/Dom.vos theories/Mdd.vos theories/Solver.vos theories/SolverProofs.vos theories/Par.vos theories/ParProofs.vos
theories/Props/C03.vo theories/Props/C03.glob theories/Props/C03.v.beautified theories/Props/C03.required_vo: theories/Props/C03.v theories/Base.vo theories/Fringe.vo theories/FringeProofs.vo theories/Fringe2.vo theories/DP.vo theories/Cache.vo theories/Dom.vo theories/Mdd.vo theories/Solver.vo theories/SolverProofs.vo theories/Par.vo theories/ParProofs.vo
theories/Props/C03.vio: theories/Props/C03.v theories/Base.vio theories/Fringe.vio theories/FringeProofs.vio theories/Fringe2.vio theories/DP.vio theories/Cache.vio theories/Dom.vio theories/Mdd.vio theories/Solver.vio theories/SolverProofs.vio theories/Par.vio theories/ParProofs.vio
theories/Props/C03.vos theories/Props/C03.vok theories/Props/C03.required_vos: theories/Props/C03.v theories/Base.vos theories/Fringe.vos theories/FringeProofs.vos theories/Fringe2.vos theories/DP.vos theories/Cache.vos theories/Dom.vos theories/Mdd.vos theories/Solver.vos theories/SolverProofs.vos theories/Par.vos theories/ParProofs.vos
