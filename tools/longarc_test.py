from check_mdd import *
import time, sys
def kv(l):
    d={}
    for x in l[2:].split():
        if '=' in x:
            k,_,v=x.partition('=')
            if k not in d: d[k]=v
    return d
rng = Rng(int(sys.argv[1]) if len(sys.argv)>1 else 5)
N = int(sys.argv[2]) if len(sys.argv)>2 else 400
blocks=[]
for i in range(N):
    r = rng.fork()
    I = gen_layered(r, nvars=r.range(3,6), per_layer=r.range(2,4), dom_max=2, depth_free=True, irrelevance=True, dominance=0)
    lines=[I.line()]
    for cache in (0,1):
        for fr in (0,1):
            for w in (1,2):
                lines.append("S 0 1 1 2 %d %d %d 0 0 0" % (cache, fr, w))
    blocks.append(lines)
t=time.time()
sh, oi = run_sharded("impl","solve",blocks,tag="t")
_, oo = run_sharded("model","oracle",[[b[0],"O opt"] for b in blocks],tag="t")
print("time",time.time()-t)
n=0; hang=[]; wrong=[]
for k in range(len(sh)):
    pi=0
    for j,(idx,blk) in enumerate(sh[k]):
        opt=oo[k][j][2:]
        for c in range(len(blk)-1):
            li=oi[k][pi]; pi+=1; n+=1
            if 'HANG' in li or 'CRASH' in li: hang.append((blk[0],blk[c+1],li[:60]))
            elif kv(li).get('bv')!=opt or kv(li).get('x')!='1': wrong.append((blk[0],blk[c+1],li[:100],opt))
print(n,"hang/crash",len(hang),"wrong",len(wrong))
for h in hang[:2]: print(h)
for h in wrong[:2]: print(h)
