"""Instance and case generators for the correspondence checks.
Every random choice derives from one SplitMix64 state (seed = VERIF_SEED)."""
MASK = (1 << 64) - 1

class Rng:
    def __init__(self, seed):
        self.s = seed & MASK
    def next(self):
        self.s = (self.s + 0x9E3779B97F4A7C15) & MASK
        z = self.s
        z = ((z ^ (z >> 30)) * 0xBF58476D1CE4E5B9) & MASK
        z = ((z ^ (z >> 27)) * 0x94D049BB133111EB) & MASK
        return z ^ (z >> 31)
    def below(self, n):
        return self.next() % n
    def range(self, lo, hi):      # inclusive
        return lo + self.below(hi - lo + 1)
    def chance(self, num, den):
        return self.below(den) < num
    def choice(self, l):
        return l[self.below(len(l))]
    def shuffle(self, l):
        for i in range(len(l) - 1, 0, -1):
            j = self.below(i + 1)
            l[i], l[j] = l[j], l[i]
    def fork(self):
        return Rng(self.next())

IMAX = (1 << 63) - 1
IMIN = -(1 << 63)

class Inst:
    """Table instance (see harness/src/table.rs, coq/theories/Table.v)."""
    def __init__(self):
        self.nvars = 0; self.nbase = 0; self.init = 0; self.initval = 0; self.slack = 0
        self.rubkind = 0; self.domkind = 0; self.usevalue = 0; self.ncoord = 0; self.orderkind = 0
        self.order = []; self.trans = []; self.notimp = []; self.rub = []; self.key = []; self.coords = []
        self.layer_of = None   # layered instances: base state -> depth
        self.pos = []; self.up = []

    def line(self):
        t = [self.nvars, self.nbase, self.init, self.initval, self.slack, self.rubkind, self.domkind, self.usevalue,
             self.ncoord, self.orderkind] + list(self.order)
        t.append(len(self.trans))
        for r in self.trans: t.extend(r)
        t.append(len(self.notimp))
        for r in self.notimp: t.extend(r)
        if self.rubkind == 1: t.extend(self.rub)
        if self.domkind == 1:
            t.extend(self.key)
            for c in self.coords: t.extend(c)
        if self.orderkind == 1:
            t.extend(self.pos); t.extend(self.up)
        return "I " + " ".join(str(x) for x in t)

    @staticmethod
    def parse(line):
        """inverse of line()"""
        t = [int(x) for x in line.split()[1:]]
        I = Inst(); k = 0
        (I.nvars, I.nbase, I.init, I.initval, I.slack, I.rubkind, I.domkind, I.usevalue, I.ncoord, I.orderkind) = t[:10]; k = 10
        I.order = t[k:k + I.nvars]; k += I.nvars
        n = t[k]; k += 1
        I.trans = [tuple(t[k + 5 * i:k + 5 * i + 5]) for i in range(n)]; k += 5 * n
        n = t[k]; k += 1
        I.notimp = [tuple(t[k + 2 * i:k + 2 * i + 2]) for i in range(n)]; k += 2 * n
        if I.rubkind == 1: I.rub = t[k:k + I.nbase]; k += I.nbase
        if I.domkind == 1:
            I.key = t[k:k + I.nbase]; k += I.nbase
            I.coords = [t[k + I.ncoord * i:k + I.ncoord * (i + 1)] for i in range(I.nbase)]; k += I.ncoord * I.nbase
        if I.orderkind == 1:
            I.pos = t[k:k + I.nbase]; k += I.nbase; I.up = t[k:k + I.nbase]; k += I.nbase
        assert k == len(t), "trailing tokens in instance line"
        return I

    # ---- python-side semantics of the BASE system (used only to build admissible rub / dominance tables
    #      and witness solutions for the generators; the property oracles are the extracted Coq specs)
    def rows(self, x, b):
        return sorted((v, d, c) for (xx, bb, v, d, c) in self.trans if xx == x and bb == b)

    def hbase(self):
        """H[k][b] = best value-to-go of base state b at depth k (None = infeasible)."""
        n = self.nvars
        H = [[None] * self.nbase for _ in range(n + 1)]
        for b in range(self.nbase): H[n][b] = 0
        for k in range(n - 1, -1, -1):
            x = self.order[k]
            for b in range(self.nbase):
                best = None
                for (v, d, c) in self.rows(x, b):
                    if H[k + 1][d] is not None:
                        w = c + H[k + 1][d]
                        best = w if best is None else max(best, w)
                H[k][b] = best
        return H

    def reach(self):
        """reach[k] = set of base states reachable at depth k from init."""
        R = [set() for _ in range(self.nvars + 1)]
        R[0].add(self.init)
        for k in range(self.nvars):
            x = self.order[k]
            for b in R[k]:
                for (v, d, c) in self.rows(x, b):
                    R[k + 1].add(d)
        return R


def gen_layered(rng, nvars=None, per_layer=None, dom_max=None, cost_lo=-5, cost_hi=9, dead=True,
                rub=None, slack=None, dominance=None, depth_free=False, irrelevance=False):
    """Random layered table DP with few base states per layer (heavy re-convergence)."""
    I = Inst()
    I.nvars = nvars if nvars is not None else rng.range(2, 5)
    pl = per_layer if per_layer is not None else rng.range(1, 4)
    dm = dom_max if dom_max is not None else rng.range(1, 3)
    n = I.nvars
    order = list(range(n)); rng.shuffle(order); I.order = order
    if depth_free:
        I.nbase = max(2, pl + rng.range(0, 2))
        layers = [list(range(I.nbase)) for _ in range(n + 1)]
        I.init = rng.below(I.nbase)
    else:
        layers = [[0]]
        nb = 1
        for k in range(1, n + 1):
            w = rng.range(1, pl)
            layers.append(list(range(nb, nb + w))); nb += w
        I.nbase = nb
        I.init = 0
        # permute base ids so that the state ranking (lexicographic on ids) is effectively random
    I.initval = rng.range(-3, 3)
    for k in range(n):
        x = order[k]
        for b in layers[k]:
            if dead and rng.chance(1, 8):
                continue                      # dead end: empty domain
            nd = rng.range(1, dm)
            vals = list(range(0, dm + 1)); rng.shuffle(vals)
            for v in sorted(vals[:nd]):
                d = rng.choice(layers[k + 1])
                c = rng.range(cost_lo, cost_hi)
                if rng.chance(1, 5): c = 0
                I.trans.append((x, b, v, d, c))
    if depth_free and irrelevance:
        # make some (var, base) pairs irrelevant: single neutral transition value 0 -> same state, cost 0
        for x in range(n):
            for b in range(I.nbase):
                if rng.chance(1, 3):
                    I.trans = [t for t in I.trans if not (t[0] == x and t[1] == b)]
                    I.trans.append((x, b, 0, b, 0))
                    I.notimp.append((x, b))
    # relabel base states by a random permutation (affects rankings / tie-breaks only)
    perm = list(range(I.nbase)); rng.shuffle(perm)
    I.trans = [(x, perm[b], v, perm[d], c) for (x, b, v, d, c) in I.trans]
    I.notimp = [(x, perm[b]) for (x, b) in I.notimp]
    I.init = perm[I.init]
    I.slack = slack if slack is not None else rng.choice([0, 0, 1, 3])
    rk = rub if rub is not None else rng.choice([0, 1, 2])
    H = I.hbase()
    if rk == 0:
        I.rubkind = 0
    else:
        I.rubkind = 1
        extra = 0 if rk == 1 else rng.range(1, 4)
        I.rub = []
        for b in range(I.nbase):
            hs = [H[k][b] for k in range(n + 1) if H[k][b] is not None]
            # admissible for every depth at which b may occur; infeasible states get a low bound
            e = extra if rk != 3 else rng.choice([0, 0, 1, 3, 8, 15])       # 3 = loose, state-dependent (inconsistent) slack
            I.rub.append((max(hs) + e) if hs else -1000)
        if not depth_free:
            pass
    # default: no rule or the EXACT rule (coordinate = value-to-go, with values: strict dominance implies a strictly larger best).  Rules whose
    # strict part can hold between states of equal best (dk = 2: an extra free coordinate) are generated on request only: they are subject to
    # the known finding `dominance-circular-pruning` of C10
    dk = dominance if dominance is not None else rng.choice([0, 0, 1, 1])
    if dk == 0:
        I.domkind = 0
    else:
        # admissible rule with values: b' dominates b when H(b) <= H(b') (coordinate 0) [and tag equal for weakened]
        I.domkind = 1; I.usevalue = 1
        I.ncoord = 1 if dk in (1, 3) else 2
        I.key = []; I.coords = []
        R = I.reach()
        if dk == 4:
            # depth-independent rule for depth-free tables: one key, coordinate j = value-to-go of the state AT DEPTH j (for every j), with values;
            # admissible at equal depths; comparing states of different depths with it is NOT (what a depth mix-up in the store would do)
            I.ncoord = n + 1
            for b in range(I.nbase):
                I.key.append(100); I.coords.append([(H[k][b] if H[k][b] is not None else -1000) for k in range(n + 1)])
            return I
        for b in range(I.nbase):
            ks = [k for k in range(n + 1) if b in R[k]]
            if len(ks) != 1:
                I.key.append(-1); I.coords.append([0] * I.ncoord); continue   # ambiguous depth: not comparable
            k = ks[0]
            if H[k][b] is None:
                I.key.append(-1); I.coords.append([0] * I.ncoord); continue
            # dk == 3: ONE key for every state of every depth (a legal rule: the depth is an explicit argument of the checker)
            I.key.append(100 if dk == 3 else k if rng.chance(3, 4) else 100 + rng.below(2))
            c = [H[k][b]]
            if I.ncoord == 2: c.append(rng.range(0, 1))
            I.coords.append(c)
    return I


def gen_chain(rng, nvars=None, per_layer=None, dom_max=None, rub=None, dominance=0):
    """Layered instance whose states form, in every layer, a chain for simulation (c_0 <= c_1 <= ...): domains, successor
    positions and costs are monotone along the chain. Relaxation: merge = chain successor of the highest merged member
    (a REAL state of the layer, possibly one of the kept nodes -> exercises the `recycled` branch of _relax), relax = identity."""
    I = Inst()
    I.nvars = nvars if nvars is not None else rng.range(3, 6)
    n = I.nvars
    pl = per_layer if per_layer is not None else rng.range(2, 5)
    dm = dom_max if dom_max is not None else rng.range(1, 3)
    order = list(range(n)); rng.shuffle(order); I.order = order
    layers = [[0]]; nb = 1
    for k in range(1, n + 1):
        w = rng.range(2, pl) if k > 0 else 1
        layers.append(list(range(nb, nb + w))); nb += w
    I.nbase = nb; I.init = 0; I.initval = rng.range(-3, 3)
    I.orderkind = 1; I.slack = 0
    pos = [0] * nb; up = list(range(nb))
    for L in layers:
        for i, b in enumerate(L):
            pos[b] = i; up[b] = L[min(i + 1, len(L) - 1)]
    for k in range(n):
        x = order[k]; nxt = layers[k + 1]
        prev = {}
        for b in layers[k]:
            cur = {}
            for v in range(dm + 1):
                if v in prev:
                    t, c = prev[v]
                    cur[v] = (min(len(nxt) - 1, t + (1 if rng.chance(1, 3) else 0)), c + rng.choice([0, 0, 1, 3]))
                elif rng.chance(2, 3) or (v == 0 and not prev and b == layers[k][-1]):
                    cur[v] = (rng.below(len(nxt)), rng.range(-4, 8))
            for v, (t, c) in cur.items(): I.trans.append((x, b, v, nxt[t], c))
            prev = cur
    perm = list(range(nb)); rng.shuffle(perm)
    I.trans = [(x, perm[b], v, perm[d], c) for (x, b, v, d, c) in I.trans]
    I.init = perm[0]
    I.pos = [0] * nb; I.up = [0] * nb
    for b in range(nb): I.pos[perm[b]] = pos[b]; I.up[perm[b]] = perm[up[b]]
    rk = rub if rub is not None else rng.choice([0, 1, 2])
    H = I.hbase()
    if rk == 0: I.rubkind = 0
    else:
        I.rubkind = 1; extra = 0 if rk == 1 else rng.range(1, 4)
        I.rub = []
        for b in range(nb):
            hs = [H[k][b] for k in range(n + 1) if H[k][b] is not None]
            I.rub.append((max(hs) + extra) if hs else -1000)
    I.domkind = 0
    return I


def gen_relaxed_improves(rng, width=None):
    """Directed family: the RELAXED diagram of the root finds a solution the restricted one misses, while being inexact.
    Layer 1 (never merged by a relaxed compilation, truncated by a restricted one) is wider than the width; the optimum goes through its
    LOWEST ranked state `a`, whose only successor `b` is the HIGHEST ranked state of layer 2 (kept exact when layer 2 is squashed at
    width >= 2); the other layer-2 states are merged and, thanks to the slack, carry the best (relaxed) terminal. So after the relaxed
    compilation: best exact value = optimum > incumbent, best node under a merged node, `a` has no inexact child (it is in no frontier
    cut-set). States are ranked lexicographically by id: ids are assigned accordingly."""
    I = Inst()
    w = width if width is not None else rng.choice([2, 2, 3])
    # variant B: the EXACT path is the best one (no slack), its terminal T is also reachable below the merged node, and a second terminal T2
    # is reachable only through exact nodes with a smaller value: the relaxed diagram is exact by the exact-best-path rule, its best node
    # is not flagged exact, and a flagged-exact terminal of smaller value exists
    variant_b = rng.chance(1, 3)
    n = 3 if variant_b else rng.choice([3, 3, 4])
    I.nvars = n; I.order = list(range(n)); I.initval = rng.range(-2, 3)
    k1 = w + rng.range(1, 3)                    # layer 1 wider than the width
    k2 = w + rng.range(1, 2)                    # layer 2 wider than width - 1 (so that something is merged)
    # ids: root 0; layer 1 = 1..k1 (a = 1, the lowest); layer 2 = k1+1 .. k1+k2 (b = the highest); deeper layers: one or two states each
    l1 = list(range(1, k1 + 1)); l2 = list(range(k1 + 1, k1 + k2 + 1)); a = l1[0]; b = l2[-1]
    nb = k1 + k2 + 1
    deeper = []
    for _ in range(n - 2):
        wd = 2 if variant_b else rng.range(1, 2); deeper.append(list(range(nb, nb + wd))); nb += wd
    I.nbase = nb; I.init = 0
    big = rng.range(6, 12)
    # root -> layer 1: value v leads to l1[v]
    for v, d in enumerate(l1): I.trans.append((0, 0, v, d, rng.range(0, 3)))
    # a -> b only, with a large cost: the optimum
    I.trans.append((1, a, 0, b, big + rng.range(4, 8)))
    # the other layer-1 states go to the non-b states of layer 2 with small costs (1 or 2 transitions each)
    for s_ in l1[1:]:
        for v in range(rng.range(1, 2)):
            I.trans.append((1, s_, v, rng.choice(l2[:-1]), rng.range(0, 4)))
    # layer 2 onwards: chains of small costs down to the terminal layer
    prev = l2
    for j, lay in enumerate(deeper):
        x = 2 + j
        for s_ in prev:
            if variant_b:
                T, T2 = lay[0], lay[1]
                if s_ == b:
                    I.trans.append((x, s_, 0, T, rng.range(5, 9))); I.trans.append((x, s_, 1, T2, rng.range(0, 3)))
                else:
                    I.trans.append((x, s_, 0, T, rng.range(0, 3)))
                continue
            for v in range(rng.range(1, 2)):
                I.trans.append((x, s_, v, rng.choice(lay), rng.range(0, 3)))
        prev = lay
    # A: merged arcs are over-estimated by more than the optimum's margin; B: no over-estimation, the exact path stays the best
    I.slack = 0 if variant_b else rng.range(big + 10, big + 20)
    I.rubkind = 0; I.domkind = 0
    I.width_hint = w
    return I


def gen_topmerge(rng, nvars=None, k=None, rub=None):
    """Dense layered graphs with ONE dedicated merged state per layer: layer d has k ordinary states plus a top state T_d; every ordinary
    state has an arc to about two thirds of the states of the next layer (value = index of the target); T_d has, towards every target,
    the best cost any state of its layer has (so it simulates all of them) and leads to the same ordinary target; merging any set of states
    of layer d yields T_d (chain relaxation: up[b] = T_d). The same merged state therefore re-appears in every diagram, very heavy
    re-convergence: cache hits inside compilations are frequent. Optional rough-bound table = exact completion + random slack."""
    I = Inst()
    n = nvars if nvars is not None else rng.range(4, 8)
    k = k if k is not None else rng.range(3, 4)
    I.nvars = n; I.order = list(range(n)); I.initval = 0
    # ids: layer 0 = [0] (+ its top, unused); layer d >= 1: ordinary states then the top
    layers = [[0]]; tops = [None]; nb = 1
    for d in range(1, n + 1):
        layers.append(list(range(nb, nb + k))); nb += k
        tops.append(nb); nb += 1
    I.nbase = nb; I.init = 0
    I.orderkind = 1; I.slack = 0
    I.pos = [0] * nb; I.up = list(range(nb))
    for d in range(1, n + 1):
        for b in layers[d]: I.up[b] = tops[d]; I.pos[b] = 0
        I.pos[tops[d]] = 1; I.up[tops[d]] = tops[d]
    for d in range(n):
        nxt = layers[d + 1]
        best = {}
        for b in layers[d]:
            for t, dst in enumerate(nxt):
                if rng.below(3) != 0:
                    c = rng.below(13) - 3
                    I.trans.append((d, b, t, dst, c)); best[t] = max(best.get(t, -10**9), c)
        if d >= 1:
            for t, c in best.items(): I.trans.append((d, tops[d], t, nxt[t], c))
    rk = rub if rub is not None else rng.choice([0, 1])
    if rk == 0: I.rubkind = 0
    else:
        H = I.hbase()
        I.rubkind = 1; I.rub = []
        for b in range(nb):
            hs = [H[j][b] for j in range(n + 1) if H[j][b] is not None]
            I.rub.append((max(hs) + rng.choice([0, 2, 6, 40])) if hs else -1000)
        for d in range(1, n + 1):
            I.rub[tops[d]] = max(I.rub[b] for b in layers[d] + [tops[d]])
    I.domkind = 0
    return I
