"""Instance generators for the C16 check (one per example input format).

Every generator returns a dict
    {"text": <file content>, "shape": <name of the shape>, "cls": <finding class>, "size": <int>, "arg": <optional>}
built from a seeded Rng (tools/gen.py).  `cls` is "<example>-core" for the core distribution (instances nobody would
dispute are well formed) and a more specific class for shapes that are accepted by the example's parser but stretch an
unstated assumption of its model (negative knapsack profits, negative misp weights, duplicate clauses / edges, ...).
`exhaustive(name)` yields the bounded-exhaustive families of the very smallest sizes (thorough tier).
"""
import itertools, os
from gen import Rng

EXAMPLES = ["knapsack", "misp", "max2sat", "mcp", "lcs", "golomb", "sop", "tsptw", "srflp", "talentsched", "psp", "alp"]


def inst(example, text, shape, size, cls="core", arg=None):
    return {"example": example, "text": text, "shape": shape, "cls": "%s-%s" % (example, cls), "size": size, "arg": arg}


# ------------------------------------------------------------------------------------------------ knapsack
def _floor_triples():
    """(c, w, p) with c*p/w an integer but floor((c/w)*p) in f64 one below (the example's rough bound)."""
    out = []
    for w in range(2, 60):
        for p in range(1, 100):
            for c in range(1, w):
                if (c * p) % w == 0 and int((float(c) / float(w)) * float(p)) < (c * p) // w:
                    out.append((c, w, p))
    return out

FLOOR_TRIPLES = _floor_triples()


def knapsack_text(cap, items, comment=False):
    s = ("c generated\n" if comment else "") + "%d %d\n" % (len(items), cap)
    return s + "".join("%d %d\n" % (p, w) for (p, w) in items)


def gen_knapsack(r, i):
    shape = ["plain", "weightless_late", "ties", "zero_weight", "single", "ratio_floor", "ratio_floor2", "tight", "zero_cap",
             "negative_profit", "plain", "weightless_late"][i % 12]
    cls = "core"
    if shape == "single":
        items = [(r.range(0, 20), r.range(0, 10))]
        cap = r.range(0, 12)
    elif shape == "ties":
        n = r.range(2, 8); q = r.range(1, 5)
        items = []
        for _ in range(n):
            w = r.range(1, 9)
            items.append((w * q if r.chance(2, 3) else r.range(0, 30), w))
        cap = r.range(0, sum(w for _, w in items))
    elif shape == "zero_weight":
        n = r.range(1, 8)
        items = [(r.range(0, 25), 0 if r.chance(1, 3) else r.range(1, 10)) for _ in range(n)]
        cap = r.range(0, 1 + sum(w for _, w in items))
    elif shape == "weightless_late":
        # a weightless item of small profit next to two mutually exclusive items A (better ratio) and B (fills the sack, larger
        # profit): the optimum is B + the weightless item, and a state of residual capacity 0 still has profit to collect
        cap = r.range(2, 9); wa = r.range(1, cap - 1)
        q = r.range(1, 4)
        pb = q * cap + r.range(0, cap - 1)
        pa = min(pb - 1, (pb * wa) // cap + r.range(1, 3))
        items = [(pa, wa), (pb, cap)]
        for _ in range(r.range(0, 2)):
            xw = r.range(1, 9); items.append((max(1, (pb * xw) // cap - r.range(0, 4)), xw))
        r.shuffle(items)
        items.insert(r.below(len(items) + 1), (r.range(1, max(1, q)), 0))
    elif shape == "zero_cap":
        n = r.range(1, 6)
        items = [(r.range(0, 25), r.range(0, 3)) for _ in range(n)]
        cap = 0
    elif shape == "tight":
        n = r.range(3, 8)
        items = [(r.range(1, 40), r.range(1, 12)) for _ in range(n)]
        cap = max(1, sum(w for _, w in items) // 2)
    elif shape == "ratio_floor":
        # A = (p, w) is split by the bound at remaining capacity c; B has the same ratio and fills c exactly;
        # C is one below B; a prefix of better items leaves exactly c (or 2c) units
        c, w, p = r.choice(FLOOR_TRIPLES)
        b = (c * p // w, c)
        items = [(p, w), b, (b[0] - 1, c)]
        if r.chance(1, 2): items.append((b[0] - r.range(1, 3), c))
        pre = []
        for _ in range(r.range(0, 3)):
            pw = r.range(1, 6)
            pre.append((pw * (p // w + r.range(1, 4)) + r.range(0, 3), pw))
        if r.chance(1, 2): pre.append(b)            # an equal-ratio item placed BEFORE A in the file
        items = pre + items
        cap = sum(x[1] for x in pre) + c * r.choice([1, 1, 2])
        if r.chance(1, 4): r.shuffle(items)
    elif shape == "ratio_floor2":
        # same defect, looser recipe (the one that produced wrong objectives at width 1): the split item, an item of the same
        # ratio that fits the residual capacity, a few items of a slightly better ratio in front, a few slightly worse behind
        c, w, p = r.choice(FLOOR_TRIPLES)
        items = [(p, w), (c * p // w, c)]
        for _ in range(r.range(1, 3)):
            dw = r.range(1, 8); dp = (p * dw) // w + r.range(0, 6)
            items.insert(r.below(len(items) + 1) if r.chance(1, 3) else 0, (dp, dw))
        for _ in range(r.range(0, 2)):
            xw = r.range(1, 9); items.append((max(1, (p * xw) // w - r.range(0, 5)), xw))
        cap = r.range(c, max(c, sum(x[1] for x in items) - 1))
    elif shape == "negative_profit":
        n = r.range(1, 7)
        items = [(r.range(-10, 20), r.range(1, 9)) for _ in range(n)]
        cap = r.range(0, sum(w for _, w in items))
        cls = "negative-profit"
    else:
        n = r.range(1, 9)
        items = [(r.range(0, 30), r.range(1, 12)) for _ in range(n)]
        cap = r.range(0, sum(w for _, w in items) + 2)
    return inst("knapsack", knapsack_text(cap, items, comment=r.chance(1, 5)), shape, len(items), cls)


def exh_knapsack():
    vals = [(p, w) for p in (0, 1, 3) for w in (0, 1, 2)]
    for n in (1, 2):
        for items in itertools.product(vals, repeat=n):
            for cap in (0, 1, 2, 3):
                yield inst("knapsack", knapsack_text(cap, list(items)), "exhaustive", n)


# ------------------------------------------------------------------------------------------------ misp
def misp_text(n, weights, edges, comment=False, nodes_last=False):
    lines = []
    if comment: lines.append("c generated")
    lines.append("p edge %d %d" % (n, len(edges)))
    nl = ["n %d %d" % (v + 1, w) for v, w in sorted(weights.items())]
    el = ["e %d %d" % (u + 1, v + 1) for u, v in edges]
    lines += (el + nl) if nodes_last else (nl + el)
    return "\n".join(lines) + "\n"


def gen_misp(r, i):
    shape = ["plain", "unweighted", "dense", "sparse", "zero_weights", "dup_edges", "single", "negative", "negative", "plain"][i % 10]
    cls = "core"
    n = 1 if shape == "single" else r.range(2, 8)
    pairs = [(u, v) for u in range(n) for v in range(u + 1, n)]
    den = {"dense": (3, 4), "sparse": (1, 5)}.get(shape, (r.range(1, 3), 4))
    edges = [(u, v) if r.chance(1, 2) else (v, u) for (u, v) in pairs if r.chance(*den)]
    if shape == "dup_edges" and edges:
        for _ in range(r.range(1, 3)):
            u, v = r.choice(edges); edges.append(r.choice([(u, v), (v, u)]))
    r.shuffle(edges)
    weights = {}
    if shape != "unweighted":
        for v in range(n):
            if shape == "negative":
                weights[v] = r.range(-6, 9)
            elif shape == "zero_weights":
                weights[v] = r.choice([0, 0, 1, 2, 5])
            elif r.chance(4, 5):
                weights[v] = r.range(1, 12)
    if shape == "negative":
        cls = "negative-weight"
    return inst("misp", misp_text(n, weights, edges, comment=r.chance(1, 4), nodes_last=r.chance(1, 3)), shape, n, cls)


def exh_misp():
    for n in (1, 2, 3):
        pairs = [(u, v) for u in range(n) for v in range(u + 1, n)]
        for k in range(len(pairs) + 1):
            for edges in itertools.combinations(pairs, k):
                for ws in itertools.product((0, 1, 2), repeat=n):
                    yield inst("misp", misp_text(n, dict(enumerate(ws)), list(edges)), "exhaustive", n)


# ------------------------------------------------------------------------------------------------ max2sat
def max2sat_text(n, clauses, comment=False):
    lines = ["c generated"] if comment else []
    lines.append("p wcnf %d %d" % (n, len(clauses)))
    for (w, x, y, short) in clauses:
        lines.append("%d %d 0" % (w, x) if short else "%d %d %d 0" % (w, x, y))
    return "\n".join(lines) + "\n"


def gen_max2sat(r, i):
    shape = ["plain", "plain", "units", "tautologies", "negative_wt", "zero_wt", "empty", "single_var", "dense", "duplicate"][i % 10]
    cls = "core"
    n = 1 if shape == "single_var" else r.range(2, 6)
    m = 0 if shape == "empty" else r.range(1, 4 * n if shape == "dense" else 2 * n + 2)
    seen = set(); clauses = []
    for _ in range(m):
        x = r.range(1, n) * r.choice([1, -1])
        kind = r.below(10)
        if shape == "units" and r.chance(1, 2): kind = 0
        if shape == "tautologies" and r.chance(1, 2): kind = 1
        if kind == 0: y = x
        elif kind == 1: y = -x
        else: y = r.range(1, n) * r.choice([1, -1])
        key = (min(x, y), max(x, y))
        if key in seen: continue
        seen.add(key)
        if shape == "negative_wt": w = r.range(-9, 9)
        elif shape == "zero_wt": w = r.choice([0, 0, 1, 3])
        else: w = r.range(1, 12)
        clauses.append((w, x, y, x == y and r.chance(1, 2)))
    if shape == "duplicate" and clauses:
        for _ in range(r.range(1, 2)):
            (w, x, y, s) = r.choice(clauses)
            clauses.append((r.range(1, 9), y, x, False) if r.chance(1, 2) else (r.range(1, 9), x, y, False))
        r.shuffle(clauses)
        cls = "duplicate-clause"
    return inst("max2sat", max2sat_text(n, clauses, comment=r.chance(1, 4)), shape, n, cls)


def exh_max2sat():
    # n = 2: every set of at most 3 distinct clauses among the 10 possible ones, weights in {1, 2} by position
    lits = [1, -1, 2, -2]
    allc = sorted(set((min(x, y), max(x, y)) for x in lits for y in lits))
    for k in (0, 1, 2, 3):
        for cs in itertools.combinations(allc, k):
            for ws in itertools.product((1, 2), repeat=k):
                yield inst("max2sat", max2sat_text(2, [(w, x, y, False) for w, (x, y) in zip(ws, cs)]), "exhaustive", 2)


# ------------------------------------------------------------------------------------------------ mcp
def mcp_text(n, edges, comment=False):
    lines = ["c generated graph"] if comment else []
    lines.append("%d %d" % (n, len(edges)))
    lines += ["%d %d %d" % (u + 1, v + 1, w) for (u, v, w) in edges]
    return "\n".join(lines) + "\n"


def gen_mcp(r, i):
    shape = ["mixed", "mixed", "positive", "negative", "unit", "zero_wt", "no_edges", "single", "dense", "duplicate"][i % 10]
    cls = "core"
    n = 1 if shape == "single" else r.range(2, 8)
    pairs = [(u, v) for u in range(n) for v in range(u + 1, n)]
    den = (0, 1) if shape == "no_edges" else (4, 5) if shape == "dense" else (r.range(1, 3), 4)
    edges = []
    for (u, v) in pairs:
        if not r.chance(*den): continue
        if shape == "positive": w = r.range(1, 9)
        elif shape == "negative": w = r.range(-9, -1)
        elif shape == "unit": w = r.choice([1, -1])
        elif shape == "zero_wt": w = r.choice([0, 0, 2, -2])
        else: w = r.range(-6, 9)
        edges.append((u, v, w) if r.chance(1, 2) else (v, u, w))
    r.shuffle(edges)
    if shape == "duplicate" and edges:
        u, v, w = r.choice(edges)
        edges.append((v, u, r.range(-5, 8)))
        cls = "duplicate-edge"
    return inst("mcp", mcp_text(n, edges, comment=r.chance(1, 3)), shape, n, cls)


def exh_mcp():
    for n in (1, 2, 3):
        pairs = [(u, v) for u in range(n) for v in range(u + 1, n)]
        for ws in itertools.product((None, -2, -1, 1, 2), repeat=len(pairs)):
            yield inst("mcp", mcp_text(n, [(u, v, w) for (u, v), w in zip(pairs, ws) if w is not None]), "exhaustive", n)


# ------------------------------------------------------------------------------------------------ lcs
def lcs_text(strings, nchars=None):
    alpha = set("".join(strings))
    k = len(alpha) if nchars is None else nchars
    return "%d\t%d\n" % (len(strings), k) + "".join("%d\t%s\n" % (len(s), s) for s in strings)


def gen_lcs(r, i):
    shape = ["plain", "plain", "binary", "identical", "disjoint", "single", "many", "long_short", "bigger_alphabet", "repeats"][i % 10]
    letters = "ab" if shape in ("binary", "repeats") else "acgt"[:r.range(2, 4)]
    def word(lo, hi): return "".join(r.choice(letters) for _ in range(r.range(lo, hi)))
    if shape == "single":
        strings = [word(1, 8)]
    elif shape == "identical":
        w = word(1, 8); strings = [w] * r.range(2, 3)
    elif shape == "disjoint":
        strings = ["".join(r.choice("ac") for _ in range(r.range(1, 6))), "".join(r.choice("gt") for _ in range(r.range(1, 6)))]
    elif shape == "many":
        strings = [word(2, 7) for _ in range(r.range(4, 5))]
    elif shape == "long_short":
        strings = [word(1, 3), word(8, 14), word(6, 12)]
    elif shape == "repeats":
        strings = [r.choice(["ab", "ba", "aab", "abb"]) * r.range(1, 3) for _ in range(r.range(2, 3))]
    else:
        strings = [word(2, 9) for _ in range(r.range(2, 3))]
    nchars = None
    if shape == "bigger_alphabet":
        nchars = len(set("".join(strings))) + r.range(1, 2)
    # the oracle enumerates the sub-sequences of the FIRST string: put a shortest one first (any order is well formed)
    if r.chance(1, 2):
        k = min(range(len(strings)), key=lambda j: len(strings[j]))
        strings[0], strings[k] = strings[k], strings[0]
    if min(len(s) for s in strings) > 10 or len(strings[0]) > 12:
        strings[0] = strings[0][:10]
    return inst("lcs", lcs_text(strings, nchars), shape, sum(len(s) for s in strings))


def exh_lcs():
    words = ["".join(w) for k in (1, 2, 3) for w in itertools.product("ab", repeat=k)]
    for a in words:
        for b in words:
            yield inst("lcs", lcs_text([a, b], 2), "exhaustive", len(a) + len(b))


# ------------------------------------------------------------------------------------------------ golomb
def gen_golomb_all(max_n):
    return [inst("golomb", "%d\n" % n, "n=%d" % n, n, arg=str(n)) for n in range(1, max_n + 1)]


# ------------------------------------------------------------------------------------------------ sop
def sop_text(d, name="gen"):
    n = len(d)
    hdr = ["NAME: %s.sop" % name, "TYPE: SOP", "COMMENT: generated", "DIMENSION: %d" % n, "EDGE_WEIGHT_TYPE: EXPLICIT",
           "EDGE_WEIGHT_FORMAT: FULL_MATRIX", "EDGE_WEIGHT_SECTION", "%d" % n]
    rows = [" ".join("%5d" % x for x in row) for row in d]
    return "\n".join(hdr + rows + ["EOF"]) + "\n"


def gen_sop(r, i):
    shape = ["plain", "plain", "no_prec", "chain", "closed_dense", "two_nodes", "three_nodes", "zero_costs", "ties", "nonclosed",
             "plain", "plain", "no_prec", "chain", "closed_dense", "cyclic", "three_nodes", "zero_costs", "ties", "nonclosed"][i % 20]
    cls = "core"
    n = 2 if shape == "two_nodes" else 3 if shape == "three_nodes" else r.range(4, 8)
    if shape == "cyclic": n = r.range(4, 5)
    hi = 0 if shape == "zero_costs" else 3 if shape == "ties" else 30
    d = [[0 if a == b else r.range(0, hi) for b in range(n)] for a in range(n)]
    mid = list(range(1, n - 1)); r.shuffle(mid)
    pos = {v: k for k, v in enumerate(mid)}
    prec = set()                                  # (a, b): a before b
    if shape == "chain":
        for k in range(len(mid) - 1): prec.add((mid[k], mid[k + 1]))
    elif shape != "no_prec":
        den = (1, 2) if shape == "closed_dense" else (r.range(1, 2), 5)
        for a in mid:
            for b in mid:
                if pos[a] < pos[b] and r.chance(*den): prec.add((a, b))
    if shape != "nonclosed":                      # transitive closure, as in the TSPLIB files
        changed = True
        while changed:
            changed = False
            for (a, b) in list(prec):
                for (c, e) in list(prec):
                    if b == c and (a, e) not in prec:
                        prec.add((a, e)); changed = True
    elif any((a, b) in prec and (b, c) in prec and (a, c) not in prec for a in mid for b in mid for c in mid):
        cls = "nonclosed-precedences"
    for (a, b) in prec: d[b][a] = -1
    if shape == "cyclic" and len(mid) >= 2:       # contradictory precedences: no feasible order
        d[mid[0]][mid[1]] = -1; d[mid[1]][mid[0]] = -1
    for v in range(1, n): d[v][0] = -1            # node 0 comes first
    for v in range(0, n - 1): d[n - 1][v] = -1    # node n-1 comes last
    if n > 2 and r.chance(1, 2): d[0][n - 1] = 1000000
    return inst("sop", sop_text(d), shape, n, cls)


def exh_sop():
    # 4 nodes: every cost matrix entry that matters in {0, 2} for the two middle nodes, with / without a precedence
    for vals in itertools.product((0, 2), repeat=6):
        for prec in (None, (1, 2), (2, 1)):
            a01, a02, a12, a21, a13, a23 = vals
            d = [[0, a01, a02, 1000000], [-1, 0, a12, a13], [-1, a21, 0, a23], [-1, -1, -1, 0]]
            if prec: d[prec[1]][prec[0]] = -1
            yield inst("sop", sop_text(d), "exhaustive", 4)


# ------------------------------------------------------------------------------------------------ tsptw
def _num(x4):
    """x4 = value in quarters -> decimal text exactly representable in binary32"""
    q, rem = divmod(x4, 4)
    return "%d" % q if rem == 0 else "%d%s" % (q, {1: ".25", 2: ".5", 3: ".75"}[rem])


def tsptw_text(d4, tw4, comment=False):
    n = len(d4)
    lines = ["# generated"] if comment else []
    lines.append("%d" % n)
    lines += [" ".join(_num(x) for x in row) for row in d4]
    lines += ["%-9s %-9s" % (_num(e), _num(l)) for (e, l) in tw4]
    return "\n".join(lines) + "\n"


def _closure(d):
    n = len(d)
    for k in range(n):
        for a in range(n):
            for b in range(n):
                if d[a][k] + d[k][b] < d[a][b]: d[a][b] = d[a][k] + d[k][b]


def gen_tsptw(r, i):
    shape = ["feasible", "feasible", "tight", "wide", "random_tw", "fractional", "two_nodes", "depot_only", "asymmetric", "nonmetric"][i % 10]
    cls = "core"
    n = 1 if shape == "depot_only" else 2 if shape == "two_nodes" else r.range(3, 7)
    unit = 1 if shape == "fractional" else 4      # everything below is in quarters
    if shape in ("asymmetric", "nonmetric"):
        d = [[0 if a == b else unit * r.range(1, 30) for b in range(n)] for a in range(n)]
    else:
        d = [[0] * n for _ in range(n)]
        for a in range(n):
            for b in range(a + 1, n):
                d[a][b] = d[b][a] = unit * r.range(1, 30)
    if shape != "nonmetric":
        _closure(d)
    else:
        cls = "nonmetric"
    # time windows around the arrival times of a hidden tour (feasible by construction) or at random
    tour = list(range(1, n)); r.shuffle(tour)
    tw = [(0, 0)] * n
    t = 0; cur = 0
    slack_hi = {"tight": 2, "wide": 200}.get(shape, 25)
    for j in tour:
        arr = t + d[cur][j]
        e = max(0, arr - unit * r.range(0, slack_hi)) if r.chance(2, 3) else arr + unit * r.range(0, 10)
        l = max(arr, e) + unit * r.range(0, slack_hi)
        tw[j] = (e, l); t = max(arr, e); cur = j
    horizon = t + d[cur][0] + unit * r.range(0, 40)
    tw[0] = (0, horizon)
    if shape == "random_tw":
        for j in range(1, n):
            e = unit * r.range(0, 60); tw[j] = (e, e + unit * r.range(0, 60))
        tw[0] = (0, unit * r.range(20, 250))
    return inst("tsptw", tsptw_text(d, tw, comment=r.chance(1, 3)), shape, n, cls)


def exh_tsptw():
    # 3 nodes, symmetric metric distances in {1,2}, windows from a small grid (includes infeasible ones)
    for (a, b, c) in itertools.product((1, 2), repeat=3):
        d = [[0, 4 * a, 4 * b], [4 * a, 0, 4 * c], [4 * b, 4 * c, 0]]
        for (e1, l1, e2, l2) in itertools.product((0, 3), (1, 3, 6), (0, 3), (1, 3, 6)):
            if e1 > l1 or e2 > l2: continue
            for l0 in (4, 9):
                yield inst("tsptw", tsptw_text(d, [(0, 4 * l0), (4 * e1, 4 * l1), (4 * e2, 4 * l2)]), "exhaustive", 3)


# ------------------------------------------------------------------------------------------------ srflp
def srflp_text(lens, flows, commas=True):
    sep = "," if commas else " "
    return "\n".join(["%d" % len(lens), sep.join(map(str, lens))] + [sep.join(map(str, row)) for row in flows]) + "\n"


def gen_srflp(r, i):
    shape = ["plain", "plain", "equal_lengths", "sparse", "dense", "zero_flows", "single", "two", "ties", "plain"][i % 10]
    n = 1 if shape == "single" else 2 if shape == "two" else r.range(3, 7)
    lens = [r.range(1, 4) * 2 if shape == "ties" else r.range(1, 12) for _ in range(n)]
    if shape == "equal_lengths": lens = [lens[0]] * n
    flows = [[0] * n for _ in range(n)]
    for a in range(n):
        for b in range(a + 1, n):
            if shape == "zero_flows": f = 0
            elif shape == "sparse": f = r.range(1, 9) if r.chance(1, 3) else 0
            elif shape == "ties": f = r.choice([0, 1, 1, 2])
            else: f = r.range(0, 9)
            flows[a][b] = flows[b][a] = f
    return inst("srflp", srflp_text(lens, flows, commas=r.chance(2, 3)), shape, n)


def exh_srflp():
    for lens in itertools.product((1, 2), repeat=3):
        for (a, b, c) in itertools.product((0, 1, 2), repeat=3):
            yield inst("srflp", srflp_text(list(lens), [[0, a, b], [a, 0, c], [b, c, 0]]), "exhaustive", 3)


# ------------------------------------------------------------------------------------------------ talentsched
def talent_text(dur, actors, one_line=False, name="gen"):
    ns, na = len(dur), len(actors)
    lines = [name] + (["%d %d" % (ns, na)] if one_line else ["%d" % ns, "%d" % na]) + [""]
    for (cost, flags) in actors:
        lines.append(" ".join("1" if f else "0" for f in flags) + "    %d" % cost)
    lines += ["", " ".join(map(str, dur))]
    return "\n".join(lines) + "\n"


def gen_talentsched(r, i):
    shape = ["plain", "plain", "unit", "dense", "sparse", "zero_cost", "single_scene", "single_actor", "idle_actor", "ties"][i % 10]
    ns = 1 if shape == "single_scene" else r.range(2, 7)
    na = 1 if shape == "single_actor" else r.range(2, 8)
    den = (3, 4) if shape == "dense" else (1, 4) if shape == "sparse" else (1, 2)
    dur = [1 if shape == "unit" else r.range(1, 3) if shape == "ties" else r.range(1, 9) for _ in range(ns)]
    actors = []
    for a in range(na):
        flags = [r.chance(*den) for _ in range(ns)]
        if shape == "idle_actor" and a == 0: flags = [False] * ns
        cost = 1 if shape == "unit" else r.choice([0, 0, 3, 5]) if shape == "zero_cost" else r.range(1, 3) if shape == "ties" else r.range(1, 20)
        actors.append((cost, flags))
    return inst("talentsched", talent_text(dur, actors, one_line=r.chance(1, 2)), shape, ns)


def exh_talentsched():
    # 3 scenes of durations (1, 2, 1), 2 actors of costs (1, 2): every pair of presence patterns
    pats = list(itertools.product((False, True), repeat=3))
    for p1 in pats:
        for p2 in pats:
            yield inst("talentsched", talent_text([1, 2, 1], [(1, list(p1)), (2, list(p2))]), "exhaustive", 3)


# ------------------------------------------------------------------------------------------------ psp
def psp_text(T, change, stock, dem, trailer=True):
    ni = len(stock)
    lines = ["%d" % T, "%d" % ni, "%d" % sum(sum(row) for row in dem), ""]
    lines += [" ".join(map(str, row)) for row in change] + [""]
    lines += [" ".join(map(str, stock)), ""]
    lines += [" ".join(map(str, row)) for row in dem]
    if trailer: lines += ["", "0"]
    return "\n".join(lines) + "\n"


def gen_psp(r, i):
    shape = ["plain", "plain", "full", "late", "one_item", "zero_stock", "zero_change", "one_period", "infeasible", "ties"][i % 10]
    ni = 1 if shape == "one_item" else r.range(2, 3)
    T = 1 if shape == "one_period" else r.range(2, 6 if ni < 3 else 5)
    change = [[0 if a == b else (0 if shape == "zero_change" else r.range(1, 3) if shape == "ties" else r.range(0, 12)) for b in range(ni)] for a in range(ni)]
    stock = [0 if shape == "zero_stock" else r.range(1, 2) if shape == "ties" else r.range(0, 9) for _ in range(ni)]
    dem = [[0] * T for _ in range(ni)]
    # feasible demands: pick production slots, then put each demand at or after its slot
    slots = list(range(T)); r.shuffle(slots)
    k = T if shape == "full" else r.range(0 if T > 1 else 0, T)
    for t in sorted(slots[:k]):
        it = r.below(ni)
        due = T - 1 if shape == "late" else r.range(t, T - 1)
        while due < T and dem[it][due] == 1: due += 1
        if due < T: dem[it][due] = 1
    if shape == "infeasible":
        t = r.range(0, max(0, T - 2))
        for it in range(ni): dem[it][t] = 1
        for it in range(ni):
            for u in range(t): dem[it][u] = 1 if r.chance(1, 2) else dem[it][u]
    return inst("psp", psp_text(T, change, stock, dem, trailer=r.chance(1, 2)), shape, T)


def exh_psp():
    # 2 items, 3 periods, fixed costs: every 0/1 demand matrix
    for bits in itertools.product((0, 1), repeat=6):
        yield inst("psp", psp_text(3, [[0, 3], [1, 0]], [2, 1], [list(bits[:3]), list(bits[3:])]), "exhaustive", 3)


# ------------------------------------------------------------------------------------------------ alp
def alp_text(nrun, ac, sep):
    lines = ["%d %d %d" % (len(ac), len(sep), nrun)]
    lines += ["%d %d %d" % a for a in ac]
    lines += [" ".join(map(str, row)) for row in sep]
    return "\n".join(lines) + "\n"


def gen_alp(r, i):
    shape = ["plain", "plain", "one_runway", "one_class", "tight", "loose", "single", "simultaneous", "nonagreeable", "unsorted"][i % 10]
    cls = "core"
    n = 1 if shape == "single" else r.range(2, 5)
    nc = 1 if shape == "one_class" else r.range(1, 3)
    nr = 1 if shape == "one_runway" else r.range(1, 3 if n <= 4 else 2)
    sep = [[r.range(1, 12) for _ in range(nc)] for _ in range(nc)]
    for k in range(nc):                            # triangle inequality (loops included)
        for a in range(nc):
            for b in range(nc):
                if sep[a][k] + sep[k][b] < sep[a][b]: sep[a][b] = sep[a][k] + sep[k][b]
    targets = sorted(r.range(0, 0 if shape == "simultaneous" else 30) for _ in range(n))
    classes = [r.below(nc) for _ in range(n)]
    slack = {"tight": 6, "loose": 200}.get(shape, 40)
    ac = []
    last_latest = {}
    for t, c in zip(targets, classes):
        l = t + r.range(0, slack)
        if shape not in ("nonagreeable", "unsorted"):
            l = max(l, last_latest.get(c, 0))       # within a class: later target => not earlier deadline
        last_latest[c] = l
        ac.append((t, l, c))
    if shape == "nonagreeable":
        cls = "nonagreeable-windows"
    if shape == "unsorted":
        r.shuffle(ac); cls = "unsorted-targets"
    return inst("alp", alp_text(nr, ac, sep), shape, n, cls)


def exh_alp():
    # 2 aircraft of one class, 1 or 2 runways, targets / slacks / separation from a small grid
    for nr in (1, 2):
        for (t2, s1, s2, sp) in itertools.product((0, 1, 3), (0, 2, 5), (0, 2, 5), (1, 3)):
            l1 = s1; l2 = max(t2 + s2, l1)
            yield inst("alp", alp_text(nr, [(0, l1, 0), (t2, l2, 0)], [[sp]]), "exhaustive", 2)


# ------------------------------------------------------------------------------------------------ corpus
# fixed instances that are always run (every width / thread configuration): the smallest witnesses of the defects found
# with this check, plus hand-crafted probes of the suspected ones (knapsack f64 rough bound)
def corpus(example):
    C = {
        "knapsack": [
            ("core", knapsack_text(8, [(100, 1), (90, 10), (63, 7), (62, 7)])),      # rub floor((7/10)*90) = 62 < 63
            ("core", knapsack_text(14, [(63, 7), (90, 10), (63, 7), (62, 7)])),
            ("core", knapsack_text(2, [(98, 49), (2, 1), (2, 1), (1, 1)])),          # rub floor((1/49)*98) = 1 < 2
            ("core", knapsack_text(12, [(5, 5), (4, 2), (55, 55), (7, 7)])),         # optimum 12, width 1 prints 11: (7/55)*55 = 6.999..
            ("core", knapsack_text(18, [(8, 2), (98, 49), (7, 1), (32, 16)])),       # optimum 40, width 1 prints 39
            ("core", knapsack_text(15, [(11, 5), (52, 26), (30, 15), (18, 9)])),     # optimum 30, width 1 prints 29
            ("negative-profit", knapsack_text(13, [(11, 5), (-7, 1), (16, 9), (3, 3), (18, 4)])),   # optimum 34, width 1 printed 32 (fixed e252898)
            ("core", knapsack_text(3, [(4, 2), (5, 3), (1, 0)])),                    # weightless item listed last: optimum 6
        ],
        "misp": [("negative-weight", misp_text(3, {0: 5, 1: -6, 2: 7}, [(1, 2), (2, 0)]))],          # optimum 7, width 1 prints 5
        "max2sat": [
            ("core", max2sat_text(3, [(1, 1, 2, False), (1, -1, -1, False), (2, -2, 3, False)])),   # optimum 4, width 1 prints 3
            ("core", max2sat_text(4, [(10, -1, -2, False), (7, -3, 4, False), (9, -1, 1, False), (12, 3, 2, False), (8, -4, -4, False),
                                      (10, -4, -1, False), (3, -3, -3, True), (6, -2, 1, False), (2, -3, -1, False), (1, 1, 1, False)])),  # 61, width 2 prints 67
            ("duplicate-clause", max2sat_text(2, [(4, 1, 2, False), (11, -2, 2, False), (9, 1, 2, False)])),
        ],
        "mcp": [
            ("core", mcp_text(4, [(0, 2, -1), (1, 2, -1), (1, 3, -1), (2, 3, 1)])),                  # max cut 0, width 3 prints 1
            ("core", mcp_text(5, [(4, 1, 3), (1, 2, 0), (1, 3, -2), (1, 0, -6), (2, 3, -2), (4, 0, -2), (2, 0, -1), (4, 3, -1), (2, 4, 1)])),  # 1, width 2 prints 2
            ("duplicate-edge", mcp_text(2, [(1, 0, -6), (0, 1, 2)])),
        ],
        "lcs": [("core", lcs_text(["abaaaa", "baaaba"], 2)),                                          # lcs 5, width 1 prints 4
                ("core", lcs_text(["baaabab", "aabbbbab"], 2))],
        "talentsched": [("core", open(os.path.join(os.path.dirname(os.path.dirname(os.path.abspath(__file__))), "corpus", "C16", "talentsched_width1_1497_vs_1496.txt")).read())],
        "sop": [("core", sop_text([[0, 23, 28, 29], [-1, 0, -1, 28], [-1, -1, 0, 15], [-1, -1, -1, 0]]))],   # contradictory precedences
        "psp": [("core", psp_text(2, [[0, 2], [9, 0]], [8, 8], [[1, 1], [1, 1]]))],                 # infeasible
        "alp": [("core", alp_text(1, [(0, 0, 0), (0, 0, 0)], [[1]])),                                # infeasible
                ("nonagreeable-windows", alp_text(1, [(0, 100, 0), (1, 5, 0)], [[10]]))],            # optimum 11, the DP finds nothing
    }
    return [inst(example, text, "corpus", 0, cls) for (cls, text) in C.get(example, [])]


# ------------------------------------------------------------------------------------------------ dispatch
GENERATORS = {"knapsack": gen_knapsack, "misp": gen_misp, "max2sat": gen_max2sat, "mcp": gen_mcp, "lcs": gen_lcs,
              "sop": gen_sop, "tsptw": gen_tsptw, "srflp": gen_srflp, "talentsched": gen_talentsched, "psp": gen_psp,
              "alp": gen_alp}
EXHAUSTIVE = {"knapsack": exh_knapsack, "misp": exh_misp, "max2sat": exh_max2sat, "mcp": exh_mcp, "lcs": exh_lcs,
              "sop": exh_sop, "tsptw": exh_tsptw, "srflp": exh_srflp, "talentsched": exh_talentsched, "psp": exh_psp,
              "alp": exh_alp}


def generate(example, rng, count):
    """`count` random instances of one example (golomb: the instance space is the integer n)."""
    if example == "golomb":
        return gen_golomb_all(7)
    g = GENERATORS[example]
    return [g(rng.fork(), i) for i in range(count)]


def exhaustive(example):
    if example == "golomb":
        return []
    return list(EXHAUSTIVE[example]())
